(** * Yield-point model of a client connection that submits a job and streams its events
    (the last sentence of property C13: "a client that submits a job and asks to be told when it
    ends always receives the job's completion report").

    Modelled code (crates/hyperqueue/src):
    - server/client/mod.rs    [client_rpc_loop] (arms [Submit(msg, Some(stream))] and
                              [StreamEvents]), [start_streaming], [stream_events];
    - server/event/streamer.rs [EventStreamer]: [register_listener], [unregister_listener],
                              [send_event] (= [forward]), [EventFilter::check], [flush_journal];
    - server/client/submit.rs [handle_submit] (job side only: new closed job / tasks into an open
                              job; no [check_termination] there), server/job.rs
                              [check_termination] (who emits JobCompleted / JobIdle), [close];
    - client/commands/wait.rs [wait_for_jobs] / [wait_for_jobs_with_progress] (what the client
                              waits for: field [waits] of the response).

    The server is a single-threaded cooperative executor (tokio LocalSet).  A connection handler
    runs atomically from one [await] to the next; at an [await] anything else may run.  Hence the
    labels: [LConn c] runs connection [c] from its current yield point to its next one, [LEnv e]
    is any other server activity (a worker message that ends tasks, other clients' plain
    requests), [LFlushAck c] the journal thread's answer to the flush request of [c], [LRequest]
    / [LClose] are the client's side of connection [c].  Other streaming clients are simply other
    connections; their number is unbounded.

    Abstractions (stated, not hidden): the job layer is reduced to "open flag + number of
    non-terminal tasks" per job (its exactness is theorem C13_system_counters_exact of the big
    model); event payloads are reduced to their kind and job; only live streaming
    ([StreamEventsMode::LiveEvents], what submit --wait / --progress asks for) is modelled, not the
    replay of past events; worker-overview listeners are ignored; time stamps are dropped.
    Listener ids are explicit ([l_id]); the u32 overflow of [max + 1] is a [Panic]. *)
From HQ Require Import Base.Prelude.
Local Open Scope N_scope.

Definition jobid := N.
Definition lid := N.
Definition conn := N.

(** ** Events and filters ([EventPayload], [EventFilter]) *)
Inductive ev :=
| WvSubmit (j : jobid)
| WvCompleted (j : jobid)
| WvIdle (j : jobid)
| WvOpen (j : jobid)
| WvClose (j : jobid)
| WvCancel (j : jobid)
| WvTask (j : jobid)        (* TaskStarted / Finished / Failed / TasksCanceled / TasksAborted of job j *)
| WvWorker.               (* worker / allocation events *)

Definition ev_eq_dec : forall a b : ev, {a = b} + {a <> b}.
Proof. decide equality; apply N.eq_dec. Defined.

Record efilter := mkF { f_jobs : option (list jobid); f_job_ev : bool; f_task_ev : bool; f_worker_ev : bool }.

Definition job_sel (f : efilter) (j : jobid) : bool :=
  match f_jobs f with None => true | Some js => existsb (N.eqb j) js end.

(** [EventFilter::check] *)
Definition fcheck (f : efilter) (e : ev) : bool :=
  match e with
  | WvSubmit j | WvCompleted j | WvIdle j | WvOpen j | WvClose j | WvCancel j => f_job_ev f && job_sel f j
  | WvTask j => f_task_ev f && job_sel f j
  | WvWorker => f_worker_ev f
  end.

(** ** Messages to the client *)
Inductive msg :=
| MResp (j : jobid) (waits : bool)   (* SubmitResponse::Ok; [waits]: the job info in it makes the client wait *)
| MErr                             (* any error response *)
| MEvent (e : ev).

Definition msg_eq_dec : forall a b : msg, {a = b} + {a <> b}.
Proof. decide equality; try apply N.eq_dec; try apply Bool.bool_dec; apply ev_eq_dec. Defined.

(** ** State *)
Record jrec := mkJ { jr_open : bool; jr_active : N }.

(** [EventListener]: the [sender] is identified by the connection that holds the receiver. *)
Record listener := mkL { l_id : lid; l_filter : efilter; l_chan : conn }.

(** Program counter of a connection = the [await] at which its handler is suspended. *)
Inductive pc :=
| PcSubmitReq (target : option jobid) (n : N) (flt : efilter)  (* at [rx.next().await]; Submit(msg, Some(stream)) has arrived *)
| PcStreamReq (flt : efilter)                                (* at [rx.next().await]; StreamEvents(msg) has arrived *)
| PcFlushReg (i : lid) (m : msg)       (* current order: listener registered, at [flush_journal().await] *)
| PcFlushPre (flt : efilter) (m : msg)  (* order before 74067fa: at [flush_journal().await], nothing registered *)
| PcStream (i : lid)                   (* in [stream_events]: at the [select!] / after [tx.send(..).await] *)
| PcDone.                              (* handler has left [start_streaming] (or answered an error) *)

Record connrec := mkC {
  c_pc : pc;
  c_closed : bool;        (* the client has closed the connection *)
  c_flushed : bool;       (* the journal thread has answered this connection's flush request *)
  c_queue : list ev;      (* the unbounded channel of the listener (receiver side), oldest first *)
  c_sent : list msg;      (* what was written to the client, oldest first *)
  c_job : option jobid      (* ghost: the job this connection submitted and asked to be told about
                             (its filter accepts JobCompleted of that job; always so for --wait / --progress) *)
}.

Record wstate := mkW {
  w_jobs : jobid -> option jrec;
  w_next_job : N;                   (* [State::job_id_counter] *)
  w_listeners : list listener;      (* [Inner::client_listeners] *)
  w_conns : conn -> option connrec;
  w_log : list ev                   (* ghost: every event handed to [send_event], oldest first *)
}.

(** Configuration: the variants of the code the theorems distinguish. *)
Record cfg := mkCfg {
  cf_reg_first : bool;   (* true = current code (74067fa): register the listener BEFORE awaiting the flush *)
  cf_id_max : bool;      (* true = current code: new id = largest id in use + 1; false = seeded change m13: len + 1 *)
  cf_journal : bool      (* a journal is configured ([storage_sender] is Some): [flush_journal] really awaits *)
}.
Definition cfg_cur := mkCfg true true true.
Definition cfg_prefix := mkCfg false true true.
Definition cfg_len := mkCfg true false true.

Definition init : wstate := mkW (fun _ => None) 1 [] (fun _ => None) [].

Definition wset_job (j : jobid) (r : option jrec) (s : wstate) : wstate :=
  mkW (fun j' => if j' =? j then r else w_jobs s j') (w_next_job s) (w_listeners s) (w_conns s) (w_log s).
Definition set_conn (c : conn) (r : connrec) (s : wstate) : wstate :=
  mkW (w_jobs s) (w_next_job s) (w_listeners s) (fun c' => if c' =? c then Some r else w_conns s c') (w_log s).
Definition set_listeners (ls : list listener) (s : wstate) : wstate :=
  mkW (w_jobs s) (w_next_job s) ls (w_conns s) (w_log s).

(** Does the connection hold the receiver of its listener channel ([rx2] in [start_streaming])? *)
Definition rx_alive (p : pc) : bool :=
  match p with PcFlushReg _ _ | PcStream _ => true | _ => false end.
Definition conn_alive (cs : conn -> option connrec) (c : conn) : bool :=
  match cs c with Some r => rx_alive (c_pc r) | None => false end.

(** ** [EventStreamer::send_event]
    Every listener whose filter accepts the event gets it into its channel; a listener whose
    receiver is gone is dropped ([retain]).  The listeners' channels are disjoint, so the loop is
    written as one simultaneous update. *)
Definition hits (e : ev) (c : conn) (l : listener) : bool := fcheck (l_filter l) e && (l_chan l =? c).

Definition forward (e : ev) (s : wstate) : wstate :=
  let cs := w_conns s in
  let ls := w_listeners s in
  mkW (w_jobs s) (w_next_job s)
      (filter (fun l => negb (fcheck (l_filter l) e) || conn_alive cs (l_chan l)) ls)
      (fun c => match cs c with
                | Some r => if rx_alive (c_pc r)
                            then Some (mkC (c_pc r) (c_closed r) (c_flushed r)
                                           (c_queue r ++ repeat e (length (filter (hits e c) ls)))
                                           (c_sent r) (c_job r))
                            else Some r
                | None => None
                end)
      (w_log s ++ [e]).

(** ** [register_listener] / [unregister_listener] *)
Definition site_unregister_unwrap : N := 1.
Definition site_lid_overflow : N := 2.
Definition u32_max : N := 4294967295.

Definition max_lid (ls : list listener) : N := fold_right N.max 0 (map l_id ls).

Definition next_lid (cf : cfg) (ls : list listener) : N :=
  if cf_id_max cf then max_lid ls + 1 else N.of_nat (length ls) + 1.

Definition register (cf : cfg) (flt : efilter) (c : conn) (s : wstate) : res (lid * wstate) :=
  let i := next_lid cf (w_listeners s) in
  if u32_max <? i then Panic site_lid_overflow
  else Ok (i, set_listeners (w_listeners s ++ [mkL i flt c]) s).

Fixpoint remove_first (i : lid) (ls : list listener) : option (list listener) :=
  match ls with
  | [] => None
  | l :: ls' => if l_id l =? i then Some ls'
                else match remove_first i ls' with Some r => Some (l :: r) | None => None end
  end.

Definition unregister (i : lid) (s : wstate) : res wstate :=
  match remove_first i (w_listeners s) with
  | Some ls => Ok (set_listeners ls s)
  | None => Panic site_unregister_unwrap
  end.

(** ** The job layer (abstract) *)
(** [Job::check_termination] *)
Definition wcheck_termination (j : jobid) (s : wstate) : wstate :=
  match w_jobs s j with
  | Some jr => if jr_active jr =? 0
               then (if jr_open jr then forward (WvIdle j) s else forward (WvCompleted j) s)
               else s
  | None => s
  end.

(** [handle_submit], job side: [None] = refused (job not found / not open). *)
Definition do_submit (target : option jobid) (n : N) (s : wstate) : option (jobid * wstate) :=
  match target with
  | None =>
      let j := w_next_job s in
      let s1 := forward (WvSubmit j) s in
      Some (j, mkW (fun j' => if j' =? j then Some (mkJ false n) else w_jobs s1 j') (j + 1)
                   (w_listeners s1) (w_conns s1) (w_log s1))
  | Some j =>
      match w_jobs s j with
      | Some jr => if jr_open jr
                   then Some (j, wset_job j (Some (mkJ true (jr_active jr + n))) (forward (WvSubmit j) s))
                   else None
      | None => None
      end
  end.

(** What [wait_for_jobs (.., wait_for_close = true)] / [wait_for_jobs_with_progress] do with the job
    info of the response: they wait iff the job has a non-terminal task or is open. *)
Definition client_waits (s : wstate) (j : jobid) : bool :=
  match w_jobs s j with Some jr => (0 <? jr_active jr) || jr_open jr | None => false end.

Inductive envstep :=
| ETaskEnd (j : jobid) (k : N)     (* k >= 1 non-terminal tasks of j finish / fail / are aborted *)
| ECancel (j : jobid) (k : N)      (* k >= 1 non-terminal tasks of j are cancelled *)
| EOpen                          (* another client opens a job *)
| ESubmit (target : option jobid) (n : N)  (* another client's plain submit *)
| ECloseJob (j : jobid)
| EForget (j : jobid)
| EWorker.                       (* worker connected / lost / overview, allocation events *)

Definition env_step (e : envstep) (s : wstate) : wstate :=
  match e with
  | ETaskEnd j k =>
      match w_jobs s j with
      | Some jr => if (0 <? k) && (k <=? jr_active jr)
                   then wcheck_termination j (forward (WvTask j) (wset_job j (Some (mkJ (jr_open jr) (jr_active jr - k))) s))
                   else s
      | None => s
      end
  | ECancel j k =>
      match w_jobs s j with
      | Some jr => if (0 <? k) && (k <=? jr_active jr)
                   then wcheck_termination j (forward (WvTask j) (forward (WvCancel j)
                          (wset_job j (Some (mkJ (jr_open jr) (jr_active jr - k))) s)))
                   else s
      | None => s
      end
  | EOpen =>
      let j := w_next_job s in
      let s1 := forward (WvOpen j) s in
      mkW (fun j' => if j' =? j then Some (mkJ true 0) else w_jobs s1 j') (j + 1)
          (w_listeners s1) (w_conns s1) (w_log s1)
  | ESubmit target n => match do_submit target n s with Some (_, s') => s' | None => s end
  | ECloseJob j =>
      match w_jobs s j with
      | Some jr => if jr_open jr
                   then wcheck_termination j (forward (WvClose j) (wset_job j (Some (mkJ false (jr_active jr))) s))
                   else s
      | None => s
      end
  | EForget j =>
      match w_jobs s j with
      | Some jr => if negb (jr_open jr) && (jr_active jr =? 0) then wset_job j None s else s
      | None => s
      end
  | EWorker => forward WvWorker s
  end.

(** ** One run of a connection handler from its yield point to the next *)
Definition with_pc (r : connrec) (p : pc) : connrec :=
  mkC p (c_closed r) (c_flushed r) (c_queue r) (c_sent r) (c_job r).
Definition send (r : connrec) (m : msg) : connrec :=
  mkC (c_pc r) (c_closed r) (c_flushed r) (c_queue r) (c_sent r ++ [m]) (c_job r).

Definition sender_alive (s : wstate) (c : conn) : bool :=
  existsb (fun l => l_chan l =? c) (w_listeners s).

(** Re-read the connection record (an intermediate [forward] may have touched its queue). *)
Definition get (s : wstate) (c : conn) (dflt : connrec) : connrec :=
  match w_conns s c with Some r => r | None => dflt end.

Definition conn_step (cf : cfg) (c : conn) (s : wstate) : res wstate :=
  match w_conns s c with
  | None => Ok s
  | Some r =>
      match c_pc r with
      | PcSubmitReq target n flt =>
          (* let response = handle_submit(..) *)
          match do_submit target n s with
          | None => Ok (set_conn c (with_pc (send r MErr) PcDone) s)
          | Some (j, s1) =>
              (* if !stream_opts.filter.is_filtering_jobs() { filter.set_jobs({job}) } *)
              let flt' := match f_jobs flt with
                          | None => mkF (Some [j]) (f_job_ev flt) (f_task_ev flt) (f_worker_ev flt)
                          | Some _ => flt end in
              let m := MResp j (client_waits s1 j) in
              let r1 := get s1 c r in
              let r1 := mkC (c_pc r1) (c_closed r1) (c_flushed r1) (c_queue r1) (c_sent r1)
                            (if fcheck flt' (WvCompleted j) then Some j else None) in
              if cf_reg_first cf then
                (* start_streaming: register_listener; flush_journal().await; tx.send(response).await *)
                do x <- register cf flt' c s1;
                let '(i, s2) := x in
                if cf_journal cf
                then Ok (set_conn c (mkC (PcFlushReg i m) (c_closed r1) false (c_queue r1) (c_sent r1) (c_job r1)) s2)
                else Ok (set_conn c (with_pc (send r1 m) (PcStream i)) s2)
              else
                (* before 74067fa: flush_journal().await; start_streaming: register_listener; tx.send(response).await *)
                if cf_journal cf
                then Ok (set_conn c (mkC (PcFlushPre flt' m) (c_closed r1) false (c_queue r1) (c_sent r1) (c_job r1)) s1)
                else do x <- register cf flt' c s1;
                     let '(i, s2) := x in
                     Ok (set_conn c (with_pc (send r1 m) (PcStream i)) s2)
          end
      | PcStreamReq flt =>
          do x <- register cf flt c s;
          let '(i, s2) := x in
          Ok (set_conn c (with_pc r (PcStream i)) s2)
      | PcFlushReg i m =>
          if c_flushed r then Ok (set_conn c (with_pc (send r m) (PcStream i)) s) else Ok s
      | PcFlushPre flt m =>
          if c_flushed r
          then do x <- register cf flt c s;
               let '(i, s2) := x in
               Ok (set_conn c (with_pc (send r m) (PcStream i)) s2)
          else Ok s
      | PcStream i =>
          (* stream_events: select! { current.recv(), rx.next() }; on return: unregister_listener(id) *)
          if c_closed r
          then do s' <- unregister i s; Ok (set_conn c (with_pc r PcDone) s')
          else match c_queue r with
               | e :: q => Ok (set_conn c (mkC (c_pc r) (c_closed r) (c_flushed r) q (c_sent r ++ [MEvent e]) (c_job r)) s)
               | [] => if sender_alive s c then Ok s   (* blocked in select! *)
                       else do s' <- unregister i s; Ok (set_conn c (with_pc r PcDone) s')
               end
      | PcDone => Ok s
      end
  end.

(** ** Labels and runs *)
Inductive request :=
| RqSubmitWait (target : option jobid) (n : N) (flt : efilter)   (* hq submit --wait / --progress *)
| RqStream (flt : efilter).                                    (* FromClientMessage::StreamEvents, live events *)

Inductive wlabel :=
| LRequest (c : conn) (rq : request)  (* a new client connection [c] sends its request *)
| LConn (c : conn)                    (* the executor runs connection [c] to its next yield point *)
| LFlushAck (c : conn)                (* the journal thread answers the flush request of [c] *)
| LClose (c : conn)                   (* the client closes connection [c] *)
| LEnv (e : envstep)                  (* any other server activity *)
| LObserve (c : conn).                (* no effect: the place where the harness looks at what [c] received *)

Definition wstep (cf : cfg) (s : wstate) (l : wlabel) : res wstate :=
  match l with
  | LRequest c rq =>
      match w_conns s c with
      | Some _ => Ok s
      | None =>
          let p := match rq with RqSubmitWait t n f => PcSubmitReq t n f | RqStream f => PcStreamReq f end in
          Ok (set_conn c (mkC p false false [] [] None) s)
      end
  | LConn c => conn_step cf c s
  | LFlushAck c =>
      match w_conns s c with
      | Some r => match c_pc r with
                  | PcFlushReg _ _ | PcFlushPre _ _ =>
                      Ok (set_conn c (mkC (c_pc r) (c_closed r) true (c_queue r) (c_sent r) (c_job r)) s)
                  | _ => Ok s
                  end
      | None => Ok s
      end
  | LClose c =>
      match w_conns s c with
      | Some r => Ok (set_conn c (mkC (c_pc r) true (c_flushed r) (c_queue r) (c_sent r) (c_job r)) s)
      | None => Ok s
      end
  | LEnv e => Ok (env_step e s)
  | LObserve _ => Ok s
  end.

Fixpoint wrun (cf : cfg) (s : wstate) (ls : list wlabel) : res wstate :=
  match ls with
  | [] => Ok s
  | l :: ls' => do s' <- wstep cf s l; wrun cf s' ls'
  end.

(** ** Observations *)
Definition completed (s : wstate) (j : jobid) : bool :=
  if in_dec ev_eq_dec (WvCompleted j) (w_log s) then true else false.
Definition told (r : connrec) (j : jobid) : bool :=
  if in_dec msg_eq_dec (MEvent (WvCompleted j)) (c_sent r) then true else false.

(** What the client of [hq submit --wait] sends as filter: no job set, job events. *)
Definition wait_filter (progress : bool) : efilter := mkF None true progress false.

(** ** Tie to the cluster harness (ops SUBMITW / FLUSHDONE / WAITCHECK of hqv-cluster)

    harness op                      labels
    [SUBMITW n ..] (connection k)   [LRequest k (RqSubmitWait None n (wait_filter false)); LConn k]
    any op in between               [LEnv ..] for what it does to jobs (tasks ended, submits, close)
    [FLUSHDONE k]                   [LFlushAck k] (then the executor runs: settle)
    [WAITCHECK k]                   [LObserve k; LClose k] (then settle: the handler unregisters)

    The harness lets the executor run every ready task after each op ([settle]); in the model
    that is a sequence of [LConn] labels: [settle] below.  [wait_trace_ok] replays a label list
    with a settle after every label and compares, at each [LObserve k], the model's
    (job, completed, delivered) with the next [= WAIT job=.. completed=.. delivered=..] line of the
    implementation. *)
Definition settle_conn (cf : cfg) (c : conn) (s : wstate) : res wstate :=
  let fuel := match w_conns s c with Some r => S (S (S (length (c_queue r)))) | None => O end in
  wrun cf s (repeat (LConn c) fuel).

Fixpoint settle (cf : cfg) (cs : list conn) (s : wstate) : res wstate :=
  match cs with
  | [] => Ok s
  | c :: cs' => do s' <- settle_conn cf c s; settle cf cs' s'
  end.

Definition observe (s : wstate) (c : conn) : option (jobid * bool * bool) :=
  match w_conns s c with
  | Some r => match c_job r with Some j => Some (j, completed s j, told r j) | None => None end
  | None => None
  end.

Definition obs_eqb (a b : jobid * bool * bool) : bool :=
  let '(j1, c1, d1) := a in let '(j2, c2, d2) := b in (j1 =? j2) && Bool.eqb c1 c2 && Bool.eqb d1 d2.

Fixpoint wait_trace_go (cf : cfg) (s : wstate) (known : list conn) (ls : list wlabel)
         (obs : list (jobid * bool * bool)) : bool :=
  match ls with
  | [] => match obs with [] => true | _ => false end
  | l :: ls' =>
      let known' := match l with LRequest c _ => if existsb (N.eqb c) known then known else known ++ [c] | _ => known end in
      match (do s1 <- wstep cf s l; settle cf known' s1) with
      | Ok s' =>
          match l with
          | LObserve c =>
              match observe s' c, obs with
              | Some o, o' :: obs' => obs_eqb o o' && wait_trace_go cf s' known' ls' obs'
              | None, _ => wait_trace_go cf s' known' ls' obs    (* not a waiting connection: no WAIT line *)
              | Some _, [] => false
              end
          | _ => wait_trace_go cf s' known' ls' obs
          end
      | _ => false
      end
  end.

Definition wait_trace_ok (ls : list wlabel) (obs : list (jobid * bool * bool)) : bool :=
  wait_trace_go cfg_cur init [] ls obs.
