(** Executable property predicates of the cluster component.  They are (i) the predicates the
    theorems in Cluster/Proofs*.v are stated with and (ii) extracted and evaluated by the model
    runner on the IMPLEMENTATION's trace (its events, launcher calls, responses and snapshots) to find
    a concrete failing input. *)
From HQ Require Import Base.Prelude Cluster.Types Cluster.Core Cluster.Reactor Cluster.Worker.
From Coq Require Import ZArith.
Local Open Scope N_scope.

(** * State invariants (one snapshot) *)

Definition tstate_worker (s : tstate) : option wid :=
  match s with
  | Assigned w _ | Prefilled w | Retracting w | Running w _ => Some w
  | _ => None
  end.

(** I1a: every id in a worker's assigned set is a live task that is Assigned/Running there, or a
    Retracting task redirected there; every id in its prefilled set is Prefilled there. *)
Definition worker_sets_ok (c : core) (w : sworker) : bool :=
  match w_assign w with
  | Sn a p _ =>
      forallb (fun id => match find_task (c_tasks c) id with
                         | Some t => match t_state t with
                                     | Assigned w1 _ | Running w1 _ => N.eqb w1 (w_id w)
                                     | Retracting _ => match find_redirect (c_redirects c) id with
                                                       | Some (target, _) => N.eqb target (w_id w)
                                                       | None => false
                                                       end
                                     | _ => false
                                     end
                         | None => false
                         end) a
      && forallb (fun id => match find_task (c_tasks c) id with
                            | Some t => match t_state t with Prefilled w1 => N.eqb w1 (w_id w) | _ => false end
                            | None => false
                            end) p
  | Mn t _ =>
      match find_task (c_tasks c) t with
      | Some tk => match t_state tk with RunningMN ws => n_mem (w_id w) ws | _ => false end
      | None => false
      end
  end.

Definition in_ready (q : queue) (id : tid) : bool := existsb (fun e => tid_mem id (qe_ids e)) (q_ready q).
Definition in_prefill (q : queue) (id : tid) : bool :=
  match q_prefill q with Some (_, ts) => tid_mem id ts | None => false end.
Definition queue_of (c : core) (rq : N) : queue := match nth_error (c_queues c) (N.to_nat rq) with Some q => q | None => empty_queue end.

(** I1b (C02 no-limbo): each live task is in exactly the place its state says. *)
Definition task_place_ok (c : core) (t : task) : bool :=
  let q := queue_of c (t_rq t) in
  let id := t_id t in
  let assigned_on w := match find_worker (c_workers c) w with
                       | Some wk => match w_assign wk with Sn a _ _ => tid_mem id a | Mn _ _ => false end
                       | None => false
                       end in
  let prefilled_on w := match find_worker (c_workers c) w with
                        | Some wk => match w_assign wk with Sn _ p _ => tid_mem id p | Mn _ _ => false end
                        | None => false
                        end in
  match t_state t with
  | Waiting n => Bool.eqb (in_ready q id) (N.eqb n 0) && negb (in_prefill q id)
  | Assigned w _ | Running w _ => assigned_on w && negb (in_ready q id) && negb (in_prefill q id)
  | Prefilled w => prefilled_on w && in_prefill q id && negb (in_ready q id)
  | Retracting w =>
      match find_redirect (c_redirects c) id with
      | Some (target, _) => assigned_on target && negb (in_ready q id)
      | None => in_ready q id
      end && negb (in_prefill q id)
  | RunningMN ws =>
      negb (in_ready q id)
      && forallb (fun w => match find_worker (c_workers c) w with
                           | Some wk => match w_assign wk with Mn t1 _ => tid_eqb t1 id | Sn _ _ _ => false end
                           | None => false
                           end) ws
  | Finished => false          (* a finished task is removed within the same reactor call *)
  end.

(** Queue entries mention live tasks only; redirects belong to Retracting tasks. *)
Definition queues_live_ok (c : core) : bool :=
  forallb (fun q =>
             forallb (fun e => forallb (fun id => match find_task (c_tasks c) id with Some _ => true | None => false end) (qe_ids e)) (q_ready q)
             && match q_prefill q with
                | Some (_, ts) => forallb (fun id => match find_task (c_tasks c) id with Some _ => true | None => false end) ts
                | None => true
                end) (c_queues c)
  && forallb (fun r => match find_task (c_tasks c) (fst r) with
                       | Some t => match t_state t with Retracting _ => true | _ => false end
                       | None => false
                       end) (c_redirects c).

(** I1c (C05): free = resources - sum of the requests of the assigned tasks, with no saturation. *)
Definition request_of (c : core) (id : tid) : list N :=
  match find_task (c_tasks c) id with
  | Some t => match nth_error (c_rqs c) (N.to_nat (t_rq t)) with Some r => rq_res r | None => [] end
  | None => []
  end.
Definition sum_requests (c : core) (ids : list tid) : list N :=
  fold_left (fun acc id => res_add acc (request_of c id)) ids [0; 0; 0].
Fixpoint res_eqb (a b : list N) : bool :=
  match a, b with
  | [], [] => true
  | x :: r, y :: r' => N.eqb x y && res_eqb r r'
  | _, _ => false
  end.
Definition worker_accounting_ok (c : core) (w : sworker) : bool :=
  match w_assign w with
  | Sn a _ f =>
      let used := sum_requests c a in
      res_fits (w_res w) used && res_eqb (res_add f used) (w_res w)
  | Mn _ _ => true
  end.

(** C05: a multi-node task holds distinct workers of one group that run nothing else. *)
Fixpoint n_nodup (l : list N) : bool :=
  match l with [] => true | h :: t => negb (n_mem h t) && n_nodup t end.
Definition mn_ok (c : core) (t : task) : bool :=
  match t_state t with
  | RunningMN ws =>
      n_nodup ws
      && match ws with
         | [] => false
         | w0 :: _ =>
             match find_worker (c_workers c) w0 with
             | Some wk0 => forallb (fun w => match find_worker (c_workers c) w with
                                             | Some wk => N.eqb (w_group wk) (w_group wk0)
                                             | None => false
                                             end) ws
             | None => false
             end
         end
  | _ => true
  end.

(** Unfinished-dependency counters and the consumer relation mirror the dependency edges. *)
Definition deps_ok (c : core) (t : task) : bool :=
  match t_state t with
  | Waiting n =>
      N.eqb n (N.of_nat (length (filter (fun d => match find_task (c_tasks c) d with
                                                   | Some dt => negb (is_finished dt)
                                                   | None => false
                                                   end) (t_deps t))))
  | _ => forallb (fun d => match find_task (c_tasks c) d with Some _ => false | None => true end) (t_deps t)
  end
  && forallb (fun x => match find_task (c_tasks c) x with
                       | Some ct => is_waiting ct && tid_mem (t_id t) (t_deps ct)
                       | None => false
                       end) (t_consumers t).

Definition core_ok (c : core) : bool :=
  forallb (worker_sets_ok c) (c_workers c)
  && forallb (task_place_ok c) (c_tasks c)
  && queues_live_ok c
  && forallb (worker_accounting_ok c) (c_workers c)
  && forallb (mn_ok c) (c_tasks c)
  && forallb (deps_ok c) (c_tasks c).

(** Workers whose free-resource counter differs from [resources - sum of assigned requests]. *)
Definition accounting_bad_workers (c : core) : list wid :=
  map w_id (filter (fun w => negb (worker_accounting_ok c w)) (c_workers c)).

(** Name of the first violated conjunct other than the accounting (for the monitor's report):
    0 = none. *)
Definition core_ok_which (c : core) : N :=
  if negb (forallb (worker_sets_ok c) (c_workers c)) then 1
  else if negb (forallb (task_place_ok c) (c_tasks c)) then 2
  else if negb (queues_live_ok c) then 3
  else if negb (forallb (mn_ok c) (c_tasks c)) then 5
  else if negb (forallb (deps_ok c) (c_tasks c)) then 6
  else 0.

(** * Job layer (C13, C02 bijection) *)
Definition count_state (j : job) (v : jstate) : N :=
  N.of_nat (length (filter (fun kv => match snd kv, v with
                                      | JW, JW | JR, JR | JF, JF | JX, JX | JC, JC | JA, JA => true
                                      | _, _ => false
                                      end) (j_tasks j))).
Definition job_counters_ok (j : job) : bool :=
  N.eqb (j_nrun j) (count_state j JR) && N.eqb (j_nfin j) (count_state j JF)
  && N.eqb (j_nfail j) (count_state j JX) && N.eqb (j_ncanc j) (count_state j JC)
  && N.eqb (j_nabort j) (count_state j JA).
Definition job_active (j : job) : bool :=
  existsb (fun kv => match snd kv with JW | JR => true | _ => false end) (j_tasks j).
(** completed flag: set only on a closed job without active tasks *)
Definition job_completed_ok (j : job) : bool :=
  if j_completed j then negb (j_open j) && negb (job_active j) else true.

(** I4 (C02): the non-terminal tasks of the job layer are exactly the tasks of the core; a task the
    job layer shows Running is Running / RunningMN in the core. *)
Definition hq_core_bijection_ok (s : sys) : bool :=
  let c := s_core s in
  forallb (fun j =>
             forallb (fun kv =>
                        let id := (j_id j, fst kv) in
                        match snd kv, find_task (c_tasks c) id with
                        | JW, Some _ => true
                        | JR, Some t => match t_state t with Running _ _ | RunningMN _ => true | _ => false end
                        | (JF | JX | JC | JA), None => true
                        | _, _ => false
                        end) (j_tasks j)) (h_jobs (s_hq s))
  && forallb (fun t => match find_job (h_jobs (s_hq s)) (fst (t_id t)) with
                       | Some j => match jt_find (j_tasks j) (snd (t_id t)) with Some (JW | JR) => true | _ => false end
                       | None => false
                       end) (c_tasks c).

Definition hq_ok (s : sys) : bool :=
  forallb job_counters_ok (h_jobs (s_hq s)) && forallb job_completed_ok (h_jobs (s_hq s)).

(** C06: no task is executing on two connected workers. *)
Definition single_execution_ok (s : sys) : bool :=
  forallb (fun p =>
             forallb (fun r =>
                        negb (existsb (fun p' => negb (N.eqb (p_id p') (p_id p))
                                                 && match run_find (p_running p') (fst r) with Some _ => true | None => false end)
                                      (s_procs s))) (p_running p)) (s_procs s).

(** * Trace predicates: the observable history as a list of items (oldest first). *)
Inductive item :=
| IEv (e : event)
| ILaunch (l : launch)
| ICancelResp (j : N) (ids : list N)          (* the server answered a cancel request *)
| ILost (w : wid) (failure : bool)            (* the worker process disappeared *)
| IDownCompute (w : wid) (ts : list tid)      (* worker w received ComputeTasks *)
| IDownCancel (w : wid) (ts : list tid)       (* worker w processed CancelTasks *)
| IRetractAck (w : wid) (ts : list tid)       (* worker w confirmed giving these tasks back *)
| IEndOk (w : wid) (t : tid)                  (* the task future on w completed successfully *)
| ISubmitted (j : N) (tasks : list (N * list N)). (* accepted tasks of a submit with their deps *)

Definition is_terminal_ev (e : event) (t : tid) : bool :=
  match e with
  | EvFinished x | EvFailed x _ => tid_eqb x t
  | EvCanceled xs | EvAborted xs => tid_mem t xs
  | _ => false
  end.
Definition ev_tasks (e : event) : list tid :=
  match e with
  | EvFinished x | EvFailed x _ | EvStarted x _ _ _ => [x]
  | EvCanceled xs | EvAborted xs => xs
  | _ => []
  end.
Definition is_terminal_event (e : event) : bool :=
  match e with EvFinished _ | EvFailed _ _ | EvCanceled _ | EvAborted _ => true | _ => false end.

(** C01: at most one terminal event per task, and nothing (start / outcome) after it. *)
Fixpoint terminal_once (done : list tid) (tr : list item) : bool :=
  match tr with
  | [] => true
  | IEv e :: r =>
      let ts := ev_tasks e in
      negb (existsb (fun t => tid_mem t done) ts)
      && (fix nodup_l (l : list tid) := match l with [] => true | h :: tl => negb (tid_mem h tl) && nodup_l tl end) ts
      && terminal_once (if is_terminal_event e then ts ++ done else done) r
  | _ :: r => terminal_once done r
  end.

(** C01: a finish is preceded by a start of the same task that is still current (no outcome and no
    loss of its root worker in between), and the task really ran to success on that worker. *)
Fixpoint finish_after_start (started : list (tid * wid)) (ran_ok : list (tid * wid)) (tr : list item) : bool :=
  match tr with
  | [] => true
  | IEv (EvStarted t _ ws _) :: r =>
      let w := match ws with w0 :: _ => w0 | [] => 0 end in
      finish_after_start ((t, w) :: filter (fun x => negb (tid_eqb (fst x) t)) started) ran_ok r
  | IEv (EvFinished t) :: r =>
      match find (fun x => tid_eqb (fst x) t) started with
      | Some (_, w) => existsb (fun x => tid_eqb (fst x) t && N.eqb (snd x) w) ran_ok
      | None => false
      end
      && finish_after_start (filter (fun x => negb (tid_eqb (fst x) t)) started) ran_ok r
  | IEv e :: r =>
      finish_after_start (if is_terminal_event e then filter (fun x => negb (tid_mem (fst x) (ev_tasks e))) started else started) ran_ok r
  | ILost w _ :: r =>
      finish_after_start (filter (fun x => negb (N.eqb (snd x) w)) started) (filter (fun x => negb (N.eqb (snd x) w)) ran_ok) r
  | IEndOk w t :: r => finish_after_start started ((t, w) :: ran_ok) r
  | _ :: r => finish_after_start started ran_ok r
  end.

(** C03: a task is started only after all its dependencies finished; once a task failed or was
    cancelled, its transitive dependents are never started. *)
Fixpoint deps_respected (deps : list (tid * list tid)) (finished : list tid) (dead : list tid) (tr : list item) : bool :=
  match tr with
  | [] => true
  | ISubmitted j ts :: r =>
      deps_respected (map (fun kv => ((j, fst kv), map (fun d => (j, d)) (snd kv))) ts ++ deps) finished dead r
  | IEv (EvStarted t _ _ _) :: r =>
      match find (fun x => tid_eqb (fst x) t) deps with
      | Some (_, ds) => forallb (fun d => tid_mem d finished) ds && negb (existsb (fun d => tid_mem d dead) ds)
      | None => true
      end && deps_respected deps finished dead r
  | IEv (EvFinished t) :: r => deps_respected deps (t :: finished) dead r
  | IEv (EvFailed t _) :: r => deps_respected deps finished (t :: dead) r
  | IEv (EvCanceled ts) :: r | IEv (EvAborted ts) :: r => deps_respected deps finished (ts ++ dead) r
  | _ :: r => deps_respected deps finished dead r
  end.

(** C03 across a restart: the event records are the journal, and restore drops every dependency on a
    task that has a terminal record (StateRestorer: `retain_mut`).  So at every prefix of the
    journal, a task with a failed / cancelled / aborted dependency must itself have a terminal
    record, or a restart at that point would resubmit it as runnable.  [term] = tasks with a terminal
    record so far, [fin] = successfully finished ones. *)
Definition dependents_of (deps : list (tid * list tid)) (t : tid) : list tid :=
  map fst (filter (fun kv => tid_mem t (snd kv)) deps).
Fixpoint journal_dep_closed (deps : list (tid * list tid)) (term : list tid) (tr : list item) : bool :=
  match tr with
  | [] => true
  | ISubmitted j ts :: r =>
      journal_dep_closed (map (fun kv => ((j, fst kv), map (fun d => (j, d)) (snd kv))) ts ++ deps) term r
  | IEv (EvFinished t) :: r => journal_dep_closed deps (t :: term) r
  | IEv (EvFailed t _) :: r =>
      forallb (fun x => tid_mem x term) (dependents_of deps t) && journal_dep_closed deps (t :: term) r
  | IEv (EvCanceled ts) :: r | IEv (EvAborted ts) :: r =>
      let term' := ts ++ term in
      forallb (fun t => forallb (fun x => tid_mem x term') (dependents_of deps t)) ts && journal_dep_closed deps term' r
  | _ :: r => journal_dep_closed deps term r
  end.

(** C06: launches of one task carry strictly increasing instance ids. *)
Fixpoint instances_increase (last : list (tid * N)) (tr : list item) : bool :=
  match tr with
  | [] => true
  | ILaunch l :: r =>
      match find (fun x => tid_eqb (fst x) (l_t l)) last with
      | Some (_, i) => N.ltb i (l_inst l)
      | None => true
      end && instances_increase ((l_t l, l_inst l) :: filter (fun x => negb (tid_eqb (fst x) (l_t l))) last) r
  | _ :: r => instances_increase last r
  end.

(** C06 / C08: after worker w confirmed giving t back, or processed a cancel of t, it never starts
    t unless the server sent it t again. *)
Fixpoint no_start_after_giveup (banned : list (wid * tid)) (tr : list item) : bool :=
  match tr with
  | [] => true
  | ILaunch l :: r =>
      negb (existsb (fun b => N.eqb (fst b) (l_w l) && tid_eqb (snd b) (l_t l)) banned) && no_start_after_giveup banned r
  | IRetractAck w ts :: r | IDownCancel w ts :: r => no_start_after_giveup (map (fun t => (w, t)) ts ++ banned) r
  | IDownCompute w ts :: r =>
      no_start_after_giveup (filter (fun b => negb (N.eqb (fst b) w && tid_mem (snd b) ts)) banned) r
  | ILost w _ :: r => no_start_after_giveup (filter (fun b => negb (N.eqb (fst b) w)) banned) r
  | _ :: r => no_start_after_giveup banned r
  end.

(** C08: once the cancel of job j was answered, nothing is reported for the job's cancelled tasks
    any more, and exactly those tasks were reported cancelled. *)
Fixpoint cancel_final (canceled : list tid) (tr : list item) : bool :=
  match tr with
  | [] => true
  | ICancelResp j ids :: r => cancel_final (map (fun i => (j, i)) ids ++ canceled) r
  | IEv e :: r =>
      match e with
      | EvStarted t _ _ _ | EvFinished t | EvFailed t _ => negb (tid_mem t canceled)
      | EvAborted ts => negb (existsb (fun t => tid_mem t canceled) ts)
      | _ => true
      end && cancel_final canceled r
  | _ :: r => cancel_final canceled r
  end.

(** C13: JobCompleted is announced at most once per job. *)
Fixpoint completed_once (done : list N) (tr : list item) : bool :=
  match tr with
  | [] => true
  | IEv (EvCompleted j) :: r => negb (n_mem j done) && completed_once (j :: done) r
  | _ :: r => completed_once done r
  end.

(** C14: tasks are aborted only as dependents of a failed task or when the failure limit of the job
    is exceeded; [limits] = max_fails per job, [fails] = failures counted so far. *)
Fixpoint abort_justified (deps : list (tid * list tid)) (limits : list (N * N)) (fails : list (N * N)) (dead : list tid) (tr : list item) : bool :=
  let get (l : list (N * N)) (j : N) := match find (fun kv => N.eqb (fst kv) j) l with Some kv => Some (snd kv) | None => None end in
  match tr with
  | [] => true
  | ISubmitted j ts :: r =>
      abort_justified (map (fun kv => ((j, fst kv), map (fun d => (j, d)) (snd kv))) ts ++ deps) limits fails dead r
  | IEv (EvFailed t _) :: r =>
      let n := match get fails (fst t) with Some n => n + 1 | None => 1 end in
      abort_justified deps limits ((fst t, n) :: filter (fun kv => negb (N.eqb (fst kv) (fst t))) fails) (t :: dead) r
  | IEv (EvAborted ts) :: r =>
      (* the dependents of a failing task are announced just before the failure itself *)
      let dead := match r with IEv (EvFailed t0 _) :: _ => t0 :: dead | _ => dead end in
      forallb (fun t =>
                 (* a dependency is dead, or the job is over its failure limit *)
                 match find (fun x => tid_eqb (fst x) t) deps with
                 | Some (_, ds) => existsb (fun d => tid_mem d dead || tid_mem d ts) ds
                 | None => false
                 end
                 || match get limits (fst t), get fails (fst t) with
                    | Some lim, Some n => N.ltb lim n
                    | _, _ => false
                    end) ts
      && abort_justified deps limits fails (ts ++ dead) r
  | IEv (EvCanceled ts) :: r => abort_justified deps limits fails (ts ++ dead) r
  | _ :: r => abort_justified deps limits fails dead r
  end.
