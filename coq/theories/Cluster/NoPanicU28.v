(** Stage 3, totality of the server's handling of worker messages, part 3: [task_failed] reported by
    a worker ([w = Some _]).  Adapted from [NoPanicL3.task_failed_none_tot] (the task is placed
    instead of ready: the first phase releases it from the worker sets / queues). *)
From HQ Require Import Base.Prelude Cluster.Types Cluster.Core Cluster.Reactor Cluster.Worker Cluster.Server Cluster.Sys Cluster.Monitors Cluster.ProofsJob Cluster.ProofsMore Cluster.ProofsTerminal Cluster.ProofsStep Cluster.ProofsFinal Cluster.BijBase Cluster.BijCore Cluster.BijHq Cluster.BijSt Cluster.BijReact Cluster.BijFinal Cluster.FrameGen Cluster.CrashFrame Cluster.InvWBase Cluster.InvWView Cluster.InvWCore Cluster.InvWReact Cluster.InvWReact2 Cluster.InvWReact3 Cluster.InvWServer Cluster.InvWStep Cluster.InvWFinal Cluster.InvQBase Cluster.InvQTake Cluster.InvQInv Cluster.InvQOps Cluster.InvQNoDup Cluster.InvQReact Cluster.InvQReact2 Cluster.InvQReact3 Cluster.InvQServer Cluster.InvQServer2 Cluster.InvQStep Cluster.InvDBase Cluster.InvDSpec Cluster.InvDMap Cluster.InvDRem Cluster.InvDReact Cluster.InvDSched Cluster.InvDStep Cluster.InvProcsDef Cluster.NoPanicC1 Cluster.NoPanicC2 Cluster.NoPanicC3 Cluster.NoPanicC4 Cluster.InvWX1 Cluster.InvWX2 Cluster.InvWX3 Cluster.NoPanicL0 Cluster.NoPanicL1 Cluster.NoPanicL2 Cluster.NoPanicL3 Cluster.NoPanicL4 Cluster.NoPanicU22 Cluster.NoPanicU27.
From Coq Require Import ZArith Lia Sorting.Sorted.
Local Open Scope N_scope.

Arguments N.add : simpl never.
Arguments N.sub : simpl never.

(** * [remove_waiting_consumers] with an exception on other tasks *)
Lemma remove_waiting_consumers_tot_ex ex X l : forall c,
  lax ex -> (forall x, In x l -> ex x = None) ->
  CS c -> QI ex [] c -> DX X (fm c) -> NoDup l -> incl l X ->
  (forall x, In x l -> exists tx, find_task (c_tasks c) x = Some tx /\ is_waiting tx = true) ->
  exists c', remove_waiting_consumers c l = Ok c'.
Proof.
  induction l as [|id r IH]; intros c Hlax Hex Hs V D Hnd Hinc Hpre; [eexists; reflexivity|].
  inversion Hnd as [|? ? Hni Hnd']; subst. cbn [remove_waiting_consumers].
  destruct (Hpre id (or_introl eq_refl)) as (t & Hf & Hw).
  destruct (remove_task_tot ex X c id t V D Hf (fun _ => Hex id (or_introl eq_refl))) as (c1 & stt & H1).
  rewrite H1. cbn [bind].
  rewrite (remove_task_state _ _ _ _ _ H1 Hf). unfold is_waiting in Hw. destruct (t_state t) eqn:Est; try discriminate.
  destruct (remove_task_QI ex [] [] c id c1 _ Hlax V H1) as (V1 & S1 & G1 & N1 & R1 & _).
  { intros t0 Ht0. left. rewrite Hf in Ht0. inversion Ht0; subst t0. unfold is_waiting. rewrite Est. reflexivity. }
  { intros x []. }
  destruct (remove_task_shrinks _ _ _ _ Hs H1) as [Sh _].
  destruct (remove_task_DX X c id c1 _ (CS_sorted _ Hs) D (Hinc id (or_introl eq_refl)) H1) as (_ & D1 & _).
  apply (IH c1 Hlax (fun x Hx => Hex x (or_intror Hx)) (shr_sorted _ _ _ Sh) V1 D1 Hnd').
  - intros x Hx. apply Hinc. right. exact Hx.
  - intros x Hx. destruct (Hpre x (or_intror Hx)) as (tx & Hfx & Hwx).
    assert (Hp : present (keys c1) x).
    { apply (shr_dom _ _ _ Sh). split; [apply find_task_present; eauto | intros [<-|[]]; contradiction]. }
    apply find_task_present in Hp. destruct Hp as (tx1 & Etx1). exists tx1. split; [exact Etx1|].
    destruct (S1 _ _ Etx1) as (t0 & Ht0 & Hst). rewrite Hfx in Ht0. inversion Ht0; subst t0.
    unfold is_waiting in *. rewrite <- Hst. exact Hwx.
Qed.

(** The task is placed on the reporting worker. *)
Definition placed_on (st : tstate) (w : wid) : Prop :=
  match st with
  | Assigned w1 _ | Prefilled w1 | Retracting w1 | Running w1 _ => w1 = w
  | RunningMN (w0 :: _) => w0 = w
  | _ => False
  end.
Definition is_mn_state (st : tstate) : bool := match st with RunningMN _ => true | _ => false end.

(** * The first phase *)
Lemma fail_release s w id t rq : LI s -> find_task (c_tasks (core_of s)) id = Some t -> placed_on (t_state t) w ->
  rq_is_mn rq = is_mn_state (t_state t) ->
  exists c1,
    (if rq_is_mn rq then
       match t_state t with
       | RunningMN ws => match ws with w0 :: _ => if N.eqb w0 w then reset_mn_workers (core_of s) ws id else Panic 165 | [] => Panic 165 end
       | _ => Panic 166
       end
     else
       match t_state t with
       | Assigned w1 _ | Running w1 _ =>
           if negb (N.eqb w w1) then Panic 167
           else do wk <- get_worker (c_workers (core_of s)) w;
                do wk' <- remove_sn_task wk id (rq_res rq);
                Ok (upd_worker (core_of s) wk')
       | Prefilled w1 =>
           if negb (N.eqb w w1) then Panic 167
           else do q <- nth_queue (c_queues (core_of s)) (N.to_nat (t_rq t));
                do q' <- q_remove_prefilled q id;
                do wk <- get_worker (c_workers (core_of s)) w;
                do wk' <- remove_prefill_task wk id;
                Ok (upd_worker (with_queues (core_of s) (set_queue (c_queues (core_of s)) (N.to_nat (t_rq t)) q')) wk')
       | Retracting w1 =>
           if negb (N.eqb w w1) then Panic 167 else try_remove_redirection (core_of s) t
       | _ => Ok (core_of s)
       end) = Ok c1 /\
    WIX (xadd InvWCore.x0 id) c1 /\ c_tasks c1 = c_tasks (core_of s) /\ QI (exU none id Nowhere) [] c1 /\ wids c1 = wids (core_of s).
Proof.
  intros HL Ef Hpl Hmn. set (c := core_of s) in *.
  pose proof (li_wi _ HL) as HW. pose proof (li_qi _ HL) as V. pose proof (li_pi _ HL) as HP. fold c in HW, V.
  destruct (BijBase.find_task_some _ _ _ Ef) as [Hin Hid].
  assert (Hmark : forall c0, qsame c c0 -> nat_place (c_redirects c) id (t_state t) = Nowhere -> (forall w0, t_state t <> Retracting w0) ->
            QI (exU none id Nowhere) [] c0).
  { intros c0 Hs Hn Hnr. apply (QI_same _ _ _ _ Hs). eapply QI_mark_nowhere; eassumption. }
  assert (Hsn : forall w1, pl (t_state t) = PA w1 -> w1 = w -> nat_place (c_redirects c) id (t_state t) = Nowhere -> (forall w0, t_state t <> Retracting w0) ->
            exists c1, (do wk <- get_worker (c_workers c) w; do wk' <- remove_sn_task wk id (rq_res rq); Ok (upd_worker c wk')) = Ok c1 /\
              WIX (xadd InvWCore.x0 id) c1 /\ c_tasks c1 = c_tasks c /\ QI (exU none id Nowhere) [] c1 /\ wids c1 = wids c).
  { intros w1 Hp -> Hn Hnr.
    destruct (WIX_A _ _ id t w HW eq_refl Ef Hp) as (wk & a & p & f & Hw & Ea & Hm).
    rewrite (get_worker_ok _ _ _ Hw). cbn [bind].
    destruct (remove_sn_task_tot wk id (rq_res rq) a p f Ea Hm) as (wk' & Hrm & Hwi'). rewrite Hrm. cbn [bind].
    exists (upd_worker c wk'). split; [reflexivity|]. split; [eapply release_sn; [exact HW | exact Ef | exact Hp | exact Hw | exact Hrm]|].
    split; [reflexivity|]. split; [apply Hmark; [repeat split | exact Hn | exact Hnr]|].
    unfold wids. cbn [c_workers upd_worker with_workers]. eapply (set_worker_keep _ w wk wk'); [exact (proj1 HW) | exact Hwi' | exact Hw]. }
  rewrite Hmn. destruct (t_state t) as [n|w1 rv1|w1|w1|w1 rv1|ws|] eqn:Est; cbn [is_mn_state placed_on] in *; try (destruct Hpl; fail).
  - (* Assigned *) subst w1. rewrite N.eqb_refl. cbn [negb]. apply (Hsn w); [reflexivity | reflexivity | reflexivity | intros w0; discriminate].
  - (* Prefilled *) subst w1. rewrite N.eqb_refl. cbn [negb].
    destruct (QV_queue _ _ _ _ _ _ _ _ V Ef) as (q & Hq & Hwf & Hp).
    rewrite (proj2 (nth_queue_ok _ _ _) Hq). cbn [bind].
    unfold exp_place, none in Hp. rewrite Est in Hp. cbn [nat_place] in Hp.
    destruct (q_remove_prefilled_tot q id (t_prio t) (placed_prefill_at _ _ _ Hp)) as (q' & Hq'). rewrite Hq'. cbn [bind].
    destruct (WIX_P _ _ id t w HW eq_refl Ef) as (wk & a & p & f & Hw & Ea & Hm); [rewrite Est; reflexivity|].
    rewrite (get_worker_ok _ _ _ Hw). cbn [bind].
    destruct (remove_prefill_task_tot wk id a p f Ea Hm) as (wk' & Hrm & Hwi'). rewrite Hrm. cbn [bind].
    eexists. split; [reflexivity|]. split.
    { refine (WIX_frame _ (upd_worker c wk') _ eq_refl eq_refl eq_refl eq_refl _).
      eapply C_relP; [exact HW | reflexivity | exact Ef | rewrite Est; reflexivity | exact Hw | exact Hrm]. }
    split; [reflexivity|]. split.
    { unfold QI. cbn [c_tasks c_queues c_redirects c_rqs upd_worker with_workers with_queues].
      eapply QV_q_remove_prefilled; [exact V | exact Ef | exact Hq | exact Hq'|].
      eapply QV_no_redirect; [exact V | exact Ef | intros w0; congruence]. }
    unfold wids. cbn [c_workers upd_worker with_workers with_queues]. eapply (set_worker_keep _ w wk wk'); [exact (proj1 HW) | exact Hwi' | exact Hw].
  - (* Retracting *) subst w1. rewrite N.eqb_refl. cbn [negb].
    destruct (try_remove_redirection_tot InvWCore.x0 [] c id t w HW V Ef Est ltac:(intros [])) as (c1 & H1).
    rewrite H1. exists c1. split; [reflexivity|].
    destruct (release_retracting _ _ _ _ _ HW Ef Est H1) as [W1 T1].
    destruct (trr_QI _ _ _ _ _ _ _ V Ef Est H1) as (V1 & _).
    split; [exact W1|]. split; [exact T1|]. split; [exact V1|]. eapply try_remove_redirection_wids; [exact (proj1 HP) | exact H1].
  - (* Running *) subst w1. rewrite N.eqb_refl. cbn [negb]. apply (Hsn w); [reflexivity | reflexivity | reflexivity | intros w0; discriminate].
  - (* RunningMN *) destruct ws as [|w0 ws]; [destruct Hpl|]. subst w0. rewrite N.eqb_refl.
    destruct (reset_mn_workers_tot id (w :: ws) c) as (c1 & H1).
    { pose proof (li_j _ HL) as HJ. apply J_MNE_RWA in HJ. destruct HJ as (_ & _ & Hmnd). exact (Hmnd t _ Hin Est). }
    { intros x Hx. exact (WIX_M _ _ id t (w :: ws) x HW eq_refl Ef ltac:(rewrite Est; reflexivity) Hx). }
    rewrite H1. exists c1. split; [reflexivity|]. destruct (release_mn _ _ _ _ _ HW Ef Est H1) as [W1 T1].
    split; [exact W1|]. split; [exact T1|].
    split; [apply Hmark; [eapply reset_mn_workers_qsame; exact H1 | reflexivity | intros w1; discriminate]|].
    eapply reset_mn_workers_wids; [exact (proj1 HP) | exact H1].
Qed.

Lemma find_worker_ids ws w : In w (map w_id ws) -> find_worker ws w <> None.
Proof.
  induction ws as [|h r IH]; cbn [find_worker map In]; [intros []|]. intros [E|Hin].
  - rewrite <- E, N.eqb_refl. discriminate.
  - destruct (N.eqb w (w_id h)); [discriminate | apply IH; exact Hin].
Qed.

Lemma wids_Dm c c' : wids c' = wids c -> Dm c c'.
Proof.
  intros E w Hw. apply find_worker_ids. change (In w (wids c')). rewrite E.
  destruct (find_worker (c_workers c) w) as [wk|] eqn:Ew; [|congruence].
  destruct (InvWBase.find_worker_some _ _ _ Ew) as [Hin Hi]. unfold wids. rewrite <- Hi. apply in_map. exact Hin.
Qed.

(** * [task_failed] reported by the worker the task is placed on *)
Theorem task_failed_some_tot s w id k t :
  LI s -> find_task (c_tasks (core_of s)) id = Some t -> placed_on (t_state t) w ->
  (forall rq, get_rq (c_rqs (core_of s)) (t_rq t) = Ok rq -> rq_is_mn rq = is_mn_state (t_state t)) ->
  exists s', task_failed s (Some w) id k = Ok s'.
Proof.
  intros HL Ef Hpl Hmn. pose proof HL as [Hok HC HW V [Hts D] HJ HP].
  destruct (find_task_some _ _ _ Ef) as [Hin Hid].
  unfold task_failed. cbv zeta. rewrite Ef.
  destruct (LI_get_rq s id t HL Ef) as (rq & Hrq). rewrite Hrq. cbn [bind].
  destruct (fail_release s w id t rq HL Ef Hpl (Hmn rq Hrq)) as (c1 & H1 & W1 & T1 & V1 & Ew1).
  rewrite H1. cbn [bind]. clear H1.
  set (c := core_of s) in *.
  assert (Hnw : is_waiting t = false).
  { unfold is_waiting. destruct (t_state t); try reflexivity. destruct Hpl. }
  assert (Hplaced : match t_state t with Waiting _ | Finished => False | _ => True end).
  { destruct (t_state t); try exact I; destruct Hpl. }
  rewrite T1.
  assert (W : WFc (c_tasks c)) by (eapply DX_WFc; exact D).
  destruct (recursive_consumers_tot _ id t W Ef) as (csm & Hcs). rewrite Hcs. cbn [bind].
  pose proof (recursive_consumers_nodup _ _ _ Hcs) as Ndc.
  assert (HQ : forall x, In x csm -> exists tx n, find_task (c_tasks c) x = Some tx /\ t_state tx = Waiting n /\ n <> 0).
  { eapply (recursive_consumers_inv _ (c_tasks c) id t csm); [|exact Ef | exact Hcs].
    intros x tx y Hx Hy. exact (DI_consumer_waits (fm c) x tx y D Hx Hy). }
  assert (Hnid : ~ In id csm).
  { intros Hc. destruct (HQ id Hc) as (tx & n & Hx & Hs & Hn). rewrite Ef in Hx. inversion Hx; subst tx. unfold is_waiting in Hnw. rewrite Hs in Hnw. discriminate. }
  assert (Hjob : forall x, In x csm -> fst x = fst id).
  { rewrite <- Hid. eapply recursive_consumers_job; [exact (cb_d _ HC) | exact Hin | exact Hcs]. }
  assert (Hdom : forall y, In y (t_consumers t) -> find_task (c_tasks c) y <> None).
  { intros y Hy. destruct (dx_cons _ _ D _ _ _ Ef Hy) as (ct & Ec & _). unfold fm in Ec. congruence. }
  destruct (recursive_consumers_closed _ t csm W (dx_nc _ _ D _ _ Ef) Hdom Hcs) as [I1 I2].
  pose proof (closed_with_root (fm c) csm id t Ef I1 I2) as Hcl.
  set (X := csm ++ [id]) in *.
  assert (D1 : DX X (fm c)) by (apply DX_start; [exact D | exact Hcl]).
  assert (Hi1 : incl csm X) by (intros x Hx; apply in_app_iff; left; exact Hx).
  assert (Hi2 : In id X) by (apply in_app_iff; right; left; reflexivity).
  pose proof (cb_s _ HC) as Hs. fold c in Hs.
  assert (Ek : keys c1 = keys c) by (unfold keys; rewrite T1; reflexivity).
  assert (Hs1 : CS c1) by (eapply CS_keys; [exact Ek | exact Hs]).
  assert (Hts1 : FrameGen.TS c1) by (unfold FrameGen.TS in *; rewrite T1; exact Hts).
  assert (D1' : DX X (fm c1)) by (unfold fm; rewrite T1; exact D1).
  assert (Hlax : lax (exU none id Nowhere)) by (apply lax_exU, lax_none).
  assert (Hex1 : forall x, x <> id -> exU none id Nowhere x = None) by (intros x Hne; apply exU_other; exact Hne).
  destruct (remove_waiting_consumers_tot_ex (exU none id Nowhere) X csm c1 Hlax) as (c2 & H2); try assumption.
  { intros x Hx. apply Hex1. intros ->. contradiction. }
  { intros x Hx. destruct (HQ x Hx) as (tx & n & Hfx & Hsx & _). exists tx. rewrite T1. split; [exact Hfx|]. unfold is_waiting. rewrite Hsx. reflexivity. }
  rewrite H2. cbn [bind].
  destruct (remove_waiting_consumers_shrinks _ _ _ Hs1 H2) as [Sh2 _].
  destruct (remove_waiting_consumers_QI _ [] csm c1 c2 Hlax V1 H2) as (V2 & S2 & N2 & _ & G2).
  destruct (remove_waiting_consumers_DX X csm _ _ Hts1 D1' Hi1 H2) as (T2 & D2 & ND2 & _ & SD2).
  assert (Hf2 : exists t2, find_task (c_tasks c2) id = Some t2 /\ t_state t2 = t_state t).
  { assert (Hp : present (keys c2) id) by (apply (shr_dom _ _ _ Sh2); split; [rewrite Ek; apply find_task_present; eauto | exact Hnid]).
    apply find_task_present in Hp. destruct Hp as (t2 & E2). exists t2. split; [exact E2|].
    destruct (S2 _ _ E2) as (t0 & Ht0 & Hst). rewrite T1 in Ht0. fold c in Ef. rewrite Ef in Ht0. inversion Ht0; subst t0. symmetry. exact Hst. }
  destruct Hf2 as (t2 & Ef2 & Est2).
  assert (H3 : exists c3, remove_task c2 id = Ok (c3, t_state t)).
  { unfold remove_task. rewrite Ef2, Est2. destruct (t_state t); try (eexists; reflexivity); destruct Hplaced. }
  destruct H3 as (c3 & H3). rewrite H3. cbn [bind].
  assert (Hm : (match t_state t with Assigned _ _ | Prefilled _ | Retracting _ | Running _ _ | RunningMN _ => Ok tt | _ => Panic 170 end) = Ok tt).
  { destruct (t_state t); try reflexivity; destruct Hplaced. }
  rewrite Hm. cbn [bind]. clear Hm.
  destruct (remove_task_shrinks _ _ _ _ (shr_sorted _ _ _ Sh2) H3) as [Sh3 _].
  assert (Hpre : forall t0, find_task (c_tasks c2) id = Some t0 -> is_waiting t0 = true \/
            (exp_place (exU none id Nowhere) (c_redirects c2) id (t_state t0) = Nowhere /\ find_redirect (c_redirects c2) id = None)).
  { intros t0 Ht0. eapply nowhere_pre; [exact V2 | exact Ht0 | right; apply exU_same]. }
  destruct (remove_task_QI (exU none id Nowhere) [] [] _ _ _ _ Hlax V2 H3 Hpre) as (V3x & S3 & G3 & N3 & _); [auto|].
  assert (V3 : QI none [] c3).
  { unfold QI in *. eapply QV_ext; [exact V3x|]. intros x t0 Hx. symmetry. apply Hex1. intros ->. congruence. }
  destruct (remove_task_DX X _ _ _ _ T2 D2 Hi2 H3) as (T3 & D3 & ND3 & K3 & SD3).
  pose proof (shrinks_trans _ _ _ _ _ Sh2 Sh3) as Sh23. rewrite Ek in Sh23.
  assert (S23 : tsub (c_tasks c) (c_tasks c3)).
  { eapply tsub_trans; [|exact S3]. intros x tx Hx. destruct (S2 _ _ Hx) as (t0 & Ht0 & Hst). rewrite T1 in Ht0. eauto. }
  assert (Hact : forall x, present (keys c) x -> active (st_core s c3) x).
  { intros x Hp. apply (active_same s (st_core s c3)); [intros; reflexivity|]. apply (cb_b _ HC). exact Hp. }
  destruct (process_task_failed_tot (st_core s c3) id csm k) as (s1 & cids & H4).
  { exact Hok. } { exact Ndc. } { exact Hnid. }
  { apply Hact. apply find_task_present. eauto. }
  { intros x Hx. split; [apply Hjob; exact Hx|]. apply Hact. destruct (HQ x Hx) as (tx & _ & Hfx & _). apply find_task_present. eauto. }
  rewrite H4. cbn [bind].
  destruct (process_task_failed_active (st_core s c3) id csm k s1 cids Hok H4) as (C4 & A4 & J4 & N4).
  unfold core_same in C4. cbn [core_of st_core with_core s_core fst] in C4.
  destruct cids as [|c0 cr] eqn:Ecid; [eexists; reflexivity|].
  rewrite <- Ecid in *. assert (Hne : cids <> []) by (rewrite Ecid; discriminate). clear Ecid.
  assert (Ks1 : K s1 = keys c3) by (unfold K; rewrite C4; reflexivity).
  assert (Hs3 : CS c3) by exact (shr_sorted _ _ _ Sh23).
  assert (Hd3 : KD (K s1)) by (rewrite Ks1; eapply shrinks_KD; [exact Sh23 | exact (cb_d _ HC)]).
  assert (W3 : WI c3).
  { pose proof (remove_waiting_consumers_WIX _ _ _ _ W1 Hs1 H2) as W2.
    assert (W3x : WIX (xadd InvWCore.x0 id) c3) by (eapply remove_task_WIX; [exact W2 | exact (shr_sorted _ _ _ Sh2) | exact H3 | left; apply xadd_same]).
    destruct (remove_task_view _ _ _ _ (shr_sorted _ _ _ Sh2) H3) as (_ & _ & _ & _ & Tv).
    eapply (C_show0 _ _ W3x InvWCore.x0 id); [apply xadd_same | apply xadd_show | left]. rewrite Tv. unfold tset. rewrite tid_eqb_refl'. reflexivity. }
  assert (G3' : GD c3).
  { split; [exact T3|]. eapply DX_end; [exact D3|]. intros x Hx. apply in_app_iff in Hx.
    destruct Hx as [Hx|[<-|[]]]; [apply K3, ND2; exact Hx | exact ND3]. }
  assert (J3 : InvWX1.J c3).
  { eapply J_R; [exact HJ|]. eapply InvWX1.R_trans; [apply (InvWX1.R_tasks c c1 T1 (wids_Dm _ _ Ew1))|].
    eapply InvWX1.R_trans; [eapply remove_waiting_consumers_R; exact H2 | eapply remove_task_R; exact H3]. }
  apply J_MNE_RWA in J3. destruct J3 as (Hmne & Hrwa & _).
  assert (HP1 : PI s1).
  { eapply R_PI; [|exact HP]. eapply NoPanicL0.R_trans; [apply (R_core s c3) | apply R_CP; eapply process_task_failed_CP; exact H4].
    eapply Rc_trans; [intros _; exact Ew1|].
    eapply Rc_trans; [intros Hws; eapply remove_waiting_consumers_wids; [exact Hws | exact H2] | intros Hws; eapply remove_task_wids; [exact Hws | exact H3]]. }
  assert (Hcl3 : forall x t0 y, find_task (c_tasks (core_of s1)) x = Some t0 -> In y cids -> fst x = fst y -> In x cids \/ is_waiting t0 = true).
  { intros x t0 y Hx Hy Hf. left. rewrite C4 in Hx.
    apply N4; [exact Hne | rewrite Hf; apply J4; exact Hy | | | ].
    - apply Hact. apply find_task_present. destruct (S23 _ _ Hx) as (t1 & Hx1 & _). eauto.
    - intros Hc. rewrite (N3 _ (G2 _ Hc)) in Hx. discriminate.
    - intros ->. congruence. }
  assert (V3' : QI none [] (core_of s1)) by (rewrite C4; exact V3).
  destruct (on_cancel_tasks_tot s1 cids) as (s' & H5).
  { rewrite C4. exact W3. } { exact V3'. } { rewrite C4. exact G3'. }
  { rewrite C4. exact Hs3. } { exact Hd3. }
  { rewrite C4. exact Hmne. } { rewrite C4. exact Hrwa. }
  { apply PI_PWc. exact HP1. }
  { eapply process_task_failed_nodup; [|exact H4]. exact Hok. }
  { exact Hcl3. }
  exists s'. destruct cids; [congruence | exact H5].
Qed.
