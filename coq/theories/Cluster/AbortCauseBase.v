(** C14 / C03, "tasks are aborted only with a cause", part 1: the monitor as a specification.

    [Monitors.abort_justified deps limits fails dead tr] walks over the item list.  This file
    (pure list reasoning, no system model) gives
    - one-step equations of the monitor ([aj_*]) with its local lookups made global ([lget],
      [aj_ok], [fail_upd], [peek]);
    - the accumulators a stretch of items leaves behind: [jdeps] (DepOrderJournal) for the raw
      dependency entries, [afails] for the per-job failure counts, with [fcount_afails]:
      count after = count before + number of [EvFailed] items of the job ([infailed]);
    - the CLEAN PROP FORM [ispec]: for every decomposition [tr = pre ++ IEv (EvAborted ts) :: post]
      and every [t] in [ts], (a) the entry the monitor finds for [t] after [pre] has a dependency
      [d] that is aborted in the same event or fails in the very next item, or (b) the job of [t]
      has a limit [lim] and more than [lim] failures of the job were counted in [pre];
    - [aj_sound]: [ispec] implies that the monitor answers [true] - whatever its [dead] list is
      (the monitor's [dead] accumulator only adds further admissible causes);
    - how the items of one step decompose ([flat_map_decomp]);
    - transitive consumers have a cause ([recursive_consumers_cause]): every task collected by
      [Task::collect_recursive_consumers] is a consumer of the root or of another collected task. *)
From HQ Require Import Base.Prelude Cluster.Types Cluster.Core Cluster.Reactor Cluster.Worker Cluster.Server Cluster.Sys Cluster.Monitors Cluster.BijBase Cluster.BijCore Cluster.InvDBase Cluster.InvDRem Cluster.DepOrderJournal.
From Coq Require Import ZArith Lia.
Local Open Scope N_scope.

Arguments N.add : simpl never.
Arguments N.sub : simpl never.

(** * The monitor's lookups *)
Definition lget (l : list (N * N)) (j : N) : option N :=
  match find (fun kv => N.eqb (fst kv) j) l with Some kv => Some (snd kv) | None => None end.
Definition fcount (F : list (N * N)) (j : N) : N := match lget F j with Some n => n | None => 0 end.
Definition dfind (D : list (tid * list tid)) (t : tid) : option (list tid) :=
  match find (fun x => tid_eqb (fst x) t) D with Some (_, ds) => Some ds | None => None end.

Definition peek (r : list item) (dead : list tid) : list tid :=
  match r with IEv (EvFailed t0 _) :: _ => t0 :: dead | _ => dead end.
Definition aj_ok (D : list (tid * list tid)) (L F : list (N * N)) (dead ts : list tid) (t : tid) : bool :=
  match find (fun x => tid_eqb (fst x) t) D with
  | Some (_, ds) => existsb (fun d => tid_mem d dead || tid_mem d ts) ds
  | None => false
  end
  || match lget L (fst t), lget F (fst t) with
     | Some lim, Some n => N.ltb lim n
     | _, _ => false
     end.
Definition fail_upd (F : list (N * N)) (t : tid) : list (N * N) :=
  (fst t, match lget F (fst t) with Some n => n + 1 | None => 1 end) :: filter (fun kv => negb (N.eqb (fst kv) (fst t))) F.

Lemma aj_nil D L F Dd : abort_justified D L F Dd [] = true.
Proof. reflexivity. Qed.
Lemma aj_submitted D L F Dd j ts r :
  abort_justified D L F Dd (ISubmitted j ts :: r) = abort_justified (sub_edges j ts ++ D) L F Dd r.
Proof. reflexivity. Qed.
Lemma aj_failed D L F Dd t k r :
  abort_justified D L F Dd (IEv (EvFailed t k) :: r) = abort_justified D L (fail_upd F t) (t :: Dd) r.
Proof. reflexivity. Qed.
Lemma aj_aborted D L F Dd ts r :
  abort_justified D L F Dd (IEv (EvAborted ts) :: r)
  = forallb (aj_ok D L F (peek r Dd) ts) ts && abort_justified D L F (ts ++ peek r Dd) r.
Proof. reflexivity. Qed.
Lemma aj_canceled D L F Dd ts r :
  abort_justified D L F Dd (IEv (EvCanceled ts) :: r) = abort_justified D L F (ts ++ Dd) r.
Proof. reflexivity. Qed.

(** * Accumulators *)
Definition ifail_upd (F : list (N * N)) (i : item) : list (N * N) :=
  match i with IEv (EvFailed t _) => fail_upd F t | _ => F end.
Fixpoint afails (F : list (N * N)) (tr : list item) : list (N * N) :=
  match tr with [] => F | i :: r => afails (ifail_upd F i) r end.

Definition ifailed1 (k : N) (i : item) : N :=
  match i with IEv (EvFailed t _) => if N.eqb (fst t) k then 1 else 0 | _ => 0 end.
Fixpoint infailed (k : N) (tr : list item) : N :=
  match tr with [] => 0 | i :: r => ifailed1 k i + infailed k r end.

Lemma find_filter_other (F : list (N * N)) j k : N.eqb j k = false ->
  find (fun kv => N.eqb (fst kv) k) (filter (fun kv => negb (N.eqb (fst kv) j)) F) = find (fun kv => N.eqb (fst kv) k) F.
Proof.
  intros Hne. induction F as [|[a b] r IH]; [reflexivity|]. cbn [filter find fst].
  destruct (N.eqb a j) eqn:Ea; cbn [negb].
  - apply N.eqb_eq in Ea. subst a. rewrite Hne. exact IH.
  - cbn [find fst]. destruct (N.eqb a k); [reflexivity | exact IH].
Qed.

Lemma lget_fail_upd F t k :
  lget (fail_upd F t) k = if N.eqb (fst t) k then Some (fcount F (fst t) + 1) else lget F k.
Proof.
  unfold fail_upd, lget at 1. cbn [find fst]. destruct (N.eqb (fst t) k) eqn:E.
  - cbn [snd]. unfold fcount. destruct (lget F (fst t)); [reflexivity|]. f_equal.
  - rewrite (find_filter_other F _ _ E). reflexivity.
Qed.

Lemma fcount_fail_upd F t k : fcount (fail_upd F t) k = fcount F k + (if N.eqb (fst t) k then 1 else 0).
Proof.
  unfold fcount at 1. rewrite lget_fail_upd. destruct (N.eqb (fst t) k) eqn:E.
  - apply N.eqb_eq in E. subst k. reflexivity.
  - fold (fcount F k). lia.
Qed.

Lemma fcount_afails tr : forall F k, fcount (afails F tr) k = fcount F k + infailed k tr.
Proof.
  induction tr as [|i r IH]; intros F k; cbn [afails infailed]; [lia|].
  rewrite IH. destruct i as [e| | | | | | | |]; cbn [ifail_upd ifailed1]; try lia.
  destruct e; cbn [ifail_upd ifailed1]; try lia. rewrite fcount_fail_upd. lia.
Qed.

Lemma afails_app a : forall F b, afails F (a ++ b) = afails (afails F a) b.
Proof. induction a as [|i r IH]; intros F b; [reflexivity|]. cbn [app afails]. apply IH. Qed.
Lemma jdeps_app a : forall D b, jdeps D (a ++ b) = jdeps (jdeps D a) b.
Proof.
  induction a as [|i r IH]; intros D b; [reflexivity|]. cbn [app].
  destruct i; cbn [jdeps]; apply IH.
Qed.
Lemma infailed_app k a : forall b, infailed k (a ++ b) = infailed k a + infailed k b.
Proof. induction a as [|i r IH]; intros b; cbn [app infailed]; [lia | rewrite IH; lia]. Qed.

(** * The clean form, and the monitor *)
Definition ispec (L : list (N * N)) (D : list (tid * list tid)) (F : list (N * N)) (tr : list item) : Prop :=
  forall pre ts post, tr = pre ++ IEv (EvAborted ts) :: post -> forall t, In t ts ->
    (exists ds d, dfind (jdeps D pre) t = Some ds /\ In d ds /\ (In d ts \/ exists k r, post = IEv (EvFailed d k) :: r))
    \/ (exists lim, lget L (fst t) = Some lim /\ lim < fcount (afails F pre) (fst t)).

Lemma ispec_tail L D F i r : ispec L D F (i :: r) -> ispec L (jdeps D [i]) (ifail_upd F i) r.
Proof.
  intros H pre ts post E t Ht.
  destruct (H (i :: pre) ts post (f_equal (cons i) E) t Ht) as [(ds & d & A & B & C)|(lim & A & B)].
  - left. exists ds, d. split; [|split; assumption].
    replace (jdeps (jdeps D [i]) pre) with (jdeps D (i :: pre)); [exact A|].
    destruct i; reflexivity.
  - right. exists lim. split; [exact A | exact B].
Qed.

Lemma aj_ok_intro L D F Dd r ts t :
  (exists ds d, dfind D t = Some ds /\ In d ds /\ (In d ts \/ exists k r', r = IEv (EvFailed d k) :: r'))
  \/ (exists lim, lget L (fst t) = Some lim /\ lim < fcount F (fst t)) ->
  aj_ok D L F (peek r Dd) ts t = true.
Proof.
  intros [(ds & d & A & B & C)|(lim & A & B)]; unfold aj_ok; apply orb_true_iff.
  - left. unfold dfind in A. destruct (find (fun x => tid_eqb (fst x) t) D) as [[x ds0]|]; [|discriminate].
    inversion A; subst ds0. apply existsb_exists. exists d. split; [exact B|]. apply orb_true_iff.
    destruct C as [C|(k & r' & ->)]; [right; apply tid_mem_In; exact C|].
    left. cbn [peek]. apply tid_mem_In. left; reflexivity.
  - right. rewrite A. unfold fcount in B. destruct (lget F (fst t)) as [n|]; [apply N.ltb_lt; exact B | lia].
Qed.

Theorem aj_sound L tr : forall D F Dd, ispec L D F tr -> abort_justified D L F Dd tr = true.
Proof.
  induction tr as [|i r IH]; intros D F Dd H; [reflexivity|].
  pose proof (ispec_tail _ _ _ _ _ H) as Ht.
  destruct i as [e|l|j ids|w fl|w ts|w ts|w ts|w t|j ts]; try (cbn [abort_justified]; apply IH; exact Ht).
  - destruct e;
      try match goal with |- abort_justified _ _ _ _ (IEv (EvAborted _) :: _) = true => idtac
          | _ => cbn [abort_justified]; apply IH; exact Ht end.
    rewrite aj_aborted. apply andb_true_iff. split; [|apply IH; exact Ht].
    apply forallb_forall. intros t Hin. apply aj_ok_intro.
    destruct (H [] ts r eq_refl t Hin) as [A|A]; [left | right]; exact A.
Qed.

(** * Decomposing [flat_map] when every element contributes at most one item *)
Lemma flat_map_decomp {A B} (f : A -> list B) (l : list A) :
  (forall x, f x = [] \/ exists i, f x = [i]) ->
  forall ipre i ipost, flat_map f l = ipre ++ i :: ipost ->
  exists pre x post, l = pre ++ x :: post /\ f x = [i] /\ flat_map f pre = ipre /\ flat_map f post = ipost.
Proof.
  intros Hf. induction l as [|a r IH]; intros ipre i ipost E; [destruct ipre; discriminate|].
  cbn [flat_map] in E. destruct (Hf a) as [Ha|(i0 & Ha)]; rewrite Ha in E; cbn [app] in E.
  - destruct (IH _ _ _ E) as (pre & x & post & E1 & E2 & E3 & E4).
    exists (a :: pre), x, post. split; [rewrite E1; reflexivity|]. split; [exact E2|]. split; [cbn [flat_map]; rewrite Ha, E3; reflexivity | exact E4].
  - destruct ipre as [|p ipre'].
    + cbn [app] in E. inversion E; subst i0 ipost. exists [], a, r. split; [reflexivity|]. split; [exact Ha|]. split; reflexivity.
    + cbn [app] in E. inversion E; subst p. destruct (IH _ _ _ H1) as (pre & x & post & E1 & E2 & E3 & E4).
      exists (a :: pre), x, post. split; [rewrite E1; reflexivity|]. split; [exact E2|]. split; [cbn [flat_map]; rewrite Ha, E3; reflexivity | exact E4].
Qed.

(** Splitting a decomposition of [l1 ++ l2]. *)
Lemma app_decomp {A} (l1 l2 pre : list A) x post :
  l1 ++ l2 = pre ++ x :: post ->
  (exists m, l1 = pre ++ x :: m /\ post = m ++ l2) \/ (exists m, pre = l1 ++ m /\ l2 = m ++ x :: post).
Proof.
  revert pre. induction l1 as [|a r IH]; intros pre E.
  - right. exists pre. split; [reflexivity | exact E].
  - destruct pre as [|p pre']; cbn [app] in E; inversion E; subst.
    + left. exists r. split; reflexivity.
    + destruct (IH _ H1) as [(m & E1 & E2)|(m & E1 & E2)].
      * left. exists m. split; [rewrite E1; reflexivity | exact E2].
      * right. exists m. split; [rewrite E1; reflexivity | exact E2].
Qed.

(** * Transitive consumers have a cause *)
Definition ccause (ts : list task) (base acc : list tid) : Prop :=
  forall x, In x acc -> In x base \/ exists y ty, In y acc /\ find_task ts y = Some ty /\ In x (t_consumers ty).

Lemma ccause_mono ts base acc acc' : (forall x, In x acc -> In x acc') -> ccause ts base acc ->
  forall x, In x acc -> In x base \/ exists y ty, In y acc' /\ find_task ts y = Some ty /\ In x (t_consumers ty).
Proof.
  intros Hi H x Hx. destruct (H x Hx) as [A|(y & ty & A & B & C)]; [left; exact A|].
  right. exists y, ty. split; [apply Hi; exact A | split; assumption].
Qed.

Lemma collect_cause fuel : forall ts base frontier acc r,
  (forall x, In x frontier -> In x acc) -> ccause ts base acc ->
  collect_consumers fuel ts frontier acc = Ok r -> ccause ts base r.
Proof.
  induction fuel as [|k IH]; intros ts base frontier acc r Hfr Hc H.
  - destruct frontier; cbn [collect_consumers] in H; inversion H; subst; exact Hc.
  - destruct frontier as [|id rest]; cbn [collect_consumers] in H; [inversion H; subst; exact Hc|].
    apply bind_ok in H. destruct H as (t & Ht & H). apply get_task_find in Ht.
    set (new := filter (fun c => negb (tid_mem c acc)) (t_consumers t)) in *.
    eapply IH; [| |exact H].
    + intros x Hx. apply tia_in. apply in_app_iff in Hx. destruct Hx as [Hx|Hx]; [right; apply Hfr; right; exact Hx | left; exact Hx].
    + intros x Hx. apply tia_in in Hx. destruct Hx as [Hx|Hx].
      * right. exists id, t. split; [apply tia_in; right; apply Hfr; left; reflexivity|]. split; [exact Ht|].
        unfold new in Hx. apply filter_In in Hx. apply Hx.
      * apply (ccause_mono ts base acc); [|exact Hc | exact Hx]. intros y Hy. apply tia_in. right; exact Hy.
Qed.

Lemma recursive_consumers_cause ts t csm :
  recursive_consumers ts t = Ok csm ->
  forall x, In x csm -> In x (t_consumers t) \/ exists y ty, In y csm /\ find_task ts y = Some ty /\ In x (t_consumers ty).
Proof.
  intros H. unfold recursive_consumers in H.
  apply (collect_cause _ ts (t_consumers t) _ _ csm) in H; [exact H | |].
  - intros x Hx. apply tia_in. left; exact Hx.
  - intros x Hx. apply tia_in in Hx. destruct Hx as [Hx|[]]. left; exact Hx.
Qed.

Print Assumptions aj_sound.
