(** C06 "instance ids strictly increase", part 13: [EX] across the operations that do not touch
    the core - the events of a worker process, the timers, a new worker. *)
From HQ Require Import Base.Prelude Cluster.Types Cluster.Core Cluster.Reactor Cluster.Worker Cluster.Server Cluster.Sys Cluster.Monitors Cluster.InvWBase Cluster.NoPanicL0 Cluster.NoPanicU0 Cluster.NoPanicU1 Cluster.NoPanicU2 Cluster.ExecU1 Cluster.ExecU5 Cluster.ExecU9 Cluster.ExecU10 Cluster.ExecU11 Cluster.ExecU12.
From Coq Require Import ZArith Lia Sorting.Sorted.
Local Open Scope N_scope.

(** * Nothing is launched, the core is the same, the processes hold no more than before *)
Lemma EX_shrink s s' pre outs : EX s pre ->
  c_tasks (s_core s') = c_tasks (s_core s) -> (forall x, seen (s_hq s) x = true -> seen (s_hq s') x = true) -> launches outs = [] ->
  (forall x, (cc x (s_procs s') <= cc x (s_procs s))%nat) ->
  (forall c, In c (tags (s_procs s')) -> In c (tags (s_procs s))) ->
  (forall q' y, In q' (s_procs s') -> In y (gives (p_up q')) -> exists q, In q (s_procs s) /\ In y (gives (p_up q))) ->
  EX s' (pre ++ outs).
Proof.
  intros [EU EH EH2 ES1 ES2 EL EM] Ec Es El Hc Ht Hg.
  assert (Els : launches (pre ++ outs) = launches pre) by (rewrite launches_app, El, app_nil_r; reflexivity).
  constructor; rewrite ?Els, ?Ec.
  - intros x. specialize (Hc x). specialize (EU x). lia.
  - intros x j H. exact (EH x j (Ht _ H)).
  - intros x j t H Hf. exact (EH2 x j t (Ht _ H) Hf).
  - exact ES1.
  - intros x t Hf Hl. destruct (ES2 x t Hf Hl) as (A & B & C). split; [exact A|]. split; [specialize (Hc x); lia|].
    intros q' Hq' Hy. destruct (Hg q' x Hq' Hy) as (q & Hq & Hyq). exact (C q Hq Hyq).
  - intros l Hl. apply Es. exact (EL l Hl).
  - exact EM.
Qed.

Lemma cc_set_proc_le x ps np : (cc x (set_proc ps np) <= cc x ps + pc x np)%nat.
Proof.
  induction ps as [|h r IH]; cbn [set_proc cc]; [lia|]. destruct (N.eqb (p_id np) (p_id h)); cbn [cc]; [lia|].
  destruct (N.ltb (p_id np) (p_id h)); cbn [cc]; lia.
Qed.
Lemma in_set_proc ps np q : In q (set_proc ps np) -> q = np \/ In q ps.
Proof.
  induction ps as [|h r IH]; cbn [set_proc]; [intros [<-|[]]; auto|].
  destruct (N.eqb (p_id np) (p_id h)); [intros [<-|H]; [auto | right; right; exact H]|].
  destruct (N.ltb (p_id np) (p_id h)); [intros [<-|H]; [auto | right; exact H]|].
  intros [<-|H]; [right; left; reflexivity|]. destruct (IH H); [auto | right; right; assumption].
Qed.

(** processes mapped by a function that keeps their channels and backlog *)
Lemma cc_map x (f : wproc -> wproc) ps : (forall p, pc x (f p) = pc x p) -> cc x (map f ps) = cc x ps.
Proof. intros H. induction ps as [|h r IH]; [reflexivity|]. cbn [map cc]. rewrite H, IH. reflexivity. Qed.
Lemma tags_map (f : wproc -> wproc) ps : (forall p, ptags (f p) = ptags p) -> tags (map f ps) = tags ps.
Proof. intros H. unfold tags. induction ps as [|h r IH]; [reflexivity|]. cbn [map flat_map]. rewrite H, IH. reflexivity. Qed.

(** * A new worker *)
Lemma pc_push_quiet x p m : quietm m -> pc x (push_down p m) = pc x p.
Proof. intros H. rewrite pc_push. destruct m; try (cbn; lia). destruct H. Qed.
Lemma ptags_push_quiet p m : quietm m -> ptags (push_down p m) = ptags p.
Proof. intros H. unfold ptags, push_down. cbn [p_down p_backlog]. rewrite dcts_app. destruct m; try (cbn; rewrite app_nil_r; reflexivity). destruct H. Qed.

Lemma EX_connect s pre rs g s' outs : EX s pre -> step s (OpConnect rs g) = Ok (s', outs) -> EX s' (pre ++ outs).
Proof.
  intros HE H. cbn [step] in H. unfold on_new_worker in H. cbv zeta in H. inversion H; subst s' outs. clear H.
  cbn [fst snd emit ask_scheduling st_core with_core with_procs broadcast core_of s_core s_procs s_hq].
  set (w := c_wcounter (s_core s) + 1).
  eapply EX_shrink; [exact HE | reflexivity | intros x Hx; exact Hx | reflexivity | | |]; cbn [s_procs s_core s_hq with_procs with_core core_of fst snd].
  - intros x. match goal with |- (cc x (set_proc ?ps ?np) <= _)%nat => pose proof (cc_set_proc_le x ps np) as Hc end.
    rewrite cc_map in Hc by (intros p; apply pc_push_quiet; exact I).
    match type of Hc with (_ <= _ + pc x ?np)%nat => assert (Hz : pc x np = O) by reflexivity; rewrite Hz in Hc end. lia.
  - intros c Hc. destruct (tags_set_proc _ _ _ Hc) as [A|A]; [cbn in A; destruct A|]. rewrite tags_map in A by (intros p; apply ptags_push_quiet; exact I). exact A.
  - intros q' y Hq Hy. destruct (in_set_proc _ _ _ Hq) as [->|Hq']; [cbn in Hy; destruct Hy|].
    apply in_map_iff in Hq'. destruct Hq' as (q & <- & Hin). exists q. split; [exact Hin | exact Hy].
Qed.

(** * Timers, the next-launch-fails switch, the journal prune *)
Lemma timer_fold_frame ts : forall p, let p' := fold_left timer_fire ts p in p_down p' = p_down p /\ p_backlog p' = p_backlog p /\ p_up p' = p_up p.
Proof.
  induction ts as [|t r IH]; intros p; cbn [fold_left]; [auto|]. destruct (IH (timer_fire p t)) as (A & B & C). cbv zeta in *.
  rewrite A, B, C. unfold timer_fire. cbn. destruct (fu_find _ t) as [[|]|]; auto.
Qed.

Lemma EX_timer s pre s' outs : EX s pre -> step s OpTimer = Ok (s', outs) -> EX s' (pre ++ outs).
Proof.
  intros HE H. cbn [step] in H. inversion H; subst s' outs. clear H.
  set (f := fun p => fold_left timer_fire (p_timers p) p).
  assert (Hf : forall p, p_down (f p) = p_down p /\ p_backlog (f p) = p_backlog p /\ p_up (f p) = p_up p) by (intros p; apply timer_fold_frame).
  eapply EX_shrink; [exact HE | reflexivity | intros x Hx; exact Hx | reflexivity | | |]; cbn [s_procs with_procs].
  - intros x. rewrite (cc_map x f); [lia|]. intros p. destruct (Hf p) as (A & B & _). unfold pc. rewrite A, B. reflexivity.
  - intros c Hc. rewrite (tags_map f) in Hc; [exact Hc|]. intros p. destruct (Hf p) as (A & B & _). unfold ptags. rewrite A, B. reflexivity.
  - intros q' y Hq Hy. apply in_map_iff in Hq. destruct Hq as (q & <- & Hin). exists q. split; [exact Hin|]. destruct (Hf q) as (_ & _ & C). rewrite <- C. exact Hy.
Qed.

Lemma EX_prune s pre s' outs : EX s pre -> step s OpPrune = Ok (s', outs) -> EX s' (pre ++ outs).
Proof.
  intros HE H. cbn [step] in H. apply bind_ok in H. destruct H as (lj & _ & H). inversion H; subst s' outs.
  eapply EX_shrink; [exact HE | reflexivity | auto | reflexivity | intros; lia | auto | eauto].
Qed.

(** * The events of a worker process *)
Lemma weff_ext bt bt' (bc bc' : tid -> nat) p' ls ng : (forall c, In c bt -> In c bt') -> (forall x, bc x = bc' x) -> weff bt bc p' ls ng -> weff bt' bc' p' ls ng.
Proof. intros Ht Hc (A & B & C). split; [intros x; rewrite <- Hc; apply A | split; [intros l Hl; apply Ht, B, Hl | intros c Hc'; apply Ht, C, Hc']]. Qed.

Lemma backlog_sorted s w p : PROTO s -> find_proc (s_procs s) w = Some p -> StronglySorted N.lt (map fst (p_backlog p)).
Proof. intros HP Hp. apply lok_bl. apply local_ok_LOK. exact (pr_local _ HP _ _ Hp). Qed.

Lemma EX_ddown s pre w order s' outs : EX s pre -> PROTO s -> step s (OpDDown w order) = Ok (s', outs) -> EX s' (pre ++ outs).
Proof.
  intros HE HP H. cbn [step] in H. destruct (find_proc (s_procs s) w) as [p|] eqn:Hp; [|discriminate].
  destruct (p_down p) as [|m rest] eqn:Ed; [discriminate|]. apply bind_ok in H. destruct H as ([p' ls] & Hm & H). inversion H; subst s' outs. clear H.
  destruct (NoPanicL0.find_proc_some _ _ _ Hp) as [_ Hid].
  assert (Hs : StronglySorted N.lt (map fst (p_backlog (wp_down p rest)))) by (cbn; exact (backlog_sorted s w p HP Hp)).
  destruct (pwm_eff _ _ _ _ _ Hm Hs) as (newg & Hg & _ & HW).
  eapply (EX_worker s pre _ w p p' ls newg HE HP Hp); [rewrite (process_worker_message_id _ _ _ _ _ Hm); exact Hid | cbn; apply launches_map | | exact Hg].
  eapply weff_ext; [| |exact HW].
  - intros c Hc. unfold ptags in *. rewrite Ed. cbn [p_down p_backlog wp_down wp_upd] in Hc.
    change (m :: rest) with ([m] ++ rest). rewrite dcts_app, map_app. rewrite !in_app_iff in *. tauto.
  - intros x. unfold pc. rewrite Ed. cbn [p_down p_backlog wp_down wp_upd]. change (m :: rest) with ([m] ++ rest). rewrite dc_app. lia.
Qed.

Lemma EX_end s pre w t how s' outs : EX s pre -> PROTO s -> step s (OpEnd w t how) = Ok (s', outs) -> EX s' (pre ++ outs).
Proof.
  intros HE HP H. cbn [step] in H. destruct (find_proc (s_procs s) w) as [p|] eqn:Hp; [|discriminate].
  apply bind_ok in H. destruct H as ([p' ls] & Hm & H). inversion H; subst s' outs. clear H.
  destruct (NoPanicL0.find_proc_some _ _ _ Hp) as [_ Hid].
  destruct (task_end_eff _ _ _ _ _ Hm (backlog_sorted s w p HP Hp)) as (Hg & _ & HW).
  eapply (EX_worker s pre _ w p p' ls [] HE HP Hp); [rewrite (task_end_id _ _ _ _ _ Hm); exact Hid | apply launches_map | exact HW | rewrite app_nil_r; exact Hg].
Qed.

Lemma EX_failnext s pre w t s' outs : EX s pre -> PROTO s -> step s (OpFailNext w t) = Ok (s', outs) -> EX s' (pre ++ outs).
Proof.
  intros HE HP H. cbn [step] in H. destruct (find_proc (s_procs s) w) as [p|] eqn:Hp; [|discriminate]. inversion H; subst s' outs. clear H.
  destruct (NoPanicL0.find_proc_some _ _ _ Hp) as [_ Hid].
  eapply (EX_worker s pre [] w p _ [] [] HE HP Hp); [exact Hid | reflexivity | | rewrite app_nil_r; reflexivity].
  split; [intros x; unfold pc; cbn [lcnt tcnt filter length p_down p_backlog wp_failnext wp_upd]; lia | split; [intros l [] | auto]].
Qed.
