(** C09 for client requests, part 4: [on_new_tasks] (add_new_tasks, add_ready_task,
    process_retracted) is total on a state satisfying the invariants when the new ids are not in
    the core and the request indices are valid. *)
From HQ Require Import Base.Prelude Cluster.Types Cluster.Core Cluster.Reactor Cluster.Worker Cluster.Server Cluster.Sys Cluster.Monitors Cluster.ProofsJob Cluster.ProofsMore Cluster.ProofsStep Cluster.ProofsFinal Cluster.BijBase Cluster.BijCore Cluster.BijHq Cluster.BijSt Cluster.BijReact Cluster.BijFinal Cluster.InvWBase Cluster.InvWView Cluster.InvWCore Cluster.InvWReact Cluster.InvWServer Cluster.InvQBase Cluster.InvQTake Cluster.InvQInv Cluster.InvQOps Cluster.InvQNoDup Cluster.InvQReact Cluster.InvQSubmit Cluster.InvProcsDef Cluster.NoPanicC1 Cluster.NoPanicC2.
From Coq Require Import ZArith Lia Sorting.Sorted.
Local Open Scope N_scope.

Arguments N.add : simpl never.
Arguments N.sub : simpl never.

Lemma nodup_app {A} (a b : list A) : NoDup a -> NoDup b -> (forall x, In x a -> ~ In x b) -> NoDup (a ++ b).
Proof.
  induction a as [|h t IH]; intros Ha Hb Hd; [exact Hb|]. inversion Ha as [|? ? Hn Ht]; subst. cbn [app]. constructor.
  - intros Hin. apply in_app_or in Hin. destruct Hin as [Hin|Hin]; [contradiction | exact (Hd h (or_introl eq_refl) Hin)].
  - apply IH; [exact Ht | exact Hb | intros x Hx; apply Hd; right; exact Hx].
Qed.

(** * [add_ready_task] *)
Lemma dispose_all_length p : forall qs qs1 r, dispose_all qs p = (qs1, r) -> length qs1 = length qs.
Proof.
  induction qs as [|q0 t IH]; cbn [dispose_all]; intros qs1 r H; [inversion H; reflexivity|].
  destruct (q_check_dispose_prefill q0 p) as [q' r0]. destruct (dispose_all t p) as [t' r'] eqn:Et. inversion H; subst.
  cbn [length]. f_equal. eapply IH. reflexivity.
Qed.

Lemma add_ready_task_tot qs t : (N.to_nat (t_rq t) < length qs)%nat ->
  exists qs' r qs1, add_ready_task qs t = Ok (qs', r) /\ dispose_all qs (t_prio t) = (qs1, r).
Proof.
  intros H. unfold add_ready_task. destruct (dispose_all qs (t_prio t)) as [qs1 r] eqn:E.
  rewrite <- (dispose_all_length _ _ _ _ E) in H. destruct (nth_queue_tot qs1 _ H) as (q & -> & _). cbn [bind].
  eexists; eexists; eexists. split; reflexivity.
Qed.

(** What a disposed prefill set consists of. *)
Lemma cdp_member q p q1 ri x : WFQ q -> q_check_dispose_prefill q p = (q1, ri) -> In x ri -> SL ri /\ exists pp, PfAt q pp x.
Proof.
  intros Hwf H Hin. destruct (q_cdp_spec _ _ _ _ Hwf H) as (_ & [[_ ->]|(pp & Hp & _)]); [destruct Hin|].
  split.
  - destruct Hwf as [_ Hwp]. unfold WFP in Hwp. rewrite Hp in Hwp. exact Hwp.
  - exists pp. unfold PfAt. rewrite Hp. apply PAt_some. auto.
Qed.

Lemma dispose_all_nodup p : forall qs qs1 r, Forall WFQ qs ->
  (forall i j q q' x, nth_error qs i = Some q -> nth_error qs j = Some q' -> member q x -> member q' x -> i = j) ->
  dispose_all qs p = (qs1, r) -> NoDup r.
Proof.
  induction qs as [|q0 t IH]; cbn [dispose_all]; intros qs1 r Hwf Hu H; [inversion H; constructor|].
  destruct (q_check_dispose_prefill q0 p) as [q' r0] eqn:E0. destruct (dispose_all t p) as [t' r'] eqn:Et. inversion H; subst.
  inversion Hwf as [|? ? Hw0 Hwt]; subst.
  apply nodup_app.
  - destruct (q_cdp_spec _ _ _ _ Hw0 E0) as (_ & [[_ ->]|(pp & Hp & _)]); [constructor|].
    apply SL_NoDup. destruct Hw0 as [_ Hwp]. unfold WFP in Hwp. rewrite Hp in Hwp. exact Hwp.
  - eapply IH; [exact Hwt | | reflexivity]. intros i j q q1 x Hi Hj Hm Hm1.
    assert (S i = S j) by (eapply (Hu (S i) (S j)); eassumption). lia.
  - intros x Hx0 Hx'. destruct (cdp_member _ _ _ _ _ Hw0 E0 Hx0) as (_ & pp & Hpf).
    destruct (dispose_all_spec p t t' r' Hwt Et) as (_ & _ & _ & Hsrc).
    destruct (Hsrc x Hx') as (i & q & q1 & ri & Hq & Hc & Hin).
    destruct (cdp_member _ _ _ _ _ (nth_error_Forall _ _ _ _ Hwt Hq) Hc Hin) as (_ & pp' & Hpf').
    assert (O = S i); [|discriminate].
    eapply (Hu O (S i) q0 q x); [reflexivity | exact Hq | exists pp; right; exact Hpf | exists pp'; right; exact Hpf'].
Qed.

Lemma dispose_ret_prefilled ret c p qs1 r : QI (exL Ready ret none) [] c -> dispose_all (c_queues c) p = (qs1, r) ->
  NoDup r /\ forall x, In x r -> ~ In x ret /\ exists t w, find_task (c_tasks c) x = Some t /\ t_state t = Prefilled w.
Proof.
  intros V H. split.
  - eapply dispose_all_nodup; [exact (qv_wf _ _ _ _ _ _ V) | | exact H].
    intros i j q q' x Hi Hj Hm Hm'.
    destruct (qv_live _ _ _ _ _ _ V _ _ _ Hi Hm) as (t & Ht & Hti). destruct (qv_live _ _ _ _ _ _ V _ _ _ Hj Hm') as (t' & Ht' & Htj).
    congruence.
  - intros x Hx. destruct (dispose_all_spec p _ _ _ (qv_wf _ _ _ _ _ _ V) H) as (_ & _ & _ & Hsrc).
    destruct (Hsrc x Hx) as (i & q & q1 & ri & Hq & Hc & Hin).
    destruct (cdp_member _ _ _ _ _ (nth_error_Forall _ _ _ _ (qv_wf _ _ _ _ _ _ V) Hq) Hc Hin) as (_ & pp & Hpf).
    destruct (qv_live _ _ _ _ _ _ V _ _ x Hq) as (t & Ht & Hti); [exists pp; right; exact Hpf|].
    rewrite <- Hti in Hq. pose proof (qv_task _ _ _ _ _ _ V _ _ _ Ht Hq) as Hp.
    unfold exp_place, exL, none in Hp. destruct (tid_mem x ret) eqn:Em.
    + exfalso. exact (proj2 Hp _ Hpf).
    + split; [apply tmem_notin; exact Em|]. exists t.
      destruct (t_state t) as [n|w rv|w|w|w rv|ws|] eqn:Est; cbn [nat_place] in Hp;
        try (exfalso; exact (proj2 Hp _ Hpf)).
      * destruct (N.eqb n 0); exfalso; exact (proj2 Hp _ Hpf).
      * exists w. auto.
      * destruct (find_redirect (c_redirects c) x); exfalso; exact (proj2 Hp _ Hpf).
Qed.

(** * [register_deps] only touches consumer lists *)
Lemma register_deps_frame deps : forall c id kept count c' kept' count',
  register_deps c id deps kept count = (c', kept', count') ->
  c_queues c' = c_queues c /\ c_workers c' = c_workers c /\ c_rqs c' = c_rqs c /\
  forall x, option_map t_state (find_task (c_tasks c') x) = option_map t_state (find_task (c_tasks c) x).
Proof.
  induction deps as [|d r IH]; cbn [register_deps]; intros c id kept count c' kept' count' H.
  - inversion H; subst. auto.
  - destruct (find_task (c_tasks c) d) as [dep|] eqn:Ef; [|eapply IH; exact H].
    destruct (IH _ _ _ _ _ _ _ H) as (A & B & C & D). split; [exact A|]. split; [exact B|]. split; [exact C|].
    intros x. rewrite D. cbn [upd_task with_tasks c_tasks]. rewrite find_set_task. cbn [with_consumers t_id].
    rewrite (proj2 (find_task_some _ _ _ Ef)).
    destruct (tid_eqb x d) eqn:E; [|reflexivity]. apply tid_eqb_eq in E. subst x. rewrite Ef. reflexivity.
Qed.

Lemma state_none (a b : option task) : option_map t_state a = option_map t_state b -> (a = None <-> b = None).
Proof. destruct a, b; cbn; intros H; split; intros; congruence. Qed.

(** * [add_new_tasks] *)
Definition all_prefilled (c : core) (l : list tid) : Prop :=
  forall x, In x l -> exists t w, find_task (c_tasks c) x = Some t /\ t_state t = Prefilled w.

Lemma add_new_tasks_tot ts : forall c ret,
  QI (exL Ready ret none) [] c -> NoDup ret -> all_prefilled c ret ->
  NoDup (map t_id ts) -> (forall t, In t ts -> find_task (c_tasks c) (t_id t) = None) ->
  Forall (fun t => (N.to_nat (t_rq t) < length (c_rqs c))%nat) ts ->
  exists c' ret', add_new_tasks c ts ret = Ok (c', ret') /\ NoDup ret' /\ all_prefilled c' ret' /\ c_workers c' = c_workers c.
Proof.
  induction ts as [|t r IH]; intros c ret V Hnd Hpf Hndt Hnew Hrq.
  - exists c, ret. split; [reflexivity|]. split; [exact Hnd|]. split; [exact Hpf | reflexivity].
  - cbn [map] in Hndt. inversion Hndt as [|? ? Hni Hndt']; subst. inversion Hrq as [|? ? Hrq1 Hrq2]; subst.
    destruct (register_deps c (t_id t) (t_deps t) [] 0) as [[c1 kept] count] eqn:Er.
    destruct (register_deps_frame _ _ _ _ _ _ _ _ Er) as (Eq & Ew & Erq & Est).
    set (t1 := with_state (with_deps t kept) (Waiting count)).
    assert (Hfn : find_task (c_tasks c1) (t_id t) = None).
    { apply (state_none _ _ (Est (t_id t))). apply Hnew. left. reflexivity. }
    (* the queue part of the step *)
    assert (Hq : exists c2 ret0, (if N.eqb count 0 then do (qs, ret) <- add_ready_task (c_queues c1) t1; Ok (with_queues c1 qs, ret) else Ok (c1, [])) = Ok (c2, ret0) /\
                   c_tasks c2 = c_tasks c1 /\ c_workers c2 = c_workers c1 /\ c_rqs c2 = c_rqs c1 /\
                   (ret0 = [] \/ exists qs1, dispose_all (c_queues c) (t_prio t) = (qs1, ret0))).
    { destruct (N.eqb count 0).
      - destruct (add_ready_task_tot (c_queues c1) t1) as (qs & ret0 & qs1 & Ha & Hdis).
        { rewrite Eq, (qv_len _ _ _ _ _ _ V). exact Hrq1. }
        rewrite Ha. cbn [bind]. exists (with_queues c1 qs), ret0. split; [reflexivity|]. split; [reflexivity|]. split; [reflexivity|]. split; [reflexivity|].
        right. exists qs1. rewrite <- Eq. exact Hdis.
      - exists c1, []. split; [reflexivity|]. split; [reflexivity|]. split; [reflexivity|]. split; [reflexivity | left; reflexivity]. }
    destruct Hq as (c2 & ret0 & Hq & Et2 & Ew2 & Erq2 & Hret0).
    set (c3 := upd_task c2 t1).
    assert (Hstep : forall r', add_new_tasks c (t :: r') ret = add_new_tasks c3 r' (ret ++ ret0)).
    { intros r'. cbn [add_new_tasks]. rewrite Er. fold t1. rewrite Hq. cbn [bind]. rewrite Et2, Hfn. reflexivity. }
    assert (H1 : add_new_tasks c [t] ret = Ok (c3, ret ++ ret0)) by (rewrite Hstep; reflexivity).
    assert (Hlive : forall x, In x ret -> find_task (c_tasks c) x <> None).
    { intros x Hx. destruct (Hpf x Hx) as (tx & wx & Hfx & _). congruence. }
    assert (Hrq0 : Forall (fun t => (N.to_nat (t_rq t) < length (c_rqs c))%nat) [t]) by (constructor; [exact Hrq1 | constructor]).
    pose proof (add_new_tasks_QI [t] c ret c3 (ret ++ ret0) V Hlive Hrq0 H1) as V3.
    assert (Hret : NoDup (ret ++ ret0) /\ all_prefilled c (ret ++ ret0)).
    { destruct Hret0 as [->|(qs1 & Hdis)]; [rewrite app_nil_r; split; assumption|].
      destruct (dispose_ret_prefilled ret c _ _ _ V Hdis) as (Hnd0 & Hp0). split.
      - apply nodup_app; [exact Hnd | exact Hnd0|]. intros x Hx Hx0. exact (proj1 (Hp0 x Hx0) Hx).
      - intros x Hx. apply in_app_or in Hx. destruct Hx as [Hx|Hx]; [apply Hpf; exact Hx | apply (proj2 (Hp0 x Hx))]. }
    destruct Hret as (Hnd3 & Hpf3).
    assert (Hkeep : forall x, find_task (c_tasks c) x <> None -> option_map t_state (find_task (c_tasks c3) x) = option_map t_state (find_task (c_tasks c) x)).
    { intros x Hx. subst c3. cbn [upd_task with_tasks c_tasks]. rewrite find_set_task. change (t_id t1) with (t_id t).
      destruct (tid_eqb x (t_id t)) eqn:E; [apply tid_eqb_eq in E; subst x; exfalso; apply Hx; apply Hnew; left; reflexivity|].
      rewrite Et2. apply Est. }
    destruct (IH c3 (ret ++ ret0) V3 Hnd3) as (c' & ret' & Hr & Hnd' & Hpf' & Ew').
    + intros x Hx. destruct (Hpf3 x Hx) as (tx & wx & Hfx & Hsx).
      assert (Hk := Hkeep x ltac:(congruence)). rewrite Hfx in Hk. cbn [option_map] in Hk.
      revert Hk. destruct (find_task (c_tasks c3) x) as [tx'|]; cbn; intros Hk; [|discriminate Hk]. inversion Hk as [Hk']. exists tx', wx. split; [reflexivity | congruence].
    + exact Hndt'.
    + intros t' Ht'. subst c3. cbn [upd_task with_tasks c_tasks]. rewrite find_set_task. change (t_id t1) with (t_id t).
      destruct (tid_eqb (t_id t') (t_id t)) eqn:E.
      * apply tid_eqb_eq in E. exfalso. apply Hni. rewrite <- E. apply in_map. exact Ht'.
      * rewrite Et2. apply (state_none _ _ (Est (t_id t'))). apply Hnew. right. exact Ht'.
    + subst c3. cbn [upd_task with_tasks c_rqs]. rewrite Erq2, Erq. exact Hrq2.
    + exists c', ret'. split; [rewrite Hstep; exact Hr|]. split; [exact Hnd'|]. split; [exact Hpf'|].
      rewrite Ew'. subst c3. cbn [upd_task with_tasks c_workers]. rewrite Ew2, Ew. reflexivity.
Qed.

(** * [on_new_tasks] *)
Theorem on_new_tasks_tot s ts :
  WI (core_of s) -> QI none [] (core_of s) -> PWc s ->
  NoDup (map t_id ts) -> (forall t, In t ts -> find_task (c_tasks (core_of s)) (t_id t) = None) ->
  Forall (fun t => (N.to_nat (t_rq t) < length (c_rqs (core_of s)))%nat) ts ->
  exists s', on_new_tasks s ts = Ok s'.
Proof.
  intros HW V Hpw Hnd Hnew Hrq. unfold on_new_tasks. destruct ts as [|t0 tr]; [eexists; reflexivity|].
  destruct (add_new_tasks_tot (t0 :: tr) (core_of s) []) as (c' & ret' & Ha & Hnd' & Hpf' & Ew); try assumption.
  { constructor. } { intros x []. }
  rewrite Ha. cbn [bind].
  destruct (process_retracted_tot (st_core s c') ret') as (s1 & ->).
  - exact (add_new_tasks_WI _ _ _ _ _ HW Ha).
  - intros w Hw. change (has_proc s w). apply Hpw. change (find_worker (c_workers c') w <> None) in Hw. rewrite Ew in Hw. exact Hw.
  - exact Hnd'.
  - exact Hpf'.
  - cbn [bind]. eexists; reflexivity.
Qed.
