(** C05 / I1: the whole [Monitors.core_ok], conjunct by conjunct, for every reachable state.

      worker_sets_ok     InvW*.v   ([INV], [WI_worker_sets_ok])
      task_place_ok      InvW*.v + InvQ*.v ([WI_task_places] + [queue_statement]; assembled here)
      queues_live_ok     InvQ*.v   ([queue_statement])
      worker_accounting  Acct*.v   ([accounting_exact]; hypotheses [fits_run], [op_dim])
      deps_ok            InvD*.v   ([deps_invariant_ops])
      mn_ok              NOT available in full: "the workers of a multi-node task are of one group"
                         is a property of the solver's answer, which the cluster model takes as an
                         unconstrained witness ([core_ok_needs_one_group]); the rest of [mn_ok]
                         (distinct, non-empty, connected workers) is proved ([mn_ok_but_group]). *)
From HQ Require Import Base.Prelude Cluster.Types Cluster.Core Cluster.Reactor Cluster.Worker Cluster.Server Cluster.Sys Cluster.Monitors Cluster.BijBase Cluster.BijCore Cluster.BijReact Cluster.BijFinal Cluster.InvWBase Cluster.InvWCore Cluster.InvWFinal Cluster.InvQBase Cluster.InvQStep Cluster.InvAll Cluster.InvBundle Cluster.InvWX1 Cluster.InvWX3 Cluster.NoPanicU0 Cluster.NoPanicU20 Cluster.NoFresh Cluster.AcctBase Cluster.AcctStep Cluster.AcctFinal.
From Coq Require Import ZArith Lia.
Local Open Scope N_scope.

(** * [task_place_ok] from the worker-set and the queue invariant *)
Lemma task_place_ok_of c : WI c -> CS c -> queue_statement c -> forallb (task_place_ok c) (c_tasks c) = true.
Proof.
  intros HW HS (_ & Q & _). apply forallb_forall. intros t Hin.
  pose proof (WI_task_places c HW HS t Hin) as P. specialize (Q t Hin). cbv zeta in Q.
  unfold task_place_ok. cbv zeta.
  destruct (t_state t) as [n|w rv|w|w|w rv|ws|].
  - destruct Q as [Q1 Q2]. rewrite Q1, Q2. destruct (N.eqb n 0); reflexivity.
  - destruct Q as [Q1 Q2]. destruct P as (wk & a & p & f & E1 & E2 & E3). rewrite Q1, Q2, E1, E2, E3. reflexivity.
  - destruct Q as [Q1 Q2]. destruct P as (wk & a & p & f & E1 & E2 & E3). rewrite Q1, Q2, E1, E2, E3. reflexivity.
  - destruct Q as [Q1 Q2]. rewrite Q1, Q2. destruct (find_redirect (c_redirects c) (t_id t)) as [[target rv]|]; [|reflexivity].
    destruct (P target rv eq_refl) as (wk & a & p & f & E1 & E2 & E3). rewrite E1, E2, E3. reflexivity.
  - destruct Q as [Q1 Q2]. destruct P as (wk & a & p & f & E1 & E2 & E3). rewrite Q1, Q2, E1, E2, E3. reflexivity.
  - destruct Q as [Q1 Q2]. rewrite Q1. cbn [negb andb]. apply forallb_forall. intros w Hw.
    destruct (P w Hw) as (wk & root & E1 & E2). rewrite E1, E2. apply tid_eqb_refl'.
  - contradiction.
Qed.

(** * The part of [mn_ok] that does not depend on the solver *)
Definition mn_ok_but_group_def (c : core) (t : task) : Prop :=
  match t_state t with
  | RunningMN ws => ws <> [] /\ NoDup ws /\ forall w, In w ws -> exists wk root, find_worker (c_workers c) w = Some wk /\ w_assign wk = Mn (t_id t) root
  | _ => True
  end.

Section Reach.
Variables (ops : list op) (r m : N) (s : sys) (outs : list out).
Hypothesis Hwf : Forall op_wf ops.
Hypothesis Hok : ops_ok (init_sys r m) ops = true.
Hypothesis Hrun : run (init_sys r m) ops = Ok (s, outs).

Let HI : INV s := reachable_INV_ops ops r m s outs Hwf Hok Hrun.

Theorem mn_ok_but_group : forall t, In t (c_tasks (s_core s)) -> mn_ok_but_group_def (s_core s) t.
Proof.
  intros t Hin. unfold mn_ok_but_group_def. destruct (t_state t) as [n|w rv|w|w|w rv|ws|] eqn:Est; try exact I.
  pose proof (fresh_of_ops ops r m s outs Hwf Hok Hrun) as Hf.
  destruct (reachable_MNOK _ _ _ _ _ Hwf Hf Hrun t ws Hin Est) as [H1 H2]. split; [exact H1|]. split; [exact H2|].
  pose proof (WI_task_places _ (inv_w _ HI) (cb_s _ (inv_cb _ HI)) t Hin) as P. rewrite Est in P. exact P.
Qed.

(** The full invariant I1. *)
Theorem core_ok_exact :
  Forall op_dim ops -> fits_run (init_sys r m) ops = true ->
  forallb (mn_ok (s_core s)) (c_tasks (s_core s)) = true ->
  core_ok (s_core s) = true.
Proof.
  intros Hd Hfit Hmn. unfold core_ok.
  rewrite (WI_worker_sets_ok _ (inv_w _ HI)).
  rewrite (task_place_ok_of _ (inv_w _ HI) (cb_s _ (inv_cb _ HI)) (inv_qs _ HI)).
  rewrite (proj1 (inv_qs _ HI)).
  rewrite (accounting_exact ops r m s outs Hwf Hd Hok Hfit Hrun).
  rewrite Hmn.
  rewrite (deps_invariant_ops ops r m s outs Hwf Hok Hrun). reflexivity.
Qed.

(** Everything but the accounting and the group of multi-node placements needs no dynamic hypothesis. *)
Theorem core_ok_rest :
  forallb (worker_sets_ok (s_core s)) (c_workers (s_core s)) = true /\
  forallb (task_place_ok (s_core s)) (c_tasks (s_core s)) = true /\
  queues_live_ok (s_core s) = true /\
  forallb (deps_ok (s_core s)) (c_tasks (s_core s)) = true.
Proof.
  split; [exact (WI_worker_sets_ok _ (inv_w _ HI))|].
  split; [exact (task_place_ok_of _ (inv_w _ HI) (cb_s _ (inv_cb _ HI)) (inv_qs _ HI))|].
  split; [exact (proj1 (inv_qs _ HI)) | exact (deps_invariant_ops ops r m s outs Hwf Hok Hrun)].
Qed.
End Reach.

(** The hypothesis on [mn_ok] cannot be dropped: the model accepts a multi-node placement across two
    worker groups (the real solver does not produce one). *)
Definition h_two_groups : list op :=
  [OpConnect [2; 0; 0] 0; OpConnect [2; 0; 0] 1;
   OpSubmit None [] None rqm 0%Z CUnl false None;
   OpSched (mkSol [] [(0, 0, [[1; 2]])] [1; 2] [])].

Example core_ok_needs_one_group :
  exists s outs, Forall op_wf h_two_groups /\ Forall op_dim h_two_groups /\ ops_ok (init_sys 0 2) h_two_groups = true /\
    fits_run (init_sys 0 2) h_two_groups = true /\ run (init_sys 0 2) h_two_groups = Ok (s, outs) /\
    forallb (mn_ok (s_core s)) (c_tasks (s_core s)) = false /\ core_ok (s_core s) = false.
Proof.
  destruct (run (init_sys 0 2) h_two_groups) as [[s outs]| |] eqn:E; [|vm_compute in E; discriminate | vm_compute in E; discriminate].
  exists s, outs. split; [repeat constructor; cbn; lia|]. split; [repeat constructor; cbn; lia|].
  split; [vm_compute; reflexivity|]. split; [vm_compute; reflexivity|]. split; [reflexivity|].
  vm_compute in E. inversion E; subst. split; vm_compute; reflexivity.
Qed.

(** [core_ok_exact] applies to non-trivial histories (prefill with self-started tasks; multi-node). *)
Example core_ok_exact_applies :
  (exists s outs, run (init_sys 0 2) h_prefill = Ok (s, outs) /\ core_ok (s_core s) = true) /\
  (exists s outs, run (init_sys 0 2) h_mn = Ok (s, outs) /\ core_ok (s_core s) = true).
Proof.
  split.
  - destruct (run (init_sys 0 2) h_prefill) as [[s outs]| |] eqn:E; [|vm_compute in E; discriminate | vm_compute in E; discriminate].
    exists s, outs. split; [reflexivity|].
    eapply (core_ok_exact h_prefill 0 2 s outs); [repeat constructor; cbn; lia | vm_compute; reflexivity | exact E | repeat constructor; cbn; lia | vm_compute; reflexivity|].
    vm_compute in E. inversion E; subst. vm_compute. reflexivity.
  - destruct (run (init_sys 0 2) h_mn) as [[s outs]| |] eqn:E; [|vm_compute in E; discriminate | vm_compute in E; discriminate].
    exists s, outs. split; [reflexivity|].
    eapply (core_ok_exact h_mn 0 2 s outs); [repeat constructor; cbn; lia | vm_compute; reflexivity | exact E | repeat constructor; cbn; lia | vm_compute; reflexivity|].
    vm_compute in E. inversion E; subst. vm_compute. reflexivity.
Qed.

Print Assumptions core_ok_exact.
Print Assumptions mn_ok_but_group.
