(** C09 for the scheduling step, part 6: sending the mapping, the executable contract [sol_ok] of
    the solver's answer, and the theorem [scheduling_never_panics]. *)
From HQ Require Import Base.Prelude Cluster.Types Cluster.Core Cluster.Reactor Cluster.Worker Cluster.Server Cluster.Sys Cluster.ProofsJob Cluster.ProofsMore Cluster.ProofsStep Cluster.BijBase Cluster.BijCore Cluster.BijSt Cluster.InvWBase Cluster.InvWView Cluster.InvWCore Cluster.InvWReact Cluster.InvWServer Cluster.InvWSched Cluster.InvQBase Cluster.InvQTake Cluster.InvQInv Cluster.InvQOps Cluster.InvQNoDup Cluster.InvQReact Cluster.InvQSched Cluster.InvQStep Cluster.InvProcsDef Cluster.InvBundle Cluster.NoPanicS1 Cluster.NoPanicS2 Cluster.NoPanicS3 Cluster.NoPanicS4 Cluster.NoPanicS5.
From Coq Require Import ZArith Lia Sorting.Sorted.
Local Open Scope N_scope.

Arguments N.add : simpl never.
Arguments N.sub : simpl never.

(** * Channels: every worker of the core has a connected process *)
Definition PWC (s : st) : Prop :=
  forall w, find_worker (c_workers (core_of s)) w <> None -> find_proc (s_procs (fst s)) w <> None.

Lemma sch_find_set_proc ps x w : find_proc (set_proc ps x) w = if N.eqb w (p_id x) then Some x else find_proc ps w.
Proof.
  induction ps as [|h r IH]; cbn [set_proc find_proc]; [reflexivity|].
  destruct (N.eqb (p_id x) (p_id h)) eqn:E1.
  - apply N.eqb_eq in E1. cbn [find_proc]. rewrite <- E1. destruct (N.eqb w (p_id x)); reflexivity.
  - destruct (N.ltb (p_id x) (p_id h)); cbn [find_proc]; [reflexivity|].
    destruct (N.eqb w (p_id h)) eqn:E2.
    + apply N.eqb_eq in E2. subst w. rewrite N.eqb_sym, E1. reflexivity.
    + exact IH.
Qed.

Lemma sch_find_proc_in ps w : In w (map p_id ps) -> find_proc ps w <> None.
Proof.
  induction ps as [|h r IH]; cbn [map In find_proc]; [intros []|].
  destruct (N.eqb w (p_id h)) eqn:E; [discriminate|]. intros [H|H]; [subst w; rewrite N.eqb_refl in E; discriminate | apply IH; exact H].
Qed.

Lemma PW_PWC s : PW s -> PWC (s, []).
Proof.
  unfold PW, PWC, core_of. cbn [fst]. intros H w Hw. apply sch_find_proc_in. rewrite H.
  destruct (find_worker (c_workers (s_core s)) w) as [wk|] eqn:E; [|congruence].
  destruct (find_worker_some _ _ _ E) as [Hin <-]. apply in_map. exact Hin.
Qed.

Lemma send_worker_ok s w m : PWC s -> find_proc (s_procs (fst s)) w <> None ->
  exists s', send_worker s w m = Ok s' /\ core_of s' = core_of s /\ PWC s'.
Proof.
  intros HP Hw. unfold send_worker. destruct (find_proc (s_procs (fst s)) w) as [p|] eqn:E; [|congruence].
  eexists. split; [reflexivity|]. split; [reflexivity|].
  intros y Hy. unfold core_of in *. cbn [fst with_procs s_core s_procs] in *. rewrite sch_find_set_proc.
  destruct (N.eqb y (p_id (push_down p m))); [discriminate | apply HP; exact Hy].
Qed.

Lemma send_opt_ok {A} s w (l : list A) (f : list A -> dmsg) : PWC s -> find_worker (c_workers (core_of s)) w <> None ->
  exists s', match l with [] => Ok s | _ => send_worker s w (f l) end = Ok s' /\ core_of s' = core_of s /\ PWC s'.
Proof.
  intros HP Hw. destruct l; [exists s; auto|]. apply send_worker_ok; [exact HP | apply HP; exact Hw].
Qed.

Lemma ctasks_prefill_ok c l : (forall id, In id l -> find_task (c_tasks c) id <> None) -> exists r, ctasks_prefill c l = Ok r.
Proof.
  induction l as [|id r IH]; cbn [ctasks_prefill]; intros H; [eexists; reflexivity|].
  unfold get_task. destruct (find_task (c_tasks c) id) as [t|] eqn:E; [|exfalso; exact (H id (or_introl eq_refl) E)].
  cbn [bind]. destruct IH as (r0 & E0); [intros y Hy; apply H; right; exact Hy|]. rewrite E0. cbn [bind]. eexists; reflexivity.
Qed.
Lemma ctasks_of_ok c l : (forall a, In a l -> find_task (c_tasks c) (fst a) <> None) -> exists r, ctasks_of c l = Ok r.
Proof.
  induction l as [|[id rv] r IH]; cbn [ctasks_of]; intros H; [eexists; reflexivity|].
  unfold get_task. destruct (find_task (c_tasks c) id) as [t|] eqn:E; [|exfalso; exact (H (id, rv) (or_introl eq_refl) E)].
  cbn [bind]. destruct IH as (r0 & E0); [intros y Hy; apply H; right; exact Hy|]. rewrite E0. cbn [bind]. eexists; reflexivity.
Qed.

(** * [send_messages] *)
Lemma send_mapping_ok m : forall s, MOK (core_of s) m -> PWC s ->
  exists s', send_mapping s m = Ok s' /\ core_of s' = core_of s /\ PWC s'.
Proof.
  induction m as [|u r IH]; intros s HM HP; cbn [send_mapping].
  - exists s. auto.
  - destruct (HM u (or_introl eq_refl)) as (Hw & Ha & Hp).
    destruct (send_opt_ok s (wu_w u) (wu_retracts u) DRetract HP Hw) as (s1 & E1 & C1 & P1).
    assert (E1' : match wu_retracts u with [] => Ok s | _ :: _ => send_worker s (wu_w u) (DRetract (wu_retracts u)) end = Ok s1) by exact E1.
    destruct (wu_retracts u) as [|r0 rr] eqn:Er; rewrite E1'; cbn [bind]; rewrite C1;
    (destruct (ctasks_prefill_ok (core_of s) (wu_prefills u) Hp) as (cts1 & Ec1); rewrite Ec1; cbn [bind];
     destruct (ctasks_of_ok (core_of s) (wu_assigned u) Ha) as (cts2 & Ec2); rewrite Ec2; cbn [bind];
     destruct (send_opt_ok s1 (wu_w u) (cts1 ++ cts2) DCompute P1 ltac:(rewrite C1; exact Hw)) as (s2 & E2 & C2 & P2);
     assert (E2' : match cts1 ++ cts2 with [] => Ok s1 | _ :: _ => send_worker s1 (wu_w u) (DCompute (cts1 ++ cts2)) end = Ok s2) by exact E2;
     destruct (cts1 ++ cts2) as [|x0 xr] eqn:Ex; rewrite E2'; cbn [bind];
     (destruct (IH s2) as (s3 & E3 & C3 & P3);
       [rewrite C2, C1; intros u0 Hu0; apply HM; right; exact Hu0 | exact P2 |];
      exists s3; split; [exact E3|]; split; [rewrite C3, C2, C1; reflexivity | exact P3])).
Qed.

Lemma send_mn_ok l : forall s, MNL (core_of s) l -> PWC s -> exists s', send_mn s l = Ok s' /\ core_of s' = core_of s.
Proof.
  induction l as [|id r IH]; intros s HL HP; cbn [send_mn].
  - exists s. auto.
  - destruct (HL id (or_introl eq_refl)) as (t & w0 & ws & Ht & Est & Hw).
    unfold get_task. rewrite Ht. cbn [bind]. rewrite Est.
    destruct (send_worker_ok s w0 (DCompute [ctask_of t (Some 0) (w0 :: ws)]) HP (HP w0 Hw)) as (s1 & E1 & C1 & P1).
    rewrite E1. cbn [bind]. destruct (IH s1) as (s2 & E2 & C2); [rewrite C1; intros y Hy; apply HL; right; exact Hy | exact P1|].
    exists s2. split; [exact E2 | rewrite C2, C1; reflexivity].
Qed.

(** * Sorting the assigned lists keeps their members *)
Lemma insert_by_prio_in c x l a : In a (insert_by_prio c x l) -> a = x \/ In a l.
Proof.
  induction l as [|h t IH]; cbn [insert_by_prio In]; [intros [H|[]]; auto|].
  match goal with |- context [if ?b then _ else _] => destruct b end; cbn [In]; [intros [H|[H|H]]; auto|].
  intros [H|H]; [auto|]. destruct (IH H); auto.
Qed.
Lemma sort_assigned_in c l a : In a (sort_assigned c l) -> In a l.
Proof.
  unfold sort_assigned. assert (G : forall acc, In a (fold_left (fun acc x => insert_by_prio c x acc) l acc) -> In a l \/ In a acc).
  { induction l as [|h t IH]; cbn [fold_left]; intros acc H; [right; exact H|].
    destruct (IH _ H) as [H1|H1]; [left; right; exact H1|]. destruct (insert_by_prio_in _ _ _ _ H1) as [->|H2]; [left; left; reflexivity | right; exact H2]. }
  intros H. destruct (G [] H) as [H1|[]]. exact H1.
Qed.
Lemma MOK_sort c c1 m : MOK c m ->
  MOK c (map (fun u => mkWU (wu_w u) (sort_assigned c1 (wu_assigned u)) (wu_prefills u) (wu_retracts u)) m).
Proof.
  intros H u Hu. apply in_map_iff in Hu. destruct Hu as (u0 & <- & Hu0). destruct (H u0 Hu0) as (H1 & H2 & H3).
  cbn [wu_w wu_assigned wu_prefills]. split; [exact H1|]. split; [|exact H3]. intros a Ha. apply H2. eapply sort_assigned_in. exact Ha.
Qed.

(** * The whole round, under the semantic form of the contract *)
Definition SolOK (c : core) (sol : solution) : Prop :=
  SnOK c (sol_sn sol) /\ MnOK c (sol_mn sol) /\
  (forall i, In i (map cidx (sol_sn sol)) -> ~ In i (map cidx (sol_mn sol))) /\
  (forall w x, In w (mn_workers (sol_mn sol)) -> In x (sol_sn sol) -> ~ Wc (snd x) w).

Theorem run_scheduling_np s sol :
  WI (core_of s) -> QI none [] (core_of s) -> PWC s -> SolOK (core_of s) sol -> np (run_scheduling s sol).
Proof.
  intros HW V HP (HSn & HMn & Hdisj & Hmw). unfold run_scheduling.
  destruct (negb (perm_of_set _ _)); [reflexivity|].
  set (c := core_of s) in *.
  destruct (map_sn_ok sol (sol_sn sol) c [] HW V (MOK_nil c) HSn) as [N1 N2].
  destruct (map_sn c [] sol (sol_sn sol)) as [[c1 m1]| |] eqn:E1; [|reflexivity | discriminate N1].
  cbn [bind]. destruct (N2 c1 m1 eq_refl) as (W1 & V1 & M1 & F1).
  set (m2 := map (fun u => mkWU (wu_w u) (sort_assigned c1 (wu_assigned u)) (wu_prefills u) (wu_retracts u)) m1).
  assert (M1' : MOK c1 m2) by (apply MOK_sort; exact M1).
  assert (HMn1 : MnOK c1 (sol_mn sol)).
  { eapply MnOK_SF; [exact F1 | | | | exact HMn].
    - intros i Hi Hs. exact (Hdisj i Hs Hi).
    - intros y t (t0 & Ht0 & Hin) Ht Hm. rewrite Ht0 in Ht. inversion Ht; subst t0. exact (Hdisj _ Hin Hm).
    - intros w Hw (x & Hx & Hc). exact (Hmw w x Hw Hx Hc). }
  destruct (map_mn_ok (sol_mn sol) c1 [] W1 V1 ltac:(intros y []) HMn1) as (c2 & mn & E2 & W2 & V2 & L2 & F2).
  rewrite E2. cbn [bind].
  assert (M2 : MOK c2 m2) by (eapply MOK_SF; [exact F2 | exact M1']).
  assert (H3 : exists c3 m3,
            match queues_top_priority (c_queues c2) with
            | Some top => prefill_queues c2 m2 (sol_workers sol) 0 (length (c_queues c2)) top
            | None => Ok (c2, m2)
            end = Ok (c3, m3) /\ MOK c3 m3 /\ SF (waitT c2) (fun _ => True) (fun _ => True) c2 c3).
  { destruct (queues_top_priority (c_queues c2)) as [top|].
    - destruct (prefill_queues_ok (sol_workers sol) top (length (c_queues c2)) c2 m2 0%nat W2 V2 M2 eq_refl) as (c3 & m3 & E3 & _ & _ & M3 & F3).
      exists c3, m3. auto.
    - exists c2, m2. split; [reflexivity|]. split; [exact M2 | apply SF_refl]. }
  destruct H3 as (c3 & m3 & E3 & M3 & F3). rewrite E3. cbn [bind].
  assert (L3 : MNL c3 mn).
  { intros y Hy. destruct (L2 y Hy) as (t & w0 & ws & Ht & Est & Hw). exists t, w0, ws.
    split; [|split; [exact Est | apply (sf_wsome _ _ _ _ _ F3); exact Hw]].
    rewrite (sf_t _ _ _ _ _ F3 y); [exact Ht|]. intros (t0 & Ht0 & Hw0). rewrite Ht in Ht0. inversion Ht0; subst t0.
    unfold is_waiting in Hw0. rewrite Est in Hw0. discriminate. }
  assert (P3 : PWC (st_core s c3)).
  { intros w Hw. unfold core_of in Hw. cbn [st_core fst with_core s_core s_procs] in *. apply HP. fold c.
    destruct (find_worker (c_workers c) w) eqn:E; [discriminate|]. exfalso. apply Hw.
    apply (sf_wnone _ _ _ _ _ F3). apply (sf_wnone _ _ _ _ _ F2). apply (sf_wnone _ _ _ _ _ F1). exact E. }
  destruct (send_mapping_ok m3 (st_core s c3) M3 P3) as (s1 & E4 & C4 & P4). rewrite E4. cbn [bind].
  destruct (send_mn_ok mn s1) as (s2 & E5 & _); [rewrite C4; exact L3 | exact P4|]. rewrite E5. reflexivity.
Qed.
