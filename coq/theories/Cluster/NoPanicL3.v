(** Worker loss never panics, part 3: [task_failed] for a task that lost its worker
    ([w = None]: the crash limit is reached) is total on a state satisfying the invariants. *)
From HQ Require Import Base.Prelude Cluster.Types Cluster.Core Cluster.Reactor Cluster.Worker Cluster.Server Cluster.Sys Cluster.Monitors Cluster.ProofsJob Cluster.ProofsMore Cluster.ProofsTerminal Cluster.ProofsStep Cluster.ProofsFinal Cluster.BijBase Cluster.BijCore Cluster.BijHq Cluster.BijSt Cluster.BijReact Cluster.BijFinal Cluster.FrameGen Cluster.CrashFrame Cluster.InvWBase Cluster.InvWView Cluster.InvWCore Cluster.InvWReact Cluster.InvWReact2 Cluster.InvWReact3 Cluster.InvWServer Cluster.InvWStep Cluster.InvWFinal Cluster.InvQBase Cluster.InvQTake Cluster.InvQInv Cluster.InvQOps Cluster.InvQNoDup Cluster.InvQReact Cluster.InvQReact2 Cluster.InvQReact3 Cluster.InvQServer Cluster.InvQServer2 Cluster.InvQStep Cluster.InvDBase Cluster.InvDSpec Cluster.InvDMap Cluster.InvDRem Cluster.InvDReact Cluster.InvDSched Cluster.InvDStep Cluster.InvProcsDef Cluster.NoPanicC1 Cluster.NoPanicC2 Cluster.NoPanicC3 Cluster.NoPanicC4 Cluster.InvWX1 Cluster.InvWX2 Cluster.InvWX3 Cluster.NoPanicL0 Cluster.NoPanicL1 Cluster.NoPanicL2.
From Coq Require Import ZArith Lia Sorting.Sorted.
Local Open Scope N_scope.

Arguments N.add : simpl never.
Arguments N.sub : simpl never.

(** * Job layer *)
Lemma abort_tasks_tot s jid ids j :
  HOK (hq_of s) -> find_job (hq_jobs s) jid = Some j -> NoDup ids ->
  (forall t, In t ids -> fst t = jid /\ jactive (jt_find (j_tasks j) (snd t))) ->
  exists s', abort_tasks s jid ids = Ok s'.
Proof.
  intros H Ef Hnd Hin. unfold abort_tasks. destruct ids as [|i0 ir]; [eexists; reflexivity|].
  pose proof (find_job_id _ _ _ Ef) as Hid.
  unfold hq_get_job. unfold hq_jobs in Ef. rewrite Ef. cbn [bind].
  pose proof (H _ (find_job_in _ _ _ Ef)) as Hj.
  destruct (mark_tasks_tot JA 206 (i0 :: ir) (or_intror eq_refl) j 0 (JOK_JOKx _ JA Hj) Hnd) as (j1 & H1).
  { intros t Ht. rewrite Hid. apply Hin. exact Ht. }
  rewrite H1. cbn [bind].
  destruct (mark_tasks_ok JA 206 (i0 :: ir) (or_intror eq_refl) _ _ 0 (JOK_JOKx _ JA Hj) H1) as ([Ss R F X C A] & O1 & O2 & O3 & O4 & Hact).
  match goal with |- exists s', check_termination ?st jid = _ => set (s2 := st) end.
  match goal with s2 := emit (hq_set_job s ?jj) _ |- _ => set (j2 := jj) in * end.
  assert (Hj2 : JOK j2).
  { subst j2. cbn [jst_eqb] in *. constructor; cbn; auto; try lia.
    intros Hcm. rewrite O2 in Hcm. destruct (jok_completed _ Hj Hcm) as (_ & Hw & Hr).
    assert (i0 :: ir <> []) as Hne by discriminate. specialize (Hact Hne). lia. }
  apply (check_termination_tot s2 jid j2).
  - subst s2. rewrite !emit_hq. apply hq_set_job_ok; assumption.
  - subst s2. change (find_job (hq_jobs (hq_set_job s j2)) jid = Some j2). rewrite find_job_hq_set.
    replace (j_id j2) with jid by (subst j2; cbn; congruence). rewrite N.eqb_refl. reflexivity.
Qed.

Lemma active_find_job s t : active s t -> exists j, find_job (hq_jobs s) (fst t) = Some j /\ jactive (jt_find (j_tasks j) (snd t)).
Proof.
  intros (l & Hl & Ha). unfold jt in Hl. unfold hq_jobs. change (h_jobs (s_hq (fst s))) with (h_jobs (hq_of s)).
  destruct (find_job (h_jobs (hq_of s)) (fst t)) as [j|]; [|discriminate]. cbn in Hl. inversion Hl; subst l. eauto.
Qed.

Lemma process_task_failed_tot s t aborted k :
  HOK (hq_of s) -> NoDup aborted -> ~ In t aborted -> active s t ->
  (forall x, In x aborted -> fst x = fst t /\ active s x) ->
  exists s' ids, process_task_failed s t aborted k = Ok (s', ids).
Proof.
  intros Hok Hnd Hni Hat Hab. unfold process_task_failed.
  destruct (active_find_job _ _ Hat) as (j & Ej & _).
  destruct (abort_tasks_tot s (fst t) aborted j Hok Ej Hnd) as (s1 & H1).
  { intros x Hx. destruct (Hab x Hx) as [Hf Hx']. split; [exact Hf|].
    destruct (active_find_job _ _ Hx') as (jx & Ejx & Hax). rewrite Hf, Ej in Ejx. inversion Ejx; subst jx. exact Hax. }
  rewrite H1. cbn [bind].
  pose proof (abort_tasks_ok _ _ _ _ Hok H1) as Hok1.
  destruct (abort_tasks_active _ _ _ _ H1) as [_ A1].
  assert (Hat1 : active s1 t) by (apply A1; split; assumption).
  destruct (active_find_job _ _ Hat1) as (j1 & Ej1 & Ha1).
  unfold hq_get_job at 1. unfold hq_jobs in Ej1. rewrite Ej1. cbn [bind].
  pose proof (Hok1 _ (find_job_in _ _ _ Ej1)) as Hj1. pose proof (find_job_id _ _ _ Ej1) as Hid1.
  (* the task itself *)
  assert (Hx : exists jx, (match jt_find (j_tasks j1) (snd t) with
             | Some JR => do nr <- Reactor.csub (j_nrun j1) 1 203;
                 Ok (job_upd j1 (jt_set (j_tasks j1) (snd t) JX) nr (j_nfin j1) (j_nfail j1 + 1) (j_ncanc j1) (j_nabort j1) (j_completed j1))
             | Some JW => Ok (job_upd j1 (jt_set (j_tasks j1) (snd t) JX) (j_nrun j1) (j_nfin j1) (j_nfail j1 + 1) (j_ncanc j1) (j_nabort j1) (j_completed j1))
             | Some _ => Panic 204
             | None => Panic 201
             end) = Ok jx /\ JOK jx /\ j_id jx = fst t).
  { destruct Hj1 as [Ss R F X C A Cm].
    destruct Ha1 as [Ef|Ef]; rewrite Ef; pose proof (fun v => cnt_set_some _ _ _ JX v Ss Ef) as HC.
    - eexists. split; [reflexivity|]. split; [|exact Hid1].
      constructor; cbn; auto using jt_set_sorted;
        try (match goal with |- _ = cnt _ ?v => specialize (HC v); cbn [jst_eqb] in HC; lia end).
      intros Hcm. destruct (Cm Hcm) as (_ & Hw & _). pose proof (HC JW) as Hx. cbn [jst_eqb] in Hx. lia.
    - unfold Reactor.csub. pose proof (cnt_pos _ _ _ Ef) as Hp. rewrite <- R in Hp.
      destruct (N.ltb (j_nrun j1) 1) eqn:El; [apply N.ltb_lt in El; lia|]. cbn [bind].
      eexists. split; [reflexivity|]. split; [|exact Hid1].
      constructor; cbn; auto using jt_set_sorted;
        try (match goal with |- _ = cnt _ ?v => specialize (HC v); cbn [jst_eqb] in HC; lia end).
      intros Hcm. destruct (Cm Hcm) as (_ & _ & Hr). pose proof (HC JR) as Hx. cbn [jst_eqb] in Hx. lia. }
  destruct Hx as (jx & -> & Hjx & Hidx). cbn [bind].
  set (sm := emit (hq_set_job s1 jx) (OEv (EvFailed t k))).
  assert (Hokm : HOK (hq_of sm)) by (subst sm; rewrite emit_hq; apply hq_set_job_ok; assumption).
  assert (Ejm : find_job (hq_jobs sm) (fst t) = Some jx).
  { subst sm. change (find_job (hq_jobs (hq_set_job s1 jx)) (fst t) = Some jx). rewrite find_job_hq_set, Hidx, N.eqb_refl. reflexivity. }
  destruct (check_termination_tot sm (fst t) jx Hokm Ejm) as (s2 & H2). rewrite H2. cbn [bind].
  pose proof (check_termination_ok _ _ _ Hokm H2) as Hok2.
  destruct (check_termination_jt _ _ _ H2) as [_ J2].
  assert (Ej2 : exists j2, find_job (h_jobs (s_hq (fst s2))) (fst t) = Some j2).
  { pose proof (J2 (fst t)) as X. unfold jt in X. unfold hq_jobs in Ejm. change (h_jobs (s_hq (fst sm))) with (h_jobs (hq_of sm)) in Ejm. rewrite Ejm in X.
    change (h_jobs (s_hq (fst s2))) with (h_jobs (hq_of s2)). destruct (find_job (h_jobs (hq_of s2)) (fst t)) as [j2|]; [eauto | discriminate]. }
  destruct Ej2 as (j2 & Ej2). unfold hq_get_job. rewrite Ej2. cbn [bind].
  destruct (j_maxfails j2) as [mf|]; [|eexists; eexists; reflexivity].
  destruct (N.ltb mf (j_nfail j2)); [|eexists; eexists; reflexivity].
  pose proof (Hok2 _ (find_job_in _ _ _ Ej2)) as Hj2.
  destruct (abort_tasks_tot s2 (fst t) (non_finished_task_ids j2) j2 Hok2 Ej2) as (s3 & H3).
  { apply nodup_non_finished. exact (jok_sorted _ Hj2). }
  { intros x Hx. apply (non_finished_in _ _ (jok_sorted _ Hj2)) in Hx. destruct Hx as [A B]. split; [|exact B].
    rewrite A. eapply find_job_id. exact Ej2. }
  rewrite H3. cbn [bind]. eexists; eexists; reflexivity.
Qed.

(** * The transitive consumers *)
Lemma collect_consumers_inv (Q : tid -> Prop) fuel : forall ts frontier acc r,
  (forall x tx y, find_task ts x = Some tx -> In y (t_consumers tx) -> Q y) ->
  (forall x, In x acc -> Q x) ->
  collect_consumers fuel ts frontier acc = Ok r -> forall x, In x r -> Q x.
Proof.
  induction fuel as [|k IH]; intros ts frontier acc r HQ Ha H; destruct frontier as [|id rest]; cbn [collect_consumers] in H;
    try (inversion H; subst; exact Ha).
  apply bind_ok in H. destruct H as (t & Ht & H). apply get_task_find in Ht.
  eapply IH; [exact HQ | | exact H].
  intros x Hx. apply tinsall_iff in Hx. destruct Hx as [Hx|Hx]; [|apply Ha; exact Hx].
  apply filter_In in Hx. destruct Hx as [Hx _]. eapply HQ; eassumption.
Qed.

Lemma collect_consumers_SL fuel : forall ts frontier acc r,
  SL acc -> collect_consumers fuel ts frontier acc = Ok r -> SL r.
Proof.
  induction fuel as [|k IH]; intros ts frontier acc r Hs H; destruct frontier as [|id rest]; cbn [collect_consumers] in H;
    try (inversion H; subst; exact Hs).
  apply bind_ok in H. destruct H as (t & _ & H). eapply IH; [|exact H]. apply tinsall_SL. exact Hs.
Qed.

Lemma recursive_consumers_inv (Q : tid -> Prop) ts id t csm :
  (forall x tx y, find_task ts x = Some tx -> In y (t_consumers tx) -> Q y) ->
  find_task ts id = Some t -> recursive_consumers ts t = Ok csm -> forall x, In x csm -> Q x.
Proof.
  intros HQ Hf H. unfold recursive_consumers in H. eapply collect_consumers_inv; [exact HQ | | exact H].
  intros x Hx. apply tinsall_iff in Hx. destruct Hx as [Hx|[]]. eapply HQ; eassumption.
Qed.

Lemma recursive_consumers_nodup ts t csm : recursive_consumers ts t = Ok csm -> NoDup csm.
Proof.
  intros H. unfold recursive_consumers in H. apply SL_NoDup. eapply collect_consumers_SL; [|exact H]. apply tinsall_SL. apply SL_nil.
Qed.

(** A consumer of a live task is a waiting task with a positive counter. *)
Lemma DI_consumer_waits m x tx y : DI m -> m x = Some tx -> In y (t_consumers tx) ->
  exists ty n, m y = Some ty /\ t_state ty = Waiting n /\ n <> 0.
Proof.
  intros D Ex Hy. pose proof (dx_id _ _ D _ _ Ex) as Hidx.
  destruct (dx_cons _ _ D _ _ _ Ex Hy) as (ct & Ec & Wc & Ic).
  pose proof (DI_cnt _ _ _ D Ec) as C. unfold is_waiting in Wc. destruct (t_state ct) as [n| | | | | |] eqn:Est; try discriminate.
  exists ct, n. split; [exact Ec|]. split; [exact Est|].
  assert (Hp : (1 <= dcount m ct)%nat) by (eapply flen_pos; [exact Ic | apply inm_true; eauto]). lia.
Qed.

(** * [remove_waiting_consumers] *)
Lemma remove_waiting_consumers_tot X l : forall c,
  CS c -> QI none [] c -> DX X (fm c) -> NoDup l -> incl l X ->
  (forall x, In x l -> exists tx, find_task (c_tasks c) x = Some tx /\ is_waiting tx = true) ->
  exists c', remove_waiting_consumers c l = Ok c'.
Proof.
  induction l as [|id r IH]; intros c Hs V D Hnd Hinc Hpre; [eexists; reflexivity|].
  inversion Hnd as [|? ? Hni Hnd']; subst. cbn [remove_waiting_consumers].
  destruct (Hpre id (or_introl eq_refl)) as (t & Hf & Hw).
  destruct (remove_task_tot none X c id t V D Hf (fun _ => eq_refl)) as (c1 & stt & H1).
  rewrite H1. cbn [bind].
  rewrite (remove_task_state _ _ _ _ _ H1 Hf). unfold is_waiting in Hw. destruct (t_state t) eqn:Est; try discriminate.
  destruct (remove_task_QI none [] [] c id c1 _ lax_none V H1) as (V1 & S1 & G1 & N1 & R1 & _).
  { intros t0 Ht0. left. rewrite Hf in Ht0. inversion Ht0; subst t0. unfold is_waiting. rewrite Est. reflexivity. }
  { intros x []. }
  destruct (remove_task_shrinks _ _ _ _ Hs H1) as [Sh _].
  destruct (remove_task_DX X c id c1 _ (CS_sorted _ Hs) D (Hinc id (or_introl eq_refl)) H1) as (_ & D1 & _).
  apply (IH c1 (shr_sorted _ _ _ Sh) V1 D1 Hnd').
  - intros x Hx. apply Hinc. right. exact Hx.
  - intros x Hx. destruct (Hpre x (or_intror Hx)) as (tx & Hfx & Hwx).
    assert (Hp : present (keys c1) x).
    { apply (shr_dom _ _ _ Sh). split; [apply find_task_present; eauto | intros [<-|[]]; contradiction]. }
    apply find_task_present in Hp. destruct Hp as (tx1 & Etx1). exists tx1. split; [exact Etx1|].
    destruct (S1 _ _ Etx1) as (t0 & Ht0 & Hst). rewrite Hfx in Ht0. inversion Ht0; subst t0.
    unfold is_waiting in *. rewrite <- Hst. exact Hwx.
Qed.

(** * [task_failed] with [w = None] on a ready task *)
Theorem task_failed_none_tot s id k t :
  HOK (hq_of s) -> CB s -> WI (core_of s) -> QI none [] (core_of s) -> GD (core_of s) -> InvWX1.J (core_of s) -> PI s ->
  find_task (c_tasks (core_of s)) id = Some t -> t_state t = Waiting 0 ->
  exists s', task_failed s None id k = Ok s' /\ tsub (c_tasks (core_of s)) (c_tasks (core_of s')).
Proof.
  intros Hok HC HW V [Hts D] HJ HP Ef Est.
  destruct (find_task_some _ _ _ Ef) as [Hin Hid].
  unfold task_failed. cbv zeta. rewrite Ef.
  set (c := core_of s) in *.
  destruct (get_rq_tot (c_rqs c) (t_rq t)) as (rq & ->).
  { rewrite <- (qv_len _ _ _ _ _ _ V). exact (qv_rq _ _ _ _ _ _ V _ _ Ef). }
  cbn [bind].
  assert (Hw : is_waiting t = true) by (unfold is_waiting; rewrite Est; reflexivity). rewrite Hw. cbn [bind].
  assert (W : WFc (c_tasks c)) by (eapply DX_WFc; exact D).
  destruct (recursive_consumers_tot _ id t W Ef) as (csm & Hcs). rewrite Hcs. cbn [bind].
  pose proof (recursive_consumers_nodup _ _ _ Hcs) as Ndc.
  assert (HQ : forall x, In x csm -> exists tx n, find_task (c_tasks c) x = Some tx /\ t_state tx = Waiting n /\ n <> 0).
  { eapply (recursive_consumers_inv _ (c_tasks c) id t csm); [|exact Ef | exact Hcs].
    intros x tx y Hx Hy. exact (DI_consumer_waits (fm c) x tx y D Hx Hy). }
  assert (Hnid : ~ In id csm).
  { intros Hc. destruct (HQ id Hc) as (tx & n & Hx & Hs & Hn). rewrite Ef in Hx. inversion Hx; subst tx. rewrite Est in Hs. inversion Hs. congruence. }
  assert (Hjob : forall x, In x csm -> fst x = fst id).
  { rewrite <- Hid. eapply recursive_consumers_job; [exact (cb_d _ HC) | exact Hin | exact Hcs]. }
  assert (Hdom : forall y, In y (t_consumers t) -> find_task (c_tasks c) y <> None).
  { intros y Hy. destruct (dx_cons _ _ D _ _ _ Ef Hy) as (ct & Ec & _). unfold fm in Ec. congruence. }
  destruct (recursive_consumers_closed _ t csm W (dx_nc _ _ D _ _ Ef) Hdom Hcs) as [I1 I2].
  pose proof (closed_with_root (fm c) csm id t Ef I1 I2) as Hcl.
  set (X := csm ++ [id]) in *.
  assert (D1 : DX X (fm c)) by (apply DX_start; [exact D | exact Hcl]).
  assert (Hi1 : incl csm X) by (intros x Hx; apply in_app_iff; left; exact Hx).
  assert (Hi2 : In id X) by (apply in_app_iff; right; left; reflexivity).
  pose proof (cb_s _ HC) as Hs. fold c in Hs.
  destruct (remove_waiting_consumers_tot X csm c Hs V D1 Ndc Hi1) as (c2 & H2).
  { intros x Hx. destruct (HQ x Hx) as (tx & n & Hfx & Hsx & _). exists tx. split; [exact Hfx|]. unfold is_waiting. rewrite Hsx. reflexivity. }
  rewrite H2. cbn [bind].
  destruct (remove_waiting_consumers_shrinks _ _ _ Hs H2) as [Sh2 _].
  destruct (remove_waiting_consumers_QI none [] csm c c2 lax_none V H2) as (V2 & S2 & N2 & _ & G2).
  destruct (remove_waiting_consumers_DX X csm _ _ Hts D1 Hi1 H2) as (T2 & D2 & ND2 & _ & SD2).
  assert (Hf2 : exists t2, find_task (c_tasks c2) id = Some t2 /\ t_state t2 = Waiting 0).
  { assert (Hp : present (keys c2) id) by (apply (shr_dom _ _ _ Sh2); split; [apply find_task_present; eauto | exact Hnid]).
    apply find_task_present in Hp. destruct Hp as (t2 & E2). exists t2. split; [exact E2|].
    destruct (S2 _ _ E2) as (t0 & Ht0 & Hst). fold c in Ef. rewrite Ef in Ht0. inversion Ht0; subst t0. rewrite <- Hst. exact Est. }
  destruct Hf2 as (t2 & Ef2 & Est2).
  destruct (remove_task_tot none X c2 id t2 V2 D2 Ef2 (fun _ => eq_refl)) as (c3 & stt & H3).
  rewrite H3. cbn [bind].
  pose proof (remove_task_state _ _ _ _ _ H3 Ef2) as Estt. rewrite Est2 in Estt. subst stt. cbn [bind].
  destruct (remove_task_shrinks _ _ _ _ (shr_sorted _ _ _ Sh2) H3) as [Sh3 _].
  destruct (remove_task_QI none [] [] c2 id c3 _ lax_none V2 H3) as (V3 & S3 & G3 & N3 & _).
  { intros t0 Ht0. left. rewrite Ef2 in Ht0. inversion Ht0; subst t0. unfold is_waiting. rewrite Est2. reflexivity. }
  { intros x []. }
  destruct (remove_task_DX X _ _ _ _ T2 D2 Hi2 H3) as (T3 & D3 & ND3 & K3 & SD3).
  pose proof (shrinks_trans _ _ _ _ _ Sh2 Sh3) as Sh23.
  assert (S23 : tsub (c_tasks c) (c_tasks c3)) by (eapply tsub_trans; eassumption).
  assert (Hact : forall x, present (keys c) x -> active (st_core s c3) x).
  { intros x Hp. apply (active_same s (st_core s c3)); [intros; reflexivity|]. apply (cb_b _ HC). exact Hp. }
  destruct (process_task_failed_tot (st_core s c3) id csm k) as (s1 & cids & H4).
  { exact Hok. } { exact Ndc. } { exact Hnid. }
  { apply Hact. apply find_task_present. eauto. }
  { intros x Hx. split; [apply Hjob; exact Hx|]. apply Hact. destruct (HQ x Hx) as (tx & _ & Hfx & _). apply find_task_present. eauto. }
  rewrite H4. cbn [bind].
  destruct (process_task_failed_active (st_core s c3) id csm k s1 cids Hok H4) as (C4 & A4 & J4 & N4).
  unfold core_same in C4. cbn [core_of st_core with_core s_core fst] in C4.
  destruct cids as [|c0 cr] eqn:Ecid.
  { exists s1. split; [reflexivity|]. rewrite C4. exact S23. }
  rewrite <- Ecid in *. assert (Hne : cids <> []) by (rewrite Ecid; discriminate). clear Ecid.
  (* the state before the cancellation of the rest of the job *)
  assert (Ks1 : K s1 = keys c3) by (unfold K; rewrite C4; reflexivity).
  assert (Hs3 : CS c3) by exact (shr_sorted _ _ _ Sh23).
  assert (Hd3 : KD (K s1)) by (rewrite Ks1; eapply shrinks_KD; [exact Sh23 | exact (cb_d _ HC)]).
  assert (W3 : WI c3).
  { eapply remove_task_WIX; [eapply remove_waiting_consumers_WIX; [exact HW | exact Hs | exact H2] | exact (shr_sorted _ _ _ Sh2) | exact H3 | right; reflexivity]. }
  assert (G3' : GD c3).
  { split; [exact T3|]. eapply DX_end; [exact D3|]. intros x Hx. apply in_app_iff in Hx.
    destruct Hx as [Hx|[<-|[]]]; [apply K3, ND2; exact Hx | exact ND3]. }
  assert (J3 : InvWX1.J c3).
  { eapply J_R; [exact HJ|]. eapply InvWX1.R_trans; [eapply remove_waiting_consumers_R; exact H2 | eapply remove_task_R; exact H3]. }
  apply J_MNE_RWA in J3. destruct J3 as (Hmne & Hrwa & _).
  assert (HP1 : PI s1).
  { eapply R_PI; [|exact HP]. eapply NoPanicL0.R_trans; [apply (R_core s c3) | apply R_CP; eapply process_task_failed_CP; exact H4].
    eapply Rc_trans; [intros Hws; eapply remove_waiting_consumers_wids; [exact Hws | exact H2] | intros Hws; eapply remove_task_wids; [exact Hws | exact H3]]. }
  assert (Hcl3 : forall x t0 y, find_task (c_tasks (core_of s1)) x = Some t0 -> In y cids -> fst x = fst y -> In x cids \/ is_waiting t0 = true).
  { intros x t0 y Hx Hy Hf. left. rewrite C4 in Hx.
    apply N4; [exact Hne | rewrite Hf; apply J4; exact Hy | | | ].
    - apply Hact. apply find_task_present. destruct (S23 _ _ Hx) as (t1 & Hx1 & _). eauto.
    - intros Hc. rewrite (N3 _ (G2 _ Hc)) in Hx. discriminate.
    - intros ->. congruence. }
  assert (V3' : QI none [] (core_of s1)) by (rewrite C4; exact V3).
  destruct (on_cancel_tasks_tot s1 cids) as (s' & H5).
  { rewrite C4. exact W3. } { exact V3'. } { rewrite C4. exact G3'. }
  { rewrite C4. exact Hs3. } { exact Hd3. }
  { rewrite C4. exact Hmne. } { rewrite C4. exact Hrwa. }
  { apply PI_PWc. exact HP1. }
  { eapply process_task_failed_nodup; [|exact H4]. exact Hok. }
  { exact Hcl3. }
  exists s'. split.
  - destruct cids; [congruence | exact H5].
  - destruct (on_cancel_tasks_QI [] s1 cids s' V3' Hd3 Hcl3 H5) as (_ & S5 & _).
    eapply tsub_trans; [|exact S5]. rewrite C4. exact S23.
Qed.
