(** C09 for the scheduling step, part 4: the multi-node mapping ([set_mn_workers], [map_mn_sets],
    [map_mn]) never panics when every worker set consists of distinct free workers, the sets are
    disjoint, the class's queue can deliver one ready task per set and holds no task under
    retraction. *)
From HQ Require Import Base.Prelude Cluster.Types Cluster.Core Cluster.Reactor Cluster.Worker Cluster.Server Cluster.Sys Cluster.ProofsJob Cluster.ProofsMore Cluster.ProofsStep Cluster.BijBase Cluster.BijCore Cluster.InvWBase Cluster.InvWView Cluster.InvWCore Cluster.InvWReact Cluster.InvWServer Cluster.InvWSched Cluster.InvQBase Cluster.InvQTake Cluster.InvQInv Cluster.InvQOps Cluster.InvQNoDup Cluster.InvQReact Cluster.InvQSched Cluster.NoPanicS1 Cluster.NoPanicS2 Cluster.NoPanicS3.
From Coq Require Import ZArith Lia Sorting.Sorted.
Local Open Scope N_scope.

Arguments N.add : simpl never.
Arguments N.sub : simpl never.

(** No task of request [i] is under retraction. *)
Definition NR (c : core) (i : nat) : Prop :=
  forall id t w, find_task (c_tasks c) id = Some t -> N.to_nat (t_rq t) = i -> t_state t <> Retracting w.
(** Worker [w] exists and is free ([Worker::is_free]). *)
Definition freew (c : core) (w : wid) : Prop :=
  exists wk, find_worker (c_workers c) w = Some wk /\ worker_is_free wk = true.
(** The multi-node tasks placed so far. *)
Definition MNL (c : core) (mn : list tid) : Prop :=
  forall id, In id mn -> exists t w0 ws, find_task (c_tasks c) id = Some t /\ t_state t = RunningMN (w0 :: ws) /\
                                         find_worker (c_workers c) w0 <> None.

Lemma NoDup_app_disj {A} (a b : list A) x : NoDup (a ++ b) -> In x a -> In x b -> False.
Proof.
  induction a as [|h t IH]; cbn [app]; intros H Ha Hb; [destruct Ha|]. inversion H; subst.
  destruct Ha as [->|Ha]; [apply H2; apply in_or_app; right; exact Hb | exact (IH H3 Ha Hb)].
Qed.

Lemma NoDup_app_r {A} (a b : list A) : NoDup (a ++ b) -> NoDup b.
Proof. induction a as [|h t IH]; cbn [app]; intros H; [exact H|]. inversion H; subst. apply IH. assumption. Qed.

Lemma freew_SF T (W : wid -> Prop) Q c c' w : SF T W Q c c' -> ~ W w -> freew c w -> freew c' w.
Proof. intros A Hn (wk & Hw & Hf). exists wk. split; [exact (sf_free _ _ _ _ _ A w wk Hn Hw Hf) | exact Hf]. Qed.

Lemma NR_SF (T : tid -> Prop) W Q c c' j : SF T W Q c c' ->
  (forall y t, T y -> find_task (c_tasks c) y = Some t -> N.to_nat (t_rq t) <> j) -> NR c j -> NR c' j.
Proof.
  intros A HT H id t' w Hf Hr. destruct (SF_find_back _ _ _ _ _ _ _ A Hf) as (t & Ht & Et).
  assert (Hrq : N.to_nat (t_rq t) = j) by (rewrite Et in Hr; exact Hr).
  assert (Hn : ~ T id) by (intros X; exact (HT id t X Ht Hrq)).
  rewrite (sf_t _ _ _ _ _ A id Hn) in Hf. exact (H id t' w Hf Hr).
Qed.

(** A ready id of queue [i] is a task of request [i] that is ready or under retraction. *)
Lemma ready_state c i q p id : QI none [] c -> nth_error (c_queues c) i = Some q -> RdyAt q p id ->
  exists t, find_task (c_tasks c) id = Some t /\ N.to_nat (t_rq t) = i /\ (t_state t = Waiting 0 \/ exists w, t_state t = Retracting w).
Proof.
  intros V Hq Hr. assert (Hm : member q id) by (exists p; left; exact Hr).
  destruct (qv_live _ _ _ _ _ _ V i q id Hq Hm) as (t & Hf & Hi). exists t. split; [exact Hf|]. split; [exact Hi|].
  rewrite <- Hi in Hq. pose proof (qv_task _ _ _ _ _ _ V _ _ _ Hf Hq) as Hp.
  unfold exp_place, none, nat_place in Hp.
  destruct (t_state t) as [n| | | | | |]; try (exfalso; destruct Hp as [A _]; exact (A _ Hr)); try (exfalso; destruct Hp as [_ B]; exact (B _ Hr)).
  - destruct (N.eqb n 0) eqn:E; [apply N.eqb_eq in E; subst; left; reflexivity | exfalso; destruct Hp as [A _]; exact (A _ Hr)].
  - right. eauto.
Qed.

(** * [set_mn_workers] *)
Lemma set_mn_workers_ok T Q l : forall c id first,
  NoDup l -> (forall w, In w l -> freew c w) ->
  exists c', set_mn_workers c id l first = Ok c' /\ SF T (fun y => In y l) Q c c' /\ c_tasks c' = c_tasks c /\ c_queues c' = c_queues c.
Proof.
  induction l as [|w r IH]; intros c id first Hnd Hfr; cbn [set_mn_workers].
  - exists c. split; [reflexivity|]. split; [apply SF_refl | split; reflexivity].
  - inversion Hnd as [|? ? Hni Hnr]; subst. destruct (Hfr w (or_introl eq_refl)) as (wk & Hw & Hf).
    unfold get_worker. rewrite Hw. cbn [bind]. unfold set_mn_task. rewrite Hf. cbn [bind].
    destruct (find_worker_some _ _ _ Hw) as [_ Hwi].
    assert (F1 : SF T (fun y => In y (w :: r)) Q c (upd_worker c (with_assign wk (Mn id first))))
      by (eapply SF_upd_worker; [exact Hw | exact Hwi | left; left; reflexivity]).
    destruct (IH (upd_worker c (with_assign wk (Mn id first))) id false Hnr) as (c' & E & F2 & Et & Eq).
    { intros y Hy. destruct (Hfr y (or_intror Hy)) as (wy & Hwy & Hfy). exists wy. split; [|exact Hfy].
      cbn [c_workers upd_worker with_workers]. rewrite find_set_worker. cbn [w_id with_assign]. rewrite Hwi.
      destruct (N.eqb y w) eqn:Ey; [apply N.eqb_eq in Ey; subst y; contradiction | exact Hwy]. }
    exists c'. split; [exact E|]. split; [|rewrite Et, Eq; split; reflexivity].
    eapply SF_trans; [exact F1|]. eapply SF_weaken; [| | |exact F2]; auto. intros y Hy. right. exact Hy.
Qed.

(** * [map_mn_sets]: the worker sets of one class *)
Lemma map_mn_sets_ok rq sets : forall c mn,
  WI c -> QI none [] c -> MNL c mn -> (N.to_nat rq < length (c_queues c))%nat ->
  (forall q, nth_error (c_queues c) (N.to_nat rq) = Some q -> take_ones (length sets) q = true) -> NR c (N.to_nat rq) ->
  Forall (fun ws => ws <> []) sets -> NoDup (concat sets) -> (forall w, In w (concat sets) -> freew c w) ->
  exists c' mn', map_mn_sets c rq mn sets = Ok (c', mn') /\ WI c' /\ QI none [] c' /\ MNL c' mn' /\
    SF (fun y => exists t, find_task (c_tasks c) y = Some t /\ N.to_nat (t_rq t) = N.to_nat rq)
       (fun y => In y (concat sets)) (eq (N.to_nat rq)) c c'.
Proof.
  set (i := N.to_nat rq).
  induction sets as [|ws rest IH]; intros c mn HW V HL Hlq Htk HNR Hne Hnd Hfr.
  - exists c, mn. split; [reflexivity|]. split; [exact HW|]. split; [exact V|]. split; [exact HL | apply SF_refl].
  - destruct (nth_error_ex (c_queues c) i Hlq) as (q & Hq).
    pose proof (proj2 (nth_queue_ok _ _ _) Hq) as Hnq.
    pose proof (Htk q Hq) as Hto. cbn [length take_ones] in Hto.
    destruct (q_take_one q) as [[id q']|] eqn:Eo; [|discriminate].
    destruct (q_take_one_ready _ _ _ Eo) as (_ & (p & Hrd) & _).
    destruct (ready_state c i q p id V Hq Hrd) as (t & Ht & Hrq & Hst).
    assert (Est : t_state t = Waiting 0) by (destruct Hst as [E|(w & E)]; [exact E | exfalso; exact (HNR id t w Ht Hrq E)]).
    destruct (find_task_some _ _ _ Ht) as [_ Hid].
    pose proof (Forall_inv Hne) as Hws. pose proof (Forall_inv_tail Hne) as Hne'. cbn beta in Hws. cbn [concat] in Hnd, Hfr.
    pose proof (NoDup_app_l _ _ Hnd) as Hndw. pose proof (NoDup_app_r _ _ Hnd) as Hndr.
    set (c1 := with_queues c (set_queue (c_queues c) i q')).
    set (Ti := fun y => exists t, find_task (c_tasks c) y = Some t /\ N.to_nat (t_rq t) = i).
    assert (F01 : SF Ti (fun y => In y ws) (eq i) c c1) by (apply SF_set_queue; reflexivity).
    destruct (set_mn_workers_ok Ti (eq i) ws c1 id true Hndw) as (c2 & E2 & F12 & Et2 & Eq2).
    { intros w Hw. apply Hfr. apply in_or_app. left. exact Hw. }
    assert (Ht2 : find_task (c_tasks c2) id = Some t) by (rewrite Et2; exact Ht).
    set (c3 := upd_task c2 (with_state t (RunningMN ws))).
    assert (F23 : SF Ti (fun y => In y ws) (eq i) c2 c3) by (eapply SF_upd_task; [exact Ht2 | exists t; auto]).
    assert (F03 : SF Ti (fun y => In y ws) (eq i) c c3) by (eapply SF_trans; [exact F01|]; eapply SF_trans; [exact F12 | exact F23]).
    assert (Hc3 : forall y, y <> id -> find_task (c_tasks c3) y = find_task (c_tasks c) y).
    { intros y Hy. cbn [c3 c_tasks upd_task with_tasks]. rewrite find_set_task. cbn [t_id with_state]. rewrite Hid.
      destruct (tid_eqb y id) eqn:E; [apply tid_eqb_eq in E; contradiction | rewrite Et2; reflexivity]. }
    assert (Hc3i : find_task (c_tasks c3) id = Some (with_state t (RunningMN ws))).
    { cbn [c3 c_tasks upd_task with_tasks]. rewrite find_set_task. cbn [t_id with_state]. rewrite Hid, tid_eqb_refl'. reflexivity. }
    (* one set, seen as a run of the function itself: the existing preservation lemmas apply *)
    assert (E1 : map_mn_sets c rq mn [ws] = Ok (c3, mn ++ [id])).
    { cbn [map_mn_sets]. fold i. rewrite Hnq. cbn [bind]. rewrite Eo.
      change (with_queues c (set_queue (c_queues c) i q')) with c1. rewrite E2. cbn [bind].
      unfold get_task. rewrite Ht2. cbn [bind]. rewrite Est. reflexivity. }
    pose proof (map_mn_sets_WI _ _ _ _ _ _ HW E1) as W3. pose proof (map_mn_sets_QI _ _ _ _ _ _ V E1) as V3.
    assert (Hq3 : nth_error (c_queues c3) i = Some q').
    { change (nth_error (c_queues c2) i = Some q'). rewrite Eq2. cbn [c1 c_queues with_queues]. eapply nth_set_queue_same. exact Hq. }
    assert (L3 : MNL c3 (mn ++ [id])).
    { intros y Hy. apply in_app_or in Hy. destruct Hy as [Hy|[<-|[]]].
      - destruct (HL y Hy) as (ty & w0 & wr & Hty & Esy & Hwy). exists ty, w0, wr.
        split; [|split; [exact Esy | apply (sf_wsome _ _ _ _ _ F03); exact Hwy]].
        rewrite Hc3; [exact Hty|]. intros ->. rewrite Ht in Hty. inversion Hty; subst. congruence.
      - destruct ws as [|w0 wr]; [congruence|]. exists (with_state t (RunningMN (w0 :: wr))), w0, wr.
        split; [exact Hc3i|]. split; [reflexivity|].
        apply (sf_wsome _ _ _ _ _ F03). destruct (Hfr w0) as (wk0 & Hwk0 & _); [left; reflexivity | congruence]. }
    destruct (IH c3 (mn ++ [id]) W3 V3 L3) as (c' & mn' & E' & W' & V' & L' & F').
    { rewrite (sf_qlen _ _ _ _ _ F03). exact Hlq. }
    { intros q0 Hq0. rewrite Hq3 in Hq0. inversion Hq0; subst. exact Hto. }
    { intros y ty w Hty Hr. destruct (tid_dec y id) as [->|Hne0].
      - rewrite Hc3i in Hty. inversion Hty; subst. discriminate.
      - rewrite (Hc3 y Hne0) in Hty. exact (HNR y ty w Hty Hr). }
    { exact Hne'. }
    { exact Hndr. }
    { intros w Hw. eapply (freew_SF _ (fun y => In y ws)); [exact F03 | | apply Hfr; apply in_or_app; right; exact Hw].
      intros X. exact (NoDup_app_disj _ _ _ Hnd X Hw). }
    exists c', mn'. split.
    { cbn [map_mn_sets]. fold i. rewrite Hnq. cbn [bind]. rewrite Eo.
      change (with_queues c (set_queue (c_queues c) i q')) with c1. rewrite E2. cbn [bind].
      unfold get_task. rewrite Ht2. cbn [bind]. rewrite Est. exact E'. }
    split; [exact W'|]. split; [exact V'|]. split; [exact L'|].
    eapply SF_trans; [eapply SF_weaken; [| | |exact F03]; auto; intros y Hy; apply in_or_app; left; exact Hy|].
    eapply SF_weaken; [| | |exact F']; auto.
    + intros y (t3 & Ht3 & Hr3). destruct (SF_find_back _ _ _ _ _ _ _ F03 Ht3) as (t0 & Ht0 & Et0). exists t0. split; [exact Ht0|]. rewrite Et0 in Hr3. exact Hr3.
    + intros y Hy. apply in_or_app. right. exact Hy.
Qed.

(** * [map_mn]: all multi-node classes of the solution *)
(** What is needed for one class [(rq, variant, worker sets)]: a valid request index, one ready task
    per set, no task of the request under retraction (multi-node tasks are never prefilled), no
    empty set. *)
Definition mn_class_ok (c : core) (x : N * N * list (list wid)) : Prop :=
  (cidx x < length (c_rqs c))%nat /\
  (forall q, nth_error (c_queues c) (cidx x) = Some q -> take_ones (length (snd x)) q = true) /\
  NR c (cidx x) /\ Forall (fun ws => ws <> []) (snd x).
Definition mn_workers (l : list (N * N * list (list wid))) : list wid := concat (concat (map snd l)).
Definition MnOK (c : core) (l : list (N * N * list (list wid))) : Prop :=
  NoDup (map cidx l) /\ Forall (mn_class_ok c) l /\ NoDup (mn_workers l) /\ (forall w, In w (mn_workers l) -> freew c w).

Lemma mn_workers_cons x r : mn_workers (x :: r) = concat (snd x) ++ mn_workers r.
Proof. unfold mn_workers. cbn [map concat]. apply concat_app. Qed.

Lemma MnOK_SF (T : tid -> Prop) (W : wid -> Prop) (Q : nat -> Prop) c c' l : SF T W Q c c' ->
  (forall i, In i (map cidx l) -> ~ Q i) ->
  (forall y t, T y -> find_task (c_tasks c) y = Some t -> ~ In (N.to_nat (t_rq t)) (map cidx l)) ->
  (forall w, In w (mn_workers l) -> ~ W w) ->
  MnOK c l -> MnOK c' l.
Proof.
  intros A HQ HT HWn (H1 & H2 & H3 & H4). split; [exact H1|]. split; [|split; [exact H3|]].
  - rewrite Forall_forall in *. intros x Hx. destruct (H2 x Hx) as (X1 & X2 & X3 & X4).
    assert (Hin : In (cidx x) (map cidx l)) by (apply in_map; exact Hx).
    split; [rewrite (sf_rqs _ _ _ _ _ A); exact X1|]. split; [|split; [|exact X4]].
    + intros q Hq. apply X2. rewrite <- (sf_q _ _ _ _ _ A _ (HQ _ Hin)). exact Hq.
    + eapply NR_SF; [exact A | | exact X3]. intros y t Hy Ht E. apply (HT y t Hy Ht). rewrite E. exact Hin.
  - intros w Hw. eapply freew_SF; [exact A | apply HWn; exact Hw | apply H4; exact Hw].
Qed.

Theorem map_mn_ok l : forall c mn,
  WI c -> QI none [] c -> MNL c mn -> MnOK c l ->
  exists c' mn', map_mn c mn l = Ok (c', mn') /\ WI c' /\ QI none [] c' /\ MNL c' mn' /\
    SF (fun _ => True) (fun _ => True) (fun _ => True) c c'.
Proof.
  induction l as [|[[rq v] sets] r IH]; intros c mn HW V HL HO; cbn [map_mn].
  - exists c, mn. split; [reflexivity|]. split; [exact HW|]. split; [exact V|]. split; [exact HL | apply SF_refl].
  - destruct HO as (H1 & H2 & H3 & H4). inversion H1 as [|? ? Hni Hnr]; subst.
    pose proof (Forall_inv H2) as (X1 & X2 & X3 & X4). pose proof (Forall_inv_tail H2) as H2r.
    unfold cidx in X1, X2, X3, Hni. cbn [fst snd] in X1, X2, X3, X4, Hni.
    rewrite mn_workers_cons in H3, H4. cbn [snd] in H3, H4.
    destruct (map_mn_sets_ok rq sets c mn HW V HL) as (c1 & mn1 & E1 & W1 & V1 & L1 & F1).
    { rewrite (qv_len _ _ _ _ _ _ V). exact X1. }
    { exact X2. }
    { exact X3. }
    { exact X4. }
    { exact (NoDup_app_l _ _ H3). }
    { intros w Hw. apply H4. apply in_or_app. left. exact Hw. }
    rewrite E1. cbn [bind].
    assert (HO1 : MnOK c1 r).
    { eapply MnOK_SF; [exact F1 | | | |].
      - intros j Hj <-. exact (Hni Hj).
      - intros y t (t0 & Ht0 & Hr0) Ht Hin. rewrite Ht0 in Ht. inversion Ht; subst t0. rewrite Hr0 in Hin. exact (Hni Hin).
      - intros w Hw X. exact (NoDup_app_disj _ _ _ H3 X Hw).
      - split; [exact Hnr|]. split; [exact H2r|]. split; [exact (NoDup_app_r _ _ H3)|].
        intros w Hw. apply H4. apply in_or_app. right. exact Hw. }
    destruct (IH c1 mn1 W1 V1 L1 HO1) as (c2 & mn2 & E2 & W2 & V2 & L2 & F2).
    exists c2, mn2. split; [exact E2|]. split; [exact W2|]. split; [exact V2|]. split; [exact L2|].
    eapply SF_trans; [|exact F2]. eapply SF_weaken; [| | |exact F1]; auto.
Qed.
