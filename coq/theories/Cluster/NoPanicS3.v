(** C09 for the scheduling step, part 3: the single-node mapping ([map_one], the round-robin
    loop, [map_sn]) never panics when the solver's counts are covered by the queues and name
    single-node workers. *)
From HQ Require Import Base.Prelude Cluster.Types Cluster.Core Cluster.Reactor Cluster.Worker Cluster.Server Cluster.Sys Cluster.ProofsJob Cluster.ProofsMore Cluster.ProofsStep Cluster.BijBase Cluster.BijCore Cluster.InvWBase Cluster.InvWView Cluster.InvWCore Cluster.InvWReact Cluster.InvWServer Cluster.InvWSched Cluster.InvQBase Cluster.InvQTake Cluster.InvQInv Cluster.InvQOps Cluster.InvQNoDup Cluster.InvQReact Cluster.InvQSched Cluster.NoPanicS1 Cluster.NoPanicS2.
From Coq Require Import ZArith Lia Sorting.Sorted.
Local Open Scope N_scope.

Arguments N.add : simpl never.
Arguments N.sub : simpl never.

(** * Extending the mapping *)
Lemma MOK_add_assigned c m w id v : MOK c m -> find_worker (c_workers c) w <> None -> find_task (c_tasks c) id <> None ->
  MOK c (wu_set m (mkWU w (wu_assigned (wu_get m w) ++ [(id, v)]) (wu_prefills (wu_get m w)) (wu_retracts (wu_get m w)))).
Proof.
  intros H Hw Ht. destruct (wu_get_spec c m w H) as (_ & G2 & G3). apply MOK_set; cbn [wu_w wu_assigned wu_prefills]; auto.
  intros a Ha. apply in_app_or in Ha. destruct Ha as [Ha|[<-|[]]]; [apply G2; exact Ha | exact Ht].
Qed.
Lemma MOK_add_retract c m w id : MOK c m -> find_worker (c_workers c) w <> None ->
  MOK c (wu_set m (mkWU w (wu_assigned (wu_get m w)) (wu_prefills (wu_get m w)) (wu_retracts (wu_get m w) ++ [id]))).
Proof.
  intros H Hw. destruct (wu_get_spec c m w H) as (_ & G2 & G3). apply MOK_set; cbn [wu_w wu_assigned wu_prefills]; auto.
Qed.
Lemma MOK_add_prefills c m w ids : MOK c m -> find_worker (c_workers c) w <> None ->
  (forall id, In id ids -> find_task (c_tasks c) id <> None) ->
  MOK c (wu_set m (mkWU w (wu_assigned (wu_get m w)) (wu_prefills (wu_get m w) ++ ids) (wu_retracts (wu_get m w)))).
Proof.
  intros H Hw Ht. destruct (wu_get_spec c m w H) as (_ & G2 & G3). apply MOK_set; cbn [wu_w wu_assigned wu_prefills]; auto.
  intros a Ha. apply in_app_or in Ha. destruct Ha as [Ha|Ha]; [apply G3; exact Ha | apply Ht; exact Ha].
Qed.

(** * [map_one] *)
Lemma map_one_ok c m id D w v rqres i :
  WI c -> QI (exL Nowhere (id :: D) none) [] c -> ~ In id D -> PT c i [id] -> snw c w -> MOK c m ->
  exists c' m', map_one c m id w v rqres = Ok (c', m') /\ WI c' /\ QI (exL Nowhere D none) [] c' /\
    SF (eq id) (eq w) (fun _ => False) c c' /\ SNP c c' /\ MOK c' m'.
Proof.
  intros HW HQ Hnd HP (wk & a & p & f & Hw & Ea) HM.
  destruct (HP id (or_introl eq_refl)) as (t & Ht & Htk & _).
  destruct (find_task_some _ _ _ Ht) as [_ Hid].
  destruct (find_worker_some _ _ _ Hw) as [_ Hwi].
  assert (Hna : tid_mem id a = false).
  { destruct (tid_mem id a) eqn:E; [|reflexivity]. exfalso. unfold takeable in Htk. rewrite Hid in Htk.
    destruct (WI_member_A c w wk a p f id t HW Hw Ea E Ht) as [X|[X (v0 & Y)]]; destruct (t_state t); cbn in X; try discriminate; try contradiction.
    congruence. }
  set (wk' := with_assign wk (Sn (tid_insert id a) p (res_sub f rqres))).
  assert (Hins : insert_sn_task wk id rqres = Ok wk') by (unfold insert_sn_task; rewrite Ea, Hna; reflexivity).
  assert (Hwi' : w_id wk' = w) by exact Hwi.
  assert (F0 : SF (eq id) (eq w) (fun _ => False) c (upd_worker c wk')) by (eapply SF_upd_worker; [exact Hw | exact Hwi' | left; reflexivity]).
  assert (S0 : SNP c (upd_worker c wk')) by (eapply SNP_upd_worker; [exact Hw | exact Hwi' | reflexivity]).
  assert (Hex : exists c' m', map_one c m id w v rqres = Ok (c', m') /\
            SF (eq id) (eq w) (fun _ => False) (upd_worker c wk') c' /\ SNP (upd_worker c wk') c' /\ MOK c' m').
  { unfold map_one. unfold get_worker at 1. rewrite Hw. cbn [bind]. rewrite Hins. cbn [bind].
    set (c0 := upd_worker c wk') in *.
    assert (Ht0 : find_task (c_tasks c0) id = Some t) by exact Ht.
    unfold get_task at 1. rewrite Ht0. cbn [bind].
    assert (Hw0 : find_worker (c_workers c0) w <> None).
    { apply (sf_wsome _ _ _ _ _ F0). congruence. }
    assert (Ht0' : find_task (c_tasks c0) id <> None) by congruence.
    destruct (t_state t) as [n|w1 rv1|old|old|w1 rv1|wsx|] eqn:Est; try (exfalso; unfold takeable in Htk; rewrite Est in Htk; exact Htk).
    - (* Waiting *)
      eexists _, _. split; [reflexivity|].
      assert (F1 : SF (eq id) (eq w) (fun _ => False) c0 (upd_task c0 (with_state t (Assigned w v)))) by (eapply SF_upd_task; [exact Ht0 | reflexivity]).
      split; [exact F1|]. split; [apply SNP_same; reflexivity|].
      apply MOK_add_assigned.
      + eapply MOK_SF; [exact F1|]. eapply MOK_SF; [exact F0 | exact HM].
      + apply (sf_wsome _ _ _ _ _ F1). exact Hw0.
      + eapply SF_task_some; [exact F1 | exact Ht0'].
    - (* Prefilled on [old] *)
      assert (Hold : exists wo0 a0 p0 f0, find_worker (c_workers c0) old = Some wo0 /\ w_assign wo0 = Sn a0 p0 f0 /\ tid_mem id p0 = true /\ w_id wo0 = old).
      { destruct HW as (_ & _ & Hv & _). pose proof (wi_P _ _ _ Hv old id) as X.
        unfold inP, wantP, hv, x0 in X. rewrite (TV_find _ _ _ Ht) in X. cbn [plo] in X. rewrite Est in X. cbn [pl] in X. rewrite N.eqb_refl in X.
        destruct (find_worker (c_workers c) old) as [wo|] eqn:Hwo; [|discriminate].
        destruct (w_assign wo) as [a2 p2 f2|] eqn:Ea2; [|discriminate].
        destruct (find_worker_some _ _ _ Hwo) as [_ Hwoi].
        subst c0. cbn [c_workers upd_worker with_workers]. rewrite find_set_worker, Hwi'.
        destruct (N.eqb old w) eqn:Eow.
        - apply N.eqb_eq in Eow. rewrite Eow in Hwo. rewrite Hw in Hwo. inversion Hwo; subst wo. rewrite Ea in Ea2. inversion Ea2; subst a2 p2 f2.
          exists wk', (tid_insert id a), p, (res_sub f rqres). rewrite Eow. auto.
        - exists wo, a2, p2, f2. auto. }
      destruct Hold as (wo0 & a0 & p0 & f0 & Hwo0 & Ea0 & Hm0 & Hwoi0).
      rewrite Hwo0. unfold remove_prefill_task. rewrite Ea0, Hm0. cbn [bind].
      set (wo' := with_assign wo0 (Sn a0 (tid_remove id p0) f0)).
      set (c1 := upd_worker c0 wo').
      assert (Er1 : find_redirect (c_redirects c1) id = None).
      { change (find_redirect (c_redirects c) id = None). eapply QV_no_redirect; [exact HQ | exact Ht|]. intros x. rewrite Est. discriminate. }
      rewrite Er1. eexists _, _. split; [reflexivity|].
      assert (Hnf : worker_is_free wo0 = false).
      { unfold worker_is_free. rewrite Ea0. destruct a0; [|reflexivity]. destruct p0; [discriminate Hm0 | reflexivity]. }
      assert (F1 : SF (eq id) (eq w) (fun _ => False) c0 c1) by (eapply SF_upd_worker; [exact Hwo0 | exact Hwoi0 | right; exact Hnf]).
      set (c2 := with_redirects c1 (set_redirect (c_redirects c1) id (w, v))).
      assert (F2 : SF (eq id) (eq w) (fun _ => False) c1 c2) by (apply SF_set_redirect; reflexivity).
      assert (F3 : SF (eq id) (eq w) (fun _ => False) c2 (upd_task c2 (with_state t (Retracting old)))) by (eapply SF_upd_task; [exact Ht0 | reflexivity]).
      pose proof (SF_trans _ _ _ _ _ _ F1 (SF_trans _ _ _ _ _ _ F2 F3)) as F13.
      split; [exact F13|]. split.
      + eapply SNP_trans; [eapply (SNP_upd_worker c0 old wo0 wo'); [exact Hwo0 | exact Hwoi0 | reflexivity] | apply SNP_same; reflexivity].
      + apply MOK_add_retract.
        * eapply MOK_SF; [exact F13|]. eapply MOK_SF; [exact F0 | exact HM].
        * apply (sf_wsome _ _ _ _ _ F13). congruence.
    - (* Retracting without a redirect *)
      assert (Er0 : find_redirect (c_redirects c0) id = None).
      { unfold takeable in Htk. rewrite Est, Hid in Htk. exact Htk. }
      rewrite Er0. eexists _, _. split; [reflexivity|].
      assert (F1 : SF (eq id) (eq w) (fun _ => False) c0 (with_redirects c0 (set_redirect (c_redirects c0) id (w, v)))) by (apply SF_set_redirect; reflexivity).
      split; [exact F1|]. split; [apply SNP_same; reflexivity|].
      eapply MOK_SF; [exact F1|]. eapply MOK_SF; [exact F0 | exact HM]. }
  destruct Hex as (c' & m' & E & F1 & S1 & M1). exists c', m'. split; [exact E|].
  split; [exact (map_one_WI _ _ _ _ _ _ _ _ HW E)|]. split; [exact (map_one_QI D _ _ _ _ _ _ _ _ Hnd HQ E)|].
  split; [exact (SF_trans _ _ _ _ _ _ F0 F1)|]. split; [exact (SNP_trans _ _ _ S0 S1) | exact M1].
Qed.

(** * The round-robin loop *)
(** Workers with a positive count. *)
Definition Wc (counts : list (wid * N)) : wid -> Prop := fun y => exists n, In (y, n) counts /\ 0 < n.

Lemma rr_pass_ok i v rqres counts : forall c m tasks,
  WI c -> QI (exL Nowhere tasks none) [] c -> NoDup tasks -> PT c i tasks ->
  (forall y, Wc counts y -> snw c y) -> MOK c m ->
  exists c' m' counts' rest, rr_pass c m counts tasks v rqres = Ok (c', m', counts', rest) /\
    WI c' /\ QI (exL Nowhere rest none) [] c' /\ NoDup rest /\ PT c' i rest /\
    (forall y, Wc counts' y -> Wc counts y) /\ MOK c' m' /\
    SF (fun y => In y tasks) (Wc counts) (fun _ => False) c c' /\ SNP c c' /\
    nlen rest + sum_counts counts = nlen tasks + sum_counts counts' /\
    (length rest <= length tasks)%nat /\ (tasks <> [] -> 0 < sum_counts counts -> (length rest < length tasks)%nat) /\
    (forall y, In y rest -> In y tasks).
Proof.
  induction counts as [|[w n] r IH]; intros c m tasks HW HQ Hnd HP Hsn HM.
  - exists c, m, [], tasks. split; [destruct tasks; reflexivity|].
    split; [exact HW|]. split; [exact HQ|]. split; [exact Hnd|]. split; [exact HP|]. split; [auto|]. split; [exact HM|].
    split; [apply SF_refl|]. split; [apply SNP_refl|]. split; [reflexivity|]. split; [lia|]. split; [cbn [sum_counts]; intros _ X; lia | auto].
  - destruct tasks as [|id tl].
    + exists c, m, ((w, n) :: r), []. split; [reflexivity|].
      split; [exact HW|]. split; [exact HQ|]. split; [exact Hnd|]. split; [exact HP|]. split; [auto|]. split; [exact HM|].
      split; [apply SF_refl|]. split; [apply SNP_refl|]. split; [reflexivity|]. split; [lia|]. split; [intros X; congruence | auto].
    + cbn [rr_pass]. inversion Hnd as [|? ? Hni Hnt]; subst. destruct (N.ltb 0 n) eqn:En.
      * apply N.ltb_lt in En.
        assert (Hww : Wc ((w, n) :: r) w) by (exists n; split; [left; reflexivity | exact En]).
        destruct (map_one_ok c m id tl w v rqres i HW HQ Hni) as (c1 & m1 & E1 & W1 & Q1 & F1 & S1 & M1);
          [intros y [<-|[]]; apply HP; left; reflexivity | apply Hsn; exact Hww | exact HM |].
        rewrite E1. cbn [bind].
        destruct (IH c1 m1 tl W1 Q1 Hnt) as (c2 & m2 & r' & tl' & E2 & W2 & Q2 & N2 & P2 & C2 & M2 & F2 & S2 & A2 & L2 & L2' & I2);
          [| | exact M1 |].
        { eapply PT_SF; [exact F1 | | eapply PT_incl; [|exact HP]; intros y Hy; right; exact Hy]. intros y Hy <-. contradiction. }
        { intros y (n0 & Hin & Hn0). apply S1. apply Hsn. exists n0. split; [right; exact Hin | exact Hn0]. }
        rewrite E2. cbn [bind]. exists c2, m2, ((w, n - 1) :: r'), tl'. split; [reflexivity|].
        split; [exact W2|]. split; [exact Q2|]. split; [exact N2|]. split; [exact P2|]. split; [|split; [exact M2|]].
        { intros y (n0 & [Hin|Hin] & Hn0); [inversion Hin; subst; exact Hww|].
          destruct (C2 y (ex_intro _ n0 (conj Hin Hn0))) as (n1 & Hin1 & Hn1). exists n1. split; [right; exact Hin1 | exact Hn1]. }
        split.
        { eapply SF_trans.
          - eapply SF_weaken; [| | |exact F1]; [intros y <-; left; reflexivity | intros y <-; exact Hww | auto].
          - eapply SF_weaken; [| | |exact F2]; [intros y Hy; right; exact Hy | | auto].
            intros y (n0 & Hin & Hn0). exists n0. split; [right; exact Hin | exact Hn0]. }
        split; [exact (SNP_trans _ _ _ S1 S2)|]. cbn [sum_counts]. rewrite nlen_cons. cbn [length].
        split; [lia|]. split; [lia|]. split; [intros _ _; lia | intros y Hy; right; apply I2; exact Hy].
      * apply N.ltb_ge in En. assert (n = 0) by lia. subst n.
        destruct (IH c m (id :: tl) HW HQ Hnd HP) as (c2 & m2 & r' & tl' & E2 & W2 & Q2 & N2 & P2 & C2 & M2 & F2 & S2 & A2 & L2 & L2' & I2);
          [| exact HM |].
        { intros y (n0 & Hin & Hn0). apply Hsn. exists n0. split; [right; exact Hin | exact Hn0]. }
        rewrite E2. cbn [bind]. exists c2, m2, ((w, 0) :: r'), tl'. split; [reflexivity|].
        split; [exact W2|]. split; [exact Q2|]. split; [exact N2|]. split; [exact P2|]. split; [|split; [exact M2|]].
        { intros y (n0 & [Hin|Hin] & Hn0); [inversion Hin; subst; lia|].
          destruct (C2 y (ex_intro _ n0 (conj Hin Hn0))) as (n1 & Hin1 & Hn1). exists n1. split; [right; exact Hin1 | exact Hn1]. }
        split.
        { eapply SF_weaken; [| | |exact F2]; [auto | | auto]. intros y (n0 & Hin & Hn0). exists n0. split; [right; exact Hin | exact Hn0]. }
        split; [exact S2|]. cbn [sum_counts] in *. split; [lia|]. split; [exact L2|]. split; [intros X Y; apply L2'; [exact X | lia] | exact I2].
Qed.

Lemma rr_loop_ok i v rqres fuel : forall c m counts tasks,
  WI c -> QI (exL Nowhere tasks none) [] c -> NoDup tasks -> PT c i tasks ->
  (forall y, Wc counts y -> snw c y) -> MOK c m ->
  nlen tasks <= sum_counts counts -> (length tasks < fuel)%nat ->
  exists c' m', rr_loop fuel c m counts tasks v rqres = Ok (c', m') /\ WI c' /\ QI none [] c' /\ MOK c' m' /\
    SF (fun y => In y tasks) (Wc counts) (fun _ => False) c c' /\ SNP c c'.
Proof.
  induction fuel as [|k IH]; intros c m counts tasks HW HQ Hnd HP Hsn HM Hle Hf; [lia|].
  destruct tasks as [|id tl].
  - exists c, m. split; [reflexivity|]. split; [exact HW|]. split; [exact HQ|]. split; [exact HM|]. split; [apply SF_refl | apply SNP_refl].
  - cbn [rr_loop].
    destruct (rr_pass_ok i v rqres counts c m (id :: tl) HW HQ Hnd HP Hsn HM)
      as (c1 & m1 & counts1 & rest & E1 & W1 & Q1 & N1 & P1 & C1 & M1 & F1 & S1 & A1 & L1 & L1' & I1).
    rewrite E1. cbn [bind].
    assert (Hpos : 0 < sum_counts counts) by (rewrite nlen_cons in Hle; lia).
    assert (Hlt : (length rest < length (id :: tl))%nat) by (apply L1'; [discriminate | exact Hpos]).
    destruct (IH c1 m1 counts1 rest W1 Q1 N1 P1) as (c2 & m2 & E2 & W2 & Q2 & M2 & F2 & S2); [| exact M1 | lia | lia |].
    { intros y Hy. apply S1. apply Hsn. apply C1. exact Hy. }
    exists c2, m2. split; [exact E2|]. split; [exact W2|]. split; [exact Q2|]. split; [exact M2|]. split; [|exact (SNP_trans _ _ _ S1 S2)].
    eapply SF_trans; [exact F1|]. eapply SF_weaken; [| | |exact F2]; [exact I1 | exact C1 | auto].
Qed.

(** * [map_sn]: all single-node classes of the solution *)
Definition cidx {A} (x : N * N * A) : nat := N.to_nat (fst (fst x)).

(** What the solver owes for one class [(rq, variant, counts)]: a valid request index, not more
    tasks than the class's queue holds, every worker with a positive count exists in single-node mode. *)
Definition sn_class_ok (c : core) (x : N * N * list (wid * N)) : Prop :=
  (cidx x < length (c_rqs c))%nat /\
  (forall q, nth_error (c_queues c) (cidx x) = Some q -> sum_counts (snd x) <= qsize q) /\
  (forall y, Wc (snd x) y -> snw c y).
Definition SnOK (c : core) (l : list (N * N * list (wid * N))) : Prop :=
  NoDup (map cidx l) /\ Forall (sn_class_ok c) l.

(** The ids a [take_tasks] delivers are tasks of that queue in a takeable state. *)
Lemma taken_PT c i q q' a : QI none [] c -> nth_error (c_queues c) i = Some q -> TakeQ q q' a -> PT c i a.
Proof.
  intros V Hq T id Hin. pose proof (TakeQ_taken_member _ _ _ _ T Hin) as Hm.
  destruct (qv_live _ _ _ _ _ _ V i q id Hq Hm) as (t & Hf & Hi). exists t. split; [exact Hf|]. split; [|exact Hi].
  rewrite <- Hi in Hq. pose proof (qv_task _ _ _ _ _ _ V _ _ _ Hf Hq) as Hp.
  pose proof (placed_member _ _ _ _ Hp Hm) as Hne. unfold exp_place, none, nat_place in Hne. unfold takeable.
  rewrite (find_task_id _ _ _ Hf).
  destruct (t_state t); auto; try congruence. destruct (find_redirect (c_redirects c) id); [congruence | reflexivity].
Qed.

Theorem map_sn_ok sol l : forall c m,
  WI c -> QI none [] c -> MOK c m -> SnOK c l ->
  np (map_sn c m sol l) /\
  forall c1 m1, map_sn c m sol l = Ok (c1, m1) ->
    WI c1 /\ QI none [] c1 /\ MOK c1 m1 /\
    SF (fun y => exists t, find_task (c_tasks c) y = Some t /\ In (N.to_nat (t_rq t)) (map cidx l))
       (fun y => exists x, In x l /\ Wc (snd x) y) (fun i => In i (map cidx l)) c c1.
Proof.
  induction l as [|[[rq v] counts] r IH]; intros c m HW V HM [Hnd HF]; cbn [map_sn].
  - split; [reflexivity|]. intros c1 m1 H. inversion H; subst. split; [exact HW|]. split; [exact V|]. split; [exact HM | apply SF_refl].
  - inversion Hnd as [|? ? Hni Hnr]; subst. inversion HF as [|? ? (Hlt & Hsz & Hsn) HFr]; subst.
    unfold cidx in Hlt, Hsz, Hni. cbn [fst snd] in Hlt, Hsz, Hsn, Hni. set (i := N.to_nat rq) in *.
    destruct (nth_error_ex (c_rqs c) i Hlt) as (rqd & Hrq). unfold get_rq. fold i. rewrite Hrq. cbn [bind].
    assert (Hlq : (i < length (c_queues c))%nat) by (rewrite (qv_len _ _ _ _ _ _ V); exact Hlt).
    destruct (nth_error_ex (c_queues c) i Hlq) as (q & Hq). rewrite (proj2 (nth_queue_ok _ _ _) Hq). cbn [bind].
    pose proof (nth_error_Forall _ _ _ _ (qv_wf _ _ _ _ _ _ V) Hq) as W.
    destruct (q_take_tasks_np q (sum_counts counts) (pf_order_of sol rq) W (Hsz q Hq)) as [N1 N2].
    destruct (q_take_tasks q (sum_counts counts) (pf_order_of sol rq)) as [[tasks q']| |] eqn:Et;
      [|split; [reflexivity | discriminate] | discriminate N1].
    cbn [bind]. specialize (N2 _ _ eq_refl).
    destruct (q_take_tasks_D _ _ _ _ _ W Et) as [T ND]. specialize (ND (QV_uniq _ _ _ _ _ _ _ _ V Hq)).
    set (c1 := with_queues c (set_queue (c_queues c) i q')).
    assert (W1 : WI c1) by (eapply WIX_frame; [| | | |exact HW]; reflexivity).
    assert (Q1 : QI (exL Nowhere tasks none) [] c1).
    { unfold QI. cbn [c1 c_tasks c_queues c_redirects c_rqs with_queues]. eapply QV_take; eassumption. }
    assert (P1 : PT c1 i tasks) by exact (taken_PT c i q q' tasks V Hq T).
    assert (F01 : SF (fun y => In y tasks) (Wc counts) (eq i) c c1) by (apply SF_set_queue; reflexivity).
    destruct (rr_loop_ok i v (rq_res rqd) (S (length tasks)) c1 m counts tasks W1 Q1 ND P1) as (c2 & m2 & E2 & W2 & Q2 & M2 & F2 & S2);
      [exact Hsn | exact HM | unfold nlen in N2 |- *; lia | lia |].
    rewrite E2. cbn [bind].
    assert (F02 : SF (fun y => In y tasks) (Wc counts) (eq i) c c2).
    { eapply SF_trans; [exact F01|]. eapply SF_weaken; [| | |exact F2]; [auto | auto | intros j []]. }
    assert (SnOK2 : SnOK c2 r).
    { split; [exact Hnr|]. rewrite Forall_forall in *. intros x Hx. destruct (HFr x Hx) as (X1 & X2 & X3).
      assert (Hne : cidx x <> i) by (intros Ex; apply Hni; rewrite <- Ex; apply in_map; exact Hx).
      split; [rewrite (sf_rqs _ _ _ _ _ F02); exact X1|]. split.
      - intros q0 Hq0. apply X2. rewrite <- (sf_q _ _ _ _ _ F02 (cidx x)); [exact Hq0 | congruence].
      - intros y Hy. apply S2. apply (SNP_same c c1 eq_refl). apply X3. exact Hy. }
    destruct (IH c2 m2 W2 Q2 M2 SnOK2) as [N3 N4]. split; [exact N3|].
    intros cf mf Hf. destruct (N4 cf mf Hf) as (Wf & Qf & Mf & Ff). split; [exact Wf|]. split; [exact Qf|]. split; [exact Mf|].
    eapply SF_trans.
    + eapply SF_weaken; [| | |exact F02].
      * intros y Hy. destruct (P1 y Hy) as (t & Ht & _ & Hr). exists t. split; [exact Ht | left; symmetry; exact Hr].
      * intros y Hy. exists (rq, v, counts). split; [left; reflexivity | exact Hy].
      * intros j <-. left. reflexivity.
    + eapply SF_weaken; [| | |exact Ff].
      * intros y (t2 & Ht2 & Hin). destruct (SF_find_back _ _ _ _ _ _ _ F02 Ht2) as (t & Ht & Et2).
        exists t. split; [exact Ht|]. right. rewrite Et2 in Hin. exact Hin.
      * intros y (x & Hx & Hy). exists x. split; [right; exact Hx | exact Hy].
      * intros j Hj. right. exact Hj.
Qed.
