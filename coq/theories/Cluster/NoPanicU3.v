(** Protocol invariant, part 3: the loops of a worker process ([try_start_task], [prefill_loop],
    [compute_loop]) keep the word invariant of every present task, the local invariant [LOK], and
    mention only known task ids; [compute_loop] does not panic. *)
From HQ Require Import Base.Prelude Cluster.Types Cluster.Core Cluster.Reactor Cluster.Worker Cluster.Server Cluster.Sys Cluster.NoPanicU0 Cluster.NoPanicU1 Cluster.NoPanicU2.
From Coq Require Import ZArith Lia Sorting.Sorted.
Local Open Scope N_scope.

(** Frame: what the loops never touch. *)
Definition FR (q q' : wproc) : Prop :=
  p_up q' = p_up q /\ p_down q' = p_down q /\ p_rqs q' = p_rqs q /\ p_id q' = p_id q.
Lemma FR_refl q : FR q q.
Proof. repeat split. Qed.
Lemma FR_trans a b c : FR a b -> FR b c -> FR a c.
Proof. intros (A1 & A2 & A3 & A4) (B1 & B2 & B3 & B4). repeat split; congruence. Qed.

Section Loops.
Variable s : sys.          (* the core and the job layer do not change *)
Variable w : wid.
Variable S : tid -> Prop.  (* the ids allowed to occur *)

Definition vw (x : tid) (t : task) : view := view_of (t_state t) w (job_running (s_hq s) x).

(** [q] = process, [ups] = updates collected so far (not yet sent), [dx] = the D word of every task. *)
Definition WOK (q : wproc) (ups : list wupdate) (dx : tid -> list ditem) : Prop :=
  forall x t, find_task (c_tasks (s_core s)) x = Some t ->
    lang (vw x t) (uitems x (p_up q) ++ flat_map (uitem_of x) ups) (local q x) (dx x) = true.

Definition SRC (q : wproc) (ups : list wupdate) : Prop :=
  forall x, In x (bl_tids (p_backlog q)) \/ In x (map fst (p_running q)) \/ In x (flat_map wupdate_tids ups) -> S x.

(** One task [y] moves, everything else stays. *)
Lemma WOK_upd q ups dx q' ups' dx' y :
  WOK q ups dx -> p_up q' = p_up q ->
  (forall x, x <> y -> local q' x = local q x /\ flat_map (uitem_of x) ups' = flat_map (uitem_of x) ups /\ dx' x = dx x) ->
  (forall t, find_task (c_tasks (s_core s)) y = Some t ->
     lang (vw y t) (uitems y (p_up q) ++ flat_map (uitem_of y) ups) (local q y) (dx y) = true ->
     lang (vw y t) (uitems y (p_up q) ++ flat_map (uitem_of y) ups') (local q' y) (dx' y) = true) ->
  WOK q' ups' dx'.
Proof.
  intros H Eu Ho Hy x t Ht. rewrite Eu. destruct (tid_eqb x y) eqn:E.
  - apply tid_eqb_eq in E. subst x. apply Hy; [exact Ht | apply H; exact Ht].
  - apply tid_eqb_neq in E. destruct (Ho x E) as (E1 & E2 & E3). rewrite E1, E2, E3. apply H. exact Ht.
Qed.

(** * [try_start_task] *)
Lemma try_start_eff q t rv pre alloc q1 u l st : try_start_task q t rv pre alloc = (q1, u, l, st) ->
  FR q q1 /\ p_backlog q1 = p_backlog q /\ p_blocked q1 = p_blocked q /\ p_free q1 = p_free q /\
  ((st = true /\ u = [if pre then URunningPrefilled (wt_id t) rv else URunning (wt_id t) rv]
    /\ p_running q1 = run_set (p_running q) (wt_id t) rv
    /\ p_alloc q1 = al_set (p_alloc q) (wt_id t) (wt_rq t :: alloc)
    /\ p_futures q1 = fu_set (p_futures q) (wt_id t) None)
   \/ (st = false /\ u = [UFailed (wt_id t) FLaunch] /\ p_running q1 = p_running q /\ p_alloc q1 = p_alloc q
       /\ p_futures q1 = p_futures q)).
Proof.
  unfold try_start_task. destruct (tid_mem (wt_id t) (p_failnext q)); intros H; inversion H; subst; cbn.
  - repeat split. right. repeat split.
  - repeat split. left. repeat split.
Qed.

Lemma al_set_in l t v kv : In kv (al_set l t v) -> kv = (t, v) \/ In kv l.
Proof.
  induction l as [|[k v0] r IH]; cbn [al_set In]; [intros [H|[]]; auto|].
  destruct (tid_eqb t k); cbn [In]; [intros [H|H]; auto|].
  destruct (tid_ltb t k); cbn [In]; [intros [H|[H|H]]; auto|].
  intros [H|H]; [auto|]. destruct (IH H); auto.
Qed.

Lemma try_start_LOK q t rv pre alloc q1 u l st : try_start_task q t rv pre alloc = (q1, u, l, st) -> LOK q -> LOK q1.
Proof.
  intros H [L1 L2 L3 L4 L5]. destruct (try_start_eff _ _ _ _ _ _ _ _ _ H) as (_ & Eb & _ & _ & [(_ & _ & Er & Ea & Ef)|(_ & _ & Er & Ea & Ef)]).
  - constructor.
    + rewrite Er, run_set_keys. apply kset_sorted. exact L1.
    + rewrite Er, Ef, run_set_keys, fu_set_keys, L2. reflexivity.
    + rewrite Er, Ea, run_set_keys, al_set_keys, L3. reflexivity.
    + rewrite Ea. intros kv Hkv. destruct (al_set_in _ _ _ _ Hkv) as [->|Hin]; [cbn; discriminate | apply L4; exact Hin].
    + rewrite Eb. exact L5.
  - constructor; rewrite ?Er, ?Ea, ?Ef, ?Eb; assumption.
Qed.

Lemma run_set_in_keys l t v x : In x (map fst (run_set l t v)) -> x = t \/ In x (map fst l).
Proof. rewrite run_set_keys. apply kset_in. Qed.

(** * [prefill_loop] *)
Lemma prefill_loop_inv fuel : forall q rq rv alloc ups ls q' ups' ls' used dx,
  prefill_loop fuel q rq rv alloc ups ls = (q', ups', ls', used) ->
  WOK q ups dx -> LOK q -> SRC q ups ->
  WOK q' ups' dx /\ LOK q' /\ SRC q' ups' /\ FR q q'.
Proof.
  assert (Hfree : forall q f ups dx, WOK q ups dx -> LOK q -> SRC q ups ->
            WOK (wp_free q f) ups dx /\ LOK (wp_free q f) /\ SRC (wp_free q f) ups /\ FR q (wp_free q f)).
  { intros q f ups dx H1 H2 H3. split; [|split; [|split]].
    - intros x t Ht. exact (H1 x t Ht).
    - destruct H2; constructor; assumption.
    - exact H3.
    - repeat split. }
  induction fuel as [|k IH]; cbn [prefill_loop]; intros q rq rv alloc ups ls q' ups' ls' used dx H HW HL HS.
  - inversion H; subst. apply Hfree; assumption.
  - destruct (pop_last (bl_get (p_backlog q) rq)) as [[t rest]|] eqn:Ep; [|inversion H; subst; apply Hfree; assumption].
    destruct (bl_has (p_backlog q) rq); [|inversion H; subst; apply Hfree; assumption].
    pose proof (pop_last_snoc _ _ _ Ep) as Eg.
    set (q0 := wp_backlog q (bl_set (p_backlog q) rq rest)) in *.
    destruct (try_start_task q0 t rv true alloc) as [[[q1 u] l] st] eqn:Et.
    destruct (try_start_eff _ _ _ _ _ _ _ _ _ Et) as (F01 & Eb & _ & _ & Hcase).
    set (y := wt_id t) in *.
    (* counts *)
    assert (Hcnt : forall x, (bl_count x (p_backlog q1) + (if tid_eqb y x then 1 else 0) = bl_count x (p_backlog q))%nat).
    { intros x. rewrite Eb. cbn [q0 p_backlog wp_backlog wp_upd].
      pose proof (bl_count_set x (p_backlog q) rq rest (lok_bl _ HL)) as Hc. rewrite Eg, cnt_app, cnt_one in Hc. fold y in Hc.
      destruct (tid_eqb y x); lia. }
    assert (Hin : In y (bl_tids (p_backlog q))).
    { apply (bl_get_tids _ rq t). rewrite Eg. apply in_or_app. right. left. reflexivity. }
    (* the state after the start attempt *)
    assert (A : WOK q1 (ups ++ u) dx /\ LOK q1 /\ SRC q1 (ups ++ u) /\ FR q q1).
    { split; [|split; [|split]].
      - eapply (WOK_upd q ups dx q1 (ups ++ u) dx y); [exact HW | destruct F01 as (E1 & _); rewrite E1; reflexivity | |].
        + intros x Hx. assert (Ex : tid_eqb y x = false) by (apply tid_eqb_neq; congruence).
          split; [|split; [|reflexivity]].
          * unfold local. specialize (Hcnt x). rewrite Ex in Hcnt. replace (bl_count x (p_backlog q1)) with (bl_count x (p_backlog q)) by lia.
            destruct Hcase as [(_ & _ & Er & _)|(_ & _ & Er & _)]; rewrite Er; cbn [q0 p_running wp_backlog wp_upd]; [|reflexivity].
            rewrite run_find_set. fold y. rewrite tid_eqb_sym, Ex. reflexivity.
          * rewrite flat_map_app. destruct Hcase as [(_ & -> & _)|(_ & -> & _)]; cbn [flat_map uitem_of]; fold y; rewrite sel_other by congruence; rewrite app_nil_r; reflexivity.
        + intros ty Hty Hl. specialize (Hcnt y). rewrite tid_eqb_refl in Hcnt.
          destruct (local_cases q y) as [(E1 & _ & E3)|[(E1 & E2 & E3)|[(rv0 & E1 & _ & E3)|E1]]].
          * exfalso. lia.
          * rewrite E1 in Hl. destruct (LW_pstart _ _ _ Hl) as [P1 P2]. rewrite flat_map_app, app_assoc.
            destruct Hcase as [(_ & -> & Er & _)|(_ & -> & Er & _)]; cbn [flat_map uitem_of]; fold y; rewrite sel_same; cbn [app].
            -- replace (local q1 y) with (LRun rv); [apply P1|]. unfold local. rewrite Er. cbn [q0 p_running wp_backlog wp_upd].
               rewrite run_find_set. fold y. rewrite tid_eqb_refl. replace (bl_count y (p_backlog q1)) with O by lia. reflexivity.
            -- replace (local q1 y) with LNone; [apply P2|]. unfold local. rewrite Er. cbn [q0 p_running wp_backlog wp_upd].
               rewrite E2. replace (bl_count y (p_backlog q1)) with O by lia. reflexivity.
          * exfalso. lia.
          * rewrite E1, LW_bad in Hl. discriminate.
      - eapply try_start_LOK; [exact Et|]. destruct HL; constructor; cbn [q0 p_running p_futures p_alloc p_backlog wp_backlog wp_upd]; try assumption.
        apply bl_set_sorted. assumption.
      - intros x Hx. apply HS. destruct Hx as [Hx|[Hx|Hx]].
        + left. rewrite Eb in Hx. cbn [q0 p_backlog wp_backlog wp_upd] in Hx. destruct (bl_set_tids _ _ _ _ Hx) as [Hr|Hr]; [|exact Hr].
          apply in_map_iff in Hr. destruct Hr as (z & <- & Hz). apply (bl_get_tids _ rq). rewrite Eg. apply in_or_app. left. exact Hz.
        + destruct Hcase as [(_ & _ & Er & _)|(_ & _ & Er & _)]; rewrite Er in Hx; cbn [q0 p_running wp_backlog wp_upd] in Hx; [|right; left; exact Hx].
          destruct (run_set_in_keys _ _ _ _ Hx) as [->|Hx']; [left; exact Hin | right; left; exact Hx'].
        + rewrite flat_map_app, in_app_iff in Hx. destruct Hx as [Hx|Hx]; [right; right; exact Hx|].
          destruct Hcase as [(_ & -> & _)|(_ & -> & _)]; cbn in Hx; destruct Hx as [<-|[]]; left; exact Hin.
      - eapply FR_trans; [|exact F01]. repeat split. }
    destruct A as (A1 & A2 & A3 & A4).
    destruct st; [inversion H; subst; auto|].
    destruct (IH _ _ _ _ _ _ _ _ _ _ dx H A1 A2 A3) as (B1 & B2 & B3 & B4).
    split; [exact B1|]. split; [exact B2|]. split; [exact B3|]. eapply FR_trans; eassumption.
Qed.

(** * [compute_loop] *)
Definition entry (x : tid) (ct : ctask) : list ditem := sel (ct_id ct) x (IDC (ct_rv ct) (negb (is_nil (ct_nodes ct)))).

Lemma res_fits_zero ask : forall have, forallb (N.eqb 0) ask = true -> res_fits have ask = true.
Proof.
  induction ask as [|a r IH]; intros have H; [destruct have; reflexivity|].
  cbn [forallb] in H. apply andb_true_iff in H. destruct H as [H1 H2]. apply N.eqb_eq in H1. subst a.
  destruct have as [|h ht]; cbn [res_fits]; rewrite IH by exact H2; [reflexivity|]. rewrite andb_true_r. apply N.leb_le. lia.
Qed.

Lemma compute_loop_inv ts : forall q ups ls dr,
  WOK q ups (fun x => flat_map (entry x) ts ++ dr x) -> LOK q -> SRC q ups ->
  (forall ct, In ct ts -> S (ct_id ct)) ->
  (forall ct, In ct ts -> ct_ok (c_rqs (s_core s)) (N.of_nat (length (p_rqs q))) ct = true) ->
  (forall i r, nth_error (p_rqs q) i = Some r -> nth_error (c_rqs (s_core s)) i = Some r) ->
  exists q' ups' ls', compute_loop q ts ups ls = Ok (q', ups', ls') /\ WOK q' ups' dr /\ LOK q' /\ SRC q' ups' /\ FR q q'.
Proof.
  induction ts as [|ct r IH]; intros q ups ls dr HW HL HS HSt Hct Hpre.
  - exists q, ups, ls. cbn [compute_loop]. split; [reflexivity|]. split; [exact HW|]. split; [exact HL|]. split; [exact HS | apply FR_refl].
  - cbn [compute_loop]. set (t := mkWT (ct_id ct) (ct_inst ct) (ct_rq ct) (ct_tlim ct) (ct_nodes ct)). set (y := ct_id ct) in *.
    pose proof (Hct ct (or_introl eq_refl)) as Hok. unfold ct_ok in Hok. apply andb_true_iff in Hok. destruct Hok as [Hok1 Hok2].
    assert (HSt' : forall ct0, In ct0 r -> S (ct_id ct0)) by (intros; apply HSt; right; assumption).
    assert (Hdx : forall x, x <> y -> flat_map (entry x) r ++ dr x = flat_map (entry x) (ct :: r) ++ dr x).
    { intros x Hx. cbn [flat_map]. unfold entry at 2. fold y. rewrite sel_other by congruence. reflexivity. }
    assert (Hdy : flat_map (entry y) (ct :: r) ++ dr y = IDC (ct_rv ct) (negb (is_nil (ct_nodes ct))) :: (flat_map (entry y) r ++ dr y)).
    { cbn [flat_map]. unfold entry at 1. fold y. rewrite sel_same. reflexivity. }
    destruct (ct_rv ct) as [rv|] eqn:Erv.
    + (* an assigned task *)
      apply andb_true_iff in Hok1. destruct Hok1 as [Hrv Hlt]. apply N.eqb_eq in Hrv. subst rv. apply N.ltb_lt in Hlt.
      unfold p_get_rq. destruct (nth_error (p_rqs q) (N.to_nat (ct_rq ct))) as [rq|] eqn:Erq;
        [|exfalso; apply nth_error_None in Erq; lia].
      cbn [bind]. cbn [N.eqb negb].
      destruct (res_fits (p_free q) (rq_res rq)) eqn:Efit.
      * set (q0 := wp_free q (res_sub (p_free q) (rq_res rq))).
        destruct (try_start_task q0 t 0 false (rq_res rq)) as [[[q1 u] l] st] eqn:Et.
        destruct (try_start_eff _ _ _ _ _ _ _ _ _ Et) as (F01 & Eb & _ & _ & Hcase). cbn [t wt_id] in Hcase. fold y in Hcase.
        assert (A : WOK q1 (ups ++ u) (fun x => flat_map (entry x) r ++ dr x) /\ LOK q1 /\ SRC q1 (ups ++ u) /\ FR q q1).
        { split; [|split; [|split]].
          - eapply (WOK_upd q ups _ q1 (ups ++ u) _ y); [exact HW | destruct F01 as (E1 & _); rewrite E1; reflexivity | |].
            + intros x Hx. assert (Ex : tid_eqb x y = false) by (apply tid_eqb_neq; congruence).
              split; [|split; [|cbv beta; apply Hdx; exact Hx]].
              * unfold local. rewrite Eb. cbn [q0 p_backlog wp_free wp_upd].
                destruct Hcase as [(_ & _ & Er & _)|(_ & _ & Er & _)]; rewrite Er; cbn [q0 p_running wp_free wp_upd]; [|reflexivity].
                rewrite run_find_set, Ex. reflexivity.
              * rewrite flat_map_app. destruct Hcase as [(_ & -> & _)|(_ & -> & _)]; cbn [flat_map uitem_of]; rewrite sel_other by congruence; rewrite app_nil_r; reflexivity.
            + intros ty Hty Hl. cbv beta in Hl |- *. rewrite Hdy in Hl. destruct (LW_dc _ _ _ _ _ _ Hl) as (E1 & P1 & P2 & _).
              destruct (local_cases q y) as [(_ & E2 & E3)|[(X & _)|[(rv0 & X & _)|X]]]; try congruence.
              rewrite flat_map_app, app_assoc.
              destruct Hcase as [(_ & -> & Er & _)|(_ & -> & Er & _)]; cbn [flat_map uitem_of]; rewrite sel_same; cbn [app].
              * replace (local q1 y) with (LRun 0); [exact P1|]. unfold local. rewrite Er, Eb. cbn [q0 p_running p_backlog wp_free wp_upd].
                rewrite run_find_set, tid_eqb_refl, E3. reflexivity.
              * replace (local q1 y) with LNone; [apply P2|]. unfold local. rewrite Er, Eb. cbn [q0 p_running p_backlog wp_free wp_upd].
                rewrite E2, E3. reflexivity.
          - eapply try_start_LOK; [exact Et|]. destruct HL; constructor; assumption.
          - intros x Hx. destruct Hx as [Hx|[Hx|Hx]].
            + apply HS. left. rewrite Eb in Hx. exact Hx.
            + destruct Hcase as [(_ & _ & Er & _)|(_ & _ & Er & _)]; rewrite Er in Hx; cbn [q0 p_running wp_free wp_upd] in Hx; [|apply HS; right; left; exact Hx].
              destruct (run_set_in_keys _ _ _ _ Hx) as [->|Hx']; [apply HSt; left; reflexivity | apply HS; right; left; exact Hx'].
            + rewrite flat_map_app, in_app_iff in Hx. destruct Hx as [Hx|Hx]; [apply HS; right; right; exact Hx|].
              destruct Hcase as [(_ & -> & _)|(_ & -> & _)]; cbn in Hx; destruct Hx as [<-|[]]; apply HSt; left; reflexivity.
          - eapply FR_trans; [|exact F01]. repeat split. }
        destruct A as (A1 & A2 & A3 & A4).
        assert (Hrq1 : p_rqs q1 = p_rqs q) by (destruct A4 as (_ & _ & E & _); exact E).
        destruct st.
        -- destruct (IH q1 (ups ++ u) (ls ++ l) dr A1 A2 A3 HSt') as (q' & ups' & ls' & E & B1 & B2 & B3 & B4).
           ++ intros ct0 H0. rewrite Hrq1. apply Hct. right. exact H0.
           ++ rewrite Hrq1. exact Hpre.
           ++ exists q', ups', ls'. split; [exact E|]. split; [exact B1|]. split; [exact B2|]. split; [exact B3|]. eapply FR_trans; eassumption.
        -- destruct (prefill_loop (Datatypes.S (backlog_size q1)) q1 (ct_rq ct) 0 (rq_res rq) (ups ++ u) (ls ++ l)) as [[[q2 u2] l2] used] eqn:Epl.
           destruct (prefill_loop_inv _ _ _ _ _ _ _ _ _ _ _ _ Epl A1 A2 A3) as (C1 & C2 & C3 & C4).
           assert (Hrq2 : p_rqs q2 = p_rqs q) by (destruct C4 as (_ & _ & E & _); rewrite E; exact Hrq1).
           destruct (IH q2 u2 l2 dr C1 C2 C3 HSt') as (q' & ups' & ls' & E & B1 & B2 & B3 & B4).
           ++ intros ct0 H0. rewrite Hrq2. apply Hct. right. exact H0.
           ++ rewrite Hrq2. exact Hpre.
           ++ exists q', ups', ls'. split; [exact E|]. split; [exact B1|]. split; [exact B2|]. split; [exact B3|].
              eapply FR_trans; [exact A4|]. eapply FR_trans; eassumption.
      * (* rejected *)
        set (b := if nn_mem (ct_rq ct, 0) (p_blocked q) then p_blocked q else nn_insert (ct_rq ct, 0) (p_blocked q)).
        destruct (IH (wp_blocked q b) (ups ++ [UReject y (Some 0)]) ls dr) as (q' & ups' & ls' & E & B1 & B2 & B3 & B4).
        -- eapply (WOK_upd q ups _ _ _ _ y); [exact HW | reflexivity | |].
           ++ intros x Hx. split; [reflexivity|]. split; [|cbv beta; apply Hdx; exact Hx].
              rewrite flat_map_app. cbn [flat_map uitem_of]. rewrite sel_other by congruence. rewrite app_nil_r. reflexivity.
           ++ intros ty Hty Hl. cbv beta in Hl |- *. rewrite Hdy in Hl. destruct (LW_dc _ _ _ _ _ _ Hl) as (E1 & _ & _ & [(Emn & _)|(_ & P3)]).
              ** exfalso. apply negb_true_iff in Emn. rewrite Emn in Hok2. cbn [orb] in Hok2.
                 rewrite (Hpre _ _ Erq) in Hok2. unfold zero_res in Hok2. rewrite (res_fits_zero _ _ Hok2) in Efit. discriminate.
              ** rewrite flat_map_app, app_assoc. cbn [flat_map uitem_of]. rewrite sel_same. cbn [app].
                 change (local (wp_blocked q b) y) with (local q y). rewrite E1. exact P3.
        -- destruct HL; constructor; assumption.
        -- intros x Hx. destruct Hx as [Hx|[Hx|Hx]]; [apply HS; left; exact Hx | apply HS; right; left; exact Hx|].
           rewrite flat_map_app, in_app_iff in Hx. destruct Hx as [Hx|Hx]; [apply HS; right; right; exact Hx|].
           cbn in Hx. destruct Hx as [<-|[]]. apply HSt. left. reflexivity.
        -- exact HSt'.
        -- intros ct0 H0. apply Hct. right. exact H0.
        -- exact Hpre.
        -- exists q', ups', ls'. split; [exact E|]. split; [exact B1|]. split; [exact B2|]. split; [exact B3|].
           eapply FR_trans; [|exact B4]. repeat split.
    + (* a prefilled task goes to the backlog *)
      set (b1 := bl_set (p_backlog q) (ct_rq ct) (bl_get (p_backlog q) (ct_rq ct) ++ [t])).
      assert (Hcnt : forall x, bl_count x b1 = (bl_count x (p_backlog q) + (if tid_eqb y x then 1 else 0))%nat).
      { intros x. pose proof (bl_count_set x (p_backlog q) (ct_rq ct) (bl_get (p_backlog q) (ct_rq ct) ++ [t]) (lok_bl _ HL)) as Hc.
        rewrite cnt_app, cnt_one in Hc. cbn [t wt_id] in Hc. fold y in Hc. fold b1 in Hc. lia. }
      destruct (IH (wp_backlog q b1) ups ls dr) as (q' & ups' & ls' & E & B1 & B2 & B3 & B4).
      * eapply (WOK_upd q ups _ _ _ _ y); [exact HW | reflexivity | |].
        -- intros x Hx. split; [|split; [reflexivity | cbv beta; apply Hdx; exact Hx]].
           unfold local. cbn [p_running p_backlog wp_backlog wp_upd]. rewrite Hcnt.
           assert (Ex : tid_eqb y x = false) by (apply tid_eqb_neq; congruence). rewrite Ex, Nat.add_0_r. reflexivity.
        -- intros ty Hty Hl. cbv beta in Hl |- *. rewrite Hdy in Hl. destruct (LW_dc_pre _ _ _ _ _ Hl) as (E1 & P1).
           destruct (local_cases q y) as [(_ & E2 & E3)|[(X & _)|[(rv0 & X & _)|X]]]; try congruence.
           replace (local (wp_backlog q b1) y) with LBack; [exact P1|].
           unfold local. cbn [p_running p_backlog wp_backlog wp_upd]. rewrite Hcnt, E2, E3, tid_eqb_refl. reflexivity.
      * destruct HL; constructor; cbn [p_running p_futures p_alloc p_backlog wp_backlog wp_upd]; try assumption. apply bl_set_sorted. assumption.
      * intros x Hx. destruct Hx as [Hx|[Hx|Hx]]; [|apply HS; right; left; exact Hx | apply HS; right; right; exact Hx].
        cbn [p_backlog wp_backlog wp_upd] in Hx. destruct (bl_set_tids _ _ _ _ Hx) as [Hr|Hr]; [|apply HS; left; exact Hr].
        rewrite map_app, in_app_iff in Hr. destruct Hr as [Hr|Hr].
        -- apply HS. left. apply in_map_iff in Hr. destruct Hr as (z & <- & Hz). eapply bl_get_tids; exact Hz.
        -- cbn in Hr. destruct Hr as [<-|[]]. apply HSt. left. reflexivity.
      * exact HSt'.
      * intros ct0 H0. apply Hct. right. exact H0.
      * exact Hpre.
      * exists q', ups', ls'. split; [exact E|]. split; [exact B1|]. split; [exact B2|]. split; [exact B3|].
        eapply FR_trans; [|exact B4]. repeat split.
Qed.

End Loops.
