(** Finding F28 / invariant RSN, part 4: the scheduling round, [Sys.step], every history.

    The multi-node placement of a scheduling round is the one function that does not satisfy [RS]:
    it moves workers to multi-node mode.  Within one round the single-node mapping runs first and
    may turn [Prefilled w] into [Retracting w], emptying the prefill set of [w] - so that [w] looks
    free when the multi-node mapping runs.  The contract on the scheduler's answer therefore has two
    clauses, both evaluated on the state the round starts in:
    - [sched_retract_ok] (RetractFree.v, the repair of F28): no task is being retracted from a worker
      named by the multi-node part;
    - [sol_ok] (NoPanicS7.v), of which only the clause "a worker named by the multi-node part is
      free" is used: such a worker holds no prefilled task, so the round itself starts no
      retraction from it.
    Results: [reachable_RSN], [reachable_MNR]. *)
From HQ Require Import Base.Prelude Cluster.Types Cluster.Core Cluster.Reactor Cluster.Worker Cluster.Server Cluster.Sys Cluster.Monitors Cluster.RejHyp Cluster.ProofsJob Cluster.ProofsMore Cluster.ProofsTerminal Cluster.ProofsStep Cluster.ProofsFinal Cluster.BijBase Cluster.BijCore Cluster.BijHq Cluster.BijSt Cluster.BijReact Cluster.BijFinal Cluster.InvWBase Cluster.InvWView Cluster.InvWCore Cluster.InvDStep Cluster.InvBundle Cluster.InvProcsDef Cluster.NoPanicC1 Cluster.NoPanicC2 Cluster.InvWX1 Cluster.InvWX2 Cluster.InvWX3 Cluster.NoPanicS4 Cluster.NoPanicS7 Cluster.RetractFree Cluster.NoPanicU0 Cluster.NoPanicU20 Cluster.NoPanicU23 Cluster.NoPanicU24 Cluster.NoPanicU25.
From Coq Require Import ZArith Lia Sorting.Sorted.
Local Open Scope N_scope.

Arguments N.add : simpl never.
Arguments N.sub : simpl never.

(** * The single-node mapping: where a [Retracting] / [Prefilled] state comes from *)
Definition OS (c c' : core) : Prop :=
  forall t', In t' (c_tasks c') ->
    (forall w, t_state t' = Retracting w ->
       exists t, In t (c_tasks c) /\ t_id t = t_id t' /\ (t_state t = Retracting w \/ t_state t = Prefilled w)) /\
    (forall w, t_state t' = Prefilled w -> exists t, In t (c_tasks c) /\ t_id t = t_id t' /\ t_state t = Prefilled w).

Lemma OS_refl c : OS c c.
Proof. intros t Hin. split; intros w E; exists t; auto. Qed.

Lemma OS_trans c1 c2 c3 : OS c1 c2 -> OS c2 c3 -> OS c1 c3.
Proof.
  intros A B t3 H3. destruct (B t3 H3) as [B1 B2]. split; intros w E.
  - destruct (B1 w E) as (t2 & H2 & Ei & [Es|Es]).
    + destruct (proj1 (A t2 H2) w Es) as (t1 & H1 & Ei1 & Es1). exists t1. split; [exact H1|]. split; [congruence | exact Es1].
    + destruct (proj2 (A t2 H2) w Es) as (t1 & H1 & Ei1 & Es1). exists t1. split; [exact H1|]. split; [congruence | right; exact Es1].
  - destruct (B2 w E) as (t2 & H2 & Ei & Es). destruct (proj2 (A t2 H2) w Es) as (t1 & H1 & Ei1 & Es1).
    exists t1. split; [exact H1|]. split; [congruence | exact Es1].
Qed.

Lemma OS_tasks c c' : c_tasks c' = c_tasks c -> OS c c'.
Proof. intros E t Hin. rewrite E in Hin. split; intros w Es; exists t; auto. Qed.

Lemma OS_set c c' x t : c_tasks c' = set_task (c_tasks c) x -> In t (c_tasks c) -> t_id x = t_id t ->
  (forall w, t_state x = Retracting w -> t_state t = Retracting w \/ t_state t = Prefilled w) ->
  (forall w, t_state x = Prefilled w -> t_state t = Prefilled w) -> OS c c'.
Proof.
  intros E Hin Ei H1 H2 t' Hin'. rewrite E in Hin'. destruct (set_task_in _ _ _ Hin') as [->|Hin2].
  - split; intros w Es; exists t; (split; [exact Hin|]); (split; [symmetry; exact Ei|]); auto.
  - split; intros w Es; exists t'; auto.
Qed.

Lemma map_one_OS c m id w v rqres c' m' : map_one c m id w v rqres = Ok (c', m') -> OS c c'.
Proof.
  intros H. unfold map_one in H.
  apply bind_ok in H. destruct H as (wk & ?X & H). apply bind_ok in H. destruct H as (wk' & ?X & H).
  apply bind_ok in H. destruct H as (t & Ht & H). apply get_task_find in Ht. pose proof (find_in _ _ _ Ht) as Hin.
  cbn [c_tasks upd_worker with_workers] in Hin.
  destruct (t_state t) as [n|w1 rv1|old|old|w1 rv1|wsx|] eqn:Est; try discriminate.
  - inversion H; subst. eapply (OS_set _ _ (with_state t (Assigned w v)) t); [reflexivity | exact Hin | reflexivity | cbn; discriminate | cbn; discriminate].
  - destruct (find_worker (c_workers (upd_worker c wk')) old) as [wo|]; [|discriminate].
    apply bind_ok in H. destruct H as (wo' & ?X & H).
    destruct (find_redirect _ id); [discriminate|]. inversion H; subst.
    eapply (OS_set _ _ (with_state t (Retracting old)) t); [reflexivity | exact Hin | reflexivity | | cbn; discriminate].
    intros w0 E. cbn in E. inversion E; subst. right. exact Est.
  - destruct (find_redirect _ id) as [[ot vo]|].
    + inv_binds H. inversion H; subst. apply OS_tasks. reflexivity.
    + inversion H; subst. apply OS_tasks. reflexivity.
Qed.

Lemma rr_pass_OS counts : forall c m tasks v rqres c' m' counts' rest,
  rr_pass c m counts tasks v rqres = Ok (c', m', counts', rest) -> OS c c'.
Proof.
  induction counts as [|[w n] r IH]; intros c m tasks v rqres c' m' counts' rest H.
  - destruct tasks; cbn [rr_pass] in H; inversion H; subst; apply OS_refl.
  - destruct tasks as [|id tl]; cbn [rr_pass] in H; [inversion H; subst; apply OS_refl|].
    destruct (N.ltb 0 n).
    + apply bind_ok in H. destruct H as ([c1 m1] & H1 & H).
      apply bind_ok in H. destruct H as ([[[c2 m2] r'] tl'] & H2 & H). inversion H; subst.
      eapply OS_trans; [eapply map_one_OS; exact H1 | eapply IH; exact H2].
    + apply bind_ok in H. destruct H as ([[[c2 m2] r'] tl'] & H2 & H). inversion H; subst. eapply IH; exact H2.
Qed.

Lemma rr_loop_OS fuel : forall c m counts tasks v rqres c' m', rr_loop fuel c m counts tasks v rqres = Ok (c', m') -> OS c c'.
Proof.
  induction fuel as [|k IH]; intros c m counts tasks v rqres c' m' H; destruct tasks as [|id tl]; cbn [rr_loop] in H;
    try (inversion H; subst; apply OS_refl); try discriminate.
  apply bind_ok in H. destruct H as ([[[c1 m1] counts1] rest] & H1 & H).
  eapply OS_trans; [eapply rr_pass_OS; exact H1 | eapply IH; exact H].
Qed.

Lemma map_sn_OS sol l : forall c m c' m', map_sn c m sol l = Ok (c', m') -> OS c c'.
Proof.
  induction l as [|[[rq v] counts] r IH]; cbn [map_sn]; intros c m c' m' H; [inversion H; subst; apply OS_refl|].
  apply bind_ok in H. destruct H as (rqd & ?X & H). apply bind_ok in H. destruct H as (q & ?X & H).
  apply bind_ok in H. destruct H as ([tasks q'] & ?X & H). apply bind_ok in H. destruct H as ([c2 m2] & H2 & H).
  eapply OS_trans; [|eapply IH; exact H]. eapply OS_trans; [|eapply rr_loop_OS; exact H2]. apply OS_tasks. reflexivity.
Qed.

(** * The multi-node mapping: no new retraction, only the named workers change *)
Definition MS (c c' : core) (W : list wid) : Prop :=
  (forall t' w, In t' (c_tasks c') -> t_state t' = Retracting w ->
     exists t, In t (c_tasks c) /\ t_id t = t_id t' /\ t_state t = Retracting w) /\
  (forall w, ~ In w W -> find_worker (c_workers c') w = find_worker (c_workers c) w).

Lemma MS_refl c : MS c c [].
Proof. split; [intros t w Hin E; exists t; auto | reflexivity]. Qed.

Lemma MS_trans c1 c2 c3 W1 W2 : MS c1 c2 W1 -> MS c2 c3 W2 -> MS c1 c3 (W1 ++ W2).
Proof.
  intros [T1 D1] [T2 D2]. split.
  - intros t3 w H3 E. destruct (T2 t3 w H3 E) as (t2 & H2 & Ei & Es). destruct (T1 t2 w H2 Es) as (t1 & H1 & Ei1 & Es1).
    exists t1. split; [exact H1|]. split; [congruence | exact Es1].
  - intros w Hn. rewrite D2, D1; [reflexivity | |]; intros X; apply Hn; apply in_app_iff; auto.
Qed.

Lemma set_mn_workers_fr l : forall c id first c', set_mn_workers c id l first = Ok c' ->
  c_tasks c' = c_tasks c /\ forall w, ~ In w l -> find_worker (c_workers c') w = find_worker (c_workers c) w.
Proof.
  induction l as [|x r IH]; cbn [set_mn_workers]; intros c id first c' H; [inversion H; subst; auto|].
  apply bind_ok in H. destruct H as (wk & Hx & H). apply bind_ok in H. destruct H as (wk' & Hset & H).
  apply get_worker_find in Hx. destruct (find_worker_some _ _ _ Hx) as [_ Hxi].
  unfold set_mn_task in Hset. destruct (worker_is_free wk); [|discriminate]. inversion Hset; subst wk'.
  destruct (IH _ _ _ _ H) as [Et Ew]. split; [rewrite Et; reflexivity|].
  intros w Hn. rewrite Ew by (intros X; apply Hn; right; exact X).
  cbn [c_workers upd_worker with_workers]. rewrite find_set_worker. cbn [w_id with_assign]. rewrite Hxi.
  destruct (N.eqb w x) eqn:E; [|reflexivity]. apply N.eqb_eq in E. exfalso. apply Hn. left. congruence.
Qed.

Lemma map_mn_sets_MS sets : forall c rq mn c' mn', map_mn_sets c rq mn sets = Ok (c', mn') -> MS c c' (concat sets).
Proof.
  induction sets as [|ws r IH]; cbn [map_mn_sets concat]; intros c rq mn c' mn' H; [inversion H; subst; apply MS_refl|].
  apply bind_ok in H. destruct H as (q & ?X & H). destruct (q_take_one q) as [[id q']|]; [|discriminate].
  apply bind_ok in H. destruct H as (c2 & H2 & H). apply bind_ok in H. destruct H as (t & Ht & H).
  destruct (t_state t) as [n| | | | | |]; try discriminate. destruct n; [|discriminate].
  eapply MS_trans; [|eapply IH; exact H].
  destruct (set_mn_workers_fr _ _ _ _ _ H2) as [Et Ew]. cbn [c_tasks c_workers with_queues] in Et, Ew. split.
  - intros t' w Hin E. cbn [c_tasks upd_task with_tasks] in Hin. destruct (set_task_in _ _ _ Hin) as [->|Hin'].
    + cbn in E. discriminate.
    + exists t'. rewrite <- Et. auto.
  - intros w Hn. cbn [c_workers upd_task with_tasks]. apply Ew. exact Hn.
Qed.

Lemma map_mn_MS l : forall c mn c' mn', map_mn c mn l = Ok (c', mn') -> MS c c' (mn_workers l).
Proof.
  induction l as [|[[rq v] sets] r IH]; cbn [map_mn]; intros c mn c' mn' H; [inversion H; subst; apply MS_refl|].
  apply bind_ok in H. destruct H as ([c1 mn1] & H1 & H).
  unfold mn_workers. cbn [map snd concat]. rewrite concat_app.
  eapply MS_trans; [eapply map_mn_sets_MS; exact H1 | eapply IH; exact H].
Qed.

(** * One round *)
Lemma tid_mem_nil id : tid_mem id [] = false.
Proof. reflexivity. Qed.

Lemma run_scheduling_JS s sol s' :
  CS (core_of s) -> WI (core_of s) -> JS (core_of s) ->
  sol_ok (core_of s) sol = true -> sched_retract_ok (core_of s) sol = true ->
  run_scheduling s sol = Ok s' -> JS (core_of s').
Proof.
  unfold run_scheduling. intros Hs HW HJ Hsol Hret H. destruct (negb (perm_of_set _ _)); [discriminate|].
  set (c := core_of s) in *.
  apply bind_ok in H. destruct H as ([c1 m1] & H1 & H).
  apply bind_ok in H. destruct H as ([c2 mn] & H2 & H).
  apply bind_ok in H. destruct H as ([c3 m3] & H3 & H).
  apply bind_ok in H. destruct H as (s1 & H4 & H).
  apply bind_ok in H. destruct H as (s2 & H5 & H). inversion H; subst s'.
  pose proof (map_sn_RS _ _ _ _ _ _ H1) as [_ D1]. pose proof (map_sn_OS _ _ _ _ _ _ H1) as O1.
  destruct (map_mn_MS _ _ _ _ _ H2) as [T2 D2].
  assert (R3 : RS c2 c3).
  { destruct (queues_top_priority (c_queues c2)); [|inversion H3; subst; apply RS_refl]. eapply prefill_queues_RS; exact H3. }
  assert (Ec : core_of s2 = c3) by (rewrite (send_mn_core _ _ _ H5), (send_mapping_core _ _ _ H4); reflexivity).
  assert (J3 : JS c3).
  { destruct R3 as [T3 D3]. intros t3 Hin3. destruct (T3 t3 Hin3) as [(t2 & Hin2 & Ei2 & Es2)|X]; [|exact X].
    destruct (t_state t3) as [n|w1 rv|w|w|w1 rv|ws|] eqn:Est; cbn; try exact I.
    destruct (T2 t2 w Hin2 Es2) as (t1 & Hin1 & Ei1 & Es1).
    destruct (proj1 (O1 t1 Hin1) w Es1) as (t & Hin & Ei & Es).
    assert (A : snw c w /\ ~ In w (mn_workers (sol_mn sol))).
    { destruct Es as [Es|Es].
      - split; [pose proof (HJ t Hin) as X; rewrite Es in X; exact X|].
        intros Hw. unfold sched_retract_ok in Hret. rewrite forallb_forall in Hret. specialize (Hret w Hw).
        apply negb_true_iff in Hret.
        assert (X : retracting_from c w = true).
        { unfold retracting_from. apply existsb_exists. exists t. split; [exact Hin|]. rewrite Es. apply N.eqb_refl. }
        congruence.
      - pose proof (in_find_task _ _ (CS_sorted _ Hs) Hin) as Hf.
        destruct (WIX_P _ _ _ t w HW eq_refl Hf) as (wk & a & p & f & Hwk & Ea & Hm); [rewrite Es; reflexivity|].
        split; [exists wk; split; [exact Hwk | exists a, p, f; exact Ea]|].
        intros Hw. unfold sol_ok in Hsol. apply andb_true_iff in Hsol. destruct Hsol as [_ Hsol].
        rewrite forallb_forall in Hsol. specialize (Hsol w Hw). unfold mn_w_ok in Hsol. apply andb_true_iff in Hsol. destruct Hsol as [Hfree _].
        fold c in Hfree. rewrite Hwk in Hfree. unfold worker_is_free in Hfree. rewrite Ea in Hfree.
        destruct a; [|discriminate]. destruct p; [|discriminate]. rewrite tid_mem_nil in Hm. discriminate. }
    destruct A as [Hsn Hnw]. apply D3. destruct (D1 w Hsn) as (wk1 & Hw1 & Hk1). exists wk1. split; [|exact Hk1].
    rewrite (D2 w Hnw). exact Hw1. }
  eapply JS_RS; [exact J3|]. apply RS_tasks; [cbn; rewrite Ec; reflexivity | apply DS_eq; cbn; rewrite Ec; reflexivity].
Qed.

(** * The whole system *)
Definition sched_ok (s : sys) (o : op) : Prop :=
  match o with OpSched sol => sol_ok (s_core s) sol = true /\ sched_retract_ok (s_core s) sol = true | _ => True end.

Theorem step_JS s o s' outs : CB (s, []) -> WI (s_core s) -> JS (s_core s) -> sched_ok s o -> step s o = Ok (s', outs) -> JS (s_core s').
Proof.
  intros HC HW HJ Hso H. change (JS (core_of (s', outs))).
  assert (HR : RS (s_core s) (core_of (s', outs)) -> JS (core_of (s', outs))) by (intros X; eapply JS_RS; [exact HJ | exact X]).
  destruct o; cbn [step] in H.
  - apply HR. exact (on_new_worker_RS (s, []) _ _ _ H).
  - destruct (find_proc _ w); [|discriminate]. exact (on_remove_worker_JS (s, []) _ _ _ _ _ _ HC HJ H).
  - destruct (bad_submit_lengths _ _); [inversion H; subst; apply HR; apply RS_refl|]. apply HR. exact (handle_submit_array_RS (s, []) _ _ _ _ _ _ _ _ _ H).
  - destruct (bad_graph_rq _ _); [inversion H; subst; apply HR; apply RS_refl|]. destruct (dead_dep _ _ _); [inversion H; subst; apply HR; apply RS_refl|]. apply HR. exact (handle_submit_graph_RS (s, []) _ _ _ _ _ H).
  - apply HR. unfold handle_open in H. inversion H; subst. apply RS_refl.
  - apply HR. unfold handle_close in H. cbn in H. destruct (find_job _ j) as [jb|]; [|inversion H; subst; apply RS_refl].
    destruct (j_open jb); [|inversion H; subst; apply RS_refl].
    apply bind_ok in H. destruct H as (s1 & H1 & H). inversion H; subst.
    destruct (check_termination_jt _ _ _ H1) as [C1 _]. unfold core_same in C1. change (RS (s_core s) (core_of s1)). rewrite C1. apply RS_refl.
  - apply HR. exact (handle_cancel_RS (s, []) _ _ H).
  - apply HR. unfold handle_forget in H. cbn in H. destruct (find_job _ j) as [jb|]; [|inversion H; subst; apply RS_refl].
    apply bind_ok in H. destruct H as (na & _ & H). destruct (negb (j_open jb) && na); inversion H; subst; apply RS_refl.
  - apply HR. destruct (find_proc _ w) as [p|]; [|discriminate]. destruct (p_down p); [discriminate|].
    inv_binds H. inversion H; subst. apply RS_refl.
  - apply HR. destruct (find_proc _ w) as [p|]; [|discriminate]. destruct (p_up p) as [|m rest]; [discriminate|].
    destruct m.
    + match type of H with on_task_update ?s1 _ _ = _ => exact (on_task_update_RS s1 _ _ _ H) end.
    + match type of H with on_retract_response ?s1 _ _ = _ => exact (on_retract_response_RS s1 _ _ _ H) end.
  - destruct (c_flag (s_core s)); [|discriminate]. destruct Hso as [Hsol Hret].
    exact (run_scheduling_JS (s, []) _ _ (cb_s _ HC) HW HJ Hsol Hret H).
  - apply HR. destruct (find_proc _ w) as [p|]; [|discriminate]. inv_binds H. inversion H; subst. apply RS_refl.
  - apply HR. destruct (find_proc _ w) as [p|]; [|discriminate]. inversion H; subst. apply RS_refl.
  - apply HR. inversion H; subst. apply RS_refl.
  - apply HR. inv_binds H. inversion H; subst. apply RS_refl.
Qed.

(** * Every history *)
(** [sol_ok] along a run, in the shape of [ops_ok] / [ops_retract_ok]. *)
Definition op_sol_ok (s : sys) (o : op) : bool :=
  match o with OpSched sol => sol_ok (s_core s) sol | _ => true end.
Fixpoint ops_sol_ok (s : sys) (ops : list op) : bool :=
  match ops with
  | [] => true
  | o :: r => op_sol_ok s o && match step s o with Ok (s1, _) => ops_sol_ok s1 r | _ => true end
  end.

Lemma ops_sol_ok_snoc pre : forall s o, ops_sol_ok s (pre ++ [o]) = true ->
  ops_sol_ok s pre = true /\ forall s1 o1, run s pre = Ok (s1, o1) -> op_sol_ok s1 o = true.
Proof.
  induction pre as [|p r IH]; cbn [app ops_sol_ok run]; intros s o H.
  - apply andb_true_iff in H. destruct H as [H _]. split; [reflexivity|]. intros s1 o1 E. inversion E; subst. exact H.
  - apply andb_true_iff in H. destruct H as [H0 H]. rewrite H0. cbn [andb]. destruct (step s p) as [[s2 o2]| |] eqn:Es.
    + destruct (IH _ _ H) as [A B]. split; [exact A|]. intros s1 o1 E. cbn [bind] in E. apply bind_ok in E. destruct E as ([s3 o3] & E3 & E). inversion E; subst. eapply B. exact E3.
    + split; [reflexivity|]. intros s1 o1 E. discriminate.
    + split; [reflexivity|]. intros s1 o1 E. discriminate.
Qed.

Lemma ops_retract_ok_snoc pre : forall s o, ops_retract_ok s (pre ++ [o]) = true ->
  ops_retract_ok s pre = true /\ forall s1 o1, run s pre = Ok (s1, o1) -> op_retract_ok s1 o = true.
Proof.
  induction pre as [|p r IH]; cbn [app ops_retract_ok run]; intros s o H.
  - apply andb_true_iff in H. destruct H as [H _]. split; [reflexivity|]. intros s1 o1 E. inversion E; subst. exact H.
  - apply andb_true_iff in H. destruct H as [H0 H]. rewrite H0. cbn [andb]. destruct (step s p) as [[s2 o2]| |] eqn:Es.
    + destruct (IH _ _ H) as [A B]. split; [exact A|]. intros s1 o1 E. cbn [bind] in E. apply bind_ok in E. destruct E as ([s3 o3] & E3 & E). inversion E; subst. eapply B. exact E3.
    + split; [reflexivity|]. intros s1 o1 E. discriminate.
    + split; [reflexivity|]. intros s1 o1 E. discriminate.
Qed.

(** RSN: in every reachable state the worker a task is being retracted from is connected and in
    single-node mode. *)
Theorem reachable_RSN ops : forall reserve maxfill s outs,
  Forall op_wf ops -> ops_ok (init_sys reserve maxfill) ops = true ->
  ops_sol_ok (init_sys reserve maxfill) ops = true -> ops_retract_ok (init_sys reserve maxfill) ops = true ->
  run (init_sys reserve maxfill) ops = Ok (s, outs) -> RSN (s_core s).
Proof.
  induction ops as [|o pre IH] using rev_ind; intros reserve maxfill s outs Hwf Hok Hsol Hret H.
  - cbn in H. inversion H; subst. intros t w [].
  - apply Forall_app in Hwf. destruct Hwf as [Hwf1 Hwf2]. destruct (ops_ok_snoc _ _ _ Hok) as [Hok1 Hok2].
    destruct (ops_sol_ok_snoc _ _ _ Hsol) as [Hsol1 Hsol2]. destruct (ops_retract_ok_snoc _ _ _ Hret) as [Hret1 Hret2].
    destruct (run_app _ _ _ _ _ H) as (s1 & o1 & o2 & H1 & H2 & ->). cbn [run] in H2. apply bind_ok in H2. destruct H2 as ([s2 o3] & Hs & H2). cbn in H2. inversion H2; subst s2 o2. clear H2.
    pose proof (IH reserve maxfill s1 o1 Hwf1 Hok1 Hsol1 Hret1 H1) as HR1.
    pose proof (reachable_INV_ops _ _ _ _ _ Hwf1 Hok1 H1) as HI1.
    apply JS_RSN. eapply step_JS; [exact (inv_cb _ HI1) | exact (inv_w _ HI1) | apply JS_RSN; exact HR1 | | exact Hs].
    specialize (Hsol2 _ _ H1). specialize (Hret2 _ _ H1). destruct o; cbn; try exact I. split; [exact Hsol2 | exact Hret2].
Qed.

(** MNR (RetractFree.v): no task is being retracted from a worker that holds a multi-node task. *)
Lemma RSN_MNR c : wsorted (c_workers c) -> RSN c -> MNR c.
Proof.
  intros Hs HR wk t root Hin Ea. destruct (retracting_from c (w_id wk)) eqn:E; [|reflexivity]. exfalso.
  unfold retracting_from in E. apply existsb_exists in E. destruct E as (t0 & Hin0 & E).
  destruct (t_state t0) as [n|w1 rv|w1|w1|w1 rv|ws|] eqn:Est; try discriminate. apply N.eqb_eq in E. subst w1.
  destruct (HR t0 _ Hin0 Est) as (wk' & Hw & (a & p & f & Ea')).
  rewrite (in_find_worker _ _ Hs Hin) in Hw. inversion Hw; subst wk'. congruence.
Qed.

Theorem reachable_MNR ops reserve maxfill s outs :
  Forall op_wf ops -> ops_ok (init_sys reserve maxfill) ops = true ->
  ops_sol_ok (init_sys reserve maxfill) ops = true -> ops_retract_ok (init_sys reserve maxfill) ops = true ->
  run (init_sys reserve maxfill) ops = Ok (s, outs) -> MNR (s_core s).
Proof.
  intros Hwf Hok Hsol Hret H. apply RSN_MNR.
  - pose proof (reachable_INV_ops _ _ _ _ _ Hwf Hok H) as HI. destruct (inv_w _ HI) as (X & _). exact X.
  - eapply reachable_RSN; eassumption.
Qed.

Print Assumptions reachable_MNR.
