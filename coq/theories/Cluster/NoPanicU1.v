(** Protocol invariant, part 1: the languages of [NoPanicU0.lang] are closed under the moves of the
    system (pure lemmas about words), the Prop form [PROTO] of [proto_ok], and the algebra of
    words / process lists. *)
From HQ Require Import Base.Prelude Cluster.Types Cluster.Core Cluster.Reactor Cluster.Worker Cluster.Server Cluster.Sys Cluster.NoPanicU0.
From Coq Require Import ZArith Lia Sorting.Sorted.
Local Open Scope N_scope.

(** * Automation for the languages *)
Ltac lang_unf := unfold lang, is_started, is_consumed, is_failed, is_nil, is_lnone, is_lback, nil_or_ret, any_rv in *.
Ltac lang_inv H :=
  repeat (match type of H with
          | context [match ?x with _ => _ end] => is_var x; destruct x
          end; cbn in H; try discriminate H).
Ltac bsimp H := repeat rewrite ?andb_true_iff, ?orb_true_iff, ?N.eqb_eq, ?Bool.eqb_true_iff in H.
Ltac lang_fin := cbn; rewrite ?N.eqb_refl; intuition (subst; cbn; rewrite ?N.eqb_refl; auto; try discriminate; try congruence).
Ltac lang_auto H := lang_unf; lang_inv H; bsimp H; try solve [lang_fin].

(** * The server consumes the first item of U *)
Lemma LS_run v b rv U L D : lang v (IRun b rv :: U) L D = true ->
  ((v = VA rv /\ b = false) \/ (v = VP /\ b = true) \/ (v = VT /\ b = true) \/ (v = VM false /\ rv = 0 /\ b = false))
  /\ lang (match v with VM _ => VM true | _ => VR rv end) U L D = true.
Proof. intros H. lang_auto H. Qed.

Lemma LS_fin v U L D : lang v (IFin :: U) L D = true -> (exists rv, v = VR rv) \/ v = VM true.
Proof. intros H. lang_auto H; eauto. Qed.

Lemma LS_fail v k U L D : lang v (IFail k :: U) L D = true -> v <> VN.
Proof. intros H. lang_auto H. Qed.

Lemma LS_rej v r U L D : lang v (IRej r :: U) L D = true ->
  exists rv, v = VA rv /\ r = Some rv /\ lang VN U L D = true.
Proof. intros H. lang_auto H. all: eexists; repeat split; subst; reflexivity. Qed.

Lemma LS_rr v U L D : lang v (IRR :: U) L D = true -> v = VT /\ lang VN U L D = true.
Proof. intros H. lang_auto H. Qed.

Lemma L_VN U L D : lang VN U L D = true -> U = [] /\ L = LNone /\ D = [].
Proof. intros H. lang_auto H. Qed.
Lemma L_VN_nil : lang VN [] LNone [] = true.
Proof. reflexivity. Qed.

(** * The server appends an item to D and changes its view *)
Lemma LA_ret U L D : lang VP U L D = true -> lang VT U L (D ++ [IDRet]) = true.
Proof. intros H. lang_auto H. Qed.
Lemma LA_asg rv U L D : lang VN U L D = true -> lang (VA rv) U L (D ++ [IDC (Some rv) false]) = true.
Proof. intros H. lang_auto H. Qed.
Lemma LA_pre U L D : lang VN U L D = true -> lang VP U L (D ++ [IDC None false]) = true.
Proof. intros H. lang_auto H. Qed.
Lemma LA_mn U L D : lang VN U L D = true -> lang (VM false) U L (D ++ [IDC (Some 0) true]) = true.
Proof. intros H. lang_auto H. Qed.

(** * The worker consumes the first item of D *)
Lemma LW_dc v rv mn U L D : lang v U L (IDC (Some rv) mn :: D) = true ->
  L = LNone
  /\ lang v (U ++ [IRun false rv]) (LRun rv) D = true
  /\ (forall k, lang v (U ++ [IFail k]) LNone D = true)
  /\ ((mn = true /\ v = VM false) \/ (mn = false /\ lang v (U ++ [IRej (Some rv)]) LNone D = true)).
Proof. intros H. lang_auto H. Qed.

Lemma LW_dc_pre v mn U L D : lang v U L (IDC None mn :: D) = true -> L = LNone /\ lang v U LBack D = true.
Proof. intros H. lang_auto H. Qed.

Lemma LW_ret_back v U D : lang v U LBack (IDRet :: D) = true -> lang v (U ++ [IRR]) LNone D = true.
Proof. intros H. lang_auto H. Qed.
Lemma LW_ret_other v U L D : lang v U L (IDRet :: D) = true -> L <> LBack -> lang v U L D = true.
Proof. intros H. lang_auto H. Qed.
Lemma LW_can v U L D : lang v U L (IDCan :: D) = true -> False.
Proof. intros H. lang_auto H. Qed.

(** * The worker ends / starts a task *)
Lemma LW_end v U rv D : lang v U (LRun rv) D = true ->
  lang v U LNone D = true /\ lang v (U ++ [IFin]) LNone D = true /\ forall k, lang v (U ++ [IFail k]) LNone D = true.
Proof. intros H. lang_auto H. Qed.
Lemma LW_pstart v U D : lang v U LBack D = true ->
  (forall rv, lang v (U ++ [IRun true rv]) (LRun rv) D = true) /\ forall k, lang v (U ++ [IFail k]) LNone D = true.
Proof. intros H. lang_auto H. Qed.
Lemma LW_bad v U D : lang v U LBad D = false.
Proof. destruct (lang v U LBad D) eqn:H; [exfalso; lang_auto H | reflexivity]. Qed.

(** * Assoc lists and sortedness of booleans *)
Definition tlt (a b : tid) : Prop := tid_ltb a b = true.
Lemma tid_eqb_eq a b : tid_eqb a b = true <-> a = b.
Proof.
  unfold tid_eqb. rewrite andb_true_iff, !N.eqb_eq. destruct a, b; cbn. split; [intros [-> ->]; reflexivity | intros H; inversion H; auto].
Qed.
Lemma tid_eqb_refl a : tid_eqb a a = true.
Proof. apply tid_eqb_eq. reflexivity. Qed.
Lemma tid_eqb_neq a b : tid_eqb a b = false <-> a <> b.
Proof. rewrite <- tid_eqb_eq. destruct (tid_eqb a b); split; congruence. Qed.
Lemma tid_eqb_sym a b : tid_eqb a b = tid_eqb b a.
Proof. destruct (tid_eqb a b) eqn:E; symmetry; [apply tid_eqb_eq in E; subst; apply tid_eqb_refl | apply tid_eqb_neq; apply tid_eqb_neq in E; congruence]. Qed.
Lemma tlt_spec a b : tlt a b <-> (fst a < fst b \/ (fst a = fst b /\ snd a < snd b)).
Proof. unfold tlt, tid_ltb. rewrite orb_true_iff, andb_true_iff, !N.ltb_lt, N.eqb_eq. tauto. Qed.
Lemma tlt_trans a b c : tlt a b -> tlt b c -> tlt a c.
Proof. rewrite !tlt_spec. lia. Qed.
Lemma tlt_irrefl a : ~ tlt a a.
Proof. rewrite tlt_spec. lia. Qed.
Lemma tlt_total a b : tid_eqb a b = false -> tid_ltb a b = false -> tlt b a.
Proof.
  intros E L. apply tid_eqb_neq in E. rewrite tlt_spec.
  assert (~ tlt a b) as N by (unfold tlt; rewrite L; discriminate). rewrite tlt_spec in N.
  destruct a as [a1 a2], b as [b1 b2]; cbn in *.
  destruct (N.lt_trichotomy a1 b1) as [H|[H|H]]; [lia| |lia]. subst.
  destruct (N.lt_trichotomy a2 b2) as [H|[H|H]]; [lia| |lia]. subst. congruence.
Qed.

Lemma tids_sorted_iff l : tids_sorted l = true <-> StronglySorted tlt l.
Proof.
  induction l as [|a [|b r] IH]; cbn [tids_sorted].
  - split; [constructor | reflexivity].
  - split; [intros _; constructor; constructor | reflexivity].
  - rewrite andb_true_iff, IH. split.
    + intros [Hab Hs]. constructor; [exact Hs|]. inversion Hs as [|? ? Hs' Hall]; subst.
      constructor; [exact Hab|]. rewrite Forall_forall in *. intros y Hy. eapply tlt_trans; [exact Hab | apply Hall; exact Hy].
    + intros Hs. inversion Hs as [|? ? Hs' Hall]; subst. split; [inversion Hall; assumption | exact Hs'].
Qed.
Lemma ns_sorted_iff l : ns_sorted l = true <-> StronglySorted N.lt l.
Proof.
  induction l as [|a [|b r] IH]; cbn [ns_sorted].
  - split; [constructor | reflexivity].
  - split; [intros _; constructor; constructor | reflexivity].
  - rewrite andb_true_iff, IH, N.ltb_lt. split.
    + intros [Hab Hs]. constructor; [exact Hs|]. inversion Hs as [|? ? Hs' Hall]; subst.
      constructor; [exact Hab|]. rewrite Forall_forall in *. intros y Hy. specialize (Hall _ Hy). lia.
    + intros Hs. inversion Hs as [|? ? Hs' Hall]; subst. split; [inversion Hall; assumption | exact Hs'].
Qed.
Lemma tids_eqb_eq a : forall b, tids_eqb a b = true <-> a = b.
Proof.
  induction a as [|x a IH]; intros [|y b]; cbn [tids_eqb]; try (split; [discriminate | congruence]); [tauto|].
  rewrite andb_true_iff, tid_eqb_eq, IH. split; [intros [-> ->]; reflexivity | intros H; inversion H; auto].
Qed.

(** * Words *)
Lemma uitems_app x a b : uitems x (a ++ b) = uitems x a ++ uitems x b.
Proof. unfold uitems. apply flat_map_app. Qed.
Lemma ditems_app x a b : ditems x (a ++ b) = ditems x a ++ ditems x b.
Proof. unfold ditems. apply flat_map_app. Qed.
Lemma uitems_cons x m r : uitems x (m :: r) = uitems_msg x m ++ uitems x r.
Proof. reflexivity. Qed.
Lemma ditems_cons x m r : ditems x (m :: r) = ditems_msg x m ++ ditems x r.
Proof. reflexivity. Qed.
Lemma sel_same {A} x (a : A) : sel x x a = [a].
Proof. unfold sel. rewrite tid_eqb_refl. reflexivity. Qed.
Lemma sel_other {A} x y (a : A) : x <> y -> sel x y a = [].
Proof. unfold sel. intros H. apply tid_eqb_neq in H. rewrite H. reflexivity. Qed.

(** * Process lists *)
Definition psorted (ps : list wproc) : Prop := StronglySorted N.lt (map p_id ps).

Lemma find_proc_some ps w p : find_proc ps w = Some p -> In p ps /\ p_id p = w.
Proof.
  induction ps as [|h r IH]; cbn [find_proc]; [discriminate|].
  destruct (N.eqb w (p_id h)) eqn:E.
  - intros H; inversion H; subst. apply N.eqb_eq in E. split; [left; reflexivity | symmetry; exact E].
  - intros H. destruct (IH H). split; [right; assumption | assumption].
Qed.

Lemma find_set_proc ps x w : find_proc (set_proc ps x) w = if N.eqb w (p_id x) then Some x else find_proc ps w.
Proof.
  induction ps as [|h r IH]; cbn [set_proc find_proc]; [reflexivity|].
  destruct (N.eqb (p_id x) (p_id h)) eqn:E1.
  - apply N.eqb_eq in E1. cbn [find_proc]. rewrite <- E1. destruct (N.eqb w (p_id x)); reflexivity.
  - destruct (N.ltb (p_id x) (p_id h)); cbn [find_proc]; [reflexivity|].
    destruct (N.eqb w (p_id h)) eqn:E2.
    + apply N.eqb_eq in E2. subst w. rewrite N.eqb_sym, E1. reflexivity.
    + exact IH.
Qed.

Lemma set_proc_ids ps x y : In y (map p_id (set_proc ps x)) -> y = p_id x \/ In y (map p_id ps).
Proof.
  induction ps as [|h r IH]; cbn [set_proc map In]; [intros [H|[]]; auto|].
  destruct (N.eqb (p_id x) (p_id h)); cbn [map In]; [intros [H|H]; auto|].
  destruct (N.ltb (p_id x) (p_id h)); cbn [map In]; [intros [H|[H|H]]; auto|].
  intros [H|H]; [auto|]. destruct (IH H); auto.
Qed.

Lemma set_proc_sorted ps x : psorted ps -> psorted (set_proc ps x).
Proof.
  unfold psorted. induction ps as [|h r IH]; cbn [set_proc map]; intros Hs; [constructor; constructor|].
  inversion Hs as [|? ? Hs' Hall]; subst.
  destruct (N.eqb (p_id x) (p_id h)) eqn:E1.
  - apply N.eqb_eq in E1. cbn [map]. rewrite E1. constructor; assumption.
  - destruct (N.ltb (p_id x) (p_id h)) eqn:E2; cbn [map].
    + apply N.ltb_lt in E2. constructor; [exact Hs|]. constructor; [exact E2|].
      rewrite Forall_forall in *. intros y Hy. specialize (Hall _ Hy). lia.
    + constructor; [apply IH; exact Hs'|]. rewrite Forall_forall in *. intros y Hy.
      destruct (set_proc_ids _ _ _ Hy) as [->|Hy']; [|apply Hall; exact Hy'].
      apply N.eqb_neq in E1. apply N.ltb_ge in E2. lia.
Qed.

Lemma find_proc_none ps w : ~ In w (map p_id ps) -> find_proc ps w = None.
Proof.
  induction ps as [|h r IH]; cbn [find_proc map In]; [reflexivity|]. intros Hn.
  destruct (N.eqb w (p_id h)) eqn:E; [apply N.eqb_eq in E; exfalso; apply Hn; left; auto|].
  apply IH. intros X. apply Hn. right. exact X.
Qed.

Lemma in_find_proc ps p : psorted ps -> In p ps -> find_proc ps (p_id p) = Some p.
Proof.
  unfold psorted. induction ps as [|h r IH]; cbn [find_proc map]; intros Hs Hin; [destruct Hin|].
  inversion Hs as [|? ? Hs' Hall]; subst. destruct Hin as [->|Hin]; [rewrite N.eqb_refl; reflexivity|].
  destruct (N.eqb (p_id p) (p_id h)) eqn:E; [|apply IH; assumption].
  apply N.eqb_eq in E. rewrite Forall_forall in Hall. specialize (Hall (p_id p) (in_map p_id _ _ Hin)). lia.
Qed.

Lemma find_del_proc ps x w : psorted ps -> find_proc (del_proc ps x) w = if N.eqb w x then None else find_proc ps w.
Proof.
  unfold psorted. induction ps as [|h r IH]; cbn [del_proc find_proc map]; intros Hs; [destruct (N.eqb w x); reflexivity|].
  inversion Hs as [|? ? Hs' Hall]; subst.
  destruct (N.eqb x (p_id h)) eqn:E1.
  - apply N.eqb_eq in E1. subst x. destruct (N.eqb w (p_id h)) eqn:E2; [|reflexivity].
    apply N.eqb_eq in E2. subst w. apply find_proc_none. intros Hin. rewrite Forall_forall in Hall.
    specialize (Hall _ Hin). lia.
  - cbn [find_proc]. destruct (N.eqb w (p_id h)) eqn:E2.
    + apply N.eqb_eq in E2. subst w. rewrite N.eqb_sym, E1. reflexivity.
    + apply IH. exact Hs'.
Qed.

Lemma del_proc_incl ps x y : In y (map p_id (del_proc ps x)) -> In y (map p_id ps).
Proof.
  induction ps as [|h r IH]; cbn [del_proc map In]; [auto|].
  destruct (N.eqb x (p_id h)); [intros H; right; exact H|]. cbn [map In]. intros [H|H]; auto.
Qed.
Lemma del_proc_sorted ps x : psorted ps -> psorted (del_proc ps x).
Proof.
  unfold psorted. induction ps as [|h r IH]; cbn [del_proc map]; intros Hs; [constructor|].
  inversion Hs as [|? ? Hs' Hall]; subst. destruct (N.eqb x (p_id h)); [exact Hs'|].
  cbn [map]. constructor; [apply IH; exact Hs'|]. rewrite Forall_forall in *. intros y Hy. apply Hall.
  eapply del_proc_incl; exact Hy.
Qed.

Lemma find_map_proc (f : wproc -> wproc) ps w : (forall p, p_id (f p) = p_id p) ->
  find_proc (map f ps) w = option_map f (find_proc ps w).
Proof.
  intros Hf. induction ps as [|h r IH]; cbn [map find_proc]; [reflexivity|]. rewrite Hf.
  destruct (N.eqb w (p_id h)); [reflexivity | exact IH].
Qed.
Lemma map_proc_sorted (f : wproc -> wproc) ps : (forall p, p_id (f p) = p_id p) -> psorted ps -> psorted (map f ps).
Proof.
  unfold psorted. intros Hf Hs. rewrite map_map. erewrite map_ext; [exact Hs|]. intros a. apply Hf.
Qed.

(** * Tasks *)
Lemma find_task_some ts id t : find_task ts id = Some t -> In t ts /\ t_id t = id.
Proof.
  induction ts as [|h r IH]; cbn [find_task]; [discriminate|].
  destruct (tid_eqb id (t_id h)) eqn:E.
  - intros H; inversion H; subst. apply tid_eqb_eq in E. split; [left; reflexivity | symmetry; exact E].
  - intros H. destruct (IH H). split; [right; assumption | assumption].
Qed.

(** * The Prop form *)
Definition stateq (s : sys) (x : tid) : option tstate := option_map t_state (find_task (c_tasks (s_core s)) x).

Record PROTO (s : sys) : Prop := mkPROTO {
  pr_sorted : psorted (s_procs s);
  pr_words : forall w p x t, find_proc (s_procs s) w = Some p -> find_task (c_tasks (s_core s)) x = Some t ->
             lang (view_of (t_state t) w (job_running (s_hq s) x)) (uitems x (p_up p)) (local p x) (ditems x (p_down p)) = true;
  pr_rqs : forall w p, find_proc (s_procs s) w = Some p -> rqs_ok (s_core s) p = true;
  pr_local : forall w p, find_proc (s_procs s) w = Some p -> local_ok p = true;
  pr_seen : forall w p x, find_proc (s_procs s) w = Some p -> In x (proc_tids p) -> seen (s_hq s) x = true;
  pr_mnrq : mn_rqs_ok (s_core s) = true;
  pr_mnt : forall x t, find_task (c_tasks (s_core s)) x = Some t -> mn_task_ok (s_core s) t = true;
  pr_jr : forall x t, find_task (c_tasks (s_core s)) x = Some t -> jr_ok (s_hq s) t = true;
  pr_rvt : forall x t w rv, find_task (c_tasks (s_core s)) x = Some t -> t_state t = Assigned w rv -> rv = 0;
  pr_rvr : forall r, In r (c_redirects (s_core s)) -> snd (snd r) = 0
}.

Lemma rv_ok_split c : rv_ok c = true <->
  (forall t, In t (c_tasks c) -> forall w rv, t_state t = Assigned w rv -> rv = 0) /\
  (forall r, In r (c_redirects c) -> snd (snd r) = 0).
Proof.
  unfold rv_ok. rewrite andb_true_iff, !forallb_forall. split.
  - intros [H1 H2]. split.
    + intros t Ht w rv E. specialize (H1 _ Ht). rewrite E in H1. apply N.eqb_eq in H1. exact H1.
    + intros r Hr. apply N.eqb_eq. apply H2. exact Hr.
  - intros [H1 H2]. split.
    + intros t Ht. destruct (t_state t) eqn:E; try reflexivity. apply N.eqb_eq. eapply H1; eassumption.
    + intros r Hr. apply N.eqb_eq. apply H2. exact Hr.
Qed.

Theorem proto_ok_PROTO s : proto_ok s = true -> PROTO s.
Proof.
  unfold proto_ok. rewrite !andb_true_iff, !forallb_forall.
  intros ((((((((H9 & H1) & H2) & H3) & H4) & H5) & H6) & H7) & H8).
  constructor.
  - apply ns_sorted_iff. exact H9.
  - intros w p x t Hp Ht. destruct (find_proc_some _ _ _ Hp) as [Ip <-]. destruct (find_task_some _ _ _ Ht) as [It <-].
    specialize (H1 _ Ip). unfold words_ok in H1. rewrite forallb_forall in H1. exact (H1 _ It).
  - intros w p Hp. apply H2. exact (proj1 (find_proc_some _ _ _ Hp)).
  - intros w p Hp. apply H3. exact (proj1 (find_proc_some _ _ _ Hp)).
  - intros w p x Hp Hx. specialize (H4 _ (proj1 (find_proc_some _ _ _ Hp))). unfold occ_seen in H4.
    rewrite forallb_forall in H4. exact (H4 _ Hx).
  - exact H5.
  - intros x t Ht. apply H6. exact (proj1 (find_task_some _ _ _ Ht)).
  - intros x t Ht. apply H7. exact (proj1 (find_task_some _ _ _ Ht)).
  - intros x t w rv Ht E. apply rv_ok_split in H8. destruct H8 as [R1 _]. eapply R1; [exact (proj1 (find_task_some _ _ _ Ht)) | exact E].
  - apply rv_ok_split in H8. apply H8.
Qed.

(** The converse needs the task map to be a map (sorted by id; part of [INV]). *)
Lemma in_find_task' ts t : StronglySorted tlt (map t_id ts) -> In t ts -> find_task ts (t_id t) = Some t.
Proof.
  induction ts as [|h r IH]; cbn [find_task map]; intros Hs Hin; [destruct Hin|].
  inversion Hs as [|? ? Hs' Hall]; subst. destruct Hin as [->|Hin]; [rewrite tid_eqb_refl; reflexivity|].
  destruct (tid_eqb (t_id t) (t_id h)) eqn:E; [|apply IH; assumption].
  apply tid_eqb_eq in E. rewrite Forall_forall in Hall. specialize (Hall (t_id t) (in_map t_id _ _ Hin)).
  rewrite E in Hall. exfalso. exact (tlt_irrefl _ Hall).
Qed.

Theorem PROTO_proto_ok s : StronglySorted tlt (map t_id (c_tasks (s_core s))) -> PROTO s -> proto_ok s = true.
Proof.
  intros Hts [H9 H1 H2 H3 H4 H5 H6 H7 R1 R2]. unfold proto_ok. rewrite !andb_true_iff, !forallb_forall.
  repeat split.
  - apply ns_sorted_iff. exact H9.
  - intros p Ip. unfold words_ok. rewrite forallb_forall. intros t It. unfold task_at_ok.
    apply (H1 (p_id p) p (t_id t) t); [apply in_find_proc; assumption | apply in_find_task'; assumption].
  - intros p Ip. eapply H2. apply in_find_proc; eassumption.
  - intros p Ip. eapply H3. apply in_find_proc; eassumption.
  - intros p Ip. unfold occ_seen. rewrite forallb_forall. intros x Hx. eapply H4; [apply in_find_proc; eassumption | exact Hx].
  - exact H5.
  - intros t It. eapply H6. apply in_find_task'; eassumption.
  - intros t It. eapply H7. apply in_find_task'; eassumption.
  - apply rv_ok_split. split; [|exact R2]. intros t It w rv E. eapply R1; [apply in_find_task'; eassumption | exact E].
Qed.

(** The initial state. *)
Lemma PROTO_init r m : PROTO (init_sys r m).
Proof. apply proto_ok_PROTO. reflexivity. Qed.
