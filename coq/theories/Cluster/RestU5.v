(** C02 "at rest", part 5: the [RO] pass continued (worker messages, new tasks, worker loss). *)
From HQ Require Import Base.Prelude Cluster.Types Cluster.Core Cluster.Reactor Cluster.Worker Cluster.Server Cluster.Sys Cluster.ProofsJob Cluster.ProofsMore Cluster.ProofsStep Cluster.BijBase Cluster.BijCore Cluster.BijHq Cluster.BijSt Cluster.BijReact Cluster.InvWBase Cluster.InvWX1 Cluster.InvWX2 Cluster.NoPanicC4 Cluster.RestU4.
From Coq Require Import ZArith Lia Sorting.Sorted.
Local Open Scope N_scope.

Arguments N.add : simpl never.
Arguments N.sub : simpl never.

Definition runs (x : tid) (us : list wupdate) : Prop := exists rv, In (URunning x rv) us \/ In (URunningPrefilled x rv) us.
Lemma runs_cons x u us : runs x us -> runs x (u :: us).
Proof. intros (rv & [H|H]); exists rv; [left|right]; right; exact H. Qed.

Section Pass.
Variable T : tid -> wid -> Prop.
Notation RO_new := (RO_new T).
Notation RO_refl := (RO_refl T).
Notation RO_trans := (RO_trans T).
Notation RO_tasks := (RO_tasks T).
Notation retract_states_RO := (retract_states_RO T).
Notation process_retracted_RO := (process_retracted_RO T).
Notation try_remove_redirection_RO := (try_remove_redirection_RO T).
Notation reset_mn_workers_RO := (reset_mn_workers_RO T).
Notation reset_mn_all_RO := (reset_mn_all_RO T).
Notation task_failed_RO := (task_failed_RO T).
Notation task_finished_RO := (task_finished_RO T).
Notation on_cancel_tasks_RO := (on_cancel_tasks_RO T).

(** * task_running, task_reject, request_enabled, on_retract_response *)
Lemma task_running_RO s w id rv s' b : T id w -> task_running s w id rv = Ok (s', b) -> RO T (core_of s) (core_of s').
Proof.
  intros HT H. unfold task_running in H.
  destruct (find_task (c_tasks (core_of s)) id) as [t|] eqn:Eft; [|inversion H; subst; apply RO_refl].
  rewrite <- (proj2 (find_task_some _ _ _ Eft)) in HT.
  apply bind_ok in H. destruct H as (rq & ?X & H). apply bind_ok in H. destruct H as ([s1 ws] & H1 & H).
  apply bind_ok in H. destruct H as (s2 & H2 & H). inversion H; subst s' b.
  destruct (process_task_started_active _ _ _ _ _ _ H2) as [C2 _]. unfold core_same in C2. rewrite C2. clear H2 C2 H.
  destruct (t_state t) as [n|w1 rv1|w1|w1|w1 rv1|wsx|]; try discriminate.
  - destruct (negb (N.eqb w1 w)); [discriminate|]. destruct (negb (N.eqb rv1 rv)); [discriminate|]. inversion H1; subst s1 ws.
    ro_set.
  - destruct (negb (N.eqb w1 w)); [discriminate|]. inv_binds H1. inversion H1; subst s1 ws.
    ro_set.
  - destruct (negb (N.eqb w1 w)); [discriminate|].
    apply bind_ok in H1. destruct H1 as (c1 & Hc1 & H1). inv_binds H1. inversion H1; subst s1 ws.
    pose proof (try_remove_redirection_tasks _ _ _ Hc1) as Et1. cbn [c_tasks ask_scheduling core_of st_core with_core with_flag s_core fst] in Et1.
    eapply (RO_set T _ _ (with_state t (Running w rv)) t); [cbn [c_tasks upd_worker upd_task with_workers with_tasks core_of st_core with_core s_core fst]; rewrite Et1; reflexivity
      | exact (find_in _ _ _ Eft) | reflexivity | ro_cond].
  - destruct wsx; [discriminate|]. destruct (N.eqb w0 w); [|discriminate]. inversion H1; subst s1 ws. apply RO_refl.
Qed.

Lemma requeue_RO s t c1 s' b : In t (c_tasks c1) ->
  (do (qs, ret) <- add_ready_task (c_queues c1) (with_state t (Waiting 0));
   do s'' <- process_retracted (st_core s (with_queues (upd_task c1 (with_state t (Waiting 0))) qs)) ret;
   Ok (s'', true)) = Ok (s', b) -> RO T c1 (core_of s').
Proof.
  intros Hin H. apply bind_ok in H. destruct H as ([qs ret] & ?X & H). apply bind_ok in H. destruct H as (s2 & Hr & H). inversion H; subst.
  eapply RO_trans; [|exact (process_retracted_RO _ _ _ Hr)].
  eapply (RO_set T _ _ (with_state t (Waiting 0)) t); [reflexivity | exact Hin | reflexivity | ro_cond].
Qed.

Lemma task_reject_RO s w id rv s' b : task_reject s w id rv = Ok (s', b) -> RO T (core_of s) (core_of s').
Proof.
  intros H. unfold task_reject in H. set (c := core_of s) in *.
  destruct (find_task (c_tasks c) id) as [t|] eqn:Eft; [|inversion H; subst; apply RO_refl].
  destruct (find_task_some _ _ _ Eft) as [Hin Hid].
  apply bind_ok in H. destruct H as (wk & ?X & H). cbv zeta in H.
  match type of H with context [upd_worker c ?k] => set (wk1 := k) in * end.
  apply bind_ok in H. destruct H as (rq & ?X & H).
  destruct (t_state t) as [n|w1 rv1|w1|w1|w1 rv1|wsx|];
    try (apply bind_ok in H; destruct H as (r0 & Hr0 & _); discriminate).
  - apply bind_ok in H. destruct H as ([c1 cont] & Hr & H).
    assert (Et1 : c_tasks c1 = c_tasks c).
    { destruct (negb (N.eqb w w1)); [inversion Hr; subst; reflexivity|].
      destruct rv as [v|]; [|inversion Hr; subst; reflexivity].
      destruct (N.eqb v rv1); [|inversion Hr; subst; reflexivity].
      inv_binds Hr. inversion Hr; subst. reflexivity. }
    eapply RO_trans; [apply (RO_tasks c c1 Et1)|]. eapply requeue_RO; [rewrite Et1; exact Hin | exact H].
  - apply bind_ok in H. destruct H as ([c1 cont] & Hr & H).
    assert (Et1 : c_tasks c1 = c_tasks c) by (inv_binds Hr; inversion Hr; subst; reflexivity).
    eapply RO_trans; [apply (RO_tasks c c1 Et1)|]. eapply requeue_RO; [rewrite Et1; exact Hin | exact H].
  - apply bind_ok in H. destruct H as ([c1 cont] & Hr & H).
    assert (E1 : c1 = upd_worker c wk1) by (destruct (negb (N.eqb w w1)); inversion Hr; reflexivity). subst c1.
    eapply RO_trans; [apply (RO_tasks c (upd_worker c wk1) eq_refl)|].
    destruct cont.
    + destruct (find_redirect (c_redirects (upd_worker c wk1)) id) as [[target rvt]|].
      * apply bind_ok in H. destruct H as (s1 & Hs1 & H). inversion H; subst s' b.
        rewrite (send_worker_core _ _ _ _ Hs1).
        eapply (RO_set T _ _ (with_state t (Assigned target rvt)) t); [reflexivity | exact Hin | reflexivity | ro_cond].
      * eapply requeue_RO; [exact Hin | exact H].
    + inversion H; subst. apply RO_refl.
Qed.

Lemma request_enabled_RO s w rq rv s' : request_enabled s w rq rv = Ok s' -> RO T (core_of s) (core_of s').
Proof.
  intros H. unfold request_enabled in H. apply bind_ok in H. destruct H as (wk & ?X & H). inversion H; subst s'.
  apply RO_tasks; reflexivity.
Qed.

Lemma apply_updates_RO w us : (forall x, runs x us -> T x w) -> forall s need s' need', apply_updates s w us need = Ok (s', need') -> RO T (core_of s) (core_of s').
Proof.
  induction us as [|u r IH]; cbn [apply_updates]; intros HT s need s' need' H; [inversion H; subst; apply RO_refl|].
  apply bind_ok in H. destruct H as ([s1 n1] & Hu & H).
  eapply RO_trans; [|eapply IH; [intros x Hx; eapply HT; apply runs_cons; exact Hx | exact H]].
  destruct u.
  - eapply task_finished_RO; exact Hu.
  - apply bind_ok in Hu. destruct Hu as (sx & Hf & Hu). inversion Hu; subst. eapply task_failed_RO; exact Hf.
  - eapply task_running_RO; [apply HT; exists rv; left; left; reflexivity | exact Hu].
  - eapply task_running_RO; [apply HT; exists rv; right; left; reflexivity | exact Hu].
  - eapply task_reject_RO; exact Hu.
  - apply bind_ok in Hu. destruct Hu as (sx & Hf & Hu). inversion Hu; subst. eapply request_enabled_RO; exact Hf.
Qed.

Lemma on_task_update_RO s w us s' : (forall x, runs x us -> T x w) -> on_task_update s w us = Ok s' -> RO T (core_of s) (core_of s').
Proof.
  intros HT H. unfold on_task_update in H. apply bind_ok in H. destruct H as ([s1 need] & Hu & H).
  pose proof (apply_updates_RO _ _ HT _ _ _ _ Hu) as R1.
  destruct (need && _); inversion H; subst; [|exact R1].
  eapply RO_trans; [exact R1|]. apply RO_tasks; reflexivity.
Qed.

Lemma retract_response_states_RO ids : forall c w acc c' acc', retract_response_states c w ids acc = (c', acc') -> RO T c c'.
Proof.
  induction ids as [|id r IH]; cbn [retract_response_states]; intros c w acc c' acc' H; [inversion H; subst; apply RO_refl|].
  destruct (find_task (c_tasks c) id) as [t|] eqn:Eft; [|eapply IH; exact H].
  destruct (find_task_some _ _ _ Eft) as [Hin Hid].
  destruct (t_state t); try (eapply IH; exact H).
  destruct (N.eqb w w0); [|eapply IH; exact H].
  destruct (find_redirect (c_redirects c) id) as [[target rv]|].
  - eapply RO_trans; [|eapply IH; exact H]. ro_set.
  - eapply RO_trans; [|eapply IH; exact H].
    eapply (RO_set T _ _ (with_state t (Waiting 0)) t); [reflexivity | exact Hin | reflexivity | ro_cond].
Qed.

Lemma on_retract_response_RO s w ids s' : on_retract_response s w ids = Ok s' -> RO T (core_of s) (core_of s').
Proof.
  unfold on_retract_response. intros H. destruct (retract_response_states _ w ids []) as [c' groups] eqn:E.
  apply bind_ok in H. destruct H as (s2 & H & H2).
  assert (X2 : RO T (core_of s) (core_of s2)).
  { rewrite (send_redirected_core _ _ _ H). eapply retract_response_states_RO; exact E. }
  destruct (retract_wakes _ _ _ _); inversion H2; subst s'; clear H2; [|exact X2].
  eapply RO_trans; [exact X2 | apply RO_tasks; reflexivity].
Qed.

(** * Server: new worker, new tasks *)
Lemma on_new_worker_RO s rs g s' : on_new_worker s rs g = Ok s' -> RO T (core_of s) (core_of s').
Proof. intros H. unfold on_new_worker in H. inversion H; subst s'. apply RO_tasks; reflexivity. Qed.

Lemma register_deps_RO deps : forall c id kept count c' kept' count', register_deps c id deps kept count = (c', kept', count') -> RO T c c'.
Proof.
  induction deps as [|d r IH]; cbn [register_deps]; intros c id kept count c' kept' count' H; [inversion H; subst; apply RO_refl|].
  destruct (find_task (c_tasks c) d) as [dep|] eqn:Ef; [|eapply IH; exact H].
  eapply RO_trans; [|eapply IH; exact H].
  ro_set.
Qed.

Lemma add_new_tasks_RO ts :
  forall c ret c' ret',
  add_new_tasks c ts ret = Ok (c', ret') -> RO T c c'.
Proof.
  induction ts as [|t r IH]; cbn [add_new_tasks]; intros c ret c' ret' H; [inversion H; subst; apply RO_refl|].
  destruct (register_deps c (t_id t) (t_deps t) [] 0) as [[c1 kept] count] eqn:Er.
  pose proof (register_deps_RO _ _ _ _ _ _ _ _ Er) as R1.
  destruct (NoPanicC4.register_deps_frame _ _ _ _ _ _ _ _ Er) as (_ & _ & _ & Est).
  apply bind_ok in H. destruct H as ([c2 rt] & H2 & H).
  assert (E2 : c_tasks c2 = c_tasks c1).
  { destruct (N.eqb count 0); [|inversion H2; subst; reflexivity].
    apply bind_ok in H2. destruct H2 as ([qs rt'] & ?X & H2). inversion H2; subst. reflexivity. }
  destruct (find_task (c_tasks c2) (t_id t)) eqn:Ef2; [discriminate|].
  eapply RO_trans; [exact R1|]. eapply RO_trans; [apply (RO_tasks c1 c2 E2)|]. eapply RO_trans; [|eapply IH; exact H].
  eapply (RO_new _ _ (with_state (with_deps t kept) (Waiting count))); reflexivity.
Qed.

Lemma on_new_tasks_RO s ts s' : on_new_tasks s ts = Ok s' -> RO T (core_of s) (core_of s').
Proof.
  intros H. unfold on_new_tasks in H. destruct ts as [|t0 tr] eqn:Et; [inversion H; subst; apply RO_refl|]. rewrite <- Et in *. clear Et.
  apply bind_ok in H. destruct H as ([c' retracted] & Ha & H). apply bind_ok in H. destruct H as (s1 & Hr & H). inversion H; subst s'.
  eapply RO_trans; [eapply add_new_tasks_RO; exact Ha|].
  eapply RO_trans; [exact (process_retracted_RO (st_core s c') _ _ Hr)|]. apply RO_tasks; reflexivity.
Qed.

(** * Server: the pieces of on_remove_worker that keep all workers *)
Lemma lost_prefilled_RO l : forall c c', lost_prefilled c l = Ok c' -> RO T c c'.
Proof.
  induction l as [|id r IH]; cbn [lost_prefilled]; intros c c' H; [inversion H; subst; apply RO_refl|].
  apply bind_ok in H. destruct H as (t & ?X & H). apply bind_ok in H. destruct H as (q & ?X & H). apply bind_ok in H. destruct H as (q' & ?X & H).
  eapply RO_trans; [|eapply IH; exact H].
  ro_set.
Qed.

Lemma lost_assigned_RO l : forall c running ret c' running' ret', lost_assigned c l running ret = Ok (c', running', ret') -> RO T c c'.
Proof.
  induction l as [|id r IH]; cbn [lost_assigned]; intros c running ret c' running' ret' H; [inversion H; subst; apply RO_refl|].
  apply bind_ok in H. destruct H as (t & Ht & H). apply get_task_find in Ht.
  apply bind_ok in H. destruct H as ([[c1 t1] running1] & Hr1 & H).
  apply bind_ok in H. destruct H as ([qs rt] & ?X & H).
  eapply RO_trans; [|eapply IH; exact H].
  assert (E1 : c_tasks c1 = c_tasks c /\ c_workers c1 = c_workers c /\ (t1 = t \/ t1 = with_state t (Waiting 0))).
  { destruct (t_state t); try (inversion Hr1; subst; auto; fail).
    destruct (find_redirect _ id); inversion Hr1; subst; auto. }
  destruct E1 as (Et & Ew & [-> | ->]).
  - eapply (RO_set T c _ (with_inst t (t_inst t + 1)) t); [cbn [c_tasks upd_task with_tasks with_queues]; rewrite Et; reflexivity
      | exact (find_in _ _ _ Ht) | reflexivity | ro_cond].
  - eapply (RO_set T c _ (with_inst (with_state t (Waiting 0)) (t_inst (with_state t (Waiting 0)) + 1)) t); [cbn [c_tasks upd_task with_tasks with_queues]; rewrite Et; reflexivity
      | exact (find_in _ _ _ Ht) | reflexivity | ro_cond].
Qed.

Lemma lost_fail_running_RO l : forall s reason s', lost_fail_running s reason l = Ok s' -> RO T (core_of s) (core_of s').
Proof.
  induction l as [|id r IH]; cbn [lost_fail_running]; intros s reason s' H; [inversion H; subst; apply RO_refl|].
  destruct (find_task (c_tasks (core_of s)) id) as [t|] eqn:Ef; [|eapply IH; exact H].
  assert (Hc : forall t' limit, increment_crash_counter t = (t', limit) -> RO T (core_of s) (core_of (st_core s (upd_task (core_of s) t')))).
  { intros t' limit Ei. unfold increment_crash_counter in Ei. inversion Ei; subst.
    ro_set. }
  destruct (t_climit t).
  - apply bind_ok in H. destruct H as (s1 & Hf & H). eapply RO_trans; [eapply task_failed_RO; exact Hf | eapply IH; exact H].
  - destruct (reason_is_failure reason); [|eapply IH; exact H].
    destruct (increment_crash_counter t) as [t' limit] eqn:Ei. specialize (Hc t' limit eq_refl). destruct limit.
    + apply bind_ok in H. destruct H as (s1 & Hf & H).
      eapply RO_trans; [exact Hc|]. eapply RO_trans; [eapply task_failed_RO; exact Hf | eapply IH; exact H].
    + eapply RO_trans; [exact Hc | eapply IH; exact H].
  - destruct (reason_is_failure reason); [|eapply IH; exact H].
    destruct (increment_crash_counter t) as [t' limit] eqn:Ei. specialize (Hc t' limit eq_refl). destruct limit.
    + apply bind_ok in H. destruct H as (s1 & Hf & H).
      eapply RO_trans; [exact Hc|]. eapply RO_trans; [eapply task_failed_RO; exact Hf | eapply IH; exact H].
    + eapply RO_trans; [exact Hc | eapply IH; exact H].
Qed.

End Pass.
