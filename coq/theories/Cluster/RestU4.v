(** C02 "at rest", part 4: where a Running state comes from.  Relation [RO T c c'] (the pass of
    ExecU2-4 replayed, without the scheduling round): a task of [c'] that runs on root worker [w]
    ([Running w _] or [RunningMN (w :: _)]) is a task of [c] that ran on root [w], or is in the
    trigger set [T] with worker [w] (a running message of [w] is being processed). *)
From HQ Require Import Base.Prelude Cluster.Types Cluster.Core Cluster.Reactor Cluster.Worker Cluster.Server Cluster.Sys Cluster.ProofsJob Cluster.ProofsMore Cluster.ProofsStep Cluster.BijBase Cluster.BijCore Cluster.BijHq Cluster.BijSt Cluster.BijReact Cluster.InvWBase Cluster.InvWX1.
From Coq Require Import ZArith Lia Sorting.Sorted.
Local Open Scope N_scope.

Arguments N.add : simpl never.
Arguments N.sub : simpl never.

Definition rroot (st : tstate) : option wid :=
  match st with Running w _ => Some w | RunningMN (w :: _) => Some w | _ => None end.

Definition rcond (T : tid -> wid -> Prop) (t x : task) : Prop :=
  forall w, rroot (t_state x) = Some w -> rroot (t_state t) = Some w \/ T (t_id x) w.

Definition RO (T : tid -> wid -> Prop) (c c' : core) : Prop :=
  forall t' w, In t' (c_tasks c') -> rroot (t_state t') = Some w ->
    (exists t, In t (c_tasks c) /\ t_id t = t_id t' /\ rroot (t_state t) = Some w) \/ T (t_id t') w.

Section Blocks.
Variable T : tid -> wid -> Prop.

Lemma RO_refl c : RO T c c.
Proof. intros t w Hin Hw. left. exists t. auto. Qed.

Lemma RO_trans c1 c2 c3 : RO T c1 c2 -> RO T c2 c3 -> RO T c1 c3.
Proof.
  intros A B t3 w H3 Hw. destruct (B t3 w H3 Hw) as [(t2 & H2 & Ei & R2)|X]; [|right; exact X].
  destruct (A t2 w H2 R2) as [(t1 & H1 & Ei1 & R1)|Y]; [left; exists t1; split; [exact H1|]; split; [congruence | exact R1] | right; rewrite <- Ei; exact Y].
Qed.

Lemma RO_tasks c c' : c_tasks c' = c_tasks c -> RO T c c'.
Proof. intros E t w H Hw. rewrite E in H. left. exists t. auto. Qed.

Lemma RO_set c c' x t : c_tasks c' = set_task (c_tasks c) x -> In t (c_tasks c) -> t_id x = t_id t -> rcond T t x -> RO T c c'.
Proof.
  intros E Hin Ei Hc t' w H Hw. rewrite E in H. destruct (set_task_in _ _ _ H) as [->|Hin'].
  - destruct (Hc w Hw) as [X|X]; [left; exists t; auto | right; exact X].
  - left. exists t'. auto.
Qed.

(** a new task is not running *)
Lemma RO_new c c' x : c_tasks c' = set_task (c_tasks c) x -> rroot (t_state x) = None -> RO T c c'.
Proof.
  intros E Hn t' w H Hw. rewrite E in H. destruct (set_task_in _ _ _ H) as [->|Hin']; [congruence|]. left. exists t'. auto.
Qed.

Lemma RO_sub c c' : (forall t', In t' (c_tasks c') -> exists t, In t (c_tasks c) /\ t_id t = t_id t' /\ t_state t = t_state t' /\ t_inst t = t_inst t') -> RO T c c'.
Proof.
  intros H t' w Hin Hw. destruct (H t' Hin) as (t & H1 & Ei & Es & _). left. exists t. split; [exact H1|]. split; [exact Ei|]. rewrite Es. exact Hw.
Qed.
End Blocks.

Ltac ro_pre := repeat match goal with H : get_task _ _ = Ok _ |- _ => apply get_task_find in H end.
Ltac ro_cond :=
  unfold rcond; cbn [t_state t_id with_state with_inst with_crash with_consumers with_deps rroot]; intros ?w ?Hr;
  first [ discriminate | left; assumption
        | left; match goal with E : t_state _ = _ |- _ => rewrite E; cbn [rroot]; assumption end
        | right; assumption
        | match goal with H : Some _ = Some _ |- _ => injection H as <- end; right; assumption
        | auto ].
Ltac ro_set :=
  ro_pre;
  match goal with
  | H : find_task _ _ = Some ?t |- RO _ _ _ =>
      solve [ eapply (RO_set _ _ _ _ t); [ reflexivity | exact (find_in _ _ _ H) | reflexivity | ro_cond ] ]
  end.

Section Pass.
Variable T : tid -> wid -> Prop.
Notation RO_refl := (RO_refl T).
Notation RO_trans := (RO_trans T).
Notation RO_tasks := (RO_tasks T).
(** * Reactor *)
Lemma retract_states_RO ids : forall c acc c' acc', retract_states c ids acc = Ok (c', acc') -> RO T c c'.
Proof.
  induction ids as [|id r IH]; cbn [retract_states]; intros c acc c' acc' H; [inversion H; subst; apply RO_refl|].
  apply bind_ok in H. destruct H as (t & Ht & H).
  destruct (t_state t) eqn:Est; try discriminate.
  apply bind_ok in H. destruct H as (wk & Hw & H). apply bind_ok in H. destruct H as (wk' & ?X & H).
  eapply RO_trans; [|eapply IH; exact H].
  ro_set.
Qed.

Lemma process_retracted_RO s r s' : process_retracted s r = Ok s' -> RO T (core_of s) (core_of s').
Proof.
  unfold process_retracted. intros H. destruct r; [inversion H; subst; apply RO_refl|].
  apply bind_ok in H. destruct H as ([c' groups] & H1 & H). rewrite (send_all_core _ _ _ H).
  eapply retract_states_RO; exact H1.
Qed.

Lemma try_remove_redirection_RO c t c' : try_remove_redirection c t = Ok c' -> RO T c c'.
Proof.
  unfold try_remove_redirection. destruct (find_redirect _ _) as [[w rv]|]; intros H; inv_binds H; inversion H; subst;
    (apply RO_tasks; reflexivity).
Qed.

Lemma reset_mn_workers_RO ws : forall c id c', reset_mn_workers c ws id = Ok c' -> RO T c c'.
Proof.
  induction ws as [|w r IH]; cbn [reset_mn_workers]; intros c id c' H; [inversion H; subst; apply RO_refl|].
  apply bind_ok in H. destruct H as (wk & ?X & H). destruct (w_assign wk); [discriminate|].
  destruct (tid_eqb t id); [|discriminate]. eapply RO_trans; [|eapply IH; exact H]. apply RO_tasks; reflexivity.
Qed.

Lemma reset_mn_all_RO ws : forall c c', reset_mn_all c ws = Ok c' -> RO T c c'.
Proof.
  induction ws as [|w r IH]; cbn [reset_mn_all]; intros c c' H; [inversion H; subst; apply RO_refl|].
  apply bind_ok in H. destruct H as (wk & ?X & H). eapply RO_trans; [|eapply IH; exact H]. apply RO_tasks; reflexivity.
Qed.

Lemma cancel_release_RO ids : forall s tu ru s' tu' ru', cancel_release s ids tu ru = Ok (s', tu', ru') -> RO T (core_of s) (core_of s').
Proof.
  induction ids as [|id r IH]; cbn [cancel_release]; intros s tu ru s' tu' ru' H; [inversion H; subst; apply RO_refl|].
  destruct (find_task (c_tasks (core_of s)) id) as [t|]; [|eapply IH; exact H].
  apply bind_ok in H. destruct H as (csm & ?X & H). apply bind_ok in H. destruct H as (rq & ?X & H).
  destruct (t_state t).
  - eapply RO_trans; [|eapply IH; exact H]. apply RO_tasks; reflexivity.
  - inv_binds H. eapply RO_trans; [|eapply IH; exact H]. apply RO_tasks; reflexivity.
  - inv_binds H. eapply RO_trans; [|eapply IH; exact H]. apply RO_tasks; reflexivity.
  - apply bind_ok in H. destruct H as (c' & Hc' & H). eapply RO_trans; [|eapply IH; exact H].
    eapply RO_trans; [eapply try_remove_redirection_RO; exact Hc'|]. apply RO_tasks; reflexivity.
  - inv_binds H. eapply RO_trans; [|eapply IH; exact H]. apply RO_tasks; reflexivity.
  - apply bind_ok in H. destruct H as (c' & Hc' & H). destruct ws; [discriminate|]. eapply RO_trans; [|eapply IH; exact H].
    eapply RO_trans; [eapply reset_mn_all_RO; exact Hc'|]. apply RO_tasks; reflexivity.
  - discriminate.
Qed.

Lemma remove_consumer_from_T2 deps : forall ts cid ts', remove_consumer_from ts deps cid = Ok ts' ->
  forall t', In t' ts' -> exists t, In t ts /\ t_id t = t_id t' /\ t_state t = t_state t' /\ t_inst t = t_inst t'.
Proof.
  induction deps as [|d r IH]; cbn [remove_consumer_from]; intros ts cid ts' H t' Hin; [inversion H; subst; eauto|].
  destruct (find_task ts d) as [input|] eqn:Ef; [|eapply IH; eassumption].
  destruct (tid_mem cid (t_consumers input)); [|discriminate].
  destruct (IH _ _ _ H t' Hin) as (t1 & H1 & Ei & Es & En).
  destruct (set_task_in _ _ _ H1) as [->|Hin1]; [|eauto].
  exists input. split; [eapply find_in; exact Ef | auto].
Qed.

Lemma remove_task_RO c id c' stt : remove_task c id = Ok (c', stt) -> RO T c c'.
Proof.
  intros H. unfold remove_task in H. destruct (find_task (c_tasks c) id) as [t|]; [|discriminate].
  assert (R0 : forall c1, c_tasks c1 = del_task (c_tasks c) id -> RO T c c1).
  { intros c1 E. apply RO_sub. intros t' Hin. rewrite E in Hin. exists t'. split; [eapply del_task_in; exact Hin | auto]. }
  destruct (t_state t); try (inversion H; subst; apply R0; reflexivity).
  apply bind_ok in H. destruct H as (c2 & H2 & H).
  assert (T2 : c_tasks c2 = del_task (c_tasks c) id).
  { destruct (N.eqb unfinished_deps 0); [inv_binds H2|]; inversion H2; subst; auto. }
  destruct (N.ltb 0 unfinished_deps); [|inversion H; subst; apply R0; assumption].
  apply bind_ok in H. destruct H as (ts & Hr & H). inversion H; subst.
  eapply RO_trans; [apply (R0 c2); assumption|].
  apply RO_sub. intros t' Hin. eapply remove_consumer_from_T2; [exact Hr | exact Hin].
Qed.

Lemma remove_tasks_batched_RO ids : forall c c', remove_tasks_batched c ids = Ok c' -> RO T c c'.
Proof.
  induction ids as [|id r IH]; cbn [remove_tasks_batched]; intros c c' H; [inversion H; subst; apply RO_refl|].
  apply bind_ok in H. destruct H as ([c1 stt] & H1 & H). eapply RO_trans; [eapply remove_task_RO; exact H1 | eapply IH; exact H].
Qed.

Lemma remove_waiting_consumers_RO l : forall c c', remove_waiting_consumers c l = Ok c' -> RO T c c'.
Proof.
  induction l as [|id r IH]; cbn [remove_waiting_consumers]; intros c c' H; [inversion H; subst; apply RO_refl|].
  apply bind_ok in H. destruct H as ([c1 stt] & H1 & H). destruct stt; try discriminate.
  eapply RO_trans; [eapply remove_task_RO; exact H1 | eapply IH; exact H].
Qed.

Lemma on_cancel_tasks_RO s ids s' : on_cancel_tasks s ids = Ok s' -> RO T (core_of s) (core_of s').
Proof.
  intros H. unfold on_cancel_tasks in H.
  apply bind_ok in H. destruct H as ([[s1 tu] ru] & H1 & H). apply bind_ok in H. destruct H as (c' & H2 & H).
  rewrite (send_all_core _ _ _ H).
  eapply RO_trans; [eapply cancel_release_RO; exact H1 | eapply remove_tasks_batched_RO; exact H2].
Qed.

Lemma process_task_failed_core' s t ab k s' ids : process_task_failed s t ab k = Ok (s', ids) -> core_of s' = core_of s.
Proof.
  unfold process_task_failed. intros H.
  apply bind_ok in H. destruct H as (s1 & H1 & H).
  assert (C1 : core_of s1 = core_of s).
  { unfold abort_tasks in H1. destruct ab; [inversion H1; reflexivity|]. inv_binds H1.
    match goal with X : check_termination _ _ = Ok s1 |- _ => destruct (check_termination_jt _ _ _ X) as [C _]; unfold core_same in C; rewrite C end. reflexivity. }
  apply bind_ok in H. destruct H as (j & ?X & H). apply bind_ok in H. destruct H as (j1 & ?X & H).
  apply bind_ok in H. destruct H as (s2 & H2 & H).
  assert (C2 : core_of s2 = core_of s1) by (destruct (check_termination_jt _ _ _ H2) as [C _]; exact C).
  apply bind_ok in H. destruct H as (j2 & ?X & H).
  assert (Hd : forall s3, abort_tasks s2 (fst t) (non_finished_task_ids j2) = Ok s3 -> core_of s3 = core_of s2).
  { intros s3 H3. unfold abort_tasks in H3. destruct (non_finished_task_ids j2); [inversion H3; reflexivity|]. inv_binds H3.
    match goal with X : check_termination _ _ = Ok s3 |- _ => destruct (check_termination_jt _ _ _ X) as [C _]; unfold core_same in C; rewrite C end. reflexivity. }
  destruct (j_maxfails j2) as [mf|]; [|inversion H; subst; congruence].
  destruct (N.ltb mf (j_nfail j2)); [|inversion H; subst; congruence].
  apply bind_ok in H. destruct H as (s3 & H3 & H). inversion H; subst. rewrite (Hd _ H3). congruence.
Qed.

Lemma task_failed_RO s w id k s' : task_failed s w id k = Ok s' -> RO T (core_of s) (core_of s').
Proof.
  intros H. unfold task_failed in H.
  destruct (find_task (c_tasks (core_of s)) id) as [t|]; [|inversion H; subst; apply RO_refl].
  apply bind_ok in H. destruct H as (rq & ?X & H). apply bind_ok in H. destruct H as (c1 & H1 & H).
  assert (R1 : RO T (core_of s) c1).
  { destruct w as [wkr|].
    - destruct (rq_is_mn rq).
      + destruct (t_state t); try discriminate. destruct ws as [|w0 ws]; [discriminate|].
        destruct (N.eqb w0 wkr); [|discriminate]. eapply reset_mn_workers_RO; exact H1.
      + destruct (t_state t); try (inversion H1; subst; apply RO_refl).
        * destruct (negb (N.eqb wkr w)); [discriminate|]. inv_binds H1. inversion H1; subst. apply RO_tasks; reflexivity.
        * destruct (negb (N.eqb wkr w)); [discriminate|]. inv_binds H1. inversion H1; subst. apply RO_tasks; reflexivity.
        * destruct (negb (N.eqb wkr w)); [discriminate|]. eapply try_remove_redirection_RO; exact H1.
        * destruct (negb (N.eqb wkr w)); [discriminate|]. inv_binds H1. inversion H1; subst. apply RO_tasks; reflexivity.
    - destruct (is_waiting t); inversion H1; subst. apply RO_refl. }
  apply bind_ok in H. destruct H as (csm & ?X & H).
  apply bind_ok in H. destruct H as (c2 & H2 & H).
  apply bind_ok in H. destruct H as ([c3 stt] & H3 & H).
  apply bind_ok in H. destruct H as (u & ?X & H).
  apply bind_ok in H. destruct H as ([s1 cancel_ids] & H4 & H).
  pose proof (process_task_failed_core' _ _ _ _ _ _ H4) as C4. cbn in C4.
  assert (R3 : RO T (core_of s) (core_of s1)).
  { rewrite C4. eapply RO_trans; [exact R1|]. eapply RO_trans; [eapply remove_waiting_consumers_RO; exact H2 | eapply remove_task_RO; exact H3]. }
  destruct cancel_ids; [inversion H; subst; exact R3|].
  eapply RO_trans; [exact R3 | eapply on_cancel_tasks_RO; exact H].
Qed.

Lemma wake_consumers_RO csm : forall c ret c' ret', wake_consumers c csm ret = Ok (c', ret') -> RO T c c'.
Proof.
  induction csm as [|x r IH]; cbn [wake_consumers]; intros c ret c' ret' H; [inversion H; subst; apply RO_refl|].
  apply bind_ok in H. destruct H as (t & Ht & H).
  destruct (t_state t) as [n| | | | | |] eqn:Est; try discriminate. destruct (N.eqb n 0); [discriminate|].
  assert (R1 : forall qs, RO T c (with_queues (upd_task c (with_state t (Waiting (n - 1)))) qs)).
  { intros qs. ro_set. }
  destruct (N.eqb (n - 1) 0).
  - apply bind_ok in H. destruct H as ([qs rt] & ?X & H). eapply RO_trans; [apply (R1 qs) | eapply IH; exact H].
  - eapply RO_trans; [apply (R1 (c_queues c)) | eapply IH; exact H].
Qed.

Lemma task_finished_RO s w id s' b : task_finished s w id = Ok (s', b) -> RO T (core_of s) (core_of s').
Proof.
  intros H. unfold task_finished in H.
  destruct (find_task (c_tasks (core_of s)) id) as [t|] eqn:Ef; [|inversion H; subst; apply RO_refl].
  apply bind_ok in H. destruct H as (rq & ?X & H). apply bind_ok in H. destruct H as (c1 & H1 & H).
  assert (Et : c_tasks c1 = c_tasks (core_of s)).
  { destruct (t_state t); try discriminate.
    - destruct (negb (N.eqb w0 w)); [discriminate|]. inv_binds H1. inversion H1; reflexivity.
    - destruct (negb (N.eqb w0 w)); [discriminate|]. eapply try_remove_redirection_tasks; exact H1.
    - destruct (negb (N.eqb w0 w)); [discriminate|]. inv_binds H1. inversion H1; reflexivity.
    - destruct ws; [discriminate|]. destruct (N.eqb w0 w); [|discriminate]. eapply reset_mn_workers_tasks; exact H1. }
  cbv zeta in H.
  apply bind_ok in H. destruct H as (s1 & Hf & H).
  destruct (process_task_finished_active _ _ _ Hf) as [C1 _]. unfold core_same in C1. cbn in C1.
  apply bind_ok in H. destruct H as ([c3 retracted] & Hw & H).
  apply bind_ok in H. destruct H as (s2 & Hr & H).
  apply bind_ok in H. destruct H as ([c4 stt] & Hrm & H).
  destruct stt; try discriminate. inversion H; subst.
  change (RO T (core_of s) c4).
  eapply RO_trans; [apply (RO_tasks (core_of s) c1 Et)|].
  eapply RO_trans; [eapply (RO_set T c1 (upd_task c1 (with_state t Finished)) (with_state t Finished) t); [reflexivity | rewrite Et; exact (find_in _ _ _ Ef) | reflexivity | ro_cond]|].
  rewrite <- C1. eapply RO_trans; [eapply wake_consumers_RO; exact Hw|].
  eapply RO_trans; [exact (process_retracted_RO (st_core s1 c3) _ _ Hr) | eapply remove_task_RO; exact Hrm].
Qed.
End Pass.
