(** Worker-set invariant, part 9: worker updates, worker loss, client requests, [Sys.step], and the
    theorem for every history. *)
From HQ Require Import Base.Prelude Cluster.Types Cluster.Core Cluster.Reactor Cluster.Worker Cluster.Server Cluster.Sys Cluster.Monitors Cluster.RejHyp Cluster.ProofsJob Cluster.ProofsMore Cluster.ProofsTerminal Cluster.ProofsStep Cluster.ProofsFinal Cluster.BijBase Cluster.BijCore Cluster.BijHq Cluster.BijSt Cluster.BijReact Cluster.BijFinal Cluster.InvWBase Cluster.InvWView Cluster.InvWCore Cluster.InvWReact Cluster.InvWReact2 Cluster.InvWReact3 Cluster.InvWServer Cluster.InvWSched.
From Coq Require Import ZArith Lia Sorting.Sorted.
Local Open Scope N_scope.

Arguments N.add : simpl never.
Arguments N.sub : simpl never.

(** * Updates from a worker *)
Definition upd_ok (s : st) (w : wid) (u : wupdate) : Prop :=
  match u with
  | UReject t rv => reject_ok (core_of s) w t rv
  | UFailed t _ => fail_mn_ok (core_of s) t
  | _ => True
  end.

Lemma reject_fresh_ok s w u : reject_fresh s w u = true -> upd_ok s w u.
Proof.
  destruct u; cbn [reject_fresh upd_ok]; auto.
  - intros H tk ws rq Hf Est Hrq. rewrite Hf, Est in H. unfold get_rq in Hrq.
    destruct (nth_error (c_rqs (core_of s)) (N.to_nat (t_rq tk))); inversion Hrq; subst; exact H.
  - intros H tk w1 rv1 Hf Est. rewrite Hf, Est in H. apply andb_true_iff in H. destruct H as [H1 H2].
    apply N.eqb_eq in H1. split; [exact H1|]. destruct rv as [v|]; [|discriminate]. apply N.eqb_eq in H2. subst. reflexivity.
Qed.

Lemma apply_updates_WI us : forall s w need s' need',
  HOK (hq_of s) -> CB s -> WI (core_of s) -> rejects_fresh s w us = true ->
  apply_updates s w us need = Ok (s', need') -> WI (core_of s').
Proof.
  induction us as [|u r IH]; intros s w need s' need' Hok HC HW Hf H; [cbn in H; inversion H; subst; exact HW|].
  rewrite apply_updates_cons in H. apply bind_ok in H. destruct H as ([s1 n1] & Hu & H).
  cbn [rejects_fresh] in Hf. rewrite Hu in Hf. apply andb_true_iff in Hf. destruct Hf as [Hf1 Hf2].
  pose proof (reject_fresh_ok _ _ _ Hf1) as Hup.
  assert (A : HOK (hq_of s1) /\ CB s1 /\ WI (core_of s1)).
  { destruct u; cbn [apply_one upd_ok] in Hu, Hup.
    - split; [eapply task_finished_ok; eassumption|]. split; [eapply task_finished_CB; eassumption|].
      eapply task_finished_WI; [exact HW | exact (cb_s _ HC) | exact Hu].
    - apply bind_ok in Hu. destruct Hu as (sx & Hfl & Hu). inversion Hu; subst.
      split; [eapply task_failed_ok; eassumption|]. split; [eapply task_failed_CB; eassumption|].
      eapply task_failed_WI; [exact Hok | exact HC | exact HW | intros _; exact Hup | exact Hfl].
    - split; [eapply task_running_ok; eassumption|]. split.
      + destruct (task_running_spec _ _ _ _ _ _ (cb_s _ HC) Hu) as [E A]. eapply CB_frame; eassumption.
      + eapply task_running_WI; eassumption.
    - split; [eapply task_running_ok; eassumption|]. split.
      + destruct (task_running_spec _ _ _ _ _ _ (cb_s _ HC) Hu) as [E A]. eapply CB_frame; eassumption.
      + eapply task_running_WI; eassumption.
    - pose proof (task_reject_same _ _ _ _ _ _ Hu) as Hq. split; [eapply hq_same_ok; eassumption|]. split.
      + eapply CB_same; [eapply task_reject_K; [exact (cb_s _ HC) | exact Hu] | exact Hq | exact HC].
      + eapply task_reject_WI; eassumption.
    - apply bind_ok in Hu. destruct Hu as (sx & Hen & Hu). inversion Hu; subst.
      pose proof (request_enabled_same _ _ _ _ _ Hen) as Hq. split; [eapply hq_same_ok; eassumption|]. split.
      + eapply CB_same; [eapply request_enabled_K; exact Hen | exact Hq | exact HC].
      + eapply request_enabled_WI; eassumption. }
  destruct A as (Hok1 & HC1 & HW1). eapply IH; eassumption.
Qed.

Lemma on_task_update_WI s w us s' :
  HOK (hq_of s) -> CB s -> WI (core_of s) -> rejects_fresh s w us = true -> on_task_update s w us = Ok s' -> WI (core_of s').
Proof.
  intros Hok HC HW Hf H. unfold on_task_update in H. apply bind_ok in H. destruct H as ([s1 need] & Hu & H).
  pose proof (apply_updates_WI _ _ _ _ _ _ Hok HC HW Hf Hu) as W1.
  destruct (need && _); inversion H; subst; [|exact W1].
  refine (WIX_frame _ (core_of s1) _ eq_refl eq_refl eq_refl eq_refl _). exact W1.
Qed.

(** * Worker loss *)
Lemma lost_fail_running_WI l : forall s reason s',
  HOK (hq_of s) -> CB s -> WI (core_of s) -> lost_fail_running s reason l = Ok s' -> WI (core_of s').
Proof.
  induction l as [|id r IH]; cbn [lost_fail_running]; intros s reason s' Hok HC HW H; [inversion H; subst; exact HW|].
  destruct (find_task (c_tasks (core_of s)) id) as [t|] eqn:Ef; [|eapply IH; eassumption].
  destruct (find_task_some _ _ _ Ef) as [_ Hid].
  assert (Hcrash : forall t', t_id t' = t_id t -> t_consumers t' = t_consumers t -> t_state t' = t_state t ->
            HOK (hq_of (st_core s (upd_task (core_of s) t'))) /\ CB (st_core s (upd_task (core_of s) t')) /\ WI (core_of (st_core s (upd_task (core_of s) t')))).
  { intros t' Hi Hc Hst. split; [exact Hok|]. split.
    - eapply CB_same; [| |exact HC]; [|reflexivity].
      unfold K. cbn. apply (upd_task_frame (core_of s) id t); [exact (cb_s _ HC) | exact Ef | exact Hi | exact Hc].
    - change (WI (upd_task (core_of s) t')). eapply C_same; [exact HW | exact Ef | rewrite Hi; exact Hid | rewrite Hst; reflexivity]. }
  assert (Hfail : forall s0 k s1, HOK (hq_of s0) -> CB s0 -> WI (core_of s0) -> task_failed s0 None id k = Ok s1 ->
            lost_fail_running s1 reason r = Ok s' -> WI (core_of s')).
  { intros s0 k s1 Hok0 HC0 HW0 Hf Hl.
    eapply IH; [eapply task_failed_ok; eassumption | eapply task_failed_CB; eassumption | | exact Hl].
    eapply task_failed_WI; [exact Hok0 | exact HC0 | exact HW0 | intros X; exfalso; apply X; reflexivity | exact Hf]. }
  destruct (t_climit t).
  - apply bind_ok in H. destruct H as (s1 & Hf & H). eapply Hfail; eassumption.
  - destruct (reason_is_failure reason); [|eapply IH; eassumption].
    destruct (increment_crash_counter t) as [t' limit] eqn:Ei.
    assert (Hi : t_id t' = t_id t /\ t_consumers t' = t_consumers t /\ t_state t' = t_state t)
      by (unfold increment_crash_counter in Ei; inversion Ei; subst; auto).
    destruct (Hcrash t' (proj1 Hi) (proj1 (proj2 Hi)) (proj2 (proj2 Hi))) as (Hok1 & HC1 & HW1). destruct limit.
    + apply bind_ok in H. destruct H as (s1 & Hf & H). eapply Hfail; eassumption.
    + eapply IH; eassumption.
  - destruct (reason_is_failure reason); [|eapply IH; eassumption].
    destruct (increment_crash_counter t) as [t' limit] eqn:Ei.
    assert (Hi : t_id t' = t_id t /\ t_consumers t' = t_consumers t /\ t_state t' = t_state t)
      by (unfold increment_crash_counter in Ei; inversion Ei; subst; auto).
    destruct (Hcrash t' (proj1 Hi) (proj1 (proj2 Hi)) (proj2 (proj2 Hi))) as (Hok1 & HC1 & HW1). destruct limit.
    + apply bind_ok in H. destruct H as (s1 & Hf & H). eapply Hfail; eassumption.
    + eapply IH; eassumption.
Qed.

(** The release of everything the lost worker held. *)
Lemma lost_release_sn c w wk a p f a_order p_order c2 running retracted :
  WI c -> find_worker (c_workers c) w = Some wk -> w_assign wk = Sn a p f ->
  perm_of_set a_order a = true -> perm_of_set p_order p = true ->
  (do c1 <- lost_prefilled (with_workers c (del_worker (c_workers c) w)) p_order; lost_assigned c1 a_order [] []) = Ok (c2, running, retracted) ->
  WI c2.
Proof.
  intros HW Hw Ea Hpa Hpp H. apply bind_ok in H. destruct H as (c1 & H1 & H2).
  pose proof (WIX_sw _ _ HW) as Sw. destruct (find_worker_some _ _ _ Hw) as [_ Hwi].
  destruct (wi_sets _ _ _ (proj1 (proj2 (proj2 HW))) w wk a p f Hw Ea) as [Sa Sp].
  destruct (perm_of_set_spec _ _ Hpa Sa) as [Nda Ma]. destruct (perm_of_set_spec _ _ Hpp Sp) as [Ndp Mp].
  set (c0 := with_workers c (del_worker (c_workers c) w)) in *.
  assert (Sw0 : wsorted (c_workers c0)) by (apply del_worker_sorted; exact Sw).
  assert (W0 : WI (vcore c0 wk)).
  { eapply (WIX_views _ _ _ HW); [apply set_worker_sorted; exact Sw0 | exact (WIX_sr _ _ HW) | reflexivity | intros i; reflexivity | | intros i; reflexivity].
    intros x. cbn [vcore c0 c_workers upd_worker with_workers]. rewrite find_set_worker, Hwi, find_del_worker by exact Sw.
    destruct (N.eqb x w) eqn:E; [apply N.eqb_eq in E; subst x; symmetry; exact Hw | reflexivity]. }
  destruct (lost_prefilled_V _ _ _ _ _ _ _ Sw0 W0 Ea Ndp (fun i Hi => proj1 (Mp i) Hi) H1) as (Ew1 & wk1 & p1 & Hi1 & Ea1 & Hm1 & W1).
  assert (Sw1 : wsorted (c_workers c1)) by (rewrite Ew1; exact Sw0).
  destruct (lost_assigned_V _ _ _ _ _ _ _ _ _ _ _ Sw1 W1 Ea1 Nda (fun i Hi => proj1 (Ma i) Hi) H2) as (Ew2 & wk2 & a2 & f2 & Hi2 & Ea2 & Hm2 & W2).
  (* the virtual worker is empty *)
  assert (Hfree : wfree (find_worker (c_workers (vcore c2 wk2))) w).
  { intros i. unfold inA, inP, inM. rewrite <- Hwi, <- Hi1, <- Hi2, vcore_find, Ea2.
    rewrite Hm2, Hm1. split; [|split; [|reflexivity]].
    - destruct (tid_mem i a) eqn:E; [|reflexivity]. apply Ma in E. apply tid_mem_true_in in E. rewrite E. reflexivity.
    - destruct (tid_mem i p) eqn:E; [|reflexivity]. apply Mp in E. apply tid_mem_true_in in E. rewrite E. reflexivity. }
  pose proof (C_wdel _ _ W2 w Hfree) as W3.
  assert (Ew : c_workers c2 = del_worker (c_workers c) w) by (rewrite Ew2, Ew1; reflexivity).
  eapply (WIX_views _ _ _ W3); [rewrite Ew; exact Sw0 | exact (WIX_sr _ _ W2) | reflexivity | intros i; reflexivity | | intros i; reflexivity].
  intros x. cbn [vcore c_workers upd_worker with_workers].
  rewrite find_del_worker by (apply set_worker_sorted; rewrite Ew; exact Sw0).
  rewrite find_set_worker, Hi2, Hi1, Hwi. destruct (N.eqb x w) eqn:E; [|reflexivity].
  apply N.eqb_eq in E. subst x. rewrite Ew, find_del_worker by exact Sw. rewrite N.eqb_refl. reflexivity.
Qed.

Lemma on_remove_worker_WI s w reason a p t s' :
  HOK (hq_of s) -> CB s -> WI (core_of s) -> on_remove_worker s w reason a p t = Ok s' -> WI (core_of s').
Proof.
  intros Hok HC HW H. unfold on_remove_worker in H.
  destruct (find_worker (c_workers (core_of s)) w) as [wk|] eqn:Hw; [|discriminate].
  apply bind_ok in H. destruct H as ([[c2 running] retracted] & Hr & H).
  set (c := core_of s) in *.
  set (c0 := with_workers c (del_worker (c_workers c) w)) in *.
  pose proof (WIX_sw _ _ HW) as Sw.
  assert (Hs0 : CS c0) by exact (cb_s _ HC).
  assert (A2 : WI c2 /\ keys c2 = K s).
  { destruct (w_assign wk) as [sa sp sf|mt root] eqn:Ea.
    - destruct (negb _) eqn:Ep; [discriminate|]. apply negb_false_iff, andb_true_iff in Ep. destruct Ep as [Pa Pp]. split.
      + eapply (lost_release_sn c w wk); eassumption.
      + apply bind_ok in Hr. destruct Hr as (c1 & Hp & Hr).
        pose proof (lost_prefilled_frame _ _ _ Hs0 Hp) as E1.
        rewrite (lost_assigned_frame _ _ _ _ _ _ _ (CS_keys _ _ E1 Hs0) Hr). exact E1.
    - apply bind_ok in Hr. destruct Hr as (tk & Ht & Hr). apply get_task_find in Ht. cbn [c0 c_tasks with_workers] in Ht.
      destruct (find_task_some _ _ _ Ht) as [_ Hid].
      destruct (t_state tk) as [n|w1 rv1|w1|w1|w1 rv1|ws|] eqn:Est; try discriminate. destruct ws as [|w0 rest] eqn:Ews; [discriminate|].
      assert (Hpm : pl (t_state tk) = PM (w0 :: rest)) by (rewrite Est; reflexivity).
      destruct (N.eqb w w0) eqn:Ew0.
      + apply N.eqb_eq in Ew0. subst w0.
        apply bind_ok in Hr. destruct Hr as (c1 & Hc1 & Hr). apply bind_ok in Hr. destruct Hr as ([qs ret] & _ & Hr).
        inversion Hr; subst c2 running retracted. split.
        * assert (W1 : WIX (xadd x0 mt) c1).
          { eapply (C_relM_reset x0 c mt tk (w :: rest) c0 rest c1); [exact HW | reflexivity | exact Ht | exact Hpm | reflexivity | reflexivity | reflexivity
              | apply del_worker_sorted; exact Sw | | | | | exact Hc1].
            - intros x Hx. cbn [n_mem] in Hx. apply orb_false_iff in Hx. destruct Hx as [E1 _].
              cbn [c0 c_workers with_workers]. rewrite find_del_worker by exact Sw. rewrite E1. reflexivity.
            - intros x _. cbn [c0 c_workers with_workers]. rewrite find_del_worker by exact Sw. destruct (N.eqb x w); auto.
            - intros x Hx. cbn [n_mem] in Hx. cbn [c0 c_workers with_workers]. rewrite find_del_worker by exact Sw.
              destruct (N.eqb x w); [right; reflexivity | left; exact Hx].
            - intros x Hx. cbn [n_mem]. rewrite Hx. apply orb_true_r. }
          refine (WIX_frame _ (upd_task c1 (with_inst (with_state tk (Waiting 0)) (t_inst tk + 1))) _ eq_refl eq_refl eq_refl eq_refl _).
          exact (C_show _ _ W1 x0 mt (with_inst (with_state tk (Waiting 0)) (t_inst tk + 1)) ltac:(xs) ltac:(xs) Hid (or_introl eq_refl)).
        * pose proof (reset_mn_all_frame _ _ _ Hc1) as E1.
          pose proof (reset_mn_all_tasks _ _ _ Hc1) as T1.
          change (keys (upd_task c1 (with_inst (with_state tk (Waiting 0)) (t_inst tk + 1))) = K s).
          transitivity (keys c1); [|exact E1].
          apply (upd_task_frame c1 mt tk); [eapply CS_keys; [exact E1 | exact Hs0] | rewrite T1; exact Ht | reflexivity | reflexivity].
      + inversion Hr; subst c2 running retracted. split.
        * eapply (C_shrinkM x0 c HW mt tk (w0 :: rest) w); [reflexivity | exact Ht | exact Hpm | | exact Hid | reflexivity].
          unfold inM. rewrite Hw, Ea, tid_eqb_refl'. reflexivity.
        * apply (upd_task_frame c0 mt tk); [exact Hs0 | exact Ht | reflexivity | reflexivity]. }
  destruct A2 as [W2 E2].
  destruct (negb (perm_of_set t _)); [discriminate|].
  apply bind_ok in H. destruct H as (s3 & H3 & H). apply bind_ok in H. destruct H as (s4 & H4 & H).
  apply bind_ok in H. destruct H as (s6 & H6 & H). apply bind_ok in H. destruct H as (s7 & H7 & H). inversion H; subst s'.
  match type of H3 with lost_retracting ?sx _ _ = _ => set (s2 := sx) in * end.
  assert (HC2 : CB s2) by (eapply CB_same; [exact E2 | reflexivity | exact HC]).
  pose proof (lost_retracting_K _ _ _ _ (cb_s _ HC2) H3) as K3. pose proof (lost_retracting_same _ _ _ _ H3) as Q3.
  assert (HC3 : CB s3) by (eapply CB_same; [exact K3 | exact Q3 | exact HC2]).
  pose proof (process_retracted_K _ _ _ (cb_s _ HC3) H4) as K4. pose proof (process_retracted_hq _ _ _ H4) as Q4.
  assert (HC4 : CB s4) by (eapply CB_same; [exact K4 | exact Q4 | exact HC3]).
  assert (HC5 : CB (broadcast s4 (DLostWorker w))) by (eapply CB_same; [| |exact HC4]; reflexivity).
  destruct (process_worker_lost_active _ _ _ _ _ H6) as [C6 A6].
  assert (HC6 : CB s6) by (eapply CB_frame; [unfold K; rewrite C6; reflexivity | exact A6 | exact HC5]).
  assert (Hok6 : HOK (hq_of s6)).
  { eapply process_worker_lost_ok; [|exact H6]. change (HOK (hq_of s4)). unfold hq_same in Q3. rewrite Q4, Q3. exact Hok. }
  assert (W3 : WI (core_of s3)) by (eapply lost_retracting_WI; [|exact H3]; exact W2).
  pose proof (process_retracted_WI _ _ _ W3 H4) as W4.
  assert (W6 : WI (core_of s6)) by (unfold core_same in C6; rewrite C6; exact W4).
  pose proof (lost_fail_running_WI _ _ _ _ Hok6 HC6 W6 H7) as W7.
  refine (WIX_frame _ (core_of s7) _ eq_refl eq_refl eq_refl eq_refl _). exact W7.
Qed.

(** * Cancel *)
Lemma handle_cancel_WI s jid s' : HOK (hq_of s) -> CB s -> WI (core_of s) -> handle_cancel s jid = Ok s' -> WI (core_of s').
Proof.
  intros Hok HC HW H. unfold handle_cancel in H.
  destruct (find_job (hq_jobs s) jid) as [j|] eqn:Ej; [|inversion H; subst; exact HW].
  assert (Hjt : jt s jid = Some (j_tasks j)) by (unfold jt, hq_of; unfold hq_jobs in Ej; rewrite Ej; reflexivity).
  pose proof (find_job_id _ _ _ Ej) as Hid.
  pose proof (jok_sorted _ (Hok _ (find_job_in _ _ _ Ej))) as Hsj.
  assert (Hin : forall x, In x (non_finished_task_ids j) <-> fst x = jid /\ active s x).
  { intros x. rewrite (non_finished_in _ _ Hsj), Hid. split.
    - intros [Hf Ha]. split; [exact Hf|]. exists (j_tasks j). rewrite Hf. auto.
    - intros [Hf (l & Hl & Ha)]. split; [exact Hf|]. rewrite Hf, Hjt in Hl. inversion Hl; subst. exact Ha. }
  pose proof (nodup_non_finished _ Hsj) as Hnd.
  destruct (non_finished_task_ids j) as [|i0 ir] eqn:En; [inversion H; subst; exact HW|].
  rewrite <- En in *. clear En.
  apply bind_ok in H. destruct H as (s1 & H1 & H). apply bind_ok in H. destruct H as (al & _ & H).
  apply bind_ok in H. destruct H as (s2 & H2 & H). inversion H; subst s'.
  destruct (set_cancel_state_active _ _ _ _ H2) as [C2 _]. unfold core_same in C2.
  change (WI (core_of s2)). rewrite C2.
  eapply on_cancel_tasks_WI; [exact HW | exact (cb_s _ HC) | exact (cb_d _ HC) | exact Hnd | | exact H1].
  intros x y Hy Hpx Hf. apply Hin. apply Hin in Hy. split; [rewrite Hf; apply Hy | apply (cb_b _ HC); exact Hpx].
Qed.

(** * Submits *)
Lemma get_or_create_rq_WI s r : WI (core_of s) -> WI (core_of (fst (get_or_create_rq s r))).
Proof.
  intros HW. unfold get_or_create_rq. destruct (rq_index _ r 0); [exact HW|].
  refine (WIX_frame _ (core_of s) _ eq_refl eq_refl eq_refl eq_refl _). exact HW.
Qed.

Lemma submit_tail_WI s4 jid ids tasks s' :
  WI (core_of s4) ->
  (do j <- hq_get_job s4 jid 222;
   do j' <- attach_ids j ids;
   do s6 <- on_new_tasks (hq_set_job s4 j') tasks;
   submit_ok_resp s6 jid) = Ok s' -> WI (core_of s').
Proof.
  intros HW H. apply bind_ok in H. destruct H as (j & _ & H). apply bind_ok in H. destruct H as (j' & _ & H).
  apply bind_ok in H. destruct H as (s6 & H6 & H).
  pose proof (on_new_tasks_WI (hq_set_job s4 j') _ _ HW H6) as W6.
  unfold submit_ok_resp in H. apply bind_ok in H. destruct H as (jx & _ & H). inversion H; subst. exact W6.
Qed.

Lemma handle_submit_array_WI s jobsel ids entries rq prio cl tlim mf s' :
  WI (core_of s) -> handle_submit_array s jobsel ids entries rq prio cl tlim mf = Ok s' -> WI (core_of s').
Proof.
  intros HW H. unfold handle_submit_array in H.
  match type of H with (match ?x with Some _ => _ | None => _ end) = _ => destruct x end; [inversion H; subst; exact HW|].
  apply bind_ok in H. destruct H as ([acc s1] & Hr & H).
  assert (E1 : core_of s1 = core_of s).
  { destruct jobsel as [j0|].
    - destruct (find_job (hq_jobs s) j0) as [j|]; [|inversion Hr; subst; reflexivity].
      destruct (negb (j_open j)); inversion Hr; subst; reflexivity.
    - inversion Hr; subst; reflexivity. }
  destruct acc as [[[jid is_new] ids']|].
  - cbv zeta in H.
    match type of H with context [get_or_create_rq ?sx rq] => set (s3 := sx) in *; destruct (get_or_create_rq s3 rq) as [s4 rqi] eqn:Erq end.
    assert (W3 : WI (core_of s3)).
    { assert (E3 : core_of s3 = core_of s1) by (subst s3; destruct is_new; reflexivity). rewrite E3, E1. exact HW. }
    pose proof (get_or_create_rq_WI s3 rq W3) as W4. rewrite Erq in W4. cbn [fst] in W4.
    eapply (submit_tail_WI s4 jid ids'); [exact W4 | exact H].
  - assert (E2 : core_of s' = core_of s1).
    { destruct jobsel; [match type of H with (match ?x with Some _ => _ | None => _ end) = _ => destruct x end|];
        inversion H; subst; reflexivity. }
    rewrite E2, E1. exact HW.
Qed.

Lemma fold_rqs_WI rqs : forall s l s4 rqis,
  fold_left (fun acc r => let '(s, l) := acc in let '(s', i) := get_or_create_rq s r in (s', l ++ [i])) rqs (s, l) = (s4, rqis) ->
  WI (core_of s) -> WI (core_of s4).
Proof.
  induction rqs as [|r rest IH]; cbn [fold_left]; intros s l s4 rqis H HW; [inversion H; subst; exact HW|].
  destruct (get_or_create_rq s r) as [s1 i] eqn:E. eapply IH; [exact H|].
  pose proof (get_or_create_rq_WI s r HW) as W1. rewrite E in W1. exact W1.
Qed.

Lemma handle_submit_graph_WI s jobsel rqs ts mf s' :
  WI (core_of s) -> handle_submit_graph s jobsel rqs ts mf = Ok s' -> WI (core_of s').
Proof.
  intros HW H. unfold handle_submit_graph in H.
  apply bind_ok in H. destruct H as (v1 & _ & H).
  match type of H with (match ?x with Some _ => _ | None => _ end) = _ => destruct x end; [inversion H; subst; exact HW|].
  apply bind_ok in H. destruct H as ([acc s1] & Hr & H).
  assert (E1 : core_of s1 = core_of s).
  { destruct jobsel as [j0|].
    - destruct (find_job (hq_jobs s) j0) as [j|]; [|inversion Hr; subst; reflexivity].
      destruct (negb (j_open j)); inversion Hr; subst; reflexivity.
    - inversion Hr; subst; reflexivity. }
  destruct acc as [[jid is_new]|].
  - cbv zeta in H.
    match type of H with context [fold_left ?f rqs (?sx, [])] => set (s3 := sx) in *; destruct (fold_left f rqs (s3, [])) as [s4 rqis] eqn:Erq end.
    assert (W3 : WI (core_of s3)).
    { assert (E3 : core_of s3 = core_of s1) by (subst s3; destruct is_new; reflexivity). rewrite E3, E1. exact HW. }
    pose proof (fold_rqs_WI _ _ _ _ _ Erq W3) as W4.
    apply bind_ok in H. destruct H as (j & Hj & H). apply bind_ok in H. destruct H as (j' & Ha & H).
    apply bind_ok in H. destruct H as (tasks & Hg & H).
    eapply (submit_tail_WI s4 jid (map gt_id ts) tasks); [exact W4|].
    rewrite Hj. cbn [bind]. rewrite Ha. cbn [bind]. exact H.
  - inversion H; subst. rewrite E1. exact HW.
Qed.

(** * The whole system *)
Theorem step_WI s o s' outs :
  HOK (s_hq s) -> CB (s, []) -> WI (s_core s) -> step_fresh s o = true -> step s o = Ok (s', outs) -> WI (s_core s').
Proof.
  intros Hok HC HW Hf H. change (WI (core_of (s', outs))). destruct o; cbn [step] in H.
  - exact (on_new_worker_WI (s, []) _ _ _ HW H).
  - destruct (find_proc _ w); [|discriminate]. exact (on_remove_worker_WI (s, []) _ _ _ _ _ _ Hok HC HW H).
  - destruct (bad_submit_lengths _ _); [inversion H; subst; exact HW|]. exact (handle_submit_array_WI (s, []) _ _ _ _ _ _ _ _ _ HW H).
  - destruct (bad_graph_rq _ _); [inversion H; subst; exact HW|]. destruct (dead_dep _ _ _); [inversion H; subst; exact HW|]. exact (handle_submit_graph_WI (s, []) _ _ _ _ _ HW H).
  - unfold handle_open in H. inversion H; subst. exact HW.
  - unfold handle_close in H. cbn in H. destruct (find_job _ j) as [jb|]; [|inversion H; subst; exact HW].
    destruct (j_open jb); [|inversion H; subst; exact HW].
    apply bind_ok in H. destruct H as (s1 & H1 & H). inversion H; subst.
    destruct (check_termination_jt _ _ _ H1) as [C1 _]. unfold core_same in C1. change (WI (core_of s1)). rewrite C1. exact HW.
  - exact (handle_cancel_WI (s, []) _ _ Hok HC HW H).
  - unfold handle_forget in H. cbn in H. destruct (find_job _ j) as [jb|]; [|inversion H; subst; exact HW].
    apply bind_ok in H. destruct H as (na & _ & H). destruct (negb (j_open jb) && na); inversion H; subst; exact HW.
  - destruct (find_proc _ w) as [p|]; [|discriminate]. destruct (p_down p); [discriminate|].
    inv_binds H. inversion H; subst. exact HW.
  - cbn [step_fresh] in Hf.
    destruct (find_proc _ w) as [p|]; [|discriminate]. destruct (p_up p) as [|m rest]; [discriminate|].
    destruct m.
    + match type of H with on_task_update ?s1 _ _ = _ =>
        eapply (on_task_update_WI s1); [exact Hok | | exact HW | exact Hf | exact H] end.
      eapply CB_same; [| |exact HC]; reflexivity.
    + match type of H with on_retract_response ?s1 _ _ = _ => exact (on_retract_response_WI s1 _ _ _ HW H) end.
  - destruct (c_flag (s_core s)); [|discriminate]. exact (run_scheduling_WI (s, []) _ _ HW H).
  - destruct (find_proc _ w) as [p|]; [|discriminate]. inv_binds H. inversion H; subst. exact HW.
  - destruct (find_proc _ w) as [p|]; [|discriminate]. inversion H; subst. exact HW.
  - inversion H; subst. exact HW.
  - inv_binds H. inversion H; subst. exact HW.
Qed.

Theorem run_WI ops : forall s s' outs,
  HOK (s_hq s) -> fresh (s, []) -> Forall op_wf ops -> CB (s, []) -> WI (s_core s) -> run_fresh s ops = true ->
  run s ops = Ok (s', outs) -> WI (s_core s').
Proof.
  induction ops as [|o r IH]; cbn [run]; intros s s' outs Hok F Hwf HC HW Hf H; [inversion H; subst; exact HW|].
  inversion Hwf as [|? ? Hw1 Hw2]; subst.
  apply bind_ok in H. destruct H as ([s1 o1] & H1 & H). apply bind_ok in H. destruct H as ([s2 o2] & H2 & H). inversion H; subst.
  destruct (run_fresh_cons _ _ _ _ _ Hf H1) as [Hf1 Hf2].
  pose proof (step_CB _ _ _ _ Hok F Hw1 HC H1) as HC1.
  pose proof (step_hq_ok _ _ _ _ Hok H1) as Hok1.
  pose proof (G_step _ _ _ _ F H1) as G1.
  assert (F1 : fresh (s1, [])) by (apply (fresh_outs s1 o1); apply (g_fresh _ _ G1); exact F).
  pose proof (step_WI _ _ _ _ Hok HC HW Hf1 H1) as HW1.
  eapply IH; [exact Hok1 | exact F1 | exact Hw2 | eapply CB_outs; exact HC1 | exact HW1 | exact Hf2 | exact H2].
Qed.

Lemma WI_init r m : WI (s_core (init_sys r m)).
Proof.
  split; [constructor|]. split; [constructor|]. split.
  - constructor.
    + intros w wk a p f E. discriminate.
    + intros w id. reflexivity.
    + intros w id. reflexivity.
    + intros w id. reflexivity.
    + intros id H. exfalso. apply H. reflexivity.
  - intros w H. exfalso. apply H. reflexivity.
Qed.
