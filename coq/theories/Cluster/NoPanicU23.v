(** Finding F28 / invariant MNR (RetractFree.v), part 1: the relation and the reactor.
    RSN: the worker a task is being retracted from is connected and in single-node mode.
    Technique of InvWX1.v: a relation [RS c c'] between the core before and after a function -
    every task of [c'] has the id and state of a task of [c], or a state that is fine in [c']
    ("okS": for [Retracting w], worker [w] is connected and in single-node mode); workers in
    single-node mode stay so.  Every function except the multi-node placement of a scheduling round
    satisfies it (a task enters [Retracting w] only from [Prefilled w], and the function that does
    it has just removed the task from the prefill set of [w], which exists only in single-node
    mode). *)
From HQ Require Import Base.Prelude Cluster.Types Cluster.Core Cluster.Reactor Cluster.Worker Cluster.Server Cluster.Sys Cluster.ProofsJob Cluster.ProofsMore Cluster.ProofsStep Cluster.BijBase Cluster.BijCore Cluster.BijHq Cluster.BijSt Cluster.InvWBase Cluster.InvWCore Cluster.InvWX1.
From Coq Require Import ZArith Lia Sorting.Sorted.
Local Open Scope N_scope.

Arguments N.add : simpl never.
Arguments N.sub : simpl never.

Definition snk (k : sworker) : Prop := exists a p f, w_assign k = Sn a p f.
Definition snw (c : core) (w : wid) : Prop := exists wk, find_worker (c_workers c) w = Some wk /\ snk wk.
Definition RSN (c : core) : Prop :=
  forall t w, In t (c_tasks c) -> t_state t = Retracting w -> snw c w.

Definition okS (c : core) (s : tstate) : Prop :=
  match s with Retracting w => snw c w | _ => True end.
Definition JS (c : core) : Prop := forall t, In t (c_tasks c) -> okS c (t_state t).

Lemma JS_RSN c : JS c <-> RSN c.
Proof.
  split.
  - intros H t w Hin E. specialize (H t Hin). rewrite E in H. exact H.
  - intros H t Hin. destruct (t_state t) eqn:E; cbn; try exact I. exact (H t _ Hin E).
Qed.

Definition DS (c c' : core) : Prop := forall w, snw c w -> snw c' w.
Definition TS (c c' : core) : Prop :=
  forall t', In t' (c_tasks c') ->
    (exists t, In t (c_tasks c) /\ t_id t = t_id t' /\ t_state t = t_state t') \/ okS c' (t_state t').
Definition RS (c c' : core) : Prop := TS c c' /\ DS c c'.

Lemma okS_DS c c' s : DS c c' -> okS c s -> okS c' s.
Proof. intros D. destruct s; cbn; auto. Qed.

Lemma RS_refl c : RS c c.
Proof. split; [|intros w H; exact H]. intros t Hin. left. exists t. auto. Qed.

Lemma RS_trans c1 c2 c3 : RS c1 c2 -> RS c2 c3 -> RS c1 c3.
Proof.
  intros [T1 D1] [T2 D2]. split; [|intros w H; apply D2, D1, H].
  intros t3 H3. destruct (T2 t3 H3) as [(t2 & H2 & Ei & Es)|Ho].
  - destruct (T1 t2 H2) as [(t1 & H1 & Ei1 & Es1)|Ho].
    + left. exists t1. split; [exact H1|]. split; congruence.
    + right. rewrite <- Es. eapply okS_DS; eassumption.
  - right. exact Ho.
Qed.

Lemma JS_RS c c' : JS c -> RS c c' -> JS c'.
Proof.
  intros HJ [T D] t Hin. destruct (T t Hin) as [(t0 & H0 & _ & Es)|X]; [|exact X].
  rewrite <- Es. eapply okS_DS; [exact D | apply HJ; exact H0].
Qed.

(** * Building blocks: workers *)
Lemma snk_insert_sn wk id r wk' : insert_sn_task wk id r = Ok wk' -> snk wk'.
Proof. unfold insert_sn_task. destruct (w_assign wk); [|discriminate]. destruct (tid_mem _ _); [discriminate|]. intros H. inversion H. eexists _, _, _. reflexivity. Qed.
Lemma snk_insert_prefill wk id wk' : insert_prefill_task wk id = Ok wk' -> snk wk'.
Proof. unfold insert_prefill_task. destruct (w_assign wk); [|discriminate]. destruct (tid_mem _ _); [discriminate|]. intros H. inversion H. eexists _, _, _. reflexivity. Qed.
Lemma snk_remove_prefill wk id wk' : remove_prefill_task wk id = Ok wk' -> snk wk' /\ snk wk.
Proof. unfold remove_prefill_task. destruct (w_assign wk) eqn:E; [|discriminate]. destruct (tid_mem _ _); [|discriminate]. intros H. inversion H. split; eexists _, _, _; [reflexivity | exact E]. Qed.
Lemma snk_started wk id r wk' : task_from_prefilled_to_started wk id r = Ok wk' -> snk wk'.
Proof. unfold task_from_prefilled_to_started. destruct (w_assign wk); [|discriminate]. destruct (negb _); [discriminate|]. destruct (tid_mem _ _); [discriminate|]. intros H. inversion H. eexists _, _, _. reflexivity. Qed.
Lemma snk_remove_sn wk id r wk' : remove_sn_task wk id r = Ok wk' -> snk wk'.
Proof. unfold remove_sn_task. destruct (w_assign wk); [|discriminate]. destruct (tid_mem _ _); [|discriminate]. intros H. inversion H. eexists _, _, _. reflexivity. Qed.
Lemma snk_reset wk : snk (reset_mn_task wk).
Proof. eexists _, _, _. reflexivity. Qed.

Lemma DS_eq c c' : c_workers c' = c_workers c -> DS c c'.
Proof. intros E w. unfold snw. rewrite E. auto. Qed.
Lemma DS_set1 c c' k : c_workers c' = set_worker (c_workers c) k -> snk k -> DS c c'.
Proof.
  intros E Hk w (wk & Hw & Hs). unfold snw. rewrite E, find_set_worker.
  destruct (N.eqb w (w_id k)); [exists k; auto | exists wk; auto].
Qed.
(** the stored worker is replaced by one in the same mode *)
Lemma DS_set_keep c c' k k0 w : c_workers c' = set_worker (c_workers c) k -> get_worker (c_workers c) w = Ok k0 ->
  w_id k = w_id k0 -> w_assign k = w_assign k0 -> DS c c'.
Proof.
  intros E Hg Ei Ea x (wk & Hw & Hs). apply get_worker_find in Hg. destruct (find_worker_some _ _ _ Hg) as [_ E0].
  unfold snw. rewrite E, find_set_worker. destruct (N.eqb x (w_id k)) eqn:Ex; [|exists wk; auto].
  apply N.eqb_eq in Ex. exists k. split; [reflexivity|]. rewrite Ex, Ei, E0, Hg in Hw. inversion Hw; subst wk.
  destruct Hs as (a & p & f & Hs). exists a, p, f. congruence.
Qed.

Ltac snk_solve :=
  match goal with
  | |- snk (reset_mn_task _) => apply snk_reset
  | H : insert_sn_task _ _ _ = Ok ?k |- snk ?k => exact (snk_insert_sn _ _ _ _ H)
  | H : insert_prefill_task _ _ = Ok ?k |- snk ?k => exact (snk_insert_prefill _ _ _ H)
  | H : remove_prefill_task _ _ = Ok ?k |- snk ?k => exact (proj1 (snk_remove_prefill _ _ _ H))
  | H : task_from_prefilled_to_started _ _ _ = Ok ?k |- snk ?k => exact (snk_started _ _ _ _ H)
  | H : remove_sn_task _ _ _ = Ok ?k |- snk ?k => exact (snk_remove_sn _ _ _ _ H)
  | |- snk _ => eexists _, _, _; reflexivity
  end.
Ltac ds := first [apply DS_eq; reflexivity | eapply DS_set1; [reflexivity | snk_solve]
                 | eapply DS_set_keep; [reflexivity | eassumption | reflexivity | reflexivity]].

(** * Building blocks: tasks *)
Lemma RS_tasks c c' : c_tasks c' = c_tasks c -> DS c c' -> RS c c'.
Proof. intros E D. split; [|exact D]. intros t H. left. exists t. rewrite <- E. auto. Qed.

Lemma RS_set_ok c c' x : c_tasks c' = set_task (c_tasks c) x -> DS c c' -> okS c (t_state x) -> RS c c'.
Proof.
  intros E D Ho. split; [|exact D]. intros t H. rewrite E in H. destruct (set_task_in _ _ _ H) as [->|Hin].
  - right. eapply okS_DS; eassumption.
  - left. exists t. auto.
Qed.

Lemma RS_set_same c c' x t : c_tasks c' = set_task (c_tasks c) x -> DS c c' -> In t (c_tasks c) ->
  t_id x = t_id t -> t_state x = t_state t -> RS c c'.
Proof.
  intros E D Hin Ei Es. split; [|exact D]. intros t' H. rewrite E in H. destruct (set_task_in _ _ _ H) as [->|Hin'].
  - left. exists t. auto.
  - left. exists t'. auto.
Qed.

Lemma snw_get c w wk : get_worker (c_workers c) w = Ok wk -> snk wk -> snw c w.
Proof. intros H Hs. exists wk. split; [apply get_worker_find; exact H | exact Hs]. Qed.

(** * Reactor *)
Lemma retract_states_RS ids : forall c acc c' acc', retract_states c ids acc = Ok (c', acc') -> RS c c'.
Proof.
  induction ids as [|id r IH]; cbn [retract_states]; intros c acc c' acc' H; [inversion H; subst; apply RS_refl|].
  apply bind_ok in H. destruct H as (t & Ht & H).
  destruct (t_state t) eqn:Est; try discriminate.
  apply bind_ok in H. destruct H as (wk & Hw & H). apply bind_ok in H. destruct H as (wk' & H0 & H).
  eapply RS_trans; [|eapply IH; exact H].
  eapply (RS_set_ok _ _ (with_state t (Retracting w))); [reflexivity | ds | cbn; eapply snw_get; [exact Hw | exact (proj2 (snk_remove_prefill _ _ _ H0))]].
Qed.

Lemma process_retracted_RS s r s' : process_retracted s r = Ok s' -> RS (core_of s) (core_of s').
Proof.
  unfold process_retracted. intros H. destruct r; [inversion H; subst; apply RS_refl|].
  apply bind_ok in H. destruct H as ([c' groups] & H1 & H). rewrite (send_all_core _ _ _ H).
  eapply retract_states_RS; exact H1.
Qed.

Lemma try_remove_redirection_RS c t c' : try_remove_redirection c t = Ok c' -> RS c c'.
Proof.
  unfold try_remove_redirection. destruct (find_redirect _ _) as [[w rv]|]; intros H; inv_binds H; inversion H; subst;
    (apply RS_tasks; [reflexivity | ds]).
Qed.

Lemma reset_mn_workers_RS ws : forall c id c', reset_mn_workers c ws id = Ok c' -> RS c c'.
Proof.
  induction ws as [|w r IH]; cbn [reset_mn_workers]; intros c id c' H; [inversion H; subst; apply RS_refl|].
  apply bind_ok in H. destruct H as (wk & ?X & H). destruct (w_assign wk); [discriminate|].
  destruct (tid_eqb t id); [|discriminate]. eapply RS_trans; [|eapply IH; exact H]. apply RS_tasks; [reflexivity | ds].
Qed.

Lemma reset_mn_all_RS ws : forall c c', reset_mn_all c ws = Ok c' -> RS c c'.
Proof.
  induction ws as [|w r IH]; cbn [reset_mn_all]; intros c c' H; [inversion H; subst; apply RS_refl|].
  apply bind_ok in H. destruct H as (wk & ?X & H). eapply RS_trans; [|eapply IH; exact H]. apply RS_tasks; [reflexivity | ds].
Qed.

Lemma cancel_release_RS ids : forall s tu ru s' tu' ru', cancel_release s ids tu ru = Ok (s', tu', ru') -> RS (core_of s) (core_of s').
Proof.
  induction ids as [|id r IH]; cbn [cancel_release]; intros s tu ru s' tu' ru' H; [inversion H; subst; apply RS_refl|].
  destruct (find_task (c_tasks (core_of s)) id) as [t|]; [|eapply IH; exact H].
  apply bind_ok in H. destruct H as (csm & ?X & H). apply bind_ok in H. destruct H as (rq & ?X & H).
  destruct (t_state t).
  - eapply RS_trans; [|eapply IH; exact H]. apply RS_tasks; [reflexivity | ds].
  - inv_binds H. eapply RS_trans; [|eapply IH; exact H]. apply RS_tasks; [reflexivity | ds].
  - inv_binds H. eapply RS_trans; [|eapply IH; exact H]. apply RS_tasks; [reflexivity | ds].
  - apply bind_ok in H. destruct H as (c' & Hc' & H). eapply RS_trans; [|eapply IH; exact H].
    eapply RS_trans; [eapply try_remove_redirection_RS; exact Hc'|]. apply RS_tasks; [reflexivity | ds].
  - inv_binds H. eapply RS_trans; [|eapply IH; exact H]. apply RS_tasks; [reflexivity | ds].
  - apply bind_ok in H. destruct H as (c' & Hc' & H). destruct ws; [discriminate|]. eapply RS_trans; [|eapply IH; exact H].
    eapply RS_trans; [eapply reset_mn_all_RS; exact Hc'|]. apply RS_tasks; [reflexivity | ds].
  - discriminate.
Qed.


Lemma remove_task_RS c id c' stt : remove_task c id = Ok (c', stt) -> RS c c'.
Proof.
  intros H. unfold remove_task in H. destruct (find_task (c_tasks c) id) as [t|]; [|discriminate].
  assert (R0 : forall c1, c_tasks c1 = del_task (c_tasks c) id -> c_workers c1 = c_workers c -> RS c c1).
  { intros c1 E Ew. split; [|apply DS_eq; exact Ew]. intros t' Hin. rewrite E in Hin. left. exists t'. split; [eapply del_task_in; exact Hin | auto]. }
  destruct (t_state t); try (inversion H; subst; apply R0; reflexivity).
  apply bind_ok in H. destruct H as (c2 & H2 & H).
  assert (E2 : c_tasks c2 = del_task (c_tasks c) id /\ c_workers c2 = c_workers c).
  { destruct (N.eqb unfinished_deps 0); [inv_binds H2|]; inversion H2; subst; auto. }
  destruct E2 as [T2 W2].
  destruct (N.ltb 0 unfinished_deps); [|inversion H; subst; apply R0; assumption].
  apply bind_ok in H. destruct H as (ts & Hr & H). inversion H; subst.
  eapply RS_trans; [apply (R0 c2); assumption|].
  split; [|apply DS_eq; reflexivity]. intros t' Hin. left. eapply remove_consumer_from_T; [exact Hr | exact Hin].
Qed.

Lemma remove_tasks_batched_RS ids : forall c c', remove_tasks_batched c ids = Ok c' -> RS c c'.
Proof.
  induction ids as [|id r IH]; cbn [remove_tasks_batched]; intros c c' H; [inversion H; subst; apply RS_refl|].
  apply bind_ok in H. destruct H as ([c1 stt] & H1 & H). eapply RS_trans; [eapply remove_task_RS; exact H1 | eapply IH; exact H].
Qed.

Lemma remove_waiting_consumers_RS l : forall c c', remove_waiting_consumers c l = Ok c' -> RS c c'.
Proof.
  induction l as [|id r IH]; cbn [remove_waiting_consumers]; intros c c' H; [inversion H; subst; apply RS_refl|].
  apply bind_ok in H. destruct H as ([c1 stt] & H1 & H). destruct stt; try discriminate.
  eapply RS_trans; [eapply remove_task_RS; exact H1 | eapply IH; exact H].
Qed.

Lemma on_cancel_tasks_RS s ids s' : on_cancel_tasks s ids = Ok s' -> RS (core_of s) (core_of s').
Proof.
  intros H. unfold on_cancel_tasks in H.
  apply bind_ok in H. destruct H as ([[s1 tu] ru] & H1 & H). apply bind_ok in H. destruct H as (c' & H2 & H).
  rewrite (send_all_core _ _ _ H).
  eapply RS_trans; [eapply cancel_release_RS; exact H1 | eapply remove_tasks_batched_RS; exact H2].
Qed.


Lemma task_failed_RS s w id k s' : task_failed s w id k = Ok s' -> RS (core_of s) (core_of s').
Proof.
  intros H. unfold task_failed in H.
  destruct (find_task (c_tasks (core_of s)) id) as [t|]; [|inversion H; subst; apply RS_refl].
  apply bind_ok in H. destruct H as (rq & ?X & H). apply bind_ok in H. destruct H as (c1 & H1 & H).
  assert (R1 : RS (core_of s) c1).
  { destruct w as [wkr|].
    - destruct (rq_is_mn rq).
      + destruct (t_state t); try discriminate. destruct ws as [|w0 ws]; [discriminate|].
        destruct (N.eqb w0 wkr); [|discriminate]. eapply reset_mn_workers_RS; exact H1.
      + destruct (t_state t); try (inversion H1; subst; apply RS_refl).
        * destruct (negb (N.eqb wkr w)); [discriminate|]. inv_binds H1. inversion H1; subst. apply RS_tasks; [reflexivity | ds].
        * destruct (negb (N.eqb wkr w)); [discriminate|]. inv_binds H1. inversion H1; subst. apply RS_tasks; [reflexivity | ds].
        * destruct (negb (N.eqb wkr w)); [discriminate|]. eapply try_remove_redirection_RS; exact H1.
        * destruct (negb (N.eqb wkr w)); [discriminate|]. inv_binds H1. inversion H1; subst. apply RS_tasks; [reflexivity | ds].
    - destruct (is_waiting t); inversion H1; subst. apply RS_refl. }
  apply bind_ok in H. destruct H as (csm & ?X & H).
  apply bind_ok in H. destruct H as (c2 & H2 & H).
  apply bind_ok in H. destruct H as ([c3 stt] & H3 & H).
  apply bind_ok in H. destruct H as (u & ?X & H).
  apply bind_ok in H. destruct H as ([s1 cancel_ids] & H4 & H).
  pose proof (process_task_failed_core' _ _ _ _ _ _ H4) as C4. cbn in C4.
  assert (R3 : RS (core_of s) (core_of s1)).
  { rewrite C4. eapply RS_trans; [exact R1|]. eapply RS_trans; [eapply remove_waiting_consumers_RS; exact H2 | eapply remove_task_RS; exact H3]. }
  destruct cancel_ids; [inversion H; subst; exact R3|].
  eapply RS_trans; [exact R3 | eapply on_cancel_tasks_RS; exact H].
Qed.

Lemma wake_consumers_RS csm : forall c ret c' ret', wake_consumers c csm ret = Ok (c', ret') -> RS c c'.
Proof.
  induction csm as [|x r IH]; cbn [wake_consumers]; intros c ret c' ret' H; [inversion H; subst; apply RS_refl|].
  apply bind_ok in H. destruct H as (t & Ht & H).
  destruct (t_state t) as [n| | | | | |]; try discriminate. destruct (N.eqb n 0); [discriminate|].
  assert (R1 : forall qs, RS c (with_queues (upd_task c (with_state t (Waiting (n - 1)))) qs)).
  { intros qs. eapply (RS_set_ok _ _ (with_state t (Waiting (n - 1)))); [reflexivity | ds | exact I]. }
  destruct (N.eqb (n - 1) 0).
  - apply bind_ok in H. destruct H as ([qs rt] & ?X & H). eapply RS_trans; [apply (R1 qs) | eapply IH; exact H].
  - eapply RS_trans; [apply (R1 (c_queues c)) | eapply IH; exact H].
Qed.

Lemma task_finished_RS s w id s' b : task_finished s w id = Ok (s', b) -> RS (core_of s) (core_of s').
Proof.
  intros H. unfold task_finished in H.
  destruct (find_task (c_tasks (core_of s)) id) as [t|]; [|inversion H; subst; apply RS_refl].
  apply bind_ok in H. destruct H as (rq & ?X & H). apply bind_ok in H. destruct H as (c1 & H1 & H).
  assert (R1 : RS (core_of s) c1).
  { destruct (t_state t); try discriminate.
    - destruct (negb (N.eqb w0 w)); [discriminate|]. inv_binds H1. inversion H1; subst. apply RS_tasks; [reflexivity | ds].
    - destruct (negb (N.eqb w0 w)); [discriminate|]. eapply try_remove_redirection_RS; exact H1.
    - destruct (negb (N.eqb w0 w)); [discriminate|]. inv_binds H1. inversion H1; subst. apply RS_tasks; [reflexivity | ds].
    - destruct ws; [discriminate|]. destruct (N.eqb w0 w); [|discriminate]. eapply reset_mn_workers_RS; exact H1. }
  cbv zeta in H.
  apply bind_ok in H. destruct H as (s1 & Hf & H).
  destruct (process_task_finished_active _ _ _ Hf) as [C1 _]. unfold core_same in C1. cbn in C1.
  apply bind_ok in H. destruct H as ([c3 retracted] & Hw & H).
  apply bind_ok in H. destruct H as (s2 & Hr & H).
  apply bind_ok in H. destruct H as ([c4 stt] & Hrm & H).
  destruct stt; try discriminate. inversion H; subst.
  change (RS (core_of s) c4).
  eapply RS_trans; [exact R1|].
  eapply RS_trans; [eapply (RS_set_ok c1 (upd_task c1 (with_state t Finished)) (with_state t Finished)); [reflexivity | ds | exact I]|].
  rewrite <- C1. eapply RS_trans; [eapply wake_consumers_RS; exact Hw|].
  eapply RS_trans; [exact (process_retracted_RS (st_core s1 c3) _ _ Hr) | eapply remove_task_RS; exact Hrm].
Qed.
