(** C01, "start before finish", with "no back to waiting in between" in its observable form.

    [finished_after_started_no_loss]: in the output of every history of the system model
    (hypotheses: [op_wf] and the executable [run_fresh], under which the invariants of a reachable
    state [InvBundle.reachable_INV] were proved) every [EvFinished t] is preceded by an
    [EvStarted t i ws rv] such that, between that start and the finish, there is
      - no further start of [t] (it is the LAST start),
      - no terminal event (finished / failed / canceled / aborted) naming [t],
      - no [EvWLost w] of the ROOT worker [w] = head of [ws] of that start.
    In the model (as in the code) a task goes back to waiting only in [process_worker_lost], which
    emits [EvWLost w]; the tasks it resets are those the core shows running with root [w].  So the
    third clause says: the task the finish is reported for was never put back to waiting after the
    start the finish belongs to.  This is the model-level proof of what the trace monitor
    [Monitors.finish_after_start] checks on the implementation (minus its launcher clause).

    The hypothesis-free theorem [StartFin.finished_after_started] ([FAS]) is the part that needs
    no invariant of the core; [FAS2_FAS] shows [FAS2] implies it. *)
From HQ Require Import Base.Prelude Cluster.Types Cluster.Core Cluster.Reactor Cluster.Worker Cluster.Server Cluster.Sys Cluster.Monitors Cluster.RejHyp Cluster.ProofsJob Cluster.ProofsMore Cluster.ProofsFinal Cluster.BijBase Cluster.BijFinal Cluster.InvQStep Cluster.InvAll Cluster.InvBundle Cluster.ProofsOnce Cluster.StartFinBase Cluster.StartFin2Base Cluster.StartFin2Step.
From Coq Require Import ZArith Lia.
Local Open Scope N_scope.

Lemma IQ_init reserve maxfill : IQ (init_sys reserve maxfill, []) [].
Proof. split; [apply FAS2c_nil | intros t Ht; discriminate]. Qed.

Lemma along_INV ops reserve maxfill :
  Forall op_wf ops -> run_fresh (init_sys reserve maxfill) ops = true -> along INV (init_sys reserve maxfill) ops.
Proof.
  intros Hwf Hf.
  eapply (along_reach INV reserve maxfill) with (pre := []); [| constructor | reflexivity | reflexivity | exact Hwf | exact Hf].
  intros ops0 s0 outs0 Hw0 Hf0 Hr0. eapply reachable_INV; eassumption.
Qed.

(** C01, start before finish, no loss of the root worker in between. *)
Theorem finished_after_started_no_loss ops reserve maxfill s outs :
  Forall op_wf ops -> run_fresh (init_sys reserve maxfill) ops = true ->
  run (init_sys reserve maxfill) ops = Ok (s, outs) -> FAS2 outs.
Proof.
  intros Hwf Hf H. apply FAS2c_FAS2.
  destruct (run_IQ _ _ _ _ _ (along_INV _ _ _ Hwf Hf) (IQ_init reserve maxfill) H) as [HF _].
  cbn [snd app] in HF. rewrite app_nil_r in HF. exact HF.
Qed.

(** Unfolded. *)
Corollary finished_after_started_no_loss_unfolded ops reserve maxfill s outs pre t post :
  Forall op_wf ops -> run_fresh (init_sys reserve maxfill) ops = true ->
  run (init_sys reserve maxfill) ops = Ok (s, outs) ->
  outs = pre ++ [OEv (EvFinished t)] ++ post ->
  exists a i ws rv w b, pre = a ++ [OEv (EvStarted t i ws rv)] ++ b /\ hd_error ws = Some w /\
    (forall i' ws' rv', ~ In (OEv (EvStarted t i' ws' rv')) b) /\
    ~ In t (terminal_ids b) /\
    (forall r, ~ In (OEv (EvWLost w r)) b).
Proof.
  intros Hwf Hf H E. destruct (finished_after_started_no_loss _ _ _ _ _ Hwf Hf H pre t post E) as (w & a & i & ws & rv & b & X).
  exists a, i, ws, rv, w, b. exact X.
Qed.

(** The executable form. *)
Corollary finished_after_started_no_loss_check ops reserve maxfill s outs :
  Forall op_wf ops -> run_fresh (init_sys reserve maxfill) ops = true ->
  run (init_sys reserve maxfill) ops = Ok (s, outs) -> fas2_check outs = true.
Proof. intros Hwf Hf H. apply fas2_check_spec. eapply finished_after_started_no_loss; eassumption. Qed.

(** The state half: a task the job layer shows Running at the end of the history has a current
    start (last start, no terminal event and no loss of its root worker after it), and every task
    record with its id in the core is running with that root worker. *)
Theorem running_has_current_start ops reserve maxfill s outs t :
  Forall op_wf ops -> run_fresh (init_sys reserve maxfill) ops = true ->
  run (init_sys reserve maxfill) ops = Ok (s, outs) ->
  task_state (s, []) t = Some JR ->
  exists w, live2 outs t w /\
    forall tk, find_task (c_tasks (s_core s)) t = Some tk ->
      (exists rv, t_state tk = Running w rv) \/ (exists rest, t_state tk = RunningMN (w :: rest)).
Proof.
  intros Hwf Hf H Ht.
  destruct (run_IQ _ _ _ _ _ (along_INV _ _ _ Hwf Hf) (IQ_init reserve maxfill) H) as [_ HL].
  destruct (HL t Ht) as (w & Hc & Hr). cbn [snd app] in Hc. rewrite app_nil_r in Hc.
  exists w. split; [apply cur_live2; exact Hc|].
  intros tk Hfk. pose proof (root_state _ _ _ _ Hr Hfk) as Hrk.
  assert (HI : INV s) by (eapply reachable_INV; eassumption).
  destruct (jr_in_core s [] t HI Ht) as (tk' & Hf' & Hnf). change (core_of (s, [])) with (s_core s) in Hfk. rewrite Hfk in Hf'. inversion Hf'; subst tk'.
  destruct (t_state tk) as [n|w1 rv1|w1|w1|w1 rv1|ws|]; cbn in Hrk; try contradiction.
  - left. exists rv1. rewrite Hrk. reflexivity.
  - destruct ws as [|w1 rest]; [contradiction|]. right. exists rest. rewrite Hrk. reflexivity.
Qed.

(** * Non-vacuity *)

(** A task is started on worker 1, worker 1 is lost, the task is started again on worker 2 and
    finishes there. *)
Definition restart_ops : list op :=
  [OpConnect [20000; 0; 0] 0; OpConnect [20000; 0; 0] 0;
   OpSubmit None [] None once_rq 0%Z CUnl false None;
   OpSched (mkSol [(0, 0, [(1, 1)])] [] [1; 2] []);
   OpDDown 1 []; OpDDown 1 []; OpDDown 1 []; OpDUp 1;
   OpLost 1 1 [(1, 0)] [] [(1, 0)];
   OpSched (mkSol [(0, 0, [(2, 1)])] [] [2] []);
   OpDDown 2 []; OpDDown 2 []; OpDDown 2 []; OpDUp 2; OpEnd 2 (1, 0) EndOk; OpDUp 2].

Example fas2_example : Forall op_wf restart_ops /\ run_fresh (init_sys 0 2) restart_ops = true /\
  exists s outs, run (init_sys 0 2) restart_ops = Ok (s, outs)
  /\ filter (fun x => match x with OEv _ => true | _ => false end) outs =
       [OEv (EvWConn 1); OEv (EvWConn 2); OEv (EvSubmit 1 true 1);
        OEv (EvStarted (1, 0) 0 [1] 0); OEv (EvWLost 1 1);
        OEv (EvStarted (1, 0) 1 [2] 0); OEv (EvFinished (1, 0)); OEv (EvCompleted 1)]
  /\ fas2_check outs = true.
Proof.
  split; [repeat constructor|]. split; [vm_compute; reflexivity|].
  do 2 eexists. split; [vm_compute; reflexivity|]. split; vm_compute; reflexivity.
Qed.

(** The check distinguishes: a finish after the loss of the start's root worker is rejected (it is
    accepted by the weaker [fas_check]); the loss of another worker, or a restart, is fine. *)
Example fas2_check_rejects :
  fas2_check [OEv (EvStarted (1, 0) 0 [1] 0); OEv (EvWLost 1 1); OEv (EvFinished (1, 0))] = false
  /\ fas_check [OEv (EvStarted (1, 0) 0 [1] 0); OEv (EvWLost 1 1); OEv (EvFinished (1, 0))] = true
  /\ fas2_check [OEv (EvStarted (1, 0) 0 [1] 0); OEv (EvWLost 2 1); OEv (EvFinished (1, 0))] = true
  /\ fas2_check [OEv (EvStarted (1, 0) 0 [1; 2] 0); OEv (EvWLost 2 1); OEv (EvFinished (1, 0))] = true
  /\ fas2_check [OEv (EvStarted (1, 0) 0 [1; 2] 0); OEv (EvWLost 1 1); OEv (EvFinished (1, 0))] = false
  /\ fas2_check [OEv (EvStarted (1, 0) 0 [1] 0); OEv (EvWLost 1 1); OEv (EvStarted (1, 0) 1 [2] 0); OEv (EvFinished (1, 0))] = true
  /\ fas2_check [OEv (EvStarted (1, 0) 0 [1] 0); OEv (EvAborted [(1, 0)]); OEv (EvFinished (1, 0))] = false
  /\ fas2_check [OEv (EvFinished (1, 0))] = false.
Proof. vm_compute. repeat split; reflexivity. Qed.

Print Assumptions finished_after_started_no_loss.
Print Assumptions running_has_current_start.
Print Assumptions fas2_check_spec.
