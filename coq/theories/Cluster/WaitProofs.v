(** * Proofs about the yield-point model of a waiting client connection (C13, last sentence) *)
From HQ Require Import Base.Prelude.
From HQ Require Import Cluster.WaitModel.
Require Import ZifyBool ZifyN ZifyNat.
Local Open Scope N_scope.
Arguments N.add : simpl never.
Arguments N.sub : simpl never.
Arguments N.eqb : simpl never.
Arguments N.ltb : simpl never.
Arguments N.leb : simpl never.
Arguments N.max : simpl never.

(** ** List facts *)
Notation cnt_e := (count_occ ev_eq_dec).
Notation cnt_m := (count_occ msg_eq_dec).

Lemma filter_all {A} (f : A -> bool) l : (forall x, In x l -> f x = true) -> filter f l = l.
Proof.
  induction l as [|a l IH]; intros H; cbn; [reflexivity|].
  rewrite (H a (or_introl eq_refl)), IH; auto. intros x Hx; apply H; right; exact Hx.
Qed.

Lemma filter_none {A} (f : A -> bool) l : (forall x, In x l -> f x = false) -> filter f l = [].
Proof.
  induction l as [|a l IH]; intros H; cbn; [reflexivity|].
  rewrite (H a (or_introl eq_refl)), IH; auto. intros x Hx; apply H; right; exact Hx.
Qed.

Lemma cnt_repeat_eq (e : ev) n : cnt_e (repeat e n) e = n.
Proof. induction n as [|n IH]; cbn; [reflexivity|]. destruct (ev_eq_dec e e); [now rewrite IH|congruence]. Qed.

Lemma cnt_repeat_neq (e x : ev) n : e <> x -> cnt_e (repeat e n) x = 0%nat.
Proof. intros H; induction n as [|n IH]; cbn; [reflexivity|]. destruct (ev_eq_dec e x); [congruence|exact IH]. Qed.

Lemma NoDup_snoc {A} (l : list A) x : NoDup l -> ~ In x l -> NoDup (l ++ [x]).
Proof.
  induction l as [|a l IH]; intros Hn Hx; cbn.
  - constructor; [intros []|constructor].
  - inversion Hn as [|? ? Ha Hl]; subst. constructor.
    + rewrite in_app_iff; intros [H|[H|[]]]; [exact (Ha H)|]. apply Hx; left; symmetry; exact H.
    + apply IH; [exact Hl|]. intros H; apply Hx; right; exact H.
Qed.

(** ** The invariant of the current code *)
Definition pc_lid (p : pc) : option lid :=
  match p with PcStream i | PcFlushReg i _ => Some i | _ => None end.
Definition is_req (p : pc) : bool :=
  match p with PcSubmitReq _ _ _ | PcStreamReq _ => true | _ => false end.

Lemma rx_alive_lid p : rx_alive p = match pc_lid p with Some _ => true | None => false end.
Proof. destruct p; reflexivity. Qed.

Record CONN_OK (ls : list listener) (log : list ev) (c : conn) (r : connrec) : Prop := mkCO {
  co_lst : forall i, pc_lid (c_pc r) = Some i ->
           exists l, In l ls /\ l_chan l = c /\ l_id l = i /\
                     (forall j, c_job r = Some j -> fcheck (l_filter l) (WvCompleted j) = true);
  co_cnt : forall j i, c_job r = Some j -> pc_lid (c_pc r) = Some i ->
           cnt_e log (WvCompleted j)
           = (cnt_e (c_queue r) (WvCompleted j) + cnt_m (c_sent r) (MEvent (WvCompleted j)))%nat;
  co_req : is_req (c_pc r) = true -> c_queue r = [] /\ c_sent r = [] /\ c_job r = None;
  co_done : forall j, c_job r = Some j -> c_pc r = PcDone -> c_closed r = true;
  co_nopre : forall f m, c_pc r <> PcFlushPre f m;
  co_resp : forall i m, c_pc r = PcFlushReg i m -> exists j w, m = MResp j w
}.

Record LS_OK (ls : list listener) (cs : conn -> option connrec) : Prop := mkLO {
  lo_ids : NoDup (map l_id ls);
  lo_chans : NoDup (map l_chan ls);
  lo_owner : forall l, In l ls -> exists r, cs (l_chan l) = Some r /\ pc_lid (c_pc r) = Some (l_id l)
}.

Definition G_conn (s : wstate) : Prop :=
  LS_OK (w_listeners s) (w_conns s)
  /\ forall c r, w_conns s c = Some r -> CONN_OK (w_listeners s) (w_log s) c r.

Lemma no_listener_without_rx ls cs c r :
  LS_OK ls cs -> cs c = Some r -> pc_lid (c_pc r) = None -> forall l, In l ls -> l_chan l <> c.
Proof.
  intros HL Hc Hn l Hl E. destruct (lo_owner _ _ HL l Hl) as (r' & Hr' & Hp).
  rewrite E, Hc in Hr'. inversion Hr'; subst. congruence.
Qed.

Lemma no_listener_without_conn ls cs c :
  LS_OK ls cs -> cs c = None -> forall l, In l ls -> l_chan l <> c.
Proof.
  intros HL Hc l Hl E. destruct (lo_owner _ _ HL l Hl) as (r' & Hr' & Hp).
  rewrite E, Hc in Hr'. discriminate.
Qed.

Lemma filter_hits_unique e c ls l :
  NoDup (map l_chan ls) -> In l ls -> l_chan l = c ->
  filter (hits e c) ls = if fcheck (l_filter l) e then [l] else [].
Proof.
  induction ls as [|a ls IH]; intros Hn Hl Hc; [destruct Hl|].
  cbn [map] in Hn. inversion Hn as [|? ? Ha Hn']; subst. cbn [filter].
  destruct Hl as [->|Hl].
  - unfold hits at 1. rewrite N.eqb_refl, andb_true_r.
    rewrite (filter_none (hits e (l_chan l)) ls).
    + destruct (fcheck (l_filter l) e); reflexivity.
    + intros x Hx. unfold hits. destruct (l_chan x =? l_chan l) eqn:E; [|apply andb_false_r].
      apply N.eqb_eq in E. exfalso; apply Ha. rewrite <- E. apply in_map; exact Hx.
  - assert (Hne : l_chan a <> l_chan l).
    { intros E. apply Ha. rewrite E. apply in_map; exact Hl. }
    unfold hits at 1. apply N.eqb_neq in Hne. rewrite Hne, andb_false_r. apply IH; auto.
Qed.

(** *** [forward] keeps the connection invariant, for every event *)
Lemma forward_listeners e s : G_conn s -> w_listeners (forward e s) = w_listeners s.
Proof.
  intros [HL _]. cbn [forward w_listeners]. apply filter_all. intros l Hl.
  destruct (lo_owner _ _ HL l Hl) as (r & Hr & Hp). unfold conn_alive. rewrite Hr, rx_alive_lid, Hp.
  apply orb_true_r.
Qed.

Lemma forward_G_conn e s : G_conn s -> G_conn (forward e s).
Proof.
  intros HG. pose proof (forward_listeners e s HG) as EL. destruct HG as [HL HC]. split.
  - rewrite EL. constructor; [apply (lo_ids _ _ HL)|apply (lo_chans _ _ HL)|].
    intros l Hl. destruct (lo_owner _ _ HL l Hl) as (r & Hr & Hp).
    cbn [forward w_conns]. rewrite Hr. destruct (rx_alive (c_pc r)); eexists; split; try reflexivity; exact Hp.
  - intros c r2 Hr2. rewrite EL. cbn [forward w_conns w_log] in *.
    destruct (w_conns s c) as [r|] eqn:Hr; [|discriminate].
    specialize (HC c r Hr). destruct (rx_alive (c_pc r)) eqn:Ha.
    + inversion Hr2; subst r2; clear Hr2. constructor; cbn [c_pc c_job c_queue c_sent c_closed].
      * apply (co_lst _ _ _ _ HC).
      * intros j i Hj Hi. rewrite !count_occ_app. rewrite (co_cnt _ _ _ _ HC j i Hj Hi).
        destruct (co_lst _ _ _ _ HC i Hi) as (l & Hl & Hlc & Hli & Hf).
        rewrite (filter_hits_unique e c _ l (lo_chans _ _ HL) Hl Hlc).
        destruct (ev_eq_dec e (WvCompleted j)) as [->|Hne].
        -- rewrite (Hf j Hj). cbn [length repeat count_occ]. destruct (ev_eq_dec (WvCompleted j) (WvCompleted j)); [lia|congruence].
        -- rewrite (cnt_repeat_neq e _ _ Hne). cbn [count_occ]. destruct (ev_eq_dec e (WvCompleted j)); [congruence|lia].
      * intros Hq. destruct (c_pc r); discriminate.
      * apply (co_done _ _ _ _ HC).
      * apply (co_nopre _ _ _ _ HC).
      * apply (co_resp _ _ _ _ HC).
    + inversion Hr2; subst r2; clear Hr2. constructor.
      * apply (co_lst _ _ _ _ HC).
      * intros j i Hj Hi. rewrite rx_alive_lid, Hi in Ha. discriminate.
      * apply (co_req _ _ _ _ HC).
      * apply (co_done _ _ _ _ HC).
      * apply (co_nopre _ _ _ _ HC).
      * apply (co_resp _ _ _ _ HC).
Qed.

(** *** Structural lemmas: updating a connection, registering, unregistering *)
Lemma G_conn_ext s s' :
  w_listeners s' = w_listeners s -> w_conns s' = w_conns s -> w_log s' = w_log s -> G_conn s -> G_conn s'.
Proof. unfold G_conn. intros -> -> ->. auto. Qed.

Lemma CONN_OK_incl ls ls' log c r :
  (forall x, In x ls -> In x ls') -> CONN_OK ls log c r -> CONN_OK ls' log c r.
Proof.
  intros Hi HC. constructor.
  - intros i Hp. destruct (co_lst _ _ _ _ HC i Hp) as (l & Hl & H). exists l; split; [apply Hi; exact Hl|exact H].
  - apply (co_cnt _ _ _ _ HC).
  - apply (co_req _ _ _ _ HC).
  - apply (co_done _ _ _ _ HC).
  - apply (co_nopre _ _ _ _ HC).
  - apply (co_resp _ _ _ _ HC).
Qed.

Lemma CONN_OK_same ls log c r r' :
  c_pc r' = c_pc r -> c_queue r' = c_queue r -> c_sent r' = c_sent r -> c_job r' = c_job r ->
  (c_closed r = true -> c_closed r' = true) ->
  CONN_OK ls log c r -> CONN_OK ls log c r'.
Proof.
  intros Ep Eq Es Ej Ec HC. constructor; rewrite ?Ep, ?Eq, ?Es, ?Ej.
  - apply (co_lst _ _ _ _ HC).
  - apply (co_cnt _ _ _ _ HC).
  - apply (co_req _ _ _ _ HC).
  - intros j Hj Hd. apply Ec. apply (co_done _ _ _ _ HC j Hj Hd).
  - apply (co_nopre _ _ _ _ HC).
  - apply (co_resp _ _ _ _ HC).
Qed.

Lemma set_conn_G_conn_gen c r' s :
  G_conn s ->
  (forall l, In l (w_listeners s) -> l_chan l = c -> pc_lid (c_pc r') = Some (l_id l)) ->
  CONN_OK (w_listeners s) (w_log s) c r' -> G_conn (set_conn c r' s).
Proof.
  intros [HL HC] Hown Hok. split; cbn [set_conn w_listeners w_conns w_log].
  - constructor; [apply (lo_ids _ _ HL)|apply (lo_chans _ _ HL)|].
    intros l Hl. destruct (l_chan l =? c) eqn:E.
    + apply N.eqb_eq in E. eexists; split; [reflexivity|]. apply Hown; assumption.
    + apply (lo_owner _ _ HL l Hl).
  - intros c' r2. destruct (c' =? c) eqn:E.
    + apply N.eqb_eq in E; subst c'. intros H; inversion H; subst. exact Hok.
    + apply HC.
Qed.

Lemma set_conn_G_conn c r r' s :
  G_conn s -> w_conns s c = Some r -> pc_lid (c_pc r') = pc_lid (c_pc r) ->
  CONN_OK (w_listeners s) (w_log s) c r' -> G_conn (set_conn c r' s).
Proof.
  intros HG Hr Hp Hok. apply set_conn_G_conn_gen; auto.
  intros l Hl Hc. destruct HG as [HL _]. destruct (lo_owner _ _ HL l Hl) as (r0 & Hr0 & Hp0).
  rewrite Hc, Hr in Hr0. inversion Hr0; subst. congruence.
Qed.

Lemma max_lid_ge ls l : In l ls -> l_id l <= max_lid ls.
Proof.
  unfold max_lid. induction ls as [|a ls IH]; intros H; [destruct H|]. cbn [map fold_right].
  destruct H as [->|H]; [lia|]. specialize (IH H). lia.
Qed.

Lemma register_ok cf flt c s i s2 :
  cf_id_max cf = true -> register cf flt c s = Ok (i, s2) ->
  i = max_lid (w_listeners s) + 1 /\ s2 = set_listeners (w_listeners s ++ [mkL i flt c]) s.
Proof.
  unfold register, next_lid. intros ->. destruct (u32_max <? _); [discriminate|].
  intros H; inversion H; subst. split; reflexivity.
Qed.

Lemma register_G_conn cf flt c r r' i s2 s :
  cf_id_max cf = true -> G_conn s -> w_conns s c = Some r -> pc_lid (c_pc r) = None ->
  register cf flt c s = Ok (i, s2) -> pc_lid (c_pc r') = Some i ->
  CONN_OK (w_listeners s2) (w_log s) c r' -> G_conn (set_conn c r' s2).
Proof.
  intros Hcf [HL HC] Hr Hp Hreg Hp' Hok.
  destruct (register_ok _ _ _ _ _ _ Hcf Hreg) as [Hi ->].
  cbn [set_listeners w_listeners] in Hok.
  pose proof (no_listener_without_rx _ _ _ _ HL Hr Hp) as Hnc.
  split; cbn [set_conn set_listeners w_listeners w_conns w_log].
  - constructor.
    + rewrite map_app. cbn [map l_id]. apply NoDup_snoc; [apply (lo_ids _ _ HL)|].
      intros Hin. apply in_map_iff in Hin. destruct Hin as (l & Hli & Hl).
      pose proof (max_lid_ge _ _ Hl). lia.
    + rewrite map_app. cbn [map l_chan]. apply NoDup_snoc; [apply (lo_chans _ _ HL)|].
      intros Hin. apply in_map_iff in Hin. destruct Hin as (l & Hlc & Hl). exact (Hnc l Hl Hlc).
    + intros l Hl. apply in_app_iff in Hl. destruct Hl as [Hl|[<-|[]]].
      * pose proof (Hnc l Hl) as Hne. apply N.eqb_neq in Hne. rewrite Hne. apply (lo_owner _ _ HL l Hl).
      * cbn [l_chan l_id]. rewrite N.eqb_refl. eexists; split; [reflexivity|exact Hp'].
  - intros c' r2. destruct (c' =? c) eqn:E.
    + apply N.eqb_eq in E; subst c'. intros H; inversion H; subst. exact Hok.
    + intros H. apply (CONN_OK_incl (w_listeners s)); [|apply HC; exact H].
      intros x Hx. apply in_app_iff; left; exact Hx.
Qed.

Lemma remove_first_split i ls ls' :
  remove_first i ls = Some ls' -> exists a l b, ls = a ++ l :: b /\ ls' = a ++ b /\ l_id l = i.
Proof.
  revert ls'. induction ls as [|x ls IH]; intros ls' H; [discriminate|]. cbn [remove_first] in H.
  destruct (l_id x =? i) eqn:E.
  - inversion H; subst. exists [], x, ls'. apply N.eqb_eq in E. auto.
  - destruct (remove_first i ls) as [r|]; [|discriminate]. inversion H; subst.
    destruct (IH r eq_refl) as (a & l & b & -> & -> & Hl). exists (x :: a), l, b. auto.
Qed.

Lemma remove_first_some i ls l : In l ls -> l_id l = i -> exists ls', remove_first i ls = Some ls'.
Proof.
  induction ls as [|x ls IH]; intros Hl Hi; [destruct Hl|]. cbn [remove_first].
  destruct (l_id x =? i) eqn:E; [eauto|].
  destruct Hl as [->|Hl]; [apply N.eqb_neq in E; congruence|].
  destruct (IH Hl Hi) as (r & ->). eauto.
Qed.

Lemma unregister_G_conn c r r' i s :
  G_conn s -> w_conns s c = Some r -> c_pc r = PcStream i ->
  c_pc r' = PcDone -> (forall j, c_job r' = Some j -> c_closed r' = true) ->
  exists s', unregister i s = Ok s' /\ G_conn (set_conn c r' s').
Proof.
  intros [HL HC] Hr Hpc Hpc' Hcl.
  assert (Hlid : pc_lid (c_pc r) = Some i) by (rewrite Hpc; reflexivity).
  destruct (co_lst _ _ _ _ (HC c r Hr) i Hlid) as (l & Hl & Hlc & Hli & _).
  destruct (remove_first_some i _ l Hl Hli) as (ls' & Hrm).
  unfold unregister. rewrite Hrm. eexists; split; [reflexivity|].
  destruct (remove_first_split _ _ _ Hrm) as (a & l0 & b & Els & -> & Hl0).
  pose proof (lo_ids _ _ HL) as Hids. pose proof (lo_chans _ _ HL) as Hch.
  rewrite Els in Hids, Hch. rewrite map_app in Hids, Hch. cbn [map] in Hids, Hch.
  assert (El0 : l0 = l).
  { rewrite Els in Hl. apply in_app_iff in Hl. destruct Hl as [Hl|[Hl|Hl]]; [|exact Hl|].
    - exfalso. apply NoDup_remove_2 in Hids. apply Hids. apply in_app_iff; left.
      rewrite Hl0, <- Hli. apply in_map; exact Hl.
    - exfalso. apply NoDup_remove_2 in Hids. apply Hids. apply in_app_iff; right.
      rewrite Hl0, <- Hli. apply in_map; exact Hl. }
  subst l0.
  assert (Hsub : forall x, In x (a ++ b) -> In x (w_listeners s)).
  { intros x Hx. rewrite Els. apply in_app_iff in Hx. apply in_app_iff. destruct Hx; [left|right; right]; assumption. }
  assert (Hnc : forall x, In x (a ++ b) -> l_chan x <> c).
  { intros x Hx E. apply NoDup_remove_2 in Hch. apply Hch. rewrite <- map_app. rewrite Hlc, <- E. apply in_map; exact Hx. }
  assert (Hkeep : forall x, In x (w_listeners s) -> l_chan x <> c -> In x (a ++ b)).
  { intros x Hx Hne. rewrite Els in Hx. apply in_app_iff in Hx. apply in_app_iff.
    destruct Hx as [Hx|[Hx|Hx]]; [left; exact Hx| |right; exact Hx]. subst x. congruence. }
  split; cbn [set_conn set_listeners w_listeners w_conns w_log].
  - constructor.
    + rewrite map_app. apply NoDup_remove_1 in Hids. exact Hids.
    + rewrite map_app. apply NoDup_remove_1 in Hch. exact Hch.
    + intros x Hx. pose proof (Hnc x Hx) as Hne. apply N.eqb_neq in Hne. rewrite Hne.
      apply (lo_owner _ _ HL x (Hsub x Hx)).
  - intros c' r2. destruct (c' =? c) eqn:E.
    + apply N.eqb_eq in E; subst c'. intros H; inversion H; subst r2. constructor; rewrite ?Hpc'; cbn [pc_lid is_req].
      * intros i0 Hp0; discriminate.
      * intros j i0 _ Hp0; discriminate.
      * intros Hq; discriminate.
      * intros j Hj _. apply (Hcl j Hj).
      * intros f m Hq; discriminate.
      * intros i0 m Hq; discriminate.
    + intros H. pose proof (HC c' r2 H) as HC2. apply N.eqb_neq in E. constructor.
      * intros i2 Hp2. destruct (co_lst _ _ _ _ HC2 i2 Hp2) as (l2 & Hl2 & Hlc2 & R).
        exists l2; split; [apply Hkeep; [exact Hl2|congruence]|]. split; [exact Hlc2|exact R].
      * apply (co_cnt _ _ _ _ HC2).
      * apply (co_req _ _ _ _ HC2).
      * apply (co_done _ _ _ _ HC2).
      * apply (co_nopre _ _ _ _ HC2).
      * apply (co_resp _ _ _ _ HC2).
Qed.

(** ** The job-side invariant *)
Record G_jobs (s : wstate) : Prop := mkGJ {
  gj_lt : forall j jr, w_jobs s j = Some jr -> j < w_next_job s;
  gj_done : forall j, In (WvCompleted j) (w_log s) ->
            j < w_next_job s /\ forall jr, w_jobs s j = Some jr -> jr_open jr = false /\ jr_active jr = 0;
  gj_once : forall j, (cnt_e (w_log s) (WvCompleted j) <= 1)%nat
}.

Lemma cnt_snoc (l : list ev) e x : cnt_e (l ++ [e]) x = (cnt_e l x + if ev_eq_dec e x then 1 else 0)%nat.
Proof. rewrite count_occ_app. cbn [count_occ]. destruct (ev_eq_dec e x); reflexivity. Qed.

Lemma forward_jobs e s :
  w_jobs (forward e s) = w_jobs s /\ w_next_job (forward e s) = w_next_job s /\ w_log (forward e s) = w_log s ++ [e].
Proof. repeat split. Qed.

Lemma forward_G_jobs_other e s : (forall j, e <> WvCompleted j) -> G_jobs s -> G_jobs (forward e s).
Proof.
  intros Hne HG. constructor; cbn [forward w_jobs w_next_job w_log].
  - apply (gj_lt _ HG).
  - intros j Hin. apply in_app_iff in Hin. destruct Hin as [Hin|[Hin|[]]]; [apply (gj_done _ HG j Hin)|].
    exfalso; exact (Hne j Hin).
  - intros j. rewrite cnt_snoc. destruct (ev_eq_dec e (WvCompleted j)) as [E|_]; [exfalso; exact (Hne j E)|].
    pose proof (gj_once _ HG j). lia.
Qed.

Lemma check_termination_G_jobs j s :
  G_jobs s -> ~ In (WvCompleted j) (w_log s) -> G_jobs (wcheck_termination j s).
Proof.
  intros HG Hnin. unfold wcheck_termination. destruct (w_jobs s j) as [jr|] eqn:Hj; [|exact HG].
  destruct (jr_active jr =? 0) eqn:Ha; [|exact HG]. destruct (jr_open jr) eqn:Ho.
  - apply forward_G_jobs_other; [intros j'; discriminate|exact HG].
  - apply N.eqb_eq in Ha. constructor; cbn [forward w_jobs w_next_job w_log].
    + apply (gj_lt _ HG).
    + intros j' Hin. apply in_app_iff in Hin. destruct Hin as [Hin|[Hin|[]]]; [apply (gj_done _ HG j' Hin)|].
      inversion Hin; subst j'. split; [apply (gj_lt _ HG j jr Hj)|]. intros jr' Hj'. rewrite Hj in Hj'. inversion Hj'; subst. auto.
    + intros j'. rewrite cnt_snoc. destruct (ev_eq_dec (WvCompleted j) (WvCompleted j')) as [E|_].
      * inversion E; subst j'. rewrite (proj1 (count_occ_not_In ev_eq_dec _ _) Hnin). lia.
      * pose proof (gj_once _ HG j'). lia.
Qed.

Lemma check_termination_log j s : ~ In (WvCompleted j) (w_log s) -> forall j', j' <> j -> In (WvCompleted j') (w_log (wcheck_termination j s)) -> In (WvCompleted j') (w_log s).
Proof.
  intros _ j' Hne. unfold wcheck_termination. destruct (w_jobs s j) as [jr|]; [|auto].
  destruct (jr_active jr =? 0); [|auto]. destruct (jr_open jr); cbn [forward w_log]; intros Hin;
    apply in_app_iff in Hin; destruct Hin as [Hin|[Hin|[]]]; auto; inversion Hin; congruence.
Qed.

(** updating the record of a job whose completion was not yet announced *)
Lemma set_job_G_jobs j jr0 jr s :
  G_jobs s -> w_jobs s j = Some jr0 -> ~ In (WvCompleted j) (w_log s) -> G_jobs (wset_job j (Some jr) s).
Proof.
  intros HG Hj Hnin. constructor; cbn [wset_job w_jobs w_next_job w_log].
  - intros j' jr'. destruct (j' =? j) eqn:E; [|apply (gj_lt _ HG)].
    apply N.eqb_eq in E; subst j'. intros _. apply (gj_lt _ HG j jr0 Hj).
  - intros j' Hin. destruct (gj_done _ HG j' Hin) as [Hlt Hr]. split; [exact Hlt|].
    destruct (j' =? j) eqn:E; [|exact Hr]. apply N.eqb_eq in E; subst j'. contradiction.
  - apply (gj_once _ HG).
Qed.

Lemma forget_G_jobs j s : G_jobs s -> G_jobs (wset_job j None s).
Proof.
  intros HG. constructor; cbn [wset_job w_jobs w_next_job w_log].
  - intros j' jr'. destruct (j' =? j); [discriminate|apply (gj_lt _ HG)].
  - intros j' Hin. destruct (gj_done _ HG j' Hin) as [Hlt Hr]. split; [exact Hlt|].
    destruct (j' =? j); [discriminate|exact Hr].
  - apply (gj_once _ HG).
Qed.

(** a new job gets the next id *)
Lemma new_job_G_jobs jr s1 :
  G_jobs s1 ->
  G_jobs (mkW (fun j' => if j' =? w_next_job s1 then Some jr else w_jobs s1 j') (w_next_job s1 + 1)
              (w_listeners s1) (w_conns s1) (w_log s1)).
Proof.
  intros HG. constructor; cbn [w_jobs w_next_job w_log].
  - intros j' jr'. destruct (j' =? w_next_job s1) eqn:E; [apply N.eqb_eq in E; lia|].
    intros H. pose proof (gj_lt _ HG j' jr' H). lia.
  - intros j' Hin. destruct (gj_done _ HG j' Hin) as [Hlt Hr]. split; [lia|].
    destruct (j' =? w_next_job s1) eqn:E; [apply N.eqb_eq in E; lia|exact Hr].
  - apply (gj_once _ HG).
Qed.

Lemma not_completed_active s j jr :
  G_jobs s -> w_jobs s j = Some jr -> (0 < jr_active jr \/ jr_open jr = true) -> ~ In (WvCompleted j) (w_log s).
Proof.
  intros HG Hj Hact Hin. destruct (gj_done _ HG j Hin) as [_ Hr]. destruct (Hr jr Hj) as [Ho Ha].
  destruct Hact as [H|H]; [lia|congruence].
Qed.

Lemma not_in_snoc_other (l : list ev) e x : ~ In x l -> e <> x -> ~ In x (l ++ [e]).
Proof. intros H1 H2 H. apply in_app_iff in H. destruct H as [H|[H|[]]]; auto. Qed.

Lemma do_submit_G_jobs target n s j s1 :
  G_jobs s -> do_submit target n s = Some (j, s1) ->
  G_jobs s1 /\ ~ In (WvCompleted j) (w_log s1)
  /\ w_listeners s1 = w_listeners (forward (WvSubmit j) s)
  /\ w_conns s1 = w_conns (forward (WvSubmit j) s)
  /\ w_log s1 = w_log (forward (WvSubmit j) s).
Proof.
  intros HG. unfold do_submit. destruct target as [j0|].
  - destruct (w_jobs s j0) as [jr|] eqn:Hj; [|discriminate]. destruct (jr_open jr) eqn:Ho; [|discriminate].
    intros H; inversion H; subst j s1; clear H.
    assert (Hnin : ~ In (WvCompleted j0) (w_log (forward (WvSubmit j0) s))).
    { cbn [forward w_log]. apply not_in_snoc_other; [|discriminate].
      apply (not_completed_active s j0 jr HG Hj). right; exact Ho. }
    split; [|split; [exact Hnin|repeat split]].
    apply (set_job_G_jobs j0 jr); [apply forward_G_jobs_other; [intros; discriminate|exact HG]|exact Hj|exact Hnin].
  - intros H; inversion H; subst j s1; clear H.
    pose proof (forward_G_jobs_other (WvSubmit (w_next_job s)) s ltac:(intros; discriminate) HG) as HG1.
    split; [apply (new_job_G_jobs _ _ HG1)|]. split; [|repeat split].
    cbn [w_log forward]. apply not_in_snoc_other; [|discriminate].
    intros Hin. destruct (gj_done _ HG _ Hin) as [Hlt _]. lia.
Qed.

Lemma env_step_G_jobs e s : G_jobs s -> G_jobs (env_step e s).
Proof.
  intros HG. destruct e as [j k|j k| |target n|j|j|]; cbn [env_step].
  - destruct (w_jobs s j) as [jr|] eqn:Hj; [|exact HG].
    destruct ((0 <? k) && (k <=? jr_active jr)) eqn:Hk; [|exact HG].
    assert (Hnin : ~ In (WvCompleted j) (w_log s)) by (apply (not_completed_active s j jr HG Hj); lia).
    apply check_termination_G_jobs.
    + apply forward_G_jobs_other; [intros; discriminate|]. apply (set_job_G_jobs j jr); assumption.
    + cbn [forward wset_job w_log]. apply not_in_snoc_other; [exact Hnin|discriminate].
  - destruct (w_jobs s j) as [jr|] eqn:Hj; [|exact HG].
    destruct ((0 <? k) && (k <=? jr_active jr)) eqn:Hk; [|exact HG].
    assert (Hnin : ~ In (WvCompleted j) (w_log s)) by (apply (not_completed_active s j jr HG Hj); lia).
    apply check_termination_G_jobs.
    + apply forward_G_jobs_other; [intros; discriminate|]. apply forward_G_jobs_other; [intros; discriminate|].
      apply (set_job_G_jobs j jr); assumption.
    + cbn [forward wset_job w_log]. apply not_in_snoc_other; [|discriminate]. apply not_in_snoc_other; [exact Hnin|discriminate].
  - apply (new_job_G_jobs _ (forward (WvOpen (w_next_job s)) s)).
    apply forward_G_jobs_other; [intros; discriminate|exact HG].
  - destruct (do_submit target n s) as [[j s1]|] eqn:DS; [|exact HG].
    apply (do_submit_G_jobs _ _ _ _ _ HG DS).
  - destruct (w_jobs s j) as [jr|] eqn:Hj; [|exact HG]. destruct (jr_open jr) eqn:Ho; [|exact HG].
    assert (Hnin : ~ In (WvCompleted j) (w_log s)) by (apply (not_completed_active s j jr HG Hj); auto).
    apply check_termination_G_jobs.
    + apply forward_G_jobs_other; [intros; discriminate|]. apply (set_job_G_jobs j jr); assumption.
    + cbn [forward wset_job w_log]. apply not_in_snoc_other; [exact Hnin|discriminate].
  - destruct (w_jobs s j) as [jr|] eqn:Hj; [|exact HG].
    destruct (negb (jr_open jr) && (jr_active jr =? 0)); [apply forget_G_jobs; exact HG|exact HG].
  - apply forward_G_jobs_other; [intros; discriminate|exact HG].
Qed.

Lemma G_jobs_ext s s' :
  w_jobs s' = w_jobs s -> w_next_job s' = w_next_job s -> w_log s' = w_log s -> G_jobs s -> G_jobs s'.
Proof. intros E1 E2 E3 HG. constructor; rewrite ?E1, ?E2, ?E3; apply HG. Qed.

Lemma check_termination_G_conn j s : G_conn s -> G_conn (wcheck_termination j s).
Proof.
  intros HG. unfold wcheck_termination. destruct (w_jobs s j) as [jr|]; [|exact HG].
  destruct (jr_active jr =? 0); [|exact HG]. destruct (jr_open jr); apply forward_G_conn; exact HG.
Qed.

Lemma do_submit_G_conn target n s j s1 :
  G_conn s -> do_submit target n s = Some (j, s1) -> G_conn s1.
Proof.
  intros HG. unfold do_submit. destruct target as [j0|].
  - destruct (w_jobs s j0) as [jr|]; [|discriminate]. destruct (jr_open jr); [|discriminate].
    intros H; inversion H; subst. apply (G_conn_ext (forward (WvSubmit j) s)); try reflexivity. apply forward_G_conn; exact HG.
  - intros H; inversion H; subst. apply (G_conn_ext (forward (WvSubmit (w_next_job s)) s)); try reflexivity. apply forward_G_conn; exact HG.
Qed.

Lemma env_step_G_conn e s : G_conn s -> G_conn (env_step e s).
Proof.
  intros HG. destruct e as [j k|j k| |target n|j|j|]; cbn [env_step].
  - destruct (w_jobs s j) as [jr|]; [|exact HG]. destruct ((0 <? k) && (k <=? jr_active jr)); [|exact HG].
    apply check_termination_G_conn, forward_G_conn. apply (G_conn_ext s); try reflexivity; exact HG.
  - destruct (w_jobs s j) as [jr|]; [|exact HG]. destruct ((0 <? k) && (k <=? jr_active jr)); [|exact HG].
    apply check_termination_G_conn, forward_G_conn, forward_G_conn. apply (G_conn_ext s); try reflexivity; exact HG.
  - apply (G_conn_ext (forward (WvOpen (w_next_job s)) s)); try reflexivity. apply forward_G_conn; exact HG.
  - destruct (do_submit target n s) as [[j s1]|] eqn:DS; [|exact HG]. apply (do_submit_G_conn _ _ _ _ _ HG DS).
  - destruct (w_jobs s j) as [jr|]; [|exact HG]. destruct (jr_open jr); [|exact HG].
    apply check_termination_G_conn, forward_G_conn. apply (G_conn_ext s); try reflexivity; exact HG.
  - destruct (w_jobs s j) as [jr|]; [|exact HG].
    destruct (negb (jr_open jr) && (jr_active jr =? 0)); [|exact HG]. apply (G_conn_ext s); try reflexivity; exact HG.
  - apply forward_G_conn; exact HG.
Qed.

(** ** The invariant is preserved by every step of the current code *)
Definition INV (s : wstate) : Prop := G_conn s /\ G_jobs s.

Definition cur (cf : cfg) : Prop := cf_reg_first cf = true /\ cf_id_max cf = true.

Lemma cnt_m_snoc (l : list msg) m x : cnt_m (l ++ [m]) x = (cnt_m l x + if msg_eq_dec m x then 1 else 0)%nat.
Proof. rewrite count_occ_app. cbn [count_occ]. destruct (msg_eq_dec m x); reflexivity. Qed.

Lemma conn_step_INV cf c s s' : cur cf -> INV s -> conn_step cf c s = Ok s' -> INV s'.
Proof.
  intros [Hrf Hidm] [HG HJ]. unfold conn_step.
  destruct (w_conns s c) as [r|] eqn:Hr; [|intros H; inversion H; subst; split; assumption].
  pose proof (proj2 HG c r Hr) as HC.
  destruct (c_pc r) as [target n flt|flt|i m|flt m|i|] eqn:Hpc.
  - (* Submit(msg, Some(stream)) *)
    destruct (do_submit target n s) as [[j s1]|] eqn:DS.
    + destruct (do_submit_G_jobs _ _ _ _ _ HJ DS) as (HJ1 & Hnin & EL & EC & ELog).
      pose proof (do_submit_G_conn _ _ _ _ _ HG DS) as HG1.
      assert (Hr1 : w_conns s1 c = Some r).
      { rewrite EC. cbn [forward w_conns]. rewrite Hr, Hpc. reflexivity. }
      destruct (co_req _ _ _ _ HC) as (Hq & Hs & Hjb); [rewrite Hpc; reflexivity|].
      unfold get. rewrite Hr1, Hrf. cbv zeta.
      set (flt' := match f_jobs flt with None => _ | Some _ => flt end).
      destruct (register cf flt' c s1) as [[i s2]| |] eqn:Hreg; cbn [bind]; try discriminate.
      destruct (register_ok _ _ _ _ _ _ Hidm Hreg) as [Hi Es2].
      assert (Hcnt0 : cnt_e (w_log s1) (WvCompleted j) = 0%nat) by (apply count_occ_not_In; exact Hnin).
      assert (Hjob : forall j0, (if fcheck flt' (WvCompleted j) then Some j else None) = Some j0 ->
                                j0 = j /\ fcheck flt' (WvCompleted j) = true).
      { intros j0. destruct (fcheck flt' (WvCompleted j)); intros H; inversion H; auto. }
      assert (Hnew : In (mkL i flt' c) (w_listeners s2)).
      { rewrite Es2. cbn [set_listeners w_listeners]. apply in_app_iff; right; left; reflexivity. }
      destruct (cf_journal cf); intros H; inversion H; subst s'; clear H.
      * split.
        -- apply (register_G_conn cf flt' c r _ i s2 s1 Hidm HG1 Hr1); [rewrite Hpc; reflexivity|exact Hreg|reflexivity|].
           constructor; cbn [c_pc c_job c_queue c_sent c_closed pc_lid is_req].
           ++ intros i0 Hi0; inversion Hi0; subst i0. exists (mkL i flt' c). repeat split; auto.
              intros j0 Hj0. destruct (Hjob j0 Hj0) as [-> Hf]. exact Hf.
           ++ intros j0 i0 Hj0 _. destruct (Hjob j0 Hj0) as [-> _]. rewrite Hcnt0, Hq, Hs. reflexivity.
           ++ discriminate.
           ++ discriminate.
           ++ discriminate.
           ++ intros i0 m0 Hm; inversion Hm; eauto.
        -- subst s2. apply (G_jobs_ext s1); try reflexivity; exact HJ1.
      * split.
        -- apply (register_G_conn cf flt' c r _ i s2 s1 Hidm HG1 Hr1); [rewrite Hpc; reflexivity|exact Hreg|reflexivity|].
           constructor; cbn [with_pc send c_pc c_job c_queue c_sent c_closed pc_lid is_req].
           ++ intros i0 Hi0; inversion Hi0; subst i0. exists (mkL i flt' c). repeat split; auto.
              intros j0 Hj0. destruct (Hjob j0 Hj0) as [-> Hf]. exact Hf.
           ++ intros j0 i0 Hj0 _. destruct (Hjob j0 Hj0) as [-> _]. rewrite Hcnt0, Hq, Hs. reflexivity.
           ++ discriminate.
           ++ discriminate.
           ++ discriminate.
           ++ discriminate.
        -- subst s2. apply (G_jobs_ext s1); try reflexivity; exact HJ1.
    + intros H; inversion H; subst s'; clear H. split; [|apply (G_jobs_ext s); try reflexivity; exact HJ].
      destruct (co_req _ _ _ _ HC) as (Hq & Hs & Hjb); [rewrite Hpc; reflexivity|].
      apply (set_conn_G_conn c r _ s HG Hr); [rewrite Hpc; reflexivity|].
      constructor; cbn [with_pc send c_pc c_job c_queue c_sent c_closed pc_lid is_req]; try discriminate.
      intros j Hj; rewrite Hjb in Hj; discriminate.
  - (* StreamEvents(msg) *)
    destruct (register cf flt c s) as [[i s2]| |] eqn:Hreg; cbn [bind]; try discriminate.
    destruct (register_ok _ _ _ _ _ _ Hidm Hreg) as [Hi Es2].
    destruct (co_req _ _ _ _ HC) as (Hq & Hs & Hjb); [rewrite Hpc; reflexivity|].
    intros H; inversion H; subst s'; clear H. split; [|subst s2; apply (G_jobs_ext s); try reflexivity; exact HJ].
    apply (register_G_conn cf flt c r _ i s2 s Hidm HG Hr); [rewrite Hpc; reflexivity|exact Hreg|reflexivity|].
    constructor; cbn [with_pc c_pc c_job c_queue c_sent c_closed pc_lid is_req]; try discriminate.
    + intros i0 Hi0; inversion Hi0; subst i0. exists (mkL i flt c). repeat split; auto.
      * rewrite Es2. cbn [set_listeners w_listeners]. apply in_app_iff; right; left; reflexivity.
      * intros j Hj; rewrite Hjb in Hj; discriminate.
    + intros j i0 Hj; rewrite Hjb in Hj; discriminate.
  - (* resumed after the journal flush *)
    destruct (c_flushed r); intros H; inversion H; subst s'; clear H; [|split; assumption].
    split; [|apply (G_jobs_ext s); try reflexivity; exact HJ].
    apply (set_conn_G_conn c r _ s HG Hr); [rewrite Hpc; reflexivity|].
    destruct (co_resp _ _ _ _ HC i m Hpc) as (jm & wm & ->).
    constructor; cbn [with_pc send c_pc c_job c_queue c_sent c_closed pc_lid is_req]; try discriminate.
    + intros i0 Hi0. apply (co_lst _ _ _ _ HC). rewrite Hpc. exact Hi0.
    + intros j i0 Hj Hi0. rewrite cnt_m_snoc. destruct (msg_eq_dec (MResp jm wm) (MEvent (WvCompleted j))); [discriminate|].
      rewrite (co_cnt _ _ _ _ HC j i Hj); [lia|rewrite Hpc; reflexivity].
  - exfalso. exact (co_nopre _ _ _ _ HC flt m Hpc).
  - (* stream_events *)
    destruct (c_closed r) eqn:Hcl.
    + destruct (unregister_G_conn c r (with_pc r PcDone) i s HG Hr Hpc eq_refl) as (s2 & Hun & HG2).
      { intros j _. exact Hcl. }
      rewrite Hun. cbn [bind]. intros H; inversion H; subst s'; clear H. split; [exact HG2|].
      unfold unregister in Hun. destruct (remove_first i (w_listeners s)); inversion Hun; subst s2.
      apply (G_jobs_ext s); try reflexivity; exact HJ.
    + destruct (c_queue r) as [|e q] eqn:Hq.
      * destruct (sender_alive s c) eqn:Hsa; [intros H; inversion H; subst; split; assumption|].
        exfalso. destruct (co_lst _ _ _ _ HC i) as (l & Hl & Hlc & _); [rewrite Hpc; reflexivity|].
        unfold sender_alive in Hsa. assert (existsb (fun l0 => l_chan l0 =? c) (w_listeners s) = true); [|congruence].
        apply existsb_exists. exists l; split; [exact Hl|apply N.eqb_eq; exact Hlc].
      * intros H; inversion H; subst s'; clear H. split; [|apply (G_jobs_ext s); try reflexivity; exact HJ].
        apply (set_conn_G_conn c r _ s HG Hr); [cbn [c_pc]; rewrite Hpc; reflexivity|].
        constructor; cbn [c_pc c_job c_queue c_sent c_closed]; rewrite ?Hpc; cbn [pc_lid is_req]; try discriminate.
        -- intros i0 Hi0. apply (co_lst _ _ _ _ HC). rewrite Hpc. exact Hi0.
        -- intros j i0 Hj Hi0. rewrite cnt_m_snoc.
           pose proof (co_cnt _ _ _ _ HC j i Hj) as Hc. rewrite Hpc, Hq in Hc. specialize (Hc eq_refl).
           cbn [count_occ] in Hc. rewrite Hc.
           destruct (ev_eq_dec e (WvCompleted j)) as [->|Hne].
           ++ destruct (msg_eq_dec (MEvent (WvCompleted j)) (MEvent (WvCompleted j))); [lia|congruence].
           ++ destruct (msg_eq_dec (MEvent e) (MEvent (WvCompleted j))) as [E|_]; [inversion E; congruence|lia].
  - intros H; inversion H; subst; split; assumption.
Qed.

Lemma INV_init : INV init.
Proof.
  split.
  - split.
    + constructor; cbn; [constructor|constructor|intros l []].
    + intros c r H; discriminate.
  - constructor; cbn.
    + intros j jr H; discriminate.
    + intros j [].
    + intros j; lia.
Qed.

Lemma step_INV cf s l s' : cur cf -> INV s -> wstep cf s l = Ok s' -> INV s'.
Proof.
  intros Hcur HI. destruct l as [c rq|c|c|c|e|c]; cbn [wstep].
  - destruct (w_conns s c) as [r|] eqn:Hr; intros H; inversion H; subst s'; clear H; [exact HI|].
    destruct HI as [HG HJ]. split; [|apply (G_jobs_ext s); try reflexivity; exact HJ].
    apply set_conn_G_conn_gen; [exact HG| |].
    + intros l Hl Hc. exfalso. exact (no_listener_without_conn _ _ _ (proj1 HG) Hr l Hl Hc).
    + constructor; cbn [c_pc c_job c_queue c_sent c_closed]; destruct rq; cbn [pc_lid is_req]; try discriminate; auto.
  - apply conn_step_INV; assumption.
  - destruct (w_conns s c) as [r|] eqn:Hr; [|intros H; inversion H; subst; exact HI].
    destruct HI as [HG HJ].
    destruct (c_pc r) eqn:Hpc; intros H; inversion H; subst s'; clear H; try (split; assumption).
    + split; [|apply (G_jobs_ext s); try reflexivity; exact HJ].
      apply (set_conn_G_conn c r _ s HG Hr); [cbn [c_pc]; rewrite Hpc; reflexivity|].
      apply (CONN_OK_same _ _ _ r); auto. apply (proj2 HG c r Hr).
    + split; [|apply (G_jobs_ext s); try reflexivity; exact HJ].
      apply (set_conn_G_conn c r _ s HG Hr); [cbn [c_pc]; rewrite Hpc; reflexivity|].
      apply (CONN_OK_same _ _ _ r); auto. apply (proj2 HG c r Hr).
  - destruct (w_conns s c) as [r|] eqn:Hr; intros H; inversion H; subst s'; clear H; [|exact HI].
    destruct HI as [HG HJ]. split; [|apply (G_jobs_ext s); try reflexivity; exact HJ].
    apply (set_conn_G_conn c r _ s HG Hr); [reflexivity|].
    apply (CONN_OK_same _ _ _ r); auto. apply (proj2 HG c r Hr).
  - intros H; inversion H; subst s'. destruct HI as [HG HJ]. split; [apply env_step_G_conn|apply env_step_G_jobs]; assumption.
  - intros H; inversion H; subst; exact HI.
Qed.

Lemma run_INV cf ls : forall s s', cur cf -> INV s -> wrun cf s ls = Ok s' -> INV s'.
Proof.
  induction ls as [|l ls IH]; intros s s' Hcur HI; cbn [wrun].
  - intros H; inversion H; subst; exact HI.
  - destruct (wstep cf s l) as [s1| |] eqn:Hs; cbn [bind]; try discriminate.
    apply IH; [exact Hcur|]. apply (step_INV cf s l s1); assumption.
Qed.

Theorem reachable_INV cf ls s : cur cf -> wrun cf init ls = Ok s -> INV s.
Proof. intros Hcur. apply run_INV; [exact Hcur|exact INV_init]. Qed.

Lemma NoDup_map_inj {A B} (f : A -> B) l x y : NoDup (map f l) -> In x l -> In y l -> f x = f y -> x = y.
Proof.
  induction l as [|a l IH]; intros Hn Hx Hy E; [destruct Hx|]. cbn [map] in Hn. inversion Hn as [|? ? Ha Hn']; subst.
  destruct Hx as [->|Hx], Hy as [->|Hy]; auto.
  - exfalso; apply Ha. rewrite E. apply in_map; exact Hy.
  - exfalso; apply Ha. rewrite <- E. apply in_map; exact Hx.
Qed.

(** ** Main theorems *)

(** Registered listener ids (and channels) are pairwise distinct in every reachable state of the
    current code; so [unregister_listener] of one connection never removes another's listener. *)
Theorem listener_ids_distinct : forall cf ls s,
  cur cf -> wrun cf init ls = Ok s ->
  NoDup (map l_id (w_listeners s)) /\ NoDup (map l_chan (w_listeners s)).
Proof.
  intros cf ls s Hcur Hrun. destruct (reachable_INV cf ls s Hcur Hrun) as [[HL _] _].
  split; [apply (lo_ids _ _ HL)|apply (lo_chans _ _ HL)].
Qed.

(** In EVERY execution of the current handler order (any interleaving of connection steps, other
    connections, task ends / cancels / closes / submits, journal acknowledgements; any number of
    them), for a connection [c] that submitted job [j] asking for its job events and has not been
    closed by its client: the handler is still serving the stream, its listener is still
    registered - under an id and a channel no other listener has -, and the number of
    [JobCompleted j] events emitted so far equals the number queued for [c] plus the number
    already written to the client; that number is at most one. *)
Theorem wait_gets_completion : forall cf ls s c r j,
  cur cf -> wrun cf init ls = Ok s ->
  w_conns s c = Some r -> c_job r = Some j -> c_closed r = false ->
  (exists i l, pc_lid (c_pc r) = Some i /\ In l (w_listeners s) /\ l_id l = i /\ l_chan l = c
               /\ fcheck (l_filter l) (WvCompleted j) = true
               /\ forall l', In l' (w_listeners s) -> l_id l' = i \/ l_chan l' = c -> l' = l)
  /\ cnt_e (w_log s) (WvCompleted j)
     = (cnt_e (c_queue r) (WvCompleted j) + cnt_m (c_sent r) (MEvent (WvCompleted j)))%nat
  /\ (cnt_e (w_log s) (WvCompleted j) <= 1)%nat.
Proof.
  intros cf ls s c r j Hcur Hrun Hr Hj Hcl.
  destruct (reachable_INV cf ls s Hcur Hrun) as [[HL HCs] HJ]. pose proof (HCs c r Hr) as HC.
  assert (Hlid : exists i, pc_lid (c_pc r) = Some i).
  { destruct (c_pc r) eqn:Hpc; cbn [pc_lid]; eauto; exfalso.
    - destruct (co_req _ _ _ _ HC) as (_ & _ & Hn); [rewrite Hpc; reflexivity|congruence].
    - destruct (co_req _ _ _ _ HC) as (_ & _ & Hn); [rewrite Hpc; reflexivity|congruence].
    - exact (co_nopre _ _ _ _ HC _ _ Hpc).
    - rewrite (co_done _ _ _ _ HC j Hj Hpc) in Hcl. discriminate. }
  destruct Hlid as [i Hi]. destruct (co_lst _ _ _ _ HC i Hi) as (l & Hl & Hlc & Hli & Hf).
  split; [|split; [apply (co_cnt _ _ _ _ HC j i Hj Hi)|apply (gj_once _ HJ)]].
  exists i, l. repeat split; auto. intros l' Hl' [E|E].
  - apply (NoDup_map_inj l_id _ l' l (lo_ids _ _ HL) Hl' Hl). congruence.
  - apply (NoDup_map_inj l_chan _ l' l (lo_chans _ _ HL) Hl' Hl). congruence.
Qed.

(** Draining: the connection's own steps move its queue to the client. *)
Lemma drain cf c : forall q s r i,
  w_conns s c = Some r -> c_pc r = PcStream i -> c_closed r = false -> c_queue r = q ->
  exists s' r', wrun cf s (repeat (LConn c) (length q)) = Ok s' /\ w_conns s' c = Some r'
                /\ c_sent r' = c_sent r ++ map MEvent q /\ c_closed r' = false /\ c_job r' = c_job r
                /\ c_pc r' = PcStream i /\ c_queue r' = [] /\ w_log s' = w_log s.
Proof.
  induction q as [|e q IH]; intros s r i Hr Hpc Hcl Hq.
  - exists s, r. cbn. rewrite app_nil_r. auto 10.
  - cbn [length repeat wrun wstep]. unfold conn_step. rewrite Hr, Hpc, Hcl, Hq. cbn [bind].
    edestruct (IH (set_conn c (mkC (PcStream i) false (c_flushed r) q (c_sent r ++ [MEvent e]) (c_job r)) s)) as (s' & r' & Hrun & Hr' & Hs' & Hc' & Hj' & Hp' & Hq' & Hl').
    + cbn [set_conn w_conns]. rewrite N.eqb_refl. reflexivity.
    + reflexivity.
    + reflexivity.
    + reflexivity.
    + exists s', r'. cbn [c_sent c_job] in *. rewrite Hrun. repeat split; auto.
      rewrite Hs', <- app_assoc. reflexivity.
Qed.

(** Progress: whenever the job has completed, steps of the journal thread and of connection [c]
    ALONE (no cooperation of anybody else is needed) make the handler write the completion to the
    client. *)
Theorem wait_delivery_progress : forall cf ls s c r j,
  cur cf -> wrun cf init ls = Ok s ->
  w_conns s c = Some r -> c_job r = Some j -> c_closed r = false -> In (WvCompleted j) (w_log s) ->
  exists ls' s' r',
    (forall l, In l ls' -> l = LFlushAck c \/ l = LConn c)
    /\ wrun cf s ls' = Ok s' /\ w_conns s' c = Some r' /\ told r' j = true.
Proof.
  intros cf ls s c r j Hcur Hrun Hr Hj Hcl Hin.
  destruct (wait_gets_completion cf ls s c r j Hcur Hrun Hr Hj Hcl) as ((i & l & Hi & _) & Hcnt & _).
  assert (Hpos : (0 < cnt_e (w_log s) (WvCompleted j))%nat) by (apply count_occ_In; exact Hin).
  assert (Hwhere : In (WvCompleted j) (c_queue r) \/ In (MEvent (WvCompleted j)) (c_sent r)).
  { destruct (in_dec ev_eq_dec (WvCompleted j) (c_queue r)) as [H|H]; [left; exact H|right].
    apply (count_occ_In msg_eq_dec). apply (count_occ_not_In ev_eq_dec) in H. lia. }
  assert (Htold : forall r', (exists pre, c_sent r' = c_sent r ++ pre ++ map MEvent (c_queue r)) -> told r' j = true).
  { intros r' [pre E]. unfold told. destruct (in_dec msg_eq_dec _ _) as [|Hn]; [reflexivity|]. exfalso; apply Hn.
    rewrite E. apply in_app_iff. destruct Hwhere as [H|H]; [right|left; exact H].
    apply in_app_iff; right. apply in_map; exact H. }
  destruct (c_pc r) as [| |i0 m| |i0|] eqn:Hpc; try discriminate.
  - (* at the flush await *)
    set (r1 := mkC (PcStream i0) false true (c_queue r) (c_sent r ++ [m]) (c_job r)).
    set (s0 := set_conn c (mkC (PcFlushReg i0 m) (c_closed r) true (c_queue r) (c_sent r) (c_job r)) s).
    destruct (drain cf c (c_queue r) (set_conn c r1 s0) r1 i0) as (s' & r' & Hrun' & Hr' & Hs' & _);
      try reflexivity; [cbn [set_conn w_conns]; rewrite N.eqb_refl; reflexivity|].
    exists (LFlushAck c :: LConn c :: repeat (LConn c) (length (c_queue r))), s', r'.
    split; [|split; [|split; [exact Hr'|]]].
    + intros l0 [<-|[<-|H]]; auto. apply repeat_spec in H. auto.
    + cbn [wrun wstep]. rewrite Hr, Hpc. cbn [bind]. fold s0.
      unfold conn_step. cbn [s0 set_conn w_conns]. rewrite N.eqb_refl. cbn [c_pc c_flushed].
      cbn [bind]. unfold with_pc, send. cbn [c_pc c_closed c_flushed c_queue c_sent c_job].
      rewrite Hcl. exact Hrun'.
    + apply Htold. exists [m]. rewrite Hs'. cbn [r1 c_sent]. rewrite <- app_assoc. reflexivity.
  - (* in the stream loop *)
    destruct (drain cf c (c_queue r) s r i0 Hr Hpc Hcl eq_refl) as (s' & r' & Hrun' & Hr' & Hs' & _).
    exists (repeat (LConn c) (length (c_queue r))), s', r'. split; [|split; [exact Hrun'|split; [exact Hr'|]]].
    + intros l0 H. apply repeat_spec in H. auto.
    + apply Htold. exists []. exact Hs'.
Qed.

(** ** The corner case: is the job already complete when the handler first yields?
    No.  [handle_submit] never calls [check_termination], and the current handler registers its
    listener in the same atomic run: at its first yield point the listener exists and no
    [JobCompleted] of the submitted job has been emitted yet - there is no window.  For a NEW job
    the response tells the client to wait iff the submit has at least one task: for an empty
    submit (a closed job without tasks - it is terminated at once and the server never emits
    [JobCompleted] for it, see [empty_job_never_completes]) the client does not enter its wait
    loop at all ([wait_for_jobs]: [unfinished_jobs] is empty; [wait_for_jobs_with_progress]:
    "There are no jobs to wait for"), so it does not hang either. *)
Theorem wait_gets_completion_closed_immediately : forall cf ls s c r target n flt s',
  cur cf -> wrun cf init ls = Ok s ->
  w_conns s c = Some r -> c_pc r = PcSubmitReq target n flt -> conn_step cf c s = Ok s' ->
  exists r', w_conns s' c = Some r'
    /\ (forall j, c_job r' = Some j ->
          ~ In (WvCompleted j) (w_log s') /\ c_queue r' = []
          /\ exists i l, pc_lid (c_pc r') = Some i /\ In l (w_listeners s') /\ l_id l = i /\ l_chan l = c)
    /\ (target = None -> f_jobs flt = None -> f_job_ev flt = true ->
          c_job r' = Some (w_next_job s)
          /\ let m := MResp (w_next_job s) (0 <? n) in
             (exists i, c_pc r' = PcFlushReg i m) \/ c_sent r' = [m]).
Proof.
  intros cf ls s c r target n flt s' Hcur Hrun Hr Hpc.
  destruct (reachable_INV cf ls s Hcur Hrun) as [HG HJ]. destruct Hcur as [Hrf Hidm].
  pose proof (proj2 HG c r Hr) as HC.
  destruct (co_req _ _ _ _ HC) as (Hq & Hs & Hjb); [rewrite Hpc; reflexivity|].
  unfold conn_step. rewrite Hr, Hpc.
  destruct (do_submit target n s) as [[j s1]|] eqn:DS.
  - destruct (do_submit_G_jobs _ _ _ _ _ HJ DS) as (HJ1 & Hnin & EL & EC & ELog).
    assert (Hr1 : w_conns s1 c = Some r).
    { rewrite EC. cbn [forward w_conns]. rewrite Hr, Hpc. reflexivity. }
    unfold get. rewrite Hr1, Hrf. cbv zeta.
    set (flt' := match f_jobs flt with None => _ | Some _ => flt end).
    destruct (register cf flt' c s1) as [[i s2]| |] eqn:Hreg; cbn [bind]; try discriminate.
    destruct (register_ok _ _ _ _ _ _ Hidm Hreg) as [Hi Es2].
    assert (Hnew : In (mkL i flt' c) (w_listeners s2)).
    { rewrite Es2. cbn [set_listeners w_listeners]. apply in_app_iff; right; left; reflexivity. }
    assert (Hlog2 : w_log s2 = w_log s1) by (rewrite Es2; reflexivity).
    assert (Hnone : target = None -> f_jobs flt = None -> f_job_ev flt = true ->
                    j = w_next_job s /\ fcheck flt' (WvCompleted j) = true /\ client_waits s1 j = (0 <? n)).
    { intros -> Hfj Hfe. cbn [do_submit] in DS. inversion DS; subst j. split; [reflexivity|]. split.
      - unfold flt'. rewrite Hfj. unfold fcheck, job_sel. cbn [f_job_ev f_jobs existsb]. rewrite Hfe, N.eqb_refl. reflexivity.
      - subst s1. unfold client_waits. cbn [w_jobs]. rewrite N.eqb_refl. cbn [jr_active jr_open]. apply orb_false_r. }
    destruct (fcheck flt' (WvCompleted j)) eqn:Hfc;
    destruct (cf_journal cf); intros H; inversion H; subst s'; clear H;
      (eexists; split; [cbn [set_conn w_conns]; rewrite N.eqb_refl; reflexivity|]);
      cbn [with_pc send c_pc c_job c_queue c_sent pc_lid set_conn w_log w_listeners]; (split; [|]).
    + intros j0 Hj0. assert (Ej : j0 = j) by congruence. subst j0. rewrite Hlog2.
      split; [exact Hnin|]. split; [exact Hq|]. exists i, (mkL i flt' c). auto.
    + intros Ht Hfj Hfe. destruct (Hnone Ht Hfj Hfe) as (-> & _ & ->). split; [reflexivity|]. left. eauto.
    + intros j0 Hj0. assert (Ej : j0 = j) by congruence. subst j0. rewrite Hlog2.
      split; [exact Hnin|]. split; [exact Hq|]. exists i, (mkL i flt' c). auto.
    + intros Ht Hfj Hfe. destruct (Hnone Ht Hfj Hfe) as (-> & _ & ->). split; [reflexivity|]. right. rewrite Hs. reflexivity.
    + intros j0 Hj0. discriminate.
    + intros Ht Hfj Hfe. destruct (Hnone Ht Hfj Hfe) as (_ & Hf & _). congruence.
    + intros j0 Hj0. discriminate.
    + intros Ht Hfj Hfe. destruct (Hnone Ht Hfj Hfe) as (_ & Hf & _). congruence.
  - intros H; inversion H; subst s'; clear H.
    eexists; split; [cbn [set_conn w_conns]; rewrite N.eqb_refl; reflexivity|].
    cbn [with_pc send c_job]. split.
    + intros j Hj. rewrite Hjb in Hj. discriminate.
    + intros -> _ _. cbn [do_submit] in DS. discriminate.
Qed.

(** ** [unregister_listener]'s [unwrap] is unreachable in the current code *)
Lemma register_panic cf flt c s site : register cf flt c s = Panic site -> site = site_lid_overflow.
Proof. unfold register. destruct (u32_max <? _); intros H; inversion H; reflexivity. Qed.

Lemma unregister_ok c r i s :
  G_conn s -> w_conns s c = Some r -> c_pc r = PcStream i -> exists s', unregister i s = Ok s'.
Proof.
  intros [HL HC] Hr Hpc. destruct (co_lst _ _ _ _ (HC c r Hr) i) as (l & Hl & _ & Hli & _); [rewrite Hpc; reflexivity|].
  destruct (remove_first_some i _ l Hl Hli) as (ls' & Hrm). unfold unregister. rewrite Hrm. eauto.
Qed.

Lemma conn_step_panic cf c s site :
  cur cf -> INV s -> conn_step cf c s = Panic site -> site = site_lid_overflow.
Proof.
  intros [Hrf Hidm] [HG HJ]. unfold conn_step.
  destruct (w_conns s c) as [r|] eqn:Hr; [|discriminate].
  destruct (c_pc r) as [target n flt|flt|i m|flt m|i|] eqn:Hpc.
  - destruct (do_submit target n s) as [[j s1]|]; [|discriminate]. rewrite Hrf. cbv zeta.
    match goal with |- context [register cf ?f c s1] => destruct (register cf f c s1) as [[i s2]| |] eqn:R end; cbn [bind].
    + destruct (cf_journal cf); discriminate.
    + discriminate.
    + intros H; inversion H; subst. apply (register_panic _ _ _ _ _ R).
  - destruct (register cf flt c s) as [[i s2]| |] eqn:R; cbn [bind]; try discriminate.
    intros H; inversion H; subst. apply (register_panic _ _ _ _ _ R).
  - destruct (c_flushed r); discriminate.
  - destruct (c_flushed r); [|discriminate].
    destruct (register cf flt c s) as [[i s2]| |] eqn:R; cbn [bind]; try discriminate.
    intros H; inversion H; subst. apply (register_panic _ _ _ _ _ R).
  - destruct (unregister_ok c r i s HG Hr Hpc) as (s2 & Hun). rewrite Hun. cbn [bind].
    destruct (c_closed r); [discriminate|]. destruct (c_queue r); [|discriminate].
    destruct (sender_alive s c); discriminate.
  - discriminate.
Qed.

Lemma step_panic cf s l site : cur cf -> INV s -> wstep cf s l = Panic site -> site = site_lid_overflow.
Proof.
  intros Hcur HI. destruct l as [c rq|c|c|c|e|c]; cbn [wstep]; try discriminate.
  - destruct (w_conns s c); discriminate.
  - apply conn_step_panic; assumption.
  - destruct (w_conns s c) as [r|]; [|discriminate]. destruct (c_pc r); discriminate.
  - destruct (w_conns s c); discriminate.
Qed.

(** No execution of the current code reaches the [unwrap] in [unregister_listener]; the only
    panic of the modelled functions is the u32 overflow of the listener id (2^32 - 1 in use). *)
Theorem unregister_never_panics : forall cf ls site,
  cur cf -> wrun cf init ls = Panic site -> site = site_lid_overflow.
Proof.
  intros cf ls site Hcur. generalize INV_init. generalize init.
  induction ls as [|l ls IH]; intros s HI; cbn [wrun]; [discriminate|].
  destruct (wstep cf s l) as [s1| |] eqn:Hs; cbn [bind]; try discriminate.
  - apply IH. apply (step_INV cf s l s1); assumption.
  - intros H; inversion H; subst. apply (step_panic cf s l); assumption.
Qed.

(** ** Witnesses *)
Definition wf : efilter := wait_filter false.

(** F13: the order before commit 74067fa.  The job completes while the handler awaits the journal
    flush; the listener is registered afterwards: the completion is never queued for the client,
    which was told to wait - and the handler is blocked in [select!] with an empty queue. *)
Definition f13_labels : list wlabel :=
  [LRequest 0 (RqSubmitWait None 1 wf); LConn 0; LEnv (ETaskEnd 1 1); LFlushAck 0; LConn 0; LConn 0; LConn 0].

Theorem prefix_order_refuted :
  exists ls s r, wrun cfg_prefix init ls = Ok s /\ w_conns s 0 = Some r
    /\ c_job r = Some 1 /\ c_closed r = false /\ c_pc r = PcStream 1
    /\ In (WvCompleted 1) (w_log s) /\ c_queue r = [] /\ c_sent r = [MResp 1 true]
    /\ cnt_e (w_log s) (WvCompleted 1)
       <> (cnt_e (c_queue r) (WvCompleted 1%N) + cnt_m (c_sent r) (MEvent (WvCompleted 1%N)))%nat.
Proof.
  exists f13_labels. eexists. eexists. split; [vm_compute; reflexivity|].
  split; [vm_compute; reflexivity|]. vm_compute. repeat split; auto. discriminate.
Qed.

(** the same labels on the current code: delivered *)
Example f13_labels_current_ok :
  match wrun cfg_cur init f13_labels with
  | Ok s => match w_conns s 0 with Some r => c_sent r = [MResp 1 true; MEvent (WvCompleted 1)] | None => False end
  | _ => False end.
Proof. vm_compute. reflexivity. Qed.

(** Seeded change m13: new id = number of listeners + 1.  Two listeners get id 2; the
    [unregister_listener] of connection 2 removes the listener of the waiting connection 1. *)
Definition f99 : efilter := mkF (Some [99]) true false false.
Definition m13_prefix : list wlabel :=
  [LRequest 0 (RqStream wf); LConn 0; LRequest 1 (RqSubmitWait None 1 wf); LConn 1; LClose 0; LConn 0;
   LRequest 2 (RqStream f99); LConn 2].
Definition m13_labels : list wlabel :=
  m13_prefix ++ [LClose 2; LConn 2; LEnv (ETaskEnd 1 1); LFlushAck 1; LConn 1; LConn 1; LConn 1].

(** with a third client whose filter accepts the event, its stale listener (receiver gone) is
    dropped by [retain] in [send_event], and connection 1's own [unregister_listener] then
    panics the server *)
Definition m13_panic_labels : list wlabel :=
  [LRequest 0 (RqStream wf); LConn 0; LRequest 1 (RqSubmitWait None 1 wf); LConn 1; LClose 0; LConn 0;
   LRequest 2 (RqStream wf); LConn 2; LClose 2; LConn 2; LEnv (ETaskEnd 1 1); LFlushAck 1; LConn 1; LConn 1].

Theorem len_plus_one_refuted :
  (exists s, wrun cfg_len init m13_prefix = Ok s /\ map l_id (w_listeners s) = [2; 2])
  /\ (exists s r, wrun cfg_len init m13_labels = Ok s /\ w_conns s 1 = Some r
        /\ c_job r = Some 1 /\ c_closed r = false /\ In (WvCompleted 1) (w_log s)
        /\ c_sent r = [MResp 1 true] /\ c_pc r = PcDone)
  /\ wrun cfg_len init m13_panic_labels = Panic site_unregister_unwrap.
Proof.
  split; [|split].
  - eexists. split; vm_compute; reflexivity.
  - eexists. eexists. split; [vm_compute; reflexivity|]. split; [vm_compute; reflexivity|].
    vm_compute. repeat split; auto.
  - vm_compute. reflexivity.
Qed.

Example m13_labels_current_ok :
  match wrun cfg_cur init m13_labels with
  | Ok s => match w_conns s 1 with Some r => c_sent r = [MResp 1 true; MEvent (WvCompleted 1)] | None => False end
  | _ => False end.
Proof. vm_compute. reflexivity. Qed.

(** A non-trivial execution of the current code: two waiting connections (the second with
    --progress: task events too); job 1 completes while connection 0 still awaits its journal
    flush, job 2 is cancelled after one task has finished.  Both clients get their completion,
    after their submit response. *)
Definition two_waiters : list wlabel :=
  [LRequest 0 (RqSubmitWait None 1 wf); LConn 0;
   LRequest 1 (RqSubmitWait None 2 (wait_filter true)); LConn 1;
   LEnv (ETaskEnd 1 1); LEnv (ETaskEnd 2 1); LFlushAck 1; LConn 1; LConn 1; LEnv (ECancel 2 1);
   LFlushAck 0; LConn 0; LConn 0; LConn 1; LConn 1; LConn 1; LConn 1].

Example two_waiters_ok :
  match wrun cfg_cur init two_waiters with
  | Ok s => match w_conns s 0, w_conns s 1 with
            | Some r0, Some r1 =>
                c_job r0 = Some 1 /\ c_closed r0 = false /\ c_job r1 = Some 2 /\ c_closed r1 = false
                /\ c_sent r0 = [MResp 1 true; MEvent (WvCompleted 1)]
                /\ c_sent r1 = [MResp 2 true; MEvent (WvTask 2); MEvent (WvCancel 2); MEvent (WvTask 2); MEvent (WvCompleted 2)]
                /\ map l_id (w_listeners s) = [1; 2]
            | _, _ => False end
  | _ => False end.
Proof. vm_compute. repeat split; reflexivity. Qed.

(** the harness-style replay of the same scenario *)
Example wait_trace_ok_example :
  wait_trace_ok [LRequest 0 (RqSubmitWait None 1 wf); LRequest 1 (RqSubmitWait None 2 wf);
                 LEnv (ETaskEnd 1 1); LEnv (ETaskEnd 2 1); LFlushAck 1; LFlushAck 0;
                 LObserve 0; LClose 0; LObserve 1; LClose 1]
                [(1, true, true); (2, false, false)] = true.
Proof. vm_compute. reflexivity. Qed.

(** ** An empty closed job is terminated from the start and the server never announces it *)
Definition SIL (j : jobid) (s : wstate) : Prop :=
  ~ In (WvCompleted j) (w_log s) /\ j < w_next_job s
  /\ (w_jobs s j = None \/ w_jobs s j = Some (mkJ false 0)).

Lemma forward_SIL j e s : e <> WvCompleted j -> SIL j s -> SIL j (forward e s).
Proof.
  intros Hne (Hn & Hlt & Hj). split; [|split; [exact Hlt|exact Hj]].
  cbn [forward w_log]. apply not_in_snoc_other; auto.
Qed.

Lemma check_termination_SIL j j' s : j' <> j -> SIL j s -> SIL j (wcheck_termination j' s).
Proof.
  intros Hne HS. unfold wcheck_termination. destruct (w_jobs s j') as [jr|]; [|exact HS].
  destruct (jr_active jr =? 0); [|exact HS]. destruct (jr_open jr); apply forward_SIL; auto; congruence.
Qed.

Lemma set_job_SIL j j' jr s : j' <> j -> SIL j s -> SIL j (wset_job j' jr s).
Proof.
  intros Hne (Hn & Hlt & Hj). split; [exact Hn|split; [exact Hlt|]]. cbn [wset_job w_jobs].
  destruct (j =? j') eqn:E; [apply N.eqb_eq in E; congruence|exact Hj].
Qed.

Lemma new_job_SIL j jr s1 :
  SIL j s1 ->
  SIL j (mkW (fun j' => if j' =? w_next_job s1 then Some jr else w_jobs s1 j') (w_next_job s1 + 1)
             (w_listeners s1) (w_conns s1) (w_log s1)).
Proof.
  intros (Hn & Hlt & Hj). split; [exact Hn|]. cbn [w_jobs w_next_job]. split; [lia|].
  destruct (j =? w_next_job s1) eqn:E; [apply N.eqb_eq in E; lia|exact Hj].
Qed.

Lemma do_submit_SIL j target n s j0 s1 : SIL j s -> do_submit target n s = Some (j0, s1) -> SIL j s1.
Proof.
  intros HS. unfold do_submit. destruct target as [jt|].
  - destruct (w_jobs s jt) as [jr|] eqn:Hjt; [|discriminate]. destruct (jr_open jr) eqn:Ho; [|discriminate].
    intros H; inversion H; subst j0 s1; clear H.
    assert (Hne : jt <> j).
    { intros ->. destruct HS as (_ & _ & [Hj|Hj]); rewrite Hj in Hjt; inversion Hjt; subst; discriminate. }
    apply set_job_SIL; [exact Hne|]. apply forward_SIL; [discriminate|exact HS].
  - intros H; inversion H; subst j0 s1; clear H.
    apply (new_job_SIL j _ (forward (WvSubmit (w_next_job s)) s)). apply forward_SIL; [discriminate|exact HS].
Qed.

Lemma guard_false_SIL j s jr k : SIL j s -> w_jobs s j = Some jr -> (0 <? k) && (k <=? jr_active jr) = false.
Proof.
  intros (_ & _ & [Hj|Hj]) Hjr; rewrite Hj in Hjr; inversion Hjr; subst. cbn [jr_active].
  destruct (0 <? k) eqn:E1; [|reflexivity]. destruct (k <=? 0) eqn:E2; [lia|reflexivity].
Qed.

Lemma env_step_SIL j e s : SIL j s -> SIL j (env_step e s).
Proof.
  intros HS. destruct e as [j' k|j' k| |target n|j'|j'|]; cbn [env_step].
  - destruct (w_jobs s j') as [jr|] eqn:Hj'; [|exact HS].
    destruct ((0 <? k) && (k <=? jr_active jr)) eqn:Hk; [|exact HS].
    assert (Hne : j' <> j) by (intros ->; rewrite (guard_false_SIL j s jr k HS Hj') in Hk; discriminate).
    apply check_termination_SIL; [exact Hne|]. apply forward_SIL; [discriminate|]. apply set_job_SIL; assumption.
  - destruct (w_jobs s j') as [jr|] eqn:Hj'; [|exact HS].
    destruct ((0 <? k) && (k <=? jr_active jr)) eqn:Hk; [|exact HS].
    assert (Hne : j' <> j) by (intros ->; rewrite (guard_false_SIL j s jr k HS Hj') in Hk; discriminate).
    apply check_termination_SIL; [exact Hne|]. apply forward_SIL; [discriminate|]. apply forward_SIL; [discriminate|].
    apply set_job_SIL; assumption.
  - apply (new_job_SIL j _ (forward (WvOpen (w_next_job s)) s)). apply forward_SIL; [discriminate|exact HS].
  - destruct (do_submit target n s) as [[j0 s1]|] eqn:DS; [|exact HS]. apply (do_submit_SIL j _ _ _ _ _ HS DS).
  - destruct (w_jobs s j') as [jr|] eqn:Hj'; [|exact HS]. destruct (jr_open jr) eqn:Ho; [|exact HS].
    assert (Hne : j' <> j).
    { intros ->. destruct HS as (_ & _ & [Hj|Hj]); rewrite Hj in Hj'; inversion Hj'; subst; discriminate. }
    apply check_termination_SIL; [exact Hne|]. apply forward_SIL; [discriminate|]. apply set_job_SIL; assumption.
  - destruct (w_jobs s j') as [jr|] eqn:Hj'; [|exact HS].
    destruct (negb (jr_open jr) && (jr_active jr =? 0)); [|exact HS].
    destruct HS as (Hn & Hlt & Hj). split; [exact Hn|split; [exact Hlt|]]. cbn [wset_job w_jobs].
    destruct (j =? j'); [left; reflexivity|exact Hj].
  - apply forward_SIL; [discriminate|exact HS].
Qed.

Lemma SIL_ext j s s' :
  w_jobs s' = w_jobs s -> w_next_job s' = w_next_job s -> w_log s' = w_log s -> SIL j s -> SIL j s'.
Proof. unfold SIL. intros -> -> ->. auto. Qed.

(** what a connection step does to the job side: nothing, or one [do_submit] *)
Lemma conn_step_jobs cf c s s' :
  conn_step cf c s = Ok s' ->
  (w_jobs s' = w_jobs s /\ w_next_job s' = w_next_job s /\ w_log s' = w_log s)
  \/ exists r target n flt j s1, w_conns s c = Some r /\ c_pc r = PcSubmitReq target n flt
       /\ do_submit target n s = Some (j, s1)
       /\ w_jobs s' = w_jobs s1 /\ w_next_job s' = w_next_job s1 /\ w_log s' = w_log s1.
Proof.
  unfold conn_step. destruct (w_conns s c) as [r|] eqn:Hr; [|intros H; inversion H; auto].
  destruct (c_pc r) as [target n flt|flt|i m|flt m|i|] eqn:Hpc.
  - destruct (do_submit target n s) as [[j s1]|] eqn:DS.
    + intros H. right. exists r, target, n, flt, j, s1. repeat split; auto;
        revert H; cbv zeta; unfold register;
        repeat match goal with |- context [u32_max <? ?x] => destruct (u32_max <? x) end;
        destruct (cf_reg_first cf), (cf_journal cf); cbn [bind]; try discriminate;
        intros H; inversion H; reflexivity.
    + intros H; inversion H; auto.
  - unfold register. destruct (u32_max <? _); cbn [bind]; [discriminate|]. intros H; inversion H; auto.
  - destruct (c_flushed r); intros H; inversion H; auto.
  - destruct (c_flushed r); [|intros H; inversion H; auto].
    unfold register. destruct (u32_max <? _); cbn [bind]; [discriminate|]. intros H; inversion H; auto.
  - unfold unregister. destruct (remove_first i (w_listeners s)); cbn [bind].
    + destruct (c_closed r); [intros H; inversion H; auto|]. destruct (c_queue r); [|intros H; inversion H; auto].
      destruct (sender_alive s c); intros H; inversion H; auto.
    + destruct (c_closed r); [discriminate|]. destruct (c_queue r); [|intros H; inversion H; auto].
      destruct (sender_alive s c); [intros H; inversion H; auto|discriminate].
  - intros H; inversion H; auto.
Qed.

Lemma step_SIL cf j s l s' : SIL j s -> wstep cf s l = Ok s' -> SIL j s'.
Proof.
  intros HS. destruct l as [c rq|c|c|c|e|c]; cbn [wstep].
  - destruct (w_conns s c); intros H; inversion H; subst; [exact HS|]. apply (SIL_ext j s); try reflexivity; exact HS.
  - intros H. destruct (conn_step_jobs _ _ _ _ H) as [(E1 & E2 & E3)|(r & target & n & flt & j0 & s1 & _ & _ & DS & E1 & E2 & E3)].
    + apply (SIL_ext j s); assumption.
    + apply (SIL_ext j s1); try assumption. apply (do_submit_SIL j _ _ _ _ _ HS DS).
  - destruct (w_conns s c) as [r|]; [|intros H; inversion H; subst; exact HS].
    destruct (c_pc r); intros H; inversion H; subst; try exact HS; apply (SIL_ext j s); try reflexivity; exact HS.
  - destruct (w_conns s c); intros H; inversion H; subst; [|exact HS]. apply (SIL_ext j s); try reflexivity; exact HS.
  - intros H; inversion H; subst. apply env_step_SIL; exact HS.
  - intros H; inversion H; subst; exact HS.
Qed.

Lemma run_SIL cf j ls : forall s s', SIL j s -> wrun cf s ls = Ok s' -> SIL j s'.
Proof.
  induction ls as [|l ls IH]; intros s s' HS; cbn [wrun].
  - intros H; inversion H; subst; exact HS.
  - destruct (wstep cf s l) as [s1| |] eqn:Hs; cbn [bind]; try discriminate.
    apply IH. apply (step_SIL cf j s l s1); assumption.
Qed.

(** A submit without tasks that creates a new job: the job is closed and has no active task from
    the start; whatever happens afterwards, [JobCompleted] is never emitted for it.  (The client
    does not wait for it: [wait_gets_completion_closed_immediately].) *)
Theorem empty_job_never_completes : forall cf ls s c r flt s' ls' s'',
  cur cf -> wrun cf init ls = Ok s ->
  w_conns s c = Some r -> c_pc r = PcSubmitReq None 0 flt -> conn_step cf c s = Ok s' ->
  wrun cf s' ls' = Ok s'' -> ~ In (WvCompleted (w_next_job s)) (w_log s'').
Proof.
  intros cf ls s c r flt s' ls' s'' Hcur Hrun Hr Hpc Hstep Hrun'.
  destruct (reachable_INV cf ls s Hcur Hrun) as [_ HJ].
  destruct (conn_step_jobs _ _ _ _ Hstep) as [(E1 & E2 & E3)|(r0 & target & n & flt0 & j0 & s1 & Hr0 & Hpc0 & DS & E1 & E2 & E3)].
  - exfalso. unfold conn_step in Hstep. rewrite Hr, Hpc in Hstep. cbn [do_submit] in Hstep. cbv zeta in Hstep.
    assert (Hl : w_log s' <> w_log s).
    { revert Hstep. unfold register.
      repeat match goal with |- context [u32_max <? ?x] => destruct (u32_max <? x) end;
      destruct (cf_reg_first cf), (cf_journal cf); cbn [bind]; try discriminate;
      intros H; inversion H; cbn [set_conn set_listeners w_log forward];
      intros E; apply (f_equal (@length ev)) in E; rewrite app_length in E; cbn [length] in E; lia. }
    congruence.
  - rewrite Hr in Hr0; inversion Hr0; subst r0. rewrite Hpc in Hpc0; inversion Hpc0; subst target n flt0.
    cbn [do_submit] in DS. inversion DS; subst j0.
    assert (HS : SIL (w_next_job s) s').
    { split; [|split].
      - rewrite E3. subst s1. cbn [w_log forward]. apply not_in_snoc_other; [|discriminate].
        intros Hin. destruct (gj_done _ HJ _ Hin) as [Hlt _]. lia.
      - rewrite E2. subst s1. cbn [w_next_job]. lia.
      - right. rewrite E1. subst s1. cbn [w_jobs]. rewrite N.eqb_refl. reflexivity. }
    apply (run_SIL cf _ ls' s' s'' HS Hrun').
Qed.


(** ** The harness replay ([settle], [observe]) and the specification "told iff completed" *)
Lemma run_app cf a : forall s b, wrun cf s (a ++ b) = (do s1 <- wrun cf s a; wrun cf s1 b).
Proof.
  induction a as [|l a IH]; intros s b; cbn [app wrun bind]; [reflexivity|].
  destruct (wstep cf s l) as [s1| |]; cbn [bind]; auto.
Qed.

(** a settle is a run: a sequence of [LConn] labels *)
Lemma settle_is_run cf cs : forall s s', settle cf cs s = Ok s' ->
  exists ls', wrun cf s ls' = Ok s' /\ forall l, In l ls' -> exists c, l = LConn c.
Proof.
  induction cs as [|c cs IH]; intros s s'; cbn [settle].
  - intros H; inversion H; subst. exists []. split; [reflexivity|intros l []].
  - unfold settle_conn at 1. set (fuel := match w_conns s c with Some r => _ | None => O end).
    destruct (wrun cf s (repeat (LConn c) fuel)) as [s1| |] eqn:R; cbn [bind]; try discriminate.
    intros H. destruct (IH s1 s' H) as (ls2 & Hrun2 & Hall).
    exists (repeat (LConn c) fuel ++ ls2). split.
    + rewrite run_app, R. exact Hrun2.
    + intros l Hl. apply in_app_iff in Hl. destruct Hl as [Hl|Hl]; [apply repeat_spec in Hl; eauto|auto].
Qed.

Lemma idle_step cf c s r i :
  G_conn s -> w_conns s c = Some r -> c_pc r = PcStream i -> c_closed r = false -> c_queue r = [] ->
  conn_step cf c s = Ok s.
Proof.
  intros HG Hr Hpc Hcl Hq. unfold conn_step. rewrite Hr, Hpc, Hcl, Hq.
  destruct (co_lst _ _ _ _ (proj2 HG c r Hr) i) as (l & Hl & Hlc & _); [rewrite Hpc; reflexivity|].
  assert (Hsa : sender_alive s c = true).
  { unfold sender_alive. apply existsb_exists. exists l; split; [exact Hl|apply N.eqb_eq; exact Hlc]. }
  rewrite Hsa. reflexivity.
Qed.

(** At a check of a waiting connection whose handler is in its stream loop (in the harness: any
    [WAITCHECK] - it is enabled only after [FLUSHDONE] delivered the response): after the executor
    has run the connection to quiescence the client HAS BEEN TOLD IFF THE JOB HAS COMPLETED.  This
    is the specification line the driver prints ("delivered = completed"), as a theorem about the
    model of the code, in every reachable state. *)
Theorem wait_check_spec : forall cf ls s c r i j,
  cur cf -> wrun cf init ls = Ok s ->
  w_conns s c = Some r -> c_pc r = PcStream i -> c_closed r = false -> c_job r = Some j ->
  exists s', settle_conn cf c s = Ok s' /\ observe s' c = Some (j, completed s j, completed s j).
Proof.
  intros cf ls s c r i j Hcur Hrun Hr Hpc Hcl Hj.
  destruct (drain cf c (c_queue r) s r i Hr Hpc Hcl eq_refl) as (s1 & r1 & Hrun1 & Hr1 & Hs1 & Hc1 & Hj1 & Hp1 & Hq1 & Hl1).
  assert (Hreach : wrun cf init (ls ++ repeat (LConn c) (length (c_queue r))) = Ok s1).
  { rewrite run_app, Hrun. exact Hrun1. }
  destruct (reachable_INV cf _ s1 Hcur Hreach) as [HG1 HJ1].
  pose proof (idle_step cf c s1 r1 i HG1 Hr1 Hp1 Hc1 Hq1) as Hidle.
  exists s1. split.
  - unfold settle_conn. rewrite Hr.
    replace (S (S (S (length (c_queue r))))) with (length (c_queue r) + 3)%nat by lia.
    rewrite repeat_app, run_app, Hrun1. cbn [bind repeat wrun wstep]. rewrite Hidle. cbn [bind]. rewrite Hidle. cbn [bind]. rewrite Hidle. reflexivity.
  - rewrite Hj in Hj1.
    destruct (wait_gets_completion cf _ s1 c r1 j Hcur Hreach Hr1 Hj1 Hc1) as (_ & Hcnt & Honce).
    rewrite Hq1 in Hcnt. cbn [count_occ] in Hcnt.
    unfold observe. rewrite Hr1, Hj1. unfold completed, told. rewrite Hl1.
    destruct (in_dec ev_eq_dec (WvCompleted j) (w_log s)) as [Hin|Hnin];
      destruct (in_dec msg_eq_dec (MEvent (WvCompleted j)) (c_sent r1)) as [Hin2|Hnin2]; try reflexivity; exfalso.
    + rewrite <- Hl1 in Hin. apply (count_occ_In ev_eq_dec) in Hin. apply (count_occ_not_In msg_eq_dec) in Hnin2. lia.
    + rewrite <- Hl1 in Hnin. apply (count_occ_not_In ev_eq_dec) in Hnin. apply (count_occ_In msg_eq_dec) in Hin2. lia.
Qed.
