(** C03 across a restart, part 5: whole histories.

    [step_EDG]: what one operation does to the dependency edges the core keeps - an edge survives
    or its dependent gets a terminal event in this step; a new edge points to a task that is in
    the core after the step.
    [history_dep_closed]: for EVERY history [run (init_sys r m) ops = Ok (s, outs)] (hypotheses
    [op_wf], [run_fresh] as for all invariants of the development) the event stream [outs] is
    dependency-closed w.r.t. the union over all states of the history of the edges the core keeps
    ([hdep]): when an event kills [t], every task that depends on [t] in ANY state of the history
    (earlier or later) is named by a terminal event up to and including that event.  A server
    restarted from any prefix of the journal therefore never finds a task with a dead dependency
    but without terminal record. *)
From HQ Require Import Base.Prelude Cluster.Types Cluster.Core Cluster.Reactor Cluster.Worker Cluster.Server Cluster.Sys Cluster.Monitors Cluster.ProofsJob Cluster.ProofsMore Cluster.ProofsTerminal Cluster.ProofsStep Cluster.ProofsFinal Cluster.BijBase Cluster.BijCore Cluster.BijHq Cluster.BijSt Cluster.BijReact Cluster.BijFinal Cluster.ProofsOnce Cluster.StartFinBase Cluster.RejHyp Cluster.InvWFinal Cluster.InvQStep Cluster.InvDBase Cluster.InvDMap Cluster.InvDSpec Cluster.InvDRem Cluster.InvDReact Cluster.InvDSched Cluster.InvDHq Cluster.InvDStep Cluster.InvAll Cluster.InvBundle Cluster.StartFin2 Cluster.DepOrderBase Cluster.DepOrderReact Cluster.DepOrderStep Cluster.DepOrderSubmit.
From Coq Require Import ZArith Lia.
Local Open Scope N_scope.

Arguments N.add : simpl never.
Arguments N.sub : simpl never.

(** * One operation and the edges *)
Record EDG (s s' : sys) (outs : list out) : Prop := mkEDG {
  edg_fwd : forall x t, cdep (s_core s) x t -> cdep (s_core s') x t \/ In x (terminal_ids outs);
  edg_back : forall x t, cdep (s_core s') x t -> cdep (s_core s) x t \/ fm (s_core s') t <> None
}.

Lemma EDG_egrow s s' outs : egrow (fm (s_core s)) (fm (s_core s')) -> EDG s s' outs.
Proof.
  intros [A B]. constructor.
  - intros x t (tx & Ex & Ht). left. destruct (A _ _ Ex) as (tx' & Ex' & Ed). exists tx'. split; [exact Ex' | rewrite Ed; exact Ht].
  - intros x t (tx' & Ex' & Ht). destruct (B _ _ Ex') as [(tx & Ex & Ed)|Hdom].
    + left. exists tx. split; [exact Ex | rewrite <- Ed; exact Ht].
    + right. apply Hdom. exact Ht.
Qed.

Lemma EDG_tasks s s' outs : c_tasks (s_core s') = c_tasks (s_core s) -> EDG s s' outs.
Proof. intros E. apply EDG_egrow. apply egrow_tasks. exact E. Qed.

Lemma scr_egrow c c' : scr c c' -> egrow (fm c) (fm c').
Proof.
  intros [_ S]. split.
  - intros x tx Ex. destruct (SC_some _ _ _ _ S Ex) as (tx' & Ex' & (_ & Hd & _) & _). eauto.
  - intros x tx' Ex'. destruct (SC_some' _ _ _ _ S Ex') as (tx & Ex & (_ & Hd & _) & _). left. eauto.
Qed.

Lemma EDG_LK (s0 : st) s' outs :
  W s0 -> LK s0 (s', outs) -> terminal_ids (snd s0) = [] -> EDG (fst s0) s' outs.
Proof.
  intros HW L Hq. destruct (L HW) as (HW' & S & ext & E & _ & V). cbn [snd] in E. constructor.
  - intros x t Hd. destruct (cdep_step _ _ _ (w_cb _ HW) (w_cb _ HW') S V x t Hd) as [Hc|Hin]; [left; exact Hc|].
    right. rewrite E, terminal_ids_app, Hq. exact Hin.
  - intros x t (tx' & Ex' & Ht). left. destruct (S _ _ Ex') as (tx & Ex & Ed). exists tx. split; [exact Ex | rewrite <- Ed; exact Ht].
Qed.

Theorem step_EDG s o s' outs : INV s -> op_wf o -> step s o = Ok (s', outs) -> EDG s s' outs.
Proof.
  intros HI Hwf H. pose proof (INV_W _ HI) as HW.
  assert (HQA : QA (s_core s)).
  { apply QSTMT_QA. destruct (inv_qs _ HI) as (_ & Q1 & Q2 & _). split; assumption. }
  assert (P : PRE (s, [])) by (split; [exact (inv_d _ HI) | exact (inv_dj _ HI)]).
  destruct o; cbn [step] in H.
  - apply EDG_tasks. unfold on_new_worker in H. inversion H; subst. reflexivity.
  - destruct (find_proc _ w); [|discriminate].
    apply (EDG_LK (s, []) s' outs HW); [|reflexivity].
    eapply LK_on_remove_worker; [exact HQA | apply WI_worker_sets_ok; exact (inv_w _ HI) | exact H].
  - destruct (bad_submit_lengths _ _); [inversion H; subst; apply EDG_tasks; reflexivity|]. apply EDG_egrow. change (egrow (fm (core_of (s, []))) (fm (core_of (s', outs)))).
    eapply (submit_array_fwd (s, [])); [exact (inv_fresh _ HI) | exact P | | exact H].
    destruct entries; exact Hwf.
  - destruct (bad_graph_rq _ _); [inversion H; subst; apply EDG_tasks; reflexivity|]. destruct (dead_dep _ _ _); [inversion H; subst; apply EDG_tasks; reflexivity|].
    apply EDG_egrow. change (egrow (fm (core_of (s, []))) (fm (core_of (s', outs)))).
    eapply (fun X => proj1 (submit_graph_X (s, []) _ _ _ _ (s', outs) (inv_fresh _ HI) P (inv_cb _ HI) X)). exact H.
  - apply EDG_tasks. unfold handle_open in H. inversion H; subst. reflexivity.
  - apply EDG_tasks. unfold handle_close in H.
    destruct (find_job (hq_jobs (s, [])) j) as [jb|]; [|inversion H; subst; reflexivity].
    destruct (j_open jb); [|inversion H; subst; reflexivity].
    apply bind_ok in H. destruct H as (s1 & H1 & H). inversion H; subst.
    destruct (check_termination_jt _ _ _ H1) as [C1 _]. unfold core_same in C1.
    change (c_tasks (core_of s1) = c_tasks (s_core s)). rewrite C1. reflexivity.
  - apply (EDG_LK (s, []) s' outs HW); [|reflexivity]. eapply LK_handle_cancel; exact H.
  - apply EDG_tasks. unfold handle_forget in H. destruct (find_job _ j) as [jb|]; [|inversion H; subst; reflexivity].
    apply bind_ok in H. destruct H as (na & _ & H). destruct (negb (j_open jb) && na); inversion H; subst; reflexivity.
  - destruct (find_proc _ w) as [p|]; [|discriminate]. destruct (p_down p); [discriminate|].
    inv_binds H. inversion H; subst. apply EDG_tasks. reflexivity.
  - destruct (find_proc _ w) as [p|]; [|discriminate]. destruct (p_up p) as [|m rest]; [discriminate|].
    destruct m.
    + match type of H with on_task_update ?s1 _ _ = _ => pose proof (LK_on_task_update s1 _ _ _ H) as L; set (sx := s1) in * end.
      assert (HWx : W sx) by (apply (proj1 (W_same_keys (s, []) sx (scr_tasks _ _ eq_refl) eq_refl eq_refl HW))).
      destruct (EDG_LK sx s' outs HWx L eq_refl) as [A B]. constructor; [exact A | exact B].
    + apply EDG_egrow. apply scr_egrow.
      match type of H with on_retract_response ?s1 _ _ = _ => exact (on_retract_response_scr s1 _ _ _ H) end.
  - destruct (c_flag (s_core s)); [|discriminate].
    apply EDG_egrow. apply scr_egrow. exact (run_scheduling_scr (s, []) _ _ HQA H).
  - destruct (find_proc _ w) as [p|]; [|discriminate]. inv_binds H. inversion H; subst. apply EDG_tasks. reflexivity.
  - destruct (find_proc _ w) as [p|]; [|discriminate]. inversion H; subst. apply EDG_tasks. reflexivity.
  - inversion H; subst. apply EDG_tasks. reflexivity.
  - inv_binds H. inversion H; subst. apply EDG_tasks. reflexivity.
Qed.

(** * Dead tasks *)
Lemma dead_outs s o1 o2 t : dead (s, o1) t -> dead (s, o2) t.
Proof. intros D. exact D. Qed.

Lemma INV_fresh s : INV s -> fresh (s, []).
Proof. apply inv_fresh. Qed.

Lemma step_dead s o s' outs t : INV s -> step s o = Ok (s', outs) -> dead (s, []) t -> dead (s', []) t.
Proof.
  intros HI H D. apply (dead_outs s' outs []). eapply G_dead; [exact (inv_fresh _ HI) | eapply G_step; [exact (inv_fresh _ HI) | exact H] | exact D].
Qed.

(** A task named by a terminal event of the step was not dead before and is dead afterwards. *)
Lemma step_killed s o s' outs t :
  INV s -> step s o = Ok (s', outs) -> In t (terminal_ids outs) -> dead (s', []) t /\ ~ dead (s, []) t.
Proof.
  intros HI H Hin. destruct (TE_step _ _ _ _ (inv_fresh _ HI) H t) as [T1 T2]. cbn [snd] in T1, T2.
  assert (Hc : (1 <= tcount outs t)%nat) by (unfold tcount; apply (count_occ_In tid_dec) in Hin; lia).
  assert (Z : tcount [] t = 0%nat) by reflexivity. rewrite Z in T1, T2. split.
  - destruct T2 as [E|[_ D]]; [lia | exact D].
  - intros D. destruct (T1 D) as [_ E]. lia.
Qed.

(** A dead task is not in the core. *)
Lemma dead_not_in_core s t : INV s -> dead (s, []) t -> fm (s_core s) t = None.
Proof.
  intros HI D. destruct (fm (s_core s) t) as [tt|] eqn:E; [|reflexivity]. exfalso.
  apply (active_not_dead (s, []) t); [|exact D]. eapply core_task_active; [exact (inv_cb _ HI) | exact E].
Qed.

(** * Histories *)
Lemma along_app (P : sys -> Prop) a : forall s b, along P s (a ++ b) -> along P s a.
Proof.
  induction a as [|o r IH]; cbn [app along]; intros s b H.
  - destruct b; cbn [along] in H; split; [apply H | exact I | apply H | exact I].
  - destruct H as [H1 H2]. split; [exact H1|]. destruct (step s o) as [[s1 o1]| |]; [eapply IH; exact H2 | exact I | exact I].
Qed.

Lemma along_head (P : sys -> Prop) s ops : along P s ops -> P s.
Proof. destruct ops; cbn [along]; intros H; apply H. Qed.

(** Once [t] is dead, an edge to [t] in a later state was there before. *)
Lemma back_chain ops1 : forall s1 si oi x t,
  along INV s1 ops1 -> Forall op_wf ops1 -> run s1 ops1 = Ok (si, oi) -> dead (s1, []) t ->
  cdep (s_core si) x t -> cdep (s_core s1) x t.
Proof.
  induction ops1 as [|o r IH]; cbn [run]; intros s1 si oi x t Hal Hwf H D Hc; [inversion H; subst; exact Hc|].
  apply bind_ok in H. destruct H as ([s2 o2] & H1 & H). apply bind_ok in H. destruct H as ([s3 o3] & H2 & H). inversion H; subst.
  inversion Hwf as [|? ? Hw1 Hw2]; subst. cbn [along] in Hal. destruct Hal as [HI Hal]. rewrite H1 in Hal.
  pose proof (step_dead _ _ _ _ t HI H1 D) as D2.
  pose proof (IH _ _ _ x t Hal Hw2 H2 D2 Hc) as Hc2.
  destruct (edg_back _ _ _ (step_EDG _ _ _ _ HI Hw1 H1) x t Hc2) as [A|A]; [exact A|].
  exfalso. apply A. apply dead_not_in_core; [exact (along_head _ _ _ Hal) | exact D2].
Qed.

(** The edges of all states of a history that starts in [s]. *)
Definition hd (s : sys) (ops : list op) : deprel :=
  fun x t => exists ops1 ops2 s1 o1, ops = ops1 ++ ops2 /\ run s ops1 = Ok (s1, o1) /\ cdep (s_core s1) x t.

Lemma run_hd ops : forall s (T : list tid) (Dep : deprel) s' outs,
  along INV s ops -> Forall op_wf ops ->
  (forall x t, Dep x t -> In x T \/ dead (s, []) t \/ hd s ops x t) ->
  run s ops = Ok (s', outs) -> jc Dep (fun x => In x T) outs.
Proof.
  induction ops as [|o r IH]; cbn [run]; intros s T Dep s' outs Hal Hwf HD H; [inversion H; subst; exact I|].
  apply bind_ok in H. destruct H as ([s1 o1] & H1 & H). apply bind_ok in H. destruct H as ([s2 o2] & H2 & H). inversion H; subst.
  inversion Hwf as [|? ? Hw1 Hw2]; subst. cbn [along] in Hal. destruct Hal as [HI Hal]. rewrite H1 in Hal.
  pose proof (step_EDG _ _ _ _ HI Hw1 H1) as HE.
  pose proof (along_head _ _ _ Hal) as HI1.
  apply jc_app. split.
  - (* the events of this step *)
    apply jc_decomp. intros pre e post t x E Ht Hx.
    assert (Hkill : In t (terminal_ids o1)).
    { rewrite E, terminal_ids_app, tids_cons. apply in_app_iff. right. apply in_app_iff. left. apply kill_ids_sub. exact Ht. }
    destruct (step_killed _ _ _ _ t HI H1 Hkill) as [D1 ND].
    assert (Hcore : cdep (s_core s) x t -> In x (terminal_ids (pre ++ [e])) \/ In x T).
    { intros Hc. destruct (proj1 (jc_decomp _ _ _) (step_dep_closed_jc _ _ _ _ HI H1) pre e post t x E Ht Hc) as [A|[]]. left; exact A. }
    destruct (HD _ _ Hx) as [A|[A|(ops1 & ops2 & si & oi & Eo & Hr & Hc)]]; [right; exact A | contradiction|].
    destruct ops1 as [|o' ops1'].
    + cbn [run] in Hr. inversion Hr; subst si oi. apply Hcore. exact Hc.
    + cbn [app] in Eo. inversion Eo; subst o' r. cbn [run] in Hr. rewrite H1 in Hr. cbn [bind] in Hr.
      apply bind_ok in Hr. destruct Hr as ([s3 o3] & H3 & Hr). inversion Hr; subst si oi.
      apply Hcore.
      pose proof (back_chain _ _ _ _ x t (along_app _ _ _ _ Hal) (proj1 (proj1 (Forall_app _ _ _) Hw2)) H3 D1 Hc) as Hc1.
      destruct (edg_back _ _ _ HE x t Hc1) as [A|A]; [exact A|].
      exfalso. apply A. apply dead_not_in_core; [exact HI1 | exact D1].
  - (* the rest of the history *)
    eapply jc_ext; [|apply (IH s1 (terminal_ids o1 ++ T) Dep s' o2 Hal Hw2); [|exact H2]].
    + intros x Hx. apply in_app_iff in Hx. exact Hx.
    + intros x t Hx. destruct (HD _ _ Hx) as [A|[A|(ops1 & ops2 & si & oi & Eo & Hr & Hc)]].
      * left. apply in_app_iff. right; exact A.
      * right. left. exact (step_dead _ _ _ _ t HI H1 A).
      * destruct ops1 as [|o' ops1'].
        -- cbn [run] in Hr. inversion Hr; subst si oi.
           destruct (edg_fwd _ _ _ HE x t Hc) as [B|B]; [|left; apply in_app_iff; left; exact B].
           right. right. exists [], r, s1, []. split; [reflexivity|]. split; [reflexivity | exact B].
        -- cbn [app] in Eo. inversion Eo; subst o' r. cbn [run] in Hr. rewrite H1 in Hr. cbn [bind] in Hr.
           apply bind_ok in Hr. destruct Hr as ([s3 o3] & H3 & Hr). inversion Hr; subst si oi.
           right. right. exists ops1', ops2, s3, o3. split; [reflexivity|]. split; [exact H3 | exact Hc].
Qed.

(** The edges the core keeps in any state of the history. *)
Definition hdep (reserve maxfill : N) (ops : list op) : deprel := hd (init_sys reserve maxfill) ops.

Theorem history_dep_closed_jc ops reserve maxfill s outs :
  Forall op_wf ops -> run_fresh (init_sys reserve maxfill) ops = true ->
  run (init_sys reserve maxfill) ops = Ok (s, outs) ->
  jc (hdep reserve maxfill ops) NoT outs.
Proof.
  intros Hwf Hf H.
  eapply jc_ext; [|eapply (run_hd ops (init_sys reserve maxfill) [] (hdep reserve maxfill ops)); [apply along_INV; assumption | exact Hwf | | exact H]].
  - intros x [].
  - intros x t Hx. right. right. exact Hx.
Qed.

(** C03 across a restart, for every history: whenever the journal [outs] has an event that kills
    [t] (EvFailed t, EvCanceled / EvAborted naming t), every task [x] that depends on [t] in the
    core in ANY state [s1] of the history (after any prefix [ops1] of the operations) is named by
    a terminal event of the journal up to and including that event.  So no prefix of the journal
    contains a dead task one of whose dependents lacks its terminal record. *)
Theorem history_dep_closed ops reserve maxfill s outs :
  Forall op_wf ops -> run_fresh (init_sys reserve maxfill) ops = true ->
  run (init_sys reserve maxfill) ops = Ok (s, outs) ->
  forall pre e post t, outs = pre ++ OEv e :: post -> In t (kill_ids (OEv e)) ->
  forall ops1 ops2 s1 outs1 x tx, ops = ops1 ++ ops2 -> run (init_sys reserve maxfill) ops1 = Ok (s1, outs1) ->
    find_task (c_tasks (s_core s1)) x = Some tx -> In t (t_deps tx) ->
    In x (terminal_ids (pre ++ [OEv e])).
Proof.
  intros Hwf Hf H pre e post t E Ht ops1 ops2 s1 outs1 x tx Eo Hr Ex Hd.
  pose proof (history_dep_closed_jc _ _ _ _ _ Hwf Hf H) as J.
  destruct (proj1 (jc_decomp _ _ _) J pre (OEv e) post t x E Ht) as [A|[]]; [|exact A].
  exists ops1, ops2, s1, outs1. split; [exact Eo|]. split; [exact Hr|]. exists tx. split; assumption.
Qed.

Print Assumptions history_dep_closed.
