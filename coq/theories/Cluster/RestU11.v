(** C02 "at rest", part 11: the invariant [NB] ("no silent end for a task the core knows") is kept
    by every operation of the server side. *)
From HQ Require Import Base.Prelude Cluster.Types Cluster.Core Cluster.Reactor Cluster.Worker Cluster.Server Cluster.Sys Cluster.Monitors Cluster.RejHyp Cluster.ProofsStep Cluster.ProofsFinal Cluster.BijBase Cluster.BijCore Cluster.BijSt Cluster.BijReact Cluster.BijFinal Cluster.InvWBase Cluster.InvDStep Cluster.InvBundle Cluster.InvProcsDef Cluster.NoPanicL0 Cluster.NoPanicU0 Cluster.NoPanicU1 Cluster.NoPanicU2 Cluster.NoPanicU3 Cluster.NoPanicU4 Cluster.NoPanicU20 Cluster.ExecU8 Cluster.ExecU10 Cluster.ExecU11 Cluster.ExecU13 Cluster.RestU2 Cluster.RestU3 Cluster.RestU4 Cluster.RestU5 Cluster.RestU6 Cluster.RestU7 Cluster.RestU8 Cluster.RestU9 Cluster.RestU10.
From Coq Require Import ZArith Lia Sorting.Sorted.
Local Open Scope N_scope.

Notation tid_eqb_eq := NoPanicU1.tid_eqb_eq.
Notation tid_eqb_refl := NoPanicU1.tid_eqb_refl.

Lemma sel_in {A} y x (a it : A) : In it (sel y x a) -> y = x.
Proof. unfold sel. destruct (tid_eqb y x) eqn:E; [intros _; apply tid_eqb_eq; exact E | intros []]. Qed.

Lemma uitems_seen s w p x : PROTO s -> find_proc (s_procs s) w = Some p -> uitems x (p_up p) <> [] -> seen (s_hq s) x = true.
Proof.
  intros HP Hp Hne. apply (pr_seen _ HP w p x Hp). unfold proc_tids. apply in_app_iff. right. apply in_app_iff. left.
  destruct (uitems x (p_up p)) as [|it r] eqn:E; [congruence|]. assert (Hin : In it (uitems x (p_up p))) by (rewrite E; left; reflexivity).
  unfold uitems in Hin. apply in_flat_map in Hin. destruct Hin as (m & Hm & Hit). apply in_flat_map. exists m. split; [exact Hm|].
  destruct m as [us|ids]; cbn [uitems_msg umsg_tids] in *; apply in_flat_map in Hit; destruct Hit as (u & Hu & Hit).
  - apply in_flat_map. exists u. split; [exact Hu|]. destruct u; cbn [uitem_of wupdate_tids] in *; try (apply sel_in in Hit; subst; left; reflexivity). destruct Hit.
  - apply sel_in in Hit. subst. exact Hu.
Qed.

(** the word-level core of the argument *)
Lemma bad_step v v' hd U' D D' :
  lang v (hd ++ U') LNone D = true -> badw v (hd ++ U') LNone = false -> lang v' U' LNone D' = true -> badw v' U' LNone = true -> noend hd = true ->
  U' = [] /\ noirun hd = true /\ match v' with VR _ | VM true => True | _ => False end /\
  match v with VR _ | VM true => False | VM false => exists rv', D = [IDC (Some rv') true] | _ => True end.
Proof.
  intros Hl Hg Hl' Hb Hne. cbn [badw is_lnone andb] in Hb.
  destruct U' as [|i1 [|i2 U']].
  - rewrite app_nil_r in *. destruct (lang_good_noend _ _ _ Hl Hg Hne) as [A B]. split; [reflexivity|]. split; [exact A|]. split; [|exact B].
    destruct v' as [|vrv| | |vrv|[|]]; try discriminate; exact I.
  - destruct i1; try discriminate. pose proof (lang_irun_last _ _ _ Hl hd prefilled rv eq_refl) as E. subst hd. cbn in Hg. discriminate.
  - destruct i1; discriminate.
Qed.

Lemma find_task_in_map c x t : find_task (c_tasks c) x = Some t -> In x (map t_id (c_tasks c)).
Proof. intros H. destruct (find_task_some _ _ _ H) as [Hin Hid]. rewrite <- Hid. apply in_map. exact Hin. Qed.

Definition server_op (o : op) : Prop :=
  match o with OpConnect _ _ | OpDDown _ _ | OpEnd _ _ _ | OpFailNext _ _ | OpTimer => False | _ => True end.

Theorem NB_server s o s' outs : server_op o -> INV s -> INV s' -> PROTO s -> PROTO s' -> NB s -> step s o = Ok (s', outs) -> NB s'.
Proof.
  intros Ho HI HI' HP HP' HN H w p' x t' Hp' Hf'.
  destruct (badw _ _ _) eqn:Hb; [exfalso | reflexivity].
  destruct (step_sfr s o s' outs Ho HI HP HP' H w p' Hp') as (p & add & Hp & Eb & Er & Efu & Ed & Hu).
  assert (EL : local p' x = local p x) by (unfold local; rewrite Eb, Er; reflexivity).
  pose proof (pr_words _ HP' w p' x t' Hp' Hf') as Hl'. rewrite EL in Hb, Hl'.
  assert (ELn : local p x = LNone) by (destruct (local p x); try reflexivity; cbn in Hb; discriminate). rewrite ELn in *.
  pose proof (cb_s _ (inv_cb _ HI)) as Hcs. change (core_of (s, [])) with (s_core s) in Hcs.
  destruct (find_task_some _ _ _ Hf') as [Hin' Hid'].
  (* the prefix of the up channel consumed by this operation *)
  assert (Hhd : exists hd, uitems x (p_up p) = hd ++ uitems x (p_up p') /\
            (hd = [] \/ exists m rest, o = OpDUp w /\ p_up p = m :: rest /\ hd = uitems_msg x m)).
  { destruct Hu as [Eu|(Eo & m & Eu)]; [exists []; rewrite Eu; split; [reflexivity | left; reflexivity]|].
    exists (uitems_msg x m). rewrite Eu, uitems_cons. split; [reflexivity|]. right. exists m, (p_up p'). auto. }
  destruct Hhd as (hd & EU & Hhd).
  (* a running message of this worker for [x] among the consumed items *)
  assert (HT : step_RT s o x w -> exists b rv, In (IRun b rv) (uitems x (p_up p))).
  { intros HTx. destruct o; cbn [step_RT] in HTx; try contradiction. destruct (find_proc (s_procs s) w0) as [p0|] eqn:Hp0; [|destruct HTx].
    destruct (p_up p0) as [|[us|ids] rest0] eqn:Eu0; try destruct HTx. subst w0.
    assert (p0 = p) by congruence. subst p0. destruct (runs_irun _ _ H1) as (b & rv & Hi). exists b, rv.
    rewrite Eu0, uitems_cons. apply in_app_iff. left. exact Hi. }
  (* finished / failed among the consumed items: the task is gone *)
  assert (Hend : noend hd = true).
  { destruct (noend hd) eqn:Hne; [reflexivity|]. exfalso.
    destruct Hhd as [->|(m & rest & Eo & Em & ->)]; [discriminate|]. subst o.
    destruct m as [us|ids]; [|cbn [uitems_msg] in Hne; rewrite noend_rr in Hne; discriminate].
    cbn [uitems_msg] in Hne. apply noend_ends in Hne.
    cbn [step] in H. rewrite Hp, Em in H.
    match type of H with on_task_update ?s1 _ _ = _ =>
      assert (G : gone (core_of (s', outs)) x) by
        (refine (on_task_update_gone s1 _ _ _ _ _ H x Hne); [exact (inv_hok _ HI) | eapply (CB_same (s, [])); [reflexivity | reflexivity | exact (inv_cb _ HI)]]) end.
    apply G. exact (find_task_in_map _ _ _ Hf'). }
  (* where a running root comes from *)
  assert (Horig : rroot (t_state t') = Some w ->
            (exists t, find_task (c_tasks (s_core s)) x = Some t /\
               (rroot (t_state t) = Some w \/ ((exists sol, o = OpSched sol) /\ s_hq s' = s_hq s /\ srel t t'))) \/ step_RT s o x w).
  { intros Hr. destruct (match o with OpSched _ => true | _ => false end) eqn:Eo.
    - destruct o; try discriminate. left. pose proof H as H0. cbn [step] in H0. destruct (c_flag (s_core s)); [|discriminate].
      destruct (run_scheduling_SR _ _ _ H0 t' Hin') as (t & Hin & Ei & Hs).
      exists t. split; [rewrite <- Hid', <- Ei; apply in_find_task; [exact (CS_sorted _ Hcs) | exact Hin]|]. right.
      split; [eauto|]. split; [exact (run_scheduling_same _ _ _ H0) | exact Hs].
    - assert (Hns : forall sol, o <> OpSched sol) by (intros sol E; subst o; discriminate).
      destruct (step_RO s o s' outs Hns H t' w Hin' Hr) as [(t & Hin & Ei & Hrt)|HTx]; [left | right; rewrite <- Hid'; exact HTx].
      exists t. split; [rewrite <- Hid', <- Ei; apply in_find_task; [exact (CS_sorted _ Hcs) | exact Hin] | left; exact Hrt]. }
  destruct (find_task (c_tasks (s_core s)) x) as [t|] eqn:Hf.
  - (* the task was known before *)
    pose proof (pr_words _ HP w p x t Hp Hf) as Hl. pose proof (HN w p x t Hp Hf) as Hg. rewrite ELn, EU in *.
    rewrite Ed, ditems_app in Hl'.
    destruct (bad_step _ _ _ _ _ _ Hl Hg Hl' Hb Hend) as (EU' & Hni & Hv' & Hv). rewrite EU', app_nil_r in *.
    assert (Hr : rroot (t_state t') = Some w).
    { pose proof (view_running (t_state t') w (job_running (s_hq s') x)) as X. destruct (view_of (t_state t') w (job_running (s_hq s') x)); try contradiction; exact X. }
    destruct (Horig Hr) as [(t0 & Ht0 & [Hr0|((sol & Eo) & Ehq & Hs)])|HTx].
    + inversion Ht0; subst t0. destruct (root_view _ _ (job_running (s_hq s) x) Hr0) as [(rv & Ev)|Ev]; rewrite Ev in Hv; [contradiction|].
      destruct (job_running (s_hq s) x); [contradiction|]. destruct Hv as (rv' & ED). rewrite ED in Hl'. cbn [app] in Hl'.
      pose proof (lang_idc_not_running _ _ _ _ _ _ Hl') as X. destruct (view_of (t_state t') w (job_running (s_hq s') x)) as [|vrv| | |vrv|[|]]; contradiction.
    + inversion Ht0; subst t0. rewrite Ehq in *. destruct Hs as [Es|[Ew|(w1 & E1 & E2)]].
      * rewrite Es in Hv'. destruct (view_of (t_state t) w (job_running (s_hq s) x)) as [|vrv| | |vrv|[|]]; contradiction.
      * pose proof (pr_jr _ HP x t Hf) as Hj. unfold jr_ok in Hj. unfold is_waiting in Ew. destruct (t_state t); try discriminate.
        apply negb_true_iff in Hj. rewrite (proj2 (find_task_some _ _ _ Hf)) in Hj. rewrite Hj in Hv'.
        pose proof (pr_jr _ HP' x t' Hf') as Hj'. unfold jr_ok in Hj'. rewrite Ehq, Hid', Hj in Hj'.
        destruct (t_state t') as [n'|w1 rv1|w1|w1|w1 rv1|[|w0 ws]|]; cbn [view_of] in Hv'; try contradiction; try discriminate;
          try (destruct (N.eqb w1 w); contradiction). destruct (N.eqb w0 w); contradiction.
      * rewrite E2 in Hr. discriminate.
    + destruct (HT HTx) as (b & rv & Hi). exact (noirun_spec _ _ _ Hni Hi).
  - (* a new task *)
    pose proof (new_unseen s s' outs x t' HI HI' (G_step _ _ _ _ (inv_fresh _ HI) H) Hf Hf') as Hu0.
    assert (EU0 : uitems x (p_up p) = []).
    { destruct (uitems x (p_up p)) eqn:E; [reflexivity|]. rewrite (uitems_seen s w p x HP Hp) in Hu0; [discriminate | rewrite E; discriminate]. }
    rewrite EU0 in EU. destruct hd; [|discriminate]. cbn [app] in EU. rewrite <- EU in Hb.
    assert (Hr : rroot (t_state t') = Some w).
    { pose proof (view_running (t_state t') w (job_running (s_hq s') x)) as X. cbn in Hb. destruct (view_of (t_state t') w (job_running (s_hq s') x)) as [|vrv| | |vrv|[|]]; try discriminate; exact X. }
    destruct (Horig Hr) as [(t0 & Ht0 & _)|HTx]; [discriminate|].
    destruct (HT HTx) as (b & rv & Hi). rewrite EU0 in Hi. destruct Hi.
Qed.
