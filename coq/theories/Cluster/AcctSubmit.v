(** C05, accounting conjunct, part 5: submits.  A submit is the only step that adds tasks and
    request classes; it touches no assigned set and no free counter (only prefilled sets, through the
    retraction of lower-priority prefills), every task that exists keeps its request class and the
    request table is only appended to.  Relation [SUB c c'] says exactly that. *)
From HQ Require Import Base.Prelude Cluster.Types Cluster.Core Cluster.Reactor Cluster.Worker Cluster.Server Cluster.Sys Cluster.Monitors Cluster.ProofsJob Cluster.ProofsStep Cluster.BijBase Cluster.BijCore Cluster.BijHq Cluster.BijSt Cluster.InvWBase Cluster.InvWCore Cluster.InvWX1 Cluster.AcctBase Cluster.AcctReact.
From Coq Require Import ZArith Lia.
Local Open Scope N_scope.

Arguments N.add : simpl never.
Arguments N.sub : simpl never.

(** Same total, same assigned set, same free counter. *)
Definition same_af (wk wk' : sworker) : Prop :=
  w_res wk' = w_res wk /\
  match w_assign wk, w_assign wk' with
  | Sn a _ f, Sn a' _ f' => a' = a /\ f' = f
  | Mn _ _, Mn _ _ => True
  | _, _ => False
  end.

Section Sub.
(** [P]: what is known of the request classes a submit may add. *)
Variable P : rqdef -> Prop.

Definition WSAME (c c' : core) : Prop := forall wk', In wk' (c_workers c') -> exists wk, In wk (c_workers c) /\ same_af wk wk'.

Definition TSTAB (c c' : core) : Prop :=
  (exists l, c_rqs c' = c_rqs c ++ l /\ Forall P l) /\
  forall id t, find_task (c_tasks c) id = Some t -> exists t', find_task (c_tasks c') id = Some t' /\ t_rq t' = t_rq t.

Definition SUB (c c' : core) : Prop := WSAME c c' /\ TSTAB c c'.

Lemma same_af_refl wk : same_af wk wk.
Proof. split; [reflexivity|]. destruct (w_assign wk); auto. Qed.

Lemma same_af_trans a b c : same_af a b -> same_af b c -> same_af a c.
Proof.
  intros [R1 A1] [R2 A2]. split; [congruence|].
  destruct (w_assign a), (w_assign b), (w_assign c); try contradiction; auto.
  destruct A1 as [-> ->], A2 as [-> ->]. auto.
Qed.

Lemma SUB_refl c : SUB c c.
Proof.
  split; [intros wk H; exists wk; split; [exact H | apply same_af_refl]|].
  split; [exists []; rewrite app_nil_r; split; [reflexivity | constructor] | intros id t H; exists t; auto].
Qed.

Lemma SUB_trans c1 c2 c3 : SUB c1 c2 -> SUB c2 c3 -> SUB c1 c3.
Proof.
  intros [W1 [[l1 [R1 F1]] T1]] [W2 [[l2 [R2 F2]] T2]]. split; [|split].
  - intros wk3 H3. destruct (W2 _ H3) as (wk2 & H2 & S2). destruct (W1 _ H2) as (wk1 & H1 & S1).
    exists wk1. split; [exact H1 | eapply same_af_trans; eassumption].
  - exists (l1 ++ l2). split; [rewrite R2, R1, app_assoc; reflexivity | apply Forall_app; split; assumption].
  - intros id t H. destruct (T1 _ _ H) as (t2 & H2 & E2). destruct (T2 _ _ H2) as (t3 & H3 & E3). exists t3. split; [exact H3 | congruence].
Qed.

Lemma SUB_frame c c' : c_workers c' = c_workers c -> c_tasks c' = c_tasks c -> c_rqs c' = c_rqs c -> SUB c c'.
Proof.
  intros Ew Et Er. split; [intros wk H; rewrite Ew in H; exists wk; split; [exact H | apply same_af_refl]|].
  split; [exists []; rewrite app_nil_r; split; [exact Er | constructor] | intros id t H; exists t; rewrite Et; auto].
Qed.

Lemma SUB_new_rq c c' l : c_workers c' = c_workers c -> c_tasks c' = c_tasks c -> c_rqs c' = c_rqs c ++ l -> Forall P l -> SUB c c'.
Proof.
  intros Ew Et Er Fl. split; [intros wk H; rewrite Ew in H; exists wk; split; [exact H | apply same_af_refl]|].
  split; [exists l; split; [exact Er | exact Fl] | intros id t H; exists t; rewrite Et; auto].
Qed.

(** One task set: an existing one keeps its request class, or the id is new. *)
Lemma SUB_upd_task c x :
  (forall t0, find_task (c_tasks c) (t_id x) = Some t0 -> t_rq x = t_rq t0) -> SUB c (upd_task c x).
Proof.
  intros Hx. split; [intros wk H; exists wk; split; [exact H | apply same_af_refl]|].
  split; [exists []; rewrite app_nil_r; split; [reflexivity | constructor]|].
  intros id t Hf. cbn [c_tasks upd_task with_tasks]. rewrite find_set_task.
  destruct (tid_eqb id (t_id x)) eqn:E; [|exists t; auto].
  apply tid_eqb_eq in E. subst id. exists x. split; [reflexivity | apply Hx; exact Hf].
Qed.

(** One worker set: same assigned set and counter. *)
Lemma SUB_upd_worker c wk wk' : In wk (c_workers c) -> same_af wk wk' -> SUB c (upd_worker c wk').
Proof.
  intros Hin Hs. split; [|split; [exists []; rewrite app_nil_r; split; [reflexivity | constructor] | intros id t H; exists t; auto]].
  intros y Hy. cbn [c_workers upd_worker with_workers] in Hy. destruct (set_worker_in _ _ _ Hy) as [->|Hy'].
  - exists wk. auto.
  - exists y. split; [exact Hy' | apply same_af_refl].
Qed.

Lemma remove_prefill_same_af wk id wk' : remove_prefill_task wk id = Ok wk' -> same_af wk wk'.
Proof.
  unfold remove_prefill_task. destruct (w_assign wk) as [a p f|] eqn:Ea; [|discriminate].
  destruct (tid_mem id p); [|discriminate]. intros H; inversion H; subst. split; [reflexivity|]. rewrite Ea. cbn. auto.
Qed.

(** * Retraction *)
Lemma retract_states_SUB ids : forall c acc c' acc', retract_states c ids acc = Ok (c', acc') -> SUB c c'.
Proof.
  induction ids as [|id r IH]; cbn [retract_states]; intros c acc c' acc' H; [inversion H; subst; apply SUB_refl|].
  bstep H t Ht. apply get_task_find in Ht. destruct (t_state t) eqn:Est; try discriminate.
  bstep H wk Hw. bstep H wk' Hw'. eapply SUB_trans; [|eapply IH; exact H].
  eapply SUB_trans.
  - apply (SUB_upd_task c (with_state t (Retracting w))). intros t0 H0. cbn [t_id t_rq with_state] in *.
    destruct (find_task_some _ _ _ Ht) as [_ Hid]. rewrite Hid, Ht in H0. inversion H0; reflexivity.
  - eapply SUB_upd_worker; [|eapply remove_prefill_same_af; exact Hw'].
    cbn [c_workers upd_task with_tasks]. apply get_worker_find in Hw. apply (find_worker_some _ _ _ Hw).
Qed.

Lemma process_retracted_SUB s r s' : process_retracted s r = Ok s' -> SUB (core_of s) (core_of s').
Proof.
  unfold process_retracted. intros H. destruct r; [inversion H; subst; apply SUB_refl|].
  bstep H x Hx. destruct x as [c' groups]. rewrite (send_all_core _ _ _ H). cbn.
  eapply retract_states_SUB; exact Hx.
Qed.

(** * New tasks *)
Lemma register_deps_SUB deps : forall c id kept count c' kept' count',
  register_deps c id deps kept count = (c', kept', count') ->
  SUB c c' /\ (find_task (c_tasks c) id = None -> find_task (c_tasks c') id = None).
Proof.
  induction deps as [|d r IH]; cbn [register_deps]; intros c id kept count c' kept' count' H; [inversion H; subst; split; [apply SUB_refl | auto]|].
  destruct (find_task (c_tasks c) d) as [dep|] eqn:Ed; [|eapply IH; exact H].
  destruct (IH _ _ _ _ _ _ _ H) as [S1 N1]. destruct (find_task_some _ _ _ Ed) as [_ Hid]. split.
  - eapply SUB_trans; [|exact S1]. apply SUB_upd_task. intros t0 H0. cbn [t_id t_rq with_consumers] in *. rewrite Hid, Ed in H0. inversion H0; reflexivity.
  - intros Hn. apply N1. cbn [c_tasks upd_task with_tasks]. rewrite find_set_task. cbn [t_id with_consumers]. rewrite Hid.
    destruct (tid_eqb id d) eqn:E; [apply tid_eqb_eq in E; subst d; congruence | exact Hn].
Qed.

Lemma add_new_tasks_SUB ts : forall c ret c' ret', add_new_tasks c ts ret = Ok (c', ret') -> SUB c c'.
Proof.
  induction ts as [|t r IH]; cbn [add_new_tasks]; intros c ret c' ret' H; [inversion H; subst; apply SUB_refl|].
  destruct (register_deps c (t_id t) (t_deps t) [] 0) as [[c1 kept] count] eqn:Erd.
  destruct (register_deps_SUB _ _ _ _ _ _ _ _ Erd) as [S1 _].
  bstep H x Hx. destruct x as [c2 rt].
  assert (S2 : SUB c1 c2).
  { destruct (N.eqb count 0); [|inversion Hx; subst; apply SUB_refl].
    bstep Hx y Hy. destruct y as [qs rt0]. inversion Hx; subst. apply SUB_frame; reflexivity. }
  destruct (find_task (c_tasks c2) (t_id t)) eqn:Ef; [discriminate|].
  eapply SUB_trans; [exact S1|]. eapply SUB_trans; [exact S2|]. eapply SUB_trans; [|eapply IH; exact H].
  apply SUB_upd_task. intros t0 H0. cbn [t_id with_state with_deps] in H0. congruence.
Qed.

Lemma on_new_tasks_SUB s ts s' : on_new_tasks s ts = Ok s' -> SUB (core_of s) (core_of s').
Proof.
  unfold on_new_tasks. intros H. destruct ts; [inversion H; subst; apply SUB_refl|].
  bstep H x Hx. destruct x as [c' retracted]. bstep H s1 Hs1. inversion H; subst; clear H.
  eapply SUB_trans; [eapply add_new_tasks_SUB; exact Hx|].
  eapply SUB_trans; [exact (process_retracted_SUB _ _ _ Hs1)|]. apply SUB_frame; reflexivity.
Qed.

(** * The two submit handlers *)
Lemma get_or_create_rq_SUB s r : P r -> SUB (core_of s) (core_of (fst (get_or_create_rq s r))).
Proof.
  intros Hr. unfold get_or_create_rq. destruct (rq_index _ r 0); [apply SUB_refl|]. cbn [fst].
  eapply (SUB_new_rq _ _ [r]); [reflexivity | reflexivity | reflexivity | constructor; [exact Hr | constructor]].
Qed.

Lemma submit_tail_SUB s4 jid ids tasks s' :
  (do j <- hq_get_job s4 jid 222;
   do j' <- attach_ids j ids;
   do s6 <- on_new_tasks (hq_set_job s4 j') tasks;
   submit_ok_resp s6 jid) = Ok s' -> SUB (core_of s4) (core_of s').
Proof.
  intros H. bstep H j Hj. bstep H j' Hj'. bstep H s6 H6.
  pose proof (on_new_tasks_SUB (hq_set_job s4 j') _ _ H6) as S6.
  unfold submit_ok_resp in H. bstep H jx Hjx. inversion H; subst. exact S6.
Qed.

Lemma handle_submit_array_SUB s jobsel ids entries rq prio cl tlim mf s' :
  P rq -> handle_submit_array s jobsel ids entries rq prio cl tlim mf = Ok s' -> SUB (core_of s) (core_of s').
Proof.
  intros HP H. unfold handle_submit_array in H.
  match type of H with (match ?x with Some _ => _ | None => _ end) = _ => destruct x end; [inversion H; subst; apply SUB_refl|].
  apply bind_ok in H. destruct H as ([acc s1] & Hr & H).
  assert (E1 : core_of s1 = core_of s).
  { destruct jobsel as [j0|].
    - destruct (find_job (hq_jobs s) j0) as [j|]; [|inversion Hr; subst; reflexivity].
      destruct (negb (j_open j)); inversion Hr; subst; reflexivity.
    - inversion Hr; subst; reflexivity. }
  destruct acc as [[[jid is_new] ids']|].
  - cbv zeta in H.
    match type of H with context [get_or_create_rq ?sx rq] => set (s3 := sx) in *; destruct (get_or_create_rq s3 rq) as [s4 rqi] eqn:Erq end.
    assert (E3 : core_of s3 = core_of s) by (rewrite <- E1; subst s3; destruct is_new; reflexivity).
    pose proof (get_or_create_rq_SUB s3 rq HP) as S4. rewrite Erq, E3 in S4. cbn [fst] in S4.
    eapply SUB_trans; [exact S4|]. eapply (submit_tail_SUB s4 jid ids'). exact H.
  - assert (E2 : core_of s' = core_of s1).
    { destruct jobsel; [match type of H with (match ?x with Some _ => _ | None => _ end) = _ => destruct x end|];
        inversion H; subst; reflexivity. }
    rewrite E2, E1. apply SUB_refl.
Qed.

Lemma fold_rqs_SUB rqs : forall s l s4 rqis,
  Forall P rqs ->
  fold_left (fun acc r => let '(s, l) := acc in let '(s', i) := get_or_create_rq s r in (s', l ++ [i])) rqs (s, l) = (s4, rqis) ->
  SUB (core_of s) (core_of s4).
Proof.
  induction rqs as [|r rest IH]; cbn [fold_left]; intros s l s4 rqis HP H; [inversion H; subst; apply SUB_refl|].
  destruct (get_or_create_rq s r) as [s1 i] eqn:E. eapply SUB_trans; [|eapply IH; [exact (Forall_inv_tail HP) | exact H]].
  pose proof (get_or_create_rq_SUB s r (Forall_inv HP)) as S1. rewrite E in S1. exact S1.
Qed.

Lemma handle_submit_graph_SUB s jobsel rqs ts mf s' :
  Forall P rqs -> handle_submit_graph s jobsel rqs ts mf = Ok s' -> SUB (core_of s) (core_of s').
Proof.
  intros HP H. unfold handle_submit_graph in H.
  apply bind_ok in H. destruct H as (v1 & _ & H).
  match type of H with (match ?x with Some _ => _ | None => _ end) = _ => destruct x end; [inversion H; subst; apply SUB_refl|].
  apply bind_ok in H. destruct H as ([acc s1] & Hr & H).
  assert (E1 : core_of s1 = core_of s).
  { destruct jobsel as [j0|].
    - destruct (find_job (hq_jobs s) j0) as [j|]; [|inversion Hr; subst; reflexivity].
      destruct (negb (j_open j)); inversion Hr; subst; reflexivity.
    - inversion Hr; subst; reflexivity. }
  destruct acc as [[jid is_new]|].
  - cbv zeta in H.
    match type of H with context [fold_left ?f rqs (?sx, [])] => set (s3 := sx) in *; destruct (fold_left f rqs (s3, [])) as [s4 rqis] eqn:Erq end.
    assert (E3 : core_of s3 = core_of s) by (rewrite <- E1; subst s3; destruct is_new; reflexivity).
    pose proof (fold_rqs_SUB _ _ _ _ _ HP Erq) as S4. rewrite E3 in S4.
    apply bind_ok in H. destruct H as (j & Hj & H). apply bind_ok in H. destruct H as (j' & Ha & H).
    apply bind_ok in H. destruct H as (tasks & Hg & H).
    eapply SUB_trans; [exact S4|]. eapply (submit_tail_SUB s4 jid (map gt_id ts) tasks).
    rewrite Hj. cbn [bind]. rewrite Ha. cbn [bind]. exact H.
  - inversion H; subst. rewrite E1. apply SUB_refl.
Qed.

(** * What a submit does to the accounting: nothing, provided the assigned tasks exist and name
    request classes of the table (both are consequences of the proved invariants). *)
Lemma lk_app rqs l n : (N.to_nat n < length rqs)%nat -> lk (rqs ++ l) n = lk rqs n.
Proof. intros H. unfold lk. rewrite nth_error_app1 by exact H. reflexivity. Qed.

Lemma SUB_ACC c c' :
  SUB c c' ->
  (forall wk a p f x, In wk (c_workers c) -> w_assign wk = Sn a p f -> In x a ->
     exists t, find_task (c_tasks c) x = Some t /\ (N.to_nat (t_rq t) < length (c_rqs c))%nat) ->
  ACCW (request_of c) (c_workers c) -> ACCW (request_of c') (c_workers c').
Proof.
  intros [W [[l [R _]] T]] HP A wk' Hin'. destruct (W _ Hin') as (wk & Hin & [Er Ea]).
  specialize (A wk Hin). unfold accw in *. specialize (HP wk).
  destruct (w_assign wk) as [a p f|] eqn:E1, (w_assign wk') as [a' p' f'|] eqn:E2; try contradiction; [|exact I].
  destruct Ea as [-> ->]. rewrite Er. destruct A as [L A]. split; [exact L|].
  intros i. rewrite <- (A i). f_equal. apply tot_ext. intros x Hx.
  destruct (HP a p f x Hin eq_refl Hx) as (t & Hf & Hlt). destruct (T _ _ Hf) as (t' & Hf' & Erq).
  rewrite (request_of_lk _ _ _ Hf'), (request_of_lk _ _ _ Hf), R, Erq. apply lk_app. exact Hlt.
Qed.

(** The request table grows by classes satisfying [P] only. *)
Lemma SUB_rqs c c' : SUB c c' -> Forall P (c_rqs c) -> Forall P (c_rqs c').
Proof. intros [_ [[l [R F]] _]] H. rewrite R. apply Forall_app. split; assumption. Qed.
End Sub.
