(** Proofs about the job layer (C13, parts of C01, C08, C09, C14): for EVERY sequence of client
    requests and task-progress callbacks - also sequences the tako core would never produce - that
    the job layer processes without panicking, the per-state counters equal the number of tasks in
    that state and the completion flag is only set on closed jobs without active tasks. *)
From HQ Require Import Base.Prelude Cluster.Types Cluster.Core Cluster.Reactor Cluster.Worker Cluster.Server Cluster.Sys Cluster.Monitors.
From Coq Require Import ZArith Lia.
Require Import ZifyBool ZifyN ZifyNat.
Local Open Scope N_scope.

Arguments N.add : simpl never.
Arguments N.sub : simpl never.
Arguments N.eqb : simpl never.
Arguments N.ltb : simpl never.

(** * Counting tasks per state *)
Definition jst_eqb (a b : jstate) : bool :=
  match a, b with
  | JW, JW | JR, JR | JF, JF | JX, JX | JC, JC | JA, JA => true
  | _, _ => false
  end.
Fixpoint cnt (l : list (N * jstate)) (v : jstate) : N :=
  match l with
  | [] => 0
  | (_, x) :: r => (if jst_eqb x v then 1 else 0) + cnt r v
  end.

Lemma count_state_cnt j v : count_state j v = cnt (j_tasks j) v.
Proof.
  unfold count_state. induction (j_tasks j) as [|[k x] r IH]; [reflexivity|].
  cbn [filter cnt snd]. destruct x, v; cbn [jst_eqb length]; rewrite <- ?IH; lia.
Qed.

(** Sorted task lists (ascending ids, no duplicates): the job's task map. *)
Fixpoint jsorted (l : list (N * jstate)) : Prop :=
  match l with
  | [] => True
  | (k, _) :: r => (forall k' x, In (k', x) r -> k < k') /\ jsorted r
  end.

Lemma jt_find_in l t v : jt_find l t = Some v -> In (t, v) l.
Proof.
  induction l as [|[k x] r IH]; cbn [jt_find]; [discriminate|].
  destruct (N.eqb t k) eqn:E; intros H.
  - inversion H; subst. apply N.eqb_eq in E; subst. left; reflexivity.
  - right; auto.
Qed.

Lemma cnt_set_some l t v0 v1 v :
  jsorted l -> jt_find l t = Some v0 ->
  cnt (jt_set l t v1) v + (if jst_eqb v0 v then 1 else 0) = cnt l v + (if jst_eqb v1 v then 1 else 0).
Proof.
  induction l as [|[k x] r IH]; cbn [jt_find jt_set cnt]; [discriminate|].
  intros Hsd. cbn in Hsd. destruct Hsd as [Hlt Hs]. destruct (N.eqb t k) eqn:E.
  - intros H; inversion H; subst. cbn [cnt]. lia.
  - intros H. destruct (N.ltb t k) eqn:E2.
    + apply jt_find_in in H. specialize (Hlt _ _ H). lia.
    + cbn [cnt]. specialize (IH Hs H). lia.
Qed.

Lemma cnt_set_none l t v1 v :
  jt_find l t = None -> cnt (jt_set l t v1) v = cnt l v + (if jst_eqb v1 v then 1 else 0).
Proof.
  induction l as [|[k x] r IH]; cbn [jt_find jt_set cnt]; [lia|].
  destruct (N.eqb t k) eqn:E; [discriminate|].
  intros H. destruct (N.ltb t k); cbn [cnt]; [lia|]. rewrite (IH H). lia.
Qed.

Lemma jt_set_in l t v k x : In (k, x) (jt_set l t v) -> (k = t /\ x = v) \/ In (k, x) l.
Proof.
  induction l as [|[k0 x0] r IH]; cbn [jt_set].
  - intros [H|[]]; inversion H; auto.
  - destruct (N.eqb t k0) eqn:E.
    + intros [H|H]; [inversion H; auto | right; right; exact H].
    + destruct (N.ltb t k0).
      * intros [H|H]; [inversion H; auto | right; exact H].
      * intros [H|H]; [right; left; exact H|]. destruct (IH H); auto. right; right; assumption.
Qed.

Lemma jt_set_sorted l t v : jsorted l -> jsorted (jt_set l t v).
Proof.
  induction l as [|[k x] r IH]; cbn [jt_set]; [cbn; intros _; split; [intros k' x' []|exact I]|].
  intros Hsd. cbn in Hsd. destruct Hsd as [Hlt Hs]. destruct (N.eqb t k) eqn:E.
  - apply N.eqb_eq in E; subst. cbn. auto.
  - destruct (N.ltb t k) eqn:E2.
    + cbn. split; [|split; assumption].
      intros k' x' [H|H]; [inversion H; subst; lia|]. specialize (Hlt _ _ H). lia.
    + cbn. split; [|apply IH; assumption].
      intros k' x' H. apply jt_set_in in H. destruct H as [[-> ->]|H]; [lia | eauto].
Qed.

(** * The invariant *)
Record JOK (j : job) : Prop := mkJOK {
  jok_sorted : jsorted (j_tasks j);
  jok_run : j_nrun j = cnt (j_tasks j) JR;
  jok_fin : j_nfin j = cnt (j_tasks j) JF;
  jok_fail : j_nfail j = cnt (j_tasks j) JX;
  jok_canc : j_ncanc j = cnt (j_tasks j) JC;
  jok_abort : j_nabort j = cnt (j_tasks j) JA;
  jok_completed : j_completed j = true -> j_open j = false /\ cnt (j_tasks j) JW = 0 /\ cnt (j_tasks j) JR = 0
}.

Lemma JOK_counters j : JOK j -> job_counters_ok j = true.
Proof.
  intros [Ss R F X C A _]. unfold job_counters_ok. rewrite !count_state_cnt.
  rewrite R, F, X, C, A. rewrite !N.eqb_refl. reflexivity.
Qed.

Lemma cnt_total l : N.of_nat (length l) = cnt l JW + cnt l JR + cnt l JF + cnt l JX + cnt l JC + cnt l JA.
Proof.
  induction l as [|[k x] r IH]; [reflexivity|]. cbn [length cnt]. destruct x; cbn [jst_eqb]; lia.
Qed.

(** The waiting count never underflows on a consistent job (C09: the `n_tasks - ...` subtractions). *)
Lemma n_waiting_ok j : JOK j -> n_waiting j = Ok (cnt (j_tasks j) JW).
Proof.
  intros [Ss R F X C A _]. unfold n_waiting, job_n_tasks, csub. rewrite (cnt_total (j_tasks j)).
  rewrite R, F, X, C, A.
  repeat match goal with
         | |- context [N.ltb ?a ?b] => let E := fresh in destruct (N.ltb a b) eqn:E; [lia|]; cbn [bind]
         end.
  f_equal. lia.
Qed.

Lemma has_no_active_ok j : JOK j -> has_no_active_tasks j = Ok (N.eqb (cnt (j_tasks j) JR) 0 && N.eqb (cnt (j_tasks j) JW) 0).
Proof.
  intros H. unfold has_no_active_tasks. rewrite (n_waiting_ok _ H). cbn [bind]. rewrite (jok_run _ H). reflexivity.
Qed.

Definition HOK (h : hq) : Prop := forall j, In j (h_jobs h) -> JOK j.

Lemma set_job_in js x j : In j (set_job js x) -> j = x \/ In j js.
Proof.
  induction js as [|h t IH]; cbn [set_job].
  - intros [H|[]]; auto.
  - destruct (N.eqb (j_id x) (j_id h)).
    + intros [H|H]; auto. right; right; exact H.
    + destruct (N.ltb (j_id x) (j_id h)).
      * intros [H|H]; auto.
      * intros [H|H]; [right; left; exact H|]. destruct (IH H); auto. right; right; assumption.
Qed.
Lemma find_job_in js id j : find_job js id = Some j -> In j js.
Proof.
  induction js as [|h t IH]; cbn [find_job]; [discriminate|].
  destruct (N.eqb id (j_id h)); intros H; [inversion H; left; reflexivity | right; auto].
Qed.
Lemma del_job_in js id j : In j (del_job js id) -> In j js.
Proof. unfold del_job. intros H. apply filter_In in H. tauto. Qed.

Definition hq_of (s : st) : hq := s_hq (fst s).

Lemma hq_set_job_ok s j : HOK (hq_of s) -> JOK j -> HOK (hq_of (hq_set_job s j)).
Proof.
  intros H Hj x Hx. unfold hq_of, hq_set_job in Hx. cbn in Hx.
  apply set_job_in in Hx. destruct Hx as [->|Hx]; [exact Hj | apply H; exact Hx].
Qed.
Lemma hq_get_job_ok s id site j : HOK (hq_of s) -> hq_get_job s id site = Ok j -> JOK j.
Proof.
  unfold hq_get_job. destruct (find_job _ id) eqn:E; [|discriminate].
  intros H Hj; inversion Hj; subst. apply H. eapply find_job_in; exact E.
Qed.
Lemma emit_hq s o : hq_of (emit s o) = hq_of s.
Proof. reflexivity. Qed.

(** * Every job-layer operation preserves the invariant *)

Ltac inv_bind H :=
  let a := fresh "a" in let H1 := fresh "Hb" in let H2 := fresh "Hb" in
  apply bind_ok in H; destruct H as (a & H1 & H2).

Lemma check_termination_ok s jid s' :
  HOK (hq_of s) -> check_termination s jid = Ok s' -> HOK (hq_of s').
Proof.
  intros H Hc. unfold check_termination in Hc.
  inv_bind Hc. pose proof (hq_get_job_ok _ _ _ _ H Hb) as Hj.
  rewrite (has_no_active_ok _ Hj) in Hb0. cbn [bind] in Hb0.
  destruct (N.eqb (cnt (j_tasks a) JR) 0 && N.eqb (cnt (j_tasks a) JW) 0) eqn:E; [|inversion Hb0; subst; exact H].
  destruct (j_open a) eqn:Eo; [inversion Hb0; subst; exact H|].
  inversion Hb0; subst. rewrite emit_hq. apply hq_set_job_ok; [exact H|].
  destruct Hj as [Ss R F X C A Cm]. constructor; cbn; auto.
  intros _. repeat split; auto; lia.
Qed.

Lemma process_task_started_ok s t inst ws rv s' :
  HOK (hq_of s) -> process_task_started s t inst ws rv = Ok s' -> HOK (hq_of s').
Proof.
  intros H Hc. unfold process_task_started in Hc. inv_bind Hc.
  pose proof (hq_get_job_ok _ _ _ _ H Hb) as Hj.
  destruct (jt_find (j_tasks a) (snd t)) as [v|] eqn:Ef; [|discriminate].
  inversion Hb0; subst. rewrite emit_hq. apply hq_set_job_ok; [exact H|].
  destruct v; try exact Hj.
  destruct Hj as [Ss R F X C A Cm].
  pose proof (fun v => cnt_set_some _ _ _ JR v Ss Ef) as HC.
  constructor; cbn; auto using jt_set_sorted;
    try (match goal with |- _ = cnt _ ?v => specialize (HC v); cbn [jst_eqb] in HC; lia end).
  intros Hcm. destruct (Cm Hcm) as (_ & Hw & _).
  pose proof (HC JW) as H1. cbn [jst_eqb] in H1. lia.
Qed.

Lemma process_task_finished_ok s t s' :
  HOK (hq_of s) -> process_task_finished s t = Ok s' -> HOK (hq_of s').
Proof.
  intros H Hc. unfold process_task_finished in Hc. inv_bind Hc.
  pose proof (hq_get_job_ok _ _ _ _ H Hb) as Hj.
  destruct (jt_find (j_tasks a) (snd t)) as [v|] eqn:Ef; [|discriminate].
  destruct v; try discriminate. inv_bind Hb0. unfold csub in Hb1.
  destruct (N.ltb (j_nrun a) 1) eqn:El; [discriminate|]. inversion Hb1; subst.
  eapply check_termination_ok; [|exact Hb2]. rewrite emit_hq. apply hq_set_job_ok; [exact H|].
  destruct Hj as [Ss R F X C A Cm].
  pose proof (fun v => cnt_set_some _ _ _ JF v Ss Ef) as HC.
  constructor; cbn; auto using jt_set_sorted;
    try (match goal with |- _ = cnt _ ?v => specialize (HC v); cbn [jst_eqb] in HC; lia end).
  intros Hcm. destruct (Cm Hcm) as (_ & _ & Hr). pose proof (HC JR) as H1. cbn [jst_eqb] in H1. lia.
Qed.

Lemma set_waiting_state_ok s t s' :
  HOK (hq_of s) -> set_waiting_state s t = Ok s' -> HOK (hq_of s').
Proof.
  intros H Hc. unfold set_waiting_state in Hc. inv_bind Hc.
  pose proof (hq_get_job_ok _ _ _ _ H Hb) as Hj.
  destruct (jt_find (j_tasks a) (snd t)) as [v|] eqn:Ef; [|discriminate].
  destruct v; try (inversion Hb0; subst; exact H).
  inv_bind Hb0. unfold csub in Hb1. destruct (N.ltb (j_nrun a) 1) eqn:El; [discriminate|].
  inversion Hb1; subst. inversion Hb2; subst. apply hq_set_job_ok; [exact H|].
  destruct Hj as [Ss R F X C A Cm].
  pose proof (fun v => cnt_set_some _ _ _ JW v Ss Ef) as HC.
  constructor; cbn; auto using jt_set_sorted;
    try (match goal with |- _ = cnt _ ?v => specialize (HC v); cbn [jst_eqb] in HC; lia end).
  intros Hcm. destruct (Cm Hcm) as (_ & _ & Hr). pose proof (HC JR) as H1. cbn [jst_eqb] in H1. lia.
Qed.

Lemma set_waiting_all_ok ts : forall s s',
  HOK (hq_of s) -> set_waiting_all s ts = Ok s' -> HOK (hq_of s').
Proof.
  induction ts as [|t r IH]; cbn [set_waiting_all]; intros s s' H Hc; [inversion Hc; subst; exact H|].
  inv_bind Hc. eapply IH; [|exact Hb0]. eapply set_waiting_state_ok; eassumption.
Qed.

Lemma process_worker_lost_ok s w running reason s' :
  HOK (hq_of s) -> process_worker_lost s w running reason = Ok s' -> HOK (hq_of s').
Proof.
  intros H Hc. unfold process_worker_lost in Hc. inv_bind Hc. inversion Hb0; subst.
  rewrite emit_hq. eapply set_waiting_all_ok; eassumption.
Qed.

(** [mark_tasks]: every marked task moves from Waiting / Running to [target]; the target counter
    lags behind by the number of marked tasks until the caller adds it. *)
Definition is_abort_or_cancel (v : jstate) : Prop := v = JC \/ v = JA.

Record JOKx (j : job) (target : jstate) (k : N) : Prop := mkJOKx {
  jx_sorted : jsorted (j_tasks j);
  jx_run : j_nrun j = cnt (j_tasks j) JR;
  jx_fin : j_nfin j = cnt (j_tasks j) JF;
  jx_fail : j_nfail j = cnt (j_tasks j) JX;
  jx_canc : j_ncanc j + (if jst_eqb target JC then k else 0) = cnt (j_tasks j) JC;
  jx_abort : j_nabort j + (if jst_eqb target JA then k else 0) = cnt (j_tasks j) JA
}.

Lemma mark_tasks_ok target site ids : is_abort_or_cancel target -> forall j j' k,
  JOKx j target k -> mark_tasks j ids target site = Ok j' ->
  JOKx j' target (k + N.of_nat (length ids))
  /\ j_open j' = j_open j /\ j_completed j' = j_completed j /\ j_id j' = j_id j /\ j_maxfails j' = j_maxfails j
  /\ (ids <> [] -> cnt (j_tasks j) JW + cnt (j_tasks j) JR > 0).
Proof.
  intros Ht. induction ids as [|t r IH]; cbn [mark_tasks length]; intros j j' k Hj Hc.
  - inversion Hc; subst. replace (k + N.of_nat 0) with k by lia. split; [exact Hj|]. repeat split; auto. intros Hn; exfalso; apply Hn; reflexivity.
  - destruct (negb (N.eqb (fst t) (j_id j))); [discriminate|].
    destruct (jt_find (j_tasks j) (snd t)) as [v|] eqn:Ef; [|discriminate].
    destruct Hj as [Ss R F X C A].
    destruct v; try discriminate.
    + (* Waiting *)
      pose proof (fun v => cnt_set_some _ _ _ target v Ss Ef) as HC.
      assert (Hj1 : JOKx (job_set_task j (snd t) target) target (k + 1)).
      { constructor; cbn; auto using jt_set_sorted;
          try (match goal with |- _ = cnt _ ?v => specialize (HC v); destruct Ht; subst target; cbn [jst_eqb] in *; lia end). }
      destruct (IH _ _ _ Hj1 Hc) as (I1 & I2 & I3 & I4 & I5 & _).
      replace (k + N.of_nat (S (length r))) with (k + 1 + N.of_nat (length r)) by lia.
      split; [exact I1|]. split; [rewrite I2; reflexivity|]. split; [rewrite I3; reflexivity|].
      split; [rewrite I4; reflexivity|]. split; [rewrite I5; reflexivity|].
      intros _. pose proof (HC JW) as H1. destruct Ht; subst target; cbn [jst_eqb] in H1; lia.
    + (* Running *)
      inv_bind Hc. unfold csub in Hb. destruct (N.ltb (j_nrun j) 1) eqn:El; [discriminate|]. inversion Hb; subst.
      pose proof (fun v => cnt_set_some _ _ _ target v Ss Ef) as HC.
      match type of Hb0 with mark_tasks ?jj _ _ _ = _ => assert (Hj1 : JOKx jj target (k + 1)) end.
      { constructor; cbn; auto using jt_set_sorted;
          try (match goal with |- _ = cnt _ ?v => specialize (HC v); destruct Ht; subst target; cbn [jst_eqb] in *; lia end). }
      destruct (IH _ _ _ Hj1 Hb0) as (I1 & I2 & I3 & I4 & I5 & _).
      replace (k + N.of_nat (S (length r))) with (k + 1 + N.of_nat (length r)) by lia.
      split; [exact I1|]. split; [rewrite I2; reflexivity|]. split; [rewrite I3; reflexivity|].
      split; [rewrite I4; reflexivity|]. split; [rewrite I5; reflexivity|].
      intros _. pose proof (HC JR) as H1. destruct Ht; subst target; cbn [jst_eqb] in H1; lia.
Qed.

Lemma JOK_JOKx j target : JOK j -> JOKx j target 0.
Proof.
  intros [Ss R F X C A _]. constructor; auto; destruct (jst_eqb target _); lia.
Qed.

Lemma abort_tasks_ok s jid ids s' :
  HOK (hq_of s) -> abort_tasks s jid ids = Ok s' -> HOK (hq_of s').
Proof.
  intros H Hc. unfold abort_tasks in Hc. destruct ids as [|i0 ir]; [inversion Hc; subst; exact H|].
  inv_bind Hc. pose proof (hq_get_job_ok _ _ _ _ H Hb) as Hj. inv_bind Hb0.
  destruct (mark_tasks_ok JA 206 (i0 :: ir) (or_intror eq_refl) _ _ 0 (JOK_JOKx _ JA Hj) Hb1) as ([Ss R F X C A] & O1 & O2 & O3 & O4 & Hact).
  eapply check_termination_ok; [|exact Hb2]. rewrite emit_hq. apply hq_set_job_ok; [exact H|].
  cbn [jst_eqb] in *. constructor; cbn; auto; try lia.
  intros Hcm. rewrite O2 in Hcm. destruct (jok_completed _ Hj Hcm) as (_ & Hw & Hr).
  assert (i0 :: ir <> []) as Hne by discriminate. specialize (Hact Hne). lia.
Qed.

Lemma set_cancel_state_ok s jid ids s' :
  HOK (hq_of s) -> set_cancel_state s jid ids = Ok s' -> HOK (hq_of s').
Proof.
  intros H Hc. unfold set_cancel_state in Hc. destruct ids as [|i0 ir]; [inversion Hc; subst; exact H|].
  inv_bind Hc. pose proof (hq_get_job_ok _ _ _ _ H Hb) as Hj. inv_bind Hb0.
  destruct (mark_tasks_ok JC 205 (i0 :: ir) (or_introl eq_refl) _ _ 0 (JOK_JOKx _ JC Hj) Hb1) as ([Ss R F X C A] & O1 & O2 & O3 & O4 & Hact).
  eapply check_termination_ok; [|exact Hb2]. rewrite !emit_hq. apply hq_set_job_ok; [exact H|].
  cbn [jst_eqb] in *. constructor; cbn; auto; try lia.
  intros Hcm. rewrite O2 in Hcm. destruct (jok_completed _ Hj Hcm) as (_ & Hw & Hr).
  assert (i0 :: ir <> []) as Hne by discriminate. specialize (Hact Hne). lia.
Qed.

Lemma process_task_failed_ok s t aborted k s' ids :
  HOK (hq_of s) -> process_task_failed s t aborted k = Ok (s', ids) -> HOK (hq_of s').
Proof.
  intros H Hc. unfold process_task_failed in Hc.
  inv_bind Hc. pose proof (abort_tasks_ok _ _ _ _ H Hb) as H1.
  inv_bind Hb0. pose proof (hq_get_job_ok _ _ _ _ H1 Hb1) as Hj.
  inv_bind Hb2.
  assert (Hj1 : JOK a1).
  { destruct (jt_find (j_tasks a0) (snd t)) as [v|] eqn:Ef; [|discriminate].
    destruct Hj as [Ss R F X C A Cm].
    pose proof (fun v => cnt_set_some _ _ _ JX v Ss Ef) as HC.
    destruct v; try discriminate.
    - inversion Hb0; subst. constructor; cbn; auto using jt_set_sorted;
        try (match goal with |- _ = cnt _ ?v => specialize (HC v); cbn [jst_eqb] in HC; lia end).
      intros Hcm. destruct (Cm Hcm) as (_ & Hw & _). pose proof (HC JW) as Hx. cbn [jst_eqb] in Hx. lia.
    - inv_bind Hb0. unfold csub in Hb2. destruct (N.ltb (j_nrun a0) 1) eqn:El; [discriminate|].
      inversion Hb2; subst. inversion Hb4; subst.
      constructor; cbn; auto using jt_set_sorted;
        try (match goal with |- _ = cnt _ ?v => specialize (HC v); cbn [jst_eqb] in HC; lia end).
      intros Hcm. destruct (Cm Hcm) as (_ & _ & Hr). pose proof (HC JR) as Hx. cbn [jst_eqb] in Hx. lia. }
  inv_bind Hb3.
  assert (H2 : HOK (hq_of a2)).
  { eapply check_termination_ok; [|exact Hb2]. rewrite emit_hq. apply hq_set_job_ok; assumption. }
  inv_bind Hb4.
  destruct (j_maxfails a3) as [mf|]; [|inversion Hb5; subst; exact H2].
  destruct (N.ltb mf (j_nfail a3)); [|inversion Hb5; subst; exact H2].
  inv_bind Hb5. inversion Hb6; subst. eapply abort_tasks_ok; eassumption.
Qed.

(** * Core-only operations leave the job layer untouched *)
Lemma send_worker_hq s w m s' : send_worker s w m = Ok s' -> hq_of s' = hq_of s.
Proof. unfold send_worker. destruct (find_proc _ w); [|discriminate]. intros H; inversion H; reflexivity. Qed.
Lemma send_all_hq msgs : forall s s', send_all s msgs = Ok s' -> hq_of s' = hq_of s.
Proof.
  induction msgs as [|[w m] r IH]; cbn [send_all]; intros s s' H; [inversion H; reflexivity|].
  inv_bind H. rewrite (IH _ _ Hb0). eapply send_worker_hq; exact Hb.
Qed.
Lemma process_retracted_hq s r s' : process_retracted s r = Ok s' -> hq_of s' = hq_of s.
Proof.
  unfold process_retracted. destruct r; [intros H; inversion H; reflexivity|].
  intros H. inv_bind H. destruct a as [c' groups]. apply send_all_hq in Hb0. exact Hb0.
Qed.

Lemma cancel_release_hq ids : forall s tu ru s' tu' ru',
  cancel_release s ids tu ru = Ok (s', tu', ru') -> hq_of s' = hq_of s.
Proof.
  induction ids as [|id r IH]; cbn [cancel_release]; intros s tu ru s' tu' ru' H; [inversion H; reflexivity|].
  destruct (find_task _ id) as [t|]; [|eapply IH; exact H].
  inv_bind H. inv_bind Hb0.
  destruct (t_state t).
  - apply IH in Hb2. exact Hb2.
  - inv_bind Hb2. inv_bind Hb3. apply IH in Hb4. exact Hb4.
  - inv_bind Hb2. inv_bind Hb3. inv_bind Hb4. inv_bind Hb5. apply IH in Hb6. exact Hb6.
  - inv_bind Hb2. apply IH in Hb3. exact Hb3.
  - inv_bind Hb2. inv_bind Hb3. apply IH in Hb4. exact Hb4.
  - inv_bind Hb2. destruct ws; [discriminate|]. apply IH in Hb3. exact Hb3.
  - discriminate.
Qed.

Lemma on_cancel_tasks_hq s ids s' : on_cancel_tasks s ids = Ok s' -> hq_of s' = hq_of s.
Proof.
  unfold on_cancel_tasks. intros H. inv_bind H. destruct a as [[s1 tu] ru].
  inv_bind Hb0.
  match goal with X : send_all _ _ = Ok s' |- _ => apply send_all_hq in X; cbn in X; rewrite X end.
  eapply cancel_release_hq; exact Hb.
Qed.

Lemma on_new_tasks_hq s ts s' : on_new_tasks s ts = Ok s' -> hq_of s' = hq_of s.
Proof.
  unfold on_new_tasks. destruct ts; [intros H; inversion H; reflexivity|].
  intros H. inv_bind H. destruct a as [c' r]. inv_bind Hb0.
  match goal with X : Ok _ = Ok s' |- _ => inversion X; subst end.
  match goal with X : process_retracted _ _ = Ok _ |- _ => apply process_retracted_hq in X; exact X end.
Qed.

(** * Client requests *)
Lemma handle_open_ok s mf s' : HOK (hq_of s) -> handle_open s mf = Ok s' -> HOK (hq_of s').
Proof.
  intros H Hc. unfold handle_open in Hc. inversion Hc; subst. rewrite !emit_hq.
  intros j Hj. unfold hq_of, hq_with in Hj. cbn in Hj. apply set_job_in in Hj. destruct Hj as [->|Hj]; [|apply H; exact Hj].
  constructor; cbn; auto; try discriminate.
Qed.

Lemma handle_close_ok s jid s' : HOK (hq_of s) -> handle_close s jid = Ok s' -> HOK (hq_of s').
Proof.
  intros H Hc. unfold handle_close in Hc.
  destruct (find_job (hq_jobs s) jid) as [j|] eqn:Ef; [|inversion Hc; subst; exact H].
  destruct (j_open j) eqn:Eo; [|inversion Hc; subst; exact H].
  inv_bind Hc. inversion Hb0; subst. rewrite emit_hq.
  eapply check_termination_ok; [|exact Hb]. rewrite emit_hq. apply hq_set_job_ok; [exact H|].
  pose proof (H _ (find_job_in _ _ _ Ef)) as [Ss R F X C A Cm]. constructor; cbn; auto.
  intros Hcm. destruct (Cm Hcm) as (Ho & _). congruence.
Qed.

Lemma handle_forget_ok s jid s' : HOK (hq_of s) -> handle_forget s jid = Ok s' -> HOK (hq_of s').
Proof.
  intros H Hc. unfold handle_forget in Hc.
  destruct (find_job (hq_jobs s) jid) as [j|] eqn:Ef; [|inversion Hc; subst; exact H].
  inv_bind Hc. destruct (negb (j_open j) && a); inversion Hb0; subst; rewrite emit_hq; [|exact H].
  intros x Hx. unfold hq_of, hq_with in Hx. cbn in Hx. apply del_job_in in Hx. apply H; exact Hx.
Qed.

Lemma handle_cancel_ok s jid s' : HOK (hq_of s) -> handle_cancel s jid = Ok s' -> HOK (hq_of s').
Proof.
  intros H Hc. unfold handle_cancel in Hc.
  destruct (find_job (hq_jobs s) jid) as [j|] eqn:Ef; [|inversion Hc; subst; exact H].
  destruct (non_finished_task_ids j) as [|i0 ir] eqn:En; [inversion Hc; subst; exact H|].
  inv_bind Hc. inv_bind Hb0. inv_bind Hb2. inversion Hb3; subst. rewrite emit_hq.
  eapply set_cancel_state_ok; [|exact Hb0].
  rewrite (on_cancel_tasks_hq _ _ _ Hb). exact H.
Qed.

(** C08 (idempotence): cancelling a job that has no non-terminal task changes nothing and emits
    nothing but the response. *)
Lemma handle_cancel_idempotent s jid j :
  find_job (hq_jobs s) jid = Some j -> non_finished_task_ids j = [] ->
  handle_cancel s jid = Ok (emit s (OResp (RCancelOk [] (job_n_tasks j)))).
Proof. intros Ef En. unfold handle_cancel. rewrite Ef, En. reflexivity. Qed.

(** * The job layer as a state machine of its own: client requests and arbitrary callbacks. *)
Inductive jop :=
| JStarted (t : tid) (inst : N) (ws : list wid) (rv : N)
| JFinished (t : tid)
| JFailed (t : tid) (aborted : list tid) (k : failkind)
| JWorkerLost (w : wid) (running : list tid) (reason : N)
| JOpen (mf : option N)
| JClose (j : N)
| JCancel (j : N)
| JForget (j : N).

Definition jstep (s : st) (o : jop) : res st :=
  match o with
  | JStarted t inst ws rv => process_task_started s t inst ws rv
  | JFinished t => process_task_finished s t
  | JFailed t aborted k => do r <- process_task_failed s t aborted k; Ok (fst r)
  | JWorkerLost w running reason => process_worker_lost s w running reason
  | JOpen mf => handle_open s mf
  | JClose j => handle_close s j
  | JCancel j => handle_cancel s j
  | JForget j => handle_forget s j
  end.

Fixpoint jrun (s : st) (ops : list jop) : res st :=
  match ops with
  | [] => Ok s
  | o :: r => do s' <- jstep s o; jrun s' r
  end.

Lemma jstep_ok s o s' : HOK (hq_of s) -> jstep s o = Ok s' -> HOK (hq_of s').
Proof.
  intros H Hc. destruct o; cbn [jstep] in Hc.
  - eapply process_task_started_ok; eassumption.
  - eapply process_task_finished_ok; eassumption.
  - inv_bind Hc. destruct a as [s1 ids]. inversion Hb0; subst. eapply process_task_failed_ok; eassumption.
  - eapply process_worker_lost_ok; eassumption.
  - eapply handle_open_ok; eassumption.
  - eapply handle_close_ok; eassumption.
  - eapply handle_cancel_ok; eassumption.
  - eapply handle_forget_ok; eassumption.
Qed.

Theorem jrun_ok ops : forall s s', HOK (hq_of s) -> jrun s ops = Ok s' -> HOK (hq_of s').
Proof.
  induction ops as [|o r IH]; cbn [jrun]; intros s s' H Hc; [inversion Hc; subst; exact H|].
  inv_bind Hc. eapply IH; [|exact Hb0]. eapply jstep_ok; eassumption.
Qed.

Lemma HOK_hq_ok s : HOK (s_hq s) -> hq_ok s = true.
Proof.
  intros H. unfold hq_ok. apply andb_true_iff; split; apply forallb_forall; intros j Hj.
  - apply JOK_counters. apply H. exact Hj.
  - pose proof (H _ Hj) as Hjk. unfold job_completed_ok. destruct (j_completed j) eqn:Ec; [|reflexivity].
    destruct (jok_completed _ Hjk Ec) as (Ho & Hw & Hr). rewrite Ho. cbn.
    unfold job_active. apply negb_true_iff. apply not_true_iff_false. intros Hex.
    apply existsb_exists in Hex. destruct Hex as ([k x] & Hin & Hx).
    assert (forall l, In (k, x) l -> cnt l x > 0) as Hpos.
    { induction l as [|[k0 x0] l IH]; [intros []|]. intros [Hh|Hh]; cbn [cnt].
      - inversion Hh; subst. destruct x; cbn [jst_eqb]; lia.
      - specialize (IH Hh). lia. }
    specialize (Hpos _ Hin). cbn in Hx. destruct x; try discriminate; lia.
Qed.

(** Main theorem (C13): counters = counts and the completion flag is sound after any history. *)
Theorem job_layer_counters_exact ops reserve maxfill s' :
  jrun (init_sys reserve maxfill, []) ops = Ok s' -> hq_ok (fst s') = true.
Proof.
  intros H. apply HOK_hq_ok. eapply (jrun_ok ops (init_sys reserve maxfill, [])); [|exact H].
  intros j [].
Qed.

(** Non-vacuity: a history with a submit-free open job, a start, a failure and a close. *)
Example job_layer_history_runs :
  exists s', jrun (init_sys 2 3, []) [JOpen (Some 0); JClose 1; JForget 1; JOpen None; JCancel 2] = Ok s'
             /\ hq_ok (fst s') = true.
Proof. eexists. split; [vm_compute; reflexivity | vm_compute; reflexivity]. Qed.
