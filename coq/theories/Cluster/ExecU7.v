(** C06 "instance ids strictly increase", part 7: [PR] for the updates of a worker message (under
    the protocol invariant) and for the two operations that send compute messages built from the
    final core: the retract response and the scheduling round; the state relation [SR] of a
    scheduling round. *)
From HQ Require Import Base.Prelude Cluster.Types Cluster.Core Cluster.Reactor Cluster.Worker Cluster.Server Cluster.Sys Cluster.Monitors Cluster.RejHyp Cluster.ProofsJob Cluster.ProofsMore Cluster.ProofsTerminal Cluster.ProofsStep Cluster.ProofsFinal Cluster.BijBase Cluster.BijCore Cluster.BijHq Cluster.BijSt Cluster.BijReact Cluster.BijFinal Cluster.ProofsOnce Cluster.InvWBase Cluster.InvWX1 Cluster.NoPanicC1 Cluster.NoPanicL0 Cluster.NoPanicU0 Cluster.NoPanicU1 Cluster.NoPanicU6 Cluster.NoPanicU7 Cluster.NoPanicU8 Cluster.NoPanicU9 Cluster.NoPanicU11 Cluster.ExecU1 Cluster.ExecU5 Cluster.ExecU6.
From Coq Require Import ZArith Lia Sorting.Sorted.
Local Open Scope N_scope.

Arguments N.add : simpl never.
Arguments N.sub : simpl never.

(** * The updates of one worker message *)
Section Upd.
Variable A : wid -> dmsg -> Prop.
Hypothesis HA : forall w m, quietm m -> A w m.

Lemma apply_one_PR s w u r s' b : SP x0 s (pum_us w (u :: r)) [] -> apply_one s w u = Ok (s', b) -> PR A s s'.
Proof.
  intros HS H. destruct u as [id|id k|id rv|id rv|id rv0|rq rv]; cbn [apply_one] in H.
  - eapply task_finished_PR; [exact HA | exact H].
  - apply bind_ok in H. destruct H as (s2 & H2 & H). inversion H; subst. eapply task_failed_PR; [exact HA | exact H2].
  - eapply task_running_PR; exact H.
  - eapply task_running_PR; exact H.
  - eapply task_reject_PR; [exact HA | | exact H]. intros t w1 Ef Est.
    destruct (pum_us_proc _ _ _ _ _ HS) as (p & Hp).
    pose proof (head_item _ _ _ _ _ _ _ _ _ HS Ef eq_refl Hp) as Hl. cbn [uitem_of] in Hl. rewrite sel_same in Hl. cbn [app] in Hl.
    destruct (LS_rej _ _ _ _ _ Hl) as (rv & Ev & _ & _). apply view_VA in Ev. congruence.
  - apply bind_ok in H. destruct H as (s2 & H2 & H). inversion H; subst. eapply request_enabled_PR; exact H2.
Qed.

Lemma apply_updates_PR us : forall s w need s' need', SP x0 s (pum_us w us) [] -> apply_updates s w us need = Ok (s', need') -> PR A s s'.
Proof.
  induction us as [|u r IH]; intros s w need s' need' HS H; [cbn in H; inversion H; subst; apply PR_refl|].
  rewrite apply_updates_cons in H. apply bind_ok in H. destruct H as ([s1 n1] & H1 & H).
  eapply PR_trans; [eapply apply_one_PR; [exact HS | exact H1]|]. eapply IH; [eapply apply_one_SP; eassumption | exact H].
Qed.

Lemma on_task_update_PR s w us s' : SP x0 s (pum_us w us) [] -> on_task_update s w us = Ok s' -> PR A s s'.
Proof.
  unfold on_task_update. intros HS H. apply bind_ok in H. destruct H as ([s1 need] & H1 & H).
  pose proof (apply_updates_PR _ _ _ _ _ _ HS H1) as R1.
  destruct (need && _); inversion H; subst; [|exact R1]. eapply PR_trans; [exact R1 | apply PR_ask].
Qed.
End Upd.

(** * Compute messages built from a core *)
(** [AC c T]: every entry of a compute message is a task of [c] with its instance id, and in [T]. *)
Definition AC (c : core) (T : tid -> Prop) : wid -> dmsg -> Prop := fun _ m =>
  match m with
  | DCompute cts => forall ct, In ct cts -> T (ct_id ct) /\ exists t, find_task (c_tasks c) (ct_id ct) = Some t /\ ct_inst ct = t_inst t
  | _ => True
  end.
Lemma AC_quiet c T w m : quietm m -> AC c T w m.
Proof. destruct m; cbn; auto. intros []. Qed.

Lemma ctasks_of_spec c l : forall cts, ctasks_of c l = Ok cts ->
  forall ct, In ct cts -> In (ct_id ct) (map fst l) /\ exists t, find_task (c_tasks c) (ct_id ct) = Some t /\ ct_inst ct = t_inst t.
Proof.
  induction l as [|[id rv] r IH]; cbn [ctasks_of]; intros cts H ct Hin; [inversion H; subst; destruct Hin|].
  apply bind_ok in H. destruct H as (t & Ht & H). apply bind_ok in H. destruct H as (rest & Hr & H). inversion H; subst.
  apply get_task_find in Ht. destruct (find_task_some _ _ _ Ht) as [_ Hid].
  destruct Hin as [<-|Hin].
  - cbn [ctask_of ct_id ct_inst map fst]. rewrite Hid. split; [left; reflexivity | eauto].
  - destruct (IH _ Hr ct Hin) as [A B]. split; [right; exact A | exact B].
Qed.
Lemma ctasks_prefill_spec c l : forall cts, ctasks_prefill c l = Ok cts ->
  forall ct, In ct cts -> In (ct_id ct) l /\ exists t, find_task (c_tasks c) (ct_id ct) = Some t /\ ct_inst ct = t_inst t.
Proof.
  induction l as [|id r IH]; cbn [ctasks_prefill]; intros cts H ct Hin; [inversion H; subst; destruct Hin|].
  apply bind_ok in H. destruct H as (t & Ht & H). apply bind_ok in H. destruct H as (rest & Hr & H). inversion H; subst.
  apply get_task_find in Ht. destruct (find_task_some _ _ _ Ht) as [_ Hid].
  destruct Hin as [<-|Hin].
  - cbn [ctask_of ct_id ct_inst]. rewrite Hid. split; [left; reflexivity | eauto].
  - destruct (IH _ Hr ct Hin) as [A B]. split; [right; exact A | exact B].
Qed.

(** * The retract response *)
Lemma rrs_ids w ids : forall c acc c' acc', retract_response_states c w ids acc = (c', acc') ->
  forall tg l ir, In (tg, l) acc' -> In ir l -> In (fst ir) ids \/ exists l0, In (tg, l0) acc /\ In ir l0.
Proof.
  induction ids as [|id r IH]; cbn [retract_response_states]; intros c acc c' acc' H tg l ir Hin Hir; [inversion H; subst; right; eauto|].
  assert (Hskip : forall c1, retract_response_states c1 w r acc = (c', acc') -> In (fst ir) (id :: r) \/ exists l0, In (tg, l0) acc /\ In ir l0).
  { intros c1 H1. destruct (IH _ _ _ _ H1 tg l ir Hin Hir) as [X|X]; [left; right; exact X | right; exact X]. }
  destruct (find_task (c_tasks c) id) as [t|]; [|apply (Hskip c); exact H].
  destruct (t_state t); try (apply (Hskip c); exact H).
  destruct (N.eqb w w0); [|apply (Hskip c); exact H].
  destruct (find_redirect (c_redirects c) id) as [[target rv]|]; [|eapply Hskip; exact H].
  destruct (IH _ _ _ _ H tg l ir Hin Hir) as [X|(l0 & Hl0 & Hi0)]; [left; right; exact X|].
  destruct (group_add_in _ _ _ _ _ Hl0) as [Hold|(-> & l1 & -> & Hl1)]; [right; eauto|].
  apply in_app_iff in Hi0. destruct Hi0 as [Hi0|[<-|[]]]; [|left; left; reflexivity].
  destruct Hl1 as [->|Hl1]; [destruct Hi0 | right; eauto].
Qed.

Lemma send_redirected_PR (T : tid -> Prop) gs : forall s s', send_redirected s gs = Ok s' ->
  (forall tg l ir, In (tg, l) gs -> In ir l -> T (fst ir)) -> PR (AC (core_of s) T) s s'.
Proof.
  induction gs as [|[target ts] r IH]; cbn [send_redirected]; intros s s' H HT; [inversion H; subst; apply PR_refl|].
  apply bind_ok in H. destruct H as (cts & Hc & H). apply bind_ok in H. destruct H as (s1 & H1 & H).
  eapply PR_trans; [eapply PR_send; [exact H1|]|].
  - cbn [AC]. intros ct Hin. destruct (ctasks_of_spec _ _ _ Hc ct Hin) as [Hi Ht]. split; [|exact Ht].
    apply in_map_iff in Hi. destruct Hi as (ir & <- & Hir). eapply HT; [left; reflexivity | exact Hir].
  - rewrite <- (send_worker_core _ _ _ _ H1). eapply IH; [exact H | intros tg l ir Hin Hir; eapply HT; [right; exact Hin | exact Hir]].
Qed.

Lemma on_retract_response_PR s w ids s' : on_retract_response s w ids = Ok s' -> PR (AC (core_of s') (fun x => In x ids)) s s'.
Proof.
  unfold on_retract_response. intros H. destruct (retract_response_states _ w ids []) as [c' groups] eqn:E.
  apply bind_ok in H. destruct H as (s2 & H & H2).
  assert (X2 : PR (AC c' (fun x => In x ids)) s s2).
  { eapply PR_trans; [apply (PR_core _ s c')|]. eapply (send_redirected_PR (fun x => In x ids) groups (st_core s c')); [exact H|].
    intros tg l ir Hin Hir. destruct (rrs_ids _ _ _ _ _ _ E tg l ir Hin Hir) as [X|(l0 & [] & _)]. exact X. }
  pose proof (send_redirected_core _ _ _ H) as Ec. cbn [core_of st_core with_core s_core fst] in Ec.
  destruct (retract_wakes _ _ _ _); inversion H2; subst s'; clear H2.
  - eapply PR_trans; [|apply PR_ask].
    replace (AC (core_of (ask_scheduling s2)) (fun x => In x ids)) with (AC c' (fun x => In x ids)); [exact X2|].
    change (core_of (ask_scheduling s2)) with (with_flag (core_of s2) true). cbn [core_of]. rewrite Ec. reflexivity.
  - cbn [core_of]. rewrite Ec. exact X2.
Qed.

(** * The scheduling round *)
Lemma send_mapping_PR m : forall s s', send_mapping s m = Ok s' -> PR (AC (core_of s) (fun _ => True)) s s'.
Proof.
  induction m as [|u r IH]; cbn [send_mapping]; intros s s' H; [inversion H; subst; apply PR_refl|].
  apply bind_ok in H. destruct H as (s1 & H1 & H). apply bind_ok in H. destruct H as (cts1 & Hc1 & H).
  apply bind_ok in H. destruct H as (cts2 & Hc2 & H). apply bind_ok in H. destruct H as (s2 & H2 & H).
  assert (E1 : core_of s1 = core_of s) by (destruct (wu_retracts u); [inversion H1; reflexivity | eapply send_worker_core; exact H1]).
  assert (E2 : core_of s2 = core_of s) by (rewrite <- E1; destruct (cts1 ++ cts2); [inversion H2; reflexivity | eapply send_worker_core; exact H2]).
  eapply PR_trans; [|rewrite <- E2; eapply IH; exact H].
  eapply PR_trans.
  - destruct (wu_retracts u); [inversion H1; subst; apply PR_refl | eapply PR_send; [exact H1 | exact I]].
  - destruct (cts1 ++ cts2) eqn:Ec; [inversion H2; subst; apply PR_refl|]. eapply PR_send; [exact H2|]. rewrite <- Ec.
    cbn [AC]. intros ct Hin. split; [exact I|]. rewrite E1 in Hc1, Hc2. apply in_app_iff in Hin.
    destruct Hin as [Hin|Hin]; [exact (proj2 (ctasks_prefill_spec _ _ _ Hc1 ct Hin)) | exact (proj2 (ctasks_of_spec _ _ _ Hc2 ct Hin))].
Qed.

Lemma send_mn_PR l : forall s s', send_mn s l = Ok s' -> PR (AC (core_of s) (fun _ => True)) s s'.
Proof.
  induction l as [|id r IH]; cbn [send_mn]; intros s s' H; [inversion H; subst; apply PR_refl|].
  apply bind_ok in H. destruct H as (t & Ht & H). destruct (t_state t); try discriminate. destruct ws; [discriminate|].
  apply bind_ok in H. destruct H as (s1 & H1 & H). apply get_task_find in Ht. destruct (find_task_some _ _ _ Ht) as [_ Hid].
  eapply PR_trans; [eapply PR_send; [exact H1|] | rewrite <- (send_worker_core _ _ _ _ H1); eapply IH; exact H].
  cbn [AC]. intros ct [<-|[]]. split; [exact I|]. cbn [ctask_of ct_id ct_inst]. rewrite Hid. eauto.
Qed.

Lemma run_scheduling_PR s sol s' : run_scheduling s sol = Ok s' -> PR (AC (core_of s') (fun _ => True)) s s'.
Proof.
  unfold run_scheduling. intros H. cbv zeta in H. destruct (negb (perm_of_set _ _)); [discriminate|].
  apply bind_ok in H. destruct H as ([c1 m1] & H1 & H).
  apply bind_ok in H. destruct H as ([c2 mn] & H2 & H).
  apply bind_ok in H. destruct H as ([c3 m3] & H3 & H).
  apply bind_ok in H. destruct H as (s1 & H4 & H).
  apply bind_ok in H. destruct H as (s2 & H5 & H). inversion H; subst.
  assert (E4 : core_of s1 = c3) by (rewrite (send_mapping_core _ _ _ H4); reflexivity).
  assert (E5 : core_of s2 = c3) by (rewrite (send_mn_core _ _ _ H5); exact E4).
  assert (Hw : forall w m, AC c3 (fun _ => True) w m -> AC (core_of (st_core s2 (with_flag (core_of s2) false))) (fun _ => True) w m).
  { intros w m Hm. destruct m; cbn [AC] in *; auto. cbn [core_of st_core with_core s_core fst c_tasks with_flag]. rewrite E5. exact Hm. }
  assert (Hmono : forall a b, PR (AC c3 (fun _ => True)) a b -> PR (AC (core_of (st_core s2 (with_flag (core_of s2) false))) (fun _ => True)) a b).
  { intros a b (L & P & S). split; [exact L|]. split; [|exact S]. intros w p' Hp. destruct (P w p' Hp) as (p & add & X1 & X2 & X3 & X4 & X5 & X6).
    exists p, add. repeat split; auto. eapply Forall_impl; [|exact X6]. intros m. apply Hw. }
  apply Hmono.
  eapply PR_trans; [apply (PR_core _ s c3)|].
  eapply PR_trans; [exact (send_mapping_PR _ _ _ H4)|].
  eapply PR_trans; [rewrite <- E4; exact (send_mn_PR _ _ _ H5)|]. apply PR_same; reflexivity.
Qed.
