(** C06 "instance ids strictly increase", part 15: [EX] across the loss of a worker; every
    operation; every history; the theorem. *)
From HQ Require Import Base.Prelude Cluster.Types Cluster.Core Cluster.Reactor Cluster.Worker Cluster.Server Cluster.Sys Cluster.Monitors Cluster.RejHyp Cluster.ProofsJob Cluster.ProofsMore Cluster.ProofsTerminal Cluster.ProofsStep Cluster.ProofsFinal Cluster.ProofsOnce Cluster.BijBase Cluster.BijCore Cluster.BijHq Cluster.BijSt Cluster.BijReact Cluster.BijFinal Cluster.InvWBase Cluster.InvWX1 Cluster.InvWX3 Cluster.InvDStep Cluster.InvBundle Cluster.InvProcsDef Cluster.NoPanicC1 Cluster.NoPanicL0 Cluster.NoPanicU0 Cluster.NoPanicU1 Cluster.NoPanicU2 Cluster.NoPanicU6 Cluster.NoPanicU20 Cluster.ExecU1 Cluster.ExecU2 Cluster.ExecU4 Cluster.ExecU5 Cluster.ExecU9 Cluster.ExecU10 Cluster.ExecU11 Cluster.ExecU12 Cluster.ExecU13 Cluster.ExecU14.
From Coq Require Import ZArith Lia Sorting.Sorted.
Local Open Scope N_scope.

Lemma pc_pos_tags x p : (0 < pc x p)%nat -> exists j, In (x, j) (ptags p).
Proof.
  unfold pc, ptags. intros H. destruct (dc x (p_down p)) eqn:Ed.
  - assert (Hb : (0 < bl_count x (p_backlog p))%nat) by lia. apply bl_count_in in Hb. destruct Hb as (y & Hy & Hid).
    exists (wt_inst y). apply in_app_iff. right. apply in_map_iff. exists y. split; [unfold wtag; rewrite Hid; reflexivity | exact Hy].
  - assert (Hd : (0 < ccnt x (dcts (p_down p)))%nat) by (unfold dc in Ed; lia). apply ccnt_pos in Hd. destruct Hd as (ct & Hct & Hid).
    exists (ct_inst ct). apply in_app_iff. left. apply in_map_iff. exists ct. split; [unfold ctag; rewrite Hid; reflexivity | exact Hct].
Qed.
Lemma cc_pos_tags x ps : (0 < cc x ps)%nat -> exists j, In (x, j) (tags ps).
Proof.
  induction ps as [|h r IH]; cbn [cc]; [lia|]. intros H. destruct (pc x h) eqn:E.
  - destruct (IH ltac:(lia)) as (j & Hj). exists j. unfold tags in *. cbn [flat_map]. apply in_app_iff. right. exact Hj.
  - destruct (pc_pos_tags x h ltac:(lia)) as (j & Hj). exists j. unfold tags. cbn [flat_map]. apply in_app_iff. left. exact Hj.
Qed.

(** a task placed on [w] has copies on [w] only *)
Lemma cc_del_placed s x t w : PROTO s -> find_task (c_tasks (s_core s)) x = Some t -> vw (t_state t) = Some w -> cc x (del_proc (s_procs s) w) = O.
Proof.
  intros HP Hf Hv. pose proof (pr_sorted _ HP) as Hs. apply cc_zero. intros p Hp.
  assert (Hin : In p (s_procs s) /\ p_id p <> w).
  { clear -Hs Hp. unfold NoPanicU1.psorted in Hs. induction (s_procs s) as [|h r IH]; [destruct Hp|]. cbn [del_proc] in Hp.
    inversion Hs as [|? ? Hs' Hall]; subst. rewrite Forall_forall in Hall. destruct (N.eqb w (p_id h)) eqn:E.
    - apply N.eqb_eq in E. split; [right; exact Hp|]. specialize (Hall _ (in_map p_id _ _ Hp)). lia.
    - destruct Hp as [->|Hp]; [split; [left; reflexivity | intros X; rewrite X, N.eqb_refl in E; discriminate]|].
      destruct (IH Hs' Hp) as [A B]. split; [right; exact A | exact B]. }
  destruct Hin as [Hin Hne]. destruct (known_pc s HP x t Hf _ p (in_find_proc _ _ Hs Hin)) as (_ & H2 & _). apply H2.
  destruct (view_of (t_state t) (p_id p) (job_running (s_hq s) x)) eqn:E; try reflexivity;
    exfalso; apply Hne; assert (X : vw (t_state t) = Some (p_id p)) by (eapply view_vw; rewrite E; discriminate); congruence.
Qed.

Theorem EX_lost s pre w reason a p t s' outs :
  EX s pre -> INV s -> INV s' -> PROTO s -> PROTO s' -> step s (OpLost w reason a p t) = Ok (s', outs) -> EX s' (pre ++ outs).
Proof.
  intros HE HI HI' HP HP' H. pose proof H as H0. cbn [step] in H0. destruct (find_proc (s_procs s) w) as [pw|] eqn:Hpw; [|discriminate].
  pose proof (pr_sorted _ HP) as Hps. pose proof (pr_sorted _ HP') as Hps'.
  destruct (on_remove_worker_EXF (s, []) w reason a p t (s', outs) (inv_cb _ HI) Hps Hps' H0) as (L & S & PFL & CCL).
  cbn [fst core_of] in PFL, CCL.
  pose proof (cb_s _ (inv_cb _ HI)) as Hcs. pose proof (cb_s _ (inv_cb _ HI')) as Hcs'. change (core_of (s, [])) with (s_core s) in Hcs. change (core_of (s', [])) with (s_core s') in Hcs'.
  pose proof (step_TT s _ s' outs H) as HT. cbn [step_T] in HT.
  assert (Hnew : forall x t', find_task (c_tasks (s_core s)) x = None -> find_task (c_tasks (s_core s')) x = Some t' -> seen (s_hq s) x = false).
  { intros x t' Hn Hf. exact (new_unseen s s' outs x t' HI HI' (G_step _ _ _ _ (inv_fresh _ HI) H) Hn Hf). }
  assert (Horigin : forall x t', find_task (c_tasks (s_core s')) x = Some t' ->
            (exists t0, find_task (c_tasks (s_core s)) x = Some t0 /\ t_inst t0 <= t_inst t' /\ (t_inst t' = t_inst t0 -> is_waiting t' = true -> is_waiting t0 = true)) \/
            (find_task (c_tasks (s_core s)) x = None /\ seen (s_hq s) x = false)).
  { intros x t' Hf. destruct (TT_find _ _ _ _ _ _ Hcs Hcs' HT Hf) as [(t0 & Ht0 & Le & W)|Hn].
    - left. exists t0. split; [exact Ht0|]. split; [exact Le|]. intros E Hw. destruct (W E Hw) as [X|[]]. exact X.
    - right. split; [exact Hn | eapply Hnew; eassumption]. }
  assert (Htags : forall x j, In (x, j) (tags (s_procs s')) -> In (x, j) (tags (s_procs s)) \/
            ((exists t0, find_task (c_tasks (s_core s)) x = Some t0 /\ t_inst t0 < j) /\
             (forall t', find_task (c_tasks (s_core s')) x = Some t' -> j <= t_inst t'))).
  { intros x j Hc. destruct (tags_in _ _ Hc) as (p' & Hin' & Hc'). pose proof (in_find_proc _ _ Hps' Hin') as Hf'.
    destruct (PFL _ _ Hf') as (_ & p0 & add & Hf0 & Eb & _ & _ & Ed & Hadd).
    destruct (ptags_app_down p0 p' add Eb Ed _ Hc') as [Ho|Hn].
    - left. eapply tags_of; [exact (proj1 (NoPanicL0.find_proc_some _ _ _ Hf0)) | exact Ho].
    - right. apply in_map_iff in Hn. destruct Hn as (ct & E & Hct). unfold ctag in E. inversion E; subst x j.
      unfold dcts in Hct. apply in_flat_map in Hct. destruct Hct as (m & Hm & Hcm). rewrite Forall_forall in Hadd. specialize (Hadd m Hm).
      destruct m as [cts| | | | | |]; try destruct Hcm. cbn [AL] in Hadd. destruct (Hadd ct Hcm) as [(t0 & Hin0 & Ei0 & Lt0) Hle]. split.
      + exists t0. split; [rewrite <- Ei0; apply in_find_task; [exact (CS_sorted _ Hcs) | exact Hin0] | exact Lt0].
      + intros t' Ht'. destruct (find_task_some _ _ _ Ht') as [Hin2 Hid2]. exact (Hle t' Hin2 Hid2). }
  destruct HE as [EU EH EH2 ES1 ES2 EL EM].
  assert (Els : launches (pre ++ outs) = launches pre).
  { rewrite launches_app. unfold LS in L. cbn [snd] in L. rewrite L. cbn. apply app_nil_r. }
  constructor; rewrite ?Els.
  - (* U *) intros x. destruct (find_task (c_tasks (s_core s')) x) as [t'|] eqn:Ef; [exact (known_cc s' HP' x t' Ef)|].
    pose proof (cc_del_proc x (s_procs s) w) as Hd. specialize (EU x).
    destruct (CCL x) as [Hc|[Hc (t0 & Ht0 & Est0)]]; [lia|].
    rewrite (cc_del_placed s x t0 w HP Ht0) in Hc by (rewrite Est0; reflexivity). lia.
  - (* H *) intros x j Hc. destruct (Htags x j Hc) as [Ho|[(t0 & Ht0 & Lt0) _]]; [exact (EH x j Ho)|].
    intros l Hin Hlt. pose proof (ES1 _ _ Ht0 l Hin Hlt). lia.
  - (* H2 *) intros x j t'' Hc Hf''. destruct (Htags x j Hc) as [Ho|[_ Hle]]; [|exact (Hle t'' Hf'')].
    destruct (Horigin _ _ Hf'') as [(t0 & Ht0 & Le & _)|[_ Hns]]; [|rewrite (copy_seen s HP _ _ Ho) in Hns; discriminate].
    pose proof (EH2 _ _ _ Ho Ht0). lia.
  - (* S1 *) intros x t' Hf' l Hin Hlt. destruct (Horigin _ _ Hf') as [(t0 & Ht0 & Le & _)|[_ Hns]].
    + pose proof (ES1 _ _ Ht0 l Hin Hlt). lia.
    + rewrite <- Hlt, (EL l Hin) in Hns. discriminate.
  - (* S2 *) intros x t' Hf' (l & Hin & Hlt & Hli).
    destruct (Horigin _ _ Hf') as [(t0 & Ht0 & Le & W)|[_ Hns]]; [|rewrite <- Hlt, (EL l Hin) in Hns; discriminate].
    pose proof (ES1 _ _ Ht0 l Hin Hlt) as Hle. assert (Et : t_inst t' = t_inst t0) by lia.
    assert (Eli : l_inst l = t_inst t0) by lia.
    destruct (ES2 _ _ Ht0 (ex_intro _ l (conj Hin (conj Hlt Eli)))) as (Hw & Hc0 & Hng).
    split; [|split].
    + destruct (is_waiting t') eqn:Ew; [|reflexivity]. rewrite (W Et eq_refl) in Hw. discriminate.
    + destruct (cc x (s_procs s')) eqn:Ec; [reflexivity|]. exfalso.
      destruct (cc_pos_tags x (s_procs s') ltac:(lia)) as (j & Hj).
      destruct (Htags x j Hj) as [Ho|[(t1 & Ht1 & Lt1) Hle1]].
      * pose proof (tags_cc _ _ _ Ho). lia.
      * rewrite Ht0 in Ht1. inversion Ht1; subst t1. specialize (Hle1 t' Hf'). lia.
    + intros p' Hin' Hgp'. pose proof (in_find_proc _ _ Hps' Hin') as Hf''.
      destruct (PFL _ _ Hf'') as (_ & p0 & add & Hf0 & _ & _ & Eu & _). rewrite Eu in Hgp'.
      exact (Hng p0 (proj1 (NoPanicL0.find_proc_some _ _ _ Hf0)) Hgp').
  - (* L *) intros l Hin. specialize (S (l_t l)). unfold hq_of in S. cbn [fst] in S. exact (S (EL l Hin)).
  - (* M *) exact EM.
Qed.

(** * Every operation *)
Theorem step_EX s pre o s' outs :
  EX s pre -> INV s -> INV s' -> PROTO s -> PROTO s' -> step s o = Ok (s', outs) -> EX s' (pre ++ outs).
Proof.
  intros HE HI HI' HP HP' H. destruct o.
  - eapply EX_connect; eassumption.
  - eapply EX_lost; eassumption.
  - eapply EX_client; [| eassumption | eassumption | eassumption | eassumption | eassumption | exact H]; exact I.
  - eapply EX_client; [| eassumption | eassumption | eassumption | eassumption | eassumption | exact H]; exact I.
  - eapply EX_client; [| eassumption | eassumption | eassumption | eassumption | eassumption | exact H]; exact I.
  - eapply EX_client; [| eassumption | eassumption | eassumption | eassumption | eassumption | exact H]; exact I.
  - eapply EX_client; [| eassumption | eassumption | eassumption | eassumption | eassumption | exact H]; exact I.
  - eapply EX_client; [| eassumption | eassumption | eassumption | eassumption | eassumption | exact H]; exact I.
  - eapply EX_ddown; eassumption.
  - eapply EX_dup; eassumption.
  - eapply EX_sched; eassumption.
  - eapply EX_end; eassumption.
  - eapply EX_failnext; eassumption.
  - eapply EX_timer; eassumption.
  - eapply EX_prune; eassumption.
Qed.

Lemma EX_init reserve maxfill : EX (init_sys reserve maxfill) [].
Proof.
  constructor; cbn.
  - intros x. lia.
  - intros x j [].
  - intros x j t [].
  - intros x t H. discriminate.
  - intros x t H. discriminate.
  - intros l [].
  - apply mono_nil.
Qed.

(** * Every history *)
Theorem reachable_EX ops : forall reserve maxfill s outs,
  Forall op_wf ops -> ops_ok (init_sys reserve maxfill) ops = true -> run (init_sys reserve maxfill) ops = Ok (s, outs) -> EX s outs.
Proof.
  induction ops as [|o pre IH] using rev_ind; intros reserve maxfill s outs Hwf Hok H.
  - cbn in H. inversion H; subst. apply EX_init.
  - pose proof (proj1 (reachable_PROTO _ _ _ _ _ Hwf Hok H)) as HP'. pose proof (reachable_INV_ops _ _ _ _ _ Hwf Hok H) as HI'.
    apply Forall_app in Hwf. destruct Hwf as [Hwf1 Hwf2]. destruct (ops_ok_snoc _ _ _ Hok) as [Hok1 _].
    destruct (run_app _ _ _ _ _ H) as (s1 & o1 & o2 & H1 & H2 & ->). cbn [run] in H2. apply bind_ok in H2. destruct H2 as ([s2 o3] & Hs & H2). cbn in H2. inversion H2; subst s2 o2. clear H2.
    rewrite app_nil_r.
    eapply step_EX; [exact (IH _ _ _ _ Hwf1 Hok1 H1) | exact (reachable_INV_ops _ _ _ _ _ Hwf1 Hok1 H1) | exact HI'
      | exact (proj1 (reachable_PROTO _ _ _ _ _ Hwf1 Hok1 H1)) | exact HP' | exact Hs].
Qed.

(** * C06: the launches of one task carry strictly increasing instance ids *)
Lemma launches_split outs a l1 b l2 c : outs = a ++ OLaunch l1 :: b ++ OLaunch l2 :: c ->
  launches outs = launches a ++ l1 :: launches b ++ l2 :: launches c.
Proof. intros ->. rewrite launches_app. cbn [launches flat_map app]. f_equal. f_equal. fold (launches (b ++ OLaunch l2 :: c)). rewrite launches_app. reflexivity. Qed.

Theorem instances_increase ops reserve maxfill s outs :
  Forall op_wf ops -> ops_ok (init_sys reserve maxfill) ops = true -> run (init_sys reserve maxfill) ops = Ok (s, outs) ->
  forall a l1 b l2 c, outs = a ++ OLaunch l1 :: b ++ OLaunch l2 :: c -> l_t l1 = l_t l2 -> l_inst l1 < l_inst l2.
Proof.
  intros Hwf Hok H a l1 b l2 c E Et. pose proof (ex_m _ _ (reachable_EX _ _ _ _ _ Hwf Hok H)) as Hm.
  exact (Hm _ _ _ _ _ (launches_split _ _ _ _ _ _ E) Et).
Qed.

Print Assumptions instances_increase.
