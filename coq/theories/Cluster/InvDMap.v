(** C03, the dependency invariant, part 2: the three structural changes of the task map
    (a task finishes, a doomed task is removed, a new task is registered) keep the invariant. *)
From HQ Require Import Base.Prelude Cluster.Types Cluster.Core Cluster.BijBase Cluster.InvDBase.
From Coq Require Import ZArith Lia.
Local Open Scope N_scope.

Arguments N.add : simpl never.
Arguments N.sub : simpl never.

Lemma DI_make (m : tmap) :
  (forall id t, m id = Some t -> t_id t = id) ->
  (forall id t, m id = Some t -> t_state t <> Finished) ->
  (forall id t, m id = Some t -> NoDup (t_deps t)) ->
  (forall id t, m id = Some t -> NoDup (t_consumers t)) ->
  (forall id t, m id = Some t -> match t_state t with Waiting n => n = N.of_nat (dcount m t) | _ => dcount m t = O end) ->
  (forall id t x, m id = Some t -> In x (t_consumers t) -> exists ct, m x = Some ct /\ is_waiting ct = true /\ In id (t_deps ct)) ->
  (forall id t d dt, m id = Some t -> In d (t_deps t) -> m d = Some dt -> In id (t_consumers dt)) ->
  DI m.
Proof.
  intros A B C D E F G. constructor; auto; try (intros id t d _ _ _ _ []; fail).
  intros id t Em. specialize (E id t Em). unfold cnt_ok. destruct (t_state t); try exact E.
  split; [intros [] | intros _; exact E].
Qed.

(** * A placed task finishes *)
Definition dec_state (t : task) : task :=
  match t_state t with Waiting n => with_state t (Waiting (n - 1)) | _ => t end.
Definition woken (m : tmap) (C : list tid) : tmap :=
  fun x => if tid_mem x C then option_map dec_state (m x) else m x.

Lemma dec_state_edges t : same_edges t (dec_state t).
Proof. unfold dec_state. destruct (t_state t); repeat split. Qed.
Lemma dec_state_waiting t : is_waiting (dec_state t) = is_waiting t.
Proof. unfold dec_state, is_waiting. destruct (t_state t) eqn:E; cbn; try rewrite E; reflexivity. Qed.

Lemma DI_finish m m' f t :
  DI m -> m f = Some t -> is_waiting t = false ->
  (forall x, m' x = woken (mdel m f) (t_consumers t) x) -> DI m'.
Proof.
  intros D Ef Hnw E.
  set (C := t_consumers t) in *.
  assert (H1 : forall x tx', m' x = Some tx' -> x <> f /\ exists tx, m x = Some tx /\ tx' = (if tid_mem x C then dec_state tx else tx)).
  { intros x tx' Ex. rewrite E in Ex. unfold woken, mdel in Ex. destruct (tid_eqb x f) eqn:Exf.
    - destruct (tid_mem x C); discriminate.
    - apply tid_eqb_neq in Exf. split; [exact Exf|]. destruct (m x) as [tx|]; [|destruct (tid_mem x C); discriminate].
      exists tx. split; [reflexivity|]. destruct (tid_mem x C); cbn in Ex; inversion Ex; reflexivity. }
  assert (H2 : forall x tx, m x = Some tx -> x <> f -> m' x = Some (if tid_mem x C then dec_state tx else tx)).
  { intros x tx Ex Hne. rewrite E. unfold woken, mdel. apply tid_eqb_neq in Hne. rewrite Hne, Ex. destruct (tid_mem x C); reflexivity. }
  assert (Hedges : forall x tx, same_edges tx (if tid_mem x C then dec_state tx else tx)).
  { intros x tx. destruct (tid_mem x C); [apply dec_state_edges | repeat split]. }
  assert (Hinm : forall d, inm m' d = if tid_eqb d f then false else inm m d).
  { intros d. unfold inm. rewrite E. unfold woken, mdel. destruct (tid_eqb d f); [destruct (tid_mem d C); reflexivity|].
    destruct (tid_mem d C), (m d); reflexivity. }
  (* membership in C = depends on f *)
  assert (HC : forall x tx, m x = Some tx -> (In x C <-> In f (t_deps tx))).
  { intros x tx Ex. split.
    - intros Hx. destruct (dx_cons _ _ D _ _ _ Ef Hx) as (ct & Ec & _ & Hd). rewrite Ex in Ec. inversion Ec; subst. exact Hd.
    - intros Hd. eapply (dx_deps _ _ D x tx f t); eassumption. }
  apply DI_make.
  - intros x tx' Ex. destruct (H1 _ _ Ex) as (_ & tx & Etx & ->). destruct (Hedges x tx) as (Hi & _). rewrite Hi. eapply dx_id; eassumption.
  - intros x tx' Ex. destruct (H1 _ _ Ex) as (_ & tx & Etx & ->). pose proof (dx_nofin _ _ D _ _ Etx) as Hn.
    destruct (tid_mem x C); [|exact Hn]. unfold dec_state. destruct (t_state tx) eqn:Est; try (rewrite Est; exact Hn). cbn. discriminate.
  - intros x tx' Ex. destruct (H1 _ _ Ex) as (_ & tx & Etx & ->). destruct (Hedges x tx) as (_ & Hd & _). rewrite Hd. eapply dx_nd; eassumption.
  - intros x tx' Ex. destruct (H1 _ _ Ex) as (_ & tx & Etx & ->). destruct (Hedges x tx) as (_ & _ & Hc). rewrite Hc. eapply dx_nc; eassumption.
  - intros x tx' Ex. destruct (H1 _ _ Ex) as (Hne & tx & Etx & ->).
    pose proof (DI_cnt _ _ _ D Etx) as Cn. pose proof (HC _ _ Etx) as HCx.
    destruct (tid_mem x C) eqn:Em.
    + apply tid_mem_In in Em. pose proof (proj1 HCx Em) as Hfd.
      destruct (dx_cons _ _ D _ _ _ Ef Em) as (ct & Ec & Wc & _). rewrite Etx in Ec. inversion Ec; subst ct.
      assert (Hdrop : S (dcount m' (dec_state tx)) = dcount m tx).
      { unfold dcount. destruct (dec_state_edges tx) as (_ & Hd & _). rewrite Hd.
        apply (flen_drop (inm m') (inm m) (t_deps tx) f); [eapply dx_nd; eassumption | exact Hfd | apply inm_true; eauto | rewrite Hinm, tid_eqb_refl'; reflexivity|].
        intros y _ Hy. rewrite Hinm. apply tid_eqb_neq in Hy. rewrite Hy. reflexivity. }
      unfold is_waiting in Wc. unfold dec_state in *. destruct (t_state tx) eqn:Est; try discriminate. cbn [t_state with_state]. lia.
    + apply tid_mem_nIn in Em.
      assert (Hsame : dcount m' tx = dcount m tx).
      { unfold dcount. apply flen_ext. intros y Hy. rewrite Hinm. destruct (tid_eqb y f) eqn:Ey; [|reflexivity].
        apply tid_eqb_eq in Ey. subst y. exfalso. apply Em. apply HCx. exact Hy. }
      rewrite Hsame. exact Cn.
  - intros x tx' y Ex Hy. destruct (H1 _ _ Ex) as (Hne & tx & Etx & ->).
    destruct (Hedges x tx) as (_ & _ & Hc). rewrite Hc in Hy.
    destruct (dx_cons _ _ D _ _ _ Etx Hy) as (cy & Ey & Wy & Iy).
    assert (Hyf : y <> f). { intros ->. rewrite Ef in Ey. inversion Ey; subst. congruence. }
    exists (if tid_mem y C then dec_state cy else cy). split; [apply H2; assumption|].
    destruct (Hedges y cy) as (_ & Hd & _). rewrite Hd. split; [|exact Iy].
    destruct (tid_mem y C); [rewrite dec_state_waiting|]; exact Wy.
  - intros x tx' d dt' Ex Hd Ed. destruct (H1 _ _ Ex) as (Hne & tx & Etx & ->). destruct (H1 _ _ Ed) as (Hdf & dt & Edt & ->).
    destruct (Hedges x tx) as (_ & Hdx & _). rewrite Hdx in Hd.
    destruct (Hedges d dt) as (_ & _ & Hcd). rewrite Hcd. eapply dx_deps; eassumption.
Qed.

(** * Removing one doomed task *)
Definition rmc (m : tmap) (D : list tid) (cid : tid) : tmap :=
  fun x => match m x with
           | Some t => if tid_mem x D then Some (with_consumers t (tid_remove cid (t_consumers t))) else Some t
           | None => None
           end.

Lemma rmc_nodeps m id t x : dcount m t = O -> rmc (mdel m id) (t_deps t) id x = mdel m id x.
Proof.
  intros Hz. unfold rmc, mdel. destruct (tid_eqb x id); [reflexivity|]. destruct (m x) as [tx|] eqn:Ex; [|reflexivity].
  destruct (tid_mem x (t_deps t)) eqn:Em; [|reflexivity]. apply tid_mem_In in Em.
  pose proof (proj1 (flen_zero _ _) Hz x Em) as Hf. apply inm_false in Hf. congruence.
Qed.

Lemma DX_remove X m m' id t :
  DX X m -> In id X -> m id = Some t ->
  (forall x, m' x = rmc (mdel m id) (t_deps t) id x) -> DX X m'.
Proof.
  intros D HX Ef E.
  set (Dp := t_deps t) in *.
  pose (upd := fun (x : tid) (tx : task) => if tid_mem x Dp then with_consumers tx (tid_remove id (t_consumers tx)) else tx).
  assert (H1 : forall x tx', m' x = Some tx' -> x <> id /\ exists tx, m x = Some tx /\ tx' = upd x tx).
  { intros x tx' Ex. rewrite E in Ex. unfold rmc, mdel in Ex. destruct (tid_eqb x id) eqn:Exf; [discriminate|].
    apply tid_eqb_neq in Exf. split; [exact Exf|]. destruct (m x) as [tx|]; [|discriminate]. exists tx. split; [reflexivity|].
    unfold upd. destruct (tid_mem x Dp); inversion Ex; reflexivity. }
  assert (H2 : forall x tx, m x = Some tx -> x <> id -> m' x = Some (upd x tx)).
  { intros x tx Ex Hne. rewrite E. unfold rmc, mdel. apply tid_eqb_neq in Hne. rewrite Hne, Ex. unfold upd. destruct (tid_mem x Dp); reflexivity. }
  assert (Hst : forall x tx, t_id (upd x tx) = t_id tx /\ t_deps (upd x tx) = t_deps tx /\ t_state (upd x tx) = t_state tx).
  { intros x tx. unfold upd. destruct (tid_mem x Dp); repeat split. }
  assert (Hcsub : forall x tx y, In y (t_consumers (upd x tx)) -> In y (t_consumers tx)).
  { intros x tx y. unfold upd. destruct (tid_mem x Dp); [cbn; apply tid_remove_sub | auto]. }
  assert (Hinm : forall d, inm m' d = if tid_eqb d id then false else inm m d).
  { intros d. unfold inm. rewrite E. unfold rmc, mdel. destruct (tid_eqb d id); [reflexivity|].
    destruct (m d); [destruct (tid_mem d Dp); reflexivity | reflexivity]. }
  assert (Hle : forall tx, (dcount m' tx <= dcount m tx)%nat).
  { intros tx. unfold dcount. apply flen_le. intros y _. rewrite Hinm. destruct (tid_eqb y id); [discriminate | auto]. }
  constructor.
  - intros x tx' Ex. destruct (H1 _ _ Ex) as (_ & tx & Etx & ->). destruct (Hst x tx) as (Hi & _). rewrite Hi. eapply dx_id; eassumption.
  - intros x tx' Ex. destruct (H1 _ _ Ex) as (_ & tx & Etx & ->). destruct (Hst x tx) as (_ & _ & Hs). rewrite Hs. eapply dx_nofin; eassumption.
  - intros x tx' Ex. destruct (H1 _ _ Ex) as (_ & tx & Etx & ->). destruct (Hst x tx) as (_ & Hd & _). rewrite Hd. eapply dx_nd; eassumption.
  - intros x tx' Ex. destruct (H1 _ _ Ex) as (_ & tx & Etx & ->). pose proof (dx_nc _ _ D _ _ Etx) as Hn.
    unfold upd. destruct (tid_mem x Dp); [cbn; apply tid_remove_NoDup; exact Hn | exact Hn].
  - intros x tx' Ex. destruct (H1 _ _ Ex) as (Hne & tx & Etx & ->). destruct (Hst x tx) as (_ & Hd & Hs).
    pose proof (dx_cnt _ _ D _ _ Etx) as Cn. rewrite Hs.
    assert (Hdc : dcount m' (upd x tx) = dcount m' tx) by (unfold dcount; rewrite Hd; reflexivity). rewrite Hdc.
    destruct (in_dec tid_dec x X) as [Hin|Hout].
    + pose proof (Hle tx) as L. unfold cnt_ok in *. destruct (t_state tx); try lia.
      destruct Cn as [Cn _]. specialize (Cn Hin). split; [intros _; lia | intros Hc; contradiction].
    + assert (Hsame : dcount m' tx = dcount m tx).
      { unfold dcount. apply flen_ext. intros y Hy. rewrite Hinm. destruct (tid_eqb y id) eqn:Ey; [|reflexivity].
        apply tid_eqb_eq in Ey. subst y. exfalso. apply (dx_closed _ _ D x tx id Etx Hout Hy); [apply inm_true; eauto | exact HX]. }
      rewrite Hsame. exact Cn.
  - intros x tx' d Ex Hout Hd Hi. destruct (H1 _ _ Ex) as (Hne & tx & Etx & ->). destruct (Hst x tx) as (_ & Hdx & _). rewrite Hdx in Hd.
    rewrite Hinm in Hi. destruct (tid_eqb d id); [discriminate|]. eapply dx_closed; eassumption.
  - intros x tx' y Ex Hy. destruct (H1 _ _ Ex) as (Hne & tx & Etx & ->).
    pose proof (Hcsub _ _ _ Hy) as Hy0.
    destruct (dx_cons _ _ D _ _ _ Etx Hy0) as (cy & Ey & Wy & Iy).
    assert (Hyi : y <> id).
    { intros ->. rewrite Ef in Ey. inversion Ey; subst cy. fold Dp in Iy.
      apply tid_mem_In in Iy. unfold upd in Hy. rewrite Iy in Hy. cbn in Hy.
      exact (tid_remove_gone _ _ (dx_nc _ _ D _ _ Etx) Hy). }
    exists (upd y cy). split; [apply H2; assumption|]. destruct (Hst y cy) as (_ & Hd & Hs). rewrite Hd. split; [|exact Iy].
    unfold is_waiting in *. rewrite Hs. exact Wy.
  - intros x tx' d dt' Ex Hd Ed. destruct (H1 _ _ Ex) as (Hne & tx & Etx & ->). destruct (H1 _ _ Ed) as (Hdi & dt & Edt & ->).
    destruct (Hst x tx) as (_ & Hdx & _). rewrite Hdx in Hd.
    pose proof (dx_deps _ _ D _ _ _ _ Etx Hd Edt) as Hin.
    unfold upd. destruct (tid_mem d Dp); [cbn; apply tid_remove_keeps; assumption | exact Hin].
Qed.

(** Entering and leaving the relaxed invariant. *)
Lemma DX_start X m :
  DI m -> (forall x tx y, In x X -> m x = Some tx -> In y (t_consumers tx) -> In y X) -> DX X m.
Proof.
  intros D Hcl. constructor; try (apply D).
  - intros id t Em. pose proof (DI_cnt _ _ _ D Em) as C. unfold cnt_ok. destruct (t_state t); try exact C.
    split; [intros _; lia | intros _; exact C].
  - intros id t d Em Hout Hd Hi Hdx. apply inm_true in Hi. destruct Hi as (dt & Edt).
    apply Hout. eapply Hcl; [exact Hdx | exact Edt | eapply dx_deps; eassumption].
Qed.

Lemma DX_end X m : DX X m -> (forall x, In x X -> m x = None) -> DI m.
Proof.
  intros D Hgone. constructor; try (apply D).
  - intros id t Em. pose proof (dx_cnt _ _ D _ _ Em) as C. unfold cnt_ok in *. destruct (t_state t); try exact C.
    assert (Hout : ~ In id X) by (intros Hin; rewrite (Hgone _ Hin) in Em; discriminate).
    split; [intros [] | intros _; apply C; exact Hout].
  - intros id t d _ _ _ _ [].
Qed.

(** * Registering a new task *)
Definition regm (m : tmap) (D : list tid) (id : tid) : tmap :=
  fun x => match m x with
           | Some t => if tid_mem x D then Some (with_consumers t (tid_insert id (t_consumers t))) else Some t
           | None => None
           end.

Lemma DI_add m m' t kept :
  DI m -> m (t_id t) = None -> (forall x tx, m x = Some tx -> ~ In (t_id t) (t_deps tx)) ->
  NoDup (t_deps t) -> t_consumers t = [] -> kept = filter (inm m) (t_deps t) ->
  (forall x, m' x = mupd (regm m (t_deps t) (t_id t)) (t_id t)
                         (with_state (with_deps t kept) (Waiting (N.of_nat (length kept)))) x) ->
  DI m'.
Proof.
  intros D Hfresh Hnodep Hnd Hnc Hk E.
  set (id := t_id t) in *. set (Dp := t_deps t) in *.
  set (t1 := with_state (with_deps t kept) (Waiting (N.of_nat (length kept)))) in *.
  pose (upd := fun (x : tid) (tx : task) => if tid_mem x Dp then with_consumers tx (tid_insert id (t_consumers tx)) else tx).
  assert (Hnew : m' id = Some t1) by (rewrite E; unfold mupd; rewrite tid_eqb_refl'; reflexivity).
  assert (H1 : forall x tx', m' x = Some tx' -> (x = id /\ tx' = t1) \/ (x <> id /\ exists tx, m x = Some tx /\ tx' = upd x tx)).
  { intros x tx' Ex. rewrite E in Ex. unfold mupd, regm in Ex. destruct (tid_eqb x id) eqn:Exi.
    - apply tid_eqb_eq in Exi. left. inversion Ex. auto.
    - apply tid_eqb_neq in Exi. right. split; [exact Exi|]. destruct (m x) as [tx|]; [|discriminate]. exists tx. split; [reflexivity|].
      unfold upd. destruct (tid_mem x Dp); inversion Ex; reflexivity. }
  assert (H2 : forall x tx, m x = Some tx -> x <> id /\ m' x = Some (upd x tx)).
  { intros x tx Ex. assert (Hne : x <> id) by (intros ->; congruence). split; [exact Hne|].
    rewrite E. unfold mupd, regm. apply tid_eqb_neq in Hne. rewrite Hne, Ex. unfold upd. destruct (tid_mem x Dp); reflexivity. }
  assert (Hst : forall x tx, t_id (upd x tx) = t_id tx /\ t_deps (upd x tx) = t_deps tx /\ t_state (upd x tx) = t_state tx).
  { intros x tx. unfold upd. destruct (tid_mem x Dp); repeat split. }
  assert (Hinm : forall d, inm m' d = if tid_eqb d id then true else inm m d).
  { intros d. unfold inm. rewrite E. unfold mupd, regm. destruct (tid_eqb d id); [reflexivity|].
    destruct (m d); [destruct (tid_mem d Dp); reflexivity | reflexivity]. }
  assert (Hkept : forall d, In d kept <-> In d Dp /\ inm m d = true) by (intros d; rewrite Hk; apply filter_In).
  assert (Hkid : ~ In id kept). { intros Hin. apply Hkept in Hin. destruct Hin as [_ Hin]. apply inm_true in Hin. destruct Hin as (x & Hx). congruence. }
  apply DI_make.
  - intros x tx' Ex. destruct (H1 _ _ Ex) as [[-> ->]|(Hne & tx & Etx & ->)]; [reflexivity|].
    destruct (Hst x tx) as (Hi & _). rewrite Hi. eapply dx_id; eassumption.
  - intros x tx' Ex. destruct (H1 _ _ Ex) as [[-> ->]|(Hne & tx & Etx & ->)]; [cbn; discriminate|].
    destruct (Hst x tx) as (_ & _ & Hs). rewrite Hs. eapply dx_nofin; eassumption.
  - intros x tx' Ex. destruct (H1 _ _ Ex) as [[-> ->]|(Hne & tx & Etx & ->)].
    + cbn. rewrite Hk. apply NoDup_filter'. exact Hnd.
    + destruct (Hst x tx) as (_ & Hd & _). rewrite Hd. eapply dx_nd; eassumption.
  - intros x tx' Ex. destruct (H1 _ _ Ex) as [[-> ->]|(Hne & tx & Etx & ->)].
    + cbn. fold (t_consumers t). rewrite Hnc. constructor.
    + pose proof (dx_nc _ _ D _ _ Etx) as Hn. unfold upd. destruct (tid_mem x Dp); [|exact Hn]. cbn.
      apply tid_insert_NoDup; [|exact Hn]. intros Hin. destruct (dx_cons _ _ D _ _ _ Etx Hin) as (ct & Ec & _). congruence.
  - intros x tx' Ex. destruct (H1 _ _ Ex) as [[-> ->]|(Hne & tx & Etx & ->)].
    + cbn [t1 t_state with_state]. f_equal. unfold dcount. cbn [t_deps with_state with_deps]. symmetry. apply flen_all.
      intros d Hd. rewrite Hinm. destruct (tid_eqb d id); [reflexivity|]. apply Hkept in Hd. apply Hd.
    + destruct (Hst x tx) as (_ & Hd & Hs). rewrite Hs.
      assert (Hsame : dcount m' (upd x tx) = dcount m tx).
      { unfold dcount. rewrite Hd. apply flen_ext. intros y Hy. rewrite Hinm. destruct (tid_eqb y id) eqn:Ey; [|reflexivity].
        apply tid_eqb_eq in Ey. subst y. exfalso. exact (Hnodep _ _ Etx Hy). }
      rewrite Hsame. eapply DI_cnt; eassumption.
  - intros x tx' y Ex Hy. destruct (H1 _ _ Ex) as [[-> ->]|(Hne & tx & Etx & ->)].
    + cbn in Hy. fold (t_consumers t) in Hy. rewrite Hnc in Hy. destruct Hy.
    + assert (Hcase : (y = id /\ tid_mem x Dp = true) \/ In y (t_consumers tx)).
      { unfold upd in Hy. destruct (tid_mem x Dp); [|right; exact Hy]. cbn in Hy.
        destruct (tid_insert_sub _ _ _ Hy) as [->|Hy']; [left; auto | right; exact Hy']. }
      destruct Hcase as [[-> Hm]|Hy0].
      * exists t1. split; [exact Hnew|]. split; [reflexivity|]. cbn. apply Hkept. split; [apply tid_mem_In; exact Hm | apply inm_true; eauto].
      * destruct (dx_cons _ _ D _ _ _ Etx Hy0) as (cy & Ey & Wy & Iy). destruct (H2 _ _ Ey) as (Hyi & Ey').
        exists (upd y cy). split; [exact Ey'|]. destruct (Hst y cy) as (_ & Hd & Hs). rewrite Hd. split; [|exact Iy].
        unfold is_waiting in *. rewrite Hs. exact Wy.
  - intros x tx' d dt' Ex Hd Ed. destruct (H1 _ _ Ex) as [[-> ->]|(Hne & tx & Etx & ->)].
    + cbn in Hd. apply Hkept in Hd. destruct Hd as [HdD Hdi]. apply inm_true in Hdi. destruct Hdi as (dt & Edt).
      destruct (H2 _ _ Edt) as (Hdne & Ed'). rewrite Ed' in Ed. inversion Ed; subst dt'.
      unfold upd. apply tid_mem_In in HdD. rewrite HdD. cbn. apply tid_insert_new.
    + destruct (Hst x tx) as (_ & Hdx & _). rewrite Hdx in Hd.
      destruct (H1 _ _ Ed) as [[-> ->]|(Hdne & dt & Edt & ->)]; [exfalso; exact (Hnodep _ _ Etx Hd)|].
      pose proof (dx_deps _ _ D _ _ _ _ Etx Hd Edt) as Hin.
      unfold upd. destruct (tid_mem d Dp); [cbn; apply tid_insert_old; exact Hin | exact Hin].
Qed.
