(** All proved invariants of a reachable state in one record - the interface for the no-panic
    proofs (C09).  Hypotheses on the history: [op_wf] and [run_fresh] (RejHyp.v). *)
From HQ Require Import Base.Prelude Cluster.Types Cluster.Core Cluster.Reactor Cluster.Worker Cluster.Server Cluster.Sys Cluster.Monitors Cluster.ProofsJob Cluster.ProofsStep Cluster.ProofsFinal Cluster.BijBase Cluster.BijCore Cluster.BijReact Cluster.BijFinal Cluster.RejHyp Cluster.InvWCore Cluster.InvWFinal Cluster.InvQBase Cluster.InvQStep Cluster.InvDBase Cluster.InvDSpec Cluster.InvDRem Cluster.InvDSched Cluster.InvDStep Cluster.InvAll.
From Coq Require Import ZArith Lia.
Local Open Scope N_scope.

Record INV (s : sys) : Prop := mkINV {
  inv_hok : HOK (s_hq s);                 (* job counters exact (ProofsJob) *)
  inv_fresh : fresh (s, []);              (* job ids below the counter (ProofsFinal) *)
  inv_cb : CB (s, []);                    (* task map sorted, consumers within the job, core tasks = active job tasks (Bij files) *)
  inv_w : WI (s_core s);                  (* worker sets <-> task states, sortedness of workers / sets / redirects (InvW files) *)
  inv_q : QInv (s_core s);                (* queues <-> task states, queue structure (InvQ files) *)
  inv_qs : queue_statement (s_core s);    (* ... in readable form *)
  inv_d : GD (s_core s);                  (* dependency counters and consumer lists exact (InvD files) *)
  inv_dj : DJ (s, [])                     (* dependencies are known ids of the task's own job *)
}.

Theorem reachable_INV ops reserve maxfill s outs :
  Forall op_wf ops -> run_fresh (init_sys reserve maxfill) ops = true -> run (init_sys reserve maxfill) ops = Ok (s, outs) ->
  INV s.
Proof.
  intros Hwf Hf H.
  assert (HC0 : CB (init_sys reserve maxfill, [])).
  { constructor; [constructor | intros id cs x [] | ]. intros x. split; [intros [] | intros (l & Hl & _); discriminate]. }
  assert (Hok0 : HOK (s_hq (init_sys reserve maxfill))) by (intros j []).
  assert (F0 : fresh (init_sys reserve maxfill, [])) by (intros j []).
  assert (Hal : along (fun s0 => InvQBase.asg_ok (s_core s0)) (init_sys reserve maxfill) ops).
  { eapply (along_impl (fun s0 => InvWFinal.asg_ok (s_core s0))).
    - intros s0 Hs0 wk a p f id t. apply Hs0.
    - eapply (along_reach _ reserve maxfill) with (pre := []); [| constructor | reflexivity | reflexivity | exact Hwf | exact Hf].
      intros ops0 s0 outs0 Hw0 Hf0 Hr0. eapply asg_ok_reachable; eassumption. }
  destruct (queue_invariant_full _ _ _ _ _ Hwf H Hal) as [HQ HQS].
  assert (HPRE : PRE (s, outs)).
  { eapply (run_PRE).
    - intros ops0 r m s0 outs0 Hw Hf0 Hr. destruct (queue_invariant_reachable _ _ _ _ _ Hw Hf0 Hr) as (_ & Q1 & Q2). split; [exact Q1 | exact Q2].
    - intros ops0 r m s0 outs0 Hw Hf0 Hr. exact (proj1 (worker_sets_invariant _ _ _ _ _ Hw Hf0 Hr)).
    - exact Hwf.
    - exact Hf.
    - exact H. }
  constructor.
  - eapply run_hq_ok; [exact Hok0 | exact H].
  - apply (fresh_outs s outs). apply (g_fresh _ _ (G_run _ _ _ _ F0 H)). exact F0.
  - eapply CB_outs. eapply run_CB; [exact Hok0 | exact F0 | exact Hwf | exact HC0 | exact H].
  - exact (proj1 (reachable_WI _ _ _ _ _ Hwf Hf H)).
  - exact HQ.
  - exact HQS.
  - exact (proj1 HPRE).
  - exact (proj2 HPRE).
Qed.
