(** The queue invariant, part 6: the reactor, second half - task updates from the workers and the
    retract response. *)
From HQ Require Import Base.Prelude Cluster.Types Cluster.Core Cluster.Reactor Cluster.Worker Cluster.Server Cluster.Sys Cluster.Monitors Cluster.ProofsJob Cluster.ProofsMore Cluster.ProofsTerminal Cluster.ProofsStep Cluster.BijBase Cluster.BijCore Cluster.BijHq Cluster.BijSt Cluster.BijReact Cluster.FrameGen Cluster.CrashFrame Cluster.InvQBase Cluster.InvQTake Cluster.InvQInv Cluster.InvQOps Cluster.InvQReact.
From Coq Require Import ZArith Lia Sorting.Sorted.
Local Open Scope N_scope.

Arguments N.add : simpl never.
Arguments N.sub : simpl never.

(** A task that is nowhere by its state may as well be listed as an exception. *)
Lemma QI_mark_nowhere Z c id t :
  QI none Z c -> find_task (c_tasks c) id = Some t ->
  nat_place (c_redirects c) id (t_state t) = Nowhere -> (forall w, t_state t <> Retracting w) ->
  QI (exU none id Nowhere) Z c.
Proof.
  intros V Hf Hn Hnr. unfold QI in *. eapply QV_ex_change; [exact V | |].
  - intros x t0 Hf0. unfold exp_place, exU, none. destruct (tid_eqb x id) eqn:E; [|reflexivity].
    apply tid_eqb_eq in E. subst x. rewrite Hf in Hf0. inversion Hf0; subst t0. symmetry. exact Hn.
  - intros x v Hv. pose proof (qv_red _ _ _ _ _ _ V _ _ Hv) as (_ & t0 & w & Hf0 & Hw). unfold exU, none.
    destruct (tid_eqb x id) eqn:E; [|reflexivity]. apply tid_eqb_eq in E. subst x. rewrite Hf in Hf0. inversion Hf0; subst t0. exfalso. exact (Hnr _ Hw).
Qed.

(** * [task_finished] *)
Lemma wake_consumers_QI Z csm : forall c ret c' ret',
  QI (exL Ready ret none) Z c -> wake_consumers c csm ret = Ok (c', ret') ->
  QI (exL Ready ret' none) Z c'.
Proof.
  induction csm as [|x r IH]; cbn [wake_consumers]; intros c ret c' ret' V H; [inversion H; subst; exact V|].
  apply bind_ok in H. destruct H as (t & Ht & H). apply get_task_find in Ht.
  pose proof (find_task_id _ _ _ Ht) as Hid.
  destruct (t_state t) as [n| | | | | |] eqn:Est; try discriminate.
  destruct (N.eqb n 0) eqn:En; [discriminate|].
  assert (Hnr : find_redirect (c_redirects c) x = None) by (eapply QV_no_redirect; [exact V | exact Ht | intros w0; congruence]).
  destruct (N.eqb (n - 1) 0) eqn:En1.
  - apply bind_ok in H. destruct H as ([qs rt] & Ha & H).
    eapply IH; [|exact H].
    qi_simpl.
    assert (V1 : QV (exL Ready rt (exR (exL Ready ret none) x)) Z (set_task (c_tasks c) (with_state t (Waiting (n - 1)))) qs (c_redirects c) (c_rqs c)).
    { eapply QV_requeue; [exact V | exact Ht | exact Hid | reflexivity | reflexivity | | exact Hnr | | | exact Ha].
      - rewrite Est. unfold exp_place, exL, none. destruct (tid_mem x ret); [discriminate|]. cbn. rewrite En. discriminate.
      - cbn. rewrite En1. reflexivity.
      - cbn. discriminate. }
    eapply QV_ex_change; [exact V1 | |].
    + intros y t0 Hf0. unfold exp_place, exL, exR, none. rewrite tmem_app.
      destruct (tid_mem y ret) eqn:Em1, (tid_mem y rt) eqn:Em2, (tid_eqb y x) eqn:E; try reflexivity.
      apply tid_eqb_eq in E. subst y. rewrite find_set_task in Hf0. cbn [t_id with_state] in Hf0. rewrite Hid, (proj2 (tid_eqb_eq x x) eq_refl) in Hf0.
      inversion Hf0; subst t0. cbn [t_state with_state nat_place]. rewrite En1. reflexivity.
    + intros y v Hv. destruct (qv_red _ _ _ _ _ _ V1 _ _ Hv) as (E1 & t0 & w & Hf0 & Hw).
      unfold exL, exR, none in E1 |- *. rewrite tmem_app.
      destruct (tid_mem y ret) eqn:Em1, (tid_mem y rt) eqn:Em2, (tid_eqb y x) eqn:E; try discriminate; try reflexivity.
      apply tid_eqb_eq in E. subst y. rewrite find_set_task in Hf0. cbn [t_id with_state] in Hf0. rewrite Hid, (proj2 (tid_eqb_eq x x) eq_refl) in Hf0.
      inversion Hf0; subst t0. discriminate.
  - eapply IH; [|exact H].
    qi_simpl. eapply QV_task0; [exact V | exact Ht | exact Hid | reflexivity | reflexivity | reflexivity | | |].
    + cbn [t_state with_state]. rewrite Est. unfold exp_place. destruct (exL Ready ret none x); [reflexivity|]. cbn. rewrite En, En1. reflexivity.
    + intros v Hv. congruence.
    + cbn. discriminate.
Qed.

Lemma task_finished_QI s w id s' b :
  QI none [] (core_of s) -> task_finished s w id = Ok (s', b) -> QI none [] (core_of s').
Proof.
  intros V H. unfold task_finished in H.
  destruct (find_task (c_tasks (core_of s)) id) as [t|] eqn:Ef; [|inversion H; subst; exact V].
  apply bind_ok in H. destruct H as (rq & _ & H). apply bind_ok in H. destruct H as (c1 & H1 & H).
  assert (V1 : QI (exU none id Nowhere) [] c1 /\ c_tasks c1 = c_tasks (core_of s) /\ c_rqs c1 = c_rqs (core_of s) /\ find_redirect (c_redirects c1) id = None).
  { assert (Hplain : forall c0, qsame (core_of s) c0 -> nat_place (c_redirects (core_of s)) id (t_state t) = Nowhere -> (forall w0, t_state t <> Retracting w0) ->
              QI (exU none id Nowhere) [] c0 /\ c_tasks c0 = c_tasks (core_of s) /\ c_rqs c0 = c_rqs (core_of s) /\ find_redirect (c_redirects c0) id = None).
    { intros c0 Hs Hn Hnr. split; [apply (QI_same _ _ _ _ Hs); eapply QI_mark_nowhere; eassumption|].
      destruct Hs as (A & B & C & D). split; [exact A | split; [exact D|]]. rewrite C. eapply QV_no_redirect; [exact V | exact Ef | exact Hnr]. }
    destruct (t_state t) as [|w1 rv1| |w1|w1 rv1|ws|] eqn:Est; try discriminate.
    - destruct (negb (N.eqb w1 w)); [discriminate|]. inv_binds H1. inversion H1; subst c1.
      apply Hplain; [repeat split | reflexivity | intros w0; discriminate].
    - destruct (negb (N.eqb w1 w)); [discriminate|]. eapply trr_QI; eassumption.
    - destruct (negb (N.eqb w1 w)); [discriminate|]. inv_binds H1. inversion H1; subst c1.
      apply Hplain; [repeat split | reflexivity | intros w0; discriminate].
    - destruct ws as [|w0 ws']; [discriminate|]. destruct (N.eqb w0 w); [|discriminate].
      apply Hplain; [eapply reset_mn_workers_qsame; exact H1 | reflexivity | intros w1; discriminate]. }
  destruct V1 as (V1 & T1 & R1 & Nr1).
  cbv zeta in H.
  apply bind_ok in H. destruct H as (s1 & Hf & H).
  destruct (process_task_finished_active _ _ _ Hf) as [C1 _]. unfold core_same in C1. cbn in C1.
  apply bind_ok in H. destruct H as ([c3 retracted] & Hw & H).
  apply bind_ok in H. destruct H as (s2 & Hr & H).
  apply bind_ok in H. destruct H as ([c4 stt] & Hrm & H).
  destruct stt; try discriminate. inversion H; subst; clear H.
  (* the task becomes Finished *)
  assert (V2 : QI none [id] (core_of s1)).
  { rewrite C1. qi_simpl. rewrite <- T1 in Ef. eapply QV_task0; [eapply QV_Z; [exact V1 | intros x []] | exact Ef | exact (find_task_id _ _ _ Ef) | reflexivity | reflexivity | | | |].
    - intros x Hne. symmetry. apply exU_other. exact Hne.
    - unfold exp_place. rewrite exU_same. reflexivity.
    - intros v Hv. congruence.
    - intros _. left. reflexivity. }
  pose proof (wake_consumers_QI [id] _ _ [] _ _ V2 Hw) as V3.
  pose proof (process_retracted_QI [id] (st_core s1 c3) _ _ V3 Hr) as V4.
  destruct (remove_task_QI none [id] [] _ _ _ _ lax_none V4 Hrm) as (V5 & _).
  - intros t2 Ht2. pose proof (remove_task_state _ _ _ _ _ Hrm Ht2) as Hst. right. unfold exp_place, none. rewrite <- Hst. cbn. split; [reflexivity|].
    eapply QV_no_redirect; [exact V4 | exact Ht2 | intros w0; congruence].
  - intros x [<-|[]] Hne. congruence.
  - exact V5.
Qed.

(** * [task_running] *)
Lemma task_running_QI s w id rv s' b :
  QI none [] (core_of s) -> task_running s w id rv = Ok (s', b) -> QI none [] (core_of s').
Proof.
  intros V H. unfold task_running in H.
  destruct (find_task (c_tasks (core_of s)) id) as [t|] eqn:Ef; [|inversion H; subst; exact V].
  apply bind_ok in H. destruct H as (rq & _ & H). apply bind_ok in H. destruct H as ([s1 ws] & H1 & H).
  apply bind_ok in H. destruct H as (s2 & H2 & H). inversion H; subst; clear H.
  destruct (process_task_started_active _ _ _ _ _ _ H2) as [C2 _]. unfold core_same in C2. rewrite C2. clear C2 H2.
  destruct (t_state t) as [|w1 rv1|w1|w1|w1 rv1|ws0|] eqn:Est; try discriminate.
  - destruct (negb (N.eqb w1 w)); [discriminate|]. destruct (negb (N.eqb rv1 rv)); [discriminate|]. inversion H1; subst; clear H1.
    qi_simpl. eapply QV_task0; [exact V | exact Ef | exact (find_task_id _ _ _ Ef) | reflexivity | reflexivity | reflexivity | | |].
    + cbn [t_state with_state]. rewrite Est. reflexivity.
    + intros v Hv. exfalso. rewrite (QV_no_redirect _ _ _ _ _ _ _ _ V Ef) in Hv; [discriminate | intros w0; congruence].
    + cbn. discriminate.
  - destruct (negb (N.eqb w1 w)); [discriminate|].
    apply bind_ok in H1. destruct H1 as (wk & _ & H1). apply bind_ok in H1. destruct H1 as (wk' & _ & H1).
    apply bind_ok in H1. destruct H1 as (q & Hq & H1). apply bind_ok in H1. destruct H1 as (q' & Hq' & H1). inversion H1; subst; clear H1.
    qi_simpl. apply nth_queue_ok in Hq.
    assert (Hnr : find_redirect (c_redirects (core_of s)) id = None) by (eapply QV_no_redirect; [exact V | exact Ef | intros w0; congruence]).
    pose proof (QV_q_remove _ _ _ _ _ _ _ _ _ _ V Ef Hq Hq' Hnr) as V1.
    eapply QV_task0; [exact V1 | exact Ef | exact (find_task_id _ _ _ Ef) | reflexivity | reflexivity | | | |].
    + intros x Hne. symmetry. apply exU_other. exact Hne.
    + unfold exp_place. rewrite exU_same. reflexivity.
    + intros v Hv. congruence.
    + cbn. discriminate.
  - destruct (negb (N.eqb w1 w)); [discriminate|].
    apply bind_ok in H1. destruct H1 as (c1 & Hc1 & H1). apply bind_ok in H1. destruct H1 as (wk & _ & H1).
    apply bind_ok in H1. destruct H1 as (wk' & _ & H1). inversion H1; subst; clear H1.
    assert (V0 : QI none [] (core_of (ask_scheduling s))) by exact V.
    destruct (trr_QI _ _ _ _ _ _ _ V0 Ef Est Hc1) as (V1 & T1 & R1 & Nr1).
    change (c_tasks c1 = c_tasks (core_of s)) in T1. rewrite <- T1 in Ef. qi_simpl.
    eapply QV_task0; [exact V1 | exact Ef | exact (find_task_id _ _ _ Ef) | reflexivity | reflexivity | | | |].
    + intros x Hne. symmetry. apply exU_other. exact Hne.
    + unfold exp_place. rewrite exU_same. reflexivity.
    + intros v Hv. congruence.
    + cbn. discriminate.
  - destruct ws0 as [|w0 ws']; [discriminate|]. destruct (N.eqb w0 w); [|discriminate]. inversion H1; subst. exact V.
Qed.

(** * [task_reject] *)
Lemma requeue_QI ex s t c1 s' b :
  QI ex [] c1 -> find_task (c_tasks c1) (t_id t) = Some t -> (forall x, x <> t_id t -> ex x = None) ->
  exp_place ex (c_redirects c1) (t_id t) (t_state t) <> Prefill -> find_redirect (c_redirects c1) (t_id t) = None ->
  (do (qs, ret) <- add_ready_task (c_queues c1) (with_state t (Waiting 0));
   do s'' <- process_retracted (st_core s (with_queues (upd_task c1 (with_state t (Waiting 0))) qs)) ret;
   Ok (s'', true)) = Ok (s', b) ->
  QI none [] (core_of s').
Proof.
  intros V Hf Hex Hpl Hnr H. apply bind_ok in H. destruct H as ([qs ret] & Ha & H). apply bind_ok in H. destruct H as (s2 & Hr & H). inversion H; subst; clear H.
  assert (V1 : QI (exL Ready ret none) [] (core_of (st_core s (with_queues (upd_task c1 (with_state t (Waiting 0))) qs)))).
  { qi_simpl. eapply QV_ext.
    - eapply QV_requeue; [exact V | exact Hf | reflexivity | reflexivity | reflexivity | exact Hpl | exact Hnr | reflexivity | cbn; discriminate | exact Ha].
    - intros x t0 _. unfold exL. destruct (tid_mem x ret); [reflexivity|]. unfold exR, none. destruct (tid_eqb x (t_id t)) eqn:E; [reflexivity|].
      apply tid_eqb_neq in E. symmetry. apply Hex. exact E. }
  eapply process_retracted_QI; eassumption.
Qed.

Lemma task_reject_QI s w id rv s' b :
  QI none [] (core_of s) -> task_reject s w id rv = Ok (s', b) -> QI none [] (core_of s').
Proof.
  intros V H. unfold task_reject in H.
  destruct (find_task (c_tasks (core_of s)) id) as [t|] eqn:Ef; [|inversion H; subst; exact V].
  pose proof (find_task_id _ _ _ Ef) as Hid. subst id.
  apply bind_ok in H. destruct H as (wk & _ & H). cbv zeta in H.
  apply bind_ok in H. destruct H as (rq & _ & H). apply bind_ok in H. destruct H as ([c1 cont] & Hr & H).
  set (wk1 := match rv with Some v => if nn_mem (t_rq t, v) (w_blocked wk) then wk else with_blocked wk (nn_insert (t_rq t, v) (w_blocked wk)) | None => wk end) in *.
  destruct (t_state t) as [|w1 rv1|w1|w1| | |] eqn:Est; try discriminate.
  - (* Assigned *)
    assert (Hs : qsame (core_of s) c1).
    { destruct (negb (N.eqb w w1)); [inversion Hr; repeat split|]. destruct rv as [v|]; [|inversion Hr; repeat split].
      destruct (N.eqb v rv1); [inv_binds Hr|]; inversion Hr; repeat split. }
    assert (Hc : cont = true).
    { destruct (negb (N.eqb w w1)); [inversion Hr; reflexivity|]. destruct rv as [v|]; [|inversion Hr; reflexivity].
      destruct (N.eqb v rv1); [inv_binds Hr|]; inversion Hr; reflexivity. }
    subst cont. pose proof (QI_same _ _ _ _ Hs V) as V1. destruct Hs as (T1 & _ & R1 & _).
    eapply (requeue_QI none s t c1); [exact V1 | rewrite T1; exact Ef | reflexivity | | | exact H].
    + rewrite Est. discriminate.
    + rewrite R1. eapply QV_no_redirect; [exact V | exact Ef | intros w0; congruence].
  - (* Prefilled *)
    apply bind_ok in Hr. destruct Hr as (wk' & _ & Hr). apply bind_ok in Hr. destruct Hr as (q & Hq & Hr).
    apply bind_ok in Hr. destruct Hr as (q' & Hq' & Hr). injection Hr as Ec1 Ecn. subst cont.
    assert (Hnr : find_redirect (c_redirects (core_of s)) (t_id t) = None) by (eapply QV_no_redirect; [exact V | exact Ef | intros w0; congruence]).
    cbn [c_queues upd_worker with_workers] in Hq. apply nth_queue_ok in Hq.
    eapply (requeue_QI (exU none (t_id t) Nowhere) s t c1); [| | apply exU_other | | | exact H]; subst c1.
    + unfold QI. cbn [c_tasks c_queues c_redirects c_rqs upd_worker with_workers with_queues].
      eapply QV_q_remove_prefilled; [exact V | exact Ef | exact Hq | exact Hq' | exact Hnr].
    + exact Ef.
    + unfold exp_place. rewrite exU_same. discriminate.
    + exact Hnr.
  - (* Retracting *)
    assert (Hc1 : c1 = upd_worker (core_of s) wk1) by (destruct (negb (N.eqb w w1)); inversion Hr; reflexivity).
    assert (V1 : QI none [] c1) by (subst c1; exact V).
    assert (T1 : c_tasks c1 = c_tasks (core_of s)) by (subst c1; reflexivity).
    assert (R1 : c_redirects c1 = c_redirects (core_of s)) by (subst c1; reflexivity).
    clear Hr. destruct cont.
    + destruct (find_redirect (c_redirects c1) (t_id t)) as [[target rvt]|] eqn:Er.
      * apply bind_ok in H. destruct H as (s1 & Hs1 & H). inversion H; subst s' b; clear H.
        rewrite (send_worker_core _ _ _ _ Hs1). rewrite <- T1 in Ef. clear Hc1. qi_simpl.
        pose proof (find_del_redirect (c_redirects c1) (t_id t)) as Fd.
        eapply QV_task; [exact V1 | exact Ef | reflexivity | reflexivity | reflexivity | apply del_redirect_sorted; exact (qv_rs _ _ _ _ _ _ V1) | | reflexivity | |  |].
        -- intros x Hne. rewrite Fd by exact (qv_rs _ _ _ _ _ _ V1). apply tid_eqb_neq in Hne. rewrite Hne. reflexivity.
        -- unfold exp_place, none. rewrite Est. cbn. rewrite Er. reflexivity.
        -- intros v Hv. rewrite Fd in Hv by exact (qv_rs _ _ _ _ _ _ V1). rewrite (proj2 (tid_eqb_eq _ _) eq_refl) in Hv. discriminate.
        -- cbn. discriminate.
      * eapply (requeue_QI none s t c1); [exact V1 | rewrite T1; exact Ef | reflexivity | | exact Er | exact H].
        unfold exp_place, none. rewrite Est. cbn. rewrite Er. discriminate.
    + inversion H; subst. exact V1.
Qed.

Lemma request_enabled_QI s w rq rv s' : QI none [] (core_of s) -> request_enabled s w rq rv = Ok s' -> QI none [] (core_of s').
Proof. unfold request_enabled. intros V H. inv_binds H. inversion H; subst. exact V. Qed.

(** * [on_retract_response] *)
Lemma retract_response_states_QI ids : forall c w acc c' acc',
  QI none [] c -> retract_response_states c w ids acc = (c', acc') -> QI none [] c'.
Proof.
  induction ids as [|id r IH]; cbn [retract_response_states]; intros c w acc c' acc' V H; [inversion H; subst; exact V|].
  destruct (find_task (c_tasks c) id) as [t|] eqn:Ef; [|eapply IH; eassumption].
  destruct (t_state t) as [| | |w1| | |] eqn:Est; try (eapply IH; eassumption).
  destruct (N.eqb w w1); [|eapply IH; eassumption].
  destruct (find_redirect (c_redirects c) id) as [[target rv]|] eqn:Er.
  - eapply IH; [|exact H]. qi_simpl.
    pose proof (find_del_redirect (c_redirects c) id) as Fd.
    eapply QV_task; [exact V | exact Ef | exact (find_task_id _ _ _ Ef) | reflexivity | reflexivity | apply del_redirect_sorted; exact (qv_rs _ _ _ _ _ _ V) | | reflexivity | | |].
    + intros x Hne. rewrite Fd by exact (qv_rs _ _ _ _ _ _ V). apply tid_eqb_neq in Hne. rewrite Hne. reflexivity.
    + unfold exp_place, none. rewrite Est. cbn. rewrite Er. reflexivity.
    + intros v Hv. rewrite Fd in Hv by exact (qv_rs _ _ _ _ _ _ V). rewrite (proj2 (tid_eqb_eq _ _) eq_refl) in Hv. discriminate.
    + cbn. discriminate.
  - eapply IH; [|exact H]. qi_simpl.
    eapply QV_task0; [exact V | exact Ef | exact (find_task_id _ _ _ Ef) | reflexivity | reflexivity | reflexivity | | |].
    + unfold exp_place, none. rewrite Est. cbn. rewrite Er. reflexivity.
    + intros v Hv. congruence.
    + cbn. discriminate.
Qed.

Lemma on_retract_response_QI s w ids s' : QI none [] (core_of s) -> on_retract_response s w ids = Ok s' -> QI none [] (core_of s').
Proof.
  unfold on_retract_response. intros V H. destruct (retract_response_states _ w ids []) as [c' groups] eqn:E.
  apply bind_ok in H. destruct H as (s2 & H & H2).
  assert (X2 : QI none [] (core_of s2)).
  { rewrite (send_redirected_core _ _ _ H). cbn. eapply retract_response_states_QI; eassumption. }
  destruct (retract_wakes _ _ _ _); inversion H2; subst s'; clear H2; [|exact X2].
  exact X2.
Qed.
