(** C03 across a restart, part 1: vocabulary.

    The journal is the stream of events the server emits.  A restart from a PREFIX of the journal
    must never find a task whose dependency is dead (failed / cancelled / aborted) while the task
    itself has no terminal record - it would re-run a task that must never run.  So the ORDER of
    the terminal events matters: when the event that kills [t] is written, every dependent of [t]
    must already have its own terminal record (in an earlier event, or in the same event).

    [jc Dep T outs] is that statement for one stretch [outs] of the output stream, a dependency
    relation [Dep x t] ("x depends on t") and the set [T] of tasks that have a terminal record
    before the stretch starts.  It is compositional ([jc_app]); [jc_decomp] is the
    decomposition form.  The second half of the file describes the events the job-layer
    primitives append ([blk]). *)
From HQ Require Import Base.Prelude Cluster.Types Cluster.Core Cluster.Reactor Cluster.Worker Cluster.Server Cluster.Sys Cluster.Monitors Cluster.ProofsJob Cluster.ProofsMore Cluster.ProofsTerminal Cluster.ProofsStep Cluster.ProofsFinal Cluster.BijBase Cluster.BijCore Cluster.BijHq Cluster.ProofsOnce Cluster.StartFinBase Cluster.InvDBase Cluster.InvDSpec Cluster.InvDRem.
From Coq Require Import ZArith Lia.
Local Open Scope N_scope.

Arguments N.add : simpl never.
Arguments N.sub : simpl never.

(** Tasks an output kills (failed / cancelled / aborted). *)
Definition kill_ids (o : out) : list tid :=
  match o with
  | OEv (EvFailed t _) => [t]
  | OEv (EvCanceled ts) => ts
  | OEv (EvAborted ts) => ts
  | _ => []
  end.

Lemma kill_ids_sub o t : In t (kill_ids o) -> In t (tids_of o).
Proof. destruct o as [e| | | | | |]; try (intros []). destruct e; cbn; auto. Qed.

Definition deprel := tid -> tid -> Prop.

Fixpoint jc (Dep : deprel) (T : tid -> Prop) (outs : list out) : Prop :=
  match outs with
  | [] => True
  | o :: r => (forall t x, In t (kill_ids o) -> Dep x t -> In x (tids_of o) \/ T x)
              /\ jc Dep (fun x => In x (tids_of o) \/ T x) r
  end.

(** Weakening: a smaller relation (up to already recorded tasks), a larger set. *)
Lemma jc_weaken (Dep Dep' : deprel) outs : forall (T T' : tid -> Prop),
  (forall x t, Dep' x t -> Dep x t \/ T' x) -> (forall x, T x -> T' x) ->
  jc Dep T outs -> jc Dep' T' outs.
Proof.
  induction outs as [|o r IH]; cbn [jc]; intros T T' HD HT H; [exact I|].
  destruct H as [H1 H2]. split.
  - intros t x Ht Hx. destruct (HD _ _ Hx) as [Hd|Hd]; [|right; exact Hd].
    destruct (H1 _ _ Ht Hd) as [A|A]; [left; exact A | right; apply HT; exact A].
  - eapply IH; [| |exact H2].
    + intros x t Hx. destruct (HD _ _ Hx) as [Hd|Hd]; [left; exact Hd | right; right; exact Hd].
    + intros x [A|A]; [left; exact A | right; apply HT; exact A].
Qed.

Lemma jc_ext Dep outs (T T' : tid -> Prop) : (forall x, T x -> T' x) -> jc Dep T outs -> jc Dep T' outs.
Proof. intros HT. apply jc_weaken; [intros x t Hd; left; exact Hd | exact HT]. Qed.

Lemma jc_app Dep a : forall T b,
  jc Dep T (a ++ b) <-> jc Dep T a /\ jc Dep (fun x => In x (terminal_ids a) \/ T x) b.
Proof.
  induction a as [|o r IH]; intros T b.
  - cbn [app jc]. split.
    + intros H. split; [exact I|]. eapply jc_ext; [|exact H]. intros x Hx; right; exact Hx.
    + intros [_ H]. eapply jc_ext; [|exact H]. intros x [[]|Hx]; exact Hx.
  - cbn [app jc]. rewrite IH. rewrite tids_cons. split.
    + intros [H1 [H2 H3]]. split; [split; assumption|]. eapply jc_ext; [|exact H3].
      intros x [A|[A|A]]; [left; apply in_app_iff; right; exact A | left; apply in_app_iff; left; exact A | right; exact A].
    + intros [[H1 H2] H3]. split; [exact H1|]. split; [exact H2|]. eapply jc_ext; [|exact H3].
      intros x [A|A]; [apply in_app_iff in A; destruct A as [A|A]; [right; left; exact A | left; exact A] | right; right; exact A].
Qed.

(** A stretch without terminal events. *)
Lemma terminal_ids_nil_cons o r : terminal_ids (o :: r) = [] -> tids_of o = [] /\ terminal_ids r = [].
Proof. rewrite tids_cons. intros H. apply app_eq_nil in H. exact H. Qed.

Lemma jc_quiet Dep outs : forall T, terminal_ids outs = [] -> jc Dep T outs.
Proof.
  induction outs as [|o r IH]; intros T H; [exact I|].
  destruct (terminal_ids_nil_cons _ _ H) as [H1 H2]. cbn [jc]. split; [|apply IH; exact H2].
  intros t x Ht. apply kill_ids_sub in Ht. rewrite H1 in Ht. destruct Ht.
Qed.

(** The decomposition form. *)
Lemma jc_decomp Dep outs : forall T,
  jc Dep T outs <->
  (forall pre o post t x, outs = pre ++ o :: post -> In t (kill_ids o) -> Dep x t ->
     In x (terminal_ids (pre ++ [o])) \/ T x).
Proof.
  induction outs as [|o r IH]; intros T.
  - cbn [jc]. split; [|intros _; exact I]. intros _ pre o post t x E. destruct pre; discriminate.
  - cbn [jc]. rewrite IH. split.
    + intros [H1 H2] pre o' post t x E Ht Hx. destruct pre as [|p pre].
      * cbn [app] in E. inversion E; subst o' post. cbn [app]. rewrite tids_cons. unfold terminal_ids at 1. cbn [flat_map].
        rewrite app_nil_r. exact (H1 _ _ Ht Hx).
      * cbn [app] in E. inversion E; subst p r. cbn [app]. rewrite tids_cons.
        destruct (H2 pre o' post t x eq_refl Ht Hx) as [A|[A|A]].
        -- left. apply in_app_iff. right; exact A.
        -- left. apply in_app_iff. left; exact A.
        -- right; exact A.
    + intros H. split.
      * intros t x Ht Hx. destruct (H [] o r t x eq_refl Ht Hx) as [A|A]; [|right; exact A].
        left. cbn [app] in A. rewrite tids_cons in A. unfold terminal_ids in A. cbn [flat_map] in A. rewrite app_nil_r in A. exact A.
      * intros pre o' post t x E Ht Hx. subst r.
        destruct (H (o :: pre) o' post t x eq_refl Ht Hx) as [A|A]; [|right; right; exact A].
        cbn [app] in A. rewrite tids_cons in A. apply in_app_iff in A. destruct A as [A|A]; [right; left; exact A | left; exact A].
Qed.

(** * Blocks: what a job-layer primitive appends.
    [blk kills terms ext]: [ext] names exactly [terms] in terminal events, kills at most [kills],
    and whenever it kills, everything in [terms] is recorded at once. *)
Definition blk (kills terms : list tid) (ext : list out) : Prop :=
  terminal_ids ext = terms /\
  forall (Dep : deprel) (T : tid -> Prop), (forall t x, In t kills -> Dep x t -> In x terms \/ T x) -> jc Dep T ext.

Lemma blk_quiet ext : terminal_ids ext = [] -> blk [] [] ext.
Proof. intros H. split; [exact H|]. intros Dep T _. apply jc_quiet. exact H. Qed.

Lemma blk_nil : blk [] [] [].
Proof. apply blk_quiet. reflexivity. Qed.

Lemma blk_one o q : terminal_ids q = [] -> blk (kill_ids o) (tids_of o) (o :: q).
Proof.
  intros Hq. split; [rewrite tids_cons, Hq, app_nil_r; reflexivity|].
  intros Dep T H. cbn [jc]. split; [exact H | apply jc_quiet; exact Hq].
Qed.

Lemma blk_pre_quiet p kills terms ext : terminal_ids p = [] -> blk kills terms ext -> blk kills terms (p ++ ext).
Proof.
  intros Hp [E H]. split; [rewrite terminal_ids_app, Hp; exact E|].
  intros Dep T HD. apply jc_app. split; [apply jc_quiet; exact Hp|].
  eapply jc_ext; [|apply (H Dep T HD)]. intros x Hx; right; exact Hx.
Qed.

Lemma blk_weaken_kills kills kills' terms ext : incl kills' kills -> blk kills' terms ext -> blk kills terms ext.
Proof. intros Hi [E H]. split; [exact E|]. intros Dep T HD. apply H. intros t x Ht. apply HD. apply Hi. exact Ht. Qed.

(** Sequencing two blocks. *)
Lemma jc_blk2 (Dep : deprel) T k1 t1 e1 k2 t2 e2 :
  blk k1 t1 e1 -> blk k2 t2 e2 ->
  (forall t x, In t k1 -> Dep x t -> In x t1 \/ T x) ->
  (forall t x, In t k2 -> Dep x t -> In x t2 \/ In x t1 \/ T x) ->
  jc Dep T (e1 ++ e2).
Proof.
  intros [E1 B1] [E2 B2] H1 H2. apply jc_app. split; [apply B1; exact H1|].
  apply B2. rewrite E1. exact H2.
Qed.

(** * The dependency relation of a core: the edges it keeps. *)
Definition cdep (c : core) : deprel :=
  fun x t => exists tx, find_task (c_tasks c) x = Some tx /\ In t (t_deps tx).

(** * Transitive consumers are tasks of the map. *)
Lemma collect_dom fuel : forall ts frontier acc r,
  WFc ts -> (forall x, In x acc -> find_task ts x <> None) ->
  collect_consumers fuel ts frontier acc = Ok r -> forall x, In x r -> find_task ts x <> None.
Proof.
  induction fuel as [|k IH]; intros ts frontier acc r W Hdom H.
  - destruct frontier; cbn [collect_consumers] in H; inversion H; subst; exact Hdom.
  - destruct frontier as [|id rest]; cbn [collect_consumers] in H; [inversion H; subst; exact Hdom|].
    apply bind_ok in H. destruct H as (t & Ht & H). apply get_task_find in Ht.
    destruct (W _ _ Ht) as [_ Hcd].
    eapply IH; [exact W | | exact H].
    intros x Hx. apply tia_in in Hx. destruct Hx as [Hx|Hx]; [|apply Hdom; exact Hx].
    apply filter_In in Hx. apply Hcd. apply Hx.
Qed.

Lemma recursive_consumers_dom ts t csm :
  WFc ts -> (forall y, In y (t_consumers t) -> find_task ts y <> None) ->
  recursive_consumers ts t = Ok csm -> forall x, In x csm -> find_task ts x <> None.
Proof.
  intros W Hcd H. unfold recursive_consumers in H. eapply collect_dom; [exact W | | exact H].
  intros x Hx. apply tia_in in Hx. destruct Hx as [Hx|[]]. apply Hcd. exact Hx.
Qed.

(** * Shapes of the job-layer primitives *)
Lemma snd_emit s o : snd (emit s o) = snd s ++ [o].
Proof. reflexivity. Qed.

Lemma check_termination_ext s jid s' :
  check_termination s jid = Ok s' -> exists q, snd s' = snd s ++ q /\ terminal_ids q = [].
Proof.
  unfold check_termination. intros H. apply bind_ok in H. destruct H as (j & _ & H). apply bind_ok in H. destruct H as (na & _ & H).
  destruct na; [|inversion H; subst; exists []; rewrite app_nil_r; split; reflexivity].
  destruct (j_open j); inversion H; subst; [exists []; rewrite app_nil_r; split; reflexivity|].
  exists [OEv (EvCompleted jid)]. split; reflexivity.
Qed.

Lemma abort_tasks_ext s jid ids s' :
  abort_tasks s jid ids = Ok s' -> exists ext, snd s' = snd s ++ ext /\ blk ids ids ext.
Proof.
  unfold abort_tasks. destruct ids as [|i0 ir] eqn:Eids.
  - intros H. inversion H; subst. exists []. rewrite app_nil_r. split; [reflexivity | exact blk_nil].
  - rewrite <- Eids. intros H. apply bind_ok in H. destruct H as (j & _ & H). apply bind_ok in H. destruct H as (j1 & _ & H).
    destruct (check_termination_ext _ _ _ H) as (q & Eq & Hq). cbn [snd emit hq_set_job] in Eq.
    exists (OEv (EvAborted ids) :: q). split; [rewrite Eq, <- app_assoc; reflexivity|].
    exact (blk_one (OEv (EvAborted ids)) q Hq).
Qed.

Lemma set_cancel_state_ext s jid ids s' :
  set_cancel_state s jid ids = Ok s' -> exists ext, snd s' = snd s ++ ext /\ blk ids ids ext.
Proof.
  unfold set_cancel_state. destruct ids as [|i0 ir] eqn:Eids.
  - intros H. inversion H; subst. exists []. rewrite app_nil_r. split; [reflexivity | exact blk_nil].
  - rewrite <- Eids. intros H. apply bind_ok in H. destruct H as (j & _ & H). apply bind_ok in H. destruct H as (j1 & _ & H).
    destruct (check_termination_ext _ _ _ H) as (q & Eq & Hq). cbn [snd emit hq_set_job] in Eq.
    exists ([OEv (EvJobCancel jid)] ++ OEv (EvCanceled ids) :: q). split; [rewrite Eq, <- !app_assoc; reflexivity|].
    apply blk_pre_quiet; [reflexivity|]. exact (blk_one (OEv (EvCanceled ids)) q Hq).
Qed.

Lemma process_task_finished_ext s t s' :
  process_task_finished s t = Ok s' -> exists ext, snd s' = snd s ++ ext /\ blk [] [t] ext.
Proof.
  unfold process_task_finished. intros H. apply bind_ok in H. destruct H as (j & _ & H).
  destruct (jt_find (j_tasks j) (snd t)) as [v|]; [|discriminate]. destruct v; try discriminate.
  apply bind_ok in H. destruct H as (nr & _ & H).
  destruct (check_termination_ext _ _ _ H) as (q & Eq & Hq). cbn [snd emit hq_set_job] in Eq.
  exists (OEv (EvFinished t) :: q). split; [rewrite Eq, <- app_assoc; reflexivity|].
  exact (blk_one (OEv (EvFinished t)) q Hq).
Qed.

Lemma process_task_started_ext s t i ws rv s' :
  process_task_started s t i ws rv = Ok s' -> exists q, snd s' = snd s ++ q /\ terminal_ids q = [].
Proof.
  unfold process_task_started. intros H. apply bind_ok in H. destruct H as (j & _ & H).
  destruct (jt_find _ _); [|discriminate]. inversion H; subst. exists [OEv (EvStarted t i ws rv)]. split; reflexivity.
Qed.

Lemma set_waiting_state_snd s t s' : set_waiting_state s t = Ok s' -> snd s' = snd s.
Proof.
  unfold set_waiting_state. intros H. apply bind_ok in H. destruct H as (j & _ & H).
  destruct (jt_find _ _) as [v|]; [|discriminate]. destruct v; try (inversion H; subst; reflexivity).
  apply bind_ok in H. destruct H as (nr & _ & H). inversion H; subst. reflexivity.
Qed.

Lemma set_waiting_all_snd ts : forall s s', set_waiting_all s ts = Ok s' -> snd s' = snd s.
Proof.
  induction ts as [|t r IH]; cbn [set_waiting_all]; intros s s' H; [inversion H; reflexivity|].
  apply bind_ok in H. destruct H as (s1 & H1 & H). rewrite (IH _ _ H). eapply set_waiting_state_snd; exact H1.
Qed.

Lemma process_worker_lost_ext s w running reason s' :
  process_worker_lost s w running reason = Ok s' -> exists q, snd s' = snd s ++ q /\ terminal_ids q = [].
Proof.
  unfold process_worker_lost. intros H. apply bind_ok in H. destruct H as (s1 & H1 & H). inversion H; subst.
  exists [OEv (EvWLost w reason)]. cbn [snd emit]. rewrite (set_waiting_all_snd _ _ _ H1). split; reflexivity.
Qed.

(** [process_task_failed]: the dependents' abort, THEN the failure, then the rest of the job when
    the failure limit is exceeded. *)
Lemma process_task_failed_ext s t aborted k s' ids :
  process_task_failed s t aborted k = Ok (s', ids) ->
  exists e1 e2 e3, snd s' = snd s ++ e1 ++ e2 ++ e3 /\ blk aborted aborted e1 /\ blk [t] [t] e2 /\ blk ids ids e3.
Proof.
  unfold process_task_failed. intros H.
  apply bind_ok in H. destruct H as (s1 & H1 & H).
  destruct (abort_tasks_ext _ _ _ _ H1) as (e1 & E1 & B1).
  apply bind_ok in H. destruct H as (j & _ & H). apply bind_ok in H. destruct H as (j1 & _ & H).
  apply bind_ok in H. destruct H as (s2 & H2 & H).
  destruct (check_termination_ext _ _ _ H2) as (q & Eq & Hq). cbn [snd emit hq_set_job] in Eq.
  pose proof (blk_one (OEv (EvFailed t k)) q Hq) as B2. cbn [kill_ids tids_of] in B2.
  apply bind_ok in H. destruct H as (j2 & _ & H).
  assert (Hnone : s' = s2 -> ids = [] ->
    exists e1 e2 e3, snd s' = snd s ++ e1 ++ e2 ++ e3 /\ blk aborted aborted e1 /\ blk [t] [t] e2 /\ blk ids ids e3).
  { intros -> ->. exists e1, (OEv (EvFailed t k) :: q), []. split; [|split; [exact B1 | split; [exact B2 | exact blk_nil]]].
    rewrite Eq, E1, app_nil_r, <- !app_assoc. reflexivity. }
  destruct (j_maxfails j2) as [mf|]; [|inversion H; subst; apply Hnone; reflexivity].
  destruct (N.ltb mf (j_nfail j2)); [|inversion H; subst; apply Hnone; reflexivity].
  apply bind_ok in H. destruct H as (s3 & H3 & H). inversion H; subst. clear Hnone.
  destruct (abort_tasks_ext _ _ _ _ H3) as (e3 & E3 & B3).
  exists e1, (OEv (EvFailed t k) :: q), e3. split; [|split; [exact B1 | split; [exact B2 | exact B3]]].
  rewrite E3, Eq, E1, <- !app_assoc. reflexivity.
Qed.
