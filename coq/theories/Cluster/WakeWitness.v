(** C02 wake-up discipline: TWO LOST WAKE-UPS, as histories of the system model BEFORE their repair
    (findings F30 / F31; both replayed on the real server with the cluster harness:
    corpus/cluster/fixed_F30_wake_prefill_pair_cancel.trace, fixed_F31_wake_retract_response.trace).
    The repairs: the "prefill update" exemption applies only if the prefilled task is still known;
    [on_retract_response] ends with [ask_for_scheduling].

    Each history satisfies every hypothesis of the development - [op_wf], [run_hyp] (= [ops_ok] +
    the solver contracts [sol_ok], [sched_retract_ok] + distinct ids) - and every scheduling answer
    in it satisfies the completeness contract [sched_complete]; it ends AT REST (flag off, empty
    channels, nothing running: [at_restb]) with NOTHING in flight ([busy] = false) - and yet a
    ready task of the top ready priority fits the idle worker: [placeable] = true.  Nothing will
    ever set the flag again unless an unrelated event (new submit, new worker, ...) occurs.

    W1  [prefill pair meets a cancel]  The worker ends task 1.0 and starts the prefilled task 2.0:
        one message [Finished 1.0; RunningPrefilled 2.0].  Before it is delivered the client
        cancels job 2: [on_cancel_tasks] for a Prefilled task sets no flag.  [on_task_update] then
        sees the two-element "prefill update", for which it deliberately does not ask for
        scheduling (the prefilled task takes over the finished task's resources) - but 2.0 is
        unknown by now and ignored.  Worker 1 has all its resources free, task 3.0 waits.
    W2  [retract response]  [on_retract_response] never asks for scheduling.  Since the repair of
        F28 a worker with an unresolved retraction is not free for a multi-node task; the response
        makes it free again ([retracting_from] becomes false) - silently.  The multi-node task 3.0
        (priority 5) and, behind it, the single-node task 2.0 wait for the idle worker 1. *)
From HQ Require Import Base.Prelude Cluster.Types Cluster.Core Cluster.Reactor Cluster.Worker Cluster.Server Cluster.Sys Cluster.BijFinal Cluster.RetractFree Cluster.NoPanicU0 Cluster.NoPanicFull Cluster.NoWf Cluster.RestU1.
From HQ Require Import Cluster.Wake.
From Coq Require Import ZArith.
Local Open Scope N_scope.

(** * The functions as they were BEFORE the repairs (reactor.rs at commit 1aeda33) and the
    transition system [step_pre] built on them.  Everything else is [Sys.step]. *)
Definition on_task_update_prefix (s : st) (w : wid) (us : list wupdate) : res st :=
  let is_prefill_update :=
      match us with
      | [UFinished _; URunningPrefilled _ _] => true
      | _ => false
      end in
  do (s', need) <- apply_updates s w us false;
  if need && negb is_prefill_update then Ok (ask_scheduling s') else Ok s'.

Definition on_retract_response_prefix (s : st) (w : wid) (ids : list tid) : res st :=
  let '(c', groups) := retract_response_states (core_of s) w ids [] in
  send_redirected (st_core s c') groups.

(** [on_cancel_tasks] with its Prefilled arm as it is at the time of writing (no request for
    scheduling), so that witness W3 survives a repair of that arm too. *)
Fixpoint cancel_release_pre (s : st) (ids : list tid) (to_unreg : list tid) (running : list (wid * list tid))
  : res (st * list tid * list (wid * list tid)) :=
  match ids with
  | [] => Ok (s, to_unreg, running)
  | id :: r =>
      let c := core_of s in
      match find_task (c_tasks c) id with
      | None => cancel_release_pre s r to_unreg running
      | Some t =>
          do csm <- recursive_consumers (c_tasks c) t;
          let to_unreg' := tid_insert_all csm (tid_insert id to_unreg) in
          let add w (l : list (wid * list tid)) := group_add w id l in
          do rq <- get_rq (c_rqs c) (t_rq t);
          match t_state t with
          | Waiting _ => cancel_release_pre (ask_scheduling s) r to_unreg' running
          | Assigned w _ | Running w _ =>
              do wk <- get_worker (c_workers c) w;
              do wk' <- remove_sn_task wk id (rq_res rq);
              cancel_release_pre (ask_scheduling (st_core s (upd_worker c wk'))) r to_unreg' (add w running)
          | RunningMN ws =>
              do c' <- reset_mn_all c ws;
              match ws with
              | [] => Panic 163
              | w0 :: _ => cancel_release_pre (ask_scheduling (st_core s c')) r to_unreg' (add w0 running)
              end
          | Retracting w =>
              do c' <- try_remove_redirection c t;
              cancel_release_pre (ask_scheduling (st_core s c')) r to_unreg' (add w running)
          | Prefilled w =>
              do q <- nth_queue (c_queues c) (N.to_nat (t_rq t));
              do q' <- q_remove_prefilled q id;
              do wk <- get_worker (c_workers c) w;
              do wk' <- remove_prefill_task wk id;
              let c' := upd_worker (with_queues c (set_queue (c_queues c) (N.to_nat (t_rq t)) q')) wk' in
              cancel_release_pre (st_core s c') r to_unreg' (add w running)
          | Finished => Panic 164
          end
      end
  end.
Definition on_cancel_tasks_pre (s : st) (ids : list tid) : res st :=
  do (s1, to_unreg, running) <- cancel_release_pre s ids [] [];
  do c' <- remove_tasks_batched (core_of s1) to_unreg;
  send_all (st_core s1 c') (map (fun g => (fst g, DCancel (snd g))) running).
Definition handle_cancel_pre (s : st) (jid : N) : res st :=
  match find_job (hq_jobs s) jid with
  | None => Ok (emit s (OResp RCancelInvalid))
  | Some j =>
      let ids := non_finished_task_ids j in
      match ids with
      | [] => Ok (emit s (OResp (RCancelOk [] (job_n_tasks j))))
      | _ =>
          do s1 <- on_cancel_tasks_pre s ids;
          do already <- csub (job_n_tasks j) (N.of_nat (length ids)) 225;
          do s2 <- set_cancel_state s1 jid ids;
          Ok (emit s2 (OResp (RCancelOk (map snd ids) already)))
      end
  end.

Definition step_pre (s : sys) (o : op) : res (sys * list out) :=
  match o with
  | OpCancel j => handle_cancel_pre (s, []) j
  | OpDUp w =>
      match find_proc (s_procs s) w with
      | None => Disabled
      | Some p =>
          match p_up p with
          | [] => Disabled
          | m :: rest =>
              let s1 : st := (with_procs s (set_proc (s_procs s) (wp_up p rest)), [OUp w m]) in
              match m with
              | UUpdates us => on_task_update_prefix s1 w us
              | URetractResponse ids => on_retract_response_prefix s1 w ids
              end
          end
      end
  | _ => step s o
  end.

Fixpoint run_pre (s : sys) (ops : list op) : res (sys * list out) :=
  match ops with
  | [] => Ok (s, [])
  | o :: r =>
      do (s1, o1) <- step_pre s o;
      do (s2, o2) <- run_pre s1 r;
      Ok (s2, o1 ++ o2)
  end.

(** A per-step executable hypothesis evaluated along a pre-fix run ([hyp] of NoPanicFull.v is
    [op_ok] + [sol_ok] + [sched_retract_ok] + distinct ids; [op_complete] is the solver's
    completeness contract). *)
Fixpoint along_pre (h : sys -> op -> bool) (s : sys) (ops : list op) : bool :=
  match ops with
  | [] => true
  | o :: r => h s o && match step_pre s o with Ok (s1, _) => along_pre h s1 r | _ => true end
  end.

Definition rq4 : rqdef := mkRq 0 [4; 0; 0].
Definition sub4 : op := OpSubmit None [] None rq4 0%Z CUnl false None.
Definition sol1 : solution := mkSol [(0, 0, [(1, 1)])] [] [1] [].
(** reserve 0, max prefill 1: the round places 1.0 on worker 1 and prefills 2.0 behind it; 3.0 stays ready *)
Definition w1_ops : list op :=
  [OpConnect [4; 0; 0] 0; sub4; sub4; sub4; OpSched sol1; OpDDown 1 []; OpDDown 1 []; OpDUp 1;
   OpEnd 1 (1, 0) EndOk; OpCancel 2; OpDUp 1; OpDDown 1 [0]; OpEnd 1 (2, 0) EndFollowStop].

Definition rq1c : rqdef := mkRq 0 [1; 0; 0].
Definition rqn1 : rqdef := mkRq 1 [0; 0; 0].
Definition sub1 : op := OpSubmit None [] None rq1c 0%Z CUnl false None.
Definition sol0 : solution := mkSol [] [] [1] [].
Definition w2_ops : list op :=
  [OpConnect [1; 0; 0] 0; sub1; sub1; OpSched sol1; OpDDown 1 []; OpDDown 1 []; OpDUp 1;
   OpCancel 1; OpSubmit None [] None rqn1 5%Z CUnl false None; OpSched sol0;
   OpDDown 1 [0]; OpDDown 1 [0]; OpDDown 1 [0]; OpEnd 1 (1, 0) EndFollowStop; OpDUp 1].

(** What "a lost wake-up" is: a history meeting all hypotheses that ends at rest, nothing in
    flight, flag off, with placeable work. *)
Definition lost_wakeup (r m : N) (ops : list op) : Prop :=
  Forall op_wf ops /\ along_pre hyp (init_sys r m) ops = true /\ along_pre op_ok (init_sys r m) ops = true /\ along_pre op_complete (init_sys r m) ops = true /\
  exists s outs, run_pre (init_sys r m) ops = Ok (s, outs) /\ at_rest s /\ busy (s_core s) = false /\
                 placeable (s_core s) = true /\ wake_inv s = false.

Lemma lost_wakeup_by_computation r m ops :
  forallb op_wfb ops = true -> along_pre hyp (init_sys r m) ops = true -> along_pre op_ok (init_sys r m) ops = true -> along_pre op_complete (init_sys r m) ops = true ->
  match run_pre (init_sys r m) ops with
  | Ok (s, _) => at_restb s && negb (busy (s_core s)) && placeable (s_core s) && negb (wake_inv s)
  | _ => false
  end = true ->
  lost_wakeup r m ops.
Proof.
  intros Hwf Hh Hok Hc Hr. split; [|split; [exact Hh | split; [exact Hok | split; [exact Hc|]]]].
  - apply Forall_forall. intros o Ho. apply op_wfb_ok. rewrite forallb_forall in Hwf. exact (Hwf o Ho).
  - destruct (run_pre (init_sys r m) ops) as [[s outs]| |]; [|discriminate | discriminate].
    exists s, outs. split; [reflexivity|].
    apply andb_true_iff in Hr. destruct Hr as [Hr H4]. apply andb_true_iff in Hr. destruct Hr as [Hr H3].
    apply andb_true_iff in Hr. destruct Hr as [H1 H2].
    split; [apply at_restb_ok; exact H1|]. split; [apply negb_true_iff; exact H2|]. split; [exact H3 | apply negb_true_iff; exact H4].
Qed.

Theorem wakeup_prefill_pair_cancel_refuted : lost_wakeup 0 1 w1_ops.
Proof. apply lost_wakeup_by_computation; vm_compute; reflexivity. Qed.

Theorem wakeup_retract_response_refuted : lost_wakeup 0 2 w2_ops.
Proof. apply lost_wakeup_by_computation; vm_compute; reflexivity. Qed.

(** The final states, spelled out. W1: task 3.0 (4 cpus) ready, worker 1 has 4 cpus free. *)
Theorem wakeup_prefill_pair_cancel_state : exists s outs, run_pre (init_sys 0 1) w1_ops = Ok (s, outs) /\
  c_flag (s_core s) = false /\ map (fun t => (t_id t, t_state t)) (c_tasks (s_core s)) = [((3, 0), Waiting 0)] /\
  map (fun w => (w_id w, w_assign w, w_blocked w)) (c_workers (s_core s)) = [(1, Sn [] [] [4; 0; 0], [])] /\
  map (fun p => (p_down p, p_up p, p_running p, p_futures p, p_backlog p)) (s_procs s) = [([], [], [], [], [(0, [])])].
Proof.
  destruct (run_pre (init_sys 0 1) w1_ops) as [[s outs]| |] eqn:E; [|vm_compute in E; discriminate | vm_compute in E; discriminate].
  exists s, outs. split; [reflexivity|]. vm_compute in E. injection E as <- _. vm_compute. repeat split.
Qed.

(** W2: tasks 2.0 (1 cpu, priority 0) and 3.0 (1 node, priority 5) ready, worker 1 free. *)
Theorem wakeup_retract_response_state : exists s outs, run_pre (init_sys 0 2) w2_ops = Ok (s, outs) /\
  c_flag (s_core s) = false /\ map (fun t => (t_id t, t_state t)) (c_tasks (s_core s)) = [((2, 0), Waiting 0); ((3, 0), Waiting 0)] /\
  map (fun w => (w_id w, w_assign w, w_blocked w, mn_free (s_core s) w)) (c_workers (s_core s)) = [(1, Sn [] [] [1; 0; 0], [], true)] /\
  class_fits (s_core s) 0 = true /\ class_fits (s_core s) 1 = true.
Proof.
  destruct (run_pre (init_sys 0 2) w2_ops) as [[s outs]| |] eqn:E; [|vm_compute in E; discriminate | vm_compute in E; discriminate].
  exists s, outs. split; [reflexivity|]. vm_compute in E. injection E as <- _. vm_compute. repeat split.
Qed.

(** ... and one step earlier in W2 the invariant still held only because the worker was not free:
    the response [OpDUp 1] is the step that loses the wake-up. *)
Theorem wakeup_retract_response_step :
  match run_pre (init_sys 0 2) (removelast w2_ops) with
  | Ok (s, _) => wake_inv s && negb (c_flag (s_core s)) && negb (placeable (s_core s)) &&
                 match step_pre s (OpDUp 1) with Ok (s', _) => negb (wake_inv s') && placeable (s_core s') | _ => false end
  | _ => false
  end = true.
Proof. vm_compute. reflexivity. Qed.

(** W3  [cancel of a prefilled task] - a witness OF THE MODEL, not reached on the real server: the
    Prefilled arm of [on_cancel_tasks] is the only arm that does not ask for scheduling, although
    dropping the worker's last prefilled task makes the worker free for a multi-node task.
    History: 1.0 runs on worker 1, 2.0 is prefilled behind it; a one-node multi-node task 3.0 of
    the same priority arrives; job 1 is cancelled; the round answers "nothing" - which meets
    [sol_ok] and [sched_complete], the worker still holds the prefilled 2.0 and is not free -; then
    job 2 is cancelled: worker 1 is free, 3.0 fits, flag off, nothing in flight.
    On the real server (build/wip-progress/wake3.trace) HiGHS answers that round by re-placing
    the prefilled task 2.0 on worker 1 (resources are free), which turns 2.0 into a retraction
    with redirect; its cancellation then takes the Retracting arm, which does ask.  The only
    obstacle is the solver's choice; both answers are optimal for the contract. *)
Definition subn1 : op := OpSubmit None [] None rqn1 0%Z CUnl false None.
Definition w3_ops : list op :=
  [OpConnect [1; 0; 0] 0; sub1; sub1; OpSched sol1; OpDDown 1 []; OpDDown 1 []; OpDUp 1;
   subn1; OpCancel 1; OpSched sol0; OpCancel 2;
   OpDDown 1 [0]; OpDDown 1 [0]; OpDDown 1 [0]; OpEnd 1 (1, 0) EndFollowStop].

Theorem wakeup_cancel_prefilled_refuted : lost_wakeup 0 2 w3_ops.
Proof. apply lost_wakeup_by_computation; vm_compute; reflexivity. Qed.

(** the cancel is the step that loses it; the round before it was complete *)
Theorem wakeup_cancel_prefilled_step :
  match run_pre (init_sys 0 2) (firstn 10 w3_ops) with
  | Ok (s, _) => wake_inv s && negb (c_flag (s_core s)) && negb (placeable (s_core s)) && negb (busy (s_core s)) &&
                 match step_pre s (OpCancel 2) with Ok (s', _) => negb (wake_inv s') && placeable (s_core s') && negb (c_flag (s_core s')) | _ => false end
  | _ => false
  end = true.
Proof. vm_compute. reflexivity. Qed.

Print Assumptions wakeup_prefill_pair_cancel_refuted.
Print Assumptions wakeup_retract_response_refuted.
Print Assumptions wakeup_cancel_prefilled_refuted.
