(** The queue invariant, part 11: the ids taken from a queue by [take_tasks] are pairwise distinct
    (needed by the round-robin assignment, which handles every taken task exactly once). *)
From HQ Require Import Base.Prelude Cluster.Types Cluster.Core Cluster.Reactor Cluster.Worker Cluster.Server Cluster.Sys Cluster.Monitors Cluster.ProofsJob Cluster.ProofsMore Cluster.ProofsStep Cluster.BijBase Cluster.BijCore Cluster.BijHq Cluster.BijSt Cluster.InvQBase Cluster.InvQTake Cluster.InvQInv.
From Coq Require Import ZArith Lia Sorting.Sorted.
Local Open Scope N_scope.

Arguments N.add : simpl never.
Arguments N.sub : simpl never.

(** Every id sits at one place of the queue at most. *)
Definition uniq (q : queue) : Prop :=
  forall x, (forall p p', RdyAt q p x -> RdyAt q p' x -> p = p') /\ (forall p p', RdyAt q p x -> PfAt q p' x -> False).

Lemma SL_NoDup l : SL l -> NoDup l.
Proof.
  induction l as [|h t IH]; intros Hs; [constructor|]. constructor; [apply SL_notin; exact Hs | apply IH; apply (SL_inv _ _ Hs)].
Qed.

Lemma uniq_sub q q' a : TakeQ q q' a -> uniq q -> uniq q'.
Proof.
  intros T U x. destruct (U x) as [U1 U2]. split.
  - intros p p' A B. apply U1; apply (tk_r_sub _ _ _ T); assumption.
  - intros p p' A B. eapply U2; [apply (tk_r_sub _ _ _ T); exact A | apply (tk_p_sub _ _ _ T); exact B].
Qed.

Definition TakeD (q q' : queue) (a : list tid) : Prop := TakeQ q q' a /\ (uniq q -> NoDup a).

Lemma TakeD_refl q : WFQ q -> TakeD q q [].
Proof. intros W. split; [apply TakeQ_refl; exact W | intros _; constructor]. Qed.

Lemma PfAt_fun q p p' x : PfAt q p x -> PfAt q p' x -> p = p'.
Proof. unfold PfAt. intros (ts & E & _) (ts' & E' & _). congruence. Qed.

Lemma TakeD_trans q q1 q2 a b : TakeD q q1 a -> TakeD q1 q2 b -> TakeD q q2 (a ++ b).
Proof.
  intros [T1 N1] [T2 N2]. split; [eapply TakeQ_trans; eassumption|].
  intros U. pose proof (uniq_sub _ _ _ T1 U) as U1.
  assert (Hd : forall x, In x a -> In x b -> False).
  { intros x Ha Hb. destruct (U x) as [Ux1 Ux2].
    destruct (tk_gone _ _ _ T1 _ Ha) as (p0 & G1). destruct (tk_gone _ _ _ T2 _ Hb) as (p1 & G2).
    destruct G1 as [[A1 B1]|[A1 B1]], G2 as [[A2 _]|[A2 _]].
    - pose proof (tk_r_sub _ _ _ T1 _ _ A2) as A2'. rewrite (Ux1 _ _ A1 A2') in B1. exact (B1 A2).
    - exact (Ux2 _ _ A1 (tk_p_sub _ _ _ T1 _ _ A2)).
    - exact (Ux2 _ _ (tk_r_sub _ _ _ T1 _ _ A2) A1).
    - pose proof (tk_p_sub _ _ _ T1 _ _ A2) as A2'. rewrite (PfAt_fun _ _ _ _ A1 A2') in B1. exact (B1 A2). }
  pose proof (N1 U) as Na. pose proof (N2 U1) as Nb. clear -Na Nb Hd. revert Na Hd.
  induction a as [|h t IH]; cbn [app]; intros Na Hd; [exact Nb|]. inversion Na as [|? ? Hnh Hnt]; subst. constructor.
  - intros Hin. apply in_app_or in Hin. destruct Hin as [Hin|Hin]; [contradiction | exact (Hd h (or_introl eq_refl) Hin)].
  - apply IH; [exact Hnt|]. intros x Hx. apply Hd. right. exact Hx.
Qed.

Lemma take_from_first_D es pf count a es' c :
  WFQ (mkQ es pf) -> take_from_first es count = Ok (a, es', c) -> TakeD (mkQ es pf) (mkQ es' pf) a.
Proof.
  intros W H. split; [eapply take_from_first_TakeQ; eassumption|]. intros _.
  destruct es as [|e t]; [discriminate|]. destruct W as [W1 _]. cbn in W1. destruct (WFE_inv _ _ W1) as ((Hs & _) & _).
  unfold take_from_first in H. destruct (qe_more e).
  - destruct (take_n (N.to_nat count) (qe_ids e)) as [a0 b] eqn:Et. pose proof (take_n_app _ _ _ _ Et) as Eab.
    destruct (SL_app a0 b) as (Sa & _ & _); [rewrite <- Eab; exact Hs|].
    destruct b; inversion H; subst; apply SL_NoDup; exact Sa.
  - destruct (N.eqb count 0); [discriminate|]. inversion H; subst. apply SL_NoDup. exact Hs.
Qed.

Lemma take_loop_D pf fuel : forall es count acc ids es',
  WFQ (mkQ es pf) -> take_loop fuel es count acc = Ok (ids, es') ->
  exists a, ids = acc ++ a /\ TakeD (mkQ es pf) (mkQ es' pf) a.
Proof.
  induction fuel as [|k IH]; intros es count acc ids es' W H; cbn [take_loop] in H.
  - destruct (N.eqb count 0); [|discriminate]. inversion H; subst. exists []. split; [rewrite app_nil_r; reflexivity | apply TakeD_refl; exact W].
  - destruct (N.eqb count 0).
    + inversion H; subst. exists []. split; [rewrite app_nil_r; reflexivity | apply TakeD_refl; exact W].
    + apply bind_ok in H. destruct H as ([[a es1] c1] & H1 & H).
      pose proof (take_from_first_D _ _ _ _ _ _ W H1) as T1.
      destruct (IH _ _ _ _ _ (tk_wf _ _ _ (proj1 T1)) H) as (b & Eb & T2).
      exists (a ++ b). split; [rewrite Eb, app_assoc; reflexivity | eapply TakeD_trans; eassumption].
Qed.

Lemma NoDup_app_l {A} (a b : list A) : NoDup (a ++ b) -> NoDup a.
Proof.
  induction a as [|h t IH]; cbn [app]; intros H; [constructor|]. inversion H; subst. constructor; [|apply IH; assumption].
  intros Hin. apply H2. apply in_or_app. left. exact Hin.
Qed.

Lemma drain_prefill_D es pf order count a pf' c :
  WFQ (mkQ es pf) -> drain_prefill pf order count = Ok (a, pf', c) -> TakeD (mkQ es pf) (mkQ es pf') a.
Proof.
  intros W H. split; [eapply drain_prefill_spec; eassumption|]. intros _.
  unfold drain_prefill in H. destruct pf as [[pp ts]|]; [|inversion H; subst; constructor].
  destruct (perm_of_set order ts) eqn:Eperm; [|discriminate]. cbn [negb] in H.
  destruct (take_n (N.to_nat count) order) as [a0 rest0] eqn:Et. pose proof (take_n_app _ _ _ _ Et) as Eab.
  assert (Ea : a = a0) by (destruct (fold_left _ a0 ts); inversion H; reflexivity). subst a0.
  destruct W as [_ W2]. cbn in W2.
  assert (Hnd : NoDup order).
  { unfold perm_of_set in Eperm. apply andb_true_iff in Eperm. destruct Eperm as [Eperm E3]. apply andb_true_iff in Eperm. destruct Eperm as [E1 E2].
    apply N.eqb_eq in E1. apply Nat2N.inj in E1. rewrite forallb_forall in E3.
    apply (@NoDup_incl_NoDup _ ts order (SL_NoDup _ W2)); [lia|]. intros x Hx. apply tmem_in. apply E3. exact Hx. }
  rewrite Eab in Hnd. eapply NoDup_app_l. exact Hnd.
Qed.

Lemma q_take_tasks_D q count order ids q' : WFQ q -> q_take_tasks q count order = Ok (ids, q') -> TakeD q q' ids.
Proof.
  intros W H. destruct q as [es pf]. unfold q_take_tasks in H. cbn [q_ready q_prefill] in H.
  destruct pf as [[pp ts]|].
  - destruct (match q_top_priority (mkQ es (Some (pp, ts))) with Some tp => Z.eqb tp pp | None => false end).
    + apply bind_ok in H. destruct H as ([[a es1] c1] & H1 & H).
      apply bind_ok in H. destruct H as ([[b pf1] c2] & H2 & H).
      apply bind_ok in H. destruct H as ([c es2] & H3 & H). inversion H; subst; clear H.
      assert (T1 : TakeD (mkQ es (Some (pp, ts))) (mkQ es1 (Some (pp, ts))) a).
      { destruct (N.ltb 0 count); [eapply take_from_first_D; eassumption | inversion H1; subst; apply TakeD_refl; exact W]. }
      pose proof (drain_prefill_D _ _ _ _ _ _ _ (tk_wf _ _ _ (proj1 T1)) H2) as T2.
      destruct (take_loop_D pf1 _ _ _ _ _ _ (tk_wf _ _ _ (proj1 T2)) H3) as (c' & Ec & T3). cbn [app] in Ec. subst c'.
      eapply TakeD_trans; [exact T1 | eapply TakeD_trans; [exact T2 | exact T3]].
    + apply bind_ok in H. destruct H as ([[b pf1] c2] & H2 & H).
      apply bind_ok in H. destruct H as ([c es2] & H3 & H). inversion H; subst; clear H.
      pose proof (drain_prefill_D _ _ _ _ _ _ _ W H2) as T2.
      destruct (take_loop_D pf1 _ _ _ _ _ _ (tk_wf _ _ _ (proj1 T2)) H3) as (c' & Ec & T3). cbn [app] in Ec. subst c'.
      eapply TakeD_trans; [exact T2 | exact T3].
  - apply bind_ok in H. destruct H as ([ids0 es2] & H3 & H). inversion H; subst; clear H.
    destruct (take_loop_D None _ _ _ _ _ _ W H3) as (c' & Ec & T3). cbn [app] in Ec. subst c'. exact T3.
Qed.

(** Under the invariant every queue is [uniq]. *)
Lemma QV_uniq ex Z ts qs rs rqs i q : QV ex Z ts qs rs rqs -> nth_error qs i = Some q -> uniq q.
Proof.
  intros V Hq x. split.
  - intros p p' A B. destruct (qv_live _ _ _ _ _ _ V i q x Hq) as (t & Hf & Hi); [exists p; left; exact A|].
    rewrite <- Hi in Hq. pose proof (qv_task _ _ _ _ _ _ V _ _ _ Hf Hq) as Hp.
    destruct (exp_place ex rs x (t_state t)); cbn in Hp; destruct Hp as [P1 P2].
    + exfalso. exact (P1 _ A).
    + apply P1 in A. apply P1 in B. congruence.
    + exfalso. exact (P2 _ A).
  - intros p p' A B. destruct (qv_live _ _ _ _ _ _ V i q x Hq) as (t & Hf & Hi); [exists p; left; exact A|].
    rewrite <- Hi in Hq. pose proof (qv_task _ _ _ _ _ _ V _ _ _ Hf Hq) as Hp.
    destruct (exp_place ex rs x (t_state t)); cbn in Hp; destruct Hp as [P1 P2].
    + exact (P1 _ A).
    + exact (P2 _ B).
    + exact (P2 _ A).
Qed.
