(** C14 / C03, "tasks are aborted only with a cause", part 5: the operations that create jobs
    and tasks (array submit, task-graph submit, open).

    [ACCEPT]: what an accepted submit does, concretely - the job [jid] it goes to is a job of the
    state before or the new job with the counter's id; the job afterwards is that job with the
    ids [ids] attached ([attach_ids]: the ids are pairwise different and new to the job); every
    other job is untouched; the outputs are the [EvSubmit] event and the response listing ALL task
    ids of the job; a task of the core afterwards was there before with the same dependency list,
    or is one of the submitted tasks and keeps a sublist of its raw dependencies ([grown]).
    [REJECT]: a refused submit changes neither the jobs nor the tasks and answers with an error. *)
From HQ Require Import Base.Prelude Cluster.Types Cluster.Core Cluster.Reactor Cluster.Worker Cluster.Server Cluster.Sys Cluster.Monitors Cluster.ProofsJob Cluster.ProofsMore Cluster.ProofsTerminal Cluster.ProofsStep Cluster.ProofsFinal Cluster.BijBase Cluster.BijCore Cluster.BijHq Cluster.BijSt Cluster.BijReact Cluster.BijFinal Cluster.FrameGen Cluster.CrashFrame Cluster.ProofsOnce Cluster.StartFinBase Cluster.InvDBase Cluster.InvDMap Cluster.InvDSpec Cluster.InvDRem Cluster.InvDReact Cluster.InvDNew Cluster.InvDHq Cluster.InvDStep Cluster.DepOrderBase Cluster.DepOrderReact Cluster.DepOrderSubmit Cluster.AbortCauseBase Cluster.AbortCauseJob.
From Coq Require Import ZArith Lia.
Local Open Scope N_scope.

Arguments N.add : simpl never.
Arguments N.sub : simpl never.

(** * [attach_ids] *)
Lemma attach_ids_facts ids : forall j j', attach_ids j ids = Ok j' ->
  NoDup ids /\ j_id j' = j_id j /\ j_maxfails j' = j_maxfails j /\ j_nfail j' = j_nfail j /\
  (forall i, jt_find (j_tasks j') i <> None <-> In i ids \/ jt_find (j_tasks j) i <> None).
Proof.
  induction ids as [|i0 r IH]; cbn [attach_ids]; intros j j' H.
  - inversion H; subst. split; [constructor|]. repeat (split; [reflexivity|]). intros i. cbn [In]. tauto.
  - destruct (jt_find (j_tasks j) i0) eqn:Ef; [discriminate|].
    pose proof (attach_ids_fresh _ _ _ H) as Hfr.
    destruct (IH _ _ H) as (Nd & A & B & C & Dm). cbn [job_set_task j_id j_maxfails j_nfail j_tasks job_upd] in *.
    split; [|split; [exact A|]; split; [exact B|]; split; [exact C|]].
    + constructor; [|exact Nd]. intros Hin. specialize (Hfr _ Hin). rewrite jt_find_set, N.eqb_refl in Hfr. discriminate.
    + intros i. rewrite Dm, jt_find_set. cbn [In]. destruct (N.eqb i i0) eqn:E.
      * apply N.eqb_eq in E. subst i. split; [intros _; left; left; reflexivity | intros _; right; discriminate].
      * apply N.eqb_neq in E. split; [intros [Hi|Hi]; [left; right; exact Hi | right; exact Hi] | intros [[Hi|Hi]|Hi]; [congruence | left; exact Hi | right; exact Hi]].
Qed.

Lemma jt_find_dom l i : jt_find l i <> None <-> In i (map fst l).
Proof.
  induction l as [|[k v] r IH]; cbn [jt_find map fst In]; [tauto|].
  destruct (N.eqb i k) eqn:E.
  - apply N.eqb_eq in E. subst k. split; [intros _; left; reflexivity | intros _; discriminate].
  - apply N.eqb_neq in E. rewrite IH. split; [intros H; right; exact H | intros [H|H]; [congruence | exact H]].
Qed.

(** * The tail of an accepted submit *)
Lemma submit_tail_Y s4 jid ids tasks s' :
  PRE s4 -> Forall new_wf tasks -> map t_id tasks = map (fun i => (jid, i)) ids ->
  (do j <- hq_get_job s4 jid 222;
   do j' <- attach_ids j ids;
   do s6 <- on_new_tasks (hq_set_job s4 j') tasks;
   submit_ok_resp s6 jid) = Ok s' ->
  exists j j', find_job (jobs s4) jid = Some j /\ j_id j = jid /\ attach_ids j ids = Ok j' /\
    hq_of s' = hq_of (hq_set_job s4 j') /\
    snd s' = snd s4 ++ [OResp (RSubmitOk jid (job_n_tasks j') (map fst (j_tasks j')))] /\
    grown tasks (fm (core_of s4)) (fm (core_of s')).
Proof.
  intros [G4 D4] Hwf Hids H.
  apply bind_ok in H. destruct H as (j & Hj & H). apply bind_ok in H. destruct H as (j' & Ha & H).
  apply bind_ok in H. destruct H as (s6 & H6 & H).
  destruct (jt_get _ _ _ _ Hj) as [Ej Eid]. destruct (get_find _ _ _ _ Hj) as [Hfj _].
  pose proof (attach_ids_fresh _ _ _ Ha) as Hfr.
  destruct (attach_ids_facts _ _ _ Ha) as (_ & Hid' & _).
  set (s5 := hq_set_job s4 j') in *.
  assert (Hnd : forall t x tx, In t tasks -> fm (core_of s5) x = Some tx -> ~ In (t_id t) (t_deps tx)).
  { intros t x tx Hin Ex Hdep. change (fm (core_of s4) x = Some tx) in Ex.
    destruct (D4 _ _ _ Ex Hdep) as [_ (l & Hl & Hk)].
    assert (Hi : In (t_id t) (map (fun i => (jid, i)) ids)) by (rewrite <- Hids; apply in_map; exact Hin).
    apply in_map_iff in Hi. destruct Hi as (i & Ei & Hi). rewrite <- Ei in Hl, Hk. cbn [fst snd] in Hl, Hk.
    rewrite Ej in Hl. inversion Hl; subst l. apply Hk. apply Hfr. exact Hi. }
  destruct (on_new_tasks_DI s5 tasks s6 G4 Hwf Hnd H6) as [_ Gr].
  pose proof (on_new_tasks_hq _ _ _ H6) as Q6. pose proof (on_new_tasks_snd _ _ _ H6) as S6.
  unfold submit_ok_resp in H. apply bind_ok in H. destruct H as (jx & Hjx & H). inversion H; subst s'. clear H.
  destruct (get_find _ _ _ _ Hjx) as [Hfx _].
  assert (Ejx : jx = j').
  { unfold jobs in Hfx. rewrite Q6 in Hfx. pose proof (find_set_self s4 j') as Hs. unfold jobs in Hs. rewrite Hid', Eid in Hs.
    fold s5 in Hs. rewrite Hs in Hfx. inversion Hfx; reflexivity. }
  subst jx. exists j, j'. split; [exact Hfj|]. split; [exact Eid|]. split; [exact Ha|].
  split; [exact Q6|]. split; [cbn [snd emit]; rewrite S6; reflexivity|]. exact Gr.
Qed.

(** * Accepted / refused *)
Record ACC (s : sys) (jid : N) (ids : list N) (tasks : list task) (s' : sys) (outs : list out)
           (ac_j ac_j' : job) (ac_ev : event) (ac_n : N) : Prop := mkACC {
  ac_src : find_job (h_jobs (s_hq s)) jid = Some ac_j \/
           (h_counter (s_hq s) = jid /\ j_tasks ac_j = [] /\ j_nfail ac_j = 0 /\ h_counter (s_hq s) < h_counter (s_hq s'));
  ac_attach : attach_ids ac_j ids = Ok ac_j';
  ac_new : find_job (h_jobs (s_hq s')) jid = Some ac_j';
  ac_other : forall k, k <> jid -> find_job (h_jobs (s_hq s')) k = find_job (h_jobs (s_hq s)) k;
  ac_cnt : h_counter (s_hq s) <= h_counter (s_hq s');
  ac_outs : outs = [OEv ac_ev; OResp (RSubmitOk jid ac_n (map fst (j_tasks ac_j')))];
  ac_evq : match ac_ev with EvSubmit _ _ _ => True | _ => False end;
  ac_grown : grown tasks (fm (s_core s)) (fm (s_core s'));
  ac_ids : map t_id tasks = map (fun i => (jid, i)) ids
}.
Definition ACCEPT (s : sys) (jid : N) (ids : list N) (tasks : list task) (s' : sys) (outs : list out) : Prop :=
  exists j j' ev n, ACC s jid ids tasks s' outs j j' ev n.

Record REJECT (s s' : sys) (outs : list out) : Prop := mkREJECT {
  rj_hq : s_hq s' = s_hq s;
  rj_tasks : c_tasks (s_core s') = c_tasks (s_core s);
  rj_outs : exists a b, outs = [OResp (RSubmitErr a b)]
}.

(** The state in which the tail runs. *)
Lemma prepare_jobs (s s1 : st) jid is_new mf ev :
  fresh s ->
  (if is_new : bool then jid = cnt_of s /\ s1 = hq_with s (hq_jobs s) (jid + 1) else s1 = s) ->
  let s2 := emit s1 (OEv ev) in
  let s3 := if is_new then hq_with s2 (set_job (hq_jobs s2) (mkJob jid false [] 0 0 0 0 0 false mf)) (hq_counter s2) else s2 in
  (forall k, find_job (jobs s3) k = if is_new && N.eqb k jid then Some (mkJob jid false [] 0 0 0 0 0 false mf) else find_job (jobs s) k) /\
  cnt_of s3 = (if is_new then jid + 1 else cnt_of s) /\ snd s3 = snd s ++ [OEv ev] /\ core_of s3 = core_of s.
Proof.
  intros F Hnew s2 s3. subst s3 s2. destruct is_new.
  - destruct Hnew as [-> ->]. split; [|split; [reflexivity | split; reflexivity]].
    intros k. unfold jobs, hq_of, hq_with, hq_jobs, emit. cbn [fst s_hq with_hq h_jobs]. rewrite find_job_set. cbn [j_id andb]. reflexivity.
  - subst s1. split; [intros k; reflexivity | split; [reflexivity | split; reflexivity]].
Qed.

Lemma accept_of_tail (s : st) jid is_new mf ev s3 s4 ids tasks s' :
  fresh s ->
  (forall k, find_job (jobs s3) k = if is_new && N.eqb k jid then Some (mkJob jid false [] 0 0 0 0 0 false mf) else find_job (jobs s) k) ->
  cnt_of s3 = (if is_new : bool then jid + 1 else cnt_of s) -> (is_new = true -> jid = cnt_of s) ->
  (match ev with EvSubmit _ _ _ => True | _ => False end) ->
  snd s = [] -> snd s3 = snd s ++ [OEv ev] ->
  hq_of s4 = hq_of s3 -> snd s4 = snd s3 -> c_tasks (core_of s4) = c_tasks (core_of s) -> c_tasks (core_of s3) = c_tasks (core_of s) ->
  PRE s4 -> Forall new_wf tasks -> map t_id tasks = map (fun i => (jid, i)) ids ->
  (do j <- hq_get_job s4 jid 222;
   do j' <- attach_ids j ids;
   do s6 <- on_new_tasks (hq_set_job s4 j') tasks;
   submit_ok_resp s6 jid) = Ok s' ->
  ACCEPT (fst s) jid ids tasks (fst s') (snd s').
Proof.
  intros F Hj3 Hc3 Hnew Hev Hs0 Hs3 Q4 S4 T4 T3 P4 Hwf Hids H.
  destruct (submit_tail_Y _ _ _ _ _ P4 Hwf Hids H) as (j & j' & Hfj & Eid & Ha & Q' & S' & Gr).
  destruct (attach_ids_facts _ _ _ Ha) as (_ & Hid' & _).
  assert (Hj4 : forall k, find_job (jobs s4) k = find_job (jobs s3) k) by (intros k; unfold jobs; rewrite Q4; reflexivity).
  assert (Hj' : forall k, find_job (jobs s') k = if N.eqb k jid then Some j' else find_job (jobs s4) k).
  { intros k. unfold jobs. rewrite Q'. unfold hq_of, hq_set_job. cbn [fst s_hq with_hq h_jobs]. rewrite find_job_set, Hid', Eid. reflexivity. }
  assert (Hc' : cnt_of s' = cnt_of s3).
  { unfold cnt_of. rewrite Q', <- Q4. reflexivity. }
  exists j, j', ev, (job_n_tasks j'). constructor.
  - rewrite Hj4, Hj3 in Hfj. destruct is_new; cbn [andb] in Hfj.
    + rewrite N.eqb_refl in Hfj. inversion Hfj; subst j. right. specialize (Hnew eq_refl).
      change (h_counter (s_hq (fst s))) with (cnt_of s). change (h_counter (s_hq (fst s'))) with (cnt_of s').
      split; [symmetry; exact Hnew|]. split; [reflexivity|]. split; [reflexivity|]. rewrite Hc', Hc3. lia.
    + left. exact Hfj.
  - exact Ha.
  - change (find_job (jobs s') jid = Some j'). rewrite Hj', N.eqb_refl. reflexivity.
  - intros k Hk. change (find_job (jobs s') k = find_job (jobs s) k). rewrite Hj'.
    apply N.eqb_neq in Hk. rewrite Hk, Hj4, Hj3, Hk, andb_false_r. reflexivity.
  - change (cnt_of s <= cnt_of s'). rewrite Hc', Hc3. destruct is_new; [rewrite (Hnew eq_refl)|]; lia.
  - rewrite S', S4, Hs3, Hs0. reflexivity.
  - exact Hev.
  - assert (E4 : fm (core_of s4) = fm (s_core (fst s))) by (unfold fm; rewrite T4; reflexivity).
    rewrite E4 in Gr. exact Gr.
  - exact Hids.
Qed.

(** * The task-graph submit *)
Lemma submit_graph_AR (s : sys) jobsel rqs ts mf s' outs :
  fresh (s, []) -> PRE (s, []) ->
  handle_submit_graph (s, []) jobsel rqs ts mf = Ok (s', outs) ->
  REJECT s s' outs \/ exists jid tasks, ACCEPT s jid (map gt_id ts) tasks s' outs /\
     forall t, In t tasks -> exists g, In g ts /\ t_id t = (jid, gt_id g) /\ t_deps t = dedup_sorted (gt_deps g) [] jid.
Proof.
  intros F P H. unfold handle_submit_graph in H.
  set (existing := match jobsel with Some j0 => find_job (hq_jobs (s, [])) j0 | None => None end) in *.
  set (job_tasks := match existing with Some j0 => j_tasks j0 | None => [] end) in *.
  apply bind_ok in H. destruct H as (v1 & Hv1 & H).
  assert (Hrej : forall a b, (s', outs) = emit (s, []) (OResp (RSubmitErr a b)) -> REJECT s s' outs).
  { intros a b E. inversion E; subst. constructor; [reflexivity | reflexivity | eauto]. }
  match type of H with (match ?x with Some _ => _ | None => _ end) = _ => destruct x as [e|] eqn:Ev end.
  { left. inversion H; subst.
    assert (He : exists a b, e = RSubmitErr a b).
    { destruct v1 as [e1|]; [inversion Ev; subst e1|].
      - destruct existing as [j0|]; [|discriminate]. eapply graph_ids_fresh_err; exact Hv1.
      - eapply validate_graph_err; exact Ev. }
    destruct He as (a & b & ->). constructor; [reflexivity | reflexivity | eauto]. }
  apply bind_ok in H. destruct H as ([acc s1] & Hr & H).
  destruct acc as [[jid is_new]|].
  2:{ left. assert (E1 : (exists a b, s1 = emit (s, []) (OResp (RSubmitErr a b)))).
      { destruct jobsel as [jid|]; [|inversion Hr].
        unfold existing in Hr. destruct (find_job (hq_jobs (s, [])) jid) as [j|]; [|inversion Hr; subst; eauto].
        destruct (negb (j_open j)); inversion Hr; subst; eauto. }
      destruct E1 as (a & b & ->). inversion H; subst. exact (Hrej a b eq_refl). }
  clear Hrej. right. cbv zeta in H.
  assert (Hnew : if is_new : bool then jid = cnt_of (s, []) /\ s1 = hq_with (s, []) (hq_jobs (s, [])) (jid + 1) else s1 = (s, [])).
  { destruct jobsel as [j0|].
    - unfold existing in Hr. destruct (find_job (hq_jobs (s, [])) j0) as [j|] eqn:Ef; [|inversion Hr].
      destruct (negb (j_open j)); [inversion Hr|]. inversion Hr; subst. reflexivity.
    - inversion Hr; subst. split; reflexivity. }
  match type of H with context [fold_left ?f rqs (?sx, [])] => set (s3 := sx) in *; destruct (fold_left f rqs (s3, [])) as [s4 rqis] eqn:Erq end.
  destruct (prepare_jobs (s, []) s1 jid is_new mf (EvSubmit jid is_new (N.of_nat (length ts))) F Hnew) as (Hj3 & Hc3 & Hs3 & Hco3).
  cbv zeta in Hj3, Hc3, Hs3, Hco3. fold s3 in Hj3, Hc3, Hs3, Hco3.
  assert (P3 : PRE s3).
  { destruct is_new.
    - destruct Hnew as [-> ->]. subst s3. apply PRE_new_job; assumption.
    - subst s1. subst s3. eapply PRE_frame; [| |exact P]; [reflexivity | apply KL_same; reflexivity]. }
  pose proof (fold_rqs_tasks _ _ _ _ _ Erq) as T4. pose proof (fold_rqs_same _ _ _ _ _ Erq) as Q4.
  pose proof (fold_rqs_snd _ _ _ _ _ Erq) as S4.
  assert (P4 : PRE s4) by (eapply PRE_frame; [exact T4 | apply KL_same; exact Q4 | exact P3]).
  assert (T3 : c_tasks (core_of s3) = c_tasks (core_of (s, []))) by (rewrite Hco3; reflexivity).
  apply bind_ok in H. destruct H as (j & Hj & H). apply bind_ok in H. destruct H as (j' & Ha & H).
  apply bind_ok in H. destruct H as (tasks & Hg & H).
  destruct (graph_tasks_spec _ _ _ _ Hg) as [G1 _].
  exists jid, tasks. split.
  - apply (accept_of_tail (s, []) jid is_new mf (EvSubmit jid is_new (N.of_nat (length ts))) s3 s4 (map gt_id ts) tasks (s', outs));
      [exact F | exact Hj3 | exact Hc3 | | exact I | reflexivity | exact Hs3 | exact Q4 | exact S4 | rewrite T4; exact T3 | exact T3
       | exact P4 | exact (graph_tasks_wf _ _ _ _ Hg) | exact G1 |].
    + intros ->. apply Hnew.
    + rewrite Hj. cbn [bind]. rewrite Ha. cbn [bind]. exact H.
  - clear -Hg. revert tasks Hg. induction ts as [|g r IH]; cbn [graph_tasks]; intros tasks Hg t Ht; [inversion Hg; subst; destruct Ht|].
    destruct (nth_error rqis (N.to_nat (gt_rq g))) as [rqi|]; [|discriminate].
    apply bind_ok in Hg. destruct Hg as (rest & Hr & Hg). inversion Hg; subst tasks. destruct Ht as [<-|Ht].
    + exists g. split; [left; reflexivity|]. split; reflexivity.
    + destruct (IH _ Hr t Ht) as (g0 & A & B). exists g0. split; [right; exact A | exact B].
Qed.

(** * The array submit *)
Lemma submit_array_AR (s : sys) jobsel ids entries rq prio cl tlim mf s' outs :
  fresh (s, []) -> PRE (s, []) -> (match entries with Some n => (length ids <= N.to_nat n)%nat | None => True end) ->
  handle_submit_array (s, []) jobsel ids entries rq prio cl tlim mf = Ok (s', outs) ->
  REJECT s s' outs \/ exists jid ids' tasks, ACCEPT s jid ids' tasks s' outs /\ forall t, In t tasks -> t_deps t = [].
Proof.
  intros F P Hwf H. unfold handle_submit_array in H.
  match type of H with (match ?x with Some _ => _ | None => _ end) = _ => destruct x end;
    [left; inversion H; subst; constructor; [reflexivity | reflexivity | eauto]|].
  apply bind_ok in H. destruct H as ([acc s1] & Hr & H).
  destruct acc as [[[jid is_new] ids']|].
  - right. cbv zeta in H.
    assert (Hnew : (if is_new : bool then jid = cnt_of (s, []) /\ s1 = hq_with (s, []) (hq_jobs (s, [])) (jid + 1) else s1 = (s, []))
                   /\ (match entries with Some n => (length ids' <= N.to_nat n)%nat | None => True end)).
    { destruct jobsel as [j0|].
      - destruct (find_job (hq_jobs (s, [])) j0) as [j|] eqn:Ef; [|inversion Hr].
        destruct (negb (j_open j)); [inversion Hr|]. inversion Hr; subst. split; [reflexivity|].
        destruct ids; [|exact Hwf]. destruct entries as [n|]; [|exact I]. rewrite range_from_length. lia.
      - inversion Hr; subst. split; [split; reflexivity|].
        destruct ids; [|exact Hwf]. destruct entries as [n|]; [|exact I]. rewrite range_from_length. lia. }
    destruct Hnew as [Hnew Hwf'].
    match type of H with context [get_or_create_rq ?sx rq] => set (s3 := sx) in *; destruct (get_or_create_rq s3 rq) as [s4 rqi] eqn:Erq end.
    destruct (prepare_jobs (s, []) s1 jid is_new mf (EvSubmit jid is_new (N.of_nat (length ids'))) F Hnew) as (Hj3 & Hc3 & Hs3 & Hco3).
    cbv zeta in Hj3, Hc3, Hs3, Hco3. fold s3 in Hj3, Hc3, Hs3, Hco3.
    assert (P3 : PRE s3).
    { destruct is_new.
      - destruct Hnew as [-> ->]. subst s3. apply PRE_new_job; assumption.
      - subst s1. subst s3. eapply PRE_frame; [| |exact P]; [reflexivity | apply KL_same; reflexivity]. }
    pose proof (get_or_create_rq_tasks s3 rq) as T4. rewrite Erq in T4. cbn [fst] in T4.
    pose proof (get_or_create_rq_same s3 rq) as Q4. rewrite Erq in Q4. cbn [fst] in Q4.
    pose proof (get_or_create_rq_snd s3 rq) as S4. rewrite Erq in S4. cbn [fst] in S4.
    assert (P4 : PRE s4) by (eapply PRE_frame; [exact T4 | apply KL_same; exact Q4 | exact P3]).
    assert (T3 : c_tasks (core_of s3) = c_tasks (core_of (s, []))) by (rewrite Hco3; reflexivity).
    set (tids := match entries with Some n => fst (take_n (N.to_nat n) ids') | None => ids' end) in *.
    assert (Etids : tids = ids') by (subst tids; destruct entries as [n|]; [apply take_n_all; exact Hwf' | reflexivity]).
    exists jid, ids', (map (fun i => fresh_task (jid, i) [] rqi prio cl tlim) tids). split.
    + apply (accept_of_tail (s, []) jid is_new mf (EvSubmit jid is_new (N.of_nat (length ids'))) s3 s4 ids' _ (s', outs));
        [exact F | exact Hj3 | exact Hc3 | | exact I | reflexivity | exact Hs3 | exact Q4 | exact S4 | rewrite T4; exact T3 | exact T3
         | exact P4 | | | exact H].
      * intros ->. apply Hnew.
      * apply Forall_forall. intros t Ht. apply in_map_iff in Ht. destruct Ht as (i & <- & _). split; [constructor | reflexivity].
      * rewrite map_map, Etids. reflexivity.
    + intros t Ht. apply in_map_iff in Ht. destruct Ht as (i & <- & _). reflexivity.
  - left.
    destruct jobsel as [j0|].
    + destruct (find_job (hq_jobs (s, [])) j0) as [j|] eqn:Ef.
      * destruct (negb (j_open j)); inversion Hr; subst. inversion H; subst. constructor; [reflexivity | reflexivity | eauto].
      * inversion Hr; subst. inversion H; subst. constructor; [reflexivity | reflexivity | eauto].
    + inversion Hr.
Qed.

(** * Open *)
Lemma handle_open_jobs (s : sys) mf s' outs :
  handle_open (s, []) mf = Ok (s', outs) ->
  let jid := h_counter (s_hq s) in
  (forall k, find_job (h_jobs (s_hq s')) k = if N.eqb k jid then Some (mkJob jid true [] 0 0 0 0 0 false mf) else find_job (h_jobs (s_hq s)) k) /\
  h_counter (s_hq s') = jid + 1 /\ s_core s' = s_core s /\ outs = [OEv (EvOpen jid); OResp (ROpen jid)].
Proof.
  unfold handle_open. intros H. inversion H; subst. cbv zeta. split; [|split; [reflexivity | split; reflexivity]].
  intros k. unfold hq_with, hq_jobs, hq_counter, emit. cbn [fst s_hq with_hq h_jobs]. rewrite find_job_set. reflexivity.
Qed.

Print Assumptions submit_graph_AR.
Print Assumptions submit_array_AR.
