(** The queue invariant, part 13: every operation of [Sys.step], every history, and the statement in
    terms of the monitor predicates ([queues_live_ok], [in_ready], [in_prefill]). *)
From HQ Require Import Base.Prelude Cluster.Types Cluster.Core Cluster.Reactor Cluster.Worker Cluster.Server Cluster.Sys Cluster.Monitors Cluster.ProofsJob Cluster.ProofsMore Cluster.ProofsTerminal Cluster.ProofsStep Cluster.ProofsFinal Cluster.BijBase Cluster.BijCore Cluster.BijHq Cluster.BijSt Cluster.BijReact Cluster.BijFinal Cluster.FrameGen Cluster.CrashFrame Cluster.InvQBase Cluster.InvQTake Cluster.InvQInv Cluster.InvQOps Cluster.InvQNoDup Cluster.InvQReact Cluster.InvQReact2 Cluster.InvQReact3 Cluster.InvQServer Cluster.InvQServer2 Cluster.InvQSubmit Cluster.InvQSched.
From Coq Require Import ZArith Lia Sorting.Sorted.
Local Open Scope N_scope.

Arguments N.add : simpl never.
Arguments N.sub : simpl never.

(** The inductive invariant between operations: no exceptions, no Finished task. *)
Definition QInv (c : core) : Prop := QI none [] c.

Lemma QInv_init reserve maxfill : QInv (s_core (init_sys reserve maxfill)).
Proof.
  unfold QInv, QI. cbn. constructor; cbn; try (intros; discriminate); try constructor.
  - intros i q x Hq. destruct i; discriminate.
Qed.

(** * One operation *)
Theorem step_QI s o s' outs :
  HOK (s_hq s) -> CB (s, []) -> asg_ok (s_core s) -> QInv (s_core s) -> step s o = Ok (s', outs) -> QInv (s_core s').
Proof.
  unfold QInv. intros Hok HC Hasg V H. destruct o; cbn [step] in H.
  - exact (on_new_worker_QI (s, []) _ _ _ V H).
  - destruct (find_proc _ w); [|discriminate]. exact (on_remove_worker_QI (s, []) _ _ _ _ _ _ Hok HC Hasg V H).
  - destruct (bad_submit_lengths _ _); [inversion H; subst; exact V|]. exact (handle_submit_array_QI (s, []) _ _ _ _ _ _ _ _ _ V H).
  - destruct (bad_graph_rq _ _); [inversion H; subst; exact V|]. destruct (dead_dep _ _ _); [inversion H; subst; exact V|]. exact (handle_submit_graph_QI (s, []) _ _ _ _ _ V H).
  - exact (handle_open_QI (s, []) _ _ V H).
  - exact (handle_close_QI (s, []) _ _ V H).
  - exact (handle_cancel_QI (s, []) _ _ Hok HC V H).
  - exact (handle_forget_QI (s, []) _ _ V H).
  - destruct (find_proc _ w) as [p|]; [|discriminate]. destruct (p_down p); [discriminate|].
    inv_binds H. inversion H; subst. exact V.
  - destruct (find_proc _ w) as [p|]; [|discriminate]. destruct (p_up p) as [|m rest]; [discriminate|].
    destruct m.
    + match type of H with on_task_update ?s1 _ _ = _ =>
        assert (HC1 : CB s1) by (eapply CB_same; [| |exact HC]; reflexivity);
        exact (on_task_update_QI s1 _ _ _ Hok HC1 V H) end.
    + match type of H with on_retract_response ?s1 _ _ = _ => exact (on_retract_response_QI s1 _ _ _ V H) end.
  - destruct (c_flag (s_core s)); [|discriminate]. exact (run_scheduling_QI (s, []) _ _ V H).
  - destruct (find_proc _ w) as [p|]; [|discriminate]. inv_binds H. inversion H; subst. exact V.
  - destruct (find_proc _ w) as [p|]; [|discriminate]. inversion H; subst. exact V.
  - inversion H; subst. exact V.
  - inv_binds H. inversion H; subst. exact V.
Qed.

(** * Every history *)

(** [P] holds in every state the history goes through. *)
Fixpoint along (P : sys -> Prop) (s : sys) (ops : list op) : Prop :=
  P s /\ match ops with
         | [] => True
         | o :: r => match step s o with Ok (s1, _) => along P s1 r | _ => True end
         end.

Lemma along_impl (P Q : sys -> Prop) : (forall s, P s -> Q s) -> forall ops s, along P s ops -> along Q s ops.
Proof.
  intros HPQ. induction ops as [|o r IH]; cbn [along]; intros s [H1 H2]; (split; [apply HPQ; exact H1|]); [exact I|].
  destruct (step s o) as [[s1 o1]| |]; [apply IH; exact H2 | exact I | exact I].
Qed.

Theorem run_QI ops : forall s s' outs,
  HOK (s_hq s) -> fresh (s, []) -> Forall op_wf ops -> CB (s, []) -> QInv (s_core s) ->
  along (fun s => asg_ok (s_core s)) s ops ->
  run s ops = Ok (s', outs) -> QInv (s_core s').
Proof.
  induction ops as [|o r IH]; cbn [run]; intros s s' outs Hok F Hwf HC V Hal H; [inversion H; subst; exact V|].
  inversion Hwf as [|? ? Hw1 Hw2]; subst.
  apply bind_ok in H. destruct H as ([s1 o1] & H1 & H). apply bind_ok in H. destruct H as ([s2 o2] & H2 & H). inversion H; subst.
  destruct Hal as [Ha1 Ha2]. cbn [along] in Ha2. rewrite H1 in Ha2.
  pose proof (step_CB _ _ _ _ Hok F Hw1 HC H1) as HC1.
  pose proof (step_hq_ok _ _ _ _ Hok H1) as Hok1.
  pose proof (G_step _ _ _ _ F H1) as G1.
  assert (F1 : fresh (s1, [])) by (apply (fresh_outs s1 o1); apply (g_fresh _ _ G1); exact F).
  pose proof (step_QI _ _ _ _ Hok HC Ha1 V H1) as V1.
  eapply IH; [exact Hok1 | exact F1 | exact Hw2 | eapply CB_outs; exact HC1 | exact V1 | exact Ha2 | exact H2].
Qed.

(** * The statement with the monitor predicates *)
Lemma find_task_of_in ts t : StronglySorted tlt (map t_id ts) -> In t ts -> find_task ts (t_id t) = Some t.
Proof.
  induction ts as [|h r IH]; cbn [find_task map In]; intros Hs Hin0; [destruct Hin0|]. destruct Hin0 as [->|Hin].
  - rewrite (proj2 (tid_eqb_eq _ _) eq_refl). reflexivity.
  - inversion Hs as [|? ? Hs' Hall]; subst. destruct (tid_eqb (t_id t) (t_id h)) eqn:E; [|apply IH; assumption].
    exfalso. apply tid_eqb_eq in E. rewrite Forall_forall in Hall. apply (tlt_irrefl (t_id h)). apply Hall. rewrite <- E. apply in_map. exact Hin.
Qed.

Lemma find_redirect_in rs k v : In (k, v) rs -> exists v', find_redirect rs k = Some v'.
Proof.
  induction rs as [|[k0 v0] r IH]; cbn [find_redirect In]; [intros []|].
  intros [E|Hin]; [inversion E; subst; rewrite (proj2 (tid_eqb_eq _ _) eq_refl); eauto|].
  destruct (tid_eqb k k0); [eauto | apply IH; exact Hin].
Qed.

Lemma placed_bools q pl pr x : placed q pl pr x ->
  in_ready q x = (match pl with Ready => true | _ => false end) /\
  in_prefill q x = (match pl with Prefill => true | _ => false end).
Proof.
  intros H. destruct pl; cbn in H; destruct H as [A B]; split.
  - destruct (in_ready q x) eqn:E; [|reflexivity]. apply in_ready_iff in E. destruct E as (p & E). exfalso. exact (A _ E).
  - destruct (in_prefill q x) eqn:E; [|reflexivity]. apply in_prefill_iff in E. destruct E as (p & E). exfalso. exact (B _ E).
  - apply in_ready_iff. exists pr. apply A. reflexivity.
  - destruct (in_prefill q x) eqn:E; [|reflexivity]. apply in_prefill_iff in E. destruct E as (p & E). exfalso. exact (B _ E).
  - destruct (in_ready q x) eqn:E; [|reflexivity]. apply in_ready_iff in E. destruct E as (p & E). exfalso. exact (B _ E).
  - apply in_prefill_iff. exists pr. apply A. reflexivity.
Qed.

Definition queue_statement (c : core) : Prop :=
  queues_live_ok c = true /\
  (forall t, In t (c_tasks c) ->
     let q := queue_of c (t_rq t) in
     match t_state t with
     | Waiting n => in_ready q (t_id t) = N.eqb n 0 /\ in_prefill q (t_id t) = false
     | Prefilled _ => in_prefill q (t_id t) = true /\ in_ready q (t_id t) = false
     | Retracting _ => in_prefill q (t_id t) = false /\
                       (in_ready q (t_id t) = match find_redirect (c_redirects c) (t_id t) with Some _ => false | None => true end)
     | Assigned _ _ | Running _ _ | RunningMN _ => in_ready q (t_id t) = false /\ in_prefill q (t_id t) = false
     | Finished => False
     end) /\
  (forall rq q id, nth_error (c_queues c) rq = Some q -> (in_ready q id = true \/ in_prefill q id = true) ->
     exists t, find_task (c_tasks c) id = Some t /\ N.to_nat (t_rq t) = rq) /\
  (* structure *)
  length (c_queues c) = length (c_rqs c) /\ Forall WFQ (c_queues c) /\
  (forall t, In t (c_tasks c) -> (N.to_nat (t_rq t) < length (c_queues c))%nat) /\
  (forall t q p, In t (c_tasks c) -> nth_error (c_queues c) (N.to_nat (t_rq t)) = Some q ->
     (RdyAt q p (t_id t) \/ PfAt q p (t_id t)) -> p = t_prio t).

Lemma QInv_statement c : QInv c -> queue_statement c.
Proof.
  unfold QInv, QI. intros V. unfold queue_statement.
  assert (Hmem : forall i q x, nth_error (c_queues c) i = Some q -> (in_ready q x = true \/ in_prefill q x = true) -> member q x).
  { intros i q x Hq [H|H]; [apply in_ready_iff in H | apply in_prefill_iff in H]; destruct H as (p & H); exists p; auto. }
  split; [|split; [|split; [|split; [exact (qv_len _ _ _ _ _ _ V) | split; [exact (qv_wf _ _ _ _ _ _ V) | split]]]]].
  - unfold queues_live_ok. apply andb_true_iff. split.
    + apply forallb_forall. intros q Hq. apply In_nth_error in Hq. destruct Hq as (i & Hq). apply andb_true_iff. split.
      * apply forallb_forall. intros e He. apply forallb_forall. intros x Hx.
        destruct (qv_live _ _ _ _ _ _ V i q x Hq) as (t & Hf & _); [|rewrite Hf; reflexivity].
        exists (qe_prio e). left. exists e. auto.
      * destruct (q_prefill q) as [[pp ts]|] eqn:Ep; [|reflexivity]. apply forallb_forall. intros x Hx.
        destruct (qv_live _ _ _ _ _ _ V i q x Hq) as (t & Hf & _); [|rewrite Hf; reflexivity].
        exists pp. right. unfold PfAt. rewrite Ep. apply PAt_some. auto.
    + apply forallb_forall. intros [k v] Hr. cbn [fst]. destruct (find_redirect_in _ _ _ Hr) as (v' & Hv).
      destruct (qv_red _ _ _ _ _ _ V _ _ Hv) as (_ & t & w & Hf & Hw). rewrite Hf, Hw. reflexivity.
  - intros t Hin. pose proof (find_task_of_in _ _ (qv_ts _ _ _ _ _ _ V) Hin) as Hf.
    destruct (QV_queue _ _ _ _ _ _ _ _ V Hf) as (q & Hq & _ & Hp). unfold queue_of. rewrite Hq. cbv zeta.
    unfold exp_place, none in Hp. apply placed_bools in Hp. destruct Hp as [P1 P2].
    destruct (t_state t) as [n| | | | | |] eqn:Est; cbn [nat_place] in P1, P2.
    + rewrite P1, P2. destruct (N.eqb n 0); split; reflexivity.
    + rewrite P1, P2. split; reflexivity.
    + rewrite P1, P2. split; reflexivity.
    + rewrite P1, P2. destruct (find_redirect (c_redirects c) (t_id t)); split; reflexivity.
    + rewrite P1, P2. split; reflexivity.
    + rewrite P1, P2. split; reflexivity.
    + exact (qv_fin _ _ _ _ _ _ V _ _ Hf Est).
  - intros rq q id Hq Hor. eapply qv_live; [exact V | exact Hq | eapply Hmem; eassumption].
  - intros t Hin. eapply qv_rq; [exact V | apply find_task_of_in; [exact (qv_ts _ _ _ _ _ _ V) | exact Hin]].
  - intros t q p Hin Hq Hor. pose proof (find_task_of_in _ _ (qv_ts _ _ _ _ _ _ V) Hin) as Hf.
    pose proof (qv_task _ _ _ _ _ _ V _ _ _ Hf Hq) as Hp.
    destruct (exp_place none (c_redirects c) (t_id t) (t_state t)); cbn in Hp; destruct Hp as [A B]; destruct Hor as [M|M];
      try (exfalso; exact (A _ M)); try (exfalso; exact (B _ M)); apply A; exact M.
Qed.

(** The worker-set monitor implies the one fact about worker sets that is needed. *)
Lemma worker_sets_asg_ok c : forallb (worker_sets_ok c) (c_workers c) = true -> asg_ok c.
Proof.
  intros H wk a p f id t Hin Ha Hm Hf w Hst. rewrite forallb_forall in H. specialize (H _ Hin).
  unfold worker_sets_ok in H. rewrite Ha in H. apply andb_true_iff in H. destruct H as [H _].
  rewrite forallb_forall in H. apply tmem_in in Hm. specialize (H _ Hm). rewrite Hf, Hst in H. discriminate.
Qed.

(** C02 "no limbo" / base of C03, for EVERY history of the system model, under the hypothesis that
    along the history no id in a worker's assigned set is a Prefilled task ([asg_ok], a consequence of
    the worker-set invariant [worker_sets_ok]). *)
Theorem queue_invariant ops reserve maxfill s outs :
  Forall op_wf ops -> run (init_sys reserve maxfill) ops = Ok (s, outs) ->
  along (fun s => asg_ok (s_core s)) (init_sys reserve maxfill) ops ->
  let c := s_core s in
  queues_live_ok c = true /\
  (forall t, In t (c_tasks c) ->
     let q := queue_of c (t_rq t) in
     match t_state t with
     | Waiting n => in_ready q (t_id t) = N.eqb n 0 /\ in_prefill q (t_id t) = false
     | Prefilled _ => in_prefill q (t_id t) = true /\ in_ready q (t_id t) = false
     | Retracting _ => in_prefill q (t_id t) = false /\
                       (in_ready q (t_id t) = match find_redirect (c_redirects c) (t_id t) with Some _ => false | None => true end)
     | Assigned _ _ | Running _ _ | RunningMN _ => in_ready q (t_id t) = false /\ in_prefill q (t_id t) = false
     | Finished => False
     end) /\
  (forall rq q id, nth_error (c_queues c) rq = Some q -> (in_ready q id = true \/ in_prefill q id = true) ->
     exists t, find_task (c_tasks c) id = Some t /\ N.to_nat (t_rq t) = rq).
Proof.
  intros Hwf H Hal.
  assert (HC0 : CB (init_sys reserve maxfill, [])).
  { constructor; [constructor | intros id cs x [] | ]. intros x. split; [intros [] | intros (l & Hl & _); discriminate]. }
  assert (Hok0 : HOK (s_hq (init_sys reserve maxfill))) by (intros j []).
  assert (F0 : fresh (init_sys reserve maxfill, [])) by (intros j []).
  pose proof (run_QI _ _ _ _ Hok0 F0 Hwf HC0 (QInv_init reserve maxfill) Hal H) as V.
  destruct (QInv_statement _ V) as (A & B & C & _). cbv zeta. auto.
Qed.

(** The full statement (with the structural part of the invariant). *)
Theorem queue_invariant_full ops reserve maxfill s outs :
  Forall op_wf ops -> run (init_sys reserve maxfill) ops = Ok (s, outs) ->
  along (fun s => asg_ok (s_core s)) (init_sys reserve maxfill) ops ->
  QInv (s_core s) /\ queue_statement (s_core s).
Proof.
  intros Hwf H Hal.
  assert (HC0 : CB (init_sys reserve maxfill, [])).
  { constructor; [constructor | intros id cs x [] | ]. intros x. split; [intros [] | intros (l & Hl & _); discriminate]. }
  assert (Hok0 : HOK (s_hq (init_sys reserve maxfill))) by (intros j []).
  assert (F0 : fresh (init_sys reserve maxfill, [])) by (intros j []).
  pose proof (run_QI _ _ _ _ Hok0 F0 Hwf HC0 (QInv_init reserve maxfill) Hal H) as V.
  split; [exact V | apply QInv_statement; exact V].
Qed.

(** The same with the worker-set monitor as the hypothesis along the history. *)
Corollary queue_invariant_ws ops reserve maxfill s outs :
  Forall op_wf ops -> run (init_sys reserve maxfill) ops = Ok (s, outs) ->
  along (fun s => forallb (worker_sets_ok (s_core s)) (c_workers (s_core s)) = true) (init_sys reserve maxfill) ops ->
  queue_statement (s_core s).
Proof.
  intros Hwf H Hal. eapply queue_invariant_full; [exact Hwf | exact H|].
  eapply along_impl; [|exact Hal]. intros s0 Hs0. apply worker_sets_asg_ok. exact Hs0.
Qed.
