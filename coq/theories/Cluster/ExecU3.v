(** C06 "instance ids strictly increase", part 3: [TT] for the remaining reactor functions, the
    server side and the scheduling round. *)
From HQ Require Import Base.Prelude Cluster.Types Cluster.Core Cluster.Reactor Cluster.Worker Cluster.Server Cluster.Sys Cluster.ProofsJob Cluster.ProofsMore Cluster.ProofsStep Cluster.BijBase Cluster.BijCore Cluster.BijHq Cluster.BijSt Cluster.BijReact Cluster.InvWBase Cluster.InvWX1 Cluster.InvWX2 Cluster.NoPanicC4 Cluster.ExecU2.
From Coq Require Import ZArith Lia Sorting.Sorted.
Local Open Scope N_scope.

Arguments N.add : simpl never.
Arguments N.sub : simpl never.

Section Pass.
Variables T N : tid -> Prop.
Notation TT_refl := (TT_refl T N).
Notation TT_trans := (TT_trans T N).
Notation TT_tasks := (TT_tasks T N).
Notation retract_states_TT := (retract_states_TT T N).
Notation process_retracted_TT := (process_retracted_TT T N).
Notation try_remove_redirection_TT := (try_remove_redirection_TT T N).
Notation reset_mn_workers_TT := (reset_mn_workers_TT T N).
Notation reset_mn_all_TT := (reset_mn_all_TT T N).
Notation task_failed_TT := (task_failed_TT T N).
Notation task_finished_TT := (task_finished_TT T N).
Notation on_cancel_tasks_TT := (on_cancel_tasks_TT T N).

(** * task_running, task_reject, request_enabled, on_retract_response *)
Lemma task_running_TT s w id rv s' b : task_running s w id rv = Ok (s', b) -> TT T N (core_of s) (core_of s').
Proof.
  intros H. unfold task_running in H.
  destruct (find_task (c_tasks (core_of s)) id) as [t|] eqn:Eft; [|inversion H; subst; apply TT_refl].
  apply bind_ok in H. destruct H as (rq & ?X & H). apply bind_ok in H. destruct H as ([s1 ws] & H1 & H).
  apply bind_ok in H. destruct H as (s2 & H2 & H). inversion H; subst s' b.
  destruct (process_task_started_active _ _ _ _ _ _ H2) as [C2 _]. unfold core_same in C2. rewrite C2. clear H2 C2 H.
  destruct (t_state t) as [n|w1 rv1|w1|w1|w1 rv1|wsx|]; try discriminate.
  - destruct (negb (N.eqb w1 w)); [discriminate|]. destruct (negb (N.eqb rv1 rv)); [discriminate|]. inversion H1; subst s1 ws.
    tt_set.
  - destruct (negb (N.eqb w1 w)); [discriminate|]. inv_binds H1. inversion H1; subst s1 ws.
    tt_set.
  - destruct (negb (N.eqb w1 w)); [discriminate|].
    apply bind_ok in H1. destruct H1 as (c1 & Hc1 & H1). inv_binds H1. inversion H1; subst s1 ws.
    pose proof (try_remove_redirection_tasks _ _ _ Hc1) as Et1. cbn [c_tasks ask_scheduling core_of st_core with_core with_flag s_core fst] in Et1.
    eapply (TT_set T N _ _ (with_state t (Running w rv)) t); [cbn [c_tasks upd_worker upd_task with_workers with_tasks core_of st_core with_core s_core fst]; rewrite Et1; reflexivity
      | exact (find_in _ _ _ Eft) | reflexivity | cbn; lia | cbn; discriminate].
  - destruct wsx; [discriminate|]. destruct (N.eqb w0 w); [|discriminate]. inversion H1; subst s1 ws. apply TT_refl.
Qed.

Lemma requeue_TT s t c1 s' b : In t (c_tasks c1) -> T (t_id t) ->
  (do (qs, ret) <- add_ready_task (c_queues c1) (with_state t (Waiting 0));
   do s'' <- process_retracted (st_core s (with_queues (upd_task c1 (with_state t (Waiting 0))) qs)) ret;
   Ok (s'', true)) = Ok (s', b) -> TT T N c1 (core_of s').
Proof.
  intros Hin HT H. apply bind_ok in H. destruct H as ([qs ret] & ?X & H). apply bind_ok in H. destruct H as (s2 & Hr & H). inversion H; subst.
  eapply TT_trans; [|exact (process_retracted_TT _ _ _ Hr)].
  eapply (TT_set T N _ _ (with_state t (Waiting 0)) t); [reflexivity | exact Hin | reflexivity | cbn; lia | intros _ _; right; exact HT].
Qed.

Lemma task_reject_TT s w id rv s' b : T id -> task_reject s w id rv = Ok (s', b) -> TT T N (core_of s) (core_of s').
Proof.
  intros HT H. unfold task_reject in H. set (c := core_of s) in *.
  destruct (find_task (c_tasks c) id) as [t|] eqn:Eft; [|inversion H; subst; apply TT_refl].
  destruct (find_task_some _ _ _ Eft) as [Hin Hid]. rewrite <- Hid in HT.
  apply bind_ok in H. destruct H as (wk & ?X & H). cbv zeta in H.
  match type of H with context [upd_worker c ?k] => set (wk1 := k) in * end.
  apply bind_ok in H. destruct H as (rq & ?X & H).
  destruct (t_state t) as [n|w1 rv1|w1|w1|w1 rv1|wsx|];
    try (apply bind_ok in H; destruct H as (r0 & Hr0 & _); discriminate).
  - apply bind_ok in H. destruct H as ([c1 cont] & Hr & H).
    assert (Et1 : c_tasks c1 = c_tasks c).
    { destruct (negb (N.eqb w w1)); [inversion Hr; subst; reflexivity|].
      destruct rv as [v|]; [|inversion Hr; subst; reflexivity].
      destruct (N.eqb v rv1); [|inversion Hr; subst; reflexivity].
      inv_binds Hr. inversion Hr; subst. reflexivity. }
    eapply TT_trans; [apply (TT_tasks c c1 Et1)|]. eapply requeue_TT; [rewrite Et1; exact Hin | exact HT | exact H].
  - apply bind_ok in H. destruct H as ([c1 cont] & Hr & H).
    assert (Et1 : c_tasks c1 = c_tasks c) by (inv_binds Hr; inversion Hr; subst; reflexivity).
    eapply TT_trans; [apply (TT_tasks c c1 Et1)|]. eapply requeue_TT; [rewrite Et1; exact Hin | exact HT | exact H].
  - apply bind_ok in H. destruct H as ([c1 cont] & Hr & H).
    assert (E1 : c1 = upd_worker c wk1) by (destruct (negb (N.eqb w w1)); inversion Hr; reflexivity). subst c1.
    eapply TT_trans; [apply (TT_tasks c (upd_worker c wk1) eq_refl)|].
    destruct cont.
    + destruct (find_redirect (c_redirects (upd_worker c wk1)) id) as [[target rvt]|].
      * apply bind_ok in H. destruct H as (s1 & Hs1 & H). inversion H; subst s' b.
        rewrite (send_worker_core _ _ _ _ Hs1).
        eapply (TT_set T N _ _ (with_state t (Assigned target rvt)) t); [reflexivity | exact Hin | reflexivity | cbn; lia | cbn; discriminate].
      * eapply requeue_TT; [exact Hin | exact HT | exact H].
    + inversion H; subst. apply TT_refl.
Qed.

Lemma request_enabled_TT s w rq rv s' : request_enabled s w rq rv = Ok s' -> TT T N (core_of s) (core_of s').
Proof.
  intros H. unfold request_enabled in H. apply bind_ok in H. destruct H as (wk & ?X & H). inversion H; subst s'.
  apply TT_tasks; reflexivity.
Qed.

Lemma apply_updates_TT us : (forall x rv, In (UReject x rv) us -> T x) -> forall s w need s' need', apply_updates s w us need = Ok (s', need') -> TT T N (core_of s) (core_of s').
Proof.
  induction us as [|u r IH]; cbn [apply_updates]; intros HT s w need s' need' H; [inversion H; subst; apply TT_refl|].
  apply bind_ok in H. destruct H as ([s1 n1] & Hu & H).
  eapply TT_trans; [|eapply IH; [intros x rv0 Hx; eapply HT; right; exact Hx | exact H]].
  destruct u.
  - eapply task_finished_TT; exact Hu.
  - apply bind_ok in Hu. destruct Hu as (sx & Hf & Hu). inversion Hu; subst. eapply task_failed_TT; exact Hf.
  - eapply task_running_TT; exact Hu.
  - eapply task_running_TT; exact Hu.
  - eapply task_reject_TT; [eapply HT; left; reflexivity | exact Hu].
  - apply bind_ok in Hu. destruct Hu as (sx & Hf & Hu). inversion Hu; subst. eapply request_enabled_TT; exact Hf.
Qed.

Lemma on_task_update_TT s w us s' : (forall x rv, In (UReject x rv) us -> T x) -> on_task_update s w us = Ok s' -> TT T N (core_of s) (core_of s').
Proof.
  intros HT H. unfold on_task_update in H. apply bind_ok in H. destruct H as ([s1 need] & Hu & H).
  pose proof (apply_updates_TT _ HT _ _ _ _ _ Hu) as R1.
  destruct (need && _); inversion H; subst; [|exact R1].
  eapply TT_trans; [exact R1|]. apply TT_tasks; reflexivity.
Qed.

Lemma retract_response_states_TT ids : (forall x, In x ids -> T x) -> forall c w acc c' acc', retract_response_states c w ids acc = (c', acc') -> TT T N c c'.
Proof.
  induction ids as [|id r IH]; cbn [retract_response_states]; intros HT c w acc c' acc' H; [inversion H; subst; apply TT_refl|].
  assert (HT' : forall x, In x r -> T x) by (intros x Hx; apply HT; right; exact Hx).
  destruct (find_task (c_tasks c) id) as [t|] eqn:Eft; [|eapply IH; [exact HT' | exact H]].
  destruct (find_task_some _ _ _ Eft) as [Hin Hid].
  destruct (t_state t); try (eapply IH; [exact HT' | exact H]).
  destruct (N.eqb w w0); [|eapply IH; [exact HT' | exact H]].
  destruct (find_redirect (c_redirects c) id) as [[target rv]|].
  - eapply TT_trans; [|eapply IH; [exact HT' | exact H]]. tt_set.
  - eapply TT_trans; [|eapply IH; [exact HT' | exact H]].
    eapply (TT_set T N _ _ (with_state t (Waiting 0)) t); [reflexivity | exact Hin | reflexivity | cbn; lia | intros _ _; right; cbn; rewrite Hid; apply HT; left; reflexivity].
Qed.

Lemma on_retract_response_TT s w ids s' : (forall x, In x ids -> T x) -> on_retract_response s w ids = Ok s' -> TT T N (core_of s) (core_of s').
Proof.
  unfold on_retract_response. intros HT H. destruct (retract_response_states _ w ids []) as [c' groups] eqn:E.
  apply bind_ok in H. destruct H as (s2 & H & H2).
  assert (X2 : TT T N (core_of s) (core_of s2)).
  { rewrite (send_redirected_core _ _ _ H). eapply retract_response_states_TT; [exact HT | exact E]. }
  destruct (retract_wakes _ _ _ _); inversion H2; subst s'; clear H2; [|exact X2].
  eapply TT_trans; [exact X2 | apply TT_tasks; reflexivity].
Qed.

(** * Server: new worker, new tasks *)
Lemma on_new_worker_TT s rs g s' : on_new_worker s rs g = Ok s' -> TT T N (core_of s) (core_of s').
Proof. intros H. unfold on_new_worker in H. inversion H; subst s'. apply TT_tasks; reflexivity. Qed.

Lemma register_deps_TT deps : forall c id kept count c' kept' count', register_deps c id deps kept count = (c', kept', count') -> TT T N c c'.
Proof.
  induction deps as [|d r IH]; cbn [register_deps]; intros c id kept count c' kept' count' H; [inversion H; subst; apply TT_refl|].
  destruct (find_task (c_tasks c) d) as [dep|] eqn:Ef; [|eapply IH; exact H].
  eapply TT_trans; [|eapply IH; exact H].
  tt_set.
Qed.

Lemma add_new_tasks_TT c0 ts : (forall x, find_task (c_tasks c0) x = None -> N x) ->
  forall c ret c' ret', (forall x, find_task (c_tasks c0) x <> None -> find_task (c_tasks c) x <> None) ->
  add_new_tasks c ts ret = Ok (c', ret') -> TT T N c c'.
Proof.
  intros HN. induction ts as [|t r IH]; cbn [add_new_tasks]; intros c ret c' ret' Hdom H; [inversion H; subst; apply TT_refl|].
  destruct (register_deps c (t_id t) (t_deps t) [] 0) as [[c1 kept] count] eqn:Er.
  pose proof (register_deps_TT _ _ _ _ _ _ _ _ Er) as R1.
  destruct (NoPanicC4.register_deps_frame _ _ _ _ _ _ _ _ Er) as (_ & _ & _ & Est).
  apply bind_ok in H. destruct H as ([c2 rt] & H2 & H).
  assert (E2 : c_tasks c2 = c_tasks c1).
  { destruct (N.eqb count 0); [|inversion H2; subst; reflexivity].
    apply bind_ok in H2. destruct H2 as ([qs rt'] & ?X & H2). inversion H2; subst. reflexivity. }
  destruct (find_task (c_tasks c2) (t_id t)) eqn:Ef2; [discriminate|].
  assert (Hdom2 : forall x, find_task (c_tasks c0) x <> None -> find_task (c_tasks c2) x <> None).
  { intros x Hx. rewrite E2. intros E. apply (NoPanicC4.state_none _ _ (Est x)) in E. exact (Hdom x Hx E). }
  eapply TT_trans; [exact R1|]. eapply TT_trans; [apply (TT_tasks c1 c2 E2)|]. eapply TT_trans; [|eapply IH; [|exact H]].
  - eapply (TT_new T N _ _ (with_state (with_deps t kept) (Waiting count))); [reflexivity|]. cbn [t_id with_state with_deps]. apply HN.
    destruct (find_task (c_tasks c0) (t_id t)) eqn:E0; [|reflexivity]. exfalso. apply (Hdom2 (t_id t)); [congruence | exact Ef2].
  - intros x Hx. cbn [c_tasks upd_task with_tasks]. rewrite find_set_task. destruct (tid_eqb x _); [discriminate | apply Hdom2; exact Hx].
Qed.

Lemma on_new_tasks_TT s ts s' : (forall x, find_task (c_tasks (core_of s)) x = None -> N x) -> on_new_tasks s ts = Ok s' -> TT T N (core_of s) (core_of s').
Proof.
  intros HN H. unfold on_new_tasks in H. destruct ts as [|t0 tr] eqn:Et; [inversion H; subst; apply TT_refl|]. rewrite <- Et in *. clear Et.
  apply bind_ok in H. destruct H as ([c' retracted] & Ha & H). apply bind_ok in H. destruct H as (s1 & Hr & H). inversion H; subst s'.
  eapply TT_trans; [eapply (add_new_tasks_TT (core_of s)); [exact HN | intros x Hx; exact Hx | exact Ha]|].
  eapply TT_trans; [exact (process_retracted_TT (st_core s c') _ _ Hr)|]. apply TT_tasks; reflexivity.
Qed.

(** * Server: the pieces of on_remove_worker that keep all workers *)
Lemma lost_prefilled_TT l : forall c c', lost_prefilled c l = Ok c' -> TT T N c c'.
Proof.
  induction l as [|id r IH]; cbn [lost_prefilled]; intros c c' H; [inversion H; subst; apply TT_refl|].
  apply bind_ok in H. destruct H as (t & ?X & H). apply bind_ok in H. destruct H as (q & ?X & H). apply bind_ok in H. destruct H as (q' & ?X & H).
  eapply TT_trans; [|eapply IH; exact H].
  tt_set.
Qed.

Lemma lost_assigned_TT l : forall c running ret c' running' ret', lost_assigned c l running ret = Ok (c', running', ret') -> TT T N c c'.
Proof.
  induction l as [|id r IH]; cbn [lost_assigned]; intros c running ret c' running' ret' H; [inversion H; subst; apply TT_refl|].
  apply bind_ok in H. destruct H as (t & Ht & H). apply get_task_find in Ht.
  apply bind_ok in H. destruct H as ([[c1 t1] running1] & Hr1 & H).
  apply bind_ok in H. destruct H as ([qs rt] & ?X & H).
  eapply TT_trans; [|eapply IH; exact H].
  assert (E1 : c_tasks c1 = c_tasks c /\ c_workers c1 = c_workers c /\ (t1 = t \/ t1 = with_state t (Waiting 0))).
  { destruct (t_state t); try (inversion Hr1; subst; auto; fail).
    destruct (find_redirect _ id); inversion Hr1; subst; auto. }
  destruct E1 as (Et & Ew & [-> | ->]).
  - eapply (TT_set T N c _ (with_inst t (t_inst t + 1)) t); [cbn [c_tasks upd_task with_tasks with_queues]; rewrite Et; reflexivity
      | exact (find_in _ _ _ Ht) | reflexivity | cbn; lia | cbn; intros E; lia].
  - eapply (TT_set T N c _ (with_inst (with_state t (Waiting 0)) (t_inst (with_state t (Waiting 0)) + 1)) t); [cbn [c_tasks upd_task with_tasks with_queues]; rewrite Et; reflexivity
      | exact (find_in _ _ _ Ht) | reflexivity | cbn; lia | cbn; intros E; lia].
Qed.

Lemma lost_fail_running_TT l : forall s reason s', lost_fail_running s reason l = Ok s' -> TT T N (core_of s) (core_of s').
Proof.
  induction l as [|id r IH]; cbn [lost_fail_running]; intros s reason s' H; [inversion H; subst; apply TT_refl|].
  destruct (find_task (c_tasks (core_of s)) id) as [t|] eqn:Ef; [|eapply IH; exact H].
  assert (Hc : forall t' limit, increment_crash_counter t = (t', limit) -> TT T N (core_of s) (core_of (st_core s (upd_task (core_of s) t')))).
  { intros t' limit Ei. unfold increment_crash_counter in Ei. inversion Ei; subst.
    tt_set. }
  destruct (t_climit t).
  - apply bind_ok in H. destruct H as (s1 & Hf & H). eapply TT_trans; [eapply task_failed_TT; exact Hf | eapply IH; exact H].
  - destruct (reason_is_failure reason); [|eapply IH; exact H].
    destruct (increment_crash_counter t) as [t' limit] eqn:Ei. specialize (Hc t' limit eq_refl). destruct limit.
    + apply bind_ok in H. destruct H as (s1 & Hf & H).
      eapply TT_trans; [exact Hc|]. eapply TT_trans; [eapply task_failed_TT; exact Hf | eapply IH; exact H].
    + eapply TT_trans; [exact Hc | eapply IH; exact H].
  - destruct (reason_is_failure reason); [|eapply IH; exact H].
    destruct (increment_crash_counter t) as [t' limit] eqn:Ei. specialize (Hc t' limit eq_refl). destruct limit.
    + apply bind_ok in H. destruct H as (s1 & Hf & H).
      eapply TT_trans; [exact Hc|]. eapply TT_trans; [eapply task_failed_TT; exact Hf | eapply IH; exact H].
    + eapply TT_trans; [exact Hc | eapply IH; exact H].
Qed.

(** * Scheduling *)
Lemma map_one_TT c m id w v rqres c' m' : map_one c m id w v rqres = Ok (c', m') -> TT T N c c'.
Proof.
  intros H. unfold map_one in H.
  apply bind_ok in H. destruct H as (wk & ?X & H). apply bind_ok in H. destruct H as (wk' & ?X & H).
  apply bind_ok in H. destruct H as (t & ?X & H).
  destruct (t_state t) as [n|w1 rv1|old|old|w1 rv1|wsx|]; try discriminate.
  - inversion H; subst. tt_set.
  - destruct (find_worker (c_workers (upd_worker c wk')) old) as [wo|] eqn:Hwo; [|discriminate].
    apply bind_ok in H. destruct H as (wo' & ?X & H).
    destruct (find_redirect _ id); [discriminate|]. inversion H; subst.
    tt_set.
  - destruct (find_redirect _ id) as [[ot vo]|].
    + inv_binds H. inversion H; subst. apply TT_tasks; reflexivity.
    + inversion H; subst. apply TT_tasks; reflexivity.
Qed.

Lemma rr_pass_TT counts : forall c m tasks v rqres c' m' counts' rest,
  rr_pass c m counts tasks v rqres = Ok (c', m', counts', rest) -> TT T N c c'.
Proof.
  induction counts as [|[w n] r IH]; intros c m tasks v rqres c' m' counts' rest H.
  - destruct tasks; cbn [rr_pass] in H; inversion H; subst; apply TT_refl.
  - destruct tasks as [|id tl]; cbn [rr_pass] in H; [inversion H; subst; apply TT_refl|].
    destruct (N.ltb 0 n).
    + apply bind_ok in H. destruct H as ([c1 m1] & H1 & H).
      apply bind_ok in H. destruct H as ([[[c2 m2] r'] tl'] & H2 & H). inversion H; subst.
      eapply TT_trans; [eapply map_one_TT; exact H1 | eapply IH; exact H2].
    + apply bind_ok in H. destruct H as ([[[c2 m2] r'] tl'] & H2 & H). inversion H; subst. eapply IH; exact H2.
Qed.

Lemma rr_loop_TT fuel : forall c m counts tasks v rqres c' m', rr_loop fuel c m counts tasks v rqres = Ok (c', m') -> TT T N c c'.
Proof.
  induction fuel as [|k IH]; intros c m counts tasks v rqres c' m' H; destruct tasks as [|id tl]; cbn [rr_loop] in H;
    try (inversion H; subst; apply TT_refl); try discriminate.
  apply bind_ok in H. destruct H as ([[[c1 m1] counts1] rest] & H1 & H).
  eapply TT_trans; [eapply rr_pass_TT; exact H1 | eapply IH; exact H].
Qed.

Lemma map_sn_TT sol l : forall c m c' m', map_sn c m sol l = Ok (c', m') -> TT T N c c'.
Proof.
  induction l as [|[[rq v] counts] r IH]; cbn [map_sn]; intros c m c' m' H; [inversion H; subst; apply TT_refl|].
  apply bind_ok in H. destruct H as (rqd & ?X & H). apply bind_ok in H. destruct H as (q & ?X & H).
  apply bind_ok in H. destruct H as ([tasks q'] & ?X & H). apply bind_ok in H. destruct H as ([c2 m2] & H2 & H).
  eapply TT_trans; [|eapply IH; exact H]. eapply TT_trans; [|eapply rr_loop_TT; exact H2]. apply TT_tasks; reflexivity.
Qed.

Lemma set_mn_workers_TT l : forall c id first c', set_mn_workers c id l first = Ok c' -> TT T N c c'.
Proof.
  induction l as [|w r IH]; cbn [set_mn_workers]; intros c id first c' H; [inversion H; subst; apply TT_refl|].
  apply bind_ok in H. destruct H as (wk & ?X & H). apply bind_ok in H. destruct H as (wk' & ?X & H).
  eapply TT_trans; [|eapply IH; exact H]. apply TT_tasks; reflexivity.
Qed.

Lemma map_mn_sets_TT sets : forall c rq mn c' mn', map_mn_sets c rq mn sets = Ok (c', mn') -> TT T N c c'.
Proof.
  induction sets as [|ws r IH]; cbn [map_mn_sets]; intros c rq mn c' mn' H; [inversion H; subst; apply TT_refl|].
  apply bind_ok in H. destruct H as (q & ?X & H). destruct (q_take_one q) as [[id q']|]; [|discriminate].
  apply bind_ok in H. destruct H as (c2 & H2 & H). apply bind_ok in H. destruct H as (t & Ht & H). apply get_task_find in Ht.
  destruct (t_state t) as [n| | | | | |]; try discriminate. destruct n; [|discriminate].
  eapply TT_trans; [|eapply IH; exact H].
  eapply TT_trans; [apply (TT_tasks c (with_queues c (set_queue (c_queues c) (N.to_nat rq) q'))); reflexivity|].
  eapply TT_trans; [eapply set_mn_workers_TT; exact H2|].
  tt_set.
Qed.

Lemma map_mn_TT l : forall c mn c' mn', map_mn c mn l = Ok (c', mn') -> TT T N c c'.
Proof.
  induction l as [|[[rq v] sets] r IH]; cbn [map_mn]; intros c mn c' mn' H; [inversion H; subst; apply TT_refl|].
  apply bind_ok in H. destruct H as ([c1 mn1] & H1 & H).
  eapply TT_trans; [eapply map_mn_sets_TT; exact H1 | eapply IH; exact H].
Qed.

Lemma prefill_mark_TT l : forall c w c', prefill_mark c w l = Ok c' -> TT T N c c'.
Proof.
  induction l as [|id r IH]; cbn [prefill_mark]; intros c w c' H; [inversion H; subst; apply TT_refl|].
  apply bind_ok in H. destruct H as (t & ?X & H). destruct (negb (is_waiting t)); [discriminate|].
  apply bind_ok in H. destruct H as (wk & ?X & H). apply bind_ok in H. destruct H as (wk' & ?X & H).
  eapply TT_trans; [|eapply IH; exact H].
  tt_set.
Qed.

Lemma prefill_workers_TT ws : forall c m qi psize c' m', prefill_workers c m qi psize ws = Ok (c', m') -> TT T N c c'.
Proof.
  induction ws as [|w r IH]; cbn [prefill_workers]; intros c m qi psize c' m' H; [inversion H; subst; apply TT_refl|].
  apply bind_ok in H. destruct H as (q & ?X & H). apply bind_ok in H. destruct H as ([ids q'] & ?X & H).
  apply bind_ok in H. destruct H as (c2 & H2 & H).
  eapply TT_trans; [|eapply IH; exact H]. eapply TT_trans; [|eapply prefill_mark_TT; exact H2]. apply TT_tasks; reflexivity.
Qed.

Lemma prefill_queues_TT n : forall c m worder qi top c' m', prefill_queues c m worder qi n top = Ok (c', m') -> TT T N c c'.
Proof.
  induction n as [|k IH]; cbn [prefill_queues]; intros c m worder qi top c' m' H; [inversion H; subst; apply TT_refl|].
  apply bind_ok in H. destruct H as (q & ?X & H).
  destruct (q_top_priority q) as [tp|]; [|eapply IH; exact H].
  destruct (negb (Z.eqb tp top)); [eapply IH; exact H|].
  destruct (N.eqb _ 0); [eapply IH; exact H|].
  destruct (existsb _ (q_top_task_ids q)).
  - destruct (forallb _ (q_top_task_ids q)); [eapply IH; exact H | discriminate].
  - match type of H with match ?ws with [] => _ | _ => _ end = _ => destruct ws eqn:Ews end; [eapply IH; exact H|].
    destruct (N.eqb _ 0); [eapply IH; exact H|].
    apply bind_ok in H. destruct H as ([c1 m1] & H1 & H).
    eapply TT_trans; [eapply prefill_workers_TT; exact H1 | eapply IH; exact H].
Qed.


Lemma run_scheduling_TT s sol s' : run_scheduling s sol = Ok s' -> TT T N (core_of s) (core_of s').
Proof.
  unfold run_scheduling. intros H. destruct (negb (perm_of_set _ _)); [discriminate|].
  apply bind_ok in H. destruct H as ([c1 m1] & H1 & H).
  apply bind_ok in H. destruct H as ([c2 mn] & H2 & H).
  apply bind_ok in H. destruct H as ([c3 m3] & H3 & H).
  apply bind_ok in H. destruct H as (s1 & H4 & H).
  apply bind_ok in H. destruct H as (s2 & H5 & H). inversion H; subst s'.
  assert (R3 : TT T N c2 c3).
  { destruct (queues_top_priority (c_queues c2)); [|inversion H3; subst; apply TT_refl]. eapply prefill_queues_TT; exact H3. }
  assert (Ec : core_of s2 = c3) by (rewrite (send_mn_core _ _ _ H5), (send_mapping_core _ _ _ H4); reflexivity).
  eapply TT_trans; [eapply map_sn_TT; exact H1|]. eapply TT_trans; [eapply map_mn_TT; exact H2|]. eapply TT_trans; [exact R3|].
  apply TT_tasks. cbn. rewrite Ec. reflexivity.
Qed.

End Pass.
