(** MNE / RWA / MND, part 3: worker loss, client requests, [Sys.step], every history. *)
From HQ Require Import Base.Prelude Cluster.Types Cluster.Core Cluster.Reactor Cluster.Worker Cluster.Server Cluster.Sys Cluster.Monitors Cluster.RejHyp Cluster.ProofsJob Cluster.ProofsMore Cluster.ProofsTerminal Cluster.ProofsStep Cluster.ProofsFinal Cluster.BijBase Cluster.BijCore Cluster.BijHq Cluster.BijSt Cluster.BijReact Cluster.BijFinal Cluster.InvWBase Cluster.InvWX1 Cluster.InvWX2.
From Coq Require Import ZArith Lia Sorting.Sorted.
Local Open Scope N_scope.

Arguments N.add : simpl never.
Arguments N.sub : simpl never.

Ltac dm := first [apply Dm_eq; reflexivity | eapply Dm_set1; reflexivity | eapply Dm_set2; reflexivity].

(** * Worker loss *)
Definition Jx (w : wid) (c : core) : Prop := forall t, In t (c_tasks c) -> okst c (t_state t) \/ t_state t = Retracting w.

Lemma find_del_worker_other ws w w1 : N.eqb w1 w = false -> find_worker (del_worker ws w) w1 = find_worker ws w1.
Proof.
  intros E. induction ws as [|h r IH]; cbn [del_worker find_worker]; [reflexivity|].
  destruct (N.eqb w (w_id h)) eqn:E1.
  - apply N.eqb_eq in E1. subst w. rewrite E. reflexivity.
  - cbn [find_worker]. rewrite IH. reflexivity.
Qed.

Lemma Jx_del c w : J c -> Jx w (with_workers c (del_worker (c_workers c) w)).
Proof.
  intros HJ t Hin. specialize (HJ t Hin). cbn [c_tasks with_workers] in Hin.
  destruct (t_state t) as [n|w1 rv|w1|w1|w1 rv|ws|]; cbn in *; auto.
  destruct (N.eqb w1 w) eqn:E; [apply N.eqb_eq in E; subst; auto|]. left. rewrite find_del_worker_other by exact E. exact HJ.
Qed.

Lemma Jx_R w c c' : Jx w c -> R c c' -> Jx w c'.
Proof.
  intros HJ [T D] t Hin. destruct (T t Hin) as [(t0 & H0 & _ & Es)|[X|[[] _]]]; [|left; exact X].
  rewrite <- Es. destruct (HJ t0 H0) as [X|X]; [left; eapply okst_Dm; eassumption | right; exact X].
Qed.

Lemma set_task_in_same ts x t : StronglySorted tlt (map t_id ts) -> In t (set_task ts x) -> t_id t = t_id x -> t = x.
Proof.
  induction ts as [|h r IH]; cbn [set_task map]; intros Hs Hin Ei; [destruct Hin as [H|[]]; auto|].
  inversion Hs as [|? ? Hs' Hall]; subst. rewrite Forall_forall in Hall.
  destruct (tid_eqb (t_id x) (t_id h)) eqn:E.
  - apply tid_eqb_eq in E. destruct Hin as [H|H]; [auto|]. exfalso.
    specialize (Hall _ (in_map t_id _ _ H)). rewrite Ei, E in Hall. exact (tlt_irrefl _ Hall).
  - destruct (tid_ltb (t_id x) (t_id h)) eqn:L.
    + destruct Hin as [H|[H|H]]; [auto | |]; exfalso.
      * subst t. rewrite Ei in L. exact (tlt_irrefl _ L).
      * specialize (Hall _ (in_map t_id _ _ H)). rewrite Ei in Hall. exact (tlt_irrefl _ (tlt_trans _ _ _ L Hall)).
    + destruct Hin as [H|H]; [|apply IH; assumption]. exfalso. subst t. rewrite Ei, tid_eqb_refl' in E. discriminate.
Qed.

Lemma lost_retracting_J w l : forall s s',
  CS (core_of s) -> Jx w (core_of s) ->
  (forall t, In t (c_tasks (core_of s)) -> t_state t = Retracting w -> In (t_id t) l) ->
  lost_retracting s w l = Ok s' -> J (core_of s').
Proof.
  induction l as [|id r IH]; cbn [lost_retracting]; intros s s' Hs HJ Hall H.
  - inversion H; subst. intros t Hin. destruct (HJ t Hin) as [X|X]; [exact X|]. destruct (Hall t Hin X).
  - apply bind_ok in H. destruct H as (t & Ht & H). apply get_task_find in Ht.
    destruct (find_task_some _ _ _ Ht) as [Htin Hid].
    assert (Hskip : t_state t <> Retracting w -> lost_retracting s w r = Ok s' -> J (core_of s')).
    { intros Hne Hl. eapply IH; [exact Hs | exact HJ | | exact Hl].
      intros t' Hin' Est'. destruct (Hall t' Hin' Est') as [E|E]; [|exact E]. exfalso.
      pose proof (in_find_task _ _ (CS_sorted _ Hs) Hin') as Hf. rewrite <- E, Ht in Hf. inversion Hf; subst. contradiction. }
    destruct (t_state t) as [n|w1 rv1|w1|w1|w1 rv1|wsx|] eqn:Est; try (apply Hskip; [discriminate | exact H]).
    destruct (N.eqb w w1) eqn:Ew; [|apply Hskip; [intros X; inversion X; subst; rewrite N.eqb_refl in Ew; discriminate | exact H]].
    cbv zeta in H.
    assert (Hgen : forall c' x s1, core_of s1 = c' -> c_tasks c' = set_task (c_tasks (core_of s)) x -> c_workers c' = c_workers (core_of s) ->
              keys c' = keys (core_of s) -> t_id x = id -> okst (core_of s) (t_state x) -> (forall w2, t_state x <> Retracting w2) ->
              lost_retracting s1 w r = Ok s' -> J (core_of s')).
    { intros c' x s1 Ec Et Ewk Ek Ex Ho Hnr Hl. eapply IH; [| | | exact Hl]; rewrite Ec.
      - eapply CS_keys; [exact Ek | exact Hs].
      - eapply Jx_R; [exact HJ|]. eapply (R_set_ok _ _ x); [exact Et | apply Dm_eq; exact Ewk | exact Ho].
      - intros t' Hin' Est'. rewrite Et in Hin'. destruct (set_task_in _ _ _ Hin') as [->|Hin2]; [exfalso; exact (Hnr _ Est')|].
        destruct (Hall t' Hin2 Est') as [E|E]; [|exact E]. exfalso.
        assert (t' = x) by (eapply set_task_in_same; [apply CS_sorted; exact Hs | exact Hin' | rewrite Ex; symmetry; exact E]).
        subst t'. exact (Hnr _ Est'). }
    destruct (find_redirect (c_redirects (core_of s)) id) as [[target rv]|] eqn:Er.
    + apply bind_ok in H. destruct H as (s1 & Hs1 & H).
      eapply (Hgen _ (with_state (with_inst t (t_inst t + 1)) (Assigned target rv)) s1); [exact (send_worker_core _ _ _ _ Hs1) | reflexivity | reflexivity | | exact Hid | exact I | discriminate | exact H].
      apply (upd_task_frame (with_redirects (core_of s) (del_redirect (c_redirects (core_of s)) id)) id t); [exact Hs | exact Ht | reflexivity | reflexivity].
    + eapply (Hgen _ (with_state (with_inst t (t_inst t + 1)) (Waiting 0)) (st_core s (upd_task (core_of s) (with_state (with_inst t (t_inst t + 1)) (Waiting 0))))); [reflexivity | reflexivity | reflexivity | | exact Hid | exact I | discriminate | exact H].
      apply (upd_task_frame (core_of s) id t); [exact Hs | exact Ht | reflexivity | reflexivity].
Qed.

Lemma on_remove_worker_J s w reason a p t s' :
  CB s -> J (core_of s) -> on_remove_worker s w reason a p t = Ok s' -> J (core_of s').
Proof.
  intros HC HJ H. unfold on_remove_worker in H.
  destruct (find_worker (c_workers (core_of s)) w) as [wk|] eqn:Hw; [|discriminate].
  apply bind_ok in H. destruct H as ([[c2 running] retracted] & Hr & H).
  set (c := core_of s) in *.
  set (c0 := with_workers c (del_worker (c_workers c) w)) in *.
  assert (Hs0 : CS c0) by exact (cb_s _ HC).
  assert (A2 : R c0 c2 /\ keys c2 = K s).
  { destruct (w_assign wk) as [sa sp sf|mt root] eqn:Ea.
    - destruct (negb _); [discriminate|]. apply bind_ok in Hr. destruct Hr as (c1 & Hp & Hr). split.
      + eapply R_trans; [eapply lost_prefilled_R; exact Hp | eapply lost_assigned_R; exact Hr].
      + pose proof (lost_prefilled_frame _ _ _ Hs0 Hp) as E1.
        rewrite (lost_assigned_frame _ _ _ _ _ _ _ (CS_keys _ _ E1 Hs0) Hr). exact E1.
    - apply bind_ok in Hr. destruct Hr as (tk & Ht & Hr). apply get_task_find in Ht.
      destruct (find_task_some _ _ _ Ht) as [Htin Hid].
      destruct (t_state tk) as [n|w1 rv1|w1|w1|w1 rv1|ws|] eqn:Est; try discriminate. destruct ws as [|w0 rest] eqn:Ews; [discriminate|].
      destruct (N.eqb w w0) eqn:Ew0.
      + apply bind_ok in Hr. destruct Hr as (c1 & Hc1 & Hr). apply bind_ok in Hr. destruct Hr as ([qs ret] & _ & Hr).
        inversion Hr; subst c2 running retracted. split.
        * eapply R_trans; [eapply reset_mn_all_R; exact Hc1|].
          eapply (R_set_ok _ _ (with_inst (with_state tk (Waiting 0)) (t_inst tk + 1))); [reflexivity | dm | exact I].
        * pose proof (reset_mn_all_frame _ _ _ Hc1) as E1.
          pose proof (reset_mn_all_tasks _ _ _ Hc1) as T1.
          change (keys (upd_task c1 (with_inst (with_state tk (Waiting 0)) (t_inst tk + 1))) = K s).
          transitivity (keys c1); [|exact E1].
          apply (upd_task_frame c1 mt tk); [eapply CS_keys; [exact E1 | exact Hs0] | rewrite T1; exact Ht | reflexivity | reflexivity].
      + inversion Hr; subst c2 running retracted. split.
        * pose proof (HJ tk Htin) as Hok. rewrite Est in Hok. cbn in Hok. destruct Hok as [_ Hnd].
          eapply (R_set_ok _ _ (with_state tk (RunningMN (filter (fun x => negb (N.eqb x w)) (w0 :: rest))))); [reflexivity | dm |].
          cbn [okst t_state with_state]. split; [|apply NoDup_filter; exact Hnd].
          cbn [filter]. rewrite N.eqb_sym, Ew0. cbn [negb]. discriminate.
        * apply (upd_task_frame c0 mt tk); [exact Hs0 | exact Ht | reflexivity | reflexivity]. }
  destruct A2 as [R2 E2].
  destruct (negb (perm_of_set t _)) eqn:Ep; [discriminate|]. apply negb_false_iff in Ep.
  apply bind_ok in H. destruct H as (s3 & H3 & H). apply bind_ok in H. destruct H as (s4 & H4 & H).
  apply bind_ok in H. destruct H as (s6 & H6 & H). apply bind_ok in H. destruct H as (s7 & H7 & H). inversion H; subst s'.
  assert (Hs2 : CS c2) by (eapply CS_keys; [exact E2 | exact (cb_s _ HC)]).
  assert (J3 : J (core_of s3)).
  { eapply (lost_retracting_J w t); [| | | exact H3].
    - exact Hs2.
    - eapply Jx_R; [apply Jx_del; exact HJ | exact R2].
    - intros t' Hin' _. unfold perm_of_set in Ep. apply andb_true_iff in Ep. destruct Ep as [_ Ep]. rewrite forallb_forall in Ep.
      apply tid_mem_true_in. apply Ep. apply in_map. exact Hin'. }
  destruct (process_worker_lost_active _ _ _ _ _ H6) as [C6 _]. unfold core_same in C6.
  eapply J_R; [exact J3|].
  eapply R_trans; [eapply process_retracted_R; exact H4|].
  eapply R_trans; [|eapply R_trans; [eapply lost_fail_running_R; exact H7 | apply R_tasks; [reflexivity | dm]]].
  rewrite C6. apply Rm_refl.
Qed.

(** * Client requests *)
Lemma handle_cancel_R s jid s' : handle_cancel s jid = Ok s' -> R (core_of s) (core_of s').
Proof.
  intros H. unfold handle_cancel in H.
  destruct (find_job (hq_jobs s) jid) as [j|]; [|inversion H; subst; apply Rm_refl].
  destruct (non_finished_task_ids j) as [|i0 ir] eqn:En; [inversion H; subst; apply Rm_refl|]. rewrite <- En in *. clear En.
  apply bind_ok in H. destruct H as (s1 & H1 & H). apply bind_ok in H. destruct H as (al & _ & H).
  apply bind_ok in H. destruct H as (s2 & H2 & H). inversion H; subst s'.
  destruct (set_cancel_state_active _ _ _ _ H2) as [C2 _]. unfold core_same in C2.
  change (R (core_of s) (core_of s2)). rewrite C2. eapply on_cancel_tasks_R; exact H1.
Qed.

Lemma get_or_create_rq_R s r : R (core_of s) (core_of (fst (get_or_create_rq s r))).
Proof. unfold get_or_create_rq. destruct (rq_index _ r 0); [apply Rm_refl|]. apply R_tasks; [reflexivity | dm]. Qed.

Lemma submit_tail_R s4 jid ids tasks s' :
  (do j <- hq_get_job s4 jid 222;
   do j' <- attach_ids j ids;
   do s6 <- on_new_tasks (hq_set_job s4 j') tasks;
   submit_ok_resp s6 jid) = Ok s' -> R (core_of s4) (core_of s').
Proof.
  intros H. apply bind_ok in H. destruct H as (j & _ & H). apply bind_ok in H. destruct H as (j' & _ & H).
  apply bind_ok in H. destruct H as (s6 & H6 & H).
  pose proof (on_new_tasks_R (hq_set_job s4 j') _ _ H6) as R6.
  unfold submit_ok_resp in H. apply bind_ok in H. destruct H as (jx & _ & H). inversion H; subst. exact R6.
Qed.

Lemma handle_submit_array_R s jobsel ids entries rq prio cl tlim mf s' :
  handle_submit_array s jobsel ids entries rq prio cl tlim mf = Ok s' -> R (core_of s) (core_of s').
Proof.
  intros H. unfold handle_submit_array in H.
  match type of H with (match ?x with Some _ => _ | None => _ end) = _ => destruct x end; [inversion H; subst; apply Rm_refl|].
  apply bind_ok in H. destruct H as ([acc s1] & Hr & H).
  assert (E1 : core_of s1 = core_of s).
  { destruct jobsel as [j0|].
    - destruct (find_job (hq_jobs s) j0) as [j|]; [|inversion Hr; subst; reflexivity].
      destruct (negb (j_open j)); inversion Hr; subst; reflexivity.
    - inversion Hr; subst; reflexivity. }
  destruct acc as [[[jid is_new] ids']|].
  - cbv zeta in H.
    match type of H with context [get_or_create_rq ?sx rq] => set (s3 := sx) in *; destruct (get_or_create_rq s3 rq) as [s4 rqi] eqn:Erq end.
    assert (E3 : core_of s3 = core_of s) by (rewrite <- E1; subst s3; destruct is_new; reflexivity).
    pose proof (get_or_create_rq_R s3 rq) as R4. rewrite Erq in R4. cbn [fst] in R4. rewrite E3 in R4.
    eapply R_trans; [exact R4 | eapply (submit_tail_R s4 jid ids'); exact H].
  - assert (E2 : core_of s' = core_of s1).
    { destruct jobsel; [match type of H with (match ?x with Some _ => _ | None => _ end) = _ => destruct x end|];
        inversion H; subst; reflexivity. }
    rewrite E2, E1. apply Rm_refl.
Qed.

Lemma fold_rqs_R rqs : forall s l s4 rqis,
  fold_left (fun acc r => let '(s, l) := acc in let '(s', i) := get_or_create_rq s r in (s', l ++ [i])) rqs (s, l) = (s4, rqis) ->
  R (core_of s) (core_of s4).
Proof.
  induction rqs as [|r rest IH]; cbn [fold_left]; intros s l s4 rqis H; [inversion H; subst; apply Rm_refl|].
  destruct (get_or_create_rq s r) as [s1 i] eqn:E.
  pose proof (get_or_create_rq_R s r) as R1. rewrite E in R1. cbn [fst] in R1.
  eapply R_trans; [exact R1 | eapply IH; exact H].
Qed.

Lemma handle_submit_graph_R s jobsel rqs ts mf s' :
  handle_submit_graph s jobsel rqs ts mf = Ok s' -> R (core_of s) (core_of s').
Proof.
  intros H. unfold handle_submit_graph in H.
  apply bind_ok in H. destruct H as (v1 & _ & H).
  match type of H with (match ?x with Some _ => _ | None => _ end) = _ => destruct x end; [inversion H; subst; apply Rm_refl|].
  apply bind_ok in H. destruct H as ([acc s1] & Hr & H).
  assert (E1 : core_of s1 = core_of s).
  { destruct jobsel as [j0|].
    - destruct (find_job (hq_jobs s) j0) as [j|]; [|inversion Hr; subst; reflexivity].
      destruct (negb (j_open j)); inversion Hr; subst; reflexivity.
    - inversion Hr; subst; reflexivity. }
  destruct acc as [[jid is_new]|].
  - cbv zeta in H.
    match type of H with context [fold_left ?f rqs (?sx, [])] => set (s3 := sx) in *; destruct (fold_left f rqs (s3, [])) as [s4 rqis] eqn:Erq end.
    assert (E3 : core_of s3 = core_of s) by (rewrite <- E1; subst s3; destruct is_new; reflexivity).
    pose proof (fold_rqs_R _ _ _ _ _ Erq) as R4. rewrite E3 in R4.
    apply bind_ok in H. destruct H as (j & Hj & H). apply bind_ok in H. destruct H as (j' & Ha & H).
    apply bind_ok in H. destruct H as (tasks & Hg & H).
    eapply R_trans; [exact R4|]. eapply (submit_tail_R s4 jid (map gt_id ts) tasks).
    rewrite Hj. cbn [bind]. rewrite Ha. cbn [bind]. exact H.
  - inversion H; subst. rewrite E1. apply Rm_refl.
Qed.

(** * The whole system *)
Theorem step_J s o s' outs : CB (s, []) -> J (s_core s) -> step s o = Ok (s', outs) -> J (s_core s').
Proof.
  intros HC HJ H. change (J (core_of (s', outs))).
  assert (HR : R (s_core s) (core_of (s', outs)) -> J (core_of (s', outs))) by (intros X; eapply J_R; [exact HJ | exact X]).
  destruct o; cbn [step] in H.
  - apply HR. exact (on_new_worker_R (s, []) _ _ _ H).
  - destruct (find_proc _ w); [|discriminate]. exact (on_remove_worker_J (s, []) _ _ _ _ _ _ HC HJ H).
  - destruct (bad_submit_lengths _ _); [inversion H; subst; apply HR; apply Rm_refl|]. apply HR. exact (handle_submit_array_R (s, []) _ _ _ _ _ _ _ _ _ H).
  - destruct (bad_graph_rq _ _); [inversion H; subst; apply HR; apply Rm_refl|]. destruct (dead_dep _ _ _); [inversion H; subst; apply HR; apply Rm_refl|]. apply HR. exact (handle_submit_graph_R (s, []) _ _ _ _ _ H).
  - apply HR. unfold handle_open in H. inversion H; subst. apply Rm_refl.
  - apply HR. unfold handle_close in H. cbn in H. destruct (find_job _ j) as [jb|]; [|inversion H; subst; apply Rm_refl].
    destruct (j_open jb); [|inversion H; subst; apply Rm_refl].
    apply bind_ok in H. destruct H as (s1 & H1 & H). inversion H; subst.
    destruct (check_termination_jt _ _ _ H1) as [C1 _]. unfold core_same in C1. change (R (s_core s) (core_of s1)). rewrite C1. apply Rm_refl.
  - apply HR. exact (handle_cancel_R (s, []) _ _ H).
  - apply HR. unfold handle_forget in H. cbn in H. destruct (find_job _ j) as [jb|]; [|inversion H; subst; apply Rm_refl].
    apply bind_ok in H. destruct H as (na & _ & H). destruct (negb (j_open jb) && na); inversion H; subst; apply Rm_refl.
  - apply HR. destruct (find_proc _ w) as [p|]; [|discriminate]. destruct (p_down p); [discriminate|].
    inv_binds H. inversion H; subst. apply Rm_refl.
  - apply HR. destruct (find_proc _ w) as [p|]; [|discriminate]. destruct (p_up p) as [|m rest]; [discriminate|].
    destruct m.
    + match type of H with on_task_update ?s1 _ _ = _ => exact (on_task_update_R s1 _ _ _ H) end.
    + match type of H with on_retract_response ?s1 _ _ = _ => exact (on_retract_response_R s1 _ _ _ H) end.
  - destruct (c_flag (s_core s)); [|discriminate]. exact (run_scheduling_J (s, []) _ _ (cb_s _ HC) HJ H).
  - apply HR. destruct (find_proc _ w) as [p|]; [|discriminate]. inv_binds H. inversion H; subst. apply Rm_refl.
  - apply HR. destruct (find_proc _ w) as [p|]; [|discriminate]. inversion H; subst. apply Rm_refl.
  - apply HR. inversion H; subst. apply Rm_refl.
  - apply HR. inv_binds H. inversion H; subst. apply Rm_refl.
Qed.

Theorem run_J ops : forall s s' outs,
  HOK (s_hq s) -> fresh (s, []) -> Forall op_wf ops -> CB (s, []) -> J (s_core s) ->
  run s ops = Ok (s', outs) -> J (s_core s').
Proof.
  induction ops as [|o r IH]; cbn [run]; intros s s' outs Hok F Hwf HC HJ H; [inversion H; subst; exact HJ|].
  inversion Hwf as [|? ? Hw1 Hw2]; subst.
  apply bind_ok in H. destruct H as ([s1 o1] & H1 & H). apply bind_ok in H. destruct H as ([s2 o2] & H2 & H). inversion H; subst.
  pose proof (step_CB _ _ _ _ Hok F Hw1 HC H1) as HC1.
  pose proof (step_hq_ok _ _ _ _ Hok H1) as Hok1.
  pose proof (G_step _ _ _ _ F H1) as G1.
  assert (F1 : fresh (s1, [])) by (apply (fresh_outs s1 o1); apply (g_fresh _ _ G1); exact F).
  pose proof (step_J _ _ _ _ HC HJ H1) as HJ1.
  eapply IH; [exact Hok1 | exact F1 | exact Hw2 | eapply CB_outs; exact HC1 | exact HJ1 | exact H2].
Qed.

(** MNE: no task is [RunningMN []].  RWA: the worker a task is being retracted from is connected.
    MND: the workers of a multi-node task are pairwise distinct.
    (The hypothesis [run_fresh] is not needed; it is kept for uniformity with the other invariants.) *)
Theorem reachable_MNE_RWA ops reserve maxfill s outs :
  Forall op_wf ops -> run_fresh (init_sys reserve maxfill) ops = true -> run (init_sys reserve maxfill) ops = Ok (s, outs) ->
  MNE (s_core s) /\ RWA (s_core s).
Proof.
  intros Hwf _ H.
  assert (HC0 : CB (init_sys reserve maxfill, [])).
  { constructor; [constructor | intros id cs x [] | ]. intros x. split; [intros [] | intros (l & Hl & _); discriminate]. }
  assert (Hok0 : HOK (s_hq (init_sys reserve maxfill))) by (intros j []).
  assert (F0 : fresh (init_sys reserve maxfill, [])) by (intros j []).
  assert (J0 : J (s_core (init_sys reserve maxfill))) by (intros t []).
  pose proof (run_J _ _ _ _ Hok0 F0 Hwf HC0 J0 H) as HJ. apply J_MNE_RWA in HJ. split; apply HJ.
Qed.

Theorem reachable_MND ops reserve maxfill s outs :
  Forall op_wf ops -> run (init_sys reserve maxfill) ops = Ok (s, outs) -> MND (s_core s).
Proof.
  intros Hwf H.
  assert (HC0 : CB (init_sys reserve maxfill, [])).
  { constructor; [constructor | intros id cs x [] | ]. intros x. split; [intros [] | intros (l & Hl & _); discriminate]. }
  assert (Hok0 : HOK (s_hq (init_sys reserve maxfill))) by (intros j []).
  assert (F0 : fresh (init_sys reserve maxfill, [])) by (intros j []).
  assert (J0 : J (s_core (init_sys reserve maxfill))) by (intros t []).
  pose proof (run_J _ _ _ _ Hok0 F0 Hwf HC0 J0 H) as HJ. apply J_MNE_RWA in HJ. apply HJ.
Qed.

(** The multi-node part in the form the no-panic proofs use. *)
Theorem reachable_MNOK ops reserve maxfill s outs :
  Forall op_wf ops -> run_fresh (init_sys reserve maxfill) ops = true -> run (init_sys reserve maxfill) ops = Ok (s, outs) ->
  forall t ws, In t (c_tasks (s_core s)) -> t_state t = RunningMN ws -> ws <> [] /\ NoDup ws.
Proof.
  intros Hwf Hf H t ws Hin Est.
  destruct (reachable_MNE_RWA _ _ _ _ _ Hwf Hf H) as [H1 _]. pose proof (reachable_MND _ _ _ _ _ Hwf H) as H3.
  split; [intros ->; exact (H1 t Hin Est) | exact (H3 t ws Hin Est)].
Qed.

(** All three at once. *)
Theorem reachable_MNE_RWA_MNOK ops reserve maxfill s outs :
  Forall op_wf ops -> run_fresh (init_sys reserve maxfill) ops = true -> run (init_sys reserve maxfill) ops = Ok (s, outs) ->
  MNE (s_core s) /\ RWA (s_core s) /\
  (forall t ws, In t (c_tasks (s_core s)) -> t_state t = RunningMN ws -> ws <> [] /\ NoDup ws).
Proof.
  intros Hwf Hf H. destruct (reachable_MNE_RWA _ _ _ _ _ Hwf Hf H) as [H1 H2].
  split; [exact H1|]. split; [exact H2|]. exact (reachable_MNOK _ _ _ _ _ Hwf Hf H).
Qed.
