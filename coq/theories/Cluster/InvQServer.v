(** The queue invariant, part 8: worker registration and loss. *)
From HQ Require Import Base.Prelude Cluster.Types Cluster.Core Cluster.Reactor Cluster.Worker Cluster.Server Cluster.Sys Cluster.Monitors Cluster.ProofsJob Cluster.ProofsMore Cluster.ProofsTerminal Cluster.ProofsStep Cluster.BijBase Cluster.BijCore Cluster.BijHq Cluster.BijSt Cluster.BijReact Cluster.FrameGen Cluster.CrashFrame Cluster.InvQBase Cluster.InvQTake Cluster.InvQInv Cluster.InvQOps Cluster.InvQReact Cluster.InvQReact2 Cluster.InvQReact3.
From Coq Require Import ZArith Lia Sorting.Sorted.
Local Open Scope N_scope.

Arguments N.add : simpl never.
Arguments N.sub : simpl never.

Lemma on_new_worker_QI s rs g s' : QI none [] (core_of s) -> on_new_worker s rs g = Ok s' -> QI none [] (core_of s').
Proof. unfold on_new_worker. intros V H. inversion H; subst. exact V. Qed.

(** An id that sits in its queue has no redirect. *)
Lemma member_no_redirect ex Z ts qs rs rqs id t q :
  QV ex Z ts qs rs rqs -> find_task ts id = Some t -> nth_error qs (N.to_nat (t_rq t)) = Some q -> member q id ->
  find_redirect rs id = None.
Proof.
  intros V Hf Hq Hm. destruct (find_redirect rs id) as [v|] eqn:Er; [|reflexivity]. exfalso.
  destruct (qv_red _ _ _ _ _ _ V _ _ Er) as (En & t0 & w & Hf0 & Hw). rewrite Hf in Hf0. inversion Hf0; subst t0.
  pose proof (qv_task _ _ _ _ _ _ V _ _ _ Hf Hq) as Hp. unfold exp_place in Hp. rewrite En, Hw in Hp. cbn in Hp. rewrite Er in Hp.
  exact (placed_member _ _ _ _ Hp Hm eq_refl).
Qed.

(** After a re-queue: the accumulated list of pending retractions. *)
Lemma QV_requeue_norm ex0 Z ts qs rs rqs id t' ret r :
  QV (exL Ready r (exR ex0 id)) Z ts qs rs rqs ->
  (forall y, y <> id -> ex0 y = exL Ready ret none y) ->
  find_task ts id = Some t' -> nat_place rs id (t_state t') = Ready ->
  QV (exL Ready (ret ++ r) none) Z ts qs rs rqs.
Proof.
  intros V Hex Hf Hn. eapply QV_ex_change; [exact V | |].
  - intros y t0 Hf0. unfold exp_place, exL, exR. rewrite tmem_app. destruct (tid_eqb y id) eqn:E.
    + apply tid_eqb_eq in E. subst y. rewrite Hf in Hf0. inversion Hf0; subst t0.
      destruct (tid_mem id ret), (tid_mem id r); cbn; unfold none; try reflexivity. symmetry. exact Hn.
    + apply tid_eqb_neq in E. rewrite (Hex _ E). unfold exL, none. destruct (tid_mem y ret), (tid_mem y r); reflexivity.
  - intros y v Hv. destruct (qv_red _ _ _ _ _ _ V _ _ Hv) as (E1 & t0 & w & Hf0 & Hw). unfold exL, exR in E1 |- *. rewrite tmem_app.
    destruct (tid_eqb y id) eqn:E.
    + apply tid_eqb_eq in E. subst y. rewrite Hf in Hf0. inversion Hf0; subst t0. rewrite Hw in Hn. cbn in Hn. rewrite Hv in Hn. discriminate.
    + apply tid_eqb_neq in E. rewrite (Hex _ E) in E1. unfold exL, none in E1.
      destruct (tid_mem y r); [discriminate|]. destruct (tid_mem y ret); [discriminate | reflexivity].
Qed.

(** No task became Prefilled. *)
Definition noNewPf (ts ts' : list task) : Prop :=
  forall id t' w, find_task ts' id = Some t' -> t_state t' = Prefilled w -> exists t, find_task ts id = Some t /\ t_state t = Prefilled w.
Lemma noNewPf_refl ts : noNewPf ts ts.
Proof. intros id t w H1 H2. eauto. Qed.
Lemma noNewPf_trans a b c : noNewPf a b -> noNewPf b c -> noNewPf a c.
Proof. intros H1 H2 id t w A B. destruct (H2 _ _ _ A B) as (t1 & A1 & B1). eapply H1; eassumption. Qed.
Lemma noNewPf_set ts t' : (forall w, t_state t' <> Prefilled w) -> noNewPf ts (set_task ts t').
Proof.
  intros Hn id t w H1 H2. rewrite find_set_task in H1. destruct (tid_eqb id (t_id t')); [inversion H1; subst; exfalso; exact (Hn _ H2) | eauto].
Qed.

(** * [lost_prefilled] *)
Lemma lost_prefilled_QI l : forall c c', QI none [] c -> lost_prefilled c l = Ok c' -> QI none [] c' /\ noNewPf (c_tasks c) (c_tasks c').
Proof.
  induction l as [|id r IH]; cbn [lost_prefilled]; intros c c' V H; [inversion H; subst; split; [exact V | apply noNewPf_refl]|].
  apply bind_ok in H. destruct H as (t & Ht & H). apply get_task_find in Ht.
  apply bind_ok in H. destruct H as (q & Hq & H). apply bind_ok in H. destruct H as (q' & Hq' & H). apply nth_queue_ok in Hq.
  assert (V1' : QI none [] (with_queues (upd_task c (with_state (with_inst t (t_inst t + 1)) (Waiting 0))) (set_queue (c_queues c) (N.to_nat (t_rq t)) q'))).
  { qi_simpl.
    pose proof (nth_error_Forall _ _ _ _ (qv_wf _ _ _ _ _ _ V) Hq) as W.
    destruct (q_move_spec _ _ _ W Hq') as (_ & pp & Hin & _).
    assert (Hnr : find_redirect (c_redirects c) id = None) by (eapply member_no_redirect; [exact V | exact Ht | exact Hq | exists pp; right; exact Hin]).
    pose proof (QV_q_move _ _ _ _ _ _ _ _ _ _ V Ht Hq Hq' Hnr) as V1.
    eapply QV_task0; [exact V1 | exact Ht | exact (find_task_id _ _ _ Ht) | reflexivity | reflexivity | | | |].
    + intros x Hne. symmetry. apply exU_other. exact Hne.
    + unfold exp_place. rewrite exU_same. reflexivity.
    + intros v Hv. congruence.
    + cbn. discriminate. }
  destruct (IH _ _ V1' H) as [V2 P2].
  split; [exact V2|]. eapply noNewPf_trans; [|exact P2]. cbn. apply noNewPf_set. cbn. discriminate.
Qed.

(** * [lost_assigned] *)
Definition NP (l : list tid) (ts : list task) : Prop :=
  forall id t, In id l -> find_task ts id = Some t -> forall w, t_state t <> Prefilled w.

Lemma lost_assigned_QI l : forall c running ret c' running' ret',
  QI (exL Ready ret none) [] c -> NP l (c_tasks c) -> lost_assigned c l running ret = Ok (c', running', ret') ->
  QI (exL Ready ret' none) [] c'.
Proof.
  induction l as [|id r IH]; cbn [lost_assigned]; intros c running ret c' running' ret' V Hnp H; [inversion H; subst; exact V|].
  apply bind_ok in H. destruct H as (t & Ht & H). apply get_task_find in Ht.
  pose proof (find_task_id _ _ _ Ht) as Hid.
  apply bind_ok in H. destruct H as ([[c1 t1] running1] & H1 & H).
  apply bind_ok in H. destruct H as ([qs rt] & Ha & H).
  assert (Hnpf : forall w, t_state t <> Prefilled w) by (eapply Hnp; [left; reflexivity | exact Ht]).
  (* the state before the re-queue *)
  assert (X : exists ex0, QI ex0 [] c1 /\ c_tasks c1 = c_tasks c /\ (forall y, y <> id -> ex0 y = exL Ready ret none y) /\
               exp_place ex0 (c_redirects c1) id (t_state t) <> Prefill /\ find_redirect (c_redirects c1) id = None /\
               t_id t1 = id /\ t_rq t1 = t_rq t /\ t_prio t1 = t_prio t /\ nat_place (c_redirects c1) id (t_state t1) = Ready /\
               (forall w, t_state t1 <> Prefilled w) /\ t_state t1 <> Finished).
  { assert (Hw0 : forall rn, @Ok (core * task * list tid) (c, with_state t (Waiting 0), rn) = Ok (c1, t1, running1) -> (forall w, t_state t <> Retracting w) ->
              exists ex0, QI ex0 [] c1 /\ c_tasks c1 = c_tasks c /\ (forall y, y <> id -> ex0 y = exL Ready ret none y) /\
               exp_place ex0 (c_redirects c1) id (t_state t) <> Prefill /\ find_redirect (c_redirects c1) id = None /\
               t_id t1 = id /\ t_rq t1 = t_rq t /\ t_prio t1 = t_prio t /\ nat_place (c_redirects c1) id (t_state t1) = Ready /\
               (forall w, t_state t1 <> Prefilled w) /\ t_state t1 <> Finished).
    { intros rn E Hnr. inversion E; subst c1 t1. exists (exL Ready ret none). split; [exact V | split; [reflexivity | split; [reflexivity|]]].
      split.
      - unfold exp_place, exL, none. destruct (tid_mem id ret); [discriminate|].
        destruct (t_state t) eqn:Est; cbn; try discriminate.
        + destruct (N.eqb unfinished_deps 0); discriminate.
        + exfalso. exact (Hnpf _ eq_refl).
        + exfalso. exact (Hnr _ eq_refl).
      - split; [exact (QV_no_redirect _ _ _ _ _ _ _ _ V Ht Hnr)|].
        cbn. repeat split; try exact Hid; try discriminate. }
    destruct (t_state t) as [| | |w1| | |] eqn:Est;
      try (eapply Hw0; [exact H1 | intros w0; discriminate]).
    destruct (find_redirect (c_redirects c) id) as [v|] eqn:Er; [|discriminate]. inversion H1; subst c1 t1 running1; clear H1.
    exists (exU (exL Ready ret none) id Nowhere).
    pose proof (find_del_redirect (c_redirects c) id) as Fd.
    destruct (qv_red _ _ _ _ _ _ V _ _ Er) as (En & _).
    assert (Hnr : find_redirect (del_redirect (c_redirects c) id) id = None).
    { rewrite Fd by exact (qv_rs _ _ _ _ _ _ V). rewrite (proj2 (tid_eqb_eq id id) eq_refl). reflexivity. }
    split.
    { qi_simpl. eapply QV_redirect; [exact V | exact Ht | apply del_redirect_sorted; exact (qv_rs _ _ _ _ _ _ V) | | | |].
      - intros x Hne. rewrite Fd by exact (qv_rs _ _ _ _ _ _ V). apply tid_eqb_neq in Hne. rewrite Hne. reflexivity.
      - intros x Hne. apply exU_other. exact Hne.
      - unfold exp_place. rewrite exU_same, En, Est. cbn. rewrite Er. reflexivity.
      - intros v0 Hv. congruence. }
    cbn [c_tasks c_redirects with_redirects]. split; [reflexivity | split; [intros y Hne; apply exU_other; exact Hne|]].
    split; [unfold exp_place; rewrite exU_same; discriminate|]. split; [exact Hnr|].
    repeat split; try exact Hid. rewrite Est. cbn. rewrite Hnr. reflexivity.
    - intros w0. rewrite Est. discriminate.
    - rewrite Est. discriminate. }
  destruct X as (ex0 & V1 & T1 & Hex0 & Hpl & Hnr & Hi1 & Hr1 & Hp1 & Hn1 & Hnp1 & Hf1).
  eapply IH; [| |exact H].
  - qi_simpl. rewrite <- T1 in Ht.
    assert (V2 : QV (exL Ready rt (exR ex0 id)) [] (set_task (c_tasks c1) (with_inst t1 (t_inst t1 + 1))) qs (c_redirects c1) (c_rqs c1)).
    { eapply QV_requeue; [exact V1 | exact Ht | exact Hi1 | exact Hr1 | exact Hp1 | exact Hpl | exact Hnr | exact Hn1 | exact Hf1 | exact Ha]. }
    eapply (QV_requeue_norm ex0 _ _ _ _ _ id (with_inst t1 (t_inst t1 + 1)) ret rt); [exact V2 | exact Hex0 | | exact Hn1].
    rewrite find_set_task. cbn [t_id with_inst]. rewrite Hi1, (proj2 (tid_eqb_eq id id) eq_refl). reflexivity.
  - cbn [c_tasks with_queues upd_task with_tasks]. intros x tx Hx Hfx. rewrite find_set_task in Hfx. cbn [t_id with_inst] in Hfx. rewrite Hi1 in Hfx.
    destruct (tid_eqb x id); [inversion Hfx; subst tx; exact Hnp1|]. rewrite T1 in Hfx. eapply Hnp; [right; exact Hx | exact Hfx].
Qed.

(** * [lost_retracting] *)
Lemma lost_retracting_QI P l : forall s w s',
  QI (exL Ready P none) [] (core_of s) -> lost_retracting s w l = Ok s' -> QI (exL Ready P none) [] (core_of s').
Proof.
  induction l as [|id r IH]; cbn [lost_retracting]; intros s w s' V H; [inversion H; subst; exact V|].
  apply bind_ok in H. destruct H as (t & Ht & H). apply get_task_find in Ht.
  destruct (t_state t) as [| | |w1| | |] eqn:Est; try (eapply IH; eassumption).
  destruct (N.eqb w w1); [|eapply IH; eassumption].
  destruct (find_redirect (c_redirects (core_of s)) id) as [[target rv]|] eqn:Er.
  - apply bind_ok in H. destruct H as (s1 & Hs1 & H). eapply IH; [|exact H].
    rewrite (send_worker_core _ _ _ _ Hs1). qi_simpl.
    pose proof (find_del_redirect (c_redirects (core_of s)) id) as Fd.
    destruct (qv_red _ _ _ _ _ _ V _ _ Er) as (En & _).
    eapply QV_task; [exact V | exact Ht | exact (find_task_id _ _ _ Ht) | reflexivity | reflexivity | apply del_redirect_sorted; exact (qv_rs _ _ _ _ _ _ V) | | reflexivity | | |].
    + intros x Hne. rewrite Fd by exact (qv_rs _ _ _ _ _ _ V). apply tid_eqb_neq in Hne. rewrite Hne. reflexivity.
    + unfold exp_place. rewrite En, Est. cbn. rewrite Er. reflexivity.
    + intros v Hv. rewrite Fd in Hv by exact (qv_rs _ _ _ _ _ _ V). rewrite (proj2 (tid_eqb_eq _ _) eq_refl) in Hv. discriminate.
    + cbn. discriminate.
  - eapply IH; [|exact H]. qi_simpl.
    eapply QV_task0; [exact V | exact Ht | exact (find_task_id _ _ _ Ht) | reflexivity | reflexivity | reflexivity | | |].
    + unfold exp_place. destruct (exL Ready P none id); [reflexivity|]. cbn [t_state with_state with_inst]. rewrite Est. cbn. rewrite Er. reflexivity.
    + intros v Hv. congruence.
    + cbn. discriminate.
Qed.

(** * [lost_fail_running] *)
Lemma lost_fail_running_QI l : forall s reason s',
  HOK (hq_of s) -> CB s -> QI none [] (core_of s) -> lost_fail_running s reason l = Ok s' -> QI none [] (core_of s').
Proof.
  induction l as [|id r IH]; cbn [lost_fail_running]; intros s reason s' Hok HC V H; [inversion H; subst; exact V|].
  destruct (find_task (c_tasks (core_of s)) id) as [t|] eqn:Ef; [|eapply IH; eassumption].
  assert (Hcrash : forall t', t_id t' = t_id t -> t_consumers t' = t_consumers t -> t_rq t' = t_rq t -> t_prio t' = t_prio t -> t_state t' = t_state t ->
            HOK (hq_of (st_core s (upd_task (core_of s) t'))) /\ CB (st_core s (upd_task (core_of s) t')) /\
            QI none [] (core_of (st_core s (upd_task (core_of s) t')))).
  { intros t' Hi Hc Hr Hp Hst. split; [exact Hok|]. split.
    - eapply CB_same; [| |exact HC]; [|reflexivity].
      unfold K. cbn. apply (upd_task_frame (core_of s) id t); [exact (cb_s _ HC) | exact Ef | exact Hi | exact Hc].
    - qi_simpl. eapply QV_task0; [exact V | exact Ef | rewrite Hi; exact (find_task_id _ _ _ Ef) | exact Hr | exact Hp | reflexivity | rewrite Hst; reflexivity | |].
      + intros v Hv. destruct (qv_red _ _ _ _ _ _ V _ _ Hv) as (En & t0 & w & Hf0 & Hw). rewrite Ef in Hf0. inversion Hf0; subst t0. split; [exact En | exists w; congruence].
      + intros Hfin. rewrite Hst in Hfin. eapply qv_fin; eassumption. }
  assert (Hinc : forall t' limit, increment_crash_counter t = (t', limit) ->
            t_id t' = t_id t /\ t_consumers t' = t_consumers t /\ t_rq t' = t_rq t /\ t_prio t' = t_prio t /\ t_state t' = t_state t).
  { intros t' limit Ei. unfold increment_crash_counter in Ei. inversion Ei; subst. repeat split. }
  destruct (t_climit t).
  - apply bind_ok in H. destruct H as (s1 & Hf & H).
    eapply IH; [eapply task_failed_ok; eassumption | eapply task_failed_CB; eassumption | eapply task_failed_QI; eassumption | exact H].
  - destruct (reason_is_failure reason); [|eapply IH; eassumption].
    destruct (increment_crash_counter t) as [t' limit] eqn:Ei. destruct (Hinc _ _ eq_refl) as (A1 & A2 & A3 & A4 & A5).
    destruct (Hcrash t' A1 A2 A3 A4 A5) as (Hok1 & HC1 & V1). destruct limit.
    + apply bind_ok in H. destruct H as (s1 & Hf & H).
      eapply IH; [eapply task_failed_ok; [exact Hok1 | exact Hf] | eapply task_failed_CB; [exact Hok1 | exact HC1 | exact Hf] | eapply task_failed_QI; [exact Hok1 | exact HC1 | exact V1 | exact Hf] | exact H].
    + eapply IH; [exact Hok1 | exact HC1 | exact V1 | exact H].
  - destruct (reason_is_failure reason); [|eapply IH; eassumption].
    destruct (increment_crash_counter t) as [t' limit] eqn:Ei. destruct (Hinc _ _ eq_refl) as (A1 & A2 & A3 & A4 & A5).
    destruct (Hcrash t' A1 A2 A3 A4 A5) as (Hok1 & HC1 & V1). destruct limit.
    + apply bind_ok in H. destruct H as (s1 & Hf & H).
      eapply IH; [eapply task_failed_ok; [exact Hok1 | exact Hf] | eapply task_failed_CB; [exact Hok1 | exact HC1 | exact Hf] | eapply task_failed_QI; [exact Hok1 | exact HC1 | exact V1 | exact Hf] | exact H].
    + eapply IH; [exact Hok1 | exact HC1 | exact V1 | exact H].
Qed.
