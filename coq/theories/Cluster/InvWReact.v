(** Worker-set invariant, part 4: the reactor's functions (reactor.rs). *)
From HQ Require Import Base.Prelude Cluster.Types Cluster.Core Cluster.Reactor Cluster.Worker Cluster.Server Cluster.Sys Cluster.ProofsJob Cluster.ProofsMore Cluster.ProofsTerminal Cluster.ProofsStep Cluster.BijBase Cluster.BijCore Cluster.BijHq Cluster.BijSt Cluster.BijReact Cluster.InvWBase Cluster.InvWView Cluster.InvWCore.
From Coq Require Import ZArith Lia Sorting.Sorted.
Local Open Scope N_scope.

Arguments N.add : simpl never.
Arguments N.sub : simpl never.

(** Side conditions on hidden sets. *)
Ltac xs := intros; unfold x0, xadd, xdel; rewrite ?tid_eqb_refl';
  repeat match goal with |- context [tid_eqb ?a ?b] => destruct (tid_eqb a b) end;
  repeat match goal with |- context [?X ?i] => is_var X; is_var i; destruct (X i) end; reflexivity.

Lemma WIX_sw X c : WIX X c -> wsorted (c_workers c). Proof. intros H; apply H. Qed.
Lemma WIX_sr X c : WIX X c -> rsorted (c_redirects c). Proof. intros H; apply H. Qed.

(** * process_retracted *)
Lemma retract_states_WI ids : forall c acc c' acc', WI c -> retract_states c ids acc = Ok (c', acc') -> WI c'.
Proof.
  induction ids as [|id r IH]; cbn [retract_states]; intros c acc c' acc' HW H; [inversion H; subst; exact HW|].
  apply bind_ok in H. destruct H as (t & Ht & H). apply get_task_find in Ht.
  destruct (t_state t) eqn:Est; try discriminate.
  apply bind_ok in H. destruct H as (wk & Hw & H). apply get_worker_find in Hw.
  apply bind_ok in H. destruct H as (wk' & Hrm & H).
  destruct (find_task_some _ _ _ Ht) as [_ Hid].
  eapply IH; [|exact H].
  assert (Hp : pl (t_state t) = PP w) by (rewrite Est; reflexivity).
  pose proof (C_relP x0 c HW id t w wk wk' eq_refl Ht Hp Hw Hrm) as H1.
  exact (C_show _ _ H1 x0 id (with_state t (Retracting w)) ltac:(xs) ltac:(xs) Hid (or_intror eq_refl)).
Qed.

Lemma process_retracted_WI s r s' : WI (core_of s) -> process_retracted s r = Ok s' -> WI (core_of s').
Proof.
  unfold process_retracted. intros HW H. destruct r; [inversion H; subst; exact HW|].
  apply bind_ok in H. destruct H as ([c' groups] & H1 & H). rewrite (send_all_core _ _ _ H).
  eapply retract_states_WI; [exact HW | exact H1].
Qed.

(** * try_remove_redirection *)
Lemma try_remove_redirection_WIX X c t c' : WIX X c -> try_remove_redirection c t = Ok c' ->
  WIX X c' /\ c_tasks c' = c_tasks c /\ find_redirect (c_redirects c') (t_id t) = None.
Proof.
  intros HW H. unfold try_remove_redirection in H.
  destruct (find_redirect (c_redirects c) (t_id t)) as [[w rv]|] eqn:Er.
  - apply bind_ok in H. destruct H as (wk & Hw & H). apply get_worker_find in Hw.
    apply bind_ok in H. destruct H as (rq & _ & H). apply bind_ok in H. destruct H as (wk' & Hrm & H). inversion H; subst.
    split; [eapply C_relR; eassumption|]. split; [reflexivity|].
    cbn [c_redirects upd_worker with_workers with_redirects]. rewrite find_del_redirect by exact (WIX_sr _ _ HW).
    rewrite tid_eqb_refl'. reflexivity.
  - inv_binds H. inversion H; subst. split; [exact HW|]. split; [reflexivity | exact Er].
Qed.

(** * on_cancel_tasks *)
Lemma cancel_release_WIX ids : forall s tu ru X s' tu' ru',
  WIX X (core_of s) -> NoDup ids -> (forall i, In i ids -> X i = false) ->
  cancel_release s ids tu ru = Ok (s', tu', ru') ->
  WIX (fun i => tid_mem i ids || X i) (core_of s').
Proof.
  induction ids as [|id r IH]; cbn [cancel_release]; intros s tu ru X s' tu' ru' HW Hnd HX H.
  - inversion H; subst. eapply WIX_extX; [|exact HW]. intros i. reflexivity.
  - inversion Hnd as [|? ? Hni Hnd']; subst.
    assert (Ex : X id = false) by (apply HX; left; reflexivity).
    assert (Hgen : forall s1 tu1 ru1, WIX (xadd X id) (core_of s1) -> cancel_release s1 r tu1 ru1 = Ok (s', tu', ru') ->
              WIX (fun i => tid_mem i (id :: r) || X i) (core_of s')).
    { intros s1 tu1 ru1 H1 Hc. eapply WIX_extX; [|eapply (IH s1 tu1 ru1 (xadd X id)); [exact H1 | exact Hnd' | | exact Hc]].
      - intros i. cbn [tid_mem]. unfold xadd. destruct (tid_eqb i id), (tid_mem i r), (X i); reflexivity.
      - intros i Hi. unfold xadd. rewrite (HX i (or_intror Hi)).
        destruct (tid_eqb i id) eqn:E; [|reflexivity]. apply tid_eqb_eq in E. subst i. contradiction. }
    set (c := core_of s) in *.
    destruct (find_task (c_tasks c) id) as [t|] eqn:Ef.
    + destruct (find_task_some _ _ _ Ef) as [_ Hid].
      apply bind_ok in H. destruct H as (csm & _ & H). apply bind_ok in H. destruct H as (rq & _ & H).
      destruct (t_state t) eqn:Est.
      * eapply Hgen; [|exact H]. refine (WIX_frame _ c _ eq_refl eq_refl eq_refl eq_refl _).
        eapply C_hide; [exact HW | exact Ef | left; rewrite Est; reflexivity].
      * apply bind_ok in H. destruct H as (wk & Hw & H). apply get_worker_find in Hw.
        apply bind_ok in H. destruct H as (wk' & Hrm & H).
        eapply Hgen; [|exact H]. refine (WIX_frame _ (upd_worker c wk') _ eq_refl eq_refl eq_refl eq_refl _).
        eapply C_relA; [exact HW | exact Ex | exact Ef | rewrite Est; reflexivity | exact Hw | exact Hrm].
      * apply bind_ok in H. destruct H as (q & _ & H). apply bind_ok in H. destruct H as (q' & _ & H).
        apply bind_ok in H. destruct H as (wk & Hw & H). apply get_worker_find in Hw.
        apply bind_ok in H. destruct H as (wk' & Hrm & H).
        eapply Hgen; [|exact H]. refine (WIX_frame _ (upd_worker c wk') _ eq_refl eq_refl eq_refl eq_refl _).
        eapply C_relP; [exact HW | exact Ex | exact Ef | rewrite Est; reflexivity | exact Hw | exact Hrm].
      * apply bind_ok in H. destruct H as (c' & Hc' & H).
        destruct (try_remove_redirection_WIX _ _ _ _ HW Hc') as (H1 & T1 & R1).
        eapply Hgen; [|exact H]. refine (WIX_frame _ c' _ eq_refl eq_refl eq_refl eq_refl _).
        eapply C_hide; [exact H1 | rewrite T1; exact Ef | right; split; [rewrite Est; reflexivity | rewrite <- Hid; exact R1]].
      * apply bind_ok in H. destruct H as (wk & Hw & H). apply get_worker_find in Hw.
        apply bind_ok in H. destruct H as (wk' & Hrm & H).
        eapply Hgen; [|exact H]. refine (WIX_frame _ (upd_worker c wk') _ eq_refl eq_refl eq_refl eq_refl _).
        eapply C_relA; [exact HW | exact Ex | exact Ef | rewrite Est; reflexivity | exact Hw | exact Hrm].
      * apply bind_ok in H. destruct H as (c' & Hc' & H). destruct ws as [|w0 wr] eqn:Ews; [discriminate|]. rewrite <- Ews in *.
        eapply Hgen; [|exact H]. refine (WIX_frame _ c' _ eq_refl eq_refl eq_refl eq_refl _).
        eapply (C_relM_reset X c id t ws c ws c'); [exact HW | exact Ex | exact Ef | rewrite Est; reflexivity | reflexivity | reflexivity | reflexivity
          | exact (WIX_sw _ _ HW) | auto | auto | auto | auto | exact Hc'].
      * discriminate.
    + eapply Hgen; [|exact H]. eapply C_hide_none; [exact HW | exact Ef].
Qed.

Lemma remove_tasks_batched_WIX X l : forall c c', WIX X c -> CS c -> (forall i, In i l -> present (keys c) i -> X i = true) ->
  remove_tasks_batched c l = Ok c' -> WIX X c'.
Proof.
  induction l as [|id r IH]; cbn [remove_tasks_batched]; intros c c' HW Hs HX H; [inversion H; subst; exact HW|].
  apply bind_ok in H. destruct H as ([c1 stt] & H1 & H).
  destruct (remove_task_shrinks _ _ _ _ Hs H1) as [Sh P].
  eapply IH; [eapply remove_task_WIX; [exact HW | exact Hs | exact H1 | left; apply HX; [left; reflexivity | exact P]] | exact (shr_sorted _ _ _ Sh) | | exact H].
  intros i Hi Hp. apply HX; [right; exact Hi | apply (shr_dom _ _ _ Sh) in Hp; apply Hp].
Qed.

(** [ids] is closed: every core task of the job of one of its members is a member. *)
Definition closed_ids (s : st) (ids : list tid) : Prop :=
  forall x y, In y ids -> present (K s) x -> fst x = fst y -> In x ids.

Lemma on_cancel_tasks_WI s ids s' :
  WI (core_of s) -> CS (core_of s) -> KD (K s) -> NoDup ids -> closed_ids s ids ->
  on_cancel_tasks s ids = Ok s' -> WI (core_of s').
Proof.
  intros HW Hs Hd Hnd Hcl H. unfold on_cancel_tasks in H.
  apply bind_ok in H. destruct H as ([[s1 tu] ru] & H1 & H). apply bind_ok in H. destruct H as (c' & H2 & H).
  destruct (cancel_release_spec _ _ _ _ _ _ _ Hd H1) as (E1 & _ & I3 & I4).
  pose proof (cancel_release_WIX _ _ _ _ x0 _ _ _ HW Hnd (fun i _ => eq_refl) H1) as HW1.
  assert (Hs1 : CS (core_of s1)) by (eapply CS_keys; [exact E1 | exact Hs]).
  assert (HW2 : WIX (fun i => tid_mem i ids || x0 i) c').
  { eapply remove_tasks_batched_WIX; [exact HW1 | exact Hs1 | | exact H2].
    intros i Hi Hp. change (present (K s1) i) in Hp. rewrite E1 in Hp.
    destruct (I4 i Hi) as [[]|(y & Hy & Hpy & Hf)]. rewrite orb_false_r. apply tid_mem_true_in. eapply Hcl; eassumption. }
  destruct (remove_tasks_batched_shrinks _ _ _ Hs1 H2) as [Sh _].
  rewrite (send_all_core _ _ _ H). change (WI c'). eapply WIX_unhide; [exact HW2|].
  intros i Hi. cbv beta in Hi. unfold x0 in Hi. rewrite orb_false_r in Hi. apply tid_mem_true_in in Hi.
  destruct (find_task (c_tasks c') i) eqn:Ef; [|reflexivity]. exfalso.
  assert (Hp : present (keys c') i) by (apply find_task_present; eauto).
  apply (shr_dom _ _ _ Sh) in Hp. destruct Hp as [Hp Hn]. apply Hn. apply I3; [exact Hi|]. rewrite <- E1. exact Hp.
Qed.
