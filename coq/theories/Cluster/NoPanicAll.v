(** C09, server side, put together: in EVERY reachable state of the system model no client request,
    no worker connection, no worker loss and no scheduler answer makes the server panic.

    Parts: client requests NoPanicC*.v, connection / loss NoPanicL*.v, scheduling NoPanicS*.v; the
    state invariants they rest on: InvBundle.v ([reachable_INV]), NoPanicL0.v ([reachable_PW], no
    hypothesis), InvWX*.v ([reachable_MNE_RWA_MNOK]).

    Hypotheses.  On the history: [op_wf] and the executable [run_fresh] (under which the invariants
    were proved; RejHyp.v).  On the operation itself ([req_ok]):
    - a task-array submit names pairwise distinct explicit ids (the real [IntArray] is a set: true
      of every message that deserialises; the model's list could repeat one, site 220);
    - a scheduler answer satisfies the executable [sol_ok] (NoPanicS7.v): what [run_scheduling]
      relies on and cannot check - classes name existing requests, no more tasks than the queue
      holds, target workers exist and are in the right mode, worker sets disjoint and non-empty ...
      [sol_ok] is evaluated on every scheduler answer of every recorded trace of the real solver
      (monitor `hypothesis-sol_ok-violated`), [NoPanicS8.sol_ok_needed] shows each conjunct is
      necessary.
    Nothing is assumed about a task graph: one that names an undefined resource request is refused
    (fix F27; before it the real server panicked - sites 223 / 224). *)
From HQ Require Import Base.Prelude Cluster.Types Cluster.Core Cluster.Reactor Cluster.Worker Cluster.Server Cluster.Sys Cluster.Monitors Cluster.RejHyp Cluster.BijFinal Cluster.InvProcsDef Cluster.InvBundle Cluster.NoPanicC5 Cluster.NoPanicC7 Cluster.NoPanicL0 Cluster.NoPanicL4 Cluster.NoPanicS7 Cluster.NoPanicS8.
From Coq Require Import ZArith.
Local Open Scope N_scope.

(** Operations processed by the server itself (the rest are steps of a worker process and the
    delivery of a worker's message to the server: NoPanicU*.v). *)
Definition server_op (o : op) : Prop :=
  match o with
  | OpDDown _ _ | OpDUp _ | OpEnd _ _ _ | OpFailNext _ _ | OpTimer => False
  | _ => True
  end.

Definition req_ok (s : sys) (o : op) : Prop :=
  match o with
  | OpSubmit _ ids _ _ _ _ _ _ => NoDup ids
  | OpSched sol => sol_ok (s_core s) sol = true
  | _ => True
  end.

Theorem server_never_panics ops reserve maxfill s outs o :
  Forall op_wf ops -> run_fresh (init_sys reserve maxfill) ops = true -> run (init_sys reserve maxfill) ops = Ok (s, outs) ->
  server_op o -> req_ok s o -> is_panic (step s o) = false.
Proof.
  intros Hwf Hf H Hso Hrq.
  destruct (worker_events_never_panic_reachable _ _ _ _ _ Hwf Hf H) as [Hconn Hlost].
  destruct o; try (destruct Hso; fail).
  - apply Hconn.
  - apply Hlost.
  - eapply client_requests_never_panic_reachable; try eassumption; exact I.
  - eapply client_requests_never_panic_reachable; try eassumption; exact I.
  - eapply client_requests_never_panic_reachable; try eassumption; exact I.
  - eapply client_requests_never_panic_reachable; try eassumption; exact I.
  - eapply client_requests_never_panic_reachable; try eassumption; exact I.
  - eapply client_requests_never_panic_reachable; try eassumption; exact I.
  - eapply scheduling_never_panics_reachable; try eassumption. eapply reachable_PW; exact H.
  - eapply client_requests_never_panic_reachable; try eassumption; exact I.
Qed.

Print Assumptions server_never_panics.
