(** Protocol invariant, part 18: one scheduling round ([OpSched]) preserves [PROTO]. *)
From HQ Require Import Base.Prelude Cluster.Types Cluster.Core Cluster.Reactor Cluster.Worker Cluster.Server Cluster.Sys Cluster.ProofsJob Cluster.ProofsMore Cluster.InvQBase Cluster.InvQTake Cluster.NoPanicU0 Cluster.NoPanicU1 Cluster.NoPanicU2 Cluster.NoPanicU4 Cluster.NoPanicU6 Cluster.NoPanicU7 Cluster.NoPanicU8 Cluster.NoPanicU9 Cluster.NoPanicU10 Cluster.NoPanicU11 Cluster.NoPanicU16.
From Coq Require Import ZArith Lia Sorting.Sorted Sorting.Permutation.
Local Open Scope N_scope.

Notation tid_eqb_eq := NoPanicU1.tid_eqb_eq.
Notation tid_eqb_neq := NoPanicU1.tid_eqb_neq.
Notation tid_eqb_refl := NoPanicU1.tid_eqb_refl.
Notation find_set_task := NoPanicU6.find_set_task.
Notation find_task_some := NoPanicU1.find_task_some.
Notation jactive := NoPanicU6.jactive.
Notation x0 := NoPanicU6.x0.
Notation tsorted := NoPanicU6.tsorted.

(** * One task changes its state, the pending list gets the matching item *)
Lemma SP_sched_point s c pd c' pd' y t t' (ext : wid -> list ditem) :
  SP x0 (st_core s c) no_pum pd ->
  find_task (c_tasks c) y = Some t ->
  (forall z, find_task (c_tasks c') z = if tid_eqb z y then Some t' else find_task (c_tasks c) z) ->
  tsorted c' -> c_rqs c' = c_rqs c -> (forall r, In r (c_redirects c') -> snd (snd r) = 0) ->
  (forall w' z, z <> y -> ditems z (msgs_for w' pd') = ditems z (msgs_for w' pd)) ->
  (forall w', ditems y (msgs_for w' pd') = ditems y (msgs_for w' pd) ++ ext w') ->
  (forall w' p U L D, find_proc (s_procs (fst s)) w' = Some p ->
     lang (view_of (t_state t) w' (job_running (hq_of s) y)) U L D = true ->
     lang (view_of (t_state t') w' (job_running (hq_of s) y)) U L (D ++ ext w') = true) ->
  mn_task_ok c' t' = true -> jr_ok (hq_of s) t' = true -> (forall w1 rv, t_state t' = Assigned w1 rv -> rv = 0) ->
  (forall w' p, find_proc (s_procs (fst s)) w' = Some p ->
     down_ok (c_rqs c') (N.of_nat (length (p_rqs p))) (p_down p ++ msgs_for w' pd') = true
     /\ newrq_defs (msgs_for w' pd') = newrq_defs (msgs_for w' pd)) ->
  (forall w' z, In z (flat_map dmsg_tids (msgs_for w' pd')) -> find_task (c_tasks c) z <> None) ->
  SP x0 (st_core s c') no_pum pd'.
Proof.
  intros HS Hy Hfind Hcs Erq Hred Hoth Hity Hview Hm Hj Hrv Htab Htids.
  change (st_core s c') with (mkSys c' (hq_of (st_core s c)) (s_procs (fst (st_core s c))), snd (st_core s c)).
  apply (SP_gen (fun z => tid_eqb z y) x0 x0 (st_core s c) no_pum pd c' _ _ no_pum pd' HS Hcs Erq Hred).
  - intros z tz E Hz _. rewrite Hfind, E in Hz. exists tz. repeat split; assumption.
  - intros w' z E. split; [reflexivity|]. apply Hoth. apply tid_eqb_neq. exact E.
  - auto.
  - intros z tz Hz. rewrite Hfind in Hz. change (core_of (st_core s c)) with c. destruct (tid_eqb z y) eqn:E; [apply tid_eqb_eq in E; subst z|]; congruence.
  - intros w' p z Hp [[]|Hz]. destruct (find_task (c_tasks c) z) as [tz|] eqn:E; [eapply (sp_pres _ _ _ _ HS); exact E | exfalso; exact (Htids w' z Hz E)].
  - intros w' p Hp. apply Htab with (p := p). exact Hp.
  - auto.
  - intros x tx E Hx _. apply tid_eqb_eq in E. subst x. rewrite Hfind, tid_eqb_refl in Hx. inversion Hx; subst tx. clear Hx.
    change (hq_of (st_core s c)) with (hq_of s).
    split; [exact (sp_act _ _ _ _ HS _ _ Hy eq_refl)|]. split; [exact Hm|]. split; [exact Hj|]. split; [exact Hrv|].
    intros w' p Hp. rewrite ditems_app, Hity, app_assoc, <- ditems_app. apply (Hview w' p); [exact Hp|].
    exact (sp_words _ _ _ _ HS w' p y t Hp Hy eq_refl).
Qed.

(** * Queues: the members of queue [i] are tasks of request class [i] *)
Definition QR (c : core) : Prop :=
  Forall WFQ (c_queues c) /\
  forall i q id, nth_error (c_queues c) i = Some q -> member q id -> exists t, find_task (c_tasks c) id = Some t /\ N.to_nat (t_rq t) = i.

Lemma nth_queue_some qs : forall i q, nth_queue qs i = Ok q -> nth_error qs i = Some q.
Proof. induction qs as [|h r IH]; intros i q H; cbn [nth_queue] in H; [discriminate|]. destruct i; [inversion H; reflexivity | cbn; apply IH; exact H]. Qed.
Lemma nth_set_queue qs : forall i q j, nth_error (set_queue qs i q) j = if Nat.eqb j i then match nth_error qs i with Some _ => Some q | None => None end else nth_error qs j.
Proof.
  induction qs as [|h r IH]; intros i q j; cbn [set_queue].
  - destruct (Nat.eqb j i); destruct i, j; reflexivity.
  - destruct i, j; cbn [nth_error Nat.eqb]; try reflexivity. apply IH.
Qed.
Lemma Forall_set_queue (P : queue -> Prop) qs : forall i q, Forall P qs -> P q -> Forall P (set_queue qs i q).
Proof.
  induction qs as [|h r IH]; intros i q Hf Hq; cbn [set_queue]; [constructor|]. inversion Hf; subst.
  destruct i; constructor; auto.
Qed.

Lemma QR_set_queue c i q q' :
  QR c -> nth_error (c_queues c) i = Some q -> WFQ q' -> (forall x, member q' x -> member q x) ->
  QR (with_queues c (set_queue (c_queues c) i q')).
Proof.
  intros [Hw Hm] Hq Hw' Hsub. split; cbn [with_queues c_queues c_tasks].
  - apply Forall_set_queue; assumption.
  - intros j q0 id Hj Hmem. rewrite nth_set_queue in Hj. destruct (Nat.eqb j i) eqn:E.
    + apply Nat.eqb_eq in E. subst j. rewrite Hq in Hj. inversion Hj; subst q0. apply (Hm i q id Hq). apply Hsub. exact Hmem.
    + apply (Hm j q0 id Hj Hmem).
Qed.

Lemma QR_tasks c c' : QR c -> c_queues c' = c_queues c ->
  (forall id t, find_task (c_tasks c) id = Some t -> exists t', find_task (c_tasks c') id = Some t' /\ t_rq t' = t_rq t) -> QR c'.
Proof.
  intros [Hw Hm] Eq Ht. split; rewrite Eq; [exact Hw|]. intros i q id Hq Hmem. destruct (Hm i q id Hq Hmem) as (t & Hf & Er).
  destruct (Ht _ _ Hf) as (t' & Hf' & Er'). exists t'. split; [exact Hf' | congruence].
Qed.

(** * Items of the pending messages under the updates of a round *)
Lemma cit_notin y l : ~ In y (map fst l) -> cit y l = [].
Proof.
  unfold cit. induction l as [|[i v] r IH]; [reflexivity|]. cbn [map fst flat_map In snd]. intros Hn.
  rewrite sel_other by (intros ->; apply Hn; left; reflexivity). apply IH. intros X. apply Hn. right. exact X.
Qed.
Lemma pit_notin y l : ~ In y l -> pit y l = [].
Proof.
  unfold pit. induction l as [|i r IH]; [reflexivity|]. cbn [flat_map In]. intros Hn.
  rewrite sel_other by (intros ->; apply Hn; left; reflexivity). apply IH. intros X. apply Hn. right. exact X.
Qed.
Lemma pit_snoc y l x : pit y (l ++ [x]) = pit y l ++ sel x y (IDC None false).
Proof. unfold pit. rewrite flat_map_app. cbn [flat_map]. rewrite app_nil_r. reflexivity. Qed.
Lemma pit_app y a b : pit y (a ++ b) = pit y a ++ pit y b.
Proof. unfold pit. apply flat_map_app. Qed.
Lemma dret_snoc' y l x : dret y (l ++ [x]) = dret y l ++ sel x y IDRet.
Proof. unfold dret. rewrite flat_map_app. cbn [flat_map]. rewrite app_nil_r. reflexivity. Qed.

Lemma mnmsg_items c id w y : y <> id -> ditems y (msgs_for w [mnmsg c id]) = [].
Proof.
  intros Hne. destruct (mnmsg c id) as [w0 m0] eqn:E. rewrite msgs_for_cons, msgs_for_nil. destruct (N.eqb w0 w); [|reflexivity].
  cbn [ditems flat_map]. rewrite app_nil_r. unfold mnmsg in E. destruct (find_task (c_tasks c) id) as [t|] eqn:Ef; [|inversion E; reflexivity].
  destruct (t_state t) as [n1|w2 r2|w2|w2|w2 r2|[|w1 ws]|]; inversion E; subst; try reflexivity.
  cbn [ditems_msg flat_map ctask_of ct_id]. rewrite (proj2 (find_task_some _ _ _ Ef)), sel_other by congruence. reflexivity.
Qed.
Lemma mit_notin c mn w y : ~ In y mn -> mit c mn w y = [].
Proof.
  unfold mit. induction mn as [|id r IH]; [reflexivity|]. intros Hn. cbn [map].
  change (mnmsg c id :: map (mnmsg c) r) with ([mnmsg c id] ++ map (mnmsg c) r). rewrite msgs_for_app, ditems_app, IH by (intros X; apply Hn; right; exact X).
  rewrite mnmsg_items by (intros ->; apply Hn; left; reflexivity). reflexivity.
Qed.

Lemma uit_get m w z : match wfind m w with Some u => uit z u | None => [] end = uit z (wu_get m w).
Proof. rewrite wu_get_wfind. destruct (wfind m w); reflexivity. Qed.

Lemma items_wu_set c m mn u' w' z : NoDup (map wu_w m) ->
  ditems z (msgs_for w' (pdM c (wu_set m u') mn)) =
  (if N.eqb w' (wu_w u') then uit z u' else uit z (wu_get m w')) ++ mit c mn w' z.
Proof. intros Hn. rewrite (pdM_items c _ mn w' z (wu_set_nodup m u' Hn)), wfind_set. destruct (N.eqb w' (wu_w u')); [reflexivity | rewrite uit_get; reflexivity]. Qed.
Lemma items_pdM c m mn w' z : NoDup (map wu_w m) -> ditems z (msgs_for w' (pdM c m mn)) = uit z (wu_get m w') ++ mit c mn w' z.
Proof. intros Hn. rewrite (pdM_items c m mn w' z Hn), uit_get. reflexivity. Qed.

(** the pending list does not see a change of the state of a task outside the multi-node list *)
Lemma pdM_frame c c' m mn y t t' :
  find_task (c_tasks c) y = Some t ->
  (forall z, find_task (c_tasks c') z = if tid_eqb z y then Some t' else find_task (c_tasks c) z) ->
  tdata t' = tdata t -> ~ In y mn -> pdM c' m mn = pdM c m mn.
Proof.
  intros Hy Hfind Etd Hn. unfold pdM. f_equal.
  - assert (Ht : forall z, option_map tdata (find_task (c_tasks c') z) = option_map tdata (find_task (c_tasks c) z)).
    { intros z. rewrite Hfind. destruct (tid_eqb z y) eqn:E; [|reflexivity]. apply tid_eqb_eq in E. subst z. rewrite Hy. cbn. rewrite Etd. reflexivity. }
    induction m as [|u r IH]; [reflexivity|]. cbn [flat_map]. rewrite IH, (umsgs_frame c c' u Ht). reflexivity.
  - apply map_ext_in. intros id Hid. unfold mnmsg. rewrite Hfind. destruct (tid_eqb id y) eqn:E; [|reflexivity]. apply tid_eqb_eq in E. subst id. contradiction.
Qed.

(** * The invariant of a scheduling round *)
Record RI (pf : bool) (s : st) (c : core) (m : list wupd) (mn : list tid) : Prop := mkRI {
  ri_sp : SP x0 (st_core s c) no_pum (pdM c m mn);
  ri_nd : NoDup (map wu_w m);
  ri_ok : POK c m mn;
  ri_ment : forall y, ment m mn y -> find_task (c_tasks c) y <> None;
  ri_qr : QR c;
  ri_pf : pf = false -> forall u, In u m -> wu_prefills u = [];
  ri_asg : forall u y v, In u m -> In (y, v) (wu_assigned u) -> exists t, find_task (c_tasks c) y = Some t /\ t_state t = Assigned (wu_w u) v;
  ri_nda : forall u, In u m -> NoDup (map fst (wu_assigned u));
  ri_mnst : forall id, In id mn -> exists t ws, find_task (c_tasks c) id = Some t /\ t_state t = RunningMN ws;
  ri_rq : c_rqs c = c_rqs (core_of s)
}.

Lemma wu_set_in m x u : In u (wu_set m x) -> u = x \/ In u m.
Proof.
  induction m as [|h t IH]; cbn [wu_set In]; [intros [H|[]]; auto|].
  destruct (N.eqb (wu_w x) (wu_w h)); cbn [In]; [intros [H|H]; auto|]. intros [H|H]; [auto|]. destruct (IH H); auto.
Qed.
Lemma wu_get_in m w : In (wu_get m w) m \/ wu_get m w = mkWU w [] [] [].
Proof. rewrite wu_get_wfind. destruct (wfind m w) as [u|] eqn:E; [left; eapply wfind_in; exact E | right; reflexivity]. Qed.

(** the tables / seen-id premises of [SP_sched_point] for a round *)
Lemma RI_tab pf s c m mn c' m' mn' w' p :
  RI pf s c m mn -> POK c' m' mn' -> c_rqs c' = c_rqs c -> find_proc (s_procs (fst s)) w' = Some p ->
  down_ok (c_rqs c') (N.of_nat (length (p_rqs p))) (p_down p ++ msgs_for w' (pdM c' m' mn')) = true
  /\ newrq_defs (msgs_for w' (pdM c' m' mn')) = newrq_defs (msgs_for w' (pdM c m mn)).
Proof.
  intros HR HP' Erq Hp. rewrite (pdM_newrq c m mn w' (ri_ok _ _ _ _ _ HR)).
  rewrite Erq. apply (tab_pending2 x0 (st_core s c) no_pum (pdM c m mn) w' p _ (ri_sp _ _ _ _ _ HR) Hp (pdM_newrq c m mn w' (ri_ok _ _ _ _ _ HR))).
  intros msg Hmsg. change (core_of (st_core s c)) with c. rewrite <- Erq. apply (pdM_ok c' m' mn' HP' w'). exact Hmsg.
Qed.

(** * Transition 1: a waiting task is assigned *)
Lemma RI_not_mn pf s c m mn y t : RI pf s c m mn -> find_task (c_tasks c) y = Some t ->
  (forall ws, t_state t <> RunningMN ws) -> ~ In y mn.
Proof. intros HR Hy Hst Hin. destruct (ri_mnst _ _ _ _ _ HR y Hin) as (t0 & ws & Hf & Est). rewrite Hy in Hf. inversion Hf; subst t0. exact (Hst ws Est). Qed.
Lemma RI_not_asg pf s c m mn y t u : RI pf s c m mn -> find_task (c_tasks c) y = Some t ->
  (forall w v, t_state t <> Assigned w v) -> In u m -> ~ In y (map fst (wu_assigned u)).
Proof.
  intros HR Hy Hst Hu Hin. apply in_map_iff in Hin. destruct Hin as ([y0 v] & E & Hin). cbn in E. subst y0.
  destruct (ri_asg _ _ _ _ _ HR u y v Hu Hin) as (t0 & Hf & Est). rewrite Hy in Hf. inversion Hf; subst t0. exact (Hst _ _ Est).
Qed.
Lemma get_not_asg pf s c m mn y t w : RI pf s c m mn -> find_task (c_tasks c) y = Some t ->
  (forall w v, t_state t <> Assigned w v) -> ~ In y (map fst (wu_assigned (wu_get m w))).
Proof.
  intros HR Hy Hst. destruct (wu_get_in m w) as [Hin| ->]; [eapply RI_not_asg; eassumption | intros []].
Qed.

Lemma RI_assign pf s c c' m mn y t w v n r :
  RI pf s c m mn -> find_task (c_tasks c) y = Some t -> t_state t = Waiting n -> v = 0 ->
  nth_error (c_rqs c) (N.to_nat (t_rq t)) = Some r -> rq_is_mn r = false ->
  (forall z, find_task (c_tasks c') z = if tid_eqb z y then Some (with_state t (Assigned w v)) else find_task (c_tasks c) z) ->
  tsorted c' -> c_rqs c' = c_rqs c -> c_redirects c' = c_redirects c -> c_queues c' = c_queues c ->
  RI pf s c' (wu_set m (mkWU w (wu_assigned (wu_get m w) ++ [(y, v)]) (wu_prefills (wu_get m w)) (wu_retracts (wu_get m w)))) mn.
Proof.
  intros HR Hy Est Hv Hr Hmn Hfind Hcs Erq Ered Eq.
  set (u := wu_get m w). set (u' := mkWU w (wu_assigned u ++ [(y, v)]) (wu_prefills u) (wu_retracts u)).
  set (t' := with_state t (Assigned w v)) in *.
  destruct (find_task_some _ _ _ Hy) as [_ Eid].
  assert (Hnmn : ~ In y mn) by (eapply RI_not_mn; [exact HR | exact Hy | intros ws; rewrite Est; discriminate]).
  assert (Hnasg : forall u0, In u0 m -> ~ In y (map fst (wu_assigned u0))) by (intros u0 Hu0; eapply RI_not_asg; [exact HR | exact Hy | intros w1 v1; rewrite Est; discriminate | exact Hu0]).
  assert (Hfr : forall m0, pdM c' m0 mn = pdM c m0 mn) by (intros m0; apply (pdM_frame c c' m0 mn y t t' Hy Hfind eq_refl Hnmn)).
  pose proof (ri_nd _ _ _ _ _ HR) as Hnd.
  assert (Hrqlt : (N.to_nat (t_rq t) < length (c_rqs c))%nat) by (apply nth_error_Some; congruence).
  assert (Hpres : forall z tz, find_task (c_tasks c) z = Some tz -> exists tz', find_task (c_tasks c') z = Some tz' /\ t_rq tz' = t_rq tz /\ (z <> y -> tz' = tz)).
  { intros z tz Hz. rewrite Hfind. destruct (tid_eqb z y) eqn:E; [apply tid_eqb_eq in E; subst z; rewrite Hy in Hz; inversion Hz; subst tz; exists t'; repeat split; intros X; congruence|].
    exists tz. repeat split; auto. }
  assert (HP' : POK c' (wu_set m u') mn).
  { destruct (ri_ok _ _ _ _ _ HR) as [Pa Pm]. split.
    - intros u0 y0 v0 Hu0 Hin. destruct (wu_set_in _ _ _ Hu0) as [->|Hu0'].
      + cbn [u' wu_assigned] in Hin. apply in_app_iff in Hin. destruct Hin as [Hin|[E|[]]].
        * destruct (wu_get_in m w) as [Hg|Hg]; [|fold u in Hg; rewrite Hg in Hin; destruct Hin].
          destruct (Pa u y0 v0 Hg Hin) as (A & tz & Hz & Hlt). split; [exact A|]. destruct (Hpres _ _ Hz) as (tz' & Hz' & Er & _). exists tz'. rewrite Erq, Er. auto.
        * inversion E; subst y0 v0. split; [exact Hv|]. exists t'. rewrite Hfind, tid_eqb_refl, Erq. split; [reflexivity | exact Hrqlt].
      + destruct (Pa u0 y0 v0 Hu0' Hin) as (A & tz & Hz & Hlt). split; [exact A|]. destruct (Hpres _ _ Hz) as (tz' & Hz' & Er & _). exists tz'. rewrite Erq, Er. auto.
    - intros id tz w0 ws Hid Hz Hst. rewrite Hfind in Hz. destruct (tid_eqb id y) eqn:E; [apply tid_eqb_eq in E; subst id; contradiction|]. rewrite Erq. eapply Pm; eassumption. }
  constructor.
  - (* SP *)
    apply (SP_sched_point s c (pdM c m mn) c' (pdM c' (wu_set m u') mn) y t t' (fun w' => if N.eqb w' w then [IDC (Some v) false] else []) (ri_sp _ _ _ _ _ HR) Hy Hfind Hcs Erq).
    + intros r0 Hr0. rewrite Ered in Hr0. exact (sp_rvr _ _ _ _ (ri_sp _ _ _ _ _ HR) _ Hr0).
    + intros w' z Hz. rewrite Hfr, (items_wu_set c m mn u' w' z Hnd), (items_pdM c m mn w' z Hnd). cbn [u' wu_w].
      destruct (N.eqb w' w) eqn:E; [|reflexivity]. apply N.eqb_eq in E. subst w'. fold u. unfold uit. cbn [u' wu_assigned wu_prefills wu_retracts].
      rewrite cit_snoc, sel_other by congruence. rewrite app_nil_r. reflexivity.
    + intros w'. rewrite Hfr, (items_wu_set c m mn u' w' y Hnd), (items_pdM c m mn w' y Hnd), (mit_notin c mn w' y Hnmn), !app_nil_r. cbn [u' wu_w].
      destruct (N.eqb w' w) eqn:E; [|rewrite app_nil_r; reflexivity]. apply N.eqb_eq in E. subst w'. fold u. unfold uit. cbn [u' wu_assigned wu_prefills wu_retracts].
      rewrite cit_snoc, sel_same, !app_assoc. reflexivity.
    + intros w' p U L D Hp Hl. rewrite Est in Hl. cbn [view_of] in Hl. cbn [t' with_state t_state view_of]. rewrite (N.eqb_sym w w').
      destruct (N.eqb w' w); [apply LA_asg; exact Hl | rewrite app_nil_r; exact Hl].
    + unfold mn_task_ok. cbn [t' with_state t_state t_rq]. rewrite Erq, Hr, Hmn. reflexivity.
    + pose proof (sp_jr _ _ _ _ (ri_sp _ _ _ _ _ HR) _ _ Hy eq_refl) as J. unfold jr_ok in *. rewrite Est in J. cbn [t' with_state t_state t_id]. exact J.
    + intros w1 rv E. cbn [t' with_state t_state] in E. injection E as E1 E2. rewrite <- E2. exact Hv.
    + intros w' p Hp. eapply RI_tab; eassumption.
    + intros w' z Hz. apply pdM_tids in Hz. destruct Hz as [(u0 & Hu0 & Hz)|Hz]; [|apply (ri_ment _ _ _ _ _ HR); right; exact Hz].
      destruct (wu_set_in _ _ _ Hu0) as [->|Hu0']; [|apply (ri_ment _ _ _ _ _ HR); left; exists u0; auto].
      cbn [u' wu_retracts wu_prefills wu_assigned] in Hz. rewrite map_app, in_app_iff in Hz.
      destruct (wu_get_in m w) as [Hg|Hg]; fold u in Hg.
      * destruct Hz as [Hz|[Hz|[Hz|Hz]]]; [apply (ri_ment _ _ _ _ _ HR); left; exists u; auto .. |].
        cbn in Hz. destruct Hz as [<-|[]]. congruence.
      * rewrite Hg in Hz. cbn in Hz. destruct Hz as [[]|[[]|[[]|[<-|[]]]]]. congruence.
  - apply wu_set_nodup. exact Hnd.
  - exact HP'.
  - intros z Hz. assert (Hc : find_task (c_tasks c) z <> None).
    { destruct Hz as [(u0 & Hu0 & Hz)|Hz]; [|apply (ri_ment _ _ _ _ _ HR); right; exact Hz].
      destruct (wu_set_in _ _ _ Hu0) as [->|Hu0']; [|apply (ri_ment _ _ _ _ _ HR); left; exists u0; auto].
      cbn [u' wu_retracts wu_prefills wu_assigned] in Hz. rewrite map_app, in_app_iff in Hz.
      destruct (wu_get_in m w) as [Hg|Hg]; fold u in Hg.
      - destruct Hz as [Hz|[Hz|[Hz|Hz]]]; [apply (ri_ment _ _ _ _ _ HR); left; exists u; auto .. |]. cbn in Hz. destruct Hz as [<-|[]]. congruence.
      - rewrite Hg in Hz. cbn in Hz. destruct Hz as [[]|[[]|[[]|[<-|[]]]]]. congruence. }
    destruct (find_task (c_tasks c) z) as [tz|] eqn:E; [|congruence]. destruct (Hpres _ _ E) as (tz' & Hz' & _). congruence.
  - apply (QR_tasks c c' (ri_qr _ _ _ _ _ HR) Eq). intros id tz Hz. destruct (Hpres _ _ Hz) as (tz' & A & B & _). eauto.
  - intros Hpf u0 Hu0. destruct (wu_set_in _ _ _ Hu0) as [->|Hu0']; [|eapply (ri_pf _ _ _ _ _ HR); eassumption].
    cbn [u' wu_prefills]. destruct (wu_get_in m w) as [Hg|Hg]; fold u in Hg; [eapply (ri_pf _ _ _ _ _ HR); eassumption | rewrite Hg; reflexivity].
  - intros u0 y0 v0 Hu0 Hin. destruct (wu_set_in _ _ _ Hu0) as [->|Hu0'].
    + cbn [u' wu_assigned wu_w] in *. apply in_app_iff in Hin. destruct Hin as [Hin|[E|[]]].
      * destruct (wu_get_in m w) as [Hg|Hg]; fold u in Hg; [|rewrite Hg in Hin; destruct Hin].
        destruct (ri_asg _ _ _ _ _ HR u y0 v0 Hg Hin) as (tz & Hz & Hst). unfold u in Hst. rewrite wu_get_key in Hst.
        assert (y0 <> y) by (intros ->; rewrite Hy in Hz; inversion Hz; subst tz; rewrite Est in Hst; discriminate).
        exists tz. rewrite Hfind. apply tid_eqb_neq in H. rewrite H. auto.
      * inversion E; subst y0 v0. exists t'. rewrite Hfind, tid_eqb_refl. auto.
    + destruct (ri_asg _ _ _ _ _ HR u0 y0 v0 Hu0' Hin) as (tz & Hz & Hst).
      assert (y0 <> y) by (intros ->; rewrite Hy in Hz; inversion Hz; subst tz; rewrite Est in Hst; discriminate).
      exists tz. rewrite Hfind. apply tid_eqb_neq in H. rewrite H. auto.
  - intros u0 Hu0. destruct (wu_set_in _ _ _ Hu0) as [->|Hu0']; [|eapply (ri_nda _ _ _ _ _ HR); eassumption].
    cbn [u' wu_assigned]. rewrite map_app. cbn [map fst].
    assert (Hn1 : NoDup (map fst (wu_assigned u))) by (destruct (wu_get_in m w) as [Hg|Hg]; fold u in Hg; [eapply (ri_nda _ _ _ _ _ HR); exact Hg | rewrite Hg; constructor]).
    assert (Hn2 : ~ In y (map fst (wu_assigned u))) by (eapply get_not_asg; [exact HR | exact Hy | intros w1 v1; rewrite Est; discriminate]).
    clear -Hn1 Hn2. induction (map fst (wu_assigned u)) as [|h l IH]; cbn [app]; [constructor; [intros [] | constructor]|].
    inversion Hn1; subst. constructor; [rewrite in_app_iff; intros [X|[X|[]]]; [contradiction | subst; apply Hn2; left; reflexivity] | apply IH; [assumption | intros X; apply Hn2; right; exact X]].
  - intros id Hid. destruct (ri_mnst _ _ _ _ _ HR id Hid) as (tz & ws & Hz & Hst). exists tz, ws. rewrite Hfind.
    destruct (tid_eqb id y) eqn:E; [apply tid_eqb_eq in E; subst id; contradiction | auto].
  - rewrite Erq. exact (ri_rq _ _ _ _ _ HR).
Qed.

(** * Frame: the tasks do not change *)
Lemma pdM_tasks_same c c' m mn : c_tasks c' = c_tasks c -> pdM c' m mn = pdM c m mn.
Proof.
  intros Et. unfold pdM. f_equal.
  - induction m as [|u r IH]; [reflexivity|]. cbn [flat_map]. rewrite IH. f_equal. apply umsgs_frame. intros z. rewrite Et. reflexivity.
  - apply map_ext. intros id. unfold mnmsg. rewrite Et. reflexivity.
Qed.

Lemma RI_frame pf s c c' m mn :
  RI pf s c m mn -> c_tasks c' = c_tasks c -> c_rqs c' = c_rqs c -> QR c' ->
  (forall r, In r (c_redirects c') -> snd (snd r) = 0) -> RI pf s c' m mn.
Proof.
  intros HR Et Erq Hq Hred.
  assert (Hpd : pdM c' m mn = pdM c m mn) by (apply pdM_tasks_same; exact Et).
  destruct HR as [S1 S2 S3 S4 S5 S6 S7 S8 S9 S10]. constructor; try assumption.
  - rewrite Hpd. change (st_core s c') with (mkSys c' (hq_of (st_core s c)) (s_procs (fst (st_core s c))), snd (st_core s c)).
    apply (SP_gen (fun _ => false) x0 x0 (st_core s c) no_pum (pdM c m mn) c' _ _ no_pum (pdM c m mn) S1).
    + unfold tsorted. rewrite Et. exact (sp_cs _ _ _ _ S1).
    + exact Erq.
    + exact Hred.
    + intros z tz _ Hz _. rewrite Et in Hz. exists tz. repeat split; assumption.
    + intros w' z _. split; reflexivity.
    + auto.
    + intros z tz Hz. rewrite Et in Hz. change (core_of (st_core s c)) with c. congruence.
    + intros w' p z Hp Hz. eapply (sp_seen _ _ _ _ S1); [exact Hp | right; exact Hz].
    + intros w' p Hp. split; [rewrite Erq; exact (sp_down _ _ _ _ S1 _ _ Hp) | reflexivity].
    + auto.
    + intros x tx E. discriminate.
  - destruct S3 as [Pa Pm]. split.
    + intros u y v Hu Hin. rewrite Et, Erq. eapply Pa; eassumption.
    + intros id t w0 ws Hid Hf Hst. rewrite Et in Hf. rewrite Erq. eapply Pm; eassumption.
  - intros y Hy. rewrite Et. apply S4. exact Hy.
  - intros u y v Hu Hin. rewrite Et. eapply S7; eassumption.
  - intros id Hid. rewrite Et. apply S9. exact Hid.
  - rewrite Erq. exact S10.
Qed.

Lemma set_redirect_in rs id v r : In r (set_redirect rs id v) -> r = (id, v) \/ In r rs.
Proof.
  induction rs as [|[k v0] t IH]; cbn [set_redirect In]; [intros [H|[]]; auto|].
  destruct (tid_eqb id k); cbn [In]; [intros [H|H]; auto|]. destruct (tid_ltb id k); cbn [In]; [intros [H|[H|H]]; auto|].
  intros [H|H]; [auto|]. destruct (IH H); auto.
Qed.

(** * Transition 3: a prefilled task is taken for another worker *)
Lemma RI_retract s c c' m mn y t old :
  RI false s c m mn -> find_task (c_tasks c) y = Some t -> t_state t = Prefilled old ->
  (forall z, find_task (c_tasks c') z = if tid_eqb z y then Some (with_state t (Retracting old)) else find_task (c_tasks c) z) ->
  tsorted c' -> c_rqs c' = c_rqs c -> (forall r, In r (c_redirects c') -> snd (snd r) = 0) -> c_queues c' = c_queues c ->
  RI false s c' (wu_set m (mkWU old (wu_assigned (wu_get m old)) (wu_prefills (wu_get m old)) (wu_retracts (wu_get m old) ++ [y]))) mn.
Proof.
  intros HR Hy Est Hfind Hcs Erq Hred Eq.
  set (u := wu_get m old). set (u' := mkWU old (wu_assigned u) (wu_prefills u) (wu_retracts u ++ [y])).
  set (t' := with_state t (Retracting old)) in *.
  assert (Hnmn : ~ In y mn) by (eapply RI_not_mn; [exact HR | exact Hy | intros ws; rewrite Est; discriminate]).
  assert (Hfr : forall m0, pdM c' m0 mn = pdM c m0 mn) by (intros m0; apply (pdM_frame c c' m0 mn y t t' Hy Hfind eq_refl Hnmn)).
  pose proof (ri_nd _ _ _ _ _ HR) as Hnd.
  assert (Hpre : wu_prefills u = []) by (destruct (wu_get_in m old) as [Hg|Hg]; fold u in Hg; [exact (ri_pf _ _ _ _ _ HR eq_refl u Hg) | rewrite Hg; reflexivity]).
  assert (Hna : ~ In y (map fst (wu_assigned u))) by (eapply get_not_asg; [exact HR | exact Hy | intros w1 v1; rewrite Est; discriminate]).
  assert (Hpres : forall z tz, find_task (c_tasks c) z = Some tz -> exists tz', find_task (c_tasks c') z = Some tz' /\ t_rq tz' = t_rq tz /\ (z <> y -> tz' = tz)).
  { intros z tz Hz. rewrite Hfind. destruct (tid_eqb z y) eqn:E; [apply tid_eqb_eq in E; subst z; rewrite Hy in Hz; inversion Hz; subst tz; exists t'; repeat split; intros X; congruence|].
    exists tz. repeat split; auto. }
  assert (Hin' : forall u0, In u0 (wu_set m u') -> u0 = u' \/ In u0 m) by (intros u0; apply wu_set_in).
  assert (Hug : In u m \/ u = mkWU old [] [] []) by (apply wu_get_in).
  assert (HP' : POK c' (wu_set m u') mn).
  { destruct (ri_ok _ _ _ _ _ HR) as [Pa Pm]. split.
    - intros u0 y0 v0 Hu0 Hin. assert (Hold : exists u1, In u1 m /\ In (y0, v0) (wu_assigned u1)).
      { destruct (Hin' _ Hu0) as [->|Hu0']; [|eauto]. cbn [u' wu_assigned] in Hin. destruct Hug as [Hg|Hg]; [eauto | rewrite Hg in Hin; destruct Hin]. }
      destruct Hold as (u1 & Hu1 & Hin1). destruct (Pa u1 y0 v0 Hu1 Hin1) as (A & tz & Hz & Hlt). split; [exact A|].
      destruct (Hpres _ _ Hz) as (tz' & Hz' & Er & _). exists tz'. rewrite Erq, Er. auto.
    - intros id tz w0 ws Hid Hz Hst. rewrite Hfind in Hz. destruct (tid_eqb id y) eqn:E; [apply tid_eqb_eq in E; subst id; contradiction|]. rewrite Erq. eapply Pm; eassumption. }
  assert (Hment : forall z, ment (wu_set m u') mn z -> find_task (c_tasks c) z <> None).
  { intros z [(u0 & Hu0 & Hz)|Hz]; [|apply (ri_ment _ _ _ _ _ HR); right; exact Hz].
    destruct (Hin' _ Hu0) as [->|Hu0']; [|apply (ri_ment _ _ _ _ _ HR); left; exists u0; auto].
    cbn [u' wu_retracts wu_prefills wu_assigned] in Hz. rewrite in_app_iff in Hz.
    destruct Hug as [Hg|Hg].
    - destruct Hz as [[Hz|Hz]|[Hz|Hz]]; [apply (ri_ment _ _ _ _ _ HR); left; exists u; auto | cbn in Hz; destruct Hz as [<-|[]]; congruence | apply (ri_ment _ _ _ _ _ HR); left; exists u; auto ..].
    - rewrite Hg in Hz. cbn in Hz. destruct Hz as [[[]|[<-|[]]]|[[]|[]]]. congruence. }
  constructor.
  - apply (SP_sched_point s c (pdM c m mn) c' (pdM c' (wu_set m u') mn) y t t' (fun w' => if N.eqb w' old then [IDRet] else []) (ri_sp _ _ _ _ _ HR) Hy Hfind Hcs Erq Hred).
    + intros w' z Hz. rewrite Hfr, (items_wu_set c m mn u' w' z Hnd), (items_pdM c m mn w' z Hnd). cbn [u' wu_w].
      destruct (N.eqb w' old) eqn:E; [|reflexivity]. apply N.eqb_eq in E. subst w'. fold u. unfold uit. cbn [u' wu_assigned wu_prefills wu_retracts].
      rewrite dret_snoc', sel_other by congruence. rewrite app_nil_r. reflexivity.
    + intros w'. rewrite Hfr, (items_wu_set c m mn u' w' y Hnd), (items_pdM c m mn w' y Hnd), (mit_notin c mn w' y Hnmn), !app_nil_r. cbn [u' wu_w].
      destruct (N.eqb w' old) eqn:E; [|rewrite app_nil_r; reflexivity]. apply N.eqb_eq in E. subst w'. fold u. unfold uit. cbn [u' wu_assigned wu_prefills wu_retracts].
      rewrite dret_snoc', sel_same, Hpre, (cit_notin _ _ Hna). cbn [pit flat_map app]. rewrite !app_nil_r. reflexivity.
    + intros w' p U L D Hp Hl. rewrite Est in Hl. cbn [view_of] in Hl. cbn [t' with_state t_state view_of]. rewrite (N.eqb_sym old w') in Hl |- *.
      destruct (N.eqb w' old); [apply LA_ret; exact Hl | rewrite app_nil_r; exact Hl].
    + pose proof (sp_mnt _ _ _ _ (ri_sp _ _ _ _ _ HR) _ _ Hy eq_refl) as M. unfold mn_task_ok in *. rewrite Est in M. cbn [t' with_state t_state t_rq]. rewrite Erq. exact M.
    + pose proof (sp_jr _ _ _ _ (ri_sp _ _ _ _ _ HR) _ _ Hy eq_refl) as J. unfold jr_ok in *. rewrite Est in J. cbn [t' with_state t_state t_id]. exact J.
    + intros w1 rv E. cbn [t' with_state t_state] in E. discriminate.
    + intros w' p Hp. eapply RI_tab; eassumption.
    + intros w' z Hz. apply Hment. eapply pdM_tids. exact Hz.
  - apply wu_set_nodup. exact Hnd.
  - exact HP'.
  - intros z Hz. pose proof (Hment z Hz) as Hc. destruct (find_task (c_tasks c) z) as [tz|] eqn:E; [|congruence]. destruct (Hpres _ _ E) as (tz' & Hz' & _). congruence.
  - apply (QR_tasks c c' (ri_qr _ _ _ _ _ HR) Eq). intros id tz Hz. destruct (Hpres _ _ Hz) as (tz' & A & B & _). eauto.
  - intros _ u0 Hu0. destruct (Hin' _ Hu0) as [->|Hu0']; [exact Hpre | exact (ri_pf _ _ _ _ _ HR eq_refl u0 Hu0')].
  - intros u0 y0 v0 Hu0 Hin. assert (Hold : exists u1, In u1 m /\ In (y0, v0) (wu_assigned u1) /\ wu_w u1 = wu_w u0).
    { destruct (Hin' _ Hu0) as [->|Hu0']; [|eauto]. cbn [u' wu_assigned wu_w] in *. destruct Hug as [Hg|Hg]; [exists u; repeat split; auto; unfold u; apply wu_get_key | rewrite Hg in Hin; destruct Hin]. }
    destruct Hold as (u1 & Hu1 & Hin1 & Ew). destruct (ri_asg _ _ _ _ _ HR u1 y0 v0 Hu1 Hin1) as (tz & Hz & Hst). rewrite Ew in Hst.
    assert (y0 <> y) by (intros ->; rewrite Hy in Hz; inversion Hz; subst tz; rewrite Est in Hst; discriminate).
    exists tz. rewrite Hfind. apply tid_eqb_neq in H. rewrite H. auto.
  - intros u0 Hu0. destruct (Hin' _ Hu0) as [->|Hu0']; [|eapply (ri_nda _ _ _ _ _ HR); eassumption]. cbn [u' wu_assigned].
    destruct Hug as [Hg|Hg]; [eapply (ri_nda _ _ _ _ _ HR); exact Hg | rewrite Hg; constructor].
  - intros id Hid. destruct (ri_mnst _ _ _ _ _ HR id Hid) as (tz & ws & Hz & Hst). exists tz, ws. rewrite Hfind.
    destruct (tid_eqb id y) eqn:E; [apply tid_eqb_eq in E; subst id; contradiction | auto].
  - rewrite Erq. exact (ri_rq _ _ _ _ _ HR).
Qed.

(** * Transition 5: a waiting task is sent ahead to a worker (prefill) *)
Lemma RI_prefill s c c' m mn y t w n r :
  RI true s c m mn -> find_task (c_tasks c) y = Some t -> t_state t = Waiting n ->
  nth_error (c_rqs c) (N.to_nat (t_rq t)) = Some r -> rq_is_mn r = false ->
  (forall z, find_task (c_tasks c') z = if tid_eqb z y then Some (with_state t (Prefilled w)) else find_task (c_tasks c) z) ->
  tsorted c' -> c_rqs c' = c_rqs c -> c_redirects c' = c_redirects c -> c_queues c' = c_queues c ->
  RI true s c' (wu_set m (mkWU w (wu_assigned (wu_get m w)) (wu_prefills (wu_get m w) ++ [y]) (wu_retracts (wu_get m w)))) mn.
Proof.
  intros HR Hy Est Hr Hmn Hfind Hcs Erq Ered Eq.
  set (u := wu_get m w). set (u' := mkWU w (wu_assigned u) (wu_prefills u ++ [y]) (wu_retracts u)).
  set (t' := with_state t (Prefilled w)) in *.
  assert (Hnmn : ~ In y mn) by (eapply RI_not_mn; [exact HR | exact Hy | intros ws; rewrite Est; discriminate]).
  assert (Hfr : forall m0, pdM c' m0 mn = pdM c m0 mn) by (intros m0; apply (pdM_frame c c' m0 mn y t t' Hy Hfind eq_refl Hnmn)).
  pose proof (ri_nd _ _ _ _ _ HR) as Hnd.
  assert (Hna : ~ In y (map fst (wu_assigned u))) by (eapply get_not_asg; [exact HR | exact Hy | intros w1 v1; rewrite Est; discriminate]).
  assert (Hpres : forall z tz, find_task (c_tasks c) z = Some tz -> exists tz', find_task (c_tasks c') z = Some tz' /\ t_rq tz' = t_rq tz /\ (z <> y -> tz' = tz)).
  { intros z tz Hz. rewrite Hfind. destruct (tid_eqb z y) eqn:E; [apply tid_eqb_eq in E; subst z; rewrite Hy in Hz; inversion Hz; subst tz; exists t'; repeat split; intros X; congruence|].
    exists tz. repeat split; auto. }
  assert (Hin' : forall u0, In u0 (wu_set m u') -> u0 = u' \/ In u0 m) by (intros u0; apply wu_set_in).
  assert (Hug : In u m \/ u = mkWU w [] [] []) by (apply wu_get_in).
  assert (HP' : POK c' (wu_set m u') mn).
  { destruct (ri_ok _ _ _ _ _ HR) as [Pa Pm]. split.
    - intros u0 y0 v0 Hu0 Hin. assert (Hold : exists u1, In u1 m /\ In (y0, v0) (wu_assigned u1)).
      { destruct (Hin' _ Hu0) as [->|Hu0']; [|eauto]. cbn [u' wu_assigned] in Hin. destruct Hug as [Hg|Hg]; [eauto | rewrite Hg in Hin; destruct Hin]. }
      destruct Hold as (u1 & Hu1 & Hin1). destruct (Pa u1 y0 v0 Hu1 Hin1) as (A & tz & Hz & Hlt). split; [exact A|].
      destruct (Hpres _ _ Hz) as (tz' & Hz' & Er & _). exists tz'. rewrite Erq, Er. auto.
    - intros id tz w0 ws Hid Hz Hst. rewrite Hfind in Hz. destruct (tid_eqb id y) eqn:E; [apply tid_eqb_eq in E; subst id; contradiction|]. rewrite Erq. eapply Pm; eassumption. }
  assert (Hment : forall z, ment (wu_set m u') mn z -> find_task (c_tasks c) z <> None).
  { intros z [(u0 & Hu0 & Hz)|Hz]; [|apply (ri_ment _ _ _ _ _ HR); right; exact Hz].
    destruct (Hin' _ Hu0) as [->|Hu0']; [|apply (ri_ment _ _ _ _ _ HR); left; exists u0; auto].
    cbn [u' wu_retracts wu_prefills wu_assigned] in Hz. rewrite in_app_iff in Hz.
    destruct Hug as [Hg|Hg].
    - destruct Hz as [Hz|[[Hz|Hz]|Hz]]; [apply (ri_ment _ _ _ _ _ HR); left; exists u; auto | apply (ri_ment _ _ _ _ _ HR); left; exists u; auto | cbn in Hz; destruct Hz as [<-|[]]; congruence | apply (ri_ment _ _ _ _ _ HR); left; exists u; auto].
    - rewrite Hg in Hz. cbn in Hz. destruct Hz as [[]|[[[]|[<-|[]]]|[]]]. congruence. }
  constructor.
  - apply (SP_sched_point s c (pdM c m mn) c' (pdM c' (wu_set m u') mn) y t t' (fun w' => if N.eqb w' w then [IDC None false] else []) (ri_sp _ _ _ _ _ HR) Hy Hfind Hcs Erq).
    + intros r0 Hr0. rewrite Ered in Hr0. exact (sp_rvr _ _ _ _ (ri_sp _ _ _ _ _ HR) _ Hr0).
    + intros w' z Hz. rewrite Hfr, (items_wu_set c m mn u' w' z Hnd), (items_pdM c m mn w' z Hnd). cbn [u' wu_w].
      destruct (N.eqb w' w) eqn:E; [|reflexivity]. apply N.eqb_eq in E. subst w'. fold u. unfold uit. cbn [u' wu_assigned wu_prefills wu_retracts].
      rewrite pit_snoc, sel_other by congruence. rewrite app_nil_r. reflexivity.
    + intros w'. rewrite Hfr, (items_wu_set c m mn u' w' y Hnd), (items_pdM c m mn w' y Hnd), (mit_notin c mn w' y Hnmn), !app_nil_r. cbn [u' wu_w].
      destruct (N.eqb w' w) eqn:E; [|rewrite app_nil_r; reflexivity]. apply N.eqb_eq in E. subst w'. fold u. unfold uit. cbn [u' wu_assigned wu_prefills wu_retracts].
      rewrite pit_snoc, sel_same, (cit_notin _ _ Hna), !app_nil_r, !app_assoc. reflexivity.
    + intros w' p U L D Hp Hl. rewrite Est in Hl. cbn [view_of] in Hl. cbn [t' with_state t_state view_of]. rewrite (N.eqb_sym w w').
      destruct (N.eqb w' w); [apply LA_pre; exact Hl | rewrite app_nil_r; exact Hl].
    + unfold mn_task_ok. cbn [t' with_state t_state t_rq]. rewrite Erq, Hr, Hmn. reflexivity.
    + pose proof (sp_jr _ _ _ _ (ri_sp _ _ _ _ _ HR) _ _ Hy eq_refl) as J. unfold jr_ok in *. rewrite Est in J. cbn [t' with_state t_state t_id]. exact J.
    + intros w1 rv E. cbn [t' with_state t_state] in E. discriminate.
    + intros w' p Hp. eapply RI_tab; eassumption.
    + intros w' z Hz. apply Hment. eapply pdM_tids. exact Hz.
  - apply wu_set_nodup. exact Hnd.
  - exact HP'.
  - intros z Hz. pose proof (Hment z Hz) as Hc. destruct (find_task (c_tasks c) z) as [tz|] eqn:E; [|congruence]. destruct (Hpres _ _ E) as (tz' & Hz' & _). congruence.
  - apply (QR_tasks c c' (ri_qr _ _ _ _ _ HR) Eq). intros id tz Hz. destruct (Hpres _ _ Hz) as (tz' & A & B & _). eauto.
  - discriminate.
  - intros u0 y0 v0 Hu0 Hin. assert (Hold : exists u1, In u1 m /\ In (y0, v0) (wu_assigned u1) /\ wu_w u1 = wu_w u0).
    { destruct (Hin' _ Hu0) as [->|Hu0']; [|eauto]. cbn [u' wu_assigned wu_w] in *. destruct Hug as [Hg|Hg]; [exists u; repeat split; auto; unfold u; apply wu_get_key | rewrite Hg in Hin; destruct Hin]. }
    destruct Hold as (u1 & Hu1 & Hin1 & Ew). destruct (ri_asg _ _ _ _ _ HR u1 y0 v0 Hu1 Hin1) as (tz & Hz & Hst). rewrite Ew in Hst.
    assert (y0 <> y) by (intros ->; rewrite Hy in Hz; inversion Hz; subst tz; rewrite Est in Hst; discriminate).
    exists tz. rewrite Hfind. apply tid_eqb_neq in H. rewrite H. auto.
  - intros u0 Hu0. destruct (Hin' _ Hu0) as [->|Hu0']; [|eapply (ri_nda _ _ _ _ _ HR); eassumption]. cbn [u' wu_assigned].
    destruct Hug as [Hg|Hg]; [eapply (ri_nda _ _ _ _ _ HR); exact Hg | rewrite Hg; constructor].
  - intros id Hid. destruct (ri_mnst _ _ _ _ _ HR id Hid) as (tz & ws & Hz & Hst). exists tz, ws. rewrite Hfind.
    destruct (tid_eqb id y) eqn:E; [apply tid_eqb_eq in E; subst id; contradiction | auto].
  - rewrite Erq. exact (ri_rq _ _ _ _ _ HR).
Qed.

(** * Transition 4: a waiting task is placed on several workers *)
Lemma RI_mn pf s c c' m mn y t n ws r :
  RI pf s c m mn -> find_task (c_tasks c) y = Some t -> t_state t = Waiting n ->
  nth_error (c_rqs c) (N.to_nat (t_rq t)) = Some r -> rq_is_mn r = true ->
  (forall z, find_task (c_tasks c') z = if tid_eqb z y then Some (with_state t (RunningMN ws)) else find_task (c_tasks c) z) ->
  tsorted c' -> c_rqs c' = c_rqs c -> c_redirects c' = c_redirects c -> c_queues c' = c_queues c ->
  RI pf s c' m (mn ++ [y]).
Proof.
  intros HR Hy Est Hr Hmn Hfind Hcs Erq Ered Eq.
  set (t' := with_state t (RunningMN ws)) in *.
  destruct (find_task_some _ _ _ Hy) as [_ Eid].
  assert (Hnmn : ~ In y mn) by (eapply RI_not_mn; [exact HR | exact Hy | intros ws0; rewrite Est; discriminate]).
  pose proof (ri_nd _ _ _ _ _ HR) as Hnd.
  assert (Hpd : pdM c' m (mn ++ [y]) = pdM c m mn ++ [mnmsg c' y]).
  { unfold pdM. rewrite map_app, app_assoc. cbn [map]. f_equal. exact (pdM_frame c c' m mn y t t' Hy Hfind eq_refl Hnmn). }
  assert (Hpres : forall z tz, find_task (c_tasks c) z = Some tz -> exists tz', find_task (c_tasks c') z = Some tz' /\ t_rq tz' = t_rq tz /\ (z <> y -> tz' = tz)).
  { intros z tz Hz. rewrite Hfind. destruct (tid_eqb z y) eqn:E; [apply tid_eqb_eq in E; subst z; rewrite Hy in Hz; inversion Hz; subst tz; exists t'; repeat split; intros X; congruence|].
    exists tz. repeat split; auto. }
  assert (Hzero : zero_res r = true).
  { pose proof (sp_mnrq _ _ _ _ (ri_sp _ _ _ _ _ HR)) as M. unfold mn_rqs_ok in M. rewrite forallb_forall in M.
    specialize (M r (nth_error_In _ _ Hr)). rewrite Hmn in M. exact M. }
  assert (HP' : POK c' m (mn ++ [y])).
  { destruct (ri_ok _ _ _ _ _ HR) as [Pa Pm]. split.
    - intros u0 y0 v0 Hu0 Hin. destruct (Pa u0 y0 v0 Hu0 Hin) as (A & tz & Hz & Hlt). split; [exact A|].
      destruct (Hpres _ _ Hz) as (tz' & Hz' & Er & _). exists tz'. rewrite Erq, Er. auto.
    - intros id tz w0 ws0 Hid Hz Hst. rewrite Hfind in Hz. destruct (tid_eqb id y) eqn:E.
      + inversion Hz; subst tz. exists r. cbn [t' with_state t_rq]. rewrite Erq. auto.
      + apply in_app_iff in Hid. destruct Hid as [Hid|[<-|[]]]; [rewrite Erq; eapply Pm; eassumption | rewrite tid_eqb_refl in E; discriminate]. }
  assert (Hment : forall z, ment m (mn ++ [y]) z -> find_task (c_tasks c) z <> None).
  { intros z [Hz|Hz]; [apply (ri_ment _ _ _ _ _ HR); left; exact Hz|]. apply in_app_iff in Hz. destruct Hz as [Hz|[<-|[]]]; [apply (ri_ment _ _ _ _ _ HR); right; exact Hz | congruence]. }
  assert (Hjr : job_running (hq_of s) y = false).
  { pose proof (sp_jr _ _ _ _ (ri_sp _ _ _ _ _ HR) _ _ Hy eq_refl) as J. unfold jr_ok in J. rewrite Est, Eid in J. apply negb_true_iff in J. exact J. }
  constructor.
  - apply (SP_sched_point s c (pdM c m mn) c' (pdM c' m (mn ++ [y])) y t t' (fun w' => ditems y (msgs_for w' [mnmsg c' y])) (ri_sp _ _ _ _ _ HR) Hy Hfind Hcs Erq).
    + intros r0 Hr0. rewrite Ered in Hr0. exact (sp_rvr _ _ _ _ (ri_sp _ _ _ _ _ HR) _ Hr0).
    + intros w' z Hz. rewrite Hpd, msgs_for_app, ditems_app, (mnmsg_items c' y w' z Hz), app_nil_r. reflexivity.
    + intros w'. rewrite Hpd, msgs_for_app, ditems_app. reflexivity.
    + intros w' p U L D Hp Hl. rewrite Est in Hl. cbn [view_of] in Hl. rewrite Hjr.
      unfold mnmsg. rewrite Hfind, tid_eqb_refl. unfold t'. cbn [with_state t_state].
      destruct ws as [|w0 ws0]; [cbn [view_of]; rewrite msgs_for_cons, msgs_for_nil; destruct (N.eqb 0 w'); cbn; rewrite app_nil_r; exact Hl|].
      cbn [view_of]. rewrite msgs_for_cons, msgs_for_nil. destruct (N.eqb w0 w'); [|cbn; rewrite app_nil_r; exact Hl].
      cbn [ditems flat_map ditems_msg ctask_of ct_id ct_rv ct_nodes is_nil negb with_state t_id]. rewrite Eid, sel_same. cbn [app]. apply LA_mn. exact Hl.
    + unfold mn_task_ok. cbn [t' with_state t_state t_rq]. rewrite Erq, Hr. exact Hmn.
    + reflexivity.
    + intros w1 rv E. cbn [t' with_state t_state] in E. discriminate.
    + intros w' p Hp. eapply RI_tab; eassumption.
    + intros w' z Hz. apply Hment. eapply pdM_tids. exact Hz.
  - exact Hnd.
  - exact HP'.
  - intros z Hz. pose proof (Hment z Hz) as Hc. destruct (find_task (c_tasks c) z) as [tz|] eqn:E; [|congruence]. destruct (Hpres _ _ E) as (tz' & Hz' & _). congruence.
  - apply (QR_tasks c c' (ri_qr _ _ _ _ _ HR) Eq). intros id tz Hz. destruct (Hpres _ _ Hz) as (tz' & A & B & _). eauto.
  - exact (ri_pf _ _ _ _ _ HR).
  - intros u0 y0 v0 Hu0 Hin. destruct (ri_asg _ _ _ _ _ HR u0 y0 v0 Hu0 Hin) as (tz & Hz & Hst).
    assert (y0 <> y) by (intros ->; rewrite Hy in Hz; inversion Hz; subst tz; rewrite Est in Hst; discriminate).
    exists tz. rewrite Hfind. apply tid_eqb_neq in H. rewrite H. auto.
  - exact (ri_nda _ _ _ _ _ HR).
  - intros id Hid. apply in_app_iff in Hid. destruct Hid as [Hid|[<-|[]]].
    + destruct (ri_mnst _ _ _ _ _ HR id Hid) as (tz & ws0 & Hz & Hst). exists tz, ws0. rewrite Hfind.
      destruct (tid_eqb id y) eqn:E; [apply tid_eqb_eq in E; subst id; contradiction | auto].
    + exists t', ws. rewrite Hfind, tid_eqb_refl. auto.
  - rewrite Erq. exact (ri_rq _ _ _ _ _ HR).
Qed.

(** * [map_one] *)
Definition RQP (c c' : core) : Prop := forall z t', find_task (c_tasks c') z = Some t' -> exists t, find_task (c_tasks c) z = Some t /\ t_rq t' = t_rq t.
Lemma RQP_refl c : RQP c c. Proof. intros z t' H. eauto. Qed.
Lemma RQP_trans a b c : RQP a b -> RQP b c -> RQP a c.
Proof. intros H1 H2 z t' H. destruct (H2 _ _ H) as (t1 & A & B). destruct (H1 _ _ A) as (t0 & C & D). exists t0. split; [exact C | congruence]. Qed.
Lemma RQP_tasks c c' : c_tasks c' = c_tasks c -> RQP c c'.
Proof. intros E z t' H. rewrite E in H. eauto. Qed.
Lemma RQP_upd c y t st' c' : find_task (c_tasks c) y = Some t ->
  (forall z, find_task (c_tasks c') z = if tid_eqb z y then Some (with_state t st') else find_task (c_tasks c) z) -> RQP c c'.
Proof.
  intros Hy Hf z t' H. rewrite Hf in H. destruct (tid_eqb z y) eqn:E; [|eauto]. apply tid_eqb_eq in E. subst z. inversion H; subst t'. exists t. auto.
Qed.

Lemma get_task_find ts id t : get_task ts id = Ok t -> find_task ts id = Some t.
Proof. unfold get_task. destruct (find_task ts id); intros H; inversion H; reflexivity. Qed.

Lemma QR_same c c' : QR c -> c_queues c' = c_queues c -> c_tasks c' = c_tasks c -> QR c'.
Proof. intros HQ Eq Et. apply (QR_tasks c c' HQ Eq). intros id t H. rewrite Et. eauto. Qed.

Lemma map_one_RI s c m mn id w v rqres c' m' :
  RI false s c m mn -> v = 0 ->
  (forall t, find_task (c_tasks c) id = Some t -> exists r, nth_error (c_rqs c) (N.to_nat (t_rq t)) = Some r /\ rq_is_mn r = false) ->
  map_one c m id w v rqres = Ok (c', m') -> RI false s c' m' mn /\ RQP c c'.
Proof.
  intros HR Hv Hcl H. unfold map_one in H.
  apply bind_ok in H. destruct H as (wk & _ & H). apply bind_ok in H. destruct H as (wk' & _ & H).
  set (c0 := upd_worker c wk') in *.
  apply bind_ok in H. destruct H as (t & Ht & H). apply get_task_find in Ht. change (c_tasks c0) with (c_tasks c) in Ht.
  destruct (find_task_some _ _ _ Ht) as [_ Eid]. destruct (Hcl t Ht) as (r & Hr & Hmn).
  assert (R0 : RI false s c0 m mn).
  { apply (RI_frame false s c c0 m mn HR eq_refl eq_refl); [apply (QR_same c c0 (ri_qr _ _ _ _ _ HR)); reflexivity | exact (sp_rvr _ _ _ _ (ri_sp _ _ _ _ _ HR))]. }
  pose proof (sp_cs _ _ _ _ (ri_sp _ _ _ _ _ R0)) as Hcs0. change (core_of (st_core s c0)) with c0 in Hcs0.
  destruct (t_state t) as [n|w1 rv1|old|old|w1 rv1|ws|] eqn:Est; try discriminate.
  - (* Waiting *) inversion H; subst c' m'. clear H. split.
    + eapply (RI_assign false s c0 _ m mn id t w v n r R0 Ht Est Hv Hr Hmn); try reflexivity.
      * intros z. rewrite find_upd_task. cbn [with_state t_id]. rewrite Eid. reflexivity.
      * unfold tsorted. cbn [upd_task with_tasks c_tasks]. apply set_task_sorted. exact Hcs0.
    + apply (RQP_upd c id t (Assigned w v) _ Ht). intros z. rewrite find_upd_task. cbn [with_state t_id]. rewrite Eid. reflexivity.
  - (* Prefilled *)
    destruct (find_worker (c_workers c0) old) as [wo|]; [|discriminate]. apply bind_ok in H. destruct H as (wo' & _ & H).
    set (c1 := upd_worker c0 wo') in *.
    destruct (find_redirect (c_redirects c1) id); [discriminate|]. inversion H; subst c' m'. clear H.
    assert (R1 : RI false s c1 m mn).
    { apply (RI_frame false s c0 c1 m mn R0 eq_refl eq_refl); [apply (QR_same c0 c1 (ri_qr _ _ _ _ _ R0)); reflexivity | exact (sp_rvr _ _ _ _ (ri_sp _ _ _ _ _ R0))]. }
    split.
    + eapply (RI_retract s c1 _ m mn id t old R1 Ht Est); try reflexivity.
      * intros z. rewrite find_upd_task. cbn [with_state t_id with_redirects c_tasks]. rewrite Eid. reflexivity.
      * unfold tsorted. cbn [upd_task with_tasks with_redirects c_tasks]. apply set_task_sorted. exact Hcs0.
      * cbn [upd_task with_tasks with_redirects c_redirects]. intros r0 Hr0. destruct (set_redirect_in _ _ _ _ Hr0) as [->|Hr1]; [cbn; exact Hv | exact (sp_rvr _ _ _ _ (ri_sp _ _ _ _ _ R1) _ Hr1)].
    + apply (RQP_upd c id t (Retracting old) _ Ht). intros z. rewrite find_upd_task. cbn [with_state t_id with_redirects c_tasks]. rewrite Eid. reflexivity.
  - (* Retracting *)
    set (c1 := with_redirects c0 (set_redirect (c_redirects c0) id (w, v))) in *.
    assert (Hred1 : forall r0, In r0 (c_redirects c1) -> snd (snd r0) = 0).
    { cbn [c1 with_redirects c_redirects]. intros r0 Hr0. destruct (set_redirect_in _ _ _ _ Hr0) as [->|Hr1]; [cbn; exact Hv | exact (sp_rvr _ _ _ _ (ri_sp _ _ _ _ _ R0) _ Hr1)]. }
    assert (R1 : RI false s c1 m mn).
    { apply (RI_frame false s c0 c1 m mn R0 eq_refl eq_refl); [apply (QR_same c0 c1 (ri_qr _ _ _ _ _ R0)); reflexivity | exact Hred1]. }
    destruct (find_redirect (c_redirects c0) id) as [[ot vo]|].
    + apply bind_ok in H. destruct H as (wo & _ & H). apply bind_ok in H. destruct H as (rq & _ & H). apply bind_ok in H. destruct H as (wo' & _ & H).
      inversion H; subst c' m'. split; [|apply RQP_tasks; reflexivity].
      apply (RI_frame false s c1 (upd_worker c1 wo') m mn R1 eq_refl eq_refl); [apply (QR_same c1 (upd_worker c1 wo') (ri_qr _ _ _ _ _ R1)); reflexivity | exact Hred1].
    + inversion H; subst c' m'. split; [exact R1 | apply RQP_tasks; reflexivity].
Qed.

(** * The round-robin distribution *)
Definition CL (c : core) (ids : list tid) : Prop :=
  forall id t, In id ids -> find_task (c_tasks c) id = Some t -> exists r, nth_error (c_rqs c) (N.to_nat (t_rq t)) = Some r /\ rq_is_mn r = false.
Lemma CL_step c c' ids : RQP c c' -> c_rqs c' = c_rqs c -> CL c ids -> CL c' ids.
Proof. intros HQ Er H id t' Hin Hf. destruct (HQ _ _ Hf) as (t & Hf0 & Et). rewrite Er, Et. eapply H; eassumption. Qed.
Lemma CL_incl c a b : incl a b -> CL c b -> CL c a.
Proof. intros Hi H id t Hin. apply H. apply Hi. exact Hin. Qed.
Lemma RI_rqs pf s c c' m mn m' mn' : RI pf s c m mn -> RI pf s c' m' mn' -> c_rqs c' = c_rqs c.
Proof. intros A B. rewrite (ri_rq _ _ _ _ _ A), (ri_rq _ _ _ _ _ B). reflexivity. Qed.

Lemma rr_pass_RI s mn v rqres counts : forall c m tasks c' m' counts' rest,
  RI false s c m mn -> v = 0 -> CL c tasks -> rr_pass c m counts tasks v rqres = Ok (c', m', counts', rest) ->
  RI false s c' m' mn /\ RQP c c' /\ incl rest tasks.
Proof.
  induction counts as [|[w n] r IH]; intros c m tasks c' m' counts' rest HR Hv Hcl H.
  - destruct tasks; cbn [rr_pass] in H; inversion H; subst; (split; [exact HR | split; [apply RQP_refl | apply incl_refl]]).
  - destruct tasks as [|id tl]; cbn [rr_pass] in H; [inversion H; subst; split; [exact HR | split; [apply RQP_refl | apply incl_refl]]|].
    destruct (N.ltb 0 n).
    + apply bind_ok in H. destruct H as ([c1 m1] & H1 & H). apply bind_ok in H. destruct H as ([[[c2 m2] r'] tl'] & H2 & H). inversion H; subst c' m' counts' rest. clear H.
      destruct (map_one_RI s c m mn id w v rqres c1 m1 HR Hv (fun t Ht => Hcl id t (or_introl eq_refl) Ht) H1) as [R1 Q1].
      destruct (IH c1 m1 tl c2 m2 r' tl' R1 Hv) as (R2 & Q2 & I2); [|exact H2|].
      * apply (CL_step c c1); [exact Q1 | exact (RI_rqs _ _ _ _ _ _ _ _ HR R1)|]. eapply CL_incl; [|exact Hcl]. intros x Hx. right. exact Hx.
      * split; [exact R2|]. split; [eapply RQP_trans; eassumption|]. intros x Hx. right. apply I2. exact Hx.
    + apply bind_ok in H. destruct H as ([[[c2 m2] r'] tl'] & H2 & H). inversion H; subst c' m' counts' rest. clear H.
      eapply IH; eassumption.
Qed.

Lemma rr_loop_RI s mn v rqres fuel : forall c m counts tasks c' m',
  RI false s c m mn -> v = 0 -> CL c tasks -> rr_loop fuel c m counts tasks v rqres = Ok (c', m') ->
  RI false s c' m' mn /\ RQP c c'.
Proof.
  induction fuel as [|k IH]; intros c m counts tasks c' m' HR Hv Hcl H; destruct tasks as [|id tl]; cbn [rr_loop] in H;
    try (inversion H; subst; split; [exact HR | apply RQP_refl]); try discriminate.
  apply bind_ok in H. destruct H as ([[[c1 m1] counts1] rest] & H1 & H).
  destruct (rr_pass_RI s mn v rqres counts c m (id :: tl) c1 m1 counts1 rest HR Hv Hcl H1) as (R1 & Q1 & I1).
  destruct (IH c1 m1 counts1 rest c' m' R1 Hv) as [R2 Q2]; [|exact H|].
  - apply (CL_step c c1); [exact Q1 | exact (RI_rqs _ _ _ _ _ _ _ _ HR R1)|]. eapply CL_incl; eassumption.
  - split; [exact R2 | eapply RQP_trans; eassumption].
Qed.

(** * [map_sn] *)
Definition sn_ok (c : core) (l : list (N * N * list (wid * N))) : Prop :=
  forall e, In e l -> snd (fst e) = 0 /\ exists r, nth_error (c_rqs c) (N.to_nat (fst (fst e))) = Some r /\ rq_is_mn r = false.

Lemma QR_member_class c i q id t : QR c -> nth_error (c_queues c) i = Some q -> member q id -> find_task (c_tasks c) id = Some t -> N.to_nat (t_rq t) = i.
Proof. intros [_ H] Hq Hm Hf. destruct (H i q id Hq Hm) as (t0 & Hf0 & E). rewrite Hf in Hf0. injection Hf0 as Et. rewrite Et. exact E. Qed.

Lemma map_sn_RI s mn sol l : forall c m c' m',
  RI false s c m mn -> sn_ok c l -> map_sn c m sol l = Ok (c', m') -> RI false s c' m' mn /\ RQP c c'.
Proof.
  induction l as [|[[rq v] counts] r IH]; intros c m c' m' HR Hok H; cbn [map_sn] in H; [inversion H; subst; split; [exact HR | apply RQP_refl]|].
  apply bind_ok in H. destruct H as (rqd & _ & H). apply bind_ok in H. destruct H as (q & Hq & H). apply bind_ok in H. destruct H as ([tasks q'] & Ht & H).
  apply bind_ok in H. destruct H as ([c2 m2] & Hrr & H).
  destruct (Hok _ (or_introl eq_refl)) as (Hv & r0 & Hr0 & Hmn0). cbn [fst snd] in Hv, Hr0.
  apply nth_queue_some in Hq. pose proof (ri_qr _ _ _ _ _ HR) as HQ. destruct HQ as [HWF HQm].
  assert (Wq : WFQ q) by (rewrite Forall_forall in HWF; apply HWF; eapply nth_error_In; exact Hq).
  pose proof (q_take_tasks_spec _ _ _ _ _ Wq Ht) as TK.
  set (c1 := with_queues c (set_queue (c_queues c) (N.to_nat rq) q')) in *.
  assert (R1 : RI false s c1 m mn).
  { apply (RI_frame false s c c1 m mn HR eq_refl eq_refl); [|exact (sp_rvr _ _ _ _ (ri_sp _ _ _ _ _ HR))].
    apply (QR_set_queue c (N.to_nat rq) q q' (ri_qr _ _ _ _ _ HR) Hq (tk_wf _ _ _ TK)). intros x Hx. eapply TakeQ_member; eassumption. }
  assert (Hcl : CL c1 tasks).
  { intros id t Hin Hf. change (c_tasks c1) with (c_tasks c) in Hf. change (c_rqs c1) with (c_rqs c).
    rewrite (QR_member_class c (N.to_nat rq) q id t (ri_qr _ _ _ _ _ HR) Hq (TakeQ_taken_member _ _ _ _ TK Hin) Hf). eauto. }
  destruct (rr_loop_RI s mn v (rq_res rqd) _ c1 m counts tasks c2 m2 R1 Hv Hcl Hrr) as [R2 Q2].
  destruct (IH c2 m2 c' m' R2) as [R3 Q3]; [|exact H|].
  - intros e He. destruct (Hok e (or_intror He)) as (A & r1 & B & C). split; [exact A|]. exists r1. rewrite (RI_rqs _ _ _ _ _ _ _ _ HR R2). auto.
  - split; [exact R3|]. eapply RQP_trans; [|exact Q3]. eapply RQP_trans; [apply (RQP_tasks c c1); reflexivity | exact Q2].
Qed.

(** * Sorting the assigned lists *)
Lemma insert_by_prio_perm c x l : Permutation (x :: l) (insert_by_prio c x l).
Proof.
  induction l as [|h t IH]; cbn [insert_by_prio]; [apply Permutation_refl|].
  match goal with |- context [if ?b then _ else _] => destruct b end; [apply Permutation_refl|].
  eapply Permutation_trans; [apply perm_swap | apply perm_skip; exact IH].
Qed.
Lemma sort_assigned_perm c l : Permutation l (sort_assigned c l).
Proof.
  unfold sort_assigned. assert (H : forall acc, Permutation (l ++ acc) (fold_left (fun acc x => insert_by_prio c x acc) l acc)).
  { induction l as [|x r IH]; intros acc; cbn [fold_left app]; [apply Permutation_refl|].
    eapply Permutation_trans; [|apply IH]. eapply Permutation_trans; [apply Permutation_middle|]. apply Permutation_app_head. apply insert_by_prio_perm. }
  specialize (H []). rewrite app_nil_r in H. exact H.
Qed.
Lemma cit_perm y l l' : Permutation l l' -> NoDup (map fst l) -> cit y l = cit y l'.
Proof.
  unfold cit. induction 1 as [|x l l' Hp IH|a b l|l1 l2 l3 H1 IH1 H2 IH2]; intros Hn; cbn [flat_map map] in *.
  - reflexivity.
  - inversion Hn; subst. rewrite IH by assumption. reflexivity.
  - inversion Hn as [|? ? Ha Hn']; subst. unfold sel. destruct (tid_eqb (fst b) y) eqn:E1, (tid_eqb (fst a) y) eqn:E2; try reflexivity.
    apply tid_eqb_eq in E1, E2. exfalso. apply Ha. left. congruence.
  - rewrite IH1 by exact Hn. apply IH2. eapply Permutation_NoDup; [apply Permutation_map; exact H1 | exact Hn].
Qed.

Definition sortu (c : core) (u : wupd) : wupd := mkWU (wu_w u) (sort_assigned c (wu_assigned u)) (wu_prefills u) (wu_retracts u).

Lemma wfind_map_sortu c m w : wfind (map (sortu c) m) w = option_map (sortu c) (wfind m w).
Proof. induction m as [|h t IH]; cbn [map wfind]; [reflexivity|]. cbn [sortu wu_w]. destruct (N.eqb w (wu_w h)); [reflexivity | exact IH]. Qed.

Lemma RI_sort pf s c m mn : RI pf s c m mn -> RI pf s c (map (sortu c) m) mn.
Proof.
  intros HR. pose proof (ri_nd _ _ _ _ _ HR) as Hnd.
  assert (Hk : map wu_w (map (sortu c) m) = map wu_w m) by (rewrite map_map; reflexivity).
  assert (Hnd' : NoDup (map wu_w (map (sortu c) m))) by (rewrite Hk; exact Hnd).
  assert (Hin : forall u', In u' (map (sortu c) m) -> exists u, In u m /\ u' = sortu c u) by (intros u' H; apply in_map_iff in H; destruct H as (u & E & Hu); eauto).
  assert (Hmem : forall u yv, In u m -> (In yv (sort_assigned c (wu_assigned u)) <-> In yv (wu_assigned u))).
  { intros u yv _. split; intros H; [eapply Permutation_in; [apply Permutation_sym, sort_assigned_perm | exact H] | eapply Permutation_in; [apply sort_assigned_perm | exact H]]. }
  assert (Hit : forall w' z, ditems z (msgs_for w' (pdM c (map (sortu c) m) mn)) = ditems z (msgs_for w' (pdM c m mn))).
  { intros w' z. rewrite (pdM_items c _ mn w' z Hnd'), (pdM_items c m mn w' z Hnd), wfind_map_sortu. destruct (wfind m w') as [u|] eqn:E; [|reflexivity].
    cbn [option_map]. f_equal. unfold uit. cbn [sortu wu_assigned wu_prefills wu_retracts]. f_equal. f_equal. symmetry. apply cit_perm; [apply sort_assigned_perm|].
    apply (ri_nda _ _ _ _ _ HR). eapply wfind_in; exact E. }
  assert (HP' : POK c (map (sortu c) m) mn).
  { destruct (ri_ok _ _ _ _ _ HR) as [Pa Pm]. split; [|exact Pm]. intros u' y v Hu' Hyv. destruct (Hin _ Hu') as (u & Hu & ->).
    cbn [sortu wu_assigned] in Hyv. apply (Hmem u) in Hyv; [|exact Hu]. eapply Pa; eassumption. }
  assert (Hment : forall z, ment (map (sortu c) m) mn z -> ment m mn z).
  { intros z [(u' & Hu' & Hz)|Hz]; [|right; exact Hz]. destruct (Hin _ Hu') as (u & Hu & ->). left. exists u. split; [exact Hu|].
    cbn [sortu wu_retracts wu_prefills wu_assigned] in Hz. destruct Hz as [Hz|[Hz|Hz]]; [auto | auto|]. right. right.
    apply in_map_iff in Hz. destruct Hz as (yv & E & Hyv). apply (Hmem u) in Hyv; [|exact Hu]. apply in_map_iff. eauto. }
  destruct HR as [S1 S2 S3 S4 S5 S6 S7 S8 S9 S10]. constructor; try assumption.
  - apply (SP_ext x0 (mkSys c (hq_of (st_core s c)) (s_procs (fst (st_core s c))), snd (st_core s c))); [|reflexivity|reflexivity|reflexivity].
    apply (SP_gen (fun _ => false) x0 x0 (st_core s c) no_pum (pdM c m mn) c _ _ no_pum (pdM c (map (sortu c) m) mn) S1 (sp_cs _ _ _ _ S1) eq_refl (sp_rvr _ _ _ _ S1)).
    + intros z tz _ Hz _. exists tz. repeat split; assumption.
    + intros w' z _. split; [reflexivity | apply Hit].
    + auto.
    + intros z tz Hz. change (core_of (st_core s c)) with c. congruence.
    + intros w' p z Hp [[]|Hz]. apply pdM_tids, Hment, S4 in Hz. destruct (find_task (c_tasks c) z) as [tz|] eqn:E; [|congruence]. eapply (sp_pres _ _ _ _ S1). exact E.
    + intros w' p Hp. eapply (RI_tab pf s c m mn c (map (sortu c) m) mn w' p); [constructor; assumption | exact HP' | reflexivity | exact Hp].
    + auto.
    + intros x tx E. discriminate.
  - intros z Hz. apply S4. apply Hment. exact Hz.
  - intros Hpf u' Hu'. destruct (Hin _ Hu') as (u & Hu & ->). cbn [sortu wu_prefills]. apply (S6 Hpf u Hu).
  - intros u' y v Hu' Hyv. destruct (Hin _ Hu') as (u & Hu & ->). cbn [sortu wu_assigned wu_w] in *. apply (Hmem u) in Hyv; [|exact Hu]. eapply S7; eassumption.
  - intros u' Hu'. destruct (Hin _ Hu') as (u & Hu & ->). cbn [sortu wu_assigned]. eapply Permutation_NoDup; [apply Permutation_map; apply sort_assigned_perm | apply S8; exact Hu].
Qed.

(** * Multi-node placements *)
Lemma set_mn_workers_same l : forall c id first c', set_mn_workers c id l first = Ok c' ->
  c_tasks c' = c_tasks c /\ c_queues c' = c_queues c /\ c_rqs c' = c_rqs c /\ c_redirects c' = c_redirects c.
Proof.
  induction l as [|w r IH]; intros c id first c' H; cbn [set_mn_workers] in H; [inversion H; auto|].
  apply bind_ok in H. destruct H as (wk & _ & H). apply bind_ok in H. destruct H as (wk' & _ & H).
  destruct (IH _ _ _ _ H) as (A & B & C & D). auto.
Qed.

Lemma map_mn_sets_RI pf s m rq r sets : forall c mn c' mn',
  RI pf s c m mn -> nth_error (c_rqs c) rq = Some r -> rq_is_mn r = true ->
  map_mn_sets c (N.of_nat rq) mn sets = Ok (c', mn') -> RI pf s c' m mn' /\ RQP c c'.
Proof.
  induction sets as [|ws rest IH]; intros c mn c' mn' HR Hr Hmn H; cbn [map_mn_sets] in H; [inversion H; subst; split; [exact HR | apply RQP_refl]|].
  rewrite Nat2N.id in H.
  apply bind_ok in H. destruct H as (q & Hq & H). destruct (q_take_one q) as [[id q']|] eqn:Etk; [|discriminate].
  apply bind_ok in H. destruct H as (c2 & Hsm & H). apply bind_ok in H. destruct H as (t & Ht & H). apply get_task_find in Ht.
  destruct (t_state t) as [n| | | | | |] eqn:Est; try discriminate. destruct n; [|discriminate].
  apply nth_queue_some in Hq. destruct (ri_qr _ _ _ _ _ HR) as [HWF _].
  assert (Wq : WFQ q) by (rewrite Forall_forall in HWF; apply HWF; eapply nth_error_In; exact Hq).
  pose proof (q_take_one_spec _ _ _ Wq Etk) as TK.
  set (c1 := with_queues c (set_queue (c_queues c) rq q')) in *.
  destruct (set_mn_workers_same _ _ _ _ _ Hsm) as (E1 & E2 & E3 & E4). change (c_tasks c1) with (c_tasks c) in E1. change (c_rqs c1) with (c_rqs c) in E3. change (c_redirects c1) with (c_redirects c) in E4.
  assert (Q1 : QR c1).
  { apply (QR_set_queue c rq q q' (ri_qr _ _ _ _ _ HR) Hq (tk_wf _ _ _ TK)). intros x Hx. eapply TakeQ_member; eassumption. }
  assert (R2 : RI pf s c2 m mn).
  { apply (RI_frame pf s c c2 m mn HR E1 E3); [apply (QR_same c1 c2 Q1 E2); exact E1 | rewrite E4; exact (sp_rvr _ _ _ _ (ri_sp _ _ _ _ _ HR))]. }
  rewrite E1 in Ht.
  assert (Hrq : N.to_nat (t_rq t) = rq).
  { apply (QR_member_class c rq q id t (ri_qr _ _ _ _ _ HR) Hq); [|exact Ht]. eapply TakeQ_taken_member; [exact TK | left; reflexivity]. }
  destruct (find_task_some _ _ _ Ht) as [_ Eid].
  assert (Ht2 : find_task (c_tasks c2) id = Some t) by (rewrite E1; exact Ht).
  set (c3 := upd_task c2 (with_state t (RunningMN ws))) in *.
  assert (R3 : RI pf s c3 m (mn ++ [id])).
  { eapply (RI_mn pf s c2 c3 m mn id t 0 ws r R2 Ht2 Est); try reflexivity.
    - rewrite E3, Hrq. exact Hr.
    - exact Hmn.
    - intros z. unfold c3. rewrite find_upd_task. cbn [with_state t_id]. rewrite Eid. reflexivity.
    - unfold tsorted, c3. cbn [upd_task with_tasks c_tasks]. apply set_task_sorted. exact (sp_cs _ _ _ _ (ri_sp _ _ _ _ _ R2)). }
  destruct (IH c3 (mn ++ [id]) c' mn' R3) as [R4 Q4]; [rewrite (RI_rqs _ _ _ _ _ _ _ _ HR R3); exact Hr | exact Hmn | exact H|].
  split; [exact R4|]. eapply RQP_trans; [|exact Q4]. eapply RQP_trans; [apply (RQP_tasks c c2); exact E1|].
  apply (RQP_upd c2 id t (RunningMN ws) c3 Ht2). intros z. unfold c3. rewrite find_upd_task. cbn [with_state t_id]. rewrite Eid. reflexivity.
Qed.

Definition mn_ok (c : core) (l : list (N * N * list (list wid))) : Prop :=
  forall e, In e l -> exists r, nth_error (c_rqs c) (N.to_nat (fst (fst e))) = Some r /\ rq_is_mn r = true.

Lemma map_mn_RI pf s m l : forall c mn c' mn', RI pf s c m mn -> mn_ok c l -> map_mn c mn l = Ok (c', mn') -> RI pf s c' m mn' /\ RQP c c'.
Proof.
  induction l as [|[[rq v] sets] rest IH]; intros c mn c' mn' HR Hok H; cbn [map_mn] in H; [inversion H; subst; split; [exact HR | apply RQP_refl]|].
  apply bind_ok in H. destruct H as ([c1 mn1] & H1 & H). destruct (Hok _ (or_introl eq_refl)) as (r & Hr & Hmn). cbn [fst] in Hr.
  rewrite <- (N2Nat.id rq) in H1. destruct (map_mn_sets_RI pf s m _ r sets c mn c1 mn1 HR Hr Hmn H1) as [R1 Q1].
  destruct (IH c1 mn1 c' mn' R1) as [R2 Q2]; [|exact H|].
  - intros e He. destruct (Hok e (or_intror He)) as (r1 & A & B). exists r1. rewrite (RI_rqs _ _ _ _ _ _ _ _ HR R1). auto.
  - split; [exact R2 | eapply RQP_trans; eassumption].
Qed.

(** * Proactive filling *)
Lemma wu_set_set m x y : wu_w x = wu_w y -> wu_set (wu_set m x) y = wu_set m y.
Proof.
  intros E. induction m as [|h t IH]; cbn [wu_set].
  - rewrite <- E, N.eqb_refl. reflexivity.
  - destruct (N.eqb (wu_w x) (wu_w h)) eqn:E1; cbn [wu_set].
    + rewrite <- E, N.eqb_refl, E1. reflexivity.
    + rewrite <- E, E1, IH. reflexivity.
Qed.
Lemma wu_set_same m w u : wfind m w = Some u -> wu_set m u = m.
Proof.
  induction m as [|h t IH]; cbn [wfind wu_set]; [discriminate|]. destruct (N.eqb w (wu_w h)) eqn:E.
  - intros H. inversion H; subst. rewrite N.eqb_refl. reflexivity.
  - intros H. pose proof (wfind_key _ _ _ H) as Ek. rewrite Ek, E. rewrite (IH H). reflexivity.
Qed.
Lemma wu_set_new m x : wfind m (wu_w x) = None -> wu_set m x = m ++ [x].
Proof.
  induction m as [|h t IH]; cbn [wfind wu_set]; [reflexivity|]. destruct (N.eqb (wu_w x) (wu_w h)); [discriminate|]. intros H. rewrite (IH H). reflexivity.
Qed.

Lemma RI_touch pf s c m mn w : RI pf s c m mn -> RI pf s c (wu_set m (wu_get m w)) mn.
Proof.
  intros HR. rewrite wu_get_wfind. destruct (wfind m w) as [u|] eqn:E; [rewrite (wu_set_same m w u E); exact HR|].
  set (e := mkWU w [] [] []). assert (Em : wu_set m e = m ++ [e]) by (apply wu_set_new; exact E). rewrite Em.
  pose proof (ri_nd _ _ _ _ _ HR) as Hnd.
  assert (Hnd' : NoDup (map wu_w (m ++ [e]))) by (rewrite <- Em; apply wu_set_nodup; exact Hnd).
  assert (Hpd : pdM c (m ++ [e]) mn = pdM c m mn) by (unfold pdM; rewrite flat_map_app; cbn [flat_map umsgs e wu_retracts wu_prefills wu_assigned map app]; rewrite app_nil_r; reflexivity).
  assert (Hin : forall u0, In u0 (m ++ [e]) -> In u0 m \/ u0 = e) by (intros u0 H; apply in_app_iff in H; destruct H as [H|[H|[]]]; auto).
  destruct HR as [S1 S2 S3 S4 S5 S6 S7 S8 S9 S10]. constructor; try assumption.
  - rewrite Hpd. exact S1.
  - destruct S3 as [Pa Pm]. split; [|exact Pm]. intros u0 y v Hu0 Hyv. destruct (Hin _ Hu0) as [H| ->]; [eapply Pa; eassumption | destruct Hyv].
  - intros z [(u0 & Hu0 & Hz)|Hz]; [|apply S4; right; exact Hz]. destruct (Hin _ Hu0) as [H| ->]; [apply S4; left; exists u0; auto | cbn in Hz; tauto].
  - intros Hpf u0 Hu0. destruct (Hin _ Hu0) as [H| ->]; [apply (S6 Hpf u0 H) | reflexivity].
  - intros u0 y v Hu0 Hyv. destruct (Hin _ Hu0) as [H| ->]; [eapply S7; eassumption | destruct Hyv].
  - intros u0 Hu0. destruct (Hin _ Hu0) as [H| ->]; [apply S8; exact H | constructor].
Qed.

Definition addpre (u : wupd) (ids : list tid) : wupd := mkWU (wu_w u) (wu_assigned u) (wu_prefills u ++ ids) (wu_retracts u).

Lemma prefill_mark_RI s mn w ids : forall c m c',
  RI true s c m mn -> CL c ids -> prefill_mark c w ids = Ok c' ->
  RI true s c' (wu_set m (addpre (wu_get m w) ids)) mn /\ RQP c c'.
Proof.
  induction ids as [|id r IH]; intros c m c' HR Hcl H; cbn [prefill_mark] in H.
  - inversion H; subst c'. split; [|apply RQP_refl]. unfold addpre. rewrite app_nil_r.
    replace (mkWU (wu_w (wu_get m w)) (wu_assigned (wu_get m w)) (wu_prefills (wu_get m w)) (wu_retracts (wu_get m w))) with (wu_get m w) by (destruct (wu_get m w); reflexivity).
    apply RI_touch. exact HR.
  - apply bind_ok in H. destruct H as (t & Ht & H). apply get_task_find in Ht.
    destruct (negb (is_waiting t)) eqn:Ew; [discriminate|]. apply negb_false_iff in Ew. unfold is_waiting in Ew. destruct (t_state t) as [n| | | | | |] eqn:Est; try discriminate.
    apply bind_ok in H. destruct H as (wk & _ & H). apply bind_ok in H. destruct H as (wk' & _ & H).
    destruct (find_task_some _ _ _ Ht) as [_ Eid]. destruct (Hcl id t (or_introl eq_refl) Ht) as (r0 & Hr0 & Hmn0).
    set (c1 := upd_task c (with_state t (Prefilled w))) in *.
    assert (Hfind1 : forall z, find_task (c_tasks c1) z = if tid_eqb z id then Some (with_state t (Prefilled w)) else find_task (c_tasks c) z).
    { intros z. unfold c1. rewrite find_upd_task. cbn [with_state t_id]. rewrite Eid. reflexivity. }
    assert (R1 : RI true s c1 (wu_set m (addpre (wu_get m w) [id])) mn).
    { unfold addpre. rewrite wu_get_key. eapply (RI_prefill s c c1 m mn id t w n r0 HR Ht Est Hr0 Hmn0 Hfind1); try reflexivity.
      unfold tsorted, c1. cbn [upd_task with_tasks c_tasks]. apply set_task_sorted. exact (sp_cs _ _ _ _ (ri_sp _ _ _ _ _ HR)). }
    set (m1 := wu_set m (addpre (wu_get m w) [id])) in *.
    assert (R2 : RI true s (upd_worker c1 wk') m1 mn).
    { apply (RI_frame true s c1 (upd_worker c1 wk') m1 mn R1 eq_refl eq_refl); [apply (QR_same c1 _ (ri_qr _ _ _ _ _ R1)); reflexivity | exact (sp_rvr _ _ _ _ (ri_sp _ _ _ _ _ R1))]. }
    assert (Q1 : RQP c (upd_worker c1 wk')) by (apply (RQP_upd c id t (Prefilled w) _ Ht); exact Hfind1).
    destruct (IH (upd_worker c1 wk') m1 c' R2) as [R3 Q3]; [| exact H |].
    + apply (CL_step c _ r Q1); [exact (RI_rqs _ _ _ _ _ _ _ _ HR R2)|]. eapply CL_incl; [|exact Hcl]. intros x Hx. right. exact Hx.
    + split; [|eapply RQP_trans; eassumption].
      assert (Eg : wu_get m1 w = addpre (wu_get m w) [id]).
      { rewrite wu_get_wfind. unfold m1. rewrite wfind_set. unfold addpre at 1. cbn [wu_w]. rewrite wu_get_key, N.eqb_refl. reflexivity. }
      rewrite Eg in R3. unfold m1 in R3. rewrite wu_set_set in R3 by reflexivity.
      unfold addpre in *. cbn [wu_w wu_assigned wu_prefills wu_retracts] in R3. rewrite <- app_assoc in R3. exact R3.
Qed.

Lemma prefill_workers_RI s mn qi psize r ws : forall c m c' m',
  RI true s c m mn -> nth_error (c_rqs c) qi = Some r -> rq_is_mn r = false ->
  prefill_workers c m qi psize ws = Ok (c', m') -> RI true s c' m' mn /\ RQP c c'.
Proof.
  induction ws as [|w rest IH]; intros c m c' m' HR Hr Hmn H; cbn [prefill_workers] in H; [inversion H; subst; split; [exact HR | apply RQP_refl]|].
  apply bind_ok in H. destruct H as (q & Hq & H). apply bind_ok in H. destruct H as ([ids q'] & Htk & H). apply bind_ok in H. destruct H as (c2 & Hpm & H).
  apply nth_queue_some in Hq. destruct (ri_qr _ _ _ _ _ HR) as [HWF _].
  assert (Wq : WFQ q) by (rewrite Forall_forall in HWF; apply HWF; eapply nth_error_In; exact Hq).
  destruct (q_take_prefill_spec _ _ _ _ Wq Htk) as (pe & MV).
  set (c1 := with_queues c (set_queue (c_queues c) qi q')) in *.
  assert (R1 : RI true s c1 m mn).
  { apply (RI_frame true s c c1 m mn HR eq_refl eq_refl); [|exact (sp_rvr _ _ _ _ (ri_sp _ _ _ _ _ HR))].
    apply (QR_set_queue c qi q q' (ri_qr _ _ _ _ _ HR) Hq (mv_wf _ _ _ _ MV)). intros x Hx. eapply MoveQ_member; eassumption. }
  assert (Hcl : CL c1 ids).
  { intros id t Hin Hf. change (c_tasks c1) with (c_tasks c) in Hf. change (c_rqs c1) with (c_rqs c).
    assert (Hm : member q id) by (exists pe; left; exact (proj1 (mv_from _ _ _ _ MV id Hin))).
    rewrite (QR_member_class c qi q id t (ri_qr _ _ _ _ _ HR) Hq Hm Hf). eauto. }
  destruct (prefill_mark_RI s mn w ids c1 m c2 R1 Hcl Hpm) as [R2 Q2].
  assert (Em : wu_set m (mkWU w (wu_assigned (wu_get m w)) (wu_prefills (wu_get m w) ++ ids) (wu_retracts (wu_get m w))) = wu_set m (addpre (wu_get m w) ids)).
  { unfold addpre. rewrite wu_get_key. reflexivity. }
  rewrite Em in H. destruct (IH c2 _ c' m' R2) as [R3 Q3]; [rewrite (RI_rqs _ _ _ _ _ _ _ _ HR R2); exact Hr | exact Hmn | exact H|].
  split; [exact R3|]. eapply RQP_trans; [|exact Q3]. eapply RQP_trans; [apply (RQP_tasks c c1); reflexivity | exact Q2].
Qed.

Lemma prefill_queues_RI s mn worder top n : forall c m qi c' m',
  RI true s c m mn -> prefill_queues c m worder qi n top = Ok (c', m') -> RI true s c' m' mn.
Proof.
  induction n as [|k IH]; intros c m qi c' m' HR H; cbn [prefill_queues] in H; [inversion H; subst; exact HR|].
  apply bind_ok in H. destruct H as (q & _ & H). cbv zeta in H.
  destruct (q_top_priority q) as [tp|]; [|eapply IH; eassumption].
  destruct (negb (Z.eqb tp top)); [eapply IH; eassumption|].
  destruct (N.eqb (q_top_size_no_prefill q - c_reserve c) 0); [eapply IH; eassumption|].
  match type of H with (if ?b then _ else _) = _ => destruct b end.
  - match type of H with (if ?b then _ else _) = _ => destruct b end; [eapply IH; eassumption | discriminate].
  - match type of H with match filter ?f worder with _ => _ end = _ => set (elig := f) in *; destruct (filter elig worder) as [|w1 wr] eqn:Ews end; [eapply IH; eassumption|].
    match type of H with (if ?b then _ else _) = _ => destruct b end; [eapply IH; eassumption|].
    apply bind_ok in H. destruct H as ([c1 m1] & Hpw & H).
    (* the request class of this queue has a single-node assignment in this round *)
    assert (Hel : elig w1 = true) by (assert (X : In w1 (filter elig worder)) by (rewrite Ews; left; reflexivity); apply filter_In in X; apply X).
    unfold elig in Hel. destruct (find_worker (c_workers c) w1) as [wk|]; [|discriminate]. destruct (w_assign wk) as [a p f|]; [|discriminate].
    apply andb_true_iff in Hel. destruct Hel as [Hex _]. apply existsb_exists in Hex. destruct Hex as ([y v] & Hin & Hy). cbn [fst] in Hy.
    destruct (find_task (c_tasks c) y) as [t|] eqn:Hf; [|discriminate]. apply N.eqb_eq in Hy.
    assert (Hu : In (wu_get m w1) m) by (destruct (wu_get_in m w1) as [X|X]; [exact X | rewrite X in Hin; destruct Hin]).
    destruct (ri_asg _ _ _ _ _ HR _ y v Hu Hin) as (t0 & Hf0 & Est). rewrite Hf in Hf0. inversion Hf0; subst t0.
    pose proof (sp_mnt _ _ _ _ (ri_sp _ _ _ _ _ HR) _ _ Hf eq_refl) as M. unfold mn_task_ok in M. rewrite Est in M. change (core_of (st_core s c)) with c in M.
    destruct (nth_error (c_rqs c) (N.to_nat (t_rq t))) as [r|] eqn:Er; [|discriminate]. apply negb_true_iff in M.
    rewrite Hy, Nat2N.id in Er.
    destruct (prefill_workers_RI s mn qi _ r (w1 :: wr) c m c1 m1 HR Er M Hpw) as [R1 _].
    eapply IH; eassumption.
Qed.

(** * Sending *)
Lemma ctasks_prefill_ctp c l cts : ctasks_prefill c l = Ok cts -> cts = map (ctp c) l.
Proof.
  revert cts. induction l as [|id r IH]; cbn [ctasks_prefill]; intros cts H; [inversion H; reflexivity|].
  apply bind_ok in H. destruct H as (t & Ht & H). apply bind_ok in H. destruct H as (rest & Hr & H). inversion H; subst.
  cbn [map]. rewrite (IH _ Hr). f_equal. unfold ctp. rewrite (get_task_find _ _ _ Ht). reflexivity.
Qed.

Lemma send_mapping_SP X pum m : forall s s' rest,
  SP X s pum (flat_map (umsgs (core_of s)) m ++ rest) -> send_mapping s m = Ok s' -> SP X s' pum rest /\ core_of s' = core_of s.
Proof.
  induction m as [|u r IH]; intros s s' rest HS H; cbn [send_mapping] in H; [inversion H; subst; split; [exact HS | reflexivity]|].
  apply bind_ok in H. destruct H as (s1 & H1 & H). apply bind_ok in H. destruct H as (cts1 & Hc1 & H). apply bind_ok in H. destruct H as (cts2 & Hc2 & H).
  apply bind_ok in H. destruct H as (s2 & H2 & H).
  cbn [flat_map] in HS. unfold umsgs at 1 in HS. rewrite <- !app_assoc in HS.
  (* the retract message *)
  assert (A1 : SP X s1 pum ((match map (ctp (core_of s)) (wu_prefills u) ++ map (ctk (core_of s)) (wu_assigned u) with [] => [] | cts => [(wu_w u, DCompute cts)] end) ++ flat_map (umsgs (core_of s)) r ++ rest) /\ core_of s1 = core_of s).
  { destruct (wu_retracts u) as [|i0 ir]; [inversion H1; subst; split; [exact HS | reflexivity]|].
    split; [eapply SP_send; [exact HS | exact H1] | eapply send_worker_core'; exact H1]. }
  destruct A1 as [S1 E1]. rewrite E1 in Hc1, Hc2. rewrite (ctasks_prefill_ctp _ _ _ Hc1), (ctasks_of_ctk _ _ _ Hc2) in H2.
  assert (A2 : SP X s2 pum (flat_map (umsgs (core_of s)) r ++ rest) /\ core_of s2 = core_of s).
  { destruct (map (ctp (core_of s)) (wu_prefills u) ++ map (ctk (core_of s)) (wu_assigned u)) as [|c0 cr]; [inversion H2; subst; split; [exact S1 | exact E1]|].
    split; [eapply SP_send; [exact S1 | exact H2] | rewrite (send_worker_core' _ _ _ _ H2); exact E1]. }
  destruct A2 as [S2 E2]. rewrite <- E2 in S2. destruct (IH s2 s' rest S2 H) as [S3 E3]. split; [exact S3 | congruence].
Qed.

Lemma send_mn_SP X pum mn : forall s s', SP X s pum (map (mnmsg (core_of s)) mn) -> send_mn s mn = Ok s' -> SP X s' pum [] /\ core_of s' = core_of s.
Proof.
  induction mn as [|id r IH]; intros s s' HS H; cbn [send_mn] in H; [inversion H; subst; split; [exact HS | reflexivity]|].
  apply bind_ok in H. destruct H as (t & Ht & H). apply get_task_find in Ht.
  destruct (t_state t) as [n1|w2 r2|w2|w2|w2 r2|[|w0 ws]|] eqn:Est; try discriminate.
  apply bind_ok in H. destruct H as (s1 & H1 & H).
  cbn [map] in HS. unfold mnmsg at 1 in HS. rewrite Ht, Est in HS.
  pose proof (SP_send _ _ _ _ _ _ _ HS H1) as S1. pose proof (send_worker_core' _ _ _ _ H1) as E1. rewrite <- E1 in S1.
  destruct (IH s1 s' S1 H) as [S2 E2]. split; [exact S2 | congruence].
Qed.

(** * The theorem *)
Lemma RI_weaken s c m mn : RI false s c m mn -> RI true s c m mn.
Proof. intros [S1 S2 S3 S4 S5 S6 S7 S8 S9 S10]. constructor; try assumption. discriminate. Qed.

Theorem sched_PROTO s sol s' outs :
  PROTO s -> UH s -> QR (s_core s) -> op_ok s (OpSched sol) = true -> step s (OpSched sol) = Ok (s', outs) -> PROTO s'.
Proof.
  intros HP [Hcs Hpa] HQ Hop H. cbn [step] in H. destruct (c_flag (s_core s)); [|discriminate].
  unfold run_scheduling in H. cbv zeta in H. change (core_of (s, [])) with (s_core s) in H.
  match type of H with (if ?b then _ else _) = _ => destruct b end; [discriminate|].
  apply bind_ok in H. destruct H as ([c1 m1] & Hsn & H). apply bind_ok in H. destruct H as ([c2 mn] & Hmn & H).
  apply bind_ok in H. destruct H as ([c3 m3] & Hpf & H). apply bind_ok in H. destruct H as (s1 & Hsm & H). apply bind_ok in H. destruct H as (s2 & Hsmn & H).
  inversion H; subst s' outs. clear H.
  cbn [op_ok] in Hop. apply andb_true_iff in Hop. destruct Hop as [Hop1 Hop2]. rewrite forallb_forall in Hop1, Hop2.
  set (s0 := (s, @nil out)).
  assert (R0 : RI false s0 (s_core s) [] []).
  { constructor.
    - apply (SP_ext x0 s0); [apply SP_init; assumption | reflexivity | reflexivity | reflexivity].
    - constructor.
    - split; [intros u y v [] | intros id t w0 ws []].
    - intros y [(u & [] & _)|[]].
    - exact HQ.
    - intros _ u [].
    - intros u y v [].
    - intros u [].
    - intros id [].
    - reflexivity. }
  assert (Hsnok : sn_ok (s_core s) (sol_sn sol)).
  { intros e He. specialize (Hop1 e He). apply andb_true_iff in Hop1. destruct Hop1 as [A B]. apply N.eqb_eq in A. split; [exact A|].
    destruct (nth_error (c_rqs (s_core s)) (N.to_nat (fst (fst e)))) as [r|]; [|discriminate]. exists r. split; [reflexivity | apply negb_true_iff; exact B]. }
  destruct (map_sn_RI s0 [] sol (sol_sn sol) (s_core s) [] c1 m1 R0 Hsnok Hsn) as [R1 _].
  pose proof (RI_sort false s0 c1 m1 [] R1) as R1s.
  assert (Hmnok : mn_ok c1 (sol_mn sol)).
  { intros e He. specialize (Hop2 e He). rewrite (RI_rqs _ _ _ _ _ _ _ _ R0 R1).
    destruct (nth_error (c_rqs (s_core s)) (N.to_nat (fst (fst e)))) as [r|]; [|discriminate]. exists r. auto. }
  destruct (map_mn_RI true s0 (map (sortu c1) m1) (sol_mn sol) c1 [] c2 mn (RI_weaken _ _ _ _ R1s) Hmnok Hmn) as [R2 _].
  assert (R3 : RI true s0 c3 m3 mn).
  { destruct (queues_top_priority (c_queues c2)) as [top|]; [eapply prefill_queues_RI; [exact R2 | exact Hpf] | inversion Hpf; subst; exact R2]. }
  pose proof (ri_sp _ _ _ _ _ R3) as S3. unfold pdM in S3.
  destruct (send_mapping_SP x0 no_pum m3 (st_core s0 c3) s1 (map (mnmsg c3) mn) S3 Hsm) as [S4 E4].
  change (core_of (st_core s0 c3)) with c3 in E4. rewrite <- E4 in S4.
  destruct (send_mn_SP x0 no_pum mn s1 s2 S4 Hsmn) as [S5 E5].
  apply (SP_final (st_core s2 (with_flag (core_of s2) false))).
  apply (SP_CF x0 x0); [exact S5 | apply CF_tasks_same; auto | auto].
Qed.
