(** The queue invariant, part 10: new tasks and the client requests. *)
From HQ Require Import Base.Prelude Cluster.Types Cluster.Core Cluster.Reactor Cluster.Worker Cluster.Server Cluster.Sys Cluster.Monitors Cluster.ProofsJob Cluster.ProofsMore Cluster.ProofsTerminal Cluster.ProofsStep Cluster.ProofsFinal Cluster.BijBase Cluster.BijCore Cluster.BijHq Cluster.BijSt Cluster.BijReact Cluster.BijFinal Cluster.FrameGen Cluster.CrashFrame Cluster.InvQBase Cluster.InvQTake Cluster.InvQInv Cluster.InvQOps Cluster.InvQReact Cluster.InvQReact2 Cluster.InvQReact3 Cluster.InvQServer.
From Coq Require Import ZArith Lia Sorting.Sorted.
Local Open Scope N_scope.

Arguments N.add : simpl never.
Arguments N.sub : simpl never.

(** * [on_new_tasks] *)
Lemma register_deps_QI ex Z deps : forall c id kept count c' kept' count',
  QI ex Z c -> register_deps c id deps kept count = (c', kept', count') ->
  QI ex Z c' /\ (forall x, find_task (c_tasks c') x = None <-> find_task (c_tasks c) x = None) /\ c_rqs c' = c_rqs c.
Proof.
  induction deps as [|d r IH]; cbn [register_deps]; intros c id kept count c' kept' count' V H.
  - inversion H; subst. split; [exact V | split; [reflexivity | reflexivity]].
  - destruct (find_task (c_tasks c) d) as [dep|] eqn:Ef; [|eapply IH; eassumption].
    pose proof (find_task_id _ _ _ Ef) as Hid.
    assert (V1 : QI ex Z (upd_task c (with_consumers dep (tid_insert id (t_consumers dep))))).
    { qi_simpl. eapply QV_task0; [exact V | exact Ef | exact Hid | reflexivity | reflexivity | reflexivity | reflexivity | |].
      - intros v Hv. cbn. apply (qv_red _ _ _ _ _ _ V) in Hv. destruct Hv as (En & t0 & w & Hf0 & Hw). rewrite Ef in Hf0. inversion Hf0; subst. eauto.
      - cbn. intros Hfin. eapply qv_fin; eassumption. }
    destruct (IH _ _ _ _ _ _ _ V1 H) as (I1 & I2 & I3). split; [exact I1 | split; [|exact I3]].
    intros x. rewrite I2. cbn [c_tasks upd_task with_tasks]. rewrite find_set_task. cbn [t_id with_consumers]. rewrite Hid.
    destruct (tid_eqb x d) eqn:E; [|reflexivity]. apply tid_eqb_eq in E. subst x. split; [discriminate | congruence].
Qed.

Lemma add_ready_ret_live ex Z ts qs rs rqs t' qs' r :
  QV ex Z ts qs rs rqs -> add_ready_task qs t' = Ok (qs', r) -> forall x, In x r -> exists t, find_task ts x = Some t.
Proof.
  intros V H x Hx. unfold add_ready_task in H. destruct (dispose_all qs (t_prio t')) as [qs1 r1] eqn:Ed.
  apply bind_ok in H. destruct H as (q1 & _ & H). inversion H; subst qs' r1; clear H.
  destruct (dispose_all_spec _ _ _ _ (qv_wf _ _ _ _ _ _ V) Ed) as (_ & _ & _ & Hr).
  destruct (Hr _ Hx) as (i & q & q1' & ri & Hq & Hc & Hin).
  pose proof (nth_error_Forall _ _ _ _ (qv_wf _ _ _ _ _ _ V) Hq) as Wq.
  destruct (q_cdp_spec _ _ _ _ Wq Hc) as [_ [[_ ->]|(pp & Ep & _ & _)]]; [destruct Hin|].
  destruct (qv_live _ _ _ _ _ _ V i q x Hq) as (t & Hf & _); [|eauto].
  exists pp. right. unfold PfAt. rewrite Ep. apply PAt_some. auto.
Qed.

Lemma add_new_tasks_QI ts : forall c ret c' ret',
  QI (exL Ready ret none) [] c -> (forall x, In x ret -> find_task (c_tasks c) x <> None) ->
  Forall (fun t => (N.to_nat (t_rq t) < length (c_rqs c))%nat) ts ->
  add_new_tasks c ts ret = Ok (c', ret') -> QI (exL Ready ret' none) [] c'.
Proof.
  induction ts as [|t r IH]; cbn [add_new_tasks]; intros c ret c' ret' V Hlive Hrq H; [inversion H; subst; exact V|].
  inversion Hrq as [|? ? Hrq1 Hrq2]; subst.
  destruct (register_deps c (t_id t) (t_deps t) [] 0) as [[c1 kept] count] eqn:Er.
  destruct (register_deps_QI _ _ _ _ _ _ _ _ _ _ V Er) as (V1 & N1 & R1).
  apply bind_ok in H. destruct H as ([c2 rt] & H2 & H).
  set (t1 := with_state (with_deps t kept) (Waiting count)) in *.
  assert (Hid1 : t_id t1 = t_id t) by reflexivity.
  destruct (N.eqb count 0) eqn:Ec.
  - apply bind_ok in H2. destruct H2 as ([qs rt0] & Ha & H2). inversion H2; subst c2 rt0; clear H2.
    cbn [c_tasks with_queues] in H. destruct (find_task (c_tasks c1) (t_id t)) eqn:Ef; [discriminate|].
    eapply IH; [| | |exact H].
    + qi_simpl.
      assert (Vn : QV (exU (exL Ready ret none) (t_id t) Nowhere) [] (set_task (c_tasks c1) t1) (c_queues c1) (c_redirects c1) (c_rqs c1)).
      { assert (Hlt : (N.to_nat (t_rq t1) < length (c_queues c1))%nat) by (rewrite (qv_len _ _ _ _ _ _ V1), R1; exact Hrq1).
        assert (Hnf : t_state t1 <> Finished) by (cbn; discriminate).
        exact (QV_new _ _ _ _ _ _ t1 V1 Ef Hlt Hnf). }
      assert (Hf1 : find_task (set_task (c_tasks c1) t1) (t_id t) = Some t1).
      { rewrite find_set_task. replace (tid_eqb (t_id t) (t_id t1)) with true by (symmetry; apply tid_eqb_eq; reflexivity). reflexivity. }
      assert (Va : QV (exU (exL Ready rt (exU (exL Ready ret none) (t_id t) Nowhere)) (t_id t) Ready) [] (set_task (c_tasks c1) t1) qs (c_redirects c1) (c_rqs c1)).
      { eapply QV_add_ready; [exact Vn | exact Hf1 | reflexivity | reflexivity | reflexivity | | | exact Ha].
        - unfold exp_place. rewrite exU_same. discriminate.
        - eapply QV_no_redirect; [exact Vn | exact Hf1 | cbn; intros w0; discriminate]. }
      eapply QV_ex_change; [exact Va | |].
      * intros y t0 Hf0. unfold exp_place, exU, exL, none. rewrite tmem_app. destruct (tid_eqb y (t_id t)) eqn:E.
        -- apply tid_eqb_eq in E. subst y. rewrite Hf1 in Hf0. inversion Hf0; subst t0.
           destruct (tid_mem (t_id t) ret || tid_mem (t_id t) rt); [reflexivity|]. cbn. rewrite Ec. reflexivity.
        -- destruct (tid_mem y ret), (tid_mem y rt); reflexivity.
      * intros y v Hv. destruct (qv_red _ _ _ _ _ _ Va _ _ Hv) as (E1 & _). unfold exU, exL, none in E1 |- *. rewrite tmem_app.
        destruct (tid_eqb y (t_id t)); [discriminate|]. destruct (tid_mem y rt); [discriminate|]. destruct (tid_mem y ret); [discriminate | reflexivity].
    + cbn [c_tasks upd_task with_tasks with_queues]. intros x Hx. rewrite find_set_task. destruct (tid_eqb x (t_id t1)); [discriminate|].
      apply in_app_or in Hx. destruct Hx as [Hx|Hx].
      * rewrite N1. apply Hlive. exact Hx.
      * qi_simpl. destruct (add_ready_ret_live _ _ _ _ _ _ _ _ _ V1 Ha _ Hx) as (tx & Htx). congruence.
    + cbn [c_rqs upd_task with_tasks with_queues]. rewrite R1. exact Hrq2.
  - inversion H2; subst c2 rt; clear H2.
    destruct (find_task (c_tasks c1) (t_id t)) eqn:Ef; [discriminate|].
    assert (Hnr : ~ In (t_id t) ret) by (intros Hx; apply (Hlive _ Hx); apply N1; exact Ef).
    eapply IH; [| | |exact H].
    + qi_simpl. rewrite app_nil_r.
      assert (Vn : QV (exU (exL Ready ret none) (t_id t) Nowhere) [] (set_task (c_tasks c1) t1) (c_queues c1) (c_redirects c1) (c_rqs c1)).
      { assert (Hlt : (N.to_nat (t_rq t1) < length (c_queues c1))%nat) by (rewrite (qv_len _ _ _ _ _ _ V1), R1; exact Hrq1).
        assert (Hnf : t_state t1 <> Finished) by (cbn; discriminate).
        exact (QV_new _ _ _ _ _ _ t1 V1 Ef Hlt Hnf). }
      eapply QV_ex_change; [exact Vn | |].
      * intros y t0 Hf0. unfold exp_place, exU. destruct (tid_eqb y (t_id t)) eqn:E; [|reflexivity].
        apply tid_eqb_eq in E. subst y. rewrite find_set_task in Hf0. replace (tid_eqb (t_id t) (t_id t1)) with true in Hf0 by (symmetry; apply tid_eqb_eq; reflexivity). inversion Hf0; subst t0.
        rewrite (exL_notin _ _ _ _ Hnr). unfold none. cbn. rewrite Ec. reflexivity.
      * intros y v Hv. destruct (qv_red _ _ _ _ _ _ Vn _ _ Hv) as (E1 & _). unfold exU in E1.
        destruct (tid_eqb y (t_id t)); [discriminate | exact E1].
    + cbn [c_tasks upd_task with_tasks]. intros x Hx. rewrite app_nil_r in Hx. rewrite find_set_task. destruct (tid_eqb x (t_id t1)); [discriminate|].
      rewrite N1. apply Hlive. exact Hx.
    + cbn [c_rqs upd_task with_tasks]. rewrite R1. exact Hrq2.
Qed.

Lemma on_new_tasks_QI s ts s' :
  QI none [] (core_of s) -> Forall (fun t => (N.to_nat (t_rq t) < length (c_rqs (core_of s)))%nat) ts ->
  on_new_tasks s ts = Ok s' -> QI none [] (core_of s').
Proof.
  intros V Hrq H. unfold on_new_tasks in H. destruct ts as [|t0 tr] eqn:Et; [inversion H; subst; exact V|]. rewrite <- Et in *. clear Et.
  apply bind_ok in H. destruct H as ([c' retracted] & Ha & H). apply bind_ok in H. destruct H as (s1 & Hr & H). inversion H; subst.
  assert (V1 : QI (exL Ready retracted none) [] c') by (eapply (add_new_tasks_QI ts (core_of s) []); [exact V | intros x [] | exact Hrq | exact Ha]).
  exact (process_retracted_QI [] (st_core s c') _ _ V1 Hr).
Qed.

(** * [get_or_create_resource_rq_id] *)
Lemma rq_index_lt rqs r : forall k i, rq_index rqs r k = Some i -> (N.to_nat k <= N.to_nat i < N.to_nat k + length rqs)%nat.
Proof.
  induction rqs as [|h t IH]; cbn [rq_index]; intros k i H; [discriminate|].
  destruct (rq_eqb h r); [inversion H; subst; cbn; lia|]. specialize (IH _ _ H). cbn [length]. lia.
Qed.

Lemma get_or_create_rq_QI s r s' i : get_or_create_rq s r = (s', i) -> QI none [] (core_of s) ->
  QI none [] (core_of s') /\ (N.to_nat i < length (c_rqs (core_of s')))%nat /\ (length (c_rqs (core_of s)) <= length (c_rqs (core_of s')))%nat.
Proof.
  unfold get_or_create_rq. intros H V. destruct (rq_index (c_rqs (core_of s)) r 0) as [i0|] eqn:Ei.
  - inversion H; subst. split; [exact V | split; [|lia]]. pose proof (rq_index_lt _ _ _ _ Ei). cbn in *. lia.
  - inversion H; subst. cbn [core_of st_core with_core s_core fst broadcast with_procs c_rqs with_rqs]. rewrite app_length. cbn [length].
    split; [|split; [rewrite Nat2N.id; lia | lia]].
    unfold QI. cbn [c_tasks c_queues c_redirects c_rqs with_rqs]. apply QV_new_rq. exact V.
Qed.

(** * Submits *)
Lemma submit_ok_resp_core s jid s' : submit_ok_resp s jid = Ok s' -> core_of s' = core_of s.
Proof. unfold submit_ok_resp. intros H. apply bind_ok in H. destruct H as (j & _ & H). inversion H; reflexivity. Qed.

Lemma handle_submit_array_QI s jobsel ids entries rq prio cl tlim mf s' :
  QI none [] (core_of s) -> handle_submit_array s jobsel ids entries rq prio cl tlim mf = Ok s' -> QI none [] (core_of s').
Proof.
  intros V H. unfold handle_submit_array in H.
  match type of H with (match ?x with Some _ => _ | None => _ end) = _ => destruct x end; [inversion H; subst; exact V|].
  apply bind_ok in H. destruct H as ([acc s1] & Hr & H).
  assert (C1 : core_of s1 = core_of s).
  { destruct jobsel as [j0|]; [destruct (find_job (hq_jobs s) j0) as [j|]; [destruct (negb (j_open j))|]|]; inversion Hr; reflexivity. }
  destruct acc as [[[jid is_new] ids']|].
  - cbv zeta in H.
    match type of H with context [get_or_create_rq ?sx rq] => set (s3 := sx) in *; destruct (get_or_create_rq s3 rq) as [s4 rqi] eqn:Erq end.
    assert (C3 : core_of s3 = core_of s) by (subst s3; destruct is_new; exact C1).
    assert (V3 : QI none [] (core_of s3)) by (rewrite C3; exact V).
    destruct (get_or_create_rq_QI _ _ _ _ Erq V3) as (V4 & Hi & _).
    apply bind_ok in H. destruct H as (j & _ & H). apply bind_ok in H. destruct H as (j' & _ & H).
    apply bind_ok in H. destruct H as (s6 & H6 & H). rewrite (submit_ok_resp_core _ _ _ H).
    eapply on_new_tasks_QI; [| |exact H6]; [exact V4|].
    apply Forall_forall. intros t Ht. apply in_map_iff in Ht. destruct Ht as (i & <- & _). cbn. exact Hi.
  - assert (C2 : core_of s' = core_of s1).
    { destruct jobsel; [match type of H with (match ?x with Some _ => _ | None => _ end) = _ => destruct x end|]; inversion H; reflexivity. }
    rewrite C2, C1. exact V.
Qed.

Lemma fold_rqs_QI rqs : forall s l s4 rqis,
  fold_left (fun acc r => let '(s, l) := acc in let '(s', i) := get_or_create_rq s r in (s', l ++ [i])) rqs (s, l) = (s4, rqis) ->
  QI none [] (core_of s) -> Forall (fun i => (N.to_nat i < length (c_rqs (core_of s)))%nat) l ->
  QI none [] (core_of s4) /\ Forall (fun i => (N.to_nat i < length (c_rqs (core_of s4)))%nat) rqis.
Proof.
  induction rqs as [|r rest IH]; cbn [fold_left]; intros s l s4 rqis H V Hl; [inversion H; subst; auto|].
  destruct (get_or_create_rq s r) as [s1 i] eqn:E. destruct (get_or_create_rq_QI _ _ _ _ E V) as (V1 & Hi & Hle).
  eapply IH; [exact H | exact V1|]. apply Forall_app. split; [|constructor; [exact Hi | constructor]].
  eapply Forall_impl; [|exact Hl]. cbn. intros a Ha. lia.
Qed.

Lemma graph_tasks_rq jid rqis l : forall tasks, graph_tasks jid rqis l = Ok tasks -> Forall (fun t => In (t_rq t) rqis) tasks.
Proof.
  induction l as [|g r IH]; cbn [graph_tasks]; intros tasks H; [inversion H; constructor|].
  destruct (nth_error rqis (N.to_nat (gt_rq g))) as [rqi|] eqn:En; [|discriminate].
  apply bind_ok in H. destruct H as (rest & Hr & H). inversion H; subst. constructor; [|apply IH; exact Hr].
  cbn. eapply nth_error_In. exact En.
Qed.

Lemma handle_submit_graph_QI s jobsel rqs ts mf s' :
  QI none [] (core_of s) -> handle_submit_graph s jobsel rqs ts mf = Ok s' -> QI none [] (core_of s').
Proof.
  intros V H. unfold handle_submit_graph in H.
  apply bind_ok in H. destruct H as (v1 & _ & H).
  match type of H with (match ?x with Some _ => _ | None => _ end) = _ => destruct x end; [inversion H; subst; exact V|].
  apply bind_ok in H. destruct H as ([acc s1] & Hr & H).
  assert (C1 : core_of s1 = core_of s).
  { destruct jobsel as [j0|]; [destruct (find_job (hq_jobs s) j0) as [j|]; [destruct (negb (j_open j))|]|]; inversion Hr; reflexivity. }
  destruct acc as [[jid is_new]|].
  - cbv zeta in H.
    match type of H with context [fold_left ?f rqs (?sx, [])] => set (s3 := sx) in *; destruct (fold_left f rqs (s3, [])) as [s4 rqis] eqn:Erq end.
    assert (C3 : core_of s3 = core_of s) by (subst s3; destruct is_new; exact C1).
    assert (V3 : QI none [] (core_of s3)) by (rewrite C3; exact V).
    destruct (fold_rqs_QI _ _ _ _ _ Erq V3) as (V4 & Hi); [constructor|].
    apply bind_ok in H. destruct H as (j & _ & H). apply bind_ok in H. destruct H as (j' & _ & H).
    apply bind_ok in H. destruct H as (tasks & Hg & H).
    apply bind_ok in H. destruct H as (s6 & H6 & H). rewrite (submit_ok_resp_core _ _ _ H).
    eapply on_new_tasks_QI; [| |exact H6]; [exact V4|].
    pose proof (graph_tasks_rq _ _ _ _ Hg) as Hin. rewrite Forall_forall in *. intros t Ht. cbn. apply Hi. apply Hin. exact Ht.
  - inversion H; subst. rewrite C1. exact V.
Qed.

(** * Open, close, cancel, forget *)
Lemma handle_open_QI s mf s' : QI none [] (core_of s) -> handle_open s mf = Ok s' -> QI none [] (core_of s').
Proof. unfold handle_open. intros V H. inversion H; subst. exact V. Qed.

Lemma handle_close_QI s jid s' : QI none [] (core_of s) -> handle_close s jid = Ok s' -> QI none [] (core_of s').
Proof.
  intros V H. unfold handle_close in H.
  destruct (find_job (hq_jobs s) jid) as [j|]; [|inversion H; subst; exact V].
  destruct (j_open j); [|inversion H; subst; exact V].
  apply bind_ok in H. destruct H as (s1 & H1 & H). inversion H; subst.
  destruct (check_termination_jt _ _ _ H1) as [C1 _]. unfold core_same in C1. change (QI none [] (core_of s1)). rewrite C1. exact V.
Qed.

Lemma handle_forget_QI s jid s' : QI none [] (core_of s) -> handle_forget s jid = Ok s' -> QI none [] (core_of s').
Proof.
  intros V H. unfold handle_forget in H.
  destruct (find_job (hq_jobs s) jid) as [j|]; [|inversion H; subst; exact V].
  apply bind_ok in H. destruct H as (na & _ & H). destruct (negb (j_open j) && na); inversion H; subst; exact V.
Qed.

Lemma handle_cancel_QI s jid s' : HOK (hq_of s) -> CB s -> QI none [] (core_of s) -> handle_cancel s jid = Ok s' -> QI none [] (core_of s').
Proof.
  intros Hok HC V H. unfold handle_cancel in H.
  destruct (find_job (hq_jobs s) jid) as [j|] eqn:Ej; [|inversion H; subst; exact V].
  assert (Hjt : jt s jid = Some (j_tasks j)) by (unfold jt, hq_of; unfold hq_jobs in Ej; rewrite Ej; reflexivity).
  pose proof (find_job_id _ _ _ Ej) as Hid.
  assert (Hin : forall x, In x (non_finished_task_ids j) <-> fst x = jid /\ active s x).
  { intros x. rewrite (non_finished_in _ _ (jok_sorted _ (Hok _ (find_job_in _ _ _ Ej)))), Hid. split.
    - intros [Hf Ha]. split; [exact Hf|]. exists (j_tasks j). rewrite Hf. auto.
    - intros [Hf (l & Hl & Ha)]. split; [exact Hf|]. rewrite Hf, Hjt in Hl. inversion Hl; subst. exact Ha. }
  destruct (non_finished_task_ids j) as [|i0 ir] eqn:En; [inversion H; subst; exact V|].
  rewrite <- En in *. clear En.
  apply bind_ok in H. destruct H as (s1 & H1 & H). apply bind_ok in H. destruct H as (al & _ & H).
  apply bind_ok in H. destruct H as (s2 & H2 & H). inversion H; subst.
  destruct (set_cancel_state_active _ _ _ _ H2) as [C2 _]. unfold core_same in C2. change (QI none [] (core_of s2)). rewrite C2.
  eapply on_cancel_tasks_QI; [exact V | exact (cb_d _ HC) | | exact H1].
  intros x t y Hx Hy Hf. left. apply Hin. split.
  - rewrite Hf. apply Hin in Hy. apply Hy.
  - apply (cb_b _ HC). apply find_task_present. eauto.
Qed.
