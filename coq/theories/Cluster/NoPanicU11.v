(** Protocol invariant, part 11: a message of a worker reaches the server ([OpDUp]): [PROTO] is
    preserved, and the executable hypothesis [RejHyp.step_fresh] follows from [PROTO]. *)
From HQ Require Import Base.Prelude Cluster.Types Cluster.Core Cluster.Reactor Cluster.Worker Cluster.Server Cluster.Sys Cluster.ProofsJob Cluster.ProofsMore Cluster.ProofsTerminal Cluster.ProofsStep Cluster.BijBase Cluster.BijCore Cluster.BijHq Cluster.BijSt Cluster.BijReact Cluster.RejHyp Cluster.NoPanicU0 Cluster.NoPanicU1 Cluster.NoPanicU2 Cluster.NoPanicU6 Cluster.NoPanicU7 Cluster.NoPanicU8 Cluster.NoPanicU9 Cluster.NoPanicU10.
From Coq Require Import ZArith Lia Sorting.Sorted.
Local Open Scope N_scope.

Notation tid_eqb_eq := NoPanicU1.tid_eqb_eq.
Notation tid_eqb_neq := NoPanicU1.tid_eqb_neq.
Notation tid_eqb_refl := NoPanicU1.tid_eqb_refl.

(** What [PROTO] needs from the other invariants (all part of [INV], see NoPanicU12.v). *)
Definition UH (s : sys) : Prop :=
  tsorted (s_core s) /\
  forall x t, find_task (c_tasks (s_core s)) x = Some t -> seen (s_hq s) x = true /\ jactive (jv (s_hq s) x).

(** * One update *)
Lemma apply_one_SP s w u r s' b : SP x0 s (pum_us w (u :: r)) [] -> apply_one s w u = Ok (s', b) -> SP x0 s' (pum_us w r) [].
Proof.
  intros HS H. destruct u; cbn [apply_one] in H.
  - eapply task_finished_SP; eassumption.
  - apply bind_ok in H. destruct H as (s1 & H1 & H). inversion H; subst. eapply task_failed_SP; eassumption.
  - eapply task_running_SP; [exact HS | left; reflexivity | exact H].
  - eapply task_running_SP; [exact HS | right; reflexivity | exact H].
  - eapply task_reject_SP; eassumption.
  - apply bind_ok in H. destruct H as (s1 & H1 & H). inversion H; subst. eapply request_enabled_SP; eassumption.
Qed.

Lemma apply_updates_SP us : forall s w need s' need',
  SP x0 s (pum_us w us) [] -> apply_updates s w us need = Ok (s', need') -> SP x0 s' (pum_us w []) [].
Proof.
  induction us as [|u r IH]; intros s w need s' need' HS H; [cbn in H; inversion H; subst; exact HS|].
  rewrite apply_updates_cons in H. apply bind_ok in H. destruct H as ([s1 n1] & H1 & H).
  eapply IH; [|exact H]. eapply apply_one_SP; eassumption.
Qed.

Lemma on_task_update_SP s w us s' : SP x0 s (pum_us w us) [] -> on_task_update s w us = Ok s' -> SP x0 s' no_pum [].
Proof.
  intros HS H. unfold on_task_update in H. apply bind_ok in H. destruct H as ([s1 need] & H1 & H).
  pose proof (apply_updates_SP _ _ _ _ _ _ HS H1) as S1.
  assert (S2 : SP x0 s1 no_pum []).
  { apply (SP_pum_clear x0 s1 (pum_us w [])); [exact S1|]. intros w' y. unfold pum_us. destruct (N.eqb w' w); reflexivity. }
  destruct (need && _); inversion H; subst; [apply SP_ask|]; exact S2.
Qed.

(** * The message leaves the channel *)
Definition pum_one (w0 : wid) (m : umsg) : wid -> list umsg := fun w => if N.eqb w w0 then [m] else [].

Lemma SP_pop s w p m rest o :
  PROTO s -> UH s -> find_proc (s_procs s) w = Some p -> p_up p = m :: rest ->
  SP x0 (with_procs s (set_proc (s_procs s) (wp_up p rest)), o) (pum_one w m) [].
Proof.
  intros HP [Hcs Hpa] Hp Eu. destruct (find_proc_some _ _ _ Hp) as [_ Hid].
  pose proof (SP_init s o HP Hcs Hpa) as [H9 Hcs' Hact H1 Hd Ht H3 H4 Hpres Hpum H5 H6 H7 R1 R2].
  cbn [fst core_of hq_of s_core s_hq s_procs] in *.
  assert (Hfp : forall w' q, find_proc (set_proc (s_procs s) (wp_up p rest)) w' = Some q ->
            exists q0, find_proc (s_procs s) w' = Some q0 /\ p_down q = p_down q0 /\ p_rqs q = p_rqs q0 /\ p_running q = p_running q0
                       /\ p_backlog q = p_backlog q0 /\ p_futures q = p_futures q0 /\ p_alloc q = p_alloc q0
                       /\ pum_one w m w' ++ p_up q = p_up q0).
  { intros w' q Hf. rewrite find_set_proc in Hf. cbn [wp_up wp_upd p_id] in Hf. rewrite Hid in Hf. unfold pum_one.
    destruct (N.eqb w' w) eqn:E.
    - apply N.eqb_eq in E. subst w'. inversion Hf; subst q. exists p. cbn. repeat split; try assumption. symmetry. exact Eu.
    - exists q. repeat split. exact Hf. }
  constructor; cbn [fst snd core_of hq_of with_procs s_core s_hq s_procs]; try assumption.
  - apply set_proc_sorted. exact H9.
  - intros w' q x t Hq Hx HX. destruct (Hfp _ _ Hq) as (q0 & Hq0 & E1 & E2 & E3 & E4 & E5 & E6 & E7).
    rewrite E7, E1, (local_eq q0 q x E3 E4). specialize (H1 w' q0 x t Hq0 Hx HX). cbn [no_pum app] in H1. exact H1.
  - intros w' q Hq. destruct (Hfp _ _ Hq) as (q0 & Hq0 & E1 & E2 & E3 & E4 & E5 & E6 & E7). rewrite E1, E2. eapply Hd; eassumption.
  - intros w' q Hq. destruct (Hfp _ _ Hq) as (q0 & Hq0 & E1 & E2 & E3 & E4 & E5 & E6 & E7). rewrite E1, E2. eapply Ht; eassumption.
  - intros w' q Hq. destruct (Hfp _ _ Hq) as (q0 & Hq0 & E1 & E2 & E3 & E4 & E5 & E6 & E7).
    destruct (H3 _ _ Hq0) as [L1 L2 L3 L4 L5]. constructor; rewrite ?E3, ?E4, ?E5, ?E6; assumption.
  - intros w' q x Hq Hx. destruct (Hfp _ _ Hq) as (q0 & Hq0 & E1 & E2 & E3 & E4 & E5 & E6 & E7).
    apply (H4 w' q0 x Hq0). left. unfold proc_tids in *. rewrite <- E7, flat_map_app, !in_app_iff. rewrite !in_app_iff in Hx. rewrite E1, E3, E4 in Hx.
    rewrite msgs_for_nil in Hx. cbn [flat_map In] in Hx. tauto.
  - intros w' Hw'. unfold pum_one in Hw'. rewrite find_set_proc. cbn [wp_up wp_upd p_id]. rewrite Hid.
    destruct (N.eqb w' w); [discriminate | exfalso; apply Hw'; reflexivity].
Qed.

Theorem dup_step_PROTO s w s' outs : PROTO s -> UH s -> step s (OpDUp w) = Ok (s', outs) -> PROTO s'.
Proof.
  intros HP HU H. cbn [step] in H.
  destruct (find_proc (s_procs s) w) as [p|] eqn:Hp; [|discriminate]. destruct (p_up p) as [|m rest] eqn:Eu; [discriminate|].
  pose proof (SP_pop s w p m rest [OUp w m] HP HU Hp Eu) as S1.
  destruct m as [us|ids].
  - apply (SP_final (s', outs)). eapply on_task_update_SP; [|exact H]. exact S1.
  - apply (SP_final (s', outs)). eapply on_retract_response_SP; [|exact H]. exact S1.
Qed.

(** * The freshness hypothesis of the invariant proofs follows from the protocol invariant *)
Lemma SP_reject_fresh s w u r : SP x0 s (pum_us w (u :: r)) [] -> reject_fresh s w u = true.
Proof.
  intros HS. destruct u as [t|t k|t rv|t rv|t rv|rq rv]; cbn [reject_fresh]; try reflexivity.
  - destruct (find_task (c_tasks (core_of s)) t) as [tk|] eqn:Ef; [|reflexivity].
    destruct (t_state tk) eqn:Est; try reflexivity.
    pose proof (sp_mnt _ _ _ _ HS _ _ Ef eq_refl) as M. unfold mn_task_ok in M. rewrite Est in M.
    destruct (nth_error (c_rqs (core_of s)) (N.to_nat (t_rq tk))); [exact M | reflexivity].
  - destruct (find_task (c_tasks (core_of s)) t) as [tk|] eqn:Ef; [|reflexivity].
    destruct (pum_us_proc _ _ _ _ _ HS) as (p & Hp).
    pose proof (head_item _ _ _ _ _ _ _ _ _ HS Ef eq_refl Hp) as Hl. cbn [uitem_of] in Hl. rewrite sel_same in Hl. cbn [app] in Hl.
    destruct (LS_rej _ _ _ _ _ Hl) as (rv1 & Ev & -> & _). apply view_VA in Ev. rewrite Ev. rewrite !N.eqb_refl. reflexivity.
Qed.

Lemma SP_rejects_fresh us : forall s w, SP x0 s (pum_us w us) [] -> rejects_fresh s w us = true.
Proof.
  induction us as [|u r IH]; intros s w HS; [reflexivity|]. cbn [rejects_fresh]. rewrite (SP_reject_fresh _ _ _ _ HS). cbn [andb].
  destruct (apply_one s w u) as [[s1 b]| |] eqn:E; try reflexivity. apply IH. eapply apply_one_SP; eassumption.
Qed.

Theorem PROTO_implies_step_fresh s o : PROTO s -> UH s -> step_fresh s o = true.
Proof.
  intros HP HU. destruct o; try reflexivity. cbn [step_fresh].
  destruct (find_proc (s_procs s) w) as [p|] eqn:Hp; [|reflexivity]. destruct (p_up p) as [|[us|ids] rest] eqn:Eu; try reflexivity.
  apply SP_rejects_fresh. exact (SP_pop s w p (UUpdates us) rest _ HP HU Hp Eu).
Qed.
