(** Protocol invariant, part 2: worker-local data structures - the three maps keyed by task id
    (running / allocations / futures), the backlog and the counting of a task in it, the local
    status [local] under the primitive updates. *)
From HQ Require Import Base.Prelude Cluster.Types Cluster.Core Cluster.Reactor Cluster.Worker Cluster.Server Cluster.Sys Cluster.NoPanicU0 Cluster.NoPanicU1.
From Coq Require Import ZArith Lia Sorting.Sorted.
Local Open Scope N_scope.

(** * Key lists *)
Fixpoint kset (l : list tid) (t : tid) : list tid :=
  match l with
  | [] => [t]
  | k :: r => if tid_eqb t k then t :: r else if tid_ltb t k then t :: l else k :: kset r t
  end.
Fixpoint kdel (l : list tid) (t : tid) : list tid :=
  match l with [] => [] | k :: r => if tid_eqb t k then r else k :: kdel r t end.

Lemma run_set_keys l t v : map fst (run_set l t v) = kset (map fst l) t.
Proof.
  induction l as [|[k v0] r IH]; cbn [run_set map fst kset]; [reflexivity|].
  destruct (tid_eqb t k); [reflexivity|]. destruct (tid_ltb t k); [reflexivity|]. cbn [map fst]. rewrite IH. reflexivity.
Qed.
Lemma al_set_keys l t v : map fst (al_set l t v) = kset (map fst l) t.
Proof.
  induction l as [|[k v0] r IH]; cbn [al_set map fst kset]; [reflexivity|].
  destruct (tid_eqb t k); [reflexivity|]. destruct (tid_ltb t k); [reflexivity|]. cbn [map fst]. rewrite IH. reflexivity.
Qed.
Lemma fu_set_keys l t v : map fst (fu_set l t v) = kset (map fst l) t.
Proof.
  induction l as [|[k v0] r IH]; cbn [fu_set map fst kset]; [reflexivity|].
  destruct (tid_eqb t k); [reflexivity|]. destruct (tid_ltb t k); [reflexivity|]. cbn [map fst]. rewrite IH. reflexivity.
Qed.
Lemma run_del_keys {V} (l : list (tid * V)) t : map fst (run_del l t) = kdel (map fst l) t.
Proof.
  induction l as [|[k v0] r IH]; cbn [run_del map fst kdel]; [reflexivity|].
  destruct (tid_eqb t k); [reflexivity|]. cbn [map fst]. rewrite IH. reflexivity.
Qed.

Lemma kset_in l t y : In y (kset l t) -> y = t \/ In y l.
Proof.
  induction l as [|k r IH]; cbn [kset In]; [intros [H|[]]; auto|].
  destruct (tid_eqb t k); cbn [In]; [intros [H|H]; auto|].
  destruct (tid_ltb t k); cbn [In]; [intros [H|[H|H]]; auto|].
  intros [H|H]; [auto|]. destruct (IH H); auto.
Qed.
Lemma kset_sorted l t : StronglySorted tlt l -> StronglySorted tlt (kset l t).
Proof.
  induction l as [|k r IH]; cbn [kset]; intros Hs; [constructor; constructor|].
  inversion Hs as [|? ? Hs' Hall]; subst.
  destruct (tid_eqb t k) eqn:E1.
  - apply tid_eqb_eq in E1. subst k. exact Hs.
  - destruct (tid_ltb t k) eqn:E2.
    + constructor; [exact Hs|]. constructor; [exact E2|].
      rewrite Forall_forall in *. intros y Hy. eapply tlt_trans; [exact E2 | apply Hall; exact Hy].
    + constructor; [apply IH; exact Hs'|]. rewrite Forall_forall in *. intros y Hy.
      destruct (kset_in _ _ _ Hy) as [->|Hy']; [|apply Hall; exact Hy']. apply tlt_total; assumption.
Qed.
Lemma kdel_incl l t y : In y (kdel l t) -> In y l.
Proof.
  induction l as [|k r IH]; cbn [kdel In]; [auto|].
  destruct (tid_eqb t k); [intros H; right; exact H|]. cbn [In]. intros [H|H]; auto.
Qed.
Lemma kdel_sorted l t : StronglySorted tlt l -> StronglySorted tlt (kdel l t).
Proof.
  induction l as [|k r IH]; cbn [kdel]; intros Hs; [constructor|].
  inversion Hs as [|? ? Hs' Hall]; subst. destruct (tid_eqb t k); [exact Hs'|].
  constructor; [apply IH; exact Hs'|]. rewrite Forall_forall in *. intros y Hy. apply Hall. eapply kdel_incl; exact Hy.
Qed.
Lemma kdel_not_in l t : StronglySorted tlt l -> ~ In t (kdel l t).
Proof.
  induction l as [|k r IH]; cbn [kdel]; intros Hs; [intros []|].
  inversion Hs as [|? ? Hs' Hall]; subst. destruct (tid_eqb t k) eqn:E.
  - apply tid_eqb_eq in E. subst k. intros Hin. rewrite Forall_forall in Hall. exact (tlt_irrefl _ (Hall _ Hin)).
  - intros [H|H]; [subst; rewrite tid_eqb_refl in E; discriminate | exact (IH Hs' H)].
Qed.
Lemma kdel_in l t y : y <> t -> In y l -> In y (kdel l t).
Proof.
  intros Hne. induction l as [|k r IH]; cbn [kdel In]; [auto|].
  destruct (tid_eqb t k) eqn:E.
  - apply tid_eqb_eq in E. subst k. intros [H|H]; [congruence | exact H].
  - cbn [In]. intros [H|H]; auto.
Qed.
Lemma kset_has l t : In t (kset l t).
Proof.
  induction l as [|k r IH]; cbn [kset]; [left; reflexivity|].
  destruct (tid_eqb t k); [left; reflexivity|]. destruct (tid_ltb t k); [left; reflexivity | right; exact IH].
Qed.
Lemma kset_keep l t y : In y l -> In y (kset l t).
Proof.
  induction l as [|k r IH]; cbn [kset In]; [intros []|].
  destruct (tid_eqb t k) eqn:E.
  - apply tid_eqb_eq in E. subst k. cbn [In]. auto.
  - destruct (tid_ltb t k); cbn [In]; [auto|]. intros [H|H]; auto.
Qed.

(** * Lookups *)
Lemma run_find_set l t v x : run_find (run_set l t v) x = if tid_eqb x t then Some v else run_find l x.
Proof.
  induction l as [|[k v0] r IH]; cbn [run_set run_find]; [reflexivity|].
  destruct (tid_eqb t k) eqn:E1.
  - apply tid_eqb_eq in E1. subst k. cbn [run_find]. destruct (tid_eqb x t); reflexivity.
  - destruct (tid_ltb t k); cbn [run_find]; [reflexivity|].
    destruct (tid_eqb x k) eqn:E2.
    + apply tid_eqb_eq in E2. subst x. rewrite tid_eqb_sym, E1. reflexivity.
    + exact IH.
Qed.
Lemma al_find_set l t v x : al_find (al_set l t v) x = if tid_eqb x t then Some v else al_find l x.
Proof.
  induction l as [|[k v0] r IH]; cbn [al_set al_find]; [reflexivity|].
  destruct (tid_eqb t k) eqn:E1.
  - apply tid_eqb_eq in E1. subst k. cbn [al_find]. destruct (tid_eqb x t); reflexivity.
  - destruct (tid_ltb t k); cbn [al_find]; [reflexivity|].
    destruct (tid_eqb x k) eqn:E2.
    + apply tid_eqb_eq in E2. subst x. rewrite tid_eqb_sym, E1. reflexivity.
    + exact IH.
Qed.
Lemma run_find_none l x : run_find l x = None <-> ~ In x (map fst l).
Proof.
  induction l as [|[k v] r IH]; cbn [run_find map fst In]; [tauto|].
  destruct (tid_eqb x k) eqn:E.
  - apply tid_eqb_eq in E. subst k. split; [discriminate | intros H; exfalso; apply H; auto].
  - apply tid_eqb_neq in E. rewrite IH. split; [intros H [X|X]; [congruence | auto] | intros H X; apply H; auto].
Qed.
Lemma al_find_none l x : al_find l x = None <-> ~ In x (map fst l).
Proof.
  induction l as [|[k v] r IH]; cbn [al_find map fst In]; [tauto|].
  destruct (tid_eqb x k) eqn:E.
  - apply tid_eqb_eq in E. subst k. split; [discriminate | intros H; exfalso; apply H; auto].
  - apply tid_eqb_neq in E. rewrite IH. split; [intros H [X|X]; [congruence | auto] | intros H X; apply H; auto].
Qed.
Lemma fu_find_none l x : fu_find l x = None <-> ~ In x (map fst l).
Proof.
  induction l as [|[k v] r IH]; cbn [fu_find map fst In]; [tauto|].
  destruct (tid_eqb x k) eqn:E.
  - apply tid_eqb_eq in E. subst k. split; [discriminate | intros H; exfalso; apply H; auto].
  - apply tid_eqb_neq in E. rewrite IH. split; [intros H [X|X]; [congruence | auto] | intros H X; apply H; auto].
Qed.
Lemma al_find_in l x v : al_find l x = Some v -> In (x, v) l.
Proof.
  induction l as [|[k v0] r IH]; cbn [al_find]; [discriminate|].
  destruct (tid_eqb x k) eqn:E; [apply tid_eqb_eq in E; subst; intros H; inversion H; left; reflexivity | intros H; right; auto].
Qed.
Lemma run_find_del l t x : StronglySorted tlt (map fst l) ->
  run_find (run_del l t) x = if tid_eqb x t then None else run_find l x.
Proof.
  intros Hs. destruct (tid_eqb x t) eqn:E.
  - apply tid_eqb_eq in E. subst x. apply run_find_none. rewrite run_del_keys. apply kdel_not_in. exact Hs.
  - clear Hs. induction l as [|[k v] r IH]; cbn [run_del run_find]; [reflexivity|].
    destruct (tid_eqb t k) eqn:E1.
    + apply tid_eqb_eq in E1. subst k. rewrite E. reflexivity.
    + cbn [run_find]. destruct (tid_eqb x k); [reflexivity | exact IH].
Qed.

(** * The worker-local invariant in Prop form *)
Record LOK (p : wproc) : Prop := mkLOK {
  lok_sorted : StronglySorted tlt (map fst (p_running p));
  lok_fut : map fst (p_futures p) = map fst (p_running p);
  lok_al : map fst (p_alloc p) = map fst (p_running p);
  lok_ne : forall kv, In kv (p_alloc p) -> snd kv <> [];
  lok_bl : StronglySorted N.lt (map fst (p_backlog p))
}.

Lemma local_ok_LOK p : local_ok p = true <-> LOK p.
Proof.
  unfold local_ok. rewrite !andb_true_iff, tids_sorted_iff, !tids_eqb_eq, forallb_forall, ns_sorted_iff. split.
  - intros ((((H1 & H2) & H3) & H4) & H5). constructor; auto.
    intros kv Hkv. specialize (H4 _ Hkv). destruct (snd kv); [discriminate | discriminate].
  - intros [H1 H2 H3 H4 H5]. repeat split; auto. intros kv Hkv. specialize (H4 _ Hkv). destruct (snd kv); [congruence | reflexivity].
Qed.

(** * Counting in the backlog *)
Definition cnt (x : tid) (l : list wtask) : nat := length (filter (fun y => tid_eqb (wt_id y) x) l).

Lemma bl_count_nil x : bl_count x [] = O.
Proof. reflexivity. Qed.
Lemma bl_count_cons x k v r : bl_count x ((k, v) :: r) = (cnt x v + bl_count x r)%nat.
Proof. unfold bl_count, cnt. cbn [flat_map snd]. rewrite app_length. reflexivity. Qed.
Lemma cnt_app x a b : cnt x (a ++ b) = (cnt x a + cnt x b)%nat.
Proof. unfold cnt. rewrite filter_app, app_length. reflexivity. Qed.
Lemma cnt_one x t : cnt x [t] = if tid_eqb (wt_id t) x then 1%nat else O.
Proof. unfold cnt. cbn. destruct (tid_eqb (wt_id t) x); reflexivity. Qed.
Lemma cnt_pos x l : (0 < cnt x l)%nat <-> exists y, In y l /\ wt_id y = x.
Proof.
  unfold cnt. induction l as [|h r IH]; cbn [filter length In].
  - split; [lia | intros (y & [] & _)].
  - destruct (tid_eqb (wt_id h) x) eqn:E.
    + apply tid_eqb_eq in E. cbn [length]. split; [intros _; exists h; auto | intros _; lia].
    + apply tid_eqb_neq in E. rewrite IH. split; [intros (y & Hy & Hid); exists y; auto | intros (y & [Hy|Hy] & Hid); [congruence | eauto]].
Qed.

Lemma bl_get_above b rq : Forall (fun k => rq < k) (map fst b) -> bl_get b rq = [].
Proof.
  induction b as [|[k v] r IH]; cbn [bl_get map fst]; intros H; [reflexivity|].
  inversion H as [|? ? H1 H2]; subst. destruct (N.eqb rq k) eqn:E; [apply N.eqb_eq in E; lia | apply IH; exact H2].
Qed.

(** replacing the list of one request class *)
Lemma bl_count_set x b rq v : StronglySorted N.lt (map fst b) ->
  (bl_count x (bl_set b rq v) + cnt x (bl_get b rq) = bl_count x b + cnt x v)%nat.
Proof.
  induction b as [|[k v0] r IH]; cbn [bl_set bl_get map fst]; intros Hs.
  - rewrite bl_count_cons, bl_count_nil. change (cnt x []) with O. lia.
  - inversion Hs as [|? ? Hs' Hall]; subst. destruct (N.eqb rq k) eqn:E1.
    + rewrite !bl_count_cons. lia.
    + destruct (N.ltb rq k) eqn:E2.
      * rewrite !bl_count_cons. apply N.ltb_lt in E2.
        rewrite (bl_get_above r rq); [change (cnt x []) with O; lia|].
        rewrite Forall_forall in *. intros y Hy. specialize (Hall _ Hy). lia.
      * rewrite !bl_count_cons. specialize (IH Hs'). lia.
Qed.
Lemma bl_get_le x b rq : (cnt x (bl_get b rq) <= bl_count x b)%nat.
Proof.
  induction b as [|[k v] r IH]; cbn [bl_get]; [unfold cnt; cbn; lia|].
  rewrite bl_count_cons. destruct (N.eqb rq k); lia.
Qed.

Lemma pop_last_snoc {A} (l : list A) x r : pop_last l = Some (x, r) -> l = r ++ [x].
Proof.
  revert x r. induction l as [|h t IH]; cbn [pop_last]; intros x r H; [discriminate|].
  destruct t as [|h2 t2]; [inversion H; subst; reflexivity|].
  destruct (pop_last (h2 :: t2)) as [[x' r']|] eqn:E; [|discriminate]. inversion H; subst.
  rewrite (IH _ _ eq_refl). reflexivity.
Qed.

(** the task ids of the backlog *)
Definition bl_tids (b : list (N * list wtask)) : list tid := flat_map (fun kv => map wt_id (snd kv)) b.
Lemma bl_count_pos x b : (0 < bl_count x b)%nat <-> In x (bl_tids b).
Proof.
  induction b as [|[k v] r IH]; [cbn; split; [lia | intros []]|].
  rewrite bl_count_cons. change (bl_tids ((k, v) :: r)) with (map wt_id v ++ bl_tids r). rewrite in_app_iff, <- IH.
  assert (H : (0 < cnt x v)%nat <-> In x (map wt_id v)).
  { rewrite cnt_pos, in_map_iff. split; intros (y & H1 & H2); exists y; auto. }
  rewrite <- H. lia.
Qed.
Lemma bl_tids_cons k v r : bl_tids ((k, v) :: r) = map wt_id v ++ bl_tids r.
Proof. reflexivity. Qed.
Lemma bl_set_tids b rq v x : In x (bl_tids (bl_set b rq v)) -> In x (map wt_id v) \/ In x (bl_tids b).
Proof.
  induction b as [|[k v0] r IH]; cbn [bl_set].
  - rewrite bl_tids_cons, in_app_iff. cbn. tauto.
  - destruct (N.eqb rq k); [rewrite !bl_tids_cons, !in_app_iff; tauto|].
    destruct (N.ltb rq k); rewrite !bl_tids_cons, !in_app_iff; [tauto|].
    intros [H|H]; [tauto|]. destruct (IH H); tauto.
Qed.
Lemma bl_get_tids b rq y : In y (bl_get b rq) -> In (wt_id y) (bl_tids b).
Proof.
  induction b as [|[k v] r IH]; cbn [bl_get]; [intros []|]. rewrite bl_tids_cons, in_app_iff.
  destruct (N.eqb rq k); [intros H; left; apply in_map; exact H | intros H; right; apply IH; exact H].
Qed.

Lemma bl_set_sorted b rq v : StronglySorted N.lt (map fst b) -> StronglySorted N.lt (map fst (bl_set b rq v)).
Proof.
  assert (Hk : forall b k, In k (map fst (bl_set b rq v)) -> k = rq \/ In k (map fst b)).
  { clear. induction b as [|[k0 v0] r IH]; cbn [bl_set map]; intros k.
    - intros [H|[]]; auto.
    - destruct (N.eqb rq k0) eqn:E1; cbn [map fst In].
      + apply N.eqb_eq in E1. subst. intros [H|H]; auto.
      + destruct (N.ltb rq k0); cbn [map fst In]; [intros [H|[H|H]]; auto|].
        intros [H|H]; [auto|]. destruct (IH _ H); auto. }
  induction b as [|[k0 v0] r IH]; cbn [bl_set map]; intros Hs; [constructor; constructor|].
  inversion Hs as [|? ? Hs' Hall]; subst. cbn [fst] in *.
  destruct (N.eqb rq k0) eqn:E1.
  - apply N.eqb_eq in E1. subst. cbn [map fst]. constructor; assumption.
  - destruct (N.ltb rq k0) eqn:E2; cbn [map fst].
    + apply N.ltb_lt in E2. constructor; [exact Hs|]. constructor; [exact E2|].
      rewrite Forall_forall in *. intros y Hy. specialize (Hall _ Hy). lia.
    + constructor; [apply IH; exact Hs'|]. rewrite Forall_forall in *. intros y Hy.
      destruct (Hk _ _ Hy) as [->|Hy']; [|apply Hall; exact Hy'].
      apply N.eqb_neq in E1. apply N.ltb_ge in E2. lia.
Qed.

(** * [local] depends on the running map and the backlog only *)
Lemma local_eq p q x : p_running q = p_running p -> p_backlog q = p_backlog p -> local q x = local p x.
Proof. unfold local. intros -> ->. reflexivity. Qed.

Lemma local_cases p x :
  (local p x = LNone /\ run_find (p_running p) x = None /\ bl_count x (p_backlog p) = O) \/
  (local p x = LBack /\ run_find (p_running p) x = None /\ bl_count x (p_backlog p) = 1%nat) \/
  (exists rv, local p x = LRun rv /\ run_find (p_running p) x = Some rv /\ bl_count x (p_backlog p) = O) \/
  local p x = LBad.
Proof.
  unfold local. destruct (run_find (p_running p) x) as [rv|]; destruct (bl_count x (p_backlog p)) as [|[|n]]; eauto 10.
Qed.
