(** C01 / C08: an outcome is final.  Once the job layer has recorded an outcome for a task (finished,
    failed, canceled or aborted) no sequence of client requests and task-progress callbacks - also
    ones the scheduler core would never produce - changes it; the job can only be forgotten as a
    whole. *)
From HQ Require Import Base.Prelude Cluster.Types Cluster.Core Cluster.Reactor Cluster.Worker Cluster.Server Cluster.Sys Cluster.Monitors Cluster.ProofsJob Cluster.ProofsMore.
From Coq Require Import ZArith Lia.
Local Open Scope N_scope.

Arguments N.add : simpl never.
Arguments N.sub : simpl never.

(** Task states of [j] that are terminal are kept by [j']. *)
Definition jpres (j j' : job) : Prop :=
  j_id j' = j_id j
  /\ forall t v, jt_find (j_tasks j) t = Some v -> terminal v -> jt_find (j_tasks j') t = Some v.

Lemma jpres_refl j : jpres j j.
Proof. split; auto. Qed.
Lemma jpres_trans a b c : jpres a b -> jpres b c -> jpres a c.
Proof. intros [I1 P1] [I2 P2]. split; [congruence|]. intros t v H Ht. apply P2; auto. Qed.

(** The state of one task: kept, or its whole job is gone. *)
Definition tpres (s s' : st) (t : tid) : Prop :=
  forall v, task_state s t = Some v -> terminal v ->
    task_state s' t = Some v \/ find_job (h_jobs (hq_of s')) (fst t) = None.

Lemma find_job_set js x id : find_job (set_job js x) id = if N.eqb id (j_id x) then Some x else find_job js id.
Proof.
  induction js as [|h r IH]; cbn [set_job find_job]; [reflexivity|].
  destruct (N.eqb (j_id x) (j_id h)) eqn:E1.
  - apply N.eqb_eq in E1. cbn [find_job]. rewrite <- E1. destruct (N.eqb id (j_id x)); reflexivity.
  - destruct (N.ltb (j_id x) (j_id h)); cbn [find_job].
    + reflexivity.
    + destruct (N.eqb id (j_id h)) eqn:E2.
      * apply N.eqb_eq in E2; subst id. rewrite N.eqb_sym, E1. reflexivity.
      * exact IH.
Qed.

Lemma find_job_id js id j : find_job js id = Some j -> j_id j = id.
Proof.
  induction js as [|h r IH]; cbn [find_job]; [discriminate|].
  destruct (N.eqb id (j_id h)) eqn:E; intros H; [inversion H; subst; apply N.eqb_eq in E; auto | auto].
Qed.

(** Replacing a job by one that keeps terminal states preserves the state of every terminal task. *)
Lemma tpres_set_job s j j' t :
  find_job (h_jobs (hq_of s)) (j_id j) = Some j -> jpres j j' -> tpres s (hq_set_job s j') t.
Proof.
  intros Hf [Hid P] v Hv Ht. left. unfold task_state, hq_of in *. unfold hq_set_job. cbn.
  rewrite find_job_set. rewrite Hid.
  destruct (N.eqb (fst t) (j_id j)) eqn:E.
  - apply N.eqb_eq in E. rewrite E in Hv. rewrite Hf in Hv. apply P; assumption.
  - exact Hv.
Qed.

Lemma tpres_refl s t : tpres s s t.
Proof. intros v H _. left; exact H. Qed.

Lemma tpres_emit s s' o t : tpres s s' t -> tpres s (emit s' o) t.
Proof. intros H v Hv Ht. exact (H v Hv Ht). Qed.

(** Transitivity holds as long as the job is not forgotten in the middle step. *)
Lemma tpres_trans s1 s2 s3 t :
  tpres s1 s2 t -> tpres s2 s3 t ->
  (find_job (h_jobs (hq_of s2)) (fst t) = None -> find_job (h_jobs (hq_of s3)) (fst t) = None) ->
  tpres s1 s3 t.
Proof.
  intros H1 H2 Hn v Hv Ht. destruct (H1 v Hv Ht) as [H|H]; [exact (H2 v H Ht) | right; exact (Hn H)].
Qed.

Lemma hq_get_find s id site j : hq_get_job s id site = Ok j -> find_job (h_jobs (hq_of s)) (j_id j) = Some j.
Proof.
  unfold hq_get_job, hq_of. destruct (find_job _ id) as [x|] eqn:E; [|discriminate].
  intros H; inversion H; subst. rewrite (find_job_id _ _ _ E). exact E.
Qed.

(** Jobs present stay present under [hq_set_job]. *)
Lemma set_job_keeps s j' id : find_job (h_jobs (hq_of s)) id = None -> id <> j_id j' ->
  find_job (h_jobs (hq_of (hq_set_job s j'))) id = None.
Proof.
  intros H Hne. unfold hq_of, hq_set_job. cbn. rewrite find_job_set.
  destruct (N.eqb id (j_id j')) eqn:E; [apply N.eqb_eq in E; contradiction | exact H].
Qed.

(** * Per-operation lemmas *)
Lemma jpres_set_nonterminal j t v0 v1 :
  jt_find (j_tasks j) t = Some v0 -> ~ terminal v0 ->
  forall nrun nfin nfail ncanc nabort comp,
  jpres j (job_upd j (jt_set (j_tasks j) t v1) nrun nfin nfail ncanc nabort comp).
Proof.
  intros Hf Hn nrun nfin nfail ncanc nabort comp. split; [reflexivity|].
  intros t' v Hv Ht. cbn. destruct (N.eq_dec t' t) as [->|Hne].
  - rewrite Hf in Hv. inversion Hv; subst. contradiction.
  - rewrite jt_find_set_other by exact Hne. exact Hv.
Qed.

Lemma not_terminal_W : ~ terminal JW. Proof. intros [H|[H|[H|H]]]; discriminate. Qed.
Lemma not_terminal_R : ~ terminal JR. Proof. intros [H|[H|[H|H]]]; discriminate. Qed.

Lemma check_termination_tpres s jid s' t :
  check_termination s jid = Ok s' -> tpres s s' t /\ (forall id, find_job (h_jobs (hq_of s)) id = None -> find_job (h_jobs (hq_of s')) id = None).
Proof.
  unfold check_termination. intros H.
  apply bind_ok in H. destruct H as (j & Hj & H).
  apply bind_ok in H. destruct H as (na & _ & H).
  destruct na; [|inversion H; subst; split; [apply tpres_refl | auto]].
  destruct (j_open j); [inversion H; subst; split; [apply tpres_refl | auto]|].
  inversion H; subst. pose proof (hq_get_find _ _ _ _ Hj) as Hf. split.
  - apply tpres_emit. eapply tpres_set_job; [exact Hf|]. split; [reflexivity|]. intros; assumption.
  - intros id Hn. rewrite emit_hq. apply set_job_keeps; [exact Hn|]. cbn. intros ->. congruence.
Qed.

Definition keeps_absent (s s' : st) : Prop :=
  forall id, find_job (h_jobs (hq_of s)) id = None -> find_job (h_jobs (hq_of s')) id = None.

Lemma set_job_keeps_absent s j j' : find_job (h_jobs (hq_of s)) (j_id j) = Some j -> j_id j' = j_id j -> keeps_absent s (hq_set_job s j').
Proof. intros Hf Hid id Hn. apply set_job_keeps; [exact Hn|]. rewrite Hid. intros ->. congruence. Qed.

Lemma process_task_started_tpres s x inst ws rv s' t :
  process_task_started s x inst ws rv = Ok s' -> tpres s s' t /\ keeps_absent s s'.
Proof.
  unfold process_task_started. intros H. apply bind_ok in H. destruct H as (j & Hj & H).
  pose proof (hq_get_find _ _ _ _ Hj) as Hf.
  destruct (jt_find (j_tasks j) (snd x)) as [v|] eqn:Ef; [|discriminate].
  inversion H; subst. split.
  - apply tpres_emit. eapply tpres_set_job; [exact Hf|].
    destruct v; try apply jpres_refl. apply jpres_set_nonterminal with (v0 := JW); [exact Ef | apply not_terminal_W].
  - intros id Hn. rewrite emit_hq. eapply set_job_keeps_absent; [exact Hf| |exact Hn]. destruct v; reflexivity.
Qed.

Lemma process_task_finished_tpres s x s' t :
  process_task_finished s x = Ok s' -> tpres s s' t /\ keeps_absent s s'.
Proof.
  unfold process_task_finished. intros H. apply bind_ok in H. destruct H as (j & Hj & H).
  pose proof (hq_get_find _ _ _ _ Hj) as Hf.
  destruct (jt_find (j_tasks j) (snd x)) as [v|] eqn:Ef; [|discriminate].
  destruct v; try discriminate. apply bind_ok in H. destruct H as (nr & _ & H).
  destruct (check_termination_tpres _ _ _ t H) as [T K].
  split.
  - eapply tpres_trans; [|exact T|apply K]. apply tpres_emit. eapply tpres_set_job; [exact Hf|].
    apply jpres_set_nonterminal with (v0 := JR); [exact Ef | apply not_terminal_R].
  - intros id Hn. apply K. rewrite emit_hq. eapply set_job_keeps_absent; [exact Hf|reflexivity|exact Hn].
Qed.

Lemma set_waiting_state_tpres s x s' t :
  set_waiting_state s x = Ok s' -> tpres s s' t /\ keeps_absent s s'.
Proof.
  unfold set_waiting_state. intros H. apply bind_ok in H. destruct H as (j & Hj & H).
  pose proof (hq_get_find _ _ _ _ Hj) as Hf.
  destruct (jt_find (j_tasks j) (snd x)) as [v|] eqn:Ef; [|discriminate].
  destruct v; try (inversion H; subst; split; [apply tpres_refl | intros id Hn; exact Hn]).
  apply bind_ok in H. destruct H as (nr & _ & H). inversion H; subst. split.
  - eapply tpres_set_job; [exact Hf|]. apply jpres_set_nonterminal with (v0 := JR); [exact Ef | apply not_terminal_R].
  - intros id Hn. eapply set_job_keeps_absent; [exact Hf|reflexivity|exact Hn].
Qed.

Lemma set_waiting_all_tpres ts : forall s s' t,
  set_waiting_all s ts = Ok s' -> tpres s s' t /\ keeps_absent s s'.
Proof.
  induction ts as [|x r IH]; cbn [set_waiting_all]; intros s s' t H.
  - inversion H; subst. split; [apply tpres_refl | intros id Hn; exact Hn].
  - apply bind_ok in H. destruct H as (s1 & H1 & H2).
    destruct (set_waiting_state_tpres _ _ _ t H1) as [T1 K1]. destruct (IH _ _ t H2) as [T2 K2].
    split; [eapply tpres_trans; [exact T1 | exact T2 | apply K2] | intros id Hn; apply K2, K1, Hn].
Qed.

(** [mark_tasks] keeps every terminal state (it only accepts Waiting / Running tasks). *)
Lemma mark_tasks_jpres target site ids : forall j j', mark_tasks j ids target site = Ok j' -> jpres j j'.
Proof.
  induction ids as [|x r IH]; cbn [mark_tasks]; intros j j' H; [inversion H; apply jpres_refl|].
  destruct (negb (N.eqb (fst x) (j_id j))); [discriminate|].
  destruct (jt_find (j_tasks j) (snd x)) as [v|] eqn:Ef; [|discriminate].
  destruct v; try discriminate.
  - eapply jpres_trans; [|apply IH; exact H].
    unfold job_set_task. apply jpres_set_nonterminal with (v0 := JW); [exact Ef | apply not_terminal_W].
  - apply bind_ok in H. destruct H as (nr & _ & H).
    eapply jpres_trans; [|apply IH; exact H].
    apply jpres_set_nonterminal with (v0 := JR); [exact Ef | apply not_terminal_R].
Qed.

Lemma abort_tasks_tpres s jid ids s' t :
  abort_tasks s jid ids = Ok s' -> tpres s s' t /\ keeps_absent s s'.
Proof.
  unfold abort_tasks. destruct ids as [|i0 ir]; [intros H; inversion H; subst; split; [apply tpres_refl | intros id Hn; exact Hn]|].
  intros H. apply bind_ok in H. destruct H as (j & Hj & H).
  pose proof (hq_get_find _ _ _ _ Hj) as Hf.
  apply bind_ok in H. destruct H as (j1 & Hm & H).
  destruct (mark_tasks_jpres _ _ _ _ _ Hm) as [Hid P].
  destruct (check_termination_tpres _ _ _ t H) as [T K]. split.
  - eapply tpres_trans; [|exact T|apply K]. apply tpres_emit. eapply tpres_set_job; [exact Hf|].
    split; [cbn; exact Hid | exact P].
  - intros id Hn. apply K. rewrite emit_hq. eapply set_job_keeps_absent; [exact Hf|cbn; exact Hid|exact Hn].
Qed.

Lemma set_cancel_state_tpres s jid ids s' t :
  set_cancel_state s jid ids = Ok s' -> tpres s s' t /\ keeps_absent s s'.
Proof.
  unfold set_cancel_state. destruct ids as [|i0 ir]; [intros H; inversion H; subst; split; [apply tpres_refl | intros id Hn; exact Hn]|].
  intros H. apply bind_ok in H. destruct H as (j & Hj & H).
  pose proof (hq_get_find _ _ _ _ Hj) as Hf.
  apply bind_ok in H. destruct H as (j1 & Hm & H).
  destruct (mark_tasks_jpres _ _ _ _ _ Hm) as [Hid P].
  destruct (check_termination_tpres _ _ _ t H) as [T K]. split.
  - eapply tpres_trans; [|exact T|apply K]. apply tpres_emit, tpres_emit. eapply tpres_set_job; [exact Hf|].
    split; [cbn; exact Hid | exact P].
  - intros id Hn. apply K. rewrite !emit_hq. eapply set_job_keeps_absent; [exact Hf|cbn; exact Hid|exact Hn].
Qed.

Lemma process_task_failed_tpres s x aborted k s' ids t :
  process_task_failed s x aborted k = Ok (s', ids) -> tpres s s' t /\ keeps_absent s s'.
Proof.
  unfold process_task_failed. intros H.
  apply bind_ok in H. destruct H as (s1 & H1 & H).
  destruct (abort_tasks_tpres _ _ _ _ t H1) as [T1 K1].
  apply bind_ok in H. destruct H as (j & Hj & H).
  pose proof (hq_get_find _ _ _ _ Hj) as Hf.
  apply bind_ok in H. destruct H as (j1 & Hj1 & H).
  assert (Pj : jpres j j1).
  { destruct (jt_find (j_tasks j) (snd x)) as [v|] eqn:Ef; [|discriminate].
    destruct v; try discriminate.
    - inversion Hj1; subst. apply jpres_set_nonterminal with (v0 := JW); [exact Ef | apply not_terminal_W].
    - apply bind_ok in Hj1. destruct Hj1 as (nr & _ & Hj1). inversion Hj1; subst.
      apply jpres_set_nonterminal with (v0 := JR); [exact Ef | apply not_terminal_R]. }
  apply bind_ok in H. destruct H as (s2 & H2 & H).
  destruct (check_termination_tpres _ _ _ t H2) as [T2 K2].
  assert (T12 : tpres s s2 t /\ keeps_absent s s2).
  { split.
    - eapply tpres_trans; [exact T1 | | ].
      + eapply tpres_trans; [|exact T2|apply K2]. apply tpres_emit. eapply tpres_set_job; [exact Hf | exact Pj].
      + intros Hn. apply K2. rewrite emit_hq. eapply set_job_keeps_absent; [exact Hf | apply Pj | exact Hn].
    - intros id Hn. apply K2. rewrite emit_hq. eapply set_job_keeps_absent; [exact Hf | apply Pj | apply K1, Hn]. }
  destruct T12 as [T12 K12].
  apply bind_ok in H. destruct H as (j2 & _ & H).
  destruct (j_maxfails j2) as [mf|]; [|inversion H; subst; split; assumption].
  destruct (N.ltb mf (j_nfail j2)); [|inversion H; subst; split; assumption].
  apply bind_ok in H. destruct H as (s3 & H3 & H). inversion H; subst.
  destruct (abort_tasks_tpres _ _ _ _ t H3) as [T3 K3].
  split; [eapply tpres_trans; [exact T12 | exact T3 | apply K3] | intros id Hn; apply K3, K12, Hn].
Qed.

(** * The theorem: one step of the job layer keeps every recorded outcome. *)
Theorem jstep_outcome_final s o s' t v :
  (forall j, In j (h_jobs (hq_of s)) -> j_id j < h_counter (hq_of s)) ->
  (match o with JForget _ => False | _ => True end) ->
  jstep s o = Ok s' -> task_state s t = Some v -> terminal v ->
  task_state s' t = Some v \/ find_job (h_jobs (hq_of s')) (fst t) = None.
Proof.
  intros Hfresh Hnf H Hv Ht. destruct o; cbn [jstep] in H.
  - destruct (process_task_started_tpres _ _ _ _ _ _ t H) as [T _]. exact (T v Hv Ht).
  - destruct (process_task_finished_tpres _ _ _ t H) as [T _]. exact (T v Hv Ht).
  - apply bind_ok in H. destruct H as ([s1 ids] & H1 & H). inversion H; subst.
    destruct (process_task_failed_tpres _ _ _ _ _ _ t H1) as [T _]. exact (T v Hv Ht).
  - unfold process_worker_lost in H. apply bind_ok in H. destruct H as (s1 & H1 & H). inversion H; subst.
    destruct (set_waiting_all_tpres _ _ _ t H1) as [T _]. exact (T v Hv Ht).
  - (* open: the new job gets the counter's id, which no existing job has *)
    unfold handle_open in H. inversion H; subst. clear H. rewrite !emit_hq. left.
    unfold task_state in *. unfold hq_of, hq_with in *. cbn. rewrite find_job_set. cbn.
    destruct (N.eqb (fst t) (hq_counter s)) eqn:E; [|exact Hv].
    exfalso. destruct (find_job (h_jobs (s_hq (fst s))) (fst t)) as [j|] eqn:Ef; [|discriminate].
    pose proof (find_job_id _ _ _ Ef) as Hid. specialize (Hfresh _ (find_job_in _ _ _ Ef)).
    apply N.eqb_eq in E. unfold hq_counter in E. lia.
  - (* close *)
    unfold handle_close in H.
    destruct (find_job (hq_jobs s) j) as [jb|] eqn:Ef; [|inversion H; subst; left; exact Hv].
    destruct (j_open jb); [|inversion H; subst; left; exact Hv].
    apply bind_ok in H. destruct H as (s1 & H1 & H). inversion H; subst. rewrite emit_hq.
    destruct (check_termination_tpres _ _ _ t H1) as [T K].
    assert (Hf : find_job (h_jobs (hq_of s)) (j_id jb) = Some jb) by (rewrite (find_job_id _ _ _ Ef); exact Ef).
    assert (T0 : tpres s (emit (hq_set_job s (mkJob (j_id jb) false (j_tasks jb) (j_nrun jb) (j_nfin jb) (j_nfail jb) (j_ncanc jb) (j_nabort jb) (j_completed jb) (j_maxfails jb))) (OEv (EvClose j))) t).
    { apply tpres_emit. eapply tpres_set_job; [exact Hf|]. split; [reflexivity | intros; assumption]. }
    destruct (T0 v Hv Ht) as [Hs|Hn]; [exact (T v Hs Ht) | right; apply K; exact Hn].
  - (* cancel *)
    unfold handle_cancel in H.
    destruct (find_job (hq_jobs s) j) as [jb|] eqn:Ef; [|inversion H; subst; left; exact Hv].
    destruct (non_finished_task_ids jb) eqn:En; [inversion H; subst; left; exact Hv|].
    apply bind_ok in H. destruct H as (s1 & H1 & H).
    apply bind_ok in H. destruct H as (al & _ & H).
    apply bind_ok in H. destruct H as (s2 & H2 & H). inversion H; subst. rewrite emit_hq.
    destruct (set_cancel_state_tpres _ _ _ _ t H2) as [T _].
    pose proof (on_cancel_tasks_hq _ _ _ H1) as Hq.
    assert (Hv1 : task_state s1 t = Some v) by (unfold task_state in *; rewrite Hq; exact Hv).
    exact (T v Hv1 Ht).
  - destruct Hnf.
Qed.

(** Forgetting is the only way a recorded outcome disappears, and it removes the whole job - which
    is accepted only for a closed job whose tasks all have an outcome. *)
Theorem forget_only_terminated s jid s' :
  HOK (hq_of s) -> handle_forget s jid = Ok s' -> hq_of s' <> hq_of s ->
  exists j, find_job (hq_jobs s) jid = Some j /\ j_open j = false /\ cnt (j_tasks j) JW = 0 /\ cnt (j_tasks j) JR = 0.
Proof.
  intros H Hc Hne. unfold handle_forget in Hc.
  destruct (find_job (hq_jobs s) jid) as [j|] eqn:Ef; [|inversion Hc; subst; contradiction].
  exists j. split; [reflexivity|].
  rewrite (has_no_active_ok _ (H _ (find_job_in _ _ _ Ef))) in Hc. cbn [bind] in Hc.
  destruct (j_open j); cbn [negb andb] in Hc; [inversion Hc; subst; contradiction|].
  destruct (N.eqb (cnt (j_tasks j) JR) 0 && N.eqb (cnt (j_tasks j) JW) 0) eqn:E; [|inversion Hc; subst; contradiction].
  apply andb_true_iff in E. destruct E as [E1 E2]. apply N.eqb_eq in E1, E2. auto.
Qed.
