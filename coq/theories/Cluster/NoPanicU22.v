(** Stage 3, totality of the server's handling of worker messages, part 1: the invariant bundle
    ([NoPanicL4.LI]) along the updates of one message; [request_enabled], [on_retract_response],
    [task_running], [task_reject] return [Ok].

    [task_running] for a task in state Retracting needs the invariant [RSN] (NoPanicU23.v: the worker
    named by a Retracting state is connected and in single-node mode), which holds in reachable
    states once the scheduler's answers satisfy [sched_retract_ok] (the repair of finding F28,
    NoPanicU26.v); without it site 102 is reachable (NoPanicU21.v). *)
From HQ Require Import Base.Prelude Cluster.Types Cluster.Core Cluster.Reactor Cluster.Worker Cluster.Server Cluster.Sys Cluster.Monitors Cluster.RejHyp Cluster.ProofsJob Cluster.ProofsMore Cluster.ProofsTerminal Cluster.ProofsStep Cluster.ProofsFinal Cluster.BijBase Cluster.BijCore Cluster.BijHq Cluster.BijSt Cluster.BijReact Cluster.BijFinal Cluster.InvWBase Cluster.InvWView Cluster.InvWCore Cluster.InvWReact Cluster.InvWReact2 Cluster.InvWReact3 Cluster.InvWServer Cluster.InvWStep Cluster.InvQBase Cluster.InvQTake Cluster.InvQInv Cluster.InvQReact Cluster.InvQReact2 Cluster.InvQReact3 Cluster.InvDBase Cluster.InvDSpec Cluster.InvDRem Cluster.InvDReact Cluster.InvBundle Cluster.InvProcsDef Cluster.NoPanicC1 Cluster.NoPanicC2 Cluster.NoPanicC3 Cluster.NoPanicC4 Cluster.InvWX1 Cluster.InvWX2 Cluster.InvWX3 Cluster.NoPanicL0 Cluster.NoPanicL1 Cluster.NoPanicL2 Cluster.NoPanicL3 Cluster.NoPanicL4 Cluster.NoPanicU0 Cluster.NoPanicU1 Cluster.NoPanicU6 Cluster.NoPanicU8 Cluster.NoPanicU9 Cluster.NoPanicU10 Cluster.NoPanicU11 Cluster.NoPanicU12 Cluster.NoPanicU13 Cluster.NoPanicU23.
From Coq Require Import ZArith Lia Sorting.Sorted.
Local Open Scope N_scope.

Arguments N.add : simpl never.
Arguments N.sub : simpl never.

(** * The bundle along the updates *)
Lemma LI_apply_one s w u s' b : LI s -> reject_fresh s w u = true -> apply_one s w u = Ok (s', b) -> LI s'.
Proof.
  intros [Hok HC HW V HG HJ HP] Hf H.
  assert (H1 : apply_updates s w [u] false = Ok (s', false || b)).
  { rewrite apply_updates_cons, H. reflexivity. }
  assert (Hrf : rejects_fresh s w [u] = true) by (cbn [rejects_fresh]; rewrite Hf, H; reflexivity).
  constructor.
  - eapply apply_updates_ok; eassumption.
  - eapply apply_updates_CB; eassumption.
  - eapply apply_updates_WI; eassumption.
  - eapply apply_updates_QI; eassumption.
  - exact (proj1 (apply_updates_RL _ _ _ _ _ _ HG H1)).
  - eapply J_R; [exact HJ | eapply InvWX2.apply_updates_R; exact H1].
  - eapply R_PI; [eapply NoPanicL0.apply_updates_R; exact H1 | exact HP].
Qed.

Lemma LI_of_INV s o : INV s -> PW s -> J (s_core s) -> LI (s, o).
Proof.
  intros HI HPW HJ. constructor.
  - exact (inv_hok _ HI).
  - eapply CB_outs. exact (inv_cb _ HI).
  - exact (inv_w _ HI).
  - exact (inv_q _ HI).
  - exact (inv_d _ HI).
  - exact HJ.
  - split; [exact (proj1 (inv_w _ HI)) | exact HPW].
Qed.

(** a worker with a process is known to the core *)
Lemma LI_worker s w : LI s -> find_proc (s_procs (fst s)) w <> None -> exists wk, find_worker (c_workers (core_of s)) w = Some wk.
Proof.
  intros HL Hp. destruct (li_pi _ HL) as [_ E]. unfold pids, wids in E.
  apply (same_ids_find _ _ w E) in Hp. destruct (find_worker (c_workers (core_of s)) w) as [wk|]; [eauto | congruence].
Qed.

(** * [request_enabled] *)
Lemma request_enabled_tot s w rq rv : LI s -> find_proc (s_procs (fst s)) w <> None -> exists s', request_enabled s w rq rv = Ok s'.
Proof.
  intros HL Hp. destruct (LI_worker s w HL Hp) as (wk & Hw). unfold request_enabled. rewrite (get_worker_ok _ _ _ Hw). cbn [bind]. eauto.
Qed.

(** * [on_retract_response] *)
Definition GP (c : core) (acc : list (wid * list (tid * N))) : Prop :=
  forall tg l, In (tg, l) acc -> find_worker (c_workers c) tg <> None /\ forall ir, In ir l -> find_task (c_tasks c) (fst ir) <> None.

Lemma rrs_GP w ids : forall c acc c' acc', WI c -> GP c acc -> retract_response_states c w ids acc = (c', acc') ->
  GP c' acc' /\ c_workers c' = c_workers c.
Proof.
  induction ids as [|id r IH]; cbn [retract_response_states]; intros c acc c' acc' HW HG H; [inversion H; subst; auto|].
  destruct (find_task (c_tasks c) id) as [t|] eqn:Ef; [|eapply IH; eassumption].
  destruct (t_state t) as [n|w1 rv1|w1|w1|w1 rv1|ws|] eqn:Est; try (eapply IH; eassumption).
  destruct (N.eqb w w1) eqn:Ew; [|eapply IH; eassumption].
  destruct (BijBase.find_task_some _ _ _ Ef) as [_ Eid].
  (* one step keeps WI *)
  assert (Hone : forall c1 acc1, retract_response_states c w [id] acc = (c1, acc1) -> WI c1) by (intros c1 acc1 H1; eapply retract_response_states_WI; [exact HW | exact H1]).
  cbn [retract_response_states] in Hone. rewrite Ef, Est, Ew in Hone.
  assert (Hkeep : forall (c1 : core) (t' : task), t_id t' = id -> c_tasks c1 = set_task (c_tasks c) t' ->
            forall x, find_task (c_tasks c) x <> None -> find_task (c_tasks c1) x <> None).
  { intros c1 t' Ei Et x Hx. rewrite Et, BijBase.find_set_task, Ei. destruct (tid_eqb x id); [discriminate | exact Hx]. }
  destruct (find_redirect (c_redirects c) id) as [[tg rv]|] eqn:Er.
  - set (c1 := upd_task (with_redirects c (del_redirect (c_redirects c) id)) (with_state t (Assigned tg rv))) in *.
    destruct (IH c1 (group_add tg (id, rv) acc) c' acc' (Hone _ _ eq_refl)) as [G2 E2]; [|exact H|split; [exact G2 | rewrite E2; reflexivity]].
    intros tg0 l Hin. destruct (group_add_in _ _ _ _ _ Hin) as [Hin0|(-> & l0 & -> & Hl0)].
    + destruct (HG _ _ Hin0) as [A B]. split; [exact A|]. intros ir Hir. apply (Hkeep c1 (with_state t (Assigned tg rv))); [cbn; exact Eid | reflexivity | apply B; exact Hir].
    + destruct (WIX_R _ _ id tg rv HW Er) as (wk & a & p & f & Hwk & _). split; [cbn [c1 upd_task with_tasks with_redirects c_workers]; congruence|].
      intros ir Hir. apply in_app_iff in Hir. destruct Hir as [Hir|[<-|[]]].
      * destruct Hl0 as [->|Hl0]; [destruct Hir|]. destruct (HG _ _ Hl0) as [_ B].
        apply (Hkeep c1 (with_state t (Assigned tg rv))); [cbn; exact Eid | reflexivity | apply B; exact Hir].
      * cbn [fst]. cbn [c1 upd_task with_tasks c_tasks with_redirects]. rewrite BijBase.find_set_task. cbn [with_state t_id]. rewrite Eid, NoPanicU1.tid_eqb_refl. discriminate.
  - set (c1 := upd_task c (with_state t (Waiting 0))) in *.
    destruct (IH c1 acc c' acc' (Hone _ _ eq_refl)) as [G2 E2]; [|exact H|split; [exact G2 | rewrite E2; reflexivity]].
    intros tg0 l Hin. destruct (HG _ _ Hin) as [A B]. split; [exact A|]. intros ir Hir. apply (Hkeep c1 (with_state t (Waiting 0))); [cbn; exact Eid | reflexivity | apply B; exact Hir].
Qed.

Lemma ctasks_of_tot c l : (forall ir, In ir l -> find_task (c_tasks c) (fst ir) <> None) -> exists cts, ctasks_of c l = Ok cts.
Proof.
  induction l as [|[id rv] r IH]; intros H; [eexists; reflexivity|]. cbn [ctasks_of].
  destruct (find_task (c_tasks c) id) as [t|] eqn:Ef; [|exfalso; exact (H (id, rv) (or_introl eq_refl) Ef)].
  rewrite (get_task_ok _ _ _ Ef). cbn [bind]. destruct (IH (fun ir Hir => H ir (or_intror Hir))) as (rest & ->). cbn [bind]. eauto.
Qed.

Lemma send_redirected_tot gs : forall s, PWc s -> GP (core_of s) gs -> exists s', send_redirected s gs = Ok s'.
Proof.
  induction gs as [|[tg ts] r IH]; intros s HPW HG; [eexists; reflexivity|]. cbn [send_redirected].
  destruct (HG tg ts (or_introl eq_refl)) as [Hw Ht]. destruct (ctasks_of_tot _ _ Ht) as (cts & ->). cbn [bind].
  destruct (send_worker_tot s tg (DCompute cts) (HPW tg Hw)) as (s1 & H1 & _). rewrite H1. cbn [bind].
  pose proof (BijSt.send_worker_core _ _ _ _ H1) as Ec.
  apply IH.
  - intros w0 Hw0. rewrite Ec in Hw0. specialize (HPW w0 Hw0). unfold has_proc in *. unfold send_worker in H1.
    destruct (find_proc (s_procs (fst s)) tg) as [p|] eqn:Ep; [|discriminate]. inversion H1; subst s1. cbn [fst with_procs s_procs].
    rewrite NoPanicC1.find_set_proc. destruct (N.eqb w0 (p_id (push_down p (DCompute cts)))); [discriminate | exact HPW].
  - rewrite Ec. intros tg0 l Hin. apply HG. right. exact Hin.
Qed.

Lemma on_retract_response_tot s w ids : LI s -> exists s', on_retract_response s w ids = Ok s'.
Proof.
  intros HL. unfold on_retract_response. destruct (retract_response_states (core_of s) w ids []) as [c' groups] eqn:Er.
  destruct (rrs_GP w ids _ _ _ _ (li_wi _ HL) (fun tg l (H : In (tg, l) []) => match H with end) Er) as [G E].
  destruct (send_redirected_tot groups (st_core s c')) as (s2 & ->).
  - intros w0 Hw0. cbn [core_of st_core with_core s_core fst] in Hw0. rewrite E in Hw0. exact (PI_PWc _ (li_pi _ HL) w0 Hw0).
  - exact G.
  - cbn [bind]. destruct (retract_wakes _ _ _ _); eexists; reflexivity.
Qed.

(** * [task_running] *)
Lemma LI_active s id t : LI s -> find_task (c_tasks (core_of s)) id = Some t -> active s id.
Proof. intros HL Hf. apply (cb_b _ (li_cb _ HL)). apply find_task_present. eauto. Qed.

Lemma process_task_started_tot s id inst ws rv : active s id -> exists s', process_task_started s id inst ws rv = Ok s'.
Proof.
  intros Ha. destruct (active_find_job _ _ Ha) as (j & Hj & Hjt). unfold process_task_started, hq_get_job. unfold hq_jobs in Hj. rewrite Hj. cbn [bind].
  destruct (jt_find (j_tasks j) (snd id)) as [v|]; [eauto | destruct Hjt; discriminate].
Qed.

Lemma LI_get_rq s id t : LI s -> find_task (c_tasks (core_of s)) id = Some t -> exists rq, get_rq (c_rqs (core_of s)) (t_rq t) = Ok rq.
Proof.
  intros HL Hf. apply get_rq_tot. pose proof (li_qi _ HL) as V. rewrite <- (qv_len _ _ _ _ _ _ V). exact (qv_rq _ _ _ _ _ _ V _ _ Hf).
Qed.

Lemma not_inA c w wk a p f id t : WI c -> find_worker (c_workers c) w = Some wk -> w_assign wk = Sn a p f ->
  find_task (c_tasks c) id = Some t ->
  (forall rv, t_state t <> Assigned w rv) -> (forall rv, t_state t <> Running w rv) ->
  (forall w1 v, t_state t = Retracting w1 -> find_redirect (c_redirects c) id <> Some (w, v)) ->
  tid_mem id a = false.
Proof.
  intros HW Hw Ea Hf H1 H2 H3. destruct (tid_mem id a) eqn:E; [|reflexivity]. exfalso.
  destruct (WI_inA_task _ _ _ _ _ _ id HW Hw Ea E) as (t0 & Hf0 & [(rv & X)|[(rv & X)|(w1 & v & X & Y)]]); rewrite Hf in Hf0; inversion Hf0; subst t0.
  - exact (H1 _ X). - exact (H2 _ X). - exact (H3 _ _ X Y).
Qed.

Lemma task_running_tot s w id rv : LI s -> RSN (core_of s) ->
  (forall t, find_task (c_tasks (core_of s)) id = Some t ->
     t_state t = Assigned w rv \/ t_state t = Prefilled w \/ t_state t = Retracting w \/ exists ws, t_state t = RunningMN (w :: ws)) ->
  exists r, task_running s w id rv = Ok r.
Proof.
  intros HL HR Hst. unfold task_running. cbv zeta. set (c := core_of s) in *.
  destruct (find_task (c_tasks c) id) as [t|] eqn:Ef; [|eauto].
  destruct (LI_get_rq s id t HL Ef) as (rq & Hrq). fold c in Hrq. rewrite Hrq. cbn [bind].
  pose proof (LI_active s id t HL Ef) as Hact. pose proof (li_wi _ HL) as HW. pose proof (li_qi _ HL) as V. fold c in HW, V.
  destruct (BijBase.find_task_some _ _ _ Ef) as [_ Eid].
  assert (Hstart : forall s1 ws, hq_of s1 = hq_of s -> exists r, (do s2 <- process_task_started s1 id (t_inst t) ws rv; Ok (s2, false)) = Ok r).
  { intros s1 ws Eh. destruct (process_task_started_tot s1 id (t_inst t) ws rv) as (s2 & ->); [|cbn [bind]; eauto].
    apply (active_same s s1); [|exact Hact]. intros j. unfold jt. rewrite Eh. reflexivity. }
  pose proof (Hst t eq_refl) as Hcase.
  destruct (t_state t) as [n0|w1 rv1|w1|w1|w1 rv1|ws|] eqn:Est;
    try (exfalso; destruct Hcase as [X|[X|[X|(ws0 & X)]]]; discriminate X).
  - (* Assigned *) assert (E : w1 = w /\ rv1 = rv) by (destruct Hcase as [X|[X|[X|(ws0 & X)]]]; inversion X; auto). destruct E as [-> ->].
    rewrite !N.eqb_refl. cbn [negb bind]. apply Hstart. reflexivity.
  - (* Prefilled *) assert (E : w1 = w) by (destruct Hcase as [X|[X|[X|(ws0 & X)]]]; inversion X; auto). subst w1.
    rewrite N.eqb_refl. cbn [negb].
    destruct (WIX_P _ _ id t w HW eq_refl Ef) as (wk & a & p & f & Hw & Ea & Hm); [rewrite Est; reflexivity|].
    change (c_workers (upd_task c (with_state t (Running w rv)))) with (c_workers c). rewrite (get_worker_ok _ _ _ Hw). cbn [bind].
    assert (Hna : tid_mem id a = false).
    { eapply (not_inA c w wk a p f id t HW Hw Ea Ef); intros; try intro; congruence. }
    unfold task_from_prefilled_to_started. rewrite Ea, Hm, Hna. cbn [negb bind].
    destruct (QV_queue _ _ _ _ _ _ _ _ V Ef) as (q & Hq & Hwf & Hp).
    change (c_queues (upd_task c (with_state t (Running w rv)))) with (c_queues c). rewrite (proj2 (nth_queue_ok _ _ _) Hq). cbn [bind].
    unfold exp_place, none in Hp. rewrite Est in Hp. cbn [nat_place] in Hp.
    destruct (q_remove_tot q id (t_prio t) Hwf (or_intror (placed_prefill_at _ _ _ Hp))) as (q' & ->). cbn [bind]. apply Hstart. reflexivity.
  - (* Retracting *) assert (E : w1 = w) by (destruct Hcase as [X|[X|[X|(ws0 & X)]]]; inversion X; auto). subst w1.
    rewrite N.eqb_refl. cbn [negb].
    destruct (HR t w (InvWX1.find_in _ _ _ Ef) Est) as (wk & Hw & a & p & f & Ea).
    change (core_of (ask_scheduling s)) with (with_flag c true).
    assert (Htr : exists c1 wk1 a1 p1 f1, try_remove_redirection (with_flag c true) t = Ok c1 /\
                    find_worker (c_workers c1) w = Some wk1 /\ w_assign wk1 = Sn a1 p1 f1 /\ tid_mem id a1 = false).
    { unfold try_remove_redirection. rewrite Eid. cbn [with_flag c_redirects c_workers c_rqs c_queues].
      destruct (find_redirect (c_redirects c) id) as [[tg rvt]|] eqn:Er.
      - destruct (WIX_R _ _ id tg rvt HW Er) as (wkt & at' & pt & ft & Hwt & Eat & Hmt).
        rewrite (get_worker_ok _ _ _ Hwt). cbn [bind]. destruct (get_rq_tot (c_rqs c) (t_rq t)) as (rq1 & ->).
        { rewrite <- (qv_len _ _ _ _ _ _ V). exact (qv_rq _ _ _ _ _ _ V _ _ Ef). }
        cbn [bind]. destruct (remove_sn_task_tot wkt id (rq_res rq1) at' pt ft Eat Hmt) as (wk' & Hrm & Eid').
        rewrite Hrm. cbn [bind]. destruct (remove_sn_task_spec _ _ _ _ Hrm) as (_ & a0 & p0 & f0 & E0 & E0').
        rewrite Eat in E0. inversion E0; subst a0 p0 f0.
        exists (upd_worker (with_redirects (with_flag c true) (del_redirect (c_redirects c) id)) wk'). cbn [upd_worker with_workers with_redirects with_flag c_workers]. rewrite find_set_worker, Eid'.
        destruct (BijBase.find_task_some _ _ _ Ef) as [_ _]. destruct (InvWBase.find_worker_some _ _ _ Hwt) as [_ Ewt]. rewrite Ewt.
        destruct (N.eqb w tg) eqn:E.
        + apply N.eqb_eq in E. subst tg. exists wk', (tid_remove id at'), pt, (res_add_cap ft (rq_res rq1) (w_res wkt)). split; [reflexivity|]. split; [reflexivity|]. split; [exact E0'|].
          apply tid_mem_remove_same. rewrite <- E in Hwt. destruct HW as (_ & _ & Hv & _). exact (proj1 (wi_sets _ _ _ Hv w wkt at' pt ft Hwt Eat)).
        + exists wk, a, p, f. split; [reflexivity|]. split; [exact Hw|]. split; [exact Ea|].
          eapply (not_inA c w wk a p f id t HW Hw Ea Ef); try (intros; try intro; congruence).
          intros w1 v _ X. rewrite Er in X. inversion X; subst. rewrite N.eqb_refl in E. discriminate.
      - destruct (QV_queue _ _ _ _ _ _ _ _ V Ef) as (q & Hq & Hwf & Hp).
        rewrite (proj2 (nth_queue_ok _ _ _) Hq). cbn [bind].
        unfold exp_place, none in Hp. rewrite Est in Hp. cbn [nat_place] in Hp. rewrite Er in Hp.
        destruct (q_remove_tot q id (t_prio t) Hwf (or_introl (placed_ready_at _ _ _ Hp))) as (q' & ->). cbn [bind].
        eexists. exists wk, a, p, f. split; [reflexivity|]. split; [exact Hw|]. split; [exact Ea|].
        eapply (not_inA c w wk a p f id t HW Hw Ea Ef); intros; try intro; congruence. }
    destruct Htr as (c1 & wk1 & a1 & p1 & f1 & -> & Hw1 & Ea1 & Hna1). cbn [bind].
    change (c_workers (upd_task c1 (with_state t (Running w rv)))) with (c_workers c1). rewrite (get_worker_ok _ _ _ Hw1). cbn [bind].
    unfold insert_sn_task. rewrite Ea1, Hna1. cbn [bind]. apply Hstart. reflexivity.
  - (* RunningMN *) assert (E : exists ws0, ws = w :: ws0) by (destruct Hcase as [X|[X|[X|(ws0 & X)]]]; inversion X; eauto). destruct E as (ws0 & ->).
    rewrite N.eqb_refl. cbn [bind]. apply Hstart. reflexivity.
Qed.

(** * Requeueing a released task, [task_reject] *)
Lemma requeue_tot s t c1 :
  WI (upd_task c1 (with_state t (Waiting 0))) -> QI none [] c1 -> find_task (c_tasks c1) (t_id t) = Some t ->
  (forall w, t_state t <> Prefilled w) ->
  (forall w, find_worker (c_workers c1) w <> None -> has_proc s w) ->
  exists s', (do (qs, ret) <- add_ready_task (c_queues c1) (with_state t (Waiting 0));
              do s'' <- process_retracted (st_core s (with_queues (upd_task c1 (with_state t (Waiting 0))) qs)) ret;
              Ok (s'', true)) = Ok (s', true).
Proof.
  intros HW V Ef Hnp Hpw.
  destruct (add_ready_task_tot (c_queues c1) (with_state t (Waiting 0))) as (qs & ret & qs1 & Ha & Hdis).
  { cbn [t_rq with_state]. exact (qv_rq _ _ _ _ _ _ V _ _ Ef). }
  rewrite Ha. cbn [bind]. cbn [t_prio with_state] in Hdis.
  destruct (dispose_ret_prefilled [] c1 _ _ _ V Hdis) as (Hnd & Hp).
  destruct (process_retracted_tot (st_core s (with_queues (upd_task c1 (with_state t (Waiting 0))) qs)) ret) as (s1 & ->).
  - exact HW.
  - intros w Hw. apply Hpw. exact Hw.
  - exact Hnd.
  - intros x Hx. destruct (Hp x Hx) as (_ & tx & wx & Hfx & Hsx). exists tx, wx. split; [|exact Hsx].
    cbn [core_of st_core with_core s_core fst c_tasks with_queues upd_task with_tasks]. rewrite BijBase.find_set_task. cbn [t_id with_state].
    destruct (tid_eqb x (t_id t)) eqn:E; [|exact Hfx]. apply NoPanicU1.tid_eqb_eq in E. subst x. rewrite Ef in Hfx. inversion Hfx; subst tx.
    exfalso. exact (Hnp _ Hsx).
  - cbn [bind]. eauto.
Qed.

Lemma task_reject_tot s w id rv t : LI s -> find_task (c_tasks (core_of s)) id = Some t -> t_state t = Assigned w rv ->
  exists r, task_reject s w id (Some rv) = Ok r.
Proof.
  intros HL Ef Est. unfold task_reject. cbv zeta. set (c := core_of s) in *. rewrite Ef.
  pose proof (li_wi _ HL) as HW. pose proof (li_qi _ HL) as V. fold c in HW, V.
  destruct (BijBase.find_task_some _ _ _ Ef) as [_ Hid].
  destruct (WIX_A _ _ id t w HW eq_refl Ef) as (wk & a & p & f & Hw & Ea & Hm); [rewrite Est; reflexivity|].
  rewrite (get_worker_ok _ _ _ Hw). cbn [bind].
  destruct (InvWBase.find_worker_some _ _ _ Hw) as [_ Hwi].
  match goal with |- context [upd_worker c ?k] => set (wk1 := k) in * end.
  assert (Hk1 : w_id wk1 = w /\ w_assign wk1 = w_assign wk).
  { subst wk1. destruct (nn_mem _ _); cbn; auto. }
  destruct Hk1 as [Hi1 Ha1].
  assert (W0 : WI (upd_worker c wk1)) by (eapply C_wsame; [exact HW | exact Hw | exact Hi1 | exact Ha1]).
  assert (Hw0 : find_worker (c_workers (upd_worker c wk1)) w = Some wk1).
  { cbn [c_workers upd_worker with_workers]. rewrite find_set_worker, Hi1, N.eqb_refl. reflexivity. }
  destruct (LI_get_rq s id t HL Ef) as (rq & Hrq). fold c in Hrq. rewrite Hrq. cbn [bind].
  rewrite Est. rewrite N.eqb_refl. cbn [negb]. rewrite N.eqb_refl.
  destruct (remove_sn_task_tot wk1 id (rq_res rq) a p f) as (wk' & Hrm & Hwi'); [rewrite Ha1; exact Ea | exact Hm|].
  rewrite Hrm. cbn [bind].
  assert (Hp : pl (t_state t) = PA w) by (rewrite Est; reflexivity).
  pose proof (C_relA InvWCore.x0 _ W0 id t w wk1 wk' (rq_res rq) eq_refl Ef Hp Hw0 Hrm) as W1.
  destruct (requeue_tot s t (upd_worker (upd_worker c wk1) wk')) as (s' & ->).
  - exact (C_show _ _ W1 InvWCore.x0 id (with_state t (Waiting 0)) ltac:(xs) ltac:(xs) Hid (or_introl eq_refl)).
  - exact V.
  - rewrite Hid. exact Ef.
  - intros w0. rewrite Est. discriminate.
  - intros w0 Hw0'. apply (PI_PWc _ (li_pi _ HL)). fold c.
    cbn [c_workers upd_worker with_workers] in Hw0'. rewrite !find_set_worker in Hw0'.
    rewrite Hwi', Hi1 in Hw0'. destruct (N.eqb w0 w) eqn:E; [apply N.eqb_eq in E; subst w0; rewrite Hw; discriminate | exact Hw0'].
  - eauto.
Qed.
