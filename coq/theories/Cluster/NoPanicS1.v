(** C09 (no reachable panic) for the scheduling step, part 1: the vocabulary ([np]: "is not a
    panic"), sizes of task queues and the taking functions of taskqueue.rs:
    [take_tasks(count)] does not panic iff the queue holds at least [count] ids, and it then
    delivers exactly [count] ids. *)
From HQ Require Import Base.Prelude Cluster.Types Cluster.Core Cluster.Reactor Cluster.Worker Cluster.Server Cluster.Sys Cluster.ProofsJob Cluster.ProofsMore Cluster.ProofsStep Cluster.BijBase Cluster.BijCore Cluster.InvQBase Cluster.InvQTake.
From Coq Require Import ZArith Lia Sorting.Sorted.
Local Open Scope N_scope.

Arguments N.add : simpl never.
Arguments N.sub : simpl never.
Arguments N.mul : simpl never.
Arguments N.div : simpl never.

(** * Not a panic *)
Definition np {A} (r : res A) : Prop := is_panic r = false.

Lemma np_ok {A} (a : A) : np (Ok a).
Proof. reflexivity. Qed.
Lemma np_disabled {A} : np (@Disabled A).
Proof. reflexivity. Qed.
Lemma np_bind {A B} (r : res A) (f : A -> res B) :
  np r -> (forall a, r = Ok a -> np (f a)) -> np (bind r f).
Proof. unfold np. destruct r; cbn; intros H1 H2; [apply H2; reflexivity | reflexivity | discriminate]. Qed.
Lemma ok_np {A} (r : res A) : (exists a, r = Ok a) -> np r.
Proof. intros (a & ->). reflexivity. Qed.

(** * Sizes *)
Definition nlen {A} (l : list A) : N := N.of_nat (length l).
Fixpoint esize (es : list qentry) : N := match es with [] => 0 | e :: t => nlen (qe_ids e) + esize t end.
Definition pfsize (pf : option (Z * list tid)) : N := match pf with Some (_, ts) => nlen ts | None => 0 end.
(** Number of ids a queue holds (ready entries + prefill set). *)
Definition qsize (q : queue) : N := esize (q_ready q) + pfsize (q_prefill q).

Lemma nlen_app {A} (a b : list A) : nlen (a ++ b) = nlen a + nlen b.
Proof. unfold nlen. rewrite app_length. lia. Qed.
Lemma nlen_nil {A} : nlen (@nil A) = 0.
Proof. reflexivity. Qed.
Lemma nlen_cons {A} (x : A) l : nlen (x :: l) = 1 + nlen l.
Proof. unfold nlen. cbn [length]. lia. Qed.

Lemma take_n_len {A} n : forall (l a b : list A), take_n n l = (a, b) ->
  length a = Nat.min n (length l) /\ (b <> [] -> length a = n).
Proof.
  induction n as [|k IH]; intros l a b H.
  - destruct l; cbn in H; inversion H; subst; cbn; auto.
  - destruct l as [|h t]; cbn [take_n] in H; [inversion H; subst; cbn; split; [reflexivity | congruence]|].
    destruct (take_n k t) as [a0 b0] eqn:E. inversion H; subst. destruct (IH _ _ _ E) as [I1 I2].
    cbn [length]. split; [rewrite I1; reflexivity | intros Hb; rewrite (I2 Hb); reflexivity].
Qed.

(** * [take_from_entry] on the first entry *)
Lemma take_from_first_more e t count a b :
  qe_more e = true -> take_n (N.to_nat count) (qe_ids e) = (a, b) ->
  take_from_first (e :: t) count = Ok (a, match b with [] => t | _ => mkQE (qe_prio e) true b :: t end, count - nlen a).
Proof. intros Em Et. unfold take_from_first. rewrite Em, Et. destruct b; reflexivity. Qed.

Lemma take_from_first_one e t count :
  qe_more e = false -> count <> 0 -> take_from_first (e :: t) count = Ok (qe_ids e, t, count - 1).
Proof. intros Em Hc. unfold take_from_first. rewrite Em. apply N.eqb_neq in Hc. rewrite Hc. reflexivity. Qed.

Lemma take_from_first_np e t count :
  eok e -> (qe_more e = false -> count <> 0) ->
  exists a es' c, take_from_first (e :: t) count = Ok (a, es', c) /\
    nlen a + c = count /\ esize es' + nlen a = esize (e :: t) /\ (c = 0 \/ es' = t) /\ (length es' <= length (e :: t))%nat.
Proof.
  intros [Hs Hone] Hc. destruct (qe_more e) eqn:Em.
  - destruct (take_n (N.to_nat count) (qe_ids e)) as [a b] eqn:Et.
    pose proof (take_n_app _ _ _ _ Et) as Eab. destruct (take_n_len _ _ _ _ Et) as [L1 L2].
    eexists a, _, _. split; [apply take_from_first_more; eassumption|].
    assert (La : nlen (qe_ids e) = nlen a + nlen b) by (rewrite Eab; apply nlen_app).
    unfold nlen in *. cbn [esize]. destruct b as [|b0 bb].
    + cbn [length] in *. split; [lia|]. split; [unfold nlen; lia|]. split; [right; reflexivity | lia].
    + assert (Ln : length a = N.to_nat count) by (apply L2; discriminate).
      cbn [esize qe_ids]. unfold nlen. cbn [length] in *. split; [lia|]. split; [lia|]. split; [left; lia | lia].
  - destruct (Hone eq_refl) as (x & Ex). specialize (Hc eq_refl).
    eexists _, _, _. split; [apply take_from_first_one; assumption|].
    cbn [esize]. rewrite Ex. unfold nlen. cbn [length]. split; [lia|]. split; [lia|]. split; [right; reflexivity | lia].
Qed.

(** * The `while count > 0` loop: enough ids = no panic, and exactly [count] ids are delivered *)
Lemma take_loop_np fuel : forall es count acc,
  WFE es -> count <= esize es -> (count = 0 \/ (length es < fuel)%nat) ->
  exists ids es', take_loop fuel es count acc = Ok (ids, es') /\ nlen ids = nlen acc + count.
Proof.
  induction fuel as [|k IH]; intros es count acc W Hle Hf; cbn [take_loop].
  - destruct Hf as [->|Hf]; [|lia]. cbn. exists acc, es. split; [reflexivity | lia].
  - destruct (N.eqb count 0) eqn:E0.
    + apply N.eqb_eq in E0. subst count. exists acc, es. split; [reflexivity | lia].
    + apply N.eqb_neq in E0. destruct Hf as [Hf|Hf]; [contradiction|].
      destruct es as [|e t]; [cbn in Hle; lia|].
      destruct (WFE_inv _ _ W) as (He & _ & _).
      destruct (take_from_first_np e t count He (fun _ => E0)) as (a & es' & c & H1 & A1 & A2 & A3 & A4).
      rewrite H1. cbn [bind].
      assert (W' : WFE es').
      { assert (WQ : WFQ (mkQ (e :: t) None)) by (split; [exact W | exact I]).
        exact (proj1 (tk_wf _ _ _ (take_from_first_TakeQ _ _ _ _ _ _ WQ H1))). }
      destruct (IH es' c (acc ++ a) W') as (ids & es2 & H2 & L2).
      * lia.
      * destruct A3 as [->| ->]; [left; reflexivity | right; cbn [length] in Hf; lia].
      * exists ids, es2. split; [exact H2|]. rewrite L2, nlen_app. lia.
Qed.

(** * [drain_prefill] never panics (a wrong iteration-order witness disables the step) *)
Lemma drain_prefill_np pf order count : np (drain_prefill pf order count).
Proof.
  unfold drain_prefill, np. destruct pf as [[pp ts]|]; [|reflexivity].
  destruct (negb (perm_of_set order ts)); [reflexivity|].
  destruct (take_n (N.to_nat count) order) as [a r]. destruct (fold_left _ a ts); reflexivity.
Qed.

Lemma drain_prefill_len pf order count a pf' c :
  drain_prefill pf order count = Ok (a, pf', c) -> nlen a + c = count /\ (c = 0 \/ nlen a = pfsize pf).
Proof.
  unfold drain_prefill. destruct pf as [[pp ts]|]; [|intros H; inversion H; subst; cbn; split; [lia | right; reflexivity]].
  destruct (perm_of_set order ts) eqn:Ep; [|discriminate]. cbn [negb].
  destruct (take_n (N.to_nat count) order) as [a0 r] eqn:Et. destruct (take_n_len _ _ _ _ Et) as [L1 _].
  unfold perm_of_set in Ep. apply andb_true_iff in Ep. destruct Ep as [Ep _]. apply andb_true_iff in Ep. destruct Ep as [Ep _].
  apply N.eqb_eq in Ep.
  intros H. assert (E : a = a0 /\ c = count - nlen a0) by (destruct (fold_left _ a0 ts); inversion H; auto).
  destruct E as [-> ->]. cbn [pfsize]. unfold nlen in *. split; lia.
Qed.

(** * [TaskQueue::take_tasks] *)
Lemma take_tail_np pre es1 pf order c1 fuel :
  WFE es1 -> c1 <= esize es1 + pfsize pf -> (length es1 < fuel)%nat ->
  let r := (do (b, pf', c2) <- drain_prefill pf order c1;
            do (c, es2) <- take_loop fuel es1 c2 [];
            Ok (pre ++ b ++ c, mkQ es2 pf')) in
  np r /\ forall ids q', r = Ok (ids, q') -> nlen ids = nlen pre + c1.
Proof.
  intros W Hle Hf r. subst r.
  destruct (drain_prefill pf order c1) as [[[b pf'] c2]| |] eqn:Ed.
  - destruct (drain_prefill_len _ _ _ _ _ _ Ed) as [D1 D2]. cbn [bind].
    destruct (take_loop_np fuel es1 c2 [] W) as (ids & es2 & H2 & L2).
    + destruct D2 as [->|D2]; lia.
    + right. exact Hf.
    + rewrite H2. cbn [bind]. split; [reflexivity|]. intros ids0 q' H. inversion H; subst.
      rewrite !nlen_app, L2, nlen_nil. lia.
  - cbn [bind]. split; [reflexivity | discriminate].
  - pose proof (drain_prefill_np pf order c1) as X. rewrite Ed in X. discriminate.
Qed.

Theorem q_take_tasks_np q count order :
  WFQ q -> count <= qsize q ->
  np (q_take_tasks q count order) /\ forall ids q', q_take_tasks q count order = Ok (ids, q') -> nlen ids = count.
Proof.
  intros [W1 W2] Hle. unfold qsize in Hle. unfold q_take_tasks.
  destruct (q_prefill q) as [[pp ts]|] eqn:Ep.
  - destruct (match q_top_priority q with Some tp => Z.eqb tp pp | None => false end) eqn:Etop.
    + unfold q_top_priority in Etop. destruct (q_ready q) as [|e t] eqn:Er; [discriminate|].
      destruct (WFE_inv _ _ W1) as (He & _ & _).
      destruct (N.ltb 0 count) eqn:Ec.
      * apply N.ltb_lt in Ec.
        destruct (take_from_first_np e t count He) as (a & es1 & c1 & H1 & A1 & A2 & A3 & A4); [intros _; lia|].
        rewrite H1. cbn [bind].
        assert (W' : WFE es1).
        { assert (WQ : WFQ (mkQ (e :: t) None)) by (split; [exact W1 | exact I]).
          exact (proj1 (tk_wf _ _ _ (take_from_first_TakeQ _ _ _ _ _ _ WQ H1))). }
        destruct (take_tail_np a es1 (Some (pp, ts)) order c1 (S (length (e :: t))) W') as [N1 N2]; [cbn [pfsize] in *; lia | lia |].
        split; [exact N1|]. intros ids q' H. rewrite (N2 _ _ H). lia.
      * apply N.ltb_ge in Ec. cbn [bind].
        destruct (take_tail_np [] (e :: t) (Some (pp, ts)) order count (S (length (e :: t))) W1) as [N1 N2]; [exact Hle | lia |].
        split; [exact N1|]. intros ids q' H. rewrite (N2 _ _ H), nlen_nil. lia.
    + destruct (take_tail_np [] (q_ready q) (Some (pp, ts)) order count (S (length (q_ready q))) W1) as [N1 N2]; [exact Hle | lia |].
      split; [exact N1|]. intros ids q' H. rewrite (N2 _ _ H), nlen_nil. lia.
  - cbn [pfsize] in Hle.
    destruct (take_loop_np (S (length (q_ready q))) (q_ready q) count [] W1) as (ids & es2 & H2 & L2); [lia | right; lia |].
    rewrite H2. cbn [bind]. split; [reflexivity|]. intros ids0 q' H. inversion H; subst. rewrite L2, nlen_nil. lia.
Qed.

(** * [TaskQueue::take_one] *)
(** [n] successive [take_one] calls succeed. *)
Fixpoint take_ones (n : nat) (q : queue) : bool :=
  match n with
  | O => true
  | S k => match q_take_one q with Some (_, q') => take_ones k q' | None => false end
  end.

Lemma q_take_one_ready q x q' : q_take_one q = Some (x, q') ->
  q_prefill q' = q_prefill q /\ (exists p, RdyAt q p x) /\ (forall p y, RdyAt q' p y -> RdyAt q p y).
Proof.
  unfold q_take_one, RdyAt. destruct (q_ready q) as [|e t] eqn:Er; [discriminate|].
  destruct (qe_ids e) as [|x0 rest] eqn:Ei; [discriminate|].
  assert (Hx : exists p, EAt (e :: t) p x0) by (exists (qe_prio e), e; split; [left; reflexivity | split; [reflexivity | rewrite Ei; left; reflexivity]]).
  assert (Ht : forall p y, EAt t p y -> EAt (e :: t) p y) by (intros p y H; apply EAt_cons; right; exact H).
  intros H. destruct (qe_more e).
  - destruct rest as [|r0 rr]; inversion H; subst; cbn [q_ready q_prefill]; (split; [reflexivity | split; [exact Hx|]]); [exact Ht|].
    intros p y Hy. apply EAt_cons in Hy. cbn [qe_prio qe_ids] in Hy. apply EAt_cons. destruct Hy as [[Hp Hy]|Hy]; [left; split; [exact Hp | rewrite Ei; right; exact Hy] | right; exact Hy].
  - inversion H; subst; cbn [q_ready q_prefill]. split; [reflexivity | split; [exact Hx | exact Ht]].
Qed.
