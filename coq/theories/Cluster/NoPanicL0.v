(** The worker processes and the workers of the core correspond ([PW], InvProcsDef.v) in EVERY
    reachable state: only [on_new_worker] adds a worker and a process (same new id), only
    [on_remove_worker] removes both; every other function of the model updates existing workers /
    processes in place.  No hypothesis on the history is needed: the sortedness of the worker map
    is part of the inductive invariant. *)
From HQ Require Import Base.Prelude Cluster.Types Cluster.Core Cluster.Reactor Cluster.Worker Cluster.Server Cluster.Sys Cluster.ProofsJob Cluster.ProofsStep Cluster.BijBase Cluster.BijCore Cluster.InvWBase Cluster.InvWCore Cluster.InvProcsDef.
From Coq Require Import ZArith Lia Sorting.Sorted.
Local Open Scope N_scope.

Arguments N.add : simpl never.
Arguments N.sub : simpl never.

Definition wids (c : core) : list N := map w_id (c_workers c).
Definition pids (s : st) : list N := map p_id (s_procs (fst s)).
Definition WS (c : core) : Prop := StronglySorted N.lt (wids c).
Definition PS (s : st) : Prop := StronglySorted N.lt (pids s).

Lemma WS_eq c c' : wids c' = wids c -> WS c -> WS c'.
Proof. unfold WS. intros ->. auto. Qed.
Lemma PS_eq s s' : pids s' = pids s -> PS s -> PS s'.
Proof. unfold PS. intros ->. auto. Qed.

(** * Updating an existing worker / process keeps the id list *)
Lemma set_worker_same ws x : wsorted ws -> In (w_id x) (map w_id ws) -> map w_id (set_worker ws x) = map w_id ws.
Proof.
  unfold wsorted. induction ws as [|h r IH]; cbn [set_worker map In]; intros Hs Hin; [destruct Hin|].
  inversion Hs as [|? ? Hs' Hall]; subst.
  destruct (N.eqb (w_id x) (w_id h)) eqn:E1.
  - apply N.eqb_eq in E1. cbn [map]. rewrite E1. reflexivity.
  - apply N.eqb_neq in E1. destruct Hin as [Hin|Hin]; [congruence|].
    rewrite Forall_forall in Hall. pose proof (Hall _ Hin) as Hlt.
    destruct (N.ltb (w_id x) (w_id h)) eqn:E2; [apply N.ltb_lt in E2; lia|].
    cbn [map]. f_equal. apply IH; assumption.
Qed.

Lemma find_worker_in ws w wk : find_worker ws w = Some wk -> In w (map w_id ws).
Proof. intros H. destruct (find_worker_some _ _ _ H) as [Hin <-]. apply in_map. exact Hin. Qed.

Lemma set_worker_keep ws w wk wk' :
  wsorted ws -> w_id wk' = w_id wk -> find_worker ws w = Some wk -> map w_id (set_worker ws wk') = map w_id ws.
Proof.
  intros Hs Hi Hg. apply set_worker_same; [exact Hs|].
  rewrite Hi. destruct (find_worker_some _ _ _ Hg) as [Hin _]. apply in_map. exact Hin.
Qed.

Definition psorted (ps : list wproc) : Prop := StronglySorted N.lt (map p_id ps).

Lemma find_proc_some ps w p : find_proc ps w = Some p -> In p ps /\ p_id p = w.
Proof.
  induction ps as [|h r IH]; cbn [find_proc]; [discriminate|].
  destruct (N.eqb w (p_id h)) eqn:E.
  - intros H; inversion H; subst. apply N.eqb_eq in E. split; [left; reflexivity | symmetry; exact E].
  - intros H. destruct (IH H). split; [right; assumption | assumption].
Qed.

Lemma set_proc_same ps x : psorted ps -> In (p_id x) (map p_id ps) -> map p_id (set_proc ps x) = map p_id ps.
Proof.
  unfold psorted. induction ps as [|h r IH]; cbn [set_proc map In]; intros Hs Hin; [destruct Hin|].
  inversion Hs as [|? ? Hs' Hall]; subst.
  destruct (N.eqb (p_id x) (p_id h)) eqn:E1.
  - apply N.eqb_eq in E1. cbn [map]. rewrite E1. reflexivity.
  - apply N.eqb_neq in E1. destruct Hin as [Hin|Hin]; [congruence|].
    rewrite Forall_forall in Hall. pose proof (Hall _ Hin) as Hlt.
    destruct (N.ltb (p_id x) (p_id h)) eqn:E2; [apply N.ltb_lt in E2; lia|].
    cbn [map]. f_equal. apply IH; assumption.
Qed.

Lemma set_proc_keep ps w p p' :
  psorted ps -> p_id p' = p_id p -> find_proc ps w = Some p -> map p_id (set_proc ps p') = map p_id ps.
Proof.
  intros Hs Hi Hf. apply set_proc_same; [exact Hs|]. rewrite Hi.
  destruct (find_proc_some _ _ _ Hf) as [Hin _]. apply in_map. exact Hin.
Qed.

(** Adding / removing the same id on both sides. *)
Lemma set_both ps : forall ws x y, map p_id ps = map w_id ws -> p_id x = w_id y ->
  map p_id (set_proc ps x) = map w_id (set_worker ws y).
Proof.
  induction ps as [|h r IH]; intros [|k ws] x y E Hi; cbn [map] in E; try discriminate; cbn [set_proc set_worker map].
  - rewrite Hi. reflexivity.
  - inversion E as [[E1 E2]]. rewrite Hi, E1.
    destruct (N.eqb (w_id y) (w_id k)); [cbn [map]; rewrite Hi, E2; reflexivity|].
    destruct (N.ltb (w_id y) (w_id k)); cbn [map]; [rewrite Hi, E1, E2; reflexivity|].
    rewrite E1. f_equal. apply IH; assumption.
Qed.

Lemma del_both ps : forall ws w, map p_id ps = map w_id ws -> map p_id (del_proc ps w) = map w_id (del_worker ws w).
Proof.
  induction ps as [|h r IH]; intros [|k ws] w E; cbn [map] in E; try discriminate; cbn [del_proc del_worker map]; [reflexivity|].
  inversion E as [[E1 E2]]. rewrite E1. destruct (N.eqb w (w_id k)); [exact E2|]. cbn [map]. rewrite E1. f_equal. apply IH. exact E2.
Qed.

(** * Worker operations keep the id *)
Lemma remove_sn_task_id wk id rq wk' : remove_sn_task wk id rq = Ok wk' -> w_id wk' = w_id wk.
Proof. intros H. exact (proj1 (remove_sn_task_spec _ _ _ _ H)). Qed.
Lemma remove_prefill_task_id wk id wk' : remove_prefill_task wk id = Ok wk' -> w_id wk' = w_id wk.
Proof. intros H. exact (proj1 (remove_prefill_task_spec _ _ _ H)). Qed.
Lemma insert_sn_task_id wk id rq wk' : insert_sn_task wk id rq = Ok wk' -> w_id wk' = w_id wk.
Proof. intros H. exact (proj1 (insert_sn_task_spec _ _ _ _ H)). Qed.
Lemma insert_prefill_task_id wk id wk' : insert_prefill_task wk id = Ok wk' -> w_id wk' = w_id wk.
Proof. intros H. exact (proj1 (insert_prefill_task_spec _ _ _ H)). Qed.
Lemma task_from_prefilled_to_started_id wk id rq wk' : task_from_prefilled_to_started wk id rq = Ok wk' -> w_id wk' = w_id wk.
Proof.
  unfold task_from_prefilled_to_started. destruct (w_assign wk); [|discriminate].
  destruct (negb _); [discriminate|]. destruct (tid_mem id assigned); [discriminate|]. intros H; inversion H; reflexivity.
Qed.
Lemma set_mn_task_id wk id root wk' : set_mn_task wk id root = Ok wk' -> w_id wk' = w_id wk.
Proof. unfold set_mn_task. destruct (worker_is_free wk); [|discriminate]. intros H; inversion H; reflexivity. Qed.

(** * Tactics *)
(** Decompose [H : <monadic computation> = Ok _] along binds and case distinctions. *)
Ltac dec H :=
  repeat first
   [ step_bind H
   | match type of H with
     | (match ?x with _ => _ end) = Ok _ => destruct x eqn:?; try discriminate H
     end ].

Ltac decs :=
  repeat match goal with
  | H : bind _ _ = Ok _ |- _ => step_bind H
  | H : (match ?x with _ => _ end) = Ok _ |- _ => destruct x eqn:?; try discriminate H
  | H : Ok _ = Ok _ |- _ => inversion H; subst; clear H
  end.

Ltac cnorm :=
  cbn [c_workers c_tasks c_queues c_redirects c_rqs c_flag c_wcounter upd_task upd_worker with_tasks with_workers with_queues
       with_redirects with_flag with_rqs with_wcounter core_of st_core with_core with_procs with_hq s_core s_procs s_hq fst snd ask_scheduling emit] in *.

Ltac widt :=
  cbn [w_id reset_mn_task with_assign with_blocked];
  first [ eapply remove_sn_task_id; eassumption | eapply remove_prefill_task_id; eassumption
        | eapply insert_sn_task_id; eassumption | eapply insert_prefill_task_id; eassumption
        | eapply task_from_prefilled_to_started_id; eassumption | eapply set_mn_task_id; eassumption
        | reflexivity ].

Ltac wsort := repeat apply set_worker_sorted; assumption.

(** Goal [wids X = wids c] where [X] is [c] with updates of workers that were looked up. *)
Ltac wsolve :=
  unfold wids, WS, wids in *; cnorm;
  repeat match goal with H : get_worker _ _ = Ok _ |- _ => apply get_worker_find in H end;
  repeat (erewrite set_worker_keep; [ | wsort | widt | eassumption ]);
  try reflexivity; try assumption.

(** Recursive call / sub-call [H] of a function with frame lemma [L] on a state [X]. *)
Ltac wcall L H Hs :=
  eapply eq_trans; [eapply L; [ | exact H]; eapply WS_eq; [ | exact Hs] | ]; wsolve.

(** * Core functions: the worker ids are unchanged *)
Lemma retract_states_wids ids : forall c acc c' acc',
  WS c -> retract_states c ids acc = Ok (c', acc') -> wids c' = wids c.
Proof.
  induction ids as [|id r IH]; cbn [retract_states]; intros c acc c' acc' Hs H; [inversion H; reflexivity|].
  dec H. wcall IH H Hs.
Qed.

Lemma try_remove_redirection_wids c t c' : WS c -> try_remove_redirection c t = Ok c' -> wids c' = wids c.
Proof. unfold try_remove_redirection. intros Hs H. dec H; inversion H; subst; wsolve. Qed.

Lemma reset_mn_workers_wids ws : forall c id c', WS c -> reset_mn_workers c ws id = Ok c' -> wids c' = wids c.
Proof.
  induction ws as [|w r IH]; cbn [reset_mn_workers]; intros c id c' Hs H; [inversion H; reflexivity|].
  dec H. wcall IH H Hs.
Qed.

Lemma reset_mn_all_wids ws : forall c c', WS c -> reset_mn_all c ws = Ok c' -> wids c' = wids c.
Proof.
  induction ws as [|w r IH]; cbn [reset_mn_all]; intros c c' Hs H; [inversion H; reflexivity|].
  dec H. wcall IH H Hs.
Qed.

Lemma remove_task_wids c id c' stt : WS c -> remove_task c id = Ok (c', stt) -> wids c' = wids c.
Proof. unfold remove_task. intros Hs H. decs; wsolve. Qed.

Lemma remove_tasks_batched_wids ids : forall c c', WS c -> remove_tasks_batched c ids = Ok c' -> wids c' = wids c.
Proof.
  induction ids as [|id r IH]; cbn [remove_tasks_batched]; intros c c' Hs H; [inversion H; reflexivity|].
  dec H. pose proof (remove_task_wids _ _ _ _ Hs E) as E1.
  rewrite <- E1. eapply IH; [eapply WS_eq; [exact E1 | exact Hs] | exact H].
Qed.

Lemma remove_waiting_consumers_wids l : forall c c', WS c -> remove_waiting_consumers c l = Ok c' -> wids c' = wids c.
Proof.
  induction l as [|id r IH]; cbn [remove_waiting_consumers]; intros c c' Hs H; [inversion H; reflexivity|].
  dec H. pose proof (remove_task_wids _ _ _ _ Hs E) as E1.
  rewrite <- E1. eapply IH; [eapply WS_eq; [exact E1 | exact Hs] | exact H].
Qed.

Lemma wake_consumers_wids csm : forall c ret c' ret', WS c -> wake_consumers c csm ret = Ok (c', ret') -> wids c' = wids c.
Proof.
  induction csm as [|x r IH]; cbn [wake_consumers]; intros c ret c' ret' Hs H; [inversion H; reflexivity|].
  dec H; wcall IH H Hs.
Qed.

Lemma retract_response_states_wids ids : forall c w acc c' acc',
  WS c -> retract_response_states c w ids acc = (c', acc') -> wids c' = wids c.
Proof.
  induction ids as [|id r IH]; cbn [retract_response_states]; intros c w acc c' acc' Hs H; [inversion H; reflexivity|].
  repeat match type of H with (match ?x with _ => _ end) = _ => destruct x eqn:? end; wcall IH H Hs.
Qed.

Lemma lost_prefilled_wids l : forall c c', WS c -> lost_prefilled c l = Ok c' -> wids c' = wids c.
Proof.
  induction l as [|id r IH]; cbn [lost_prefilled]; intros c c' Hs H; [inversion H; reflexivity|].
  dec H. wcall IH H Hs.
Qed.

Lemma lost_assigned_wids l : forall c running ret c' running' ret',
  WS c -> lost_assigned c l running ret = Ok (c', running', ret') -> wids c' = wids c.
Proof.
  induction l as [|id r IH]; cbn [lost_assigned]; intros c running ret c' running' ret' Hs H; [inversion H; reflexivity|].
  apply bind_ok in H. destruct H as (t & Ht & H). apply bind_ok in H. destruct H as ([[c1 t1] running1] & H1 & H).
  apply bind_ok in H. destruct H as ([qs rt] & _ & H).
  assert (E1 : wids c1 = wids c) by (dec H1; inversion H1; subst; reflexivity).
  wcall IH H Hs.
Qed.

Lemma register_deps_wids deps : forall c id kept count c' kept' count',
  register_deps c id deps kept count = (c', kept', count') -> wids c' = wids c.
Proof.
  induction deps as [|d r IH]; cbn [register_deps]; intros c id kept count c' kept' count' H; [inversion H; reflexivity|].
  destruct (find_task (c_tasks c) d); [|eapply IH; exact H]. rewrite (IH _ _ _ _ _ _ _ H). reflexivity.
Qed.

Lemma add_new_tasks_wids ts : forall c ret c' ret', WS c -> add_new_tasks c ts ret = Ok (c', ret') -> wids c' = wids c.
Proof.
  induction ts as [|t r IH]; cbn [add_new_tasks]; intros c ret c' ret' Hs H; [inversion H; reflexivity|].
  destruct (register_deps c (t_id t) (t_deps t) [] 0) as [[c1 kept] count] eqn:Er.
  pose proof (register_deps_wids _ _ _ _ _ _ _ _ Er) as E1.
  apply bind_ok in H. destruct H as ([c2 rt] & H2 & H).
  assert (E2 : wids c2 = wids c) by (dec H2; inversion H2; subst; exact E1).
  destruct (find_task (c_tasks c2) (t_id t)); [discriminate|].
  wcall IH H Hs.
Qed.

Lemma map_one_wids c m id w v rqres c' m' : WS c -> map_one c m id w v rqres = Ok (c', m') -> wids c' = wids c.
Proof. unfold map_one. intros Hs H. dec H; inversion H; subst; wsolve. Qed.

Lemma rr_pass_wids counts : forall c m tasks v rqres c' m' counts' rest,
  WS c -> rr_pass c m counts tasks v rqres = Ok (c', m', counts', rest) -> wids c' = wids c.
Proof.
  induction counts as [|[w n] r IH]; intros c m tasks v rqres c' m' counts' rest Hs H.
  - destruct tasks; cbn [rr_pass] in H; inversion H; reflexivity.
  - destruct tasks as [|id tl]; cbn [rr_pass] in H; [inversion H; reflexivity|].
    destruct (N.ltb 0 n).
    + apply bind_ok in H. destruct H as ([c1 m1] & H1 & H).
      apply bind_ok in H. destruct H as ([[[c2 m2] r'] tl'] & H2 & H). inversion H; subst.
      pose proof (map_one_wids _ _ _ _ _ _ _ _ Hs H1) as E1.
      rewrite <- E1. eapply IH; [eapply WS_eq; [exact E1 | exact Hs] | exact H2].
    + apply bind_ok in H. destruct H as ([[[c2 m2] r'] tl'] & H2 & H). inversion H; subst.
      eapply IH; eassumption.
Qed.

Lemma rr_loop_wids fuel : forall c m counts tasks v rqres c' m',
  WS c -> rr_loop fuel c m counts tasks v rqres = Ok (c', m') -> wids c' = wids c.
Proof.
  induction fuel as [|k IH]; intros c m counts tasks v rqres c' m' Hs H; destruct tasks as [|id tl]; cbn [rr_loop] in H;
    try (inversion H; reflexivity); try discriminate.
  apply bind_ok in H. destruct H as ([[[c1 m1] counts1] rest] & H1 & H).
  pose proof (rr_pass_wids _ _ _ _ _ _ _ _ _ _ Hs H1) as E1.
  rewrite <- E1. eapply IH; [eapply WS_eq; [exact E1 | exact Hs] | exact H].
Qed.

Lemma map_sn_wids sol l : forall c m c' m', WS c -> map_sn c m sol l = Ok (c', m') -> wids c' = wids c.
Proof.
  induction l as [|[[rq v] counts] r IH]; cbn [map_sn]; intros c m c' m' Hs H; [inversion H; reflexivity|].
  apply bind_ok in H. destruct H as (rqd & _ & H). apply bind_ok in H. destruct H as (q & _ & H).
  apply bind_ok in H. destruct H as ([tasks q'] & _ & H). apply bind_ok in H. destruct H as ([c2 m2] & H2 & H).
  pose proof (rr_loop_wids _ (with_queues c (set_queue (c_queues c) (N.to_nat rq) q')) _ _ _ _ _ _ _ Hs H2) as E2.
  change (wids c2 = wids c) in E2.
  rewrite <- E2. eapply IH; [eapply WS_eq; [exact E2 | exact Hs] | exact H].
Qed.

Lemma set_mn_workers_wids l : forall c id first c', WS c -> set_mn_workers c id l first = Ok c' -> wids c' = wids c.
Proof.
  induction l as [|w r IH]; cbn [set_mn_workers]; intros c id first c' Hs H; [inversion H; reflexivity|].
  dec H. wcall IH H Hs.
Qed.

Lemma map_mn_sets_wids sets : forall c rq mn c' mn', WS c -> map_mn_sets c rq mn sets = Ok (c', mn') -> wids c' = wids c.
Proof.
  induction sets as [|ws r IH]; cbn [map_mn_sets]; intros c rq mn c' mn' Hs H; [inversion H; reflexivity|].
  apply bind_ok in H. destruct H as (q & _ & H). destruct (q_take_one q) as [[id q']|]; [|discriminate].
  apply bind_ok in H. destruct H as (c2 & H2 & H). apply bind_ok in H. destruct H as (t & Ht & H).
  destruct (t_state t) as [n| | | | | |]; try discriminate. destruct n; [|discriminate].
  pose proof (set_mn_workers_wids _ (with_queues c (set_queue (c_queues c) (N.to_nat rq) q')) _ _ _ Hs H2) as E2.
  change (wids c2 = wids c) in E2.
  assert (E3 : wids (upd_task c2 (with_state t (RunningMN ws))) = wids c) by exact E2.
  rewrite <- E3. eapply IH; [eapply WS_eq; [exact E3 | exact Hs] | exact H].
Qed.

Lemma map_mn_wids l : forall c mn c' mn', WS c -> map_mn c mn l = Ok (c', mn') -> wids c' = wids c.
Proof.
  induction l as [|[[rq v] sets] r IH]; cbn [map_mn]; intros c mn c' mn' Hs H; [inversion H; reflexivity|].
  apply bind_ok in H. destruct H as ([c1 mn1] & H1 & H).
  pose proof (map_mn_sets_wids _ _ _ _ _ _ Hs H1) as E1.
  rewrite <- E1. eapply IH; [eapply WS_eq; [exact E1 | exact Hs] | exact H].
Qed.

Lemma prefill_mark_wids l : forall c w c', WS c -> prefill_mark c w l = Ok c' -> wids c' = wids c.
Proof.
  induction l as [|id r IH]; cbn [prefill_mark]; intros c w c' Hs H; [inversion H; reflexivity|].
  dec H. wcall IH H Hs.
Qed.

Lemma prefill_workers_wids ws : forall c m qi psize c' m', WS c -> prefill_workers c m qi psize ws = Ok (c', m') -> wids c' = wids c.
Proof.
  induction ws as [|w r IH]; cbn [prefill_workers]; intros c m qi psize c' m' Hs H; [inversion H; reflexivity|].
  apply bind_ok in H. destruct H as (q & _ & H). apply bind_ok in H. destruct H as ([ids q'] & _ & H).
  apply bind_ok in H. destruct H as (c2 & H2 & H).
  pose proof (prefill_mark_wids _ (with_queues c (set_queue (c_queues c) qi q')) _ _ Hs H2) as E2. change (wids c2 = wids c) in E2.
  rewrite <- E2. eapply IH; [eapply WS_eq; [exact E2 | exact Hs] | exact H].
Qed.

Lemma prefill_queues_wids n : forall c m worder qi top c' m',
  WS c -> prefill_queues c m worder qi n top = Ok (c', m') -> wids c' = wids c.
Proof.
  induction n as [|k IH]; cbn [prefill_queues]; intros c m worder qi top c' m' Hs H; [inversion H; reflexivity|].
  apply bind_ok in H. destruct H as (q & _ & H).
  destruct (q_top_priority q) as [tp|]; [|eapply IH; eassumption].
  destruct (negb (Z.eqb tp top)); [eapply IH; eassumption|].
  destruct (N.eqb _ 0); [eapply IH; eassumption|].
  destruct (existsb _ (q_top_task_ids q)).
  - destruct (forallb _ (q_top_task_ids q)); [eapply IH; eassumption | discriminate].
  - match type of H with match ?ws with [] => _ | _ => _ end = _ => destruct ws eqn:Ews end; [eapply IH; eassumption|].
    destruct (N.eqb _ 0); [eapply IH; eassumption|].
    apply bind_ok in H. destruct H as ([c1 m1] & H1 & H).
    pose proof (prefill_workers_wids _ _ _ _ _ _ _ Hs H1) as E1.
    rewrite <- E1. eapply IH; [eapply WS_eq; [exact E1 | exact Hs] | exact H].
Qed.

(** * The whole state: worker ids of the core and process ids *)
Definition sids (s : st) : list N * list N := (wids (core_of s), pids s).
Definition SI (s : st) : Prop := WS (core_of s) /\ PS s.

Lemma SI_eq s s' : sids s' = sids s -> SI s -> SI s'.
Proof. unfold sids, SI. intros E [H1 H2]. inversion E as [[E1 E2]]. split; [eapply WS_eq; eassumption | eapply PS_eq; eassumption]. Qed.

(** A core-only change. *)
Lemma sids_st_core s c : wids c = wids (core_of s) -> sids (st_core s c) = sids s.
Proof. unfold sids. cbn. intros ->. reflexivity. Qed.
(** A change of the job layer / the outputs only. *)
Definition CP (s : st) : core * list wproc := (core_of s, s_procs (fst s)).
Lemma sids_CP s s' : CP s' = CP s -> sids s' = sids s.
Proof. unfold CP, sids, pids. intros E. inversion E as [[E1 E2]]. rewrite E1, E2. reflexivity. Qed.

Lemma send_worker_sids s w m s' : SI s -> send_worker s w m = Ok s' -> sids s' = sids s.
Proof.
  unfold send_worker. intros [_ Hp] H. destruct (find_proc _ w) as [p|] eqn:Ef; [|discriminate]. inversion H; subst.
  unfold sids, pids. cbn. f_equal. eapply set_proc_keep; [exact Hp | | exact Ef]. reflexivity.
Qed.

Lemma broadcast_sids s m : sids (broadcast s m) = sids s.
Proof. unfold sids, pids, broadcast. cbn. rewrite map_map. reflexivity. Qed.

Lemma send_all_sids msgs : forall s s', SI s -> send_all s msgs = Ok s' -> sids s' = sids s.
Proof.
  induction msgs as [|[w m] r IH]; cbn [send_all]; intros s s' Hs H; [inversion H; reflexivity|].
  apply bind_ok in H. destruct H as (s1 & H1 & H). pose proof (send_worker_sids _ _ _ _ Hs H1) as E1.
  rewrite <- E1. eapply IH; [eapply SI_eq; eassumption | exact H].
Qed.

Lemma SI_st_core s c : wids c = wids (core_of s) -> SI s -> SI (st_core s c).
Proof. intros E. apply SI_eq. apply sids_st_core. exact E. Qed.

Lemma process_retracted_sids s r s' : SI s -> process_retracted s r = Ok s' -> sids s' = sids s.
Proof.
  unfold process_retracted. intros Hs H. destruct r; [inversion H; reflexivity|].
  apply bind_ok in H. destruct H as ([c' groups] & H1 & H).
  pose proof (retract_states_wids _ _ _ _ _ (proj1 Hs) H1) as E1.
  rewrite (send_all_sids _ _ _ (SI_st_core _ _ E1 Hs) H). apply sids_st_core. exact E1.
Qed.

(** * Job layer: core and processes untouched *)
Ltac cpt := intros H; decs; reflexivity.
Lemma check_termination_CP s jid s' : check_termination s jid = Ok s' -> CP s' = CP s.
Proof. unfold check_termination. cpt. Qed.
Lemma process_task_started_CP s t i ws rv s' : process_task_started s t i ws rv = Ok s' -> CP s' = CP s.
Proof. unfold process_task_started. cpt. Qed.
Lemma process_task_finished_CP s t s' : process_task_finished s t = Ok s' -> CP s' = CP s.
Proof.
  unfold process_task_finished. intros H. dec H; try discriminate.
  rewrite (check_termination_CP _ _ _ H). reflexivity.
Qed.
Lemma set_waiting_state_CP s t s' : set_waiting_state s t = Ok s' -> CP s' = CP s.
Proof. unfold set_waiting_state. cpt. Qed.
Lemma abort_tasks_CP s jid ids s' : abort_tasks s jid ids = Ok s' -> CP s' = CP s.
Proof.
  unfold abort_tasks. intros H. destruct ids; [inversion H; reflexivity|]. dec H.
  rewrite (check_termination_CP _ _ _ H). reflexivity.
Qed.
Lemma set_cancel_state_CP s jid ids s' : set_cancel_state s jid ids = Ok s' -> CP s' = CP s.
Proof.
  unfold set_cancel_state. intros H. destruct ids; [inversion H; reflexivity|]. dec H.
  rewrite (check_termination_CP _ _ _ H). reflexivity.
Qed.
Lemma process_task_failed_CP s t ab k s' ids : process_task_failed s t ab k = Ok (s', ids) -> CP s' = CP s.
Proof.
  unfold process_task_failed. intros H.
  apply bind_ok in H. destruct H as (s1 & H1 & H). apply bind_ok in H. destruct H as (j & _ & H).
  apply bind_ok in H. destruct H as (j1 & _ & H). apply bind_ok in H. destruct H as (s2 & H2 & H).
  apply bind_ok in H. destruct H as (j2 & _ & H).
  assert (E2 : CP s2 = CP s) by (rewrite (check_termination_CP _ _ _ H2); cbn; exact (abort_tasks_CP _ _ _ _ H1)).
  dec H; inversion H; subst; try exact E2.
  match goal with X : abort_tasks _ _ _ = Ok _ |- _ => rewrite (abort_tasks_CP _ _ _ _ X) end. exact E2.
Qed.
Lemma set_waiting_all_CP ts : forall s s', set_waiting_all s ts = Ok s' -> CP s' = CP s.
Proof.
  induction ts as [|t r IH]; cbn [set_waiting_all]; intros s s' H; [inversion H; reflexivity|].
  apply bind_ok in H. destruct H as (s1 & H1 & H). rewrite (IH _ _ H). eapply set_waiting_state_CP; exact H1.
Qed.
Lemma process_worker_lost_CP s w running reason s' : process_worker_lost s w running reason = Ok s' -> CP s' = CP s.
Proof. unfold process_worker_lost. intros H. dec H. inversion H; subst.
  match goal with X : set_waiting_all _ _ = Ok _ |- _ => rewrite <- (set_waiting_all_CP _ _ _ X) end. reflexivity.
Qed.
Lemma submit_ok_resp_CP s jid s' : submit_ok_resp s jid = Ok s' -> CP s' = CP s.
Proof. unfold submit_ok_resp. cpt. Qed.

Ltac wfin Hw := first
  [ match goal with X : try_remove_redirection _ _ = Ok _ |- _ => exact (try_remove_redirection_wids _ _ _ Hw X) end
  | match goal with X : reset_mn_all _ _ = Ok _ |- _ => exact (reset_mn_all_wids _ _ _ Hw X) end
  | match goal with X : reset_mn_workers _ _ _ = Ok _ |- _ => exact (reset_mn_workers_wids _ _ _ _ Hw X) end
  | solve [wsolve] ].

(** * Chaining *)
Definition Rc (c c' : core) : Prop := WS c -> wids c' = wids c.
Definition R (s s' : st) : Prop := SI s -> sids s' = sids s.

Lemma Rc_refl c : Rc c c.
Proof. intros _. reflexivity. Qed.
Lemma Rc_trans a b c : Rc a b -> Rc b c -> Rc a c.
Proof. intros H1 H2 Hs. rewrite (H2 (WS_eq _ _ (H1 Hs) Hs)). exact (H1 Hs). Qed.
Lemma Rc_same a b : c_workers b = c_workers a -> Rc a b.
Proof. intros E _. unfold wids. rewrite E. reflexivity. Qed.
Lemma R_refl s : R s s.
Proof. intros _. reflexivity. Qed.
Lemma R_trans a b c : R a b -> R b c -> R a c.
Proof. intros H1 H2 Hs. rewrite (H2 (SI_eq _ _ (H1 Hs) Hs)). exact (H1 Hs). Qed.
Lemma R_core s c : Rc (core_of s) c -> R s (st_core s c).
Proof. intros H Hs. apply sids_st_core. exact (H (proj1 Hs)). Qed.
Lemma R_CP s s' : CP s' = CP s -> R s s'.
Proof. intros E _. apply sids_CP. exact E. Qed.
Lemma R_eq s s' : sids s' = sids s -> R s s'.
Proof. intros E _. exact E. Qed.

Lemma cancel_release_R ids : forall s u r s1 u' r', cancel_release s ids u r = Ok (s1, u', r') -> R s s1.
Proof.
  induction ids as [|id rest IH]; cbn [cancel_release]; intros s u r s1 u' r' H; [inversion H; subst; apply R_refl|].
  destruct (find_task _ id) as [t|]; [|eapply IH; eassumption].
  dec H; (eapply R_trans; [|eapply IH; exact H]); try (apply R_eq; reflexivity);
    match goal with |- R ?s (ask_scheduling (st_core ?s ?c)) => change (R s (st_core s (with_flag c true)))
                  | _ => idtac end; apply R_core; intros Hw.
  all: wfin Hw.
Qed.

Lemma send_all_R msgs s s' : send_all s msgs = Ok s' -> R s s'.
Proof. intros H Hs. eapply send_all_sids; eassumption. Qed.
Lemma send_worker_R s w m s' : send_worker s w m = Ok s' -> R s s'.
Proof. intros H Hs. eapply send_worker_sids; eassumption. Qed.
Lemma process_retracted_R s r s' : process_retracted s r = Ok s' -> R s s'.
Proof. intros H Hs. eapply process_retracted_sids; eassumption. Qed.

Lemma on_cancel_tasks_R s ids s' : on_cancel_tasks s ids = Ok s' -> R s s'.
Proof.
  unfold on_cancel_tasks. intros H.
  apply bind_ok in H. destruct H as ([[s1 u] r] & H1 & H). apply bind_ok in H. destruct H as (c' & H2 & H).
  eapply R_trans; [eapply cancel_release_R; exact H1|].
  eapply R_trans; [|eapply send_all_R; exact H].
  apply R_core. intros Hw. eapply remove_tasks_batched_wids; eassumption.
Qed.

Lemma task_failed_R s w id k s' : task_failed s w id k = Ok s' -> R s s'.
Proof.
  unfold task_failed. intros H. cbv zeta in H. destruct (find_task _ id) as [t|]; [|inversion H; subst; apply R_refl].
  apply bind_ok in H. destruct H as (rq & _ & H). apply bind_ok in H. destruct H as (c1 & H1 & H).
  apply bind_ok in H. destruct H as (csm & _ & H). apply bind_ok in H. destruct H as (c2 & H2 & H).
  apply bind_ok in H. destruct H as ([c3 stt] & H3 & H). apply bind_ok in H. destruct H as (u & _ & H).
  apply bind_ok in H. destruct H as ([s1 cids] & H4 & H).
  assert (R1 : Rc (core_of s) c1) by (intros Hw; dec H1; try (match type of H1 with Ok _ = Ok _ => inversion H1; subst end); try reflexivity; wfin Hw).
  assert (R2 : Rc c1 c2) by (intros Hw; eapply remove_waiting_consumers_wids; eassumption).
  assert (R3 : Rc c2 c3) by (intros Hw; eapply remove_task_wids; eassumption).
  assert (R4 : R s s1).
  { eapply R_trans; [apply R_core; exact (Rc_trans _ _ _ (Rc_trans _ _ _ R1 R2) R3)|].
    apply R_CP. eapply process_task_failed_CP; exact H4. }
  destruct cids; [inversion H; subst; exact R4|].
  eapply R_trans; [exact R4 | eapply on_cancel_tasks_R; exact H].
Qed.

Lemma task_finished_R s w id s' b : task_finished s w id = Ok (s', b) -> R s s'.
Proof.
  unfold task_finished. intros H. cbv zeta in H. destruct (find_task _ id) as [t|]; [|inversion H; subst; apply R_refl].
  apply bind_ok in H. destruct H as (rq & _ & H). apply bind_ok in H. destruct H as (c1 & H1 & H).
  apply bind_ok in H. destruct H as (s1 & H2 & H). apply bind_ok in H. destruct H as ([c3 ret] & H3 & H).
  apply bind_ok in H. destruct H as (s2 & H4 & H). apply bind_ok in H. destruct H as ([c4 stt] & H5 & H).
  destruct stt; try discriminate. inversion H; subst.
  assert (R1 : Rc (core_of s) c1) by (intros Hw; dec H1; try (match type of H1 with Ok _ = Ok _ => inversion H1; subst end); try reflexivity; wfin Hw).
  eapply R_trans; [apply R_core; eapply Rc_trans; [exact R1 | apply (Rc_same c1 (upd_task c1 (with_state t Finished))); reflexivity]|].
  eapply R_trans; [apply R_CP; eapply process_task_finished_CP; exact H2|].
  eapply R_trans; [apply R_core; intros Hw; eapply wake_consumers_wids; eassumption|].
  eapply R_trans; [eapply process_retracted_R; exact H4|].
  apply R_core; intros Hw; eapply remove_task_wids; eassumption.
Qed.

Lemma task_running_R s w id rv s' b : task_running s w id rv = Ok (s', b) -> R s s'.
Proof.
  unfold task_running. intros H. cbv zeta in H. destruct (find_task _ id) as [t|]; [|inversion H; subst; apply R_refl].
  apply bind_ok in H. destruct H as (rq & _ & H). apply bind_ok in H. destruct H as ([s1 ws] & H1 & H).
  apply bind_ok in H. destruct H as (s2 & H2 & H). inversion H; subst.
  eapply R_trans; [|apply R_CP; eapply process_task_started_CP; exact H2].
  dec H1; inversion H1; subst; try apply R_refl;
    match goal with |- R ?s (st_core (ask_scheduling ?s) ?c) => change (R s (st_core s c)) | _ => idtac end;
    apply R_core; intros Hw; try solve [wsolve].
  assert (Hw0 : WS (core_of (ask_scheduling s))) by exact Hw.
  match goal with X : try_remove_redirection _ _ = Ok _ |- _ => pose proof (try_remove_redirection_wids _ _ _ Hw0 X) as F1 end.
  assert (Hw1 : WS a) by (eapply WS_eq; [exact F1 | exact Hw0]).
  transitivity (wids a); [clear Hw Hw0; wsolve | exact F1].
Qed.

Lemma requeue_R s t c1 s' b :
  Rc (core_of s) c1 ->
  (do (qs, ret) <- add_ready_task (c_queues c1) (with_state t (Waiting 0));
   do s'' <- process_retracted (st_core s (with_queues (upd_task c1 (with_state t (Waiting 0))) qs)) ret;
   Ok (s'', true)) = Ok (s', b) -> R s s'.
Proof.
  intros R1 Hx. apply bind_ok in Hx. destruct Hx as ([qs ret] & _ & Hx). apply bind_ok in Hx. destruct Hx as (s2 & H2 & Hx).
  inversion Hx; subst.
  eapply R_trans; [|eapply process_retracted_R; exact H2].
  apply R_core. eapply Rc_trans; [exact R1 | apply Rc_same; reflexivity].
Qed.

Lemma task_reject_R s w id rv s' b : task_reject s w id rv = Ok (s', b) -> R s s'.
Proof.
  unfold task_reject. intros H. cbv zeta in H. destruct (find_task _ id) as [t|]; [|inversion H; subst; apply R_refl].
  apply bind_ok in H. destruct H as (wk & Hwk & H). apply bind_ok in H. destruct H as (rq & _ & H).
  apply bind_ok in H. destruct H as ([c1 cont] & Hr & H).
  set (wk1 := match rv with Some v => if nn_mem (t_rq t, v) (w_blocked wk) then wk else with_blocked wk (nn_insert (t_rq t, v) (w_blocked wk)) | None => wk end) in *.
  assert (Hi : w_id wk1 = w_id wk) by (subst wk1; destruct rv as [v|]; [destruct (nn_mem _ _)|]; reflexivity).
  assert (R0 : Rc (core_of s) (upd_worker (core_of s) wk1)).
  { intros Hw. unfold wids, WS, wids in *. cnorm. eapply set_worker_keep; [exact Hw | exact Hi | apply get_worker_find; exact Hwk]. }
  assert (Hg1 : find_worker (c_workers (upd_worker (core_of s) wk1)) w = Some wk1).
  { cbn. rewrite find_set_worker. rewrite Hi. destruct (find_worker_some _ _ _ (get_worker_find _ _ _ Hwk)) as [_ ->]. rewrite N.eqb_refl. reflexivity. }
  assert (R1 : Rc (core_of s) c1).
  { eapply Rc_trans; [exact R0|]. intros Hw. clearbody wk1.
    dec Hr; try (match type of Hr with Ok _ = Ok _ => inversion Hr; subst end); try reflexivity;
      unfold wids, WS, wids in *; cnorm; (eapply set_worker_keep; [exact Hw | | exact Hg1]); widt. }
  clearbody wk1.
  destruct (t_state t) eqn:Est; try (eapply requeue_R; eassumption).
  destruct cont.
  - destruct (find_redirect (c_redirects c1) id) as [[target rvt]|].
    + apply bind_ok in H. destruct H as (s1 & H1 & H). inversion H; subst.
      eapply R_trans; [|eapply send_worker_R; exact H1].
      apply R_core. eapply Rc_trans; [exact R1 | apply Rc_same; reflexivity].
    + eapply requeue_R; eassumption.
  - inversion H; subst. apply R_core. exact R1.
Qed.

Lemma request_enabled_R s w rq rv s' : request_enabled s w rq rv = Ok s' -> R s s'.
Proof.
  unfold request_enabled. intros H. dec H. inversion H; subst. apply R_core. intros Hw. wsolve.
Qed.

Lemma apply_updates_R us : forall s w need s' n', apply_updates s w us need = Ok (s', n') -> R s s'.
Proof.
  induction us as [|u r IH]; cbn [apply_updates]; intros s w need s' n' H; [inversion H; subst; apply R_refl|].
  apply bind_ok in H. destruct H as ([s1 n1] & H1 & H).
  eapply R_trans; [|eapply IH; exact H].
  destruct u.
  - eapply task_finished_R; exact H1.
  - apply bind_ok in H1. destruct H1 as (s2 & H2 & H1). inversion H1; subst. eapply task_failed_R; exact H2.
  - eapply task_running_R; exact H1.
  - eapply task_running_R; exact H1.
  - eapply task_reject_R; exact H1.
  - apply bind_ok in H1. destruct H1 as (s2 & H2 & H1). inversion H1; subst. eapply request_enabled_R; exact H2.
Qed.

Lemma on_task_update_R s w us s' : on_task_update s w us = Ok s' -> R s s'.
Proof.
  unfold on_task_update. intros H. apply bind_ok in H. destruct H as ([s1 need] & H1 & H).
  pose proof (apply_updates_R _ _ _ _ _ _ H1) as R1.
  destruct (need && _); inversion H; subst; [|exact R1].
  eapply R_trans; [exact R1 | apply R_eq; reflexivity].
Qed.

Lemma send_redirected_R gs : forall s s', send_redirected s gs = Ok s' -> R s s'.
Proof.
  induction gs as [|[target ts] r IH]; cbn [send_redirected]; intros s s' H; [inversion H; subst; apply R_refl|].
  apply bind_ok in H. destruct H as (cts & _ & H). apply bind_ok in H. destruct H as (s1 & H1 & H).
  eapply R_trans; [eapply send_worker_R; exact H1 | eapply IH; exact H].
Qed.

Lemma on_retract_response_R s w ids s' : on_retract_response s w ids = Ok s' -> R s s'.
Proof.
  unfold on_retract_response. intros H. destruct (retract_response_states _ w ids []) as [c' groups] eqn:E.
  apply bind_ok in H. destruct H as (s2 & H & H2).
  assert (R2 : R s s2).
  { eapply R_trans; [|eapply send_redirected_R; exact H].
    apply R_core. intros Hw. eapply retract_response_states_wids; eassumption. }
  destruct (retract_wakes _ _ _ _); inversion H2; subst s'; clear H2; [|exact R2].
  eapply R_trans; [exact R2|]. apply R_eq. reflexivity.
Qed.

Lemma lost_retracting_R l : forall s w s', lost_retracting s w l = Ok s' -> R s s'.
Proof.
  induction l as [|id r IH]; cbn [lost_retracting]; intros s w s' H; [inversion H; subst; apply R_refl|].
  apply bind_ok in H. destruct H as (t & Ht & H).
  destruct (t_state t); try (eapply IH; eassumption).
  destruct (N.eqb w w0); [|eapply IH; eassumption].
  destruct (find_redirect _ id) as [[target rv]|].
  - apply bind_ok in H. destruct H as (s1 & H1 & H).
    eapply R_trans; [|eapply IH; exact H]. eapply R_trans; [|eapply send_worker_R; exact H1].
    apply R_core. apply Rc_same. reflexivity.
  - eapply R_trans; [|eapply IH; exact H]. apply R_core. apply Rc_same. reflexivity.
Qed.

Lemma lost_fail_running_R l : forall s reason s', lost_fail_running s reason l = Ok s' -> R s s'.
Proof.
  induction l as [|id r IH]; cbn [lost_fail_running]; intros s reason s' H; [inversion H; subst; apply R_refl|].
  destruct (find_task _ id) as [t|]; [|eapply IH; eassumption].
  destruct (t_climit t).
  - apply bind_ok in H. destruct H as (s1 & H1 & H). eapply R_trans; [eapply task_failed_R; exact H1 | eapply IH; exact H].
  - destruct (reason_is_failure reason); [|eapply IH; eassumption].
    destruct (increment_crash_counter t) as [t' limit]. destruct limit.
    + apply bind_ok in H. destruct H as (s1 & H1 & H).
      eapply R_trans; [|eapply IH; exact H]. eapply R_trans; [|eapply task_failed_R; exact H1].
      apply R_core. apply Rc_same. reflexivity.
    + eapply R_trans; [|eapply IH; exact H]. apply R_core. apply Rc_same. reflexivity.
  - destruct (reason_is_failure reason); [|eapply IH; eassumption].
    destruct (increment_crash_counter t) as [t' limit]. destruct limit.
    + apply bind_ok in H. destruct H as (s1 & H1 & H).
      eapply R_trans; [|eapply IH; exact H]. eapply R_trans; [|eapply task_failed_R; exact H1].
      apply R_core. apply Rc_same. reflexivity.
    + eapply R_trans; [|eapply IH; exact H]. apply R_core. apply Rc_same. reflexivity.
Qed.

Lemma on_new_tasks_R s ts s' : on_new_tasks s ts = Ok s' -> R s s'.
Proof.
  unfold on_new_tasks. intros H. destruct ts; [inversion H; subst; apply R_refl|].
  apply bind_ok in H. destruct H as ([c' ret] & H1 & H). apply bind_ok in H. destruct H as (s1 & H2 & H). inversion H; subst.
  eapply R_trans; [apply R_core; intros Hw; eapply add_new_tasks_wids; eassumption|].
  eapply R_trans; [eapply process_retracted_R; exact H2 | apply R_eq; reflexivity].
Qed.

Lemma send_mapping_R m : forall s s', send_mapping s m = Ok s' -> R s s'.
Proof.
  induction m as [|u r IH]; cbn [send_mapping]; intros s s' H; [inversion H; subst; apply R_refl|].
  apply bind_ok in H. destruct H as (s1 & H1 & H). apply bind_ok in H. destruct H as (cts1 & _ & H).
  apply bind_ok in H. destruct H as (cts2 & _ & H). apply bind_ok in H. destruct H as (s2 & H2 & H).
  eapply R_trans; [|eapply IH; exact H].
  eapply R_trans.
  - destruct (wu_retracts u); [inversion H1; subst; apply R_refl | eapply send_worker_R; exact H1].
  - destruct (cts1 ++ cts2); [inversion H2; subst; apply R_refl | eapply send_worker_R; exact H2].
Qed.

Lemma send_mn_R l : forall s s', send_mn s l = Ok s' -> R s s'.
Proof.
  induction l as [|id r IH]; cbn [send_mn]; intros s s' H; [inversion H; subst; apply R_refl|].
  apply bind_ok in H. destruct H as (t & _ & H). destruct (t_state t); try discriminate. destruct ws; [discriminate|].
  apply bind_ok in H. destruct H as (s1 & H1 & H).
  eapply R_trans; [eapply send_worker_R; exact H1 | eapply IH; exact H].
Qed.

Lemma run_scheduling_R s sol s' : run_scheduling s sol = Ok s' -> R s s'.
Proof.
  unfold run_scheduling. intros H. cbv zeta in H. destruct (negb (perm_of_set _ _)); [discriminate|].
  apply bind_ok in H. destruct H as ([c1 m1] & H1 & H).
  apply bind_ok in H. destruct H as ([c2 mn] & H2 & H).
  apply bind_ok in H. destruct H as ([c3 m3] & H3 & H).
  apply bind_ok in H. destruct H as (s1 & H4 & H).
  apply bind_ok in H. destruct H as (s2 & H5 & H). inversion H; subst.
  assert (R1 : Rc (core_of s) c1) by (intros Hw; eapply map_sn_wids; eassumption).
  assert (R2 : Rc c1 c2) by (intros Hw; eapply map_mn_wids; eassumption).
  assert (R3 : Rc c2 c3).
  { intros Hw. destruct (queues_top_priority (c_queues c2)); [|inversion H3; reflexivity]. eapply prefill_queues_wids; eassumption. }
  eapply R_trans; [apply R_core; exact (Rc_trans _ _ _ (Rc_trans _ _ _ R1 R2) R3)|].
  eapply R_trans; [eapply send_mapping_R; exact H4|].
  eapply R_trans; [eapply send_mn_R; exact H5|]. apply R_eq. reflexivity.
Qed.

(** * Client requests *)
Lemma get_or_create_rq_R s r s' i : get_or_create_rq s r = (s', i) -> R s s'.
Proof.
  unfold get_or_create_rq. intros H. cbv zeta in H. destruct (rq_index _ r 0); inversion H; subst; [apply R_refl|].
  intros Hs. rewrite <- (broadcast_sids s (DNewRq (N.of_nat (length (c_rqs (core_of s)))) r)). reflexivity.
Qed.

Lemma handle_submit_array_R s jobsel ids entries rq prio cl tlim mf s' :
  handle_submit_array s jobsel ids entries rq prio cl tlim mf = Ok s' -> R s s'.
Proof.
  unfold handle_submit_array. intros H. cbv zeta in H.
  match type of H with match ?x with _ => _ end = _ => destruct x end; [inversion H; subst; apply R_CP; reflexivity|].
  apply bind_ok in H. destruct H as ([o s1] & Hr & H).
  assert (E1 : CP s1 = CP s).
  { destruct jobsel as [jid|].
    - destruct (find_job (hq_jobs s) jid) as [j|]; [|inversion Hr; reflexivity].
      destruct (negb (j_open j)); inversion Hr; reflexivity.
    - inversion Hr; reflexivity. }
  destruct o as [[[jid is_new] ids']|].
  - match type of H with (let '(_, _) := ?x in _) = _ => destruct x as [s4 rqi] eqn:Eg end.
    apply bind_ok in H. destruct H as (j & _ & H). apply bind_ok in H. destruct H as (j' & _ & H).
    apply bind_ok in H. destruct H as (s6 & H6 & H).
    eapply R_trans; [|apply R_CP; eapply submit_ok_resp_CP; exact H].
    eapply R_trans; [|eapply on_new_tasks_R; exact H6].
    eapply R_trans; [|apply (R_CP s4); reflexivity].
    eapply R_trans; [|eapply get_or_create_rq_R; exact Eg].
    apply R_CP. destruct is_new; cbn; exact E1.
  - apply R_CP. destruct jobsel; [destruct (find_job _ _)|]; inversion H; subst; try exact E1; rewrite <- E1; reflexivity.
Qed.

Lemma fold_rqs_R rqs : forall s l s' l',
  fold_left (fun acc r => let '(s, l) := acc in let '(s', i) := get_or_create_rq s r in (s', l ++ [i])) rqs (s, l) = (s', l') -> R s s'.
Proof.
  induction rqs as [|r rest IH]; cbn [fold_left]; intros s l s' l' H; [inversion H; subst; apply R_refl|].
  destruct (get_or_create_rq s r) as [s1 i] eqn:Eg.
  eapply R_trans; [eapply get_or_create_rq_R; exact Eg | eapply IH; exact H].
Qed.

Lemma handle_submit_graph_R s jobsel rqs ts mf s' : handle_submit_graph s jobsel rqs ts mf = Ok s' -> R s s'.
Proof.
  unfold handle_submit_graph. intros H. cbv zeta in H.
  apply bind_ok in H. destruct H as (v1 & _ & H).
  match type of H with match ?x with _ => _ end = _ => destruct x end; [inversion H; subst; apply R_CP; reflexivity|].
  apply bind_ok in H. destruct H as ([o s1] & Hr & H).
  assert (E1 : CP s1 = CP s).
  { destruct jobsel as [jid|].
    - destruct (find_job (hq_jobs s) jid) as [j|]; [|inversion Hr; reflexivity].
      destruct (negb (j_open j)); inversion Hr; reflexivity.
    - inversion Hr; reflexivity. }
  destruct o as [[jid is_new]|]; [|inversion H; subst; apply R_CP; exact E1].
  match type of H with (let '(_, _) := ?x in _) = _ => destruct x as [s4 rqis] eqn:Eg end.
  apply bind_ok in H. destruct H as (j & _ & H). apply bind_ok in H. destruct H as (j' & _ & H).
  apply bind_ok in H. destruct H as (tasks & _ & H). apply bind_ok in H. destruct H as (s6 & H6 & H).
  eapply R_trans; [|apply R_CP; eapply submit_ok_resp_CP; exact H].
  eapply R_trans; [|eapply on_new_tasks_R; exact H6].
  eapply R_trans; [|apply (R_CP s4); reflexivity].
  eapply R_trans; [|eapply fold_rqs_R; exact Eg].
  apply R_CP. destruct is_new; cbn; exact E1.
Qed.

Lemma handle_open_R s mf s' : handle_open s mf = Ok s' -> R s s'.
Proof. unfold handle_open. intros H. inversion H; subst. apply R_CP. reflexivity. Qed.

Lemma handle_close_R s jid s' : handle_close s jid = Ok s' -> R s s'.
Proof.
  unfold handle_close. intros H. destruct (find_job _ jid) as [j|]; [|inversion H; subst; apply R_CP; reflexivity].
  destruct (j_open j); [|inversion H; subst; apply R_CP; reflexivity].
  apply bind_ok in H. destruct H as (s1 & H1 & H). inversion H; subst. apply R_CP.
  transitivity (CP s1); [reflexivity|]. rewrite (check_termination_CP _ _ _ H1). reflexivity.
Qed.

Lemma handle_cancel_R s jid s' : handle_cancel s jid = Ok s' -> R s s'.
Proof.
  unfold handle_cancel. intros H. destruct (find_job _ jid) as [j|]; [|inversion H; subst; apply R_CP; reflexivity].
  cbv zeta in H. destruct (non_finished_task_ids j) as [|i ids]; [inversion H; subst; apply R_CP; reflexivity|].
  apply bind_ok in H. destruct H as (s1 & H1 & H). apply bind_ok in H. destruct H as (al & _ & H).
  apply bind_ok in H. destruct H as (s2 & H2 & H). inversion H; subst.
  eapply R_trans; [eapply on_cancel_tasks_R; exact H1|]. apply R_CP.
  transitivity (CP s2); [reflexivity|]. eapply set_cancel_state_CP; exact H2.
Qed.

Lemma handle_forget_R s jid s' : handle_forget s jid = Ok s' -> R s s'.
Proof.
  unfold handle_forget. intros H. destruct (find_job _ jid) as [j|]; [|inversion H; subst; apply R_CP; reflexivity].
  apply bind_ok in H. destruct H as (na & _ & H). destruct (negb (j_open j) && na); inversion H; subst; apply R_CP; reflexivity.
Qed.

(** * The worker process keeps its id *)
Lemma try_start_task_id p t rv pf al p' u l b : try_start_task p t rv pf al = (p', u, l, b) -> p_id p' = p_id p.
Proof. unfold try_start_task. destruct (tid_mem _ _); intros H; inversion H; reflexivity. Qed.

Lemma prefill_loop_id fuel : forall p rq rv al ups ls p' u l b, prefill_loop fuel p rq rv al ups ls = (p', u, l, b) -> p_id p' = p_id p.
Proof.
  induction fuel as [|k IH]; cbn [prefill_loop]; intros p rq rv al ups ls p' u l b H; [inversion H; reflexivity|].
  destruct (pop_last _) as [[t rest]|]; [|inversion H; reflexivity].
  destruct (bl_has _ rq); [|inversion H; reflexivity].
  destruct (try_start_task _ t rv true al) as [[[p1 u1] l1] started] eqn:Et.
  apply try_start_task_id in Et. cbn in Et.
  destruct started; [inversion H; subst; exact Et|]. rewrite (IH _ _ _ _ _ _ _ _ _ _ H). exact Et.
Qed.

Lemma compute_loop_id ts : forall p ups ls p' u l, compute_loop p ts ups ls = Ok (p', u, l) -> p_id p' = p_id p.
Proof.
  induction ts as [|ct r IH]; cbn [compute_loop]; intros p ups ls p' u l H; [inversion H; reflexivity|].
  destruct (ct_rv ct) as [rv|]; [|rewrite (IH _ _ _ _ _ _ H); reflexivity].
  apply bind_ok in H. destruct H as (rq & _ & H). destruct (negb (N.eqb rv 0)); [discriminate|].
  destruct (res_fits _ _).
  - match type of H with (match ?x with _ => _ end) = _ => destruct x as [[[p1 u1] l1] started] eqn:Et end.
    apply try_start_task_id in Et. cbn in Et.
    destruct started; [rewrite (IH _ _ _ _ _ _ H); exact Et|].
    match type of H with (match ?x with _ => _ end) = _ => destruct x as [[[p2 u2] l2] b2] eqn:Ep end.
    apply prefill_loop_id in Ep. rewrite (IH _ _ _ _ _ _ H), Ep. exact Et.
  - rewrite (IH _ _ _ _ _ _ H). reflexivity.
Qed.

Lemma cancel_task_id p t : p_id (cancel_task p t) = p_id p.
Proof. unfold cancel_task. destruct (run_find _ t); [destruct (fu_find _ t) as [[|]|]|]; reflexivity. Qed.

Lemma fold_cancel_id ids : forall p, p_id (fold_left cancel_task ids p) = p_id p.
Proof. induction ids as [|t r IH]; cbn [fold_left]; intros p; [reflexivity|]. rewrite IH. apply cancel_task_id. Qed.

Lemma process_worker_message_id p m order p' ls : process_worker_message p m order = Ok (p', ls) -> p_id p' = p_id p.
Proof.
  unfold process_worker_message. intros H. destruct m.
  - apply bind_ok in H. destruct H as ([[p1 ups] l1] & H1 & H). apply compute_loop_id in H1.
    destruct ups; inversion H; subst; exact H1.
  - destruct (negb _); [discriminate|]. destruct (retract_from _ _ _ _) as [b out]. destruct ids; inversion H; reflexivity.
  - inversion H; subst. apply fold_cancel_id.
  - inversion H; reflexivity.
  - inversion H; reflexivity.
  - destruct (N.eqb _ _); [|discriminate]. inversion H; reflexivity.
  - inversion H; reflexivity.
Qed.

Lemma task_end_id p t how p' ls : task_end p t how = Ok (p', ls) -> p_id p' = p_id p.
Proof.
  unfold task_end. intros H. destruct (fu_find _ t) as [stop|]; [|discriminate].
  destruct (run_find _ t) as [rv|]; [|discriminate]. destruct (al_find _ t) as [[|rq alloc]|]; try discriminate.
  match type of H with (match ?x with _ => _ end) = _ => destruct x as [[[p1 u1] l1] used] eqn:Ep end.
  apply prefill_loop_id in Ep. cbn in Ep.
  destruct (negb used); cbn in H; match type of H with match ?u with _ => _ end = _ => destruct u end; inversion H; subst; exact Ep.
Qed.

Lemma timer_fire_id p t : p_id (timer_fire p t) = p_id p.
Proof. unfold timer_fire. cbn. destruct (fu_find _ t) as [[|]|]; reflexivity. Qed.
Lemma fold_timer_id ts : forall p, p_id (fold_left timer_fire ts p) = p_id p.
Proof. induction ts as [|t r IH]; cbn [fold_left]; intros p; [reflexivity|]. rewrite IH. apply timer_fire_id. Qed.

(** * The invariant *)
Definition PI (s : st) : Prop := WS (core_of s) /\ pids s = wids (core_of s).

Lemma PI_SI s : PI s -> SI s.
Proof. intros [H1 H2]. split; [exact H1|]. unfold PS. rewrite H2. exact H1. Qed.

Lemma R_PI s s' : R s s' -> PI s -> PI s'.
Proof.
  intros HR HP. pose proof (HR (PI_SI _ HP)) as E. unfold sids in E. inversion E as [[E1 E2]].
  destruct HP as [H1 H2]. split; [eapply WS_eq; eassumption|]. rewrite E1, E2. exact H2.
Qed.

Lemma on_new_worker_PI s rs g s' : PI s -> on_new_worker s rs g = Ok s' -> PI s'.
Proof.
  unfold on_new_worker. intros [Hw Hp] H. inversion H; subst. unfold PI, WS, pids, wids in *. cbn.
  split; [apply set_worker_sorted; exact Hw|].
  apply set_both; [rewrite map_map; exact Hp | reflexivity].
Qed.

Lemma on_remove_worker_PI s w reason a p t s' : PI s -> on_remove_worker s w reason a p t = Ok s' -> PI s'.
Proof.
  unfold on_remove_worker. intros [Hw Hp] H. cbv zeta in H. destruct (find_worker _ w) as [wk|]; [|discriminate].
  apply bind_ok in H. destruct H as ([[c2 running] retracted] & Hr & H).
  destruct (negb (perm_of_set t _)); [discriminate|].
  apply bind_ok in H. destruct H as (s3 & H3 & H). apply bind_ok in H. destruct H as (s4 & H4 & H).
  apply bind_ok in H. destruct H as (s6 & H6 & H). apply bind_ok in H. destruct H as (s7 & H7 & H). inversion H; subst.
  set (c0 := with_workers (core_of s) (del_worker (c_workers (core_of s)) w)) in *.
  set (s0 := (with_procs (fst s) (del_proc (s_procs (fst s)) w), snd s) : st) in *.
  assert (P0 : PI (st_core s0 c0)).
  { unfold PI, WS, pids, wids in *. cbn. split; [apply del_worker_sorted; exact Hw | apply del_both; exact Hp]. }
  assert (R1 : Rc c0 c2).
  { intros Hw0. destruct (w_assign wk) as [aa pp ff|mt root].
    - destruct (negb _); [discriminate|]. apply bind_ok in Hr. destruct Hr as (c1 & H1 & Hr).
      pose proof (lost_prefilled_wids _ _ _ Hw0 H1) as E1.
      rewrite (lost_assigned_wids _ _ _ _ _ _ _ (WS_eq _ _ E1 Hw0) Hr). exact E1.
    - apply bind_ok in Hr. destruct Hr as (tk & _ & Hr). destruct (t_state tk); try discriminate.
      destruct ws as [|w0 rest]; [discriminate|]. destruct (N.eqb w w0); [|inversion Hr; reflexivity].
      apply bind_ok in Hr. destruct Hr as (c1 & H1 & Hr). apply bind_ok in Hr. destruct Hr as ([qs ret] & _ & Hr).
      inversion Hr; subst. exact (reset_mn_all_wids _ _ _ Hw0 H1). }
  assert (P2 : PI (st_core s0 c2)).
  { change (PI (st_core (st_core s0 c0) c2)). eapply R_PI; [apply R_core; exact R1 | exact P0]. }
  eapply R_PI; [|exact P2].
  eapply R_trans; [eapply lost_retracting_R; exact H3|].
  eapply R_trans; [eapply process_retracted_R; exact H4|].
  eapply R_trans; [apply R_eq; apply broadcast_sids|].
  eapply R_trans; [apply R_CP; eapply process_worker_lost_CP; exact H6|].
  eapply R_trans; [eapply lost_fail_running_R; exact H7|]. apply R_eq. reflexivity.
Qed.

Lemma set_proc_PI s w p p' outs :
  PI (s, @nil out) -> find_proc (s_procs s) w = Some p -> p_id p' = p_id p -> PI (with_procs s (set_proc (s_procs s) p'), outs).
Proof.
  intros HP Hf Hi. destruct (PI_SI _ HP) as [_ Hps]. destruct HP as [Hw Hp]. unfold PI, pids, PS, pids in *. cbn in *.
  split; [exact Hw|]. etransitivity; [|exact Hp]. eapply set_proc_keep; [exact Hps | exact Hi | exact Hf].
Qed.

Lemma PI_outs s o o' : PI (s, o) -> PI (s, o').
Proof. intros H. exact H. Qed.

Lemma step_PI s o s' outs : PI (s, []) -> step s o = Ok (s', outs) -> PI (s', []).
Proof.
  intros HP H. apply (PI_outs s' outs). destruct o; cbn [step] in H.
  - eapply on_new_worker_PI; eassumption.
  - destruct (find_proc _ w); [|discriminate]. eapply on_remove_worker_PI; eassumption.
  - destruct (bad_submit_lengths _ _); [inversion H; subst; exact HP|]. eapply R_PI; [eapply handle_submit_array_R; exact H | exact HP].
  - destruct (bad_graph_rq _ _); [inversion H; subst; exact HP|]. destruct (dead_dep _ _ _); [inversion H; subst; exact HP|]. eapply R_PI; [eapply handle_submit_graph_R; exact H | exact HP].
  - eapply R_PI; [eapply handle_open_R; exact H | exact HP].
  - eapply R_PI; [eapply handle_close_R; exact H | exact HP].
  - eapply R_PI; [eapply handle_cancel_R; exact H | exact HP].
  - eapply R_PI; [eapply handle_forget_R; exact H | exact HP].
  - destruct (find_proc _ w) as [p|] eqn:Ef; [|discriminate]. destruct (p_down p) as [|m rest]; [discriminate|].
    apply bind_ok in H. destruct H as ([p' ls] & H1 & H). inversion H; subst.
    eapply set_proc_PI; [exact HP | exact Ef |]. rewrite (process_worker_message_id _ _ _ _ _ H1). reflexivity.
  - destruct (find_proc _ w) as [p|] eqn:Ef; [|discriminate]. destruct (p_up p) as [|m rest]; [discriminate|].
    assert (P1 : PI (with_procs s (set_proc (s_procs s) (wp_up p rest)), [OUp w m])) by (eapply set_proc_PI; [exact HP | exact Ef | reflexivity]).
    destruct m.
    + eapply R_PI; [eapply on_task_update_R; exact H | exact P1].
    + eapply R_PI; [eapply on_retract_response_R; exact H | exact P1].
  - destruct (c_flag _); [|discriminate]. eapply R_PI; [eapply run_scheduling_R; exact H | exact HP].
  - destruct (find_proc _ w) as [p|] eqn:Ef; [|discriminate].
    apply bind_ok in H. destruct H as ([p' ls] & H1 & H). inversion H; subst.
    eapply set_proc_PI; [exact HP | exact Ef |]. exact (task_end_id _ _ _ _ _ H1).
  - destruct (find_proc _ w) as [p|] eqn:Ef; [|discriminate]. inversion H; subst.
    eapply set_proc_PI; [exact HP | exact Ef | reflexivity].
  - inversion H; subst. destruct HP as [Hw Hp]. split; [exact Hw|]. unfold pids in *. cbn in *. etransitivity; [|exact Hp].
    rewrite map_map. apply map_ext. intros p. apply fold_timer_id.
  - apply bind_ok in H. destruct H as (lj & _ & H). inversion H; subst. exact HP.
Qed.

Lemma run_PI ops : forall s s' outs, PI (s, []) -> run s ops = Ok (s', outs) -> PI (s', []).
Proof.
  induction ops as [|o r IH]; cbn [run]; intros s s' outs HP H; [inversion H; subst; exact HP|].
  apply bind_ok in H. destruct H as ([s1 o1] & H1 & H). apply bind_ok in H. destruct H as ([s2 o2] & H2 & H).
  inversion H; subst. eapply IH; [eapply step_PI; eassumption | exact H2].
Qed.

(** The theorem: no hypothesis on the history. *)
Theorem reachable_PW : forall ops r m s outs, run (init_sys r m) ops = Ok (s, outs) -> PW s.
Proof.
  intros ops r m s outs H.
  assert (P0 : PI (init_sys r m, [])) by (split; [constructor | reflexivity]).
  exact (proj2 (run_PI _ _ _ _ P0 H)).
Qed.

(** ... together with the sortedness of the worker map. *)
Theorem reachable_PW_sorted : forall ops r m s outs, run (init_sys r m) ops = Ok (s, outs) ->
  StronglySorted N.lt (map w_id (c_workers (s_core s))) /\ PW s.
Proof.
  intros ops r m s outs H.
  assert (P0 : PI (init_sys r m, [])) by (split; [constructor | reflexivity]).
  exact (run_PI _ _ _ _ P0 H).
Qed.

(** One step preserves the correspondence (for step-wise arguments). *)
Theorem step_PW s o s' outs :
  StronglySorted N.lt (map w_id (c_workers (s_core s))) -> PW s -> step s o = Ok (s', outs) ->
  StronglySorted N.lt (map w_id (c_workers (s_core s'))) /\ PW s'.
Proof. intros Hw Hp H. exact (step_PI s o s' outs (conj Hw Hp) H). Qed.
