(** C06 "instance ids strictly increase", part 10: what the protocol invariant says about the
    copies of a task the server knows (at most one, on the worker the task is placed on, never
    together with a pending give-back), and the conversion lemmas used at the level of [Sys.step]. *)
From HQ Require Import Base.Prelude Cluster.Types Cluster.Core Cluster.Reactor Cluster.Worker Cluster.Server Cluster.Sys Cluster.Monitors Cluster.RejHyp Cluster.ProofsJob Cluster.ProofsMore Cluster.ProofsTerminal Cluster.ProofsStep Cluster.ProofsFinal Cluster.ProofsOnce Cluster.BijBase Cluster.BijCore Cluster.BijHq Cluster.BijSt Cluster.BijReact Cluster.BijFinal Cluster.InvWBase Cluster.InvBundle Cluster.NoPanicL0 Cluster.NoPanicU0 Cluster.NoPanicU1 Cluster.NoPanicU2 Cluster.NoPanicU6 Cluster.ExecU1 Cluster.ExecU2 Cluster.ExecU9.
From Coq Require Import ZArith Lia Sorting.Sorted.
Local Open Scope N_scope.

Notation tid_eqb_eq := NoPanicU1.tid_eqb_eq.
Notation tid_eqb_refl := NoPanicU1.tid_eqb_refl.

(** * Words *)
Definition isdc (d : ditem) : bool := match d with IDC _ _ => true | _ => false end.
Definition idc (D : list ditem) : nat := length (filter isdc D).
Definition lcp (L : litem) : nat := match L with LBack => 1%nat | _ => O end.
Definition isgive (u : uitem) : bool := match u with IRR | IRej _ => true | _ => false end.

Lemma lang_copies v U L D : lang v U L D = true ->
  (idc D + lcp L <= 1)%nat /\ (v = VN -> (idc D + lcp L = 0)%nat /\ U = []) /\
  ((0 < idc D + lcp L)%nat -> U = [] /\ (v = VA 0 \/ (exists rv, v = VA rv) \/ v = VP \/ v = VT \/ v = VM false)) /\
  (existsb isgive U = true -> (idc D + lcp L = 0)%nat /\ v <> VN) /\ L <> LBad.
Proof.
  intros H. lang_auto H; cbn; repeat split; intros; try lia; try discriminate; try congruence; eauto 6.
Qed.

Lemma lang_empty v : lang v [] LNone [] = true -> v = VN \/ (exists rv, v = VR rv) \/ v = VM true.
Proof. intros H. lang_auto H; eauto. Qed.

(** a word whose down part got a new compute entry *)
Lemma lang_new_copy v U L D Dadd : lang v U L (D ++ Dadd) = true -> (0 < idc Dadd)%nat ->
  D = [] /\ U = [] /\ L = LNone /\ ((exists rv, v = VA rv) \/ v = VP \/ v = VT \/ v = VM false).
Proof.
  intros H Hp. remember (D ++ Dadd) as D' eqn:E.
  assert (Hd : (idc D' = idc D + idc Dadd)%nat) by (subst D'; unfold idc; rewrite filter_app, app_length; reflexivity).
  destruct (lang_copies _ _ _ _ H) as (H1 & _ & H3 & _).
  assert (H0 : (idc D = 0)%nat) by lia.
  assert (HD : D = []).
  { clear Hd H1 H3. lang_auto H; destruct D as [|d0 D0]; try reflexivity; cbn [app] in E; inversion E; subst; cbn in H0; try discriminate;
      destruct D0; cbn [app] in *; try (destruct Dadd; discriminate); try (cbn in Hp; lia);
      match goal with X : _ :: _ = _ ++ _ |- _ => idtac | _ => idtac end; try (destruct Dadd; cbn in *; try discriminate; try lia). }
  subst D. cbn [app] in E. subst D'.
  clear Hd H1 H0. lang_auto H; cbn in Hp; try lia; repeat split; eauto 6.
Qed.

(** * Items and counts *)
Lemma dc_ditems x d : dc x d = idc (ditems x d).
Proof.
  unfold dc, idc, ditems, dcts. induction d as [|m r IH]; [reflexivity|]. cbn [flat_map]. rewrite ccnt_app, filter_app, app_length, <- IH. f_equal.
  destruct m; cbn [ditems_msg]; try reflexivity.
  - unfold ccnt. induction ts as [|ct ts IHt]; [reflexivity|]. cbn [filter flat_map]. rewrite filter_app, app_length, <- IHt. unfold sel.
    destruct (tid_eqb (ct_id ct) x); reflexivity.
  - induction ids as [|i ids IHi]; [reflexivity|]. cbn [flat_map]. rewrite filter_app, app_length, <- IHi. unfold sel. destruct (tid_eqb i x); reflexivity.
  - induction ids as [|i ids IHi]; [reflexivity|]. cbn [flat_map]. rewrite filter_app, app_length, <- IHi. unfold sel. destruct (tid_eqb i x); reflexivity.
Qed.

Lemma local_lcp p x : local p x <> LBad -> bl_count x (p_backlog p) = lcp (local p x).
Proof.
  unfold local. destruct (run_find (p_running p) x); destruct (bl_count x (p_backlog p)) as [|[|k]]; cbn; congruence.
Qed.

Lemma give_item x u : In x (match u with UReject y _ => [y] | _ => [] end) <-> existsb isgive (uitem_of x u) = true.
Proof.
  destruct u as [t0|t0 k|t0 rv|t0 rv|t0 rv|rq rv]; cbn [uitem_of]; unfold sel.
  - destruct (tid_eqb t0 x); cbn; (split; [intros [] | discriminate]).
  - destruct (tid_eqb t0 x); cbn; (split; [intros [] | discriminate]).
  - destruct (tid_eqb t0 x); cbn; (split; [intros [] | discriminate]).
  - destruct (tid_eqb t0 x); cbn; (split; [intros [] | discriminate]).
  - destruct (tid_eqb t0 x) eqn:E; cbn.
    + apply tid_eqb_eq in E. subst. split; auto.
    + split; [intros [->|[]]; rewrite tid_eqb_refl in E; discriminate | discriminate].
  - cbn. split; [intros [] | discriminate].
Qed.

Lemma gives_uitems x up : In x (gives up) <-> existsb isgive (uitems x up) = true.
Proof.
  unfold gives, uitems. induction up as [|m r IH]; [cbn; split; [intros [] | discriminate]|].
  cbn [flat_map]. rewrite in_app_iff, existsb_app, orb_true_iff, IH. apply or_iff_compat_r.
  destruct m as [us|ids]; cbn [uitems_msg].
  - unfold ugives. induction us as [|u us IHu]; [cbn; split; [intros [] | discriminate]|]. cbn [flat_map]. rewrite in_app_iff, existsb_app, orb_true_iff, IHu.
    apply or_iff_compat_r. apply give_item.
  - induction ids as [|i ids IHi]; [cbn; split; [intros [] | discriminate]|]. cbn [flat_map In]. rewrite existsb_app, orb_true_iff, <- IHi. unfold sel.
    destruct (tid_eqb i x) eqn:E; cbn.
    + apply tid_eqb_eq in E. subst. tauto.
    + split; [intros [->|H]; [rewrite tid_eqb_refl in E; discriminate | auto] | intros [H|H]; [discriminate | auto]].
Qed.

(** * Copies of a task the server knows *)
Section Known.
Variable s : sys.
Hypothesis HP : PROTO s.
Variables (x : tid) (t : task).
Hypothesis Hf : find_task (c_tasks (s_core s)) x = Some t.

Lemma known_word w p : find_proc (s_procs s) w = Some p ->
  let v := view_of (t_state t) w (job_running (s_hq s) x) in
  lang v (uitems x (p_up p)) (local p x) (ditems x (p_down p)) = true /\ pc x p = (idc (ditems x (p_down p)) + lcp (local p x))%nat.
Proof.
  intros Hp v. pose proof (pr_words _ HP w p x t Hp Hf) as Hl. split; [exact Hl|].
  destruct (lang_copies _ _ _ _ Hl) as (_ & _ & _ & _ & Hb). unfold pc. rewrite dc_ditems, (local_lcp _ _ Hb). reflexivity.
Qed.

Lemma known_pc w p : find_proc (s_procs s) w = Some p ->
  (pc x p <= 1)%nat /\ (view_of (t_state t) w (job_running (s_hq s) x) = VN -> pc x p = O /\ ~ In x (gives (p_up p))) /\
  ((0 < pc x p)%nat -> ~ In x (gives (p_up p)) /\ is_waiting t = false) /\
  (In x (gives (p_up p)) -> pc x p = O /\ view_of (t_state t) w (job_running (s_hq s) x) <> VN).
Proof.
  intros Hp. destruct (known_word w p Hp) as [Hl ->]. destruct (lang_copies _ _ _ _ Hl) as (H1 & H2 & H3 & H4 & _).
  split; [exact H1|]. split; [|split].
  - intros Ev. destruct (H2 Ev) as [A B]. split; [exact A|]. rewrite gives_uitems, B. cbn. discriminate.
  - intros Hpos. destruct (H3 Hpos) as [B Hv]. split; [rewrite gives_uitems, B; cbn; discriminate|].
    unfold is_waiting. destruct (t_state t) as [n|w1 rv1|w1|w1|w1 rv1|[|w0 ws]|]; try reflexivity; cbn [view_of] in Hv;
      destruct Hv as [X|[(rv & X)|[X|[X|X]]]]; discriminate.
  - intros Hg. apply gives_uitems in Hg. exact (H4 Hg).
Qed.

(** the worker a task is placed on *)
Definition vw (st : tstate) : option wid :=
  match st with
  | Assigned w _ | Prefilled w | Retracting w | Running w _ => Some w
  | RunningMN (w0 :: _) => Some w0
  | _ => None
  end.
Lemma view_vw st w jr : view_of st w jr <> VN -> vw st = Some w.
Proof.
  destruct st as [n|w1 rv1|w1|w1|w1 rv1|[|w0 ws]|]; cbn [view_of vw]; try congruence;
    (destruct (N.eqb _ w) eqn:E; [apply N.eqb_eq in E; subst; reflexivity | congruence]).
Qed.

Lemma cc_zero ps : (forall p, In p ps -> pc x p = O) -> cc x ps = O.
Proof. induction ps as [|h r IH]; intros H; [reflexivity|]. cbn [cc]. rewrite (H h (or_introl eq_refl)), IH; [reflexivity | intros p Hp; apply H; right; exact Hp]. Qed.

Lemma cc_one ps w0 : NoPanicU1.psorted ps -> (forall p, In p ps -> (pc x p <= 1)%nat) -> (forall p, In p ps -> p_id p <> w0 -> pc x p = O) -> (cc x ps <= 1)%nat.
Proof.
  unfold NoPanicU1.psorted. induction ps as [|h r IH]; intros Hs H1 H0; [cbn; lia|]. cbn [cc].
  inversion Hs as [|? ? Hs' Hall]; subst. rewrite Forall_forall in Hall.
  destruct (N.eq_dec (p_id h) w0) as [E|E].
  - assert (Hz : cc x r = O).
    { apply cc_zero. intros p Hp. apply H0; [right; exact Hp|]. specialize (Hall _ (in_map p_id _ _ Hp)). lia. }
    specialize (H1 h (or_introl eq_refl)). lia.
  - rewrite (H0 h (or_introl eq_refl) E). apply IH; [exact Hs' | intros p Hp; apply H1; right; exact Hp | intros p Hp; apply H0; right; exact Hp].
Qed.

Lemma in_find_proc ps p : NoPanicU1.psorted ps -> In p ps -> find_proc ps (p_id p) = Some p.
Proof.
  unfold NoPanicU1.psorted. induction ps as [|h r IH]; intros Hs Hin; [destruct Hin|]. cbn [find_proc].
  inversion Hs as [|? ? Hs' Hall]; subst. rewrite Forall_forall in Hall. destruct Hin as [->|Hin]; [rewrite N.eqb_refl; reflexivity|].
  specialize (Hall _ (in_map p_id _ _ Hin)). destruct (N.eqb (p_id p) (p_id h)) eqn:E; [apply N.eqb_eq in E; lia | apply IH; assumption].
Qed.

Lemma known_cc : (cc x (s_procs s) <= 1)%nat.
Proof.
  pose proof (pr_sorted _ HP) as Hs.
  destruct (vw (t_state t)) as [w0|] eqn:Ev.
  - apply (cc_one _ w0 Hs).
    + intros p Hp. exact (proj1 (known_pc _ p (in_find_proc _ _ Hs Hp))).
    + intros p Hp Hn. destruct (known_pc _ p (in_find_proc _ _ Hs Hp)) as (_ & H2 & _). apply H2.
      destruct (view_of (t_state t) (p_id p) (job_running (s_hq s) x)) eqn:E; try reflexivity;
        exfalso; apply Hn; assert (X : vw (t_state t) = Some (p_id p)) by (eapply view_vw; rewrite E; discriminate); congruence.
  - apply (cc_one _ 0 Hs).
    + intros p Hp. exact (proj1 (known_pc _ p (in_find_proc _ _ Hs Hp))).
    + intros p Hp _. destruct (known_pc _ p (in_find_proc _ _ Hs Hp)) as (_ & H2 & _). apply H2.
      destruct (view_of (t_state t) (p_id p) (job_running (s_hq s) x)) eqn:E; try reflexivity;
        exfalso; assert (X : vw (t_state t) = Some (p_id p)) by (eapply view_vw; rewrite E; discriminate); congruence.
Qed.


(** a waiting task has no copy and is not being given back *)
Lemma known_waiting : is_waiting t = true -> cc x (s_procs s) = O /\ forall p, In p (s_procs s) -> ~ In x (gives (p_up p)).
Proof.
  intros Hw. pose proof (pr_sorted _ HP) as Hs.
  assert (Hv : forall w, view_of (t_state t) w (job_running (s_hq s) x) = VN).
  { intros w. unfold is_waiting in Hw. destruct (t_state t); try discriminate. reflexivity. }
  split.
  - apply cc_zero. intros p Hp. exact (proj1 (proj1 (proj2 (known_pc _ p (in_find_proc _ _ Hs Hp))) (Hv _))).
  - intros p Hp. exact (proj2 (proj1 (proj2 (known_pc _ p (in_find_proc _ _ Hs Hp))) (Hv _))).
Qed.

(** a task being given back has no copy *)
Lemma known_given p0 : In p0 (s_procs s) -> In x (gives (p_up p0)) -> cc x (s_procs s) = O.
Proof.
  intros Hp0 Hg. pose proof (pr_sorted _ HP) as Hs.
  destruct (known_pc _ p0 (in_find_proc _ _ Hs Hp0)) as (_ & _ & _ & H4). destruct (H4 Hg) as [Z0 Hv0].
  pose proof (view_vw _ _ _ Hv0) as Ev.
  apply cc_zero. intros p Hp. destruct (N.eq_dec (p_id p) (p_id p0)) as [E|E].
  - assert (p = p0) by (pose proof (in_find_proc _ _ Hs Hp) as A; pose proof (in_find_proc _ _ Hs Hp0) as B; rewrite E in A; congruence). subst. exact Z0.
  - destruct (known_pc _ p (in_find_proc _ _ Hs Hp)) as (_ & H2 & _). apply H2.
    destruct (view_of (t_state t) (p_id p) (job_running (s_hq s) x)) eqn:E2; try reflexivity;
      exfalso; apply E; assert (X : vw (t_state t) = Some (p_id p)) by (eapply view_vw; rewrite E2; discriminate); congruence.
Qed.
End Known.
