(** C06 "instance ids strictly increase", part 6: [PR] for the client requests and for the updates
    of a worker message (under the protocol invariant); ids known to the job layer stay known. *)
From HQ Require Import Base.Prelude Cluster.Types Cluster.Core Cluster.Reactor Cluster.Worker Cluster.Server Cluster.Sys Cluster.Monitors Cluster.RejHyp Cluster.ProofsJob Cluster.ProofsMore Cluster.ProofsTerminal Cluster.ProofsStep Cluster.ProofsFinal Cluster.BijBase Cluster.BijCore Cluster.BijHq Cluster.BijSt Cluster.BijReact Cluster.BijFinal Cluster.ProofsOnce Cluster.InvWBase Cluster.NoPanicC1 Cluster.NoPanicL0 Cluster.NoPanicU0 Cluster.NoPanicU1 Cluster.NoPanicU6 Cluster.NoPanicU7 Cluster.NoPanicU8 Cluster.NoPanicU11 Cluster.NoPanicU14 Cluster.NoPanicU17 Cluster.ExecU1 Cluster.ExecU5.
From Coq Require Import ZArith Lia Sorting.Sorted.
Local Open Scope N_scope.

Arguments N.add : simpl never.
Arguments N.sub : simpl never.

(** * Ids known to the job layer *)
Lemma seen_new_job h x jb : j_id jb = h_counter h -> seen h x = true ->
  seen (mkHq (set_job (h_jobs h) jb) (h_counter h + 1)) x = true.
Proof.
  intros Ej H. unfold seen in *. cbn [h_jobs h_counter]. apply andb_true_iff in H. destruct H as [Ha Hb]. apply N.ltb_lt in Ha.
  assert (E : N.ltb (fst x) (h_counter h + 1) = true) by (apply N.ltb_lt; lia). rewrite E. cbn [andb].
  rewrite find_job_set', Ej. destruct (N.eqb (fst x) (h_counter h)) eqn:E1; [apply N.eqb_eq in E1; lia | exact Hb].
Qed.

Lemma seen_counter h x n : h_counter h <= n -> seen h x = true -> seen (mkHq (h_jobs h) n) x = true.
Proof.
  intros Hn H. unfold seen in *. cbn [h_jobs h_counter]. apply andb_true_iff in H. destruct H as [Ha Hb]. apply N.ltb_lt in Ha.
  assert (E : N.ltb (fst x) n = true) by (apply N.ltb_lt; lia). rewrite E. exact Hb.
Qed.

Lemma seen_attach h x j j' ids : find_job (h_jobs h) (j_id j) = Some j -> attach_ids j ids = Ok j' -> seen h x = true ->
  seen (mkHq (set_job (h_jobs h) j') (h_counter h)) x = true.
Proof.
  intros Ef Ha H. destruct (attach_ids_find _ _ _ Ha) as [Ei Ft]. unfold seen in *. cbn [h_jobs h_counter].
  apply andb_true_iff in H. destruct H as [Ha' Hb]. rewrite Ha'. cbn [andb]. rewrite find_job_set', Ei.
  destruct (N.eqb (fst x) (j_id j)) eqn:E; [|exact Hb]. apply N.eqb_eq in E. rewrite E, Ef in Hb. rewrite Ft.
  destruct (n_mem (snd x) ids); [reflexivity | exact Hb].
Qed.

Lemma seen_del h x jid : seen h x = true -> seen (mkHq (del_job (h_jobs h) jid) (h_counter h)) x = true.
Proof.
  intros H. unfold seen in *. cbn [h_jobs h_counter]. apply andb_true_iff in H. destruct H as [Ha Hb]. rewrite Ha. cbn [andb].
  destruct (N.eq_dec (fst x) jid) as [E|E]; [rewrite E, find_job_del_same; reflexivity | rewrite find_job_del by exact E; exact Hb].
Qed.

Section Pass.
Variable A : wid -> dmsg -> Prop.
Hypothesis HA : forall w m, quietm m -> A w m.
Notation PR := (PR A).
Notation PR_refl := (PR_refl A).
Notation PR_trans := (PR_trans A).
Notation PR_core := (PR_core A).
Notation PR_same := (PR_same A).

(** * Client requests *)
Lemma get_or_create_rq_PR s r s' i : get_or_create_rq s r = (s', i) -> PR s s'.
Proof.
  unfold get_or_create_rq. intros H. cbv zeta in H. destruct (rq_index _ r 0); inversion H; subst; [apply PR_refl|].
  eapply PR_trans; [apply (PR_broadcast A s (DNewRq (N.of_nat (length (c_rqs (core_of s)))) r)); intros w; apply HA; exact I | apply PR_core].
Qed.

Lemma fold_rqs_PR rqs : forall s l s' l',
  fold_left (fun acc r => let '(s, l) := acc in let '(s', i) := get_or_create_rq s r in (s', l ++ [i])) rqs (s, l) = (s', l') -> PR s s'.
Proof.
  induction rqs as [|r rest IH]; cbn [fold_left]; intros s l s' l' H; [inversion H; subst; apply PR_refl|].
  destruct (get_or_create_rq s r) as [s1 i] eqn:Eg.
  eapply PR_trans; [eapply get_or_create_rq_PR; exact Eg | eapply IH; exact H].
Qed.

(** the job-layer part of a submit before the tasks reach the core *)
Lemma PR_hq s s' : s_procs (fst s') = s_procs (fst s) -> LS s' = LS s -> SM s s' -> PR s s'.
Proof.
  intros Ep El Es. split; [exact El|]. split; [|exact Es]. intros w p' H. rewrite Ep in H. exists p', []. rewrite app_nil_r. repeat split; auto.
Qed.

Lemma submit_tail_PR s4 jid ids tasks s' :
  (do j <- hq_get_job s4 jid 222;
   do j' <- attach_ids j ids;
   do s6 <- on_new_tasks (hq_set_job s4 j') tasks;
   submit_ok_resp s6 jid) = Ok s' -> PR s4 s'.
Proof.
  intros H. apply bind_ok in H. destruct H as (j & Hj & H). apply bind_ok in H. destruct H as (j' & Ha & H).
  apply bind_ok in H. destruct H as (s6 & H6 & H).
  assert (Ej : find_job (h_jobs (s_hq (fst s4))) (j_id j) = Some j).
  { unfold hq_get_job in Hj. destruct (find_job (h_jobs (s_hq (fst s4))) jid) as [j0|] eqn:E; [|discriminate]. inversion Hj; subst j0.
    rewrite (find_job_id _ _ _ E). exact E. }
  eapply PR_trans; [apply (PR_hq s4 (hq_set_job s4 j')); [reflexivity | reflexivity|]|].
  { intros x Hx. unfold hq_of, hq_set_job. cbn [fst with_hq s_hq]. eapply seen_attach; [exact Ej | exact Ha | exact Hx]. }
  eapply PR_trans; [eapply on_new_tasks_PR; [exact HA | exact H6]|].
  apply PR_job; [eapply submit_ok_resp_CP; exact H | eapply submit_ok_resp_LS; exact H|].
  intros x Hx. unfold submit_ok_resp in H. apply bind_ok in H. destruct H as (jx & _ & H). inversion H; subst. exact Hx.
Qed.

(** the job chosen / created by a submit *)
Lemma submit_head_PR s (jid : N) (is_new : bool) s1 n mf :
  (is_new = false /\ s1 = s \/ is_new = true /\ jid = hq_counter s /\ s1 = hq_with s (hq_jobs s) (jid + 1)) ->
  let s2 := emit s1 (OEv (EvSubmit jid is_new n)) in
  let s3 := if is_new then hq_with s2 (set_job (hq_jobs s2) (mkJob jid false [] 0 0 0 0 0 false mf)) (hq_counter s2) else s2 in
  PR s s3.
Proof.
  intros [[-> ->]|(-> & -> & ->)]; cbv zeta.
  - apply PR_same; [reflexivity | reflexivity | unfold LS; cbn; rewrite launches_app; cbn; apply app_nil_r].
  - apply PR_hq; [reflexivity | unfold LS; cbn; rewrite launches_app; cbn; apply app_nil_r|].
    intros x Hx. unfold hq_of, hq_with, hq_jobs, hq_counter, emit. cbn [fst snd with_hq s_hq h_jobs h_counter].
    apply (seen_new_job (s_hq (fst s)) x); [reflexivity | exact Hx].
Qed.

Lemma handle_submit_array_PR s jobsel ids entries rq prio cl tlim mf s' :
  handle_submit_array s jobsel ids entries rq prio cl tlim mf = Ok s' -> PR s s'.
Proof.
  unfold handle_submit_array. intros H. cbv zeta in H.
  match type of H with match ?x with _ => _ end = _ => destruct x end; [inversion H; subst; apply PR_same; try reflexivity; apply LS_emit; intros; discriminate|].
  apply bind_ok in H. destruct H as ([o s1] & Hr & H).
  destruct o as [[[jid is_new] ids']|].
  - assert (Hhead : is_new = false /\ s1 = s \/ is_new = true /\ jid = hq_counter s /\ s1 = hq_with s (hq_jobs s) (jid + 1)).
    { destruct jobsel as [j0|].
      - destruct (find_job (hq_jobs s) j0) as [j|]; [|inversion Hr]. destruct (negb (j_open j)); inversion Hr; subst. left. auto.
      - inversion Hr; subst. right. auto. }
    match type of H with (let '(_, _) := ?x in _) = _ => destruct x as [s4 rqi] eqn:Eg end.
    eapply PR_trans; [apply (submit_head_PR s jid is_new s1 (N.of_nat (length ids')) mf Hhead)|]. cbv zeta.
    eapply PR_trans; [eapply get_or_create_rq_PR; exact Eg|]. eapply submit_tail_PR; exact H.
  - assert (E1 : s1 = s \/ exists e, s1 = emit s (OResp e)).
    { destruct jobsel as [jid|]; [|inversion Hr]. destruct (find_job (hq_jobs s) jid) as [j|]; [|inversion Hr; auto].
      destruct (negb (j_open j)); inversion Hr; subst; eauto. }
    assert (P1 : PR s s1) by (destruct E1 as [->|(e & ->)]; [apply PR_refl | apply PR_same; try reflexivity; apply LS_emit; intros; discriminate]).
    eapply PR_trans; [exact P1|]. destruct jobsel; [destruct (find_job _ _)|]; inversion H; subst; try apply PR_refl.
    apply PR_same; try reflexivity. apply LS_emit. intros; discriminate.
Qed.

Lemma handle_submit_graph_PR s jobsel rqs ts mf s' : handle_submit_graph s jobsel rqs ts mf = Ok s' -> PR s s'.
Proof.
  unfold handle_submit_graph. intros H. cbv zeta in H.
  apply bind_ok in H. destruct H as (v1 & _ & H).
  match type of H with match ?x with _ => _ end = _ => destruct x end; [inversion H; subst; apply PR_same; try reflexivity; apply LS_emit; intros; discriminate|].
  apply bind_ok in H. destruct H as ([o s1] & Hr & H).
  destruct o as [[jid is_new]|].
  - assert (Hhead : is_new = false /\ s1 = s \/ is_new = true /\ jid = hq_counter s /\ s1 = hq_with s (hq_jobs s) (jid + 1)).
    { destruct jobsel as [j0|].
      - destruct (find_job (hq_jobs s) j0) as [j|]; [|inversion Hr]. destruct (negb (j_open j)); inversion Hr; subst. left. auto.
      - inversion Hr; subst. right. auto. }
    match type of H with (let '(_, _) := ?x in _) = _ => destruct x as [s4 rqis] eqn:Eg end.
    apply bind_ok in H. destruct H as (j & Hj & H). apply bind_ok in H. destruct H as (j' & Ha & H).
    apply bind_ok in H. destruct H as (tasks & _ & H).
    eapply PR_trans; [apply (submit_head_PR s jid is_new s1 (N.of_nat (length ts)) mf Hhead)|]. cbv zeta.
    eapply PR_trans; [eapply fold_rqs_PR; exact Eg|]. eapply (submit_tail_PR s4 jid (map gt_id ts) tasks).
    rewrite Hj. cbn [bind]. rewrite Ha. cbn [bind]. exact H.
  - inversion H; subst. destruct jobsel as [jid|]; [|inversion Hr]. destruct (find_job (hq_jobs s) jid) as [j|]; [|inversion Hr; subst; apply PR_same; try reflexivity; apply LS_emit; intros; discriminate].
    destruct (negb (j_open j)); inversion Hr; subst. apply PR_same; try reflexivity; apply LS_emit; intros; discriminate.
Qed.

Lemma handle_open_PR s mf s' : handle_open s mf = Ok s' -> PR s s'.
Proof.
  unfold handle_open. intros H. inversion H; subst. apply PR_hq; [reflexivity | unfold LS; cbn; rewrite !launches_app; cbn; rewrite !app_nil_r; reflexivity|].
  intros x Hx. unfold hq_of, hq_with, hq_jobs, hq_counter, emit. cbn [fst snd with_hq s_hq h_jobs h_counter].
  apply (seen_new_job (s_hq (fst s)) x); [reflexivity | exact Hx].
Qed.

Lemma handle_close_PR s jid s' : handle_close s jid = Ok s' -> PR s s'.
Proof.
  unfold handle_close. intros H. destruct (find_job _ jid) as [j|] eqn:Ef; [|inversion H; subst; apply PR_same; try reflexivity; apply LS_emit; intros; discriminate].
  destruct (j_open j); [|inversion H; subst; apply PR_same; try reflexivity; apply LS_emit; intros; discriminate].
  apply bind_ok in H. destruct H as (s1 & H1 & H). inversion H; subst.
  eapply PR_trans; [|apply (PR_same s1 (emit s1 (OResp (RClose 0)))); [reflexivity | reflexivity | apply LS_emit; intros; discriminate]].
  eapply PR_trans; [|apply PR_job; [eapply check_termination_CP; exact H1 | eapply check_termination_LS; exact H1 | eapply SM_chg; eapply check_termination_chg; exact H1]].
  apply PR_hq; [reflexivity | unfold LS, emit, hq_set_job; cbn [snd]; rewrite launches_app; cbn; apply app_nil_r|].
  intros x Hx. unfold hq_of, emit, hq_set_job in *. cbn [fst with_hq s_hq]. unfold seen in *. cbn [h_jobs h_counter].
  apply andb_true_iff in Hx. destruct Hx as [Ha Hb]. rewrite Ha. cbn [andb]. rewrite find_job_set'. cbn [j_id].
  pose proof (find_job_id _ _ _ Ef) as Eid. unfold hq_jobs in Ef.
  destruct (N.eqb (fst x) (j_id j)) eqn:E; [|exact Hb]. apply N.eqb_eq in E. rewrite E, Eid, Ef in Hb. cbn [j_tasks]. exact Hb.
Qed.

Lemma handle_cancel_PR s jid s' : handle_cancel s jid = Ok s' -> PR s s'.
Proof.
  unfold handle_cancel. intros H. destruct (find_job _ jid) as [j|]; [|inversion H; subst; apply PR_same; try reflexivity; apply LS_emit; intros; discriminate].
  cbv zeta in H. destruct (non_finished_task_ids j) as [|i ids]; [inversion H; subst; apply PR_same; try reflexivity; apply LS_emit; intros; discriminate|].
  apply bind_ok in H. destruct H as (s1 & H1 & H). apply bind_ok in H. destruct H as (al & _ & H).
  apply bind_ok in H. destruct H as (s2 & H2 & H). inversion H; subst.
  eapply PR_trans; [eapply on_cancel_tasks_PR; [exact HA | exact H1]|].
  eapply PR_trans; [apply PR_job; [eapply set_cancel_state_CP; exact H2 | eapply set_cancel_state_LS; exact H2 | eapply SM_chg; exact (proj1 (set_cancel_state_chg _ _ _ _ H2))]|].
  apply PR_same; try reflexivity. apply LS_emit. intros; discriminate.
Qed.

Lemma handle_forget_PR s jid s' : handle_forget s jid = Ok s' -> PR s s'.
Proof.
  unfold handle_forget. intros H. destruct (find_job _ jid) as [j|]; [|inversion H; subst; apply PR_same; try reflexivity; apply LS_emit; intros; discriminate].
  apply bind_ok in H. destruct H as (na & _ & H). destruct (negb (j_open j) && na); inversion H; subst; [|apply PR_same; try reflexivity; apply LS_emit; intros; discriminate].
  apply PR_hq; [reflexivity | unfold LS, emit, hq_with; cbn [snd]; rewrite launches_app; cbn; apply app_nil_r|].
  intros x Hx. unfold hq_of, emit, hq_with, hq_jobs, hq_counter. cbn [fst with_hq s_hq]. apply seen_del. exact Hx.
Qed.
End Pass.
