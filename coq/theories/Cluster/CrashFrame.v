(** C07: the crash counter of a task changes ONLY by the crash rule.  For every operation of the
    system model, a task that exists before and after keeps its crash limit, and its crash counter
    is unchanged - except when a worker is lost for a failure reason while the task was running on
    it: then it grows by exactly one. *)
From HQ Require Import Base.Prelude Cluster.Types Cluster.Core Cluster.Reactor Cluster.Worker Cluster.Server Cluster.Sys Cluster.ProofsJob Cluster.ProofsMore Cluster.ProofsTerminal Cluster.ProofsStep Cluster.BijBase Cluster.BijCore Cluster.BijHq Cluster.BijSt Cluster.BijReact Cluster.FrameGen.
From Coq Require Import ZArith Lia Sorting.Sorted.
Local Open Scope N_scope.

Arguments N.add : simpl never.
Arguments N.sub : simpl never.

Definition ci (t : task) : N * crashlimit := (t_crash t, t_climit t).
Lemma ci_state t s : ci (with_state t s) = ci t. Proof. reflexivity. Qed.
Lemma ci_inst t i : ci (with_inst t i) = ci t. Proof. reflexivity. Qed.

Notation ckeys := (pkeys _ ci).
Notation CK := (PK _ ci).

Definition cget (c : core) (id : tid) : option (N * crashlimit) := option_map ci (find_task (c_tasks c) id).

Fixpoint plook (l : list (tid * (N * crashlimit))) (id : tid) : option (N * crashlimit) :=
  match l with [] => None | (k, a) :: r => if tid_eqb id k then Some a else plook r id end.
Lemma cget_plook c id : cget c id = plook (ckeys c) id.
Proof.
  unfold cget, pkeys. induction (c_tasks c) as [|h r IH]; cbn [find_task map plook]; [reflexivity|].
  unfold pkey at 1. destruct (tid_eqb id (t_id h)); [reflexivity | exact IH].
Qed.
Lemma cframe c c' : ckeys c' = ckeys c -> forall id, cget c' id = cget c id.
Proof. intros E id. rewrite !cget_plook, E. reflexivity. Qed.

Lemma TS_CS c : TS c <-> CS c.
Proof. unfold TS, CS, KS, keys. rewrite map_fst_keys. reflexivity. Qed.

(** [csub]: surviving tasks keep their crash info. *)
Definition csub (c c' : core) : Prop := TS c' /\ forall id a, cget c' id = Some a -> cget c id = Some a.
Lemma csub_frame c c' : TS c -> ckeys c' = ckeys c -> csub c c'.
Proof. intros Hs E. split; [eapply PS_keys; eassumption|]. intros id a. rewrite (cframe _ _ E). auto. Qed.
Lemma csub_trans c1 c2 c3 : csub c1 c2 -> csub c2 c3 -> csub c1 c3.
Proof. intros [_ A] [S B]. split; [exact S|]. intros id a H. apply A, B, H. Qed.
Lemma csub_tasks c c' : TS c -> c_tasks c' = c_tasks c -> csub c c'.
Proof. intros Hs E. split; [unfold TS; rewrite E; exact Hs|]. intros id a. unfold cget. rewrite E. auto. Qed.

(** * Removal *)
Lemma find_del_task ts x id :
  StronglySorted tlt (map t_id ts) -> find_task (del_task ts x) id = if tid_eqb id x then None else find_task ts id.
Proof.
  induction ts as [|h r IH]; cbn [del_task find_task map]; intros Hs; [destruct (tid_eqb id x); reflexivity|].
  inversion Hs as [|? ? Hs' Hall]; subst.
  destruct (tid_eqb x (t_id h)) eqn:E1.
  - apply tid_eqb_eq in E1. subst x. destruct (tid_eqb id (t_id h)) eqn:E2; [|reflexivity].
    apply tid_eqb_eq in E2. subst id. apply find_task_none. intros Hin. rewrite Forall_forall in Hall.
    exact (tlt_irrefl _ (Hall _ Hin)).
  - cbn [find_task]. destruct (tid_eqb id (t_id h)) eqn:E2.
    + apply tid_eqb_eq in E2. subst id. rewrite tid_eqb_sym, E1. reflexivity.
    + apply IH. exact Hs'.
Qed.

Lemma remove_consumer_from_ci deps : forall ts cid ts',
  remove_consumer_from ts deps cid = Ok ts' ->
  forall id, option_map ci (find_task ts' id) = option_map ci (find_task ts id).
Proof.
  induction deps as [|d r IH]; cbn [remove_consumer_from]; intros ts cid ts' H id; [inversion H; reflexivity|].
  destruct (find_task ts d) as [input|] eqn:Ef; [|eapply IH; eassumption].
  destruct (tid_mem cid (t_consumers input)); [|discriminate].
  rewrite (IH _ _ _ H id), find_set_task. cbn [t_id with_consumers].
  destruct (tid_eqb id (t_id input)) eqn:E; [|reflexivity].
  apply tid_eqb_eq in E. destruct (find_task_some _ _ _ Ef) as [_ Hid]. rewrite E, Hid, Ef. reflexivity.
Qed.

Lemma remove_task_csub c id c' stt : TS c -> remove_task c id = Ok (c', stt) -> csub c c'.
Proof.
  intros Hs H. pose proof (remove_task_shrinks _ _ _ _ (proj1 (TS_CS c) Hs) H) as [Sh _].
  split; [apply TS_CS; exact (shr_sorted _ _ _ Sh)|].
  unfold remove_task in H. destruct (find_task (c_tasks c) id) as [t|] eqn:Ef; [|discriminate].
  assert (Hdel : forall x a, option_map ci (find_task (del_task (c_tasks c) id) x) = Some a -> cget c x = Some a).
  { intros x a. rewrite (find_del_task _ _ _ Hs). destruct (tid_eqb x id); [discriminate | auto]. }
  intros x a. unfold cget at 1.
  destruct (t_state t); try (inversion H; subst; apply Hdel).
  apply bind_ok in H. destruct H as (c2 & H2 & H).
  assert (E2 : c_tasks c2 = del_task (c_tasks c) id).
  { destruct (N.eqb unfinished_deps 0); [|inversion H2; reflexivity]. inv_binds H2. inversion H2; reflexivity. }
  destruct (N.ltb 0 unfinished_deps).
  - apply bind_ok in H. destruct H as (ts & Hr & H). inversion H; subst. cbn [c_tasks with_tasks].
    rewrite (remove_consumer_from_ci _ _ _ _ Hr), E2. apply Hdel.
  - inversion H; subst. rewrite E2. apply Hdel.
Qed.

Lemma remove_tasks_batched_csub l : forall c c', TS c -> remove_tasks_batched c l = Ok c' -> csub c c'.
Proof.
  induction l as [|id r IH]; cbn [remove_tasks_batched]; intros c c' Hs H; [inversion H; subst; apply csub_tasks; auto|].
  apply bind_ok in H. destruct H as ([c1 stt] & H1 & H).
  pose proof (remove_task_csub _ _ _ _ Hs H1) as S1. eapply csub_trans; [exact S1 | eapply IH; [exact (proj1 S1) | exact H]].
Qed.

Lemma remove_waiting_consumers_csub l : forall c c', TS c -> remove_waiting_consumers c l = Ok c' -> csub c c'.
Proof.
  induction l as [|id r IH]; cbn [remove_waiting_consumers]; intros c c' Hs H; [inversion H; subst; apply csub_tasks; auto|].
  apply bind_ok in H. destruct H as ([c1 stt] & H1 & H). destruct stt; try discriminate.
  pose proof (remove_task_csub _ _ _ _ Hs H1) as S1. eapply csub_trans; [exact S1 | eapply IH; [exact (proj1 S1) | exact H]].
Qed.

Lemma cancel_release_tasks ids : forall s tu ru s' tu' ru',
  cancel_release s ids tu ru = Ok (s', tu', ru') -> c_tasks (core_of s') = c_tasks (core_of s).
Proof.
  induction ids as [|id r IH]; cbn [cancel_release]; intros s tu ru s' tu' ru' H; [inversion H; reflexivity|].
  destruct (find_task _ id) as [t|]; [|eapply IH; exact H].
  apply bind_ok in H. destruct H as (csm & _ & H). apply bind_ok in H. destruct H as (rq & _ & H).
  destruct (t_state t); try discriminate.
  - rewrite (IH _ _ _ _ _ _ H). reflexivity.
  - inv_binds H. rewrite (IH _ _ _ _ _ _ H). reflexivity.
  - inv_binds H. rewrite (IH _ _ _ _ _ _ H). reflexivity.
  - apply bind_ok in H. destruct H as (c' & Hc' & H). rewrite (IH _ _ _ _ _ _ H). cbn. eapply try_remove_redirection_tasks; exact Hc'.
  - inv_binds H. rewrite (IH _ _ _ _ _ _ H). reflexivity.
  - apply bind_ok in H. destruct H as (c' & Hc' & H). destruct ws; [discriminate|]. rewrite (IH _ _ _ _ _ _ H). cbn. eapply reset_mn_all_tasks; exact Hc'.
Qed.

Lemma on_cancel_tasks_csub s ids s' : TS (core_of s) -> on_cancel_tasks s ids = Ok s' -> csub (core_of s) (core_of s').
Proof.
  intros Hs H. unfold on_cancel_tasks in H.
  apply bind_ok in H. destruct H as ([[s1 tu] ru] & H1 & H). apply bind_ok in H. destruct H as (c' & H2 & H).
  pose proof (cancel_release_tasks _ _ _ _ _ _ _ H1) as E1.
  rewrite (send_all_core _ _ _ H). cbn.
  eapply csub_trans; [apply csub_tasks; [exact Hs | exact E1]|].
  eapply remove_tasks_batched_csub; [unfold TS; rewrite E1; exact Hs | exact H2].
Qed.

(** * Reactor *)
Lemma task_finished_csub s w id s' b : TS (core_of s) -> task_finished s w id = Ok (s', b) -> csub (core_of s) (core_of s').
Proof.
  intros Hs H. unfold task_finished in H.
  destruct (find_task (c_tasks (core_of s)) id) as [t|] eqn:Ef; [|inversion H; subst; apply csub_tasks; auto].
  apply bind_ok in H. destruct H as (rq & _ & H). apply bind_ok in H. destruct H as (c1 & H1 & H).
  assert (Et : c_tasks c1 = c_tasks (core_of s)).
  { destruct (t_state t); try discriminate.
    - destruct (negb (N.eqb w0 w)); [discriminate|]. inv_binds H1. inversion H1; reflexivity.
    - destruct (negb (N.eqb w0 w)); [discriminate|]. eapply try_remove_redirection_tasks; exact H1.
    - destruct (negb (N.eqb w0 w)); [discriminate|]. inv_binds H1. inversion H1; reflexivity.
    - destruct ws; [discriminate|]. destruct (N.eqb w0 w); [|discriminate]. eapply reset_mn_workers_tasks; exact H1. }
  assert (Ek : ckeys c1 = ckeys (core_of s)) by (unfold pkeys; rewrite Et; reflexivity).
  assert (Hs1 : TS c1) by (unfold TS; rewrite Et; exact Hs).
  cbv zeta in H.
  assert (E2 : ckeys (upd_task c1 (with_state t Finished)) = ckeys (core_of s)).
  { rewrite <- Ek. apply (upd_task_pframe _ ci c1 id t); [exact Hs1 | rewrite Et; exact Ef | reflexivity | reflexivity]. }
  apply bind_ok in H. destruct H as (s1 & Hf & H).
  destruct (process_task_finished_active _ _ _ Hf) as [C1 _].
  apply bind_ok in H. destruct H as ([c3 retracted] & Hw & H).
  apply bind_ok in H. destruct H as (s2 & Hr & H).
  apply bind_ok in H. destruct H as ([c4 stt] & Hrm & H).
  destruct stt; try discriminate. inversion H; subst.
  assert (Ks1 : ckeys (core_of s1) = ckeys (core_of s)) by (rewrite C1; exact E2).
  assert (Hss1 : TS (core_of s1)) by (eapply PS_keys; [exact Ks1 | exact Hs]).
  pose proof (wake_consumers_pframe _ ci ci_state _ _ _ _ _ Hss1 Hw) as E3.
  assert (Ks2 : ckeys (core_of s2) = ckeys (core_of s)).
  { pose proof (process_retracted_PK _ ci ci_state (st_core s1 c3) _ _ (PS_keys _ ci _ _ E3 Hss1) Hr) as Kr.
    unfold PK in Kr. rewrite Kr. change (ckeys c3 = ckeys (core_of s)). rewrite E3. exact Ks1. }
  assert (Hss2 : TS (core_of s2)) by (eapply PS_keys; [exact Ks2 | exact Hs]).
  eapply csub_trans; [apply csub_frame; [exact Hs | exact Ks2]|].
  exact (remove_task_csub _ _ _ _ Hss2 Hrm).
Qed.

Lemma process_task_failed_core s t ab k s' ids : process_task_failed s t ab k = Ok (s', ids) -> core_of s' = core_of s.
Proof.
  intros Hc. unfold process_task_failed in Hc.
  apply bind_ok in Hc. destruct Hc as (s1 & H1 & Hc). destruct (abort_tasks_active _ _ _ _ H1) as [C1 _].
  apply bind_ok in Hc. destruct Hc as (j & _ & Hc). apply bind_ok in Hc. destruct Hc as (j1 & _ & Hc).
  apply bind_ok in Hc. destruct Hc as (s2 & H2 & Hc). destruct (check_termination_jt _ _ _ H2) as [C2 _].
  apply bind_ok in Hc. destruct Hc as (j2 & _ & Hc).
  assert (C12 : core_of s2 = core_of s) by (unfold core_same in *; rewrite C2; cbn; exact C1).
  destruct (j_maxfails j2) as [mf|]; [|inversion Hc; subst; exact C12].
  destruct (N.ltb mf (j_nfail j2)); [|inversion Hc; subst; exact C12].
  apply bind_ok in Hc. destruct Hc as (s3 & H3 & Hc). inversion Hc; subst.
  destruct (abort_tasks_active _ _ _ _ H3) as [C3 _]. unfold core_same in *. congruence.
Qed.

Lemma task_failed_csub s w id k s' : TS (core_of s) -> task_failed s w id k = Ok s' -> csub (core_of s) (core_of s').
Proof.
  intros Hs H. unfold task_failed in H.
  destruct (find_task (c_tasks (core_of s)) id) as [t|] eqn:Ef; [|inversion H; subst; apply csub_tasks; auto].
  apply bind_ok in H. destruct H as (rq & _ & H). apply bind_ok in H. destruct H as (c1 & H1 & H).
  assert (Et : c_tasks c1 = c_tasks (core_of s)).
  { destruct w as [wkr|].
    - destruct (rq_is_mn rq).
      + destruct (t_state t); try discriminate. destruct ws as [|w0 ws]; [discriminate|].
        destruct (N.eqb w0 wkr); [|discriminate]. eapply reset_mn_workers_tasks; exact H1.
      + destruct (t_state t); try (inversion H1; reflexivity).
        * destruct (negb (N.eqb wkr w)); [discriminate|]. inv_binds H1. inversion H1; reflexivity.
        * destruct (negb (N.eqb wkr w)); [discriminate|]. inv_binds H1. inversion H1; reflexivity.
        * destruct (negb (N.eqb wkr w)); [discriminate|]. eapply try_remove_redirection_tasks; exact H1.
        * destruct (negb (N.eqb wkr w)); [discriminate|]. inv_binds H1. inversion H1; reflexivity.
    - destruct (is_waiting t); inversion H1; reflexivity. }
  assert (Hs1 : TS c1) by (unfold TS; rewrite Et; exact Hs).
  apply bind_ok in H. destruct H as (csm & _ & H).
  apply bind_ok in H. destruct H as (c2 & H2 & H).
  pose proof (remove_waiting_consumers_csub _ _ _ Hs1 H2) as S2.
  apply bind_ok in H. destruct H as ([c3 stt] & H3 & H).
  pose proof (remove_task_csub _ _ _ _ (proj1 S2) H3) as S3.
  apply bind_ok in H. destruct H as (u & _ & H).
  apply bind_ok in H. destruct H as ([s1 cancel_ids] & H4 & H).
  pose proof (process_task_failed_core _ _ _ _ _ _ H4) as C4. cbn in C4.
  assert (S13 : csub (core_of s) (core_of s1)).
  { rewrite C4. eapply csub_trans; [apply csub_tasks; [exact Hs | exact Et]|]. eapply csub_trans; eassumption. }
  destruct cancel_ids; [inversion H; subst; exact S13|].
  eapply csub_trans; [exact S13 | eapply on_cancel_tasks_csub; [exact (proj1 S13) | exact H]].
Qed.

Lemma apply_updates_csub us : forall s w need s' need',
  TS (core_of s) -> apply_updates s w us need = Ok (s', need') -> csub (core_of s) (core_of s').
Proof.
  induction us as [|u r IH]; cbn [apply_updates]; intros s w need s' need' Hs H; [inversion H; subst; apply csub_tasks; auto|].
  apply bind_ok in H. destruct H as ([s1 n1] & Hu & H).
  assert (S1 : csub (core_of s) (core_of s1)).
  { destruct u.
    - eapply task_finished_csub; eassumption.
    - apply bind_ok in Hu. destruct Hu as (sx & Hf & Hu). inversion Hu; subst. eapply task_failed_csub; eassumption.
    - apply csub_frame; [exact Hs|]. exact (proj1 (task_running_spec_P _ ci ci_state _ _ _ _ _ _ Hs Hu)).
    - apply csub_frame; [exact Hs|]. exact (proj1 (task_running_spec_P _ ci ci_state _ _ _ _ _ _ Hs Hu)).
    - apply csub_frame; [exact Hs|]. exact (task_reject_PK _ ci ci_state _ _ _ _ _ _ Hs Hu).
    - apply bind_ok in Hu. destruct Hu as (sx & Hf & Hu). inversion Hu; subst.
      apply csub_tasks; [exact Hs|]. unfold request_enabled in Hf. inv_binds Hf. inversion Hf; reflexivity. }
  eapply csub_trans; [exact S1 | eapply IH; [exact (proj1 S1) | exact H]].
Qed.

(** * Pointwise facts that need no sortedness *)
Lemma cget_upd c x id : cget (upd_task c x) id = if tid_eqb id (t_id x) then Some (ci x) else cget c id.
Proof. unfold cget, upd_task. cbn. rewrite find_set_task. destruct (tid_eqb id (t_id x)); reflexivity. Qed.

Lemma cget_upd_same c x t : find_task (c_tasks c) (t_id x) = Some t -> ci x = ci t -> forall id, cget (upd_task c x) id = cget c id.
Proof.
  intros Hf Hc id. rewrite cget_upd. destruct (tid_eqb id (t_id x)) eqn:E; [|reflexivity].
  apply tid_eqb_eq in E. subst id. unfold cget. rewrite Hf, Hc. reflexivity.
Qed.

Lemma retract_states_cget ids : forall c acc c' acc', retract_states c ids acc = Ok (c', acc') -> forall id, cget c' id = cget c id.
Proof.
  induction ids as [|i r IH]; cbn [retract_states]; intros c acc c' acc' H id; [inversion H; reflexivity|].
  apply bind_ok in H. destruct H as (t & Ht & H). apply get_task_find in Ht.
  destruct (find_task_some _ _ _ Ht) as [_ Hid].
  destruct (t_state t); try discriminate.
  apply bind_ok in H. destruct H as (wk & _ & H). apply bind_ok in H. destruct H as (wk' & _ & H).
  rewrite (IH _ _ _ _ H id).
  change (cget (upd_task c (with_state t (Retracting w))) id = cget c id).
  apply (cget_upd_same c _ t); [cbn; rewrite Hid; exact Ht | reflexivity].
Qed.

Lemma process_retracted_cget s r s' : process_retracted s r = Ok s' -> forall id, cget (core_of s') id = cget (core_of s) id.
Proof.
  unfold process_retracted. intros H id. destruct r; [inversion H; reflexivity|].
  apply bind_ok in H. destruct H as ([c' groups] & H1 & H). rewrite (send_all_core _ _ _ H). cbn.
  eapply retract_states_cget; exact H1.
Qed.

(** * New tasks: existing tasks keep their crash info *)
Definition cext (c c' : core) : Prop := forall id a, cget c id = Some a -> cget c' id = Some a.

Lemma register_deps_cget deps : forall c id kept count c' kept' count',
  register_deps c id deps kept count = (c', kept', count') -> (forall x, cget c' x = cget c x) /\ c_queues c' = c_queues c.
Proof.
  induction deps as [|d r IH]; cbn [register_deps]; intros c id kept count c' kept' count' H; [inversion H; split; reflexivity|].
  destruct (find_task (c_tasks c) d) as [dep|] eqn:Ef; [|eapply IH; exact H].
  destruct (find_task_some _ _ _ Ef) as [_ Hid].
  destruct (IH _ _ _ _ _ _ _ H) as [I1 I2]. split; [|exact I2].
  intros x. rewrite I1. apply (cget_upd_same c _ dep); [cbn; rewrite Hid; exact Ef | reflexivity].
Qed.

Lemma add_new_tasks_cext ts : forall c ret c' ret', add_new_tasks c ts ret = Ok (c', ret') -> cext c c'.
Proof.
  induction ts as [|t r IH]; cbn [add_new_tasks]; intros c ret c' ret' H; [inversion H; subst; intros id a Ha; exact Ha|].
  destruct (register_deps c (t_id t) (t_deps t) [] 0) as [[c1 kept] count] eqn:Er.
  destruct (register_deps_cget _ _ _ _ _ _ _ _ Er) as [E1 _].
  apply bind_ok in H. destruct H as ([c2 rt] & H2 & H).
  assert (E2 : c_tasks c2 = c_tasks c1).
  { destruct (N.eqb count 0); [|inversion H2; reflexivity]. inv_binds H2. inversion H2; reflexivity. }
  destruct (find_task (c_tasks c2) (t_id t)) eqn:Ef; [discriminate|].
  intros id a Ha. eapply IH; [exact H|]. rewrite cget_upd. cbn [t_id with_state with_deps].
  destruct (tid_eqb id (t_id t)) eqn:E.
  - apply tid_eqb_eq in E. subst id. rewrite <- E1 in Ha. unfold cget in Ha. rewrite <- E2, Ef in Ha. discriminate.
  - unfold cget. rewrite E2. rewrite <- E1 in Ha. exact Ha.
Qed.

Lemma on_new_tasks_cext s ts s' : on_new_tasks s ts = Ok s' -> cext (core_of s) (core_of s').
Proof.
  unfold on_new_tasks. intros H. destruct ts; [inversion H; subst; intros id a Ha; exact Ha|].
  apply bind_ok in H. destruct H as ([c' retracted] & Ha & H). apply bind_ok in H. destruct H as (s1 & Hr & H). inversion H; subst.
  intros id a Hx. change (cget (core_of s1) id = Some a). rewrite (process_retracted_cget _ _ _ Hr). cbn.
  eapply add_new_tasks_cext; eassumption.
Qed.

(** * Worker loss *)
Definition is_run (st : tstate) : Prop := (exists w rv, st = Running w rv) \/ (exists ws, st = RunningMN ws).
Definition was_running (c : core) (id : tid) : Prop := exists t, find_task (c_tasks c) id = Some t /\ is_run (t_state t).

Definition CR (l : list tid) (fail : bool) (c c' : core) : Prop :=
  forall id a', cget c' id = Some a' -> exists a, cget c id = Some a /\ snd a' = snd a /\
    (fst a' = fst a \/ (fst a' = fst a + 1 /\ In id l /\ fail = true)).

Lemma CR_csub l f c c' : csub c c' -> CR l f c c'.
Proof. intros [_ A] id a' H. exists a'. split; [apply A; exact H | split; [reflexivity | left; reflexivity]]. Qed.

Lemma CR_weaken l l' f c c' : incl l l' -> CR l f c c' -> CR l' f c c'.
Proof.
  intros I R id a' H. destruct (R id a' H) as (a & A1 & A2 & A3). exists a. split; [exact A1 | split; [exact A2|]].
  destruct A3 as [A3|(A3 & A4 & A5)]; [left; exact A3 | right; split; [exact A3 | split; [apply I; exact A4 | exact A5]]].
Qed.

Lemma csub_CR l f c1 c2 c3 : csub c1 c2 -> CR l f c2 c3 -> CR l f c1 c3.
Proof.
  intros [_ A] R id a' H. destruct (R id a' H) as (a & A1 & A2 & A3). exists a. split; [apply A; exact A1 | split; [exact A2 | exact A3]].
Qed.

Lemma upd_task_TS c x t : TS c -> find_task (c_tasks c) (t_id x) = Some t -> TS (upd_task c x).
Proof. intros Hs Hf. unfold TS, upd_task. cbn. rewrite (set_task_ids _ _ _ Hs Hf). exact Hs. Qed.

Lemma lost_fail_running_CR l : forall s reason s',
  NoDup l -> TS (core_of s) -> lost_fail_running s reason l = Ok s' ->
  TS (core_of s') /\ CR l (reason_is_failure reason) (core_of s) (core_of s').
Proof.
  induction l as [|id r IH]; cbn [lost_fail_running]; intros s reason s' Hn Hs H.
  - inversion H; subst. split; [exact Hs|]. apply CR_csub. apply csub_tasks; auto.
  - inversion Hn as [|? ? Hni Hnr]; subst.
    assert (Hskip : lost_fail_running s reason r = Ok s' ->
              TS (core_of s') /\ CR (id :: r) (reason_is_failure reason) (core_of s) (core_of s')).
    { intros H0. destruct (IH _ _ _ Hnr Hs H0) as [A B]. split; [exact A|]. eapply CR_weaken; [|exact B]. apply incl_tl, incl_refl. }
    destruct (find_task (c_tasks (core_of s)) id) as [t|] eqn:Ef; [|apply Hskip; exact H].
    destruct (find_task_some _ _ _ Ef) as [_ Hid].
    (* the increment followed by whatever comes next *)
    assert (Hinc : reason_is_failure reason = true -> forall s2,
              csub (upd_task (core_of s) (with_crash t (t_crash t + 1))) (core_of s2) ->
              lost_fail_running s2 reason r = Ok s' ->
              TS (core_of s') /\ CR (id :: r) (reason_is_failure reason) (core_of s) (core_of s')).
    { intros Hf s2 S2 H2. destruct (IH _ _ _ Hnr (proj1 S2) H2) as [A B]. split; [exact A|].
      intros x a' Hx. destruct (B x a' Hx) as (a2 & B1 & B2 & B3).
      apply (proj2 S2) in B1. rewrite cget_upd in B1. cbn [t_id with_crash] in B1.
      destruct (tid_eqb x (t_id t)) eqn:E.
      - apply tid_eqb_eq in E. rewrite Hid in E. subst x. inversion B1; subst a2. cbn in *.
        exists (ci t). split; [unfold cget; rewrite Ef; reflexivity|]. split; [exact B2|].
        destruct B3 as [B3|(_ & B4 & _)]; [|contradiction].
        right. split; [exact B3 | split; [left; reflexivity | exact Hf]].
      - exists a2. split; [exact B1 | split; [exact B2|]].
        destruct B3 as [B3|(B3 & B4 & B5)]; [left; exact B3 | right; split; [exact B3 | split; [right; exact B4 | exact B5]]]. }
    assert (Hs1 : TS (upd_task (core_of s) (with_crash t (t_crash t + 1)))).
    { eapply upd_task_TS; [exact Hs | cbn; rewrite Hid; exact Ef]. }
    destruct (t_climit t) eqn:Ecl.
    + apply bind_ok in H. destruct H as (s1 & Hf & H).
      pose proof (task_failed_csub _ _ _ _ _ Hs Hf) as S1.
      destruct (IH _ _ _ Hnr (proj1 S1) H) as [A B]. split; [exact A|].
      eapply CR_weaken; [apply incl_tl, incl_refl|]. eapply csub_CR; eassumption.
    + destruct (reason_is_failure reason) eqn:Erf; [|apply Hskip; exact H].
      unfold increment_crash_counter in H. rewrite Ecl in H.
      destruct (N.leb n (t_crash (with_crash t (t_crash t + 1)))).
      * apply bind_ok in H. destruct H as (s1 & Hf & H).
        eapply (Hinc eq_refl s1); [|exact H].
        exact (task_failed_csub (st_core s (upd_task (core_of s) (with_crash t (t_crash t + 1)))) _ _ _ _ Hs1 Hf).
      * eapply (Hinc eq_refl); [|exact H]. apply csub_tasks; [exact Hs1 | reflexivity].
    + destruct (reason_is_failure reason) eqn:Erf; [|apply Hskip; exact H].
      unfold increment_crash_counter in H. rewrite Ecl in H.
      eapply (Hinc eq_refl); [|exact H]. apply csub_tasks; [exact Hs1 | reflexivity].
Qed.
