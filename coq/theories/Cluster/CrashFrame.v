(** C07: the crash counter of a task changes ONLY by the crash rule.  For every operation of the
    system model, a task that exists before and after keeps its crash limit, and its crash counter
    is unchanged - except when a worker is lost for a failure reason while the task was running on
    it: then it grows by exactly one. *)
From HQ Require Import Base.Prelude Cluster.Types Cluster.Core Cluster.Reactor Cluster.Worker Cluster.Server Cluster.Sys Cluster.ProofsJob Cluster.ProofsMore Cluster.ProofsTerminal Cluster.ProofsStep Cluster.BijBase Cluster.BijCore Cluster.BijHq Cluster.BijSt Cluster.BijReact Cluster.FrameGen.
From Coq Require Import ZArith Lia Sorting.Sorted.
Local Open Scope N_scope.

Arguments N.add : simpl never.
Arguments N.sub : simpl never.

Definition ci (t : task) : N * crashlimit := (t_crash t, t_climit t).
Lemma ci_state t s : ci (with_state t s) = ci t. Proof. reflexivity. Qed.
Lemma ci_inst t i : ci (with_inst t i) = ci t. Proof. reflexivity. Qed.

Notation ckeys := (pkeys _ ci).
Notation CK := (PK _ ci).

Definition cget (c : core) (id : tid) : option (N * crashlimit) := option_map ci (find_task (c_tasks c) id).

Fixpoint plook (l : list (tid * (N * crashlimit))) (id : tid) : option (N * crashlimit) :=
  match l with [] => None | (k, a) :: r => if tid_eqb id k then Some a else plook r id end.
Lemma cget_plook c id : cget c id = plook (ckeys c) id.
Proof.
  unfold cget, pkeys. induction (c_tasks c) as [|h r IH]; cbn [find_task map plook]; [reflexivity|].
  unfold pkey at 1. destruct (tid_eqb id (t_id h)); [reflexivity | exact IH].
Qed.
Lemma cframe c c' : ckeys c' = ckeys c -> forall id, cget c' id = cget c id.
Proof. intros E id. rewrite !cget_plook, E. reflexivity. Qed.

Lemma TS_CS c : TS c <-> CS c.
Proof. unfold TS, CS, KS, keys. rewrite map_fst_keys. reflexivity. Qed.

(** [csub]: surviving tasks keep their crash info. *)
Definition csub (c c' : core) : Prop := TS c' /\ forall id a, cget c' id = Some a -> cget c id = Some a.
Lemma csub_frame c c' : TS c -> ckeys c' = ckeys c -> csub c c'.
Proof. intros Hs E. split; [eapply PS_keys; eassumption|]. intros id a. rewrite (cframe _ _ E). auto. Qed.
Lemma csub_trans c1 c2 c3 : csub c1 c2 -> csub c2 c3 -> csub c1 c3.
Proof. intros [_ A] [S B]. split; [exact S|]. intros id a H. apply A, B, H. Qed.
Lemma csub_tasks c c' : TS c -> c_tasks c' = c_tasks c -> csub c c'.
Proof. intros Hs E. split; [unfold TS; rewrite E; exact Hs|]. intros id a. unfold cget. rewrite E. auto. Qed.

(** * Removal *)
Lemma find_del_task ts x id :
  StronglySorted tlt (map t_id ts) -> find_task (del_task ts x) id = if tid_eqb id x then None else find_task ts id.
Proof.
  induction ts as [|h r IH]; cbn [del_task find_task map]; intros Hs; [destruct (tid_eqb id x); reflexivity|].
  inversion Hs as [|? ? Hs' Hall]; subst.
  destruct (tid_eqb x (t_id h)) eqn:E1.
  - apply tid_eqb_eq in E1. subst x. destruct (tid_eqb id (t_id h)) eqn:E2; [|reflexivity].
    apply tid_eqb_eq in E2. subst id. apply find_task_none. intros Hin. rewrite Forall_forall in Hall.
    exact (tlt_irrefl _ (Hall _ Hin)).
  - cbn [find_task]. destruct (tid_eqb id (t_id h)) eqn:E2.
    + apply tid_eqb_eq in E2. subst id. rewrite tid_eqb_sym, E1. reflexivity.
    + apply IH. exact Hs'.
Qed.

Lemma remove_consumer_from_ci deps : forall ts cid ts',
  remove_consumer_from ts deps cid = Ok ts' ->
  forall id, option_map ci (find_task ts' id) = option_map ci (find_task ts id).
Proof.
  induction deps as [|d r IH]; cbn [remove_consumer_from]; intros ts cid ts' H id; [inversion H; reflexivity|].
  destruct (find_task ts d) as [input|] eqn:Ef; [|eapply IH; eassumption].
  destruct (tid_mem cid (t_consumers input)); [|discriminate].
  rewrite (IH _ _ _ H id), find_set_task. cbn [t_id with_consumers].
  destruct (tid_eqb id (t_id input)) eqn:E; [|reflexivity].
  apply tid_eqb_eq in E. destruct (find_task_some _ _ _ Ef) as [_ Hid]. rewrite E, Hid, Ef. reflexivity.
Qed.

Lemma remove_task_csub c id c' stt : TS c -> remove_task c id = Ok (c', stt) -> csub c c'.
Proof.
  intros Hs H. pose proof (remove_task_shrinks _ _ _ _ (proj1 (TS_CS c) Hs) H) as [Sh _].
  split; [apply TS_CS; exact (shr_sorted _ _ _ Sh)|].
  unfold remove_task in H. destruct (find_task (c_tasks c) id) as [t|] eqn:Ef; [|discriminate].
  assert (Hdel : forall x a, option_map ci (find_task (del_task (c_tasks c) id) x) = Some a -> cget c x = Some a).
  { intros x a. rewrite (find_del_task _ _ _ Hs). destruct (tid_eqb x id); [discriminate | auto]. }
  intros x a. unfold cget at 1.
  destruct (t_state t); try (inversion H; subst; apply Hdel).
  apply bind_ok in H. destruct H as (c2 & H2 & H).
  assert (E2 : c_tasks c2 = del_task (c_tasks c) id).
  { destruct (N.eqb unfinished_deps 0); [|inversion H2; reflexivity]. inv_binds H2. inversion H2; reflexivity. }
  destruct (N.ltb 0 unfinished_deps).
  - apply bind_ok in H. destruct H as (ts & Hr & H). inversion H; subst. cbn [c_tasks with_tasks].
    rewrite (remove_consumer_from_ci _ _ _ _ Hr), E2. apply Hdel.
  - inversion H; subst. rewrite E2. apply Hdel.
Qed.

Lemma remove_tasks_batched_csub l : forall c c', TS c -> remove_tasks_batched c l = Ok c' -> csub c c'.
Proof.
  induction l as [|id r IH]; cbn [remove_tasks_batched]; intros c c' Hs H; [inversion H; subst; apply csub_tasks; auto|].
  apply bind_ok in H. destruct H as ([c1 stt] & H1 & H).
  pose proof (remove_task_csub _ _ _ _ Hs H1) as S1. eapply csub_trans; [exact S1 | eapply IH; [exact (proj1 S1) | exact H]].
Qed.

Lemma remove_waiting_consumers_csub l : forall c c', TS c -> remove_waiting_consumers c l = Ok c' -> csub c c'.
Proof.
  induction l as [|id r IH]; cbn [remove_waiting_consumers]; intros c c' Hs H; [inversion H; subst; apply csub_tasks; auto|].
  apply bind_ok in H. destruct H as ([c1 stt] & H1 & H). destruct stt; try discriminate.
  pose proof (remove_task_csub _ _ _ _ Hs H1) as S1. eapply csub_trans; [exact S1 | eapply IH; [exact (proj1 S1) | exact H]].
Qed.

Lemma cancel_release_tasks ids : forall s tu ru s' tu' ru',
  cancel_release s ids tu ru = Ok (s', tu', ru') -> c_tasks (core_of s') = c_tasks (core_of s).
Proof.
  induction ids as [|id r IH]; cbn [cancel_release]; intros s tu ru s' tu' ru' H; [inversion H; reflexivity|].
  destruct (find_task _ id) as [t|]; [|eapply IH; exact H].
  apply bind_ok in H. destruct H as (csm & _ & H). apply bind_ok in H. destruct H as (rq & _ & H).
  destruct (t_state t); try discriminate.
  - rewrite (IH _ _ _ _ _ _ H). reflexivity.
  - inv_binds H. rewrite (IH _ _ _ _ _ _ H). reflexivity.
  - inv_binds H. rewrite (IH _ _ _ _ _ _ H). reflexivity.
  - apply bind_ok in H. destruct H as (c' & Hc' & H). rewrite (IH _ _ _ _ _ _ H). cbn. eapply try_remove_redirection_tasks; exact Hc'.
  - inv_binds H. rewrite (IH _ _ _ _ _ _ H). reflexivity.
  - apply bind_ok in H. destruct H as (c' & Hc' & H). destruct ws; [discriminate|]. rewrite (IH _ _ _ _ _ _ H). cbn. eapply reset_mn_all_tasks; exact Hc'.
Qed.

Lemma on_cancel_tasks_csub s ids s' : TS (core_of s) -> on_cancel_tasks s ids = Ok s' -> csub (core_of s) (core_of s').
Proof.
  intros Hs H. unfold on_cancel_tasks in H.
  apply bind_ok in H. destruct H as ([[s1 tu] ru] & H1 & H). apply bind_ok in H. destruct H as (c' & H2 & H).
  pose proof (cancel_release_tasks _ _ _ _ _ _ _ H1) as E1.
  rewrite (send_all_core _ _ _ H). cbn.
  eapply csub_trans; [apply csub_tasks; [exact Hs | exact E1]|].
  eapply remove_tasks_batched_csub; [unfold TS; rewrite E1; exact Hs | exact H2].
Qed.

(** * Reactor *)
Lemma task_finished_csub s w id s' b : TS (core_of s) -> task_finished s w id = Ok (s', b) -> csub (core_of s) (core_of s').
Proof.
  intros Hs H. unfold task_finished in H.
  destruct (find_task (c_tasks (core_of s)) id) as [t|] eqn:Ef; [|inversion H; subst; apply csub_tasks; auto].
  apply bind_ok in H. destruct H as (rq & _ & H). apply bind_ok in H. destruct H as (c1 & H1 & H).
  assert (Et : c_tasks c1 = c_tasks (core_of s)).
  { destruct (t_state t); try discriminate.
    - destruct (negb (N.eqb w0 w)); [discriminate|]. inv_binds H1. inversion H1; reflexivity.
    - destruct (negb (N.eqb w0 w)); [discriminate|]. eapply try_remove_redirection_tasks; exact H1.
    - destruct (negb (N.eqb w0 w)); [discriminate|]. inv_binds H1. inversion H1; reflexivity.
    - destruct ws; [discriminate|]. destruct (N.eqb w0 w); [|discriminate]. eapply reset_mn_workers_tasks; exact H1. }
  assert (Ek : ckeys c1 = ckeys (core_of s)) by (unfold pkeys; rewrite Et; reflexivity).
  assert (Hs1 : TS c1) by (unfold TS; rewrite Et; exact Hs).
  cbv zeta in H.
  assert (E2 : ckeys (upd_task c1 (with_state t Finished)) = ckeys (core_of s)).
  { rewrite <- Ek. apply (upd_task_pframe _ ci c1 id t); [exact Hs1 | rewrite Et; exact Ef | reflexivity | reflexivity]. }
  apply bind_ok in H. destruct H as (s1 & Hf & H).
  destruct (process_task_finished_active _ _ _ Hf) as [C1 _].
  apply bind_ok in H. destruct H as ([c3 retracted] & Hw & H).
  apply bind_ok in H. destruct H as (s2 & Hr & H).
  apply bind_ok in H. destruct H as ([c4 stt] & Hrm & H).
  destruct stt; try discriminate. inversion H; subst.
  assert (Ks1 : ckeys (core_of s1) = ckeys (core_of s)) by (rewrite C1; exact E2).
  assert (Hss1 : TS (core_of s1)) by (eapply PS_keys; [exact Ks1 | exact Hs]).
  pose proof (wake_consumers_pframe _ ci ci_state _ _ _ _ _ Hss1 Hw) as E3.
  assert (Ks2 : ckeys (core_of s2) = ckeys (core_of s)).
  { pose proof (process_retracted_PK _ ci ci_state (st_core s1 c3) _ _ (PS_keys _ ci _ _ E3 Hss1) Hr) as Kr.
    unfold PK in Kr. rewrite Kr. change (ckeys c3 = ckeys (core_of s)). rewrite E3. exact Ks1. }
  assert (Hss2 : TS (core_of s2)) by (eapply PS_keys; [exact Ks2 | exact Hs]).
  eapply csub_trans; [apply csub_frame; [exact Hs | exact Ks2]|].
  exact (remove_task_csub _ _ _ _ Hss2 Hrm).
Qed.

Lemma process_task_failed_core s t ab k s' ids : process_task_failed s t ab k = Ok (s', ids) -> core_of s' = core_of s.
Proof.
  intros Hc. unfold process_task_failed in Hc.
  apply bind_ok in Hc. destruct Hc as (s1 & H1 & Hc). destruct (abort_tasks_active _ _ _ _ H1) as [C1 _].
  apply bind_ok in Hc. destruct Hc as (j & _ & Hc). apply bind_ok in Hc. destruct Hc as (j1 & _ & Hc).
  apply bind_ok in Hc. destruct Hc as (s2 & H2 & Hc). destruct (check_termination_jt _ _ _ H2) as [C2 _].
  apply bind_ok in Hc. destruct Hc as (j2 & _ & Hc).
  assert (C12 : core_of s2 = core_of s) by (unfold core_same in *; rewrite C2; cbn; exact C1).
  destruct (j_maxfails j2) as [mf|]; [|inversion Hc; subst; exact C12].
  destruct (N.ltb mf (j_nfail j2)); [|inversion Hc; subst; exact C12].
  apply bind_ok in Hc. destruct Hc as (s3 & H3 & Hc). inversion Hc; subst.
  destruct (abort_tasks_active _ _ _ _ H3) as [C3 _]. unfold core_same in *. congruence.
Qed.

Lemma task_failed_csub s w id k s' : TS (core_of s) -> task_failed s w id k = Ok s' -> csub (core_of s) (core_of s').
Proof.
  intros Hs H. unfold task_failed in H.
  destruct (find_task (c_tasks (core_of s)) id) as [t|] eqn:Ef; [|inversion H; subst; apply csub_tasks; auto].
  apply bind_ok in H. destruct H as (rq & _ & H). apply bind_ok in H. destruct H as (c1 & H1 & H).
  assert (Et : c_tasks c1 = c_tasks (core_of s)).
  { destruct w as [wkr|].
    - destruct (rq_is_mn rq).
      + destruct (t_state t); try discriminate. destruct ws as [|w0 ws]; [discriminate|].
        destruct (N.eqb w0 wkr); [|discriminate]. eapply reset_mn_workers_tasks; exact H1.
      + destruct (t_state t); try (inversion H1; reflexivity).
        * destruct (negb (N.eqb wkr w)); [discriminate|]. inv_binds H1. inversion H1; reflexivity.
        * destruct (negb (N.eqb wkr w)); [discriminate|]. inv_binds H1. inversion H1; reflexivity.
        * destruct (negb (N.eqb wkr w)); [discriminate|]. eapply try_remove_redirection_tasks; exact H1.
        * destruct (negb (N.eqb wkr w)); [discriminate|]. inv_binds H1. inversion H1; reflexivity.
    - destruct (is_waiting t); inversion H1; reflexivity. }
  assert (Hs1 : TS c1) by (unfold TS; rewrite Et; exact Hs).
  apply bind_ok in H. destruct H as (csm & _ & H).
  apply bind_ok in H. destruct H as (c2 & H2 & H).
  pose proof (remove_waiting_consumers_csub _ _ _ Hs1 H2) as S2.
  apply bind_ok in H. destruct H as ([c3 stt] & H3 & H).
  pose proof (remove_task_csub _ _ _ _ (proj1 S2) H3) as S3.
  apply bind_ok in H. destruct H as (u & _ & H).
  apply bind_ok in H. destruct H as ([s1 cancel_ids] & H4 & H).
  pose proof (process_task_failed_core _ _ _ _ _ _ H4) as C4. cbn in C4.
  assert (S13 : csub (core_of s) (core_of s1)).
  { rewrite C4. eapply csub_trans; [apply csub_tasks; [exact Hs | exact Et]|]. eapply csub_trans; eassumption. }
  destruct cancel_ids; [inversion H; subst; exact S13|].
  eapply csub_trans; [exact S13 | eapply on_cancel_tasks_csub; [exact (proj1 S13) | exact H]].
Qed.

Lemma apply_updates_csub us : forall s w need s' need',
  TS (core_of s) -> apply_updates s w us need = Ok (s', need') -> csub (core_of s) (core_of s').
Proof.
  induction us as [|u r IH]; cbn [apply_updates]; intros s w need s' need' Hs H; [inversion H; subst; apply csub_tasks; auto|].
  apply bind_ok in H. destruct H as ([s1 n1] & Hu & H).
  assert (S1 : csub (core_of s) (core_of s1)).
  { destruct u.
    - eapply task_finished_csub; eassumption.
    - apply bind_ok in Hu. destruct Hu as (sx & Hf & Hu). inversion Hu; subst. eapply task_failed_csub; eassumption.
    - apply csub_frame; [exact Hs|]. exact (proj1 (task_running_spec_P _ ci ci_state _ _ _ _ _ _ Hs Hu)).
    - apply csub_frame; [exact Hs|]. exact (proj1 (task_running_spec_P _ ci ci_state _ _ _ _ _ _ Hs Hu)).
    - apply csub_frame; [exact Hs|]. exact (task_reject_PK _ ci ci_state _ _ _ _ _ _ Hs Hu).
    - apply bind_ok in Hu. destruct Hu as (sx & Hf & Hu). inversion Hu; subst.
      apply csub_tasks; [exact Hs|]. unfold request_enabled in Hf. inv_binds Hf. inversion Hf; reflexivity. }
  eapply csub_trans; [exact S1 | eapply IH; [exact (proj1 S1) | exact H]].
Qed.

(** * Pointwise facts that need no sortedness *)
Lemma cget_upd c x id : cget (upd_task c x) id = if tid_eqb id (t_id x) then Some (ci x) else cget c id.
Proof. unfold cget, upd_task. cbn. rewrite find_set_task. destruct (tid_eqb id (t_id x)); reflexivity. Qed.

Lemma cget_upd_same c x t : find_task (c_tasks c) (t_id x) = Some t -> ci x = ci t -> forall id, cget (upd_task c x) id = cget c id.
Proof.
  intros Hf Hc id. rewrite cget_upd. destruct (tid_eqb id (t_id x)) eqn:E; [|reflexivity].
  apply tid_eqb_eq in E. subst id. unfold cget. rewrite Hf, Hc. reflexivity.
Qed.

Lemma retract_states_cget ids : forall c acc c' acc', retract_states c ids acc = Ok (c', acc') -> forall id, cget c' id = cget c id.
Proof.
  induction ids as [|i r IH]; cbn [retract_states]; intros c acc c' acc' H id; [inversion H; reflexivity|].
  apply bind_ok in H. destruct H as (t & Ht & H). apply get_task_find in Ht.
  destruct (find_task_some _ _ _ Ht) as [_ Hid].
  destruct (t_state t); try discriminate.
  apply bind_ok in H. destruct H as (wk & _ & H). apply bind_ok in H. destruct H as (wk' & _ & H).
  rewrite (IH _ _ _ _ H id).
  change (cget (upd_task c (with_state t (Retracting w))) id = cget c id).
  apply (cget_upd_same c _ t); [cbn; rewrite Hid; exact Ht | reflexivity].
Qed.

Lemma process_retracted_cget s r s' : process_retracted s r = Ok s' -> forall id, cget (core_of s') id = cget (core_of s) id.
Proof.
  unfold process_retracted. intros H id. destruct r; [inversion H; reflexivity|].
  apply bind_ok in H. destruct H as ([c' groups] & H1 & H). rewrite (send_all_core _ _ _ H). cbn.
  eapply retract_states_cget; exact H1.
Qed.

(** * New tasks: existing tasks keep their crash info *)
Definition cext (c c' : core) : Prop := forall id a, cget c id = Some a -> cget c' id = Some a.

Lemma register_deps_cget deps : forall c id kept count c' kept' count',
  register_deps c id deps kept count = (c', kept', count') -> (forall x, cget c' x = cget c x) /\ c_queues c' = c_queues c.
Proof.
  induction deps as [|d r IH]; cbn [register_deps]; intros c id kept count c' kept' count' H; [inversion H; split; reflexivity|].
  destruct (find_task (c_tasks c) d) as [dep|] eqn:Ef; [|eapply IH; exact H].
  destruct (find_task_some _ _ _ Ef) as [_ Hid].
  destruct (IH _ _ _ _ _ _ _ H) as [I1 I2]. split; [|exact I2].
  intros x. rewrite I1. apply (cget_upd_same c _ dep); [cbn; rewrite Hid; exact Ef | reflexivity].
Qed.

Lemma add_new_tasks_cext ts : forall c ret c' ret', add_new_tasks c ts ret = Ok (c', ret') -> cext c c'.
Proof.
  induction ts as [|t r IH]; cbn [add_new_tasks]; intros c ret c' ret' H; [inversion H; subst; intros id a Ha; exact Ha|].
  destruct (register_deps c (t_id t) (t_deps t) [] 0) as [[c1 kept] count] eqn:Er.
  destruct (register_deps_cget _ _ _ _ _ _ _ _ Er) as [E1 _].
  apply bind_ok in H. destruct H as ([c2 rt] & H2 & H).
  assert (E2 : c_tasks c2 = c_tasks c1).
  { destruct (N.eqb count 0); [|inversion H2; reflexivity]. inv_binds H2. inversion H2; reflexivity. }
  destruct (find_task (c_tasks c2) (t_id t)) eqn:Ef; [discriminate|].
  intros id a Ha. eapply IH; [exact H|]. rewrite cget_upd. cbn [t_id with_state with_deps].
  destruct (tid_eqb id (t_id t)) eqn:E.
  - apply tid_eqb_eq in E. subst id. rewrite <- E1 in Ha. unfold cget in Ha. rewrite <- E2, Ef in Ha. discriminate.
  - unfold cget. rewrite E2. rewrite <- E1 in Ha. exact Ha.
Qed.

Lemma on_new_tasks_cext s ts s' : on_new_tasks s ts = Ok s' -> cext (core_of s) (core_of s').
Proof.
  unfold on_new_tasks. intros H. destruct ts; [inversion H; subst; intros id a Ha; exact Ha|].
  apply bind_ok in H. destruct H as ([c' retracted] & Ha & H). apply bind_ok in H. destruct H as (s1 & Hr & H). inversion H; subst.
  intros id a Hx. change (cget (core_of s1) id = Some a). rewrite (process_retracted_cget _ _ _ Hr). cbn.
  eapply add_new_tasks_cext; eassumption.
Qed.

(** * Worker loss *)
Definition is_run (st : tstate) : Prop := (exists w rv, st = Running w rv) \/ (exists ws, st = RunningMN ws).
Definition was_running (c : core) (id : tid) : Prop := exists t, find_task (c_tasks c) id = Some t /\ is_run (t_state t).

Definition CR (l : list tid) (fail : bool) (c c' : core) : Prop :=
  forall id a', cget c' id = Some a' -> exists a, cget c id = Some a /\ snd a' = snd a /\
    (fst a' = fst a \/ (fst a' = fst a + 1 /\ In id l /\ fail = true)).

Lemma CR_csub l f c c' : csub c c' -> CR l f c c'.
Proof. intros [_ A] id a' H. exists a'. split; [apply A; exact H | split; [reflexivity | left; reflexivity]]. Qed.

Lemma CR_weaken l l' f c c' : incl l l' -> CR l f c c' -> CR l' f c c'.
Proof.
  intros I R id a' H. destruct (R id a' H) as (a & A1 & A2 & A3). exists a. split; [exact A1 | split; [exact A2|]].
  destruct A3 as [A3|(A3 & A4 & A5)]; [left; exact A3 | right; split; [exact A3 | split; [apply I; exact A4 | exact A5]]].
Qed.

Lemma csub_CR l f c1 c2 c3 : csub c1 c2 -> CR l f c2 c3 -> CR l f c1 c3.
Proof.
  intros [_ A] R id a' H. destruct (R id a' H) as (a & A1 & A2 & A3). exists a. split; [apply A; exact A1 | split; [exact A2 | exact A3]].
Qed.

Lemma upd_task_TS c x t : TS c -> find_task (c_tasks c) (t_id x) = Some t -> TS (upd_task c x).
Proof. intros Hs Hf. unfold TS, upd_task. cbn. rewrite (set_task_ids _ _ _ Hs Hf). exact Hs. Qed.

Lemma lost_fail_running_CR l : forall s reason s',
  NoDup l -> TS (core_of s) -> lost_fail_running s reason l = Ok s' ->
  TS (core_of s') /\ CR l (reason_is_failure reason) (core_of s) (core_of s').
Proof.
  induction l as [|id r IH]; cbn [lost_fail_running]; intros s reason s' Hn Hs H.
  - inversion H; subst. split; [exact Hs|]. apply CR_csub. apply csub_tasks; auto.
  - inversion Hn as [|? ? Hni Hnr]; subst.
    assert (Hskip : lost_fail_running s reason r = Ok s' ->
              TS (core_of s') /\ CR (id :: r) (reason_is_failure reason) (core_of s) (core_of s')).
    { intros H0. destruct (IH _ _ _ Hnr Hs H0) as [A B]. split; [exact A|]. eapply CR_weaken; [|exact B]. apply incl_tl, incl_refl. }
    destruct (find_task (c_tasks (core_of s)) id) as [t|] eqn:Ef; [|apply Hskip; exact H].
    destruct (find_task_some _ _ _ Ef) as [_ Hid].
    (* the increment followed by whatever comes next *)
    assert (Hinc : reason_is_failure reason = true -> forall s2,
              csub (upd_task (core_of s) (with_crash t (t_crash t + 1))) (core_of s2) ->
              lost_fail_running s2 reason r = Ok s' ->
              TS (core_of s') /\ CR (id :: r) (reason_is_failure reason) (core_of s) (core_of s')).
    { intros Hf s2 S2 H2. destruct (IH _ _ _ Hnr (proj1 S2) H2) as [A B]. split; [exact A|].
      intros x a' Hx. destruct (B x a' Hx) as (a2 & B1 & B2 & B3).
      apply (proj2 S2) in B1. rewrite cget_upd in B1. cbn [t_id with_crash] in B1.
      destruct (tid_eqb x (t_id t)) eqn:E.
      - apply tid_eqb_eq in E. rewrite Hid in E. subst x. inversion B1; subst a2. cbn in *.
        exists (ci t). split; [unfold cget; rewrite Ef; reflexivity|]. split; [exact B2|].
        destruct B3 as [B3|(_ & B4 & _)]; [|contradiction].
        right. split; [exact B3 | split; [left; reflexivity | exact Hf]].
      - exists a2. split; [exact B1 | split; [exact B2|]].
        destruct B3 as [B3|(B3 & B4 & B5)]; [left; exact B3 | right; split; [exact B3 | split; [right; exact B4 | exact B5]]]. }
    assert (Hs1 : TS (upd_task (core_of s) (with_crash t (t_crash t + 1)))).
    { eapply upd_task_TS; [exact Hs | cbn; rewrite Hid; exact Ef]. }
    destruct (t_climit t) eqn:Ecl.
    + apply bind_ok in H. destruct H as (s1 & Hf & H).
      pose proof (task_failed_csub _ _ _ _ _ Hs Hf) as S1.
      destruct (IH _ _ _ Hnr (proj1 S1) H) as [A B]. split; [exact A|].
      eapply CR_weaken; [apply incl_tl, incl_refl|]. eapply csub_CR; eassumption.
    + destruct (reason_is_failure reason) eqn:Erf; [|apply Hskip; exact H].
      unfold increment_crash_counter in H. rewrite Ecl in H.
      destruct (N.leb n (t_crash (with_crash t (t_crash t + 1)))).
      * apply bind_ok in H. destruct H as (s1 & Hf & H).
        eapply (Hinc eq_refl s1); [|exact H].
        exact (task_failed_csub (st_core s (upd_task (core_of s) (with_crash t (t_crash t + 1)))) _ _ _ _ Hs1 Hf).
      * eapply (Hinc eq_refl); [|exact H]. apply csub_tasks; [exact Hs1 | reflexivity].
    + destruct (reason_is_failure reason) eqn:Erf; [|apply Hskip; exact H].
      unfold increment_crash_counter in H. rewrite Ecl in H.
      eapply (Hinc eq_refl); [|exact H]. apply csub_tasks; [exact Hs1 | reflexivity].
Qed.

(** The tasks handed to the crash rule were running, and each is listed once. *)
Definition Rinv (c0 c : core) : Prop :=
  forall id t', find_task (c_tasks c) id = Some t' -> is_run (t_state t') ->
    exists t, find_task (c_tasks c0) id = Some t /\ t_state t = t_state t'.

Lemma Rinv_upd c0 c x t :
  Rinv c0 c -> find_task (c_tasks c) (t_id x) = Some t -> (is_run (t_state x) -> t_state x = t_state t) -> Rinv c0 (upd_task c x).
Proof.
  intros R Hf Hx id t' Hf' Hr. unfold upd_task in Hf'. cbn in Hf'. rewrite find_set_task in Hf'.
  destruct (tid_eqb id (t_id x)) eqn:E.
  - inversion Hf'; subst t'. apply tid_eqb_eq in E. subst id. destruct (R _ _ Hf) as (t0 & A & B); [rewrite <- (Hx Hr); exact Hr|].
    exists t0. split; [exact A | rewrite B; symmetry; apply Hx; exact Hr].
  - apply R; assumption.
Qed.

Lemma not_run_waiting n : ~ is_run (Waiting n).
Proof. intros [(w & rv & H)|(ws & H)]; discriminate. Qed.

Lemma lost_prefilled_Rinv c0 l : forall c c', Rinv c0 c -> lost_prefilled c l = Ok c' -> Rinv c0 c'.
Proof.
  induction l as [|id r IH]; cbn [lost_prefilled]; intros c c' R H; [inversion H; subst; exact R|].
  apply bind_ok in H. destruct H as (t & Ht & H). apply get_task_find in Ht. destruct (find_task_some _ _ _ Ht) as [_ Hid].
  apply bind_ok in H. destruct H as (q & _ & H). apply bind_ok in H. destruct H as (q' & _ & H).
  eapply IH; [|exact H].
  change (Rinv c0 (upd_task c (with_state (with_inst t (t_inst t + 1)) (Waiting 0)))) .
  eapply Rinv_upd; [exact R | cbn; rewrite Hid; exact Ht | intros Hr; exfalso; exact (not_run_waiting _ Hr)].
Qed.

Lemma lost_assigned_running c0 l : forall c running ret c' running' ret',
  Rinv c0 c -> NoDup running ->
  (forall x, In x running -> was_running c0 x /\ forall t, find_task (c_tasks c) x = Some t -> ~ is_run (t_state t)) ->
  lost_assigned c l running ret = Ok (c', running', ret') ->
  NoDup running' /\ forall x, In x running' -> was_running c0 x.
Proof.
  induction l as [|id r IH]; cbn [lost_assigned]; intros c running ret c' running' ret' R Hn Hr H.
  - inversion H; subst. split; [exact Hn | intros x Hx; apply Hr; exact Hx].
  - apply bind_ok in H. destruct H as (t & Ht & H). apply get_task_find in Ht. destruct (find_task_some _ _ _ Ht) as [_ Hid].
    apply bind_ok in H. destruct H as ([[c1 t1] running1] & H1 & H). apply bind_ok in H. destruct H as ([qs rt] & _ & H).
    (* what the case analysis yields *)
    assert (Hc : c_tasks c1 = c_tasks c /\ t_id t1 = t_id t /\ ~ is_run (t_state t1) /\
                 (running1 = running \/ (running1 = running ++ [id] /\ is_run (t_state t)))).
    { destruct (t_state t) eqn:Est; try (inversion H1; subst; repeat split; try reflexivity; [apply not_run_waiting | left; reflexivity]).
      - destruct (find_redirect _ id); inversion H1; subst. repeat split; try reflexivity; [|left; reflexivity].
        rewrite Est. intros [(w0 & rv & E)|(ws & E)]; discriminate.
      - inversion H1; subst. repeat split; try reflexivity; [apply not_run_waiting|].
        right. split; [reflexivity|]. left. eauto. }
    destruct Hc as (Et & Ei & Hnr & Hrun).
    set (c2 := upd_task c1 (with_inst t1 (t_inst t1 + 1))) in *.
    assert (R1 : Rinv c0 c1) by (intros x t' Hx; rewrite Et in Hx; apply R; exact Hx).
    assert (R2 : Rinv c0 c2).
    { eapply Rinv_upd; [exact R1 | cbn; rewrite Ei, Hid, Et; exact Ht | intros Hx; exfalso; apply Hnr; exact Hx]. }
    assert (Hfind2 : forall x, find_task (c_tasks c2) x = if tid_eqb x id then Some (with_inst t1 (t_inst t1 + 1)) else find_task (c_tasks c) x).
    { intros x. unfold c2, upd_task. cbn. rewrite find_set_task. cbn. rewrite Ei, Hid, Et. reflexivity. }
    eapply (IH (with_queues c2 qs)); [exact R2 | | | exact H].
    + destruct Hrun as [->|[-> Hrt]]; [exact Hn|].
      rewrite <- (app_nil_r (running ++ [id])), <- app_assoc. cbn.
      (* id is running now, the collected ones are not *)
      assert (~ In id running) as Hni by (intros Hin; destruct (Hr _ Hin) as [_ Hx]; exact (Hx _ Ht Hrt)).
      clear -Hn Hni. induction running as [|h tl IHr]; cbn; [constructor; [intros [] | constructor]|].
      inversion Hn; subst. constructor.
      * rewrite in_app_iff. cbn. intros [X|[X|[]]]; [contradiction | subst; apply Hni; left; reflexivity].
      * apply IHr; [assumption | intros X; apply Hni; right; exact X].
    + intros x Hx. cbn [c_tasks with_queues]. rewrite Hfind2.
      destruct Hrun as [->|[-> Hrt]].
      * destruct (Hr _ Hx) as [A B]. split; [exact A|]. intros tx. destruct (tid_eqb x id); [intros E; inversion E; subst; exact Hnr | apply B].
      * apply in_app_iff in Hx. destruct Hx as [Hx|[<-|[]]].
        -- destruct (Hr _ Hx) as [A B]. split; [exact A|]. intros tx. destruct (tid_eqb x id); [intros E; inversion E; subst; exact Hnr | apply B].
        -- split.
           ++ destruct (R _ _ Ht Hrt) as (t0 & A & B). exists t0. split; [exact A | rewrite B; exact Hrt].
           ++ intros tx. rewrite tid_eqb_refl. intros E; inversion E; subst; exact Hnr.
Qed.

Definition LR (fail : bool) (c c' : core) : Prop :=
  forall id a', cget c' id = Some a' -> exists a, cget c id = Some a /\ snd a' = snd a /\
    (fst a' = fst a \/ (fst a' = fst a + 1 /\ fail = true /\ was_running c id)).

Lemma Rinv_refl c : Rinv c c.
Proof. intros id t' H _. eauto. Qed.

Lemma on_remove_worker_LR s w reason a p t s' :
  TS (core_of s) -> on_remove_worker s w reason a p t = Ok s' -> LR (reason_is_failure reason) (core_of s) (core_of s').
Proof.
  intros Hs H. unfold on_remove_worker in H.
  destruct (find_worker _ w) as [wk|]; [|discriminate].
  apply bind_ok in H. destruct H as ([[c2 running] retracted] & Hr & H).
  set (c0 := with_workers (core_of s) (del_worker (c_workers (core_of s)) w)) in *.
  assert (Hs0 : TS c0) by exact Hs.
  assert (E2 : ckeys c2 = ckeys (core_of s) /\ NoDup running /\ forall x, In x running -> was_running (core_of s) x).
  { destruct (w_assign wk).
    - destruct (negb _); [discriminate|]. apply bind_ok in Hr. destruct Hr as (c1 & Hp & Hr).
      pose proof (lost_prefilled_pframe _ ci ci_state ci_inst _ _ _ Hs0 Hp) as E1.
      split; [rewrite (lost_assigned_pframe _ ci ci_state ci_inst _ _ _ _ _ _ _ (PS_keys _ ci _ _ E1 Hs0) Hr); exact E1|].
      eapply (lost_assigned_running c0 _ c1 [] []); [eapply lost_prefilled_Rinv; [apply Rinv_refl | exact Hp] | constructor | intros x [] | exact Hr].
    - apply bind_ok in Hr. destruct Hr as (tk & Ht & Hr). apply get_task_find in Ht.
      destruct (t_state tk) eqn:Est; try discriminate. destruct ws as [|w0 rest]; [discriminate|].
      destruct (N.eqb w w0).
      + apply bind_ok in Hr. destruct Hr as (c1 & Hc1 & Hr). apply bind_ok in Hr. destruct Hr as ([qs ret] & _ & Hr).
        inversion Hr; subst.
        pose proof (reset_mn_all_tasks _ _ _ Hc1) as T1. split; [|split].
        * change (ckeys (upd_task c1 (with_inst (with_state tk (Waiting 0)) (t_inst tk + 1))) = ckeys (core_of s)).
          transitivity (ckeys c1); [|unfold pkeys; rewrite T1; reflexivity].
          apply (upd_task_pframe _ ci c1 t0 tk); [unfold TS; rewrite T1; exact Hs0 | rewrite T1; exact Ht | reflexivity | reflexivity].
        * constructor; [intros [] | constructor].
        * intros x [<-|[]]. exists tk. split; [exact Ht|]. right. rewrite Est. eauto.
      + inversion Hr; subst. split; [|split; [constructor | intros x []]].
        apply (upd_task_pframe _ ci c0 t0 tk); [exact Hs0 | exact Ht | reflexivity | reflexivity]. }
  destruct E2 as (E2 & Hnd & Hrun).
  destruct (negb (perm_of_set t _)); [discriminate|].
  apply bind_ok in H. destruct H as (s3 & H3 & H). apply bind_ok in H. destruct H as (s4 & H4 & H).
  apply bind_ok in H. destruct H as (s6 & H6 & H). apply bind_ok in H. destruct H as (s7 & H7 & H). inversion H; subst.
  match type of H3 with lost_retracting ?sx _ _ = _ => set (s2 := sx) in * end.
  assert (Hs2 : TS (core_of s2)) by (eapply PS_keys; [exact E2 | exact Hs]).
  pose proof (lost_retracting_PK _ ci ci_state ci_inst _ _ _ _ Hs2 H3) as K3. unfold PK in K3.
  assert (Hs3 : TS (core_of s3)) by (eapply PS_keys; [exact K3 | exact Hs2]).
  pose proof (process_retracted_PK _ ci ci_state _ _ _ Hs3 H4) as K4. unfold PK in K4.
  assert (Hs4 : TS (core_of s4)) by (eapply PS_keys; [exact K4 | exact Hs3]).
  destruct (process_worker_lost_active _ _ _ _ _ H6) as [C6 _]. unfold core_same in C6.
  assert (K6 : ckeys (core_of s6) = ckeys (core_of s)).
  { rewrite C6. change (ckeys (core_of s4) = ckeys (core_of s)). rewrite K4, K3. exact E2. }
  assert (Hs6 : TS (core_of s6)) by (eapply PS_keys; [exact K6 | exact Hs]).
  destruct (lost_fail_running_CR _ _ _ _ Hnd Hs6 H7) as [_ R7].
  intros id a' Ha. change (cget (core_of s7) id = Some a') in Ha.
  destruct (R7 id a' Ha) as (a0 & A1 & A2 & A3). rewrite (cframe _ _ K6) in A1.
  exists a0. split; [exact A1 | split; [exact A2|]].
  destruct A3 as [A3|(A3 & A4 & A5)]; [left; exact A3 | right; split; [exact A3 | split; [exact A5 | apply Hrun; exact A4]]].
Qed.

(** * Submits *)
Lemma get_or_create_rq_tasks s r : c_tasks (core_of (fst (get_or_create_rq s r))) = c_tasks (core_of s).
Proof. unfold get_or_create_rq. destruct (rq_index _ r 0); reflexivity. Qed.

Lemma cext_refl c : cext c c. Proof. intros id a H; exact H. Qed.
Lemma cext_tasks c c' : c_tasks c' = c_tasks c -> cext c c'.
Proof. intros E id a. unfold cget. rewrite E. auto. Qed.
Lemma cext_trans c1 c2 c3 : cext c1 c2 -> cext c2 c3 -> cext c1 c3.
Proof. intros A B id a H. apply B, A, H. Qed.

Lemma submit_tail_cext s4 jid ids tasks s' :
  (do j <- hq_get_job s4 jid 222;
   do j' <- attach_ids j ids;
   do s6 <- on_new_tasks (hq_set_job s4 j') tasks;
   submit_ok_resp s6 jid) = Ok s' -> cext (core_of s4) (core_of s').
Proof.
  intros H. apply bind_ok in H. destruct H as (j & _ & H). apply bind_ok in H. destruct H as (j' & _ & H).
  apply bind_ok in H. destruct H as (s6 & H6 & H).
  unfold submit_ok_resp in H. apply bind_ok in H. destruct H as (jx & _ & H). inversion H; subst.
  exact (on_new_tasks_cext _ _ _ H6).
Qed.

Lemma handle_submit_array_cext s jobsel ids entries rq prio cl tlim mf s' :
  handle_submit_array s jobsel ids entries rq prio cl tlim mf = Ok s' -> cext (core_of s) (core_of s').
Proof.
  intros H. unfold handle_submit_array in H.
  match type of H with (match ?x with Some _ => _ | None => _ end) = _ => destruct x end; [inversion H; subst; apply cext_refl|].
  apply bind_ok in H. destruct H as ([acc s1] & Hr & H).
  assert (E1 : core_of s1 = core_of s).
  { destruct jobsel as [jid|]; [|inversion Hr; reflexivity].
    destruct (find_job (hq_jobs s) jid) as [j|]; [|inversion Hr; subst; reflexivity].
    destruct (negb (j_open j)); inversion Hr; subst; reflexivity. }
  destruct acc as [[[jid is_new] ids']|].
  - cbv zeta in H.
    match type of H with context [get_or_create_rq ?sx rq] => set (s3 := sx) in *; destruct (get_or_create_rq s3 rq) as [s4 rqi] eqn:Erq end.
    pose proof (get_or_create_rq_tasks s3 rq) as T4. rewrite Erq in T4. cbn [fst] in T4.
    assert (T3 : c_tasks (core_of s3) = c_tasks (core_of s)) by (subst s3; destruct is_new; (transitivity (c_tasks (core_of s1)); [reflexivity | rewrite E1; reflexivity])).
    eapply cext_trans; [apply cext_tasks; rewrite T4; exact T3 | eapply submit_tail_cext; exact H].
  - apply cext_tasks.
    destruct jobsel; [match type of H with (match ?x with Some _ => _ | None => _ end) = _ => destruct x end|];
      injection H as Hx; rewrite <- Hx; (transitivity (c_tasks (core_of s1)); [reflexivity | rewrite E1; reflexivity]).
Qed.

Lemma fold_rqs_tasks rqs : forall s l s4 rqis,
  fold_left (fun acc r => let '(s, l) := acc in let '(s', i) := get_or_create_rq s r in (s', l ++ [i])) rqs (s, l) = (s4, rqis) ->
  c_tasks (core_of s4) = c_tasks (core_of s).
Proof.
  induction rqs as [|r rest IH]; cbn [fold_left]; intros s l s4 rqis H; [inversion H; reflexivity|].
  destruct (get_or_create_rq s r) as [s1 i] eqn:E. rewrite (IH _ _ _ _ H).
  pose proof (get_or_create_rq_tasks s r) as T. rewrite E in T. exact T.
Qed.

Lemma handle_submit_graph_cext s jobsel rqs ts mf s' :
  handle_submit_graph s jobsel rqs ts mf = Ok s' -> cext (core_of s) (core_of s').
Proof.
  intros H. unfold handle_submit_graph in H.
  apply bind_ok in H. destruct H as (v1 & _ & H).
  match type of H with (match ?x with Some _ => _ | None => _ end) = _ => destruct x end; [inversion H; subst; apply cext_refl|].
  apply bind_ok in H. destruct H as ([acc s1] & Hr & H).
  assert (E1 : core_of s1 = core_of s).
  { destruct jobsel as [jid|]; [|inversion Hr; reflexivity].
    destruct (find_job (hq_jobs s) jid) as [j|]; [|inversion Hr; subst; reflexivity].
    destruct (negb (j_open j)); inversion Hr; subst; reflexivity. }
  destruct acc as [[jid is_new]|].
  - cbv zeta in H.
    match type of H with context [fold_left ?f rqs (?sx, [])] => set (s3 := sx) in *; destruct (fold_left f rqs (s3, [])) as [s4 rqis] eqn:Erq end.
    pose proof (fold_rqs_tasks _ _ _ _ _ Erq) as T4.
    assert (T3 : c_tasks (core_of s3) = c_tasks (core_of s)) by (subst s3; destruct is_new; (transitivity (c_tasks (core_of s1)); [reflexivity | rewrite E1; reflexivity])).
    apply bind_ok in H. destruct H as (j & Hj & H). apply bind_ok in H. destruct H as (j' & Ha & H).
    apply bind_ok in H. destruct H as (tasks & Hg & H).
    eapply cext_trans; [apply cext_tasks; rewrite T4; exact T3|].
    eapply (submit_tail_cext s4 jid (map gt_id ts) tasks). rewrite Hj. cbn [bind]. rewrite Ha. cbn [bind]. exact H.
  - inversion H; subst. apply cext_tasks. rewrite E1. reflexivity.
Qed.

(** * One step of the whole system *)
Definition lost_failure (o : op) : bool :=
  match o with OpLost _ reason _ _ _ => reason_is_failure reason | _ => false end.

Lemma LR_csub f c c' : csub c c' -> LR f c c'.
Proof. intros [_ A] id a' H. exists a'. split; [apply A; exact H | split; [reflexivity | left; reflexivity]]. Qed.

Theorem crash_rule_step s o s' outs :
  TS (s_core s) -> step s o = Ok (s', outs) ->
  forall id t t', find_task (c_tasks (s_core s)) id = Some t -> find_task (c_tasks (s_core s')) id = Some t' ->
    t_climit t' = t_climit t /\
    (t_crash t' = t_crash t \/ (t_crash t' = t_crash t + 1 /\ lost_failure o = true /\ is_run (t_state t))).
Proof.
  intros Hs H id t t' Hf Hf'.
  (* every operation is one of: survivors keep their info / old tasks keep their info / the crash rule *)
  assert (Hcases : csub (s_core s) (s_core s') \/ cext (s_core s) (s_core s') \/ LR (lost_failure o) (s_core s) (s_core s')).
  { change (s_core s') with (core_of (s', outs)). change (s_core s) with (core_of (s, @nil out)) in *.
    destruct o; cbn [step] in H.
    - right. left. apply cext_tasks. unfold on_new_worker in H. inversion H; subst. reflexivity.
    - right. right. destruct (find_proc _ w); [|discriminate]. eapply on_remove_worker_LR; [exact Hs | exact H].
    - destruct (bad_submit_lengths _ _); [inversion H; subst; right; left; apply cext_tasks; reflexivity|]. right. left. eapply handle_submit_array_cext; exact H.
    - destruct (bad_graph_rq _ _); [inversion H; subst; right; left; apply cext_tasks; reflexivity|]. destruct (dead_dep _ _ _); [inversion H; subst; right; left; apply cext_tasks; reflexivity|]. right. left. eapply handle_submit_graph_cext; exact H.
    - right. left. apply cext_tasks. unfold handle_open in H. inversion H; subst. reflexivity.
    - right. left. apply cext_tasks. unfold handle_close in H.
      destruct (find_job _ j) as [jb|]; [|inversion H; subst; reflexivity].
      destruct (j_open jb); [|inversion H; subst; reflexivity].
      apply bind_ok in H. destruct H as (s1 & H1 & H). inversion H; subst.
      destruct (check_termination_jt _ _ _ H1) as [C1 _]. unfold core_same in C1. change (c_tasks (core_of s1) = c_tasks (core_of (s, []))). rewrite C1. reflexivity.
    - left. unfold handle_cancel in H. destruct (find_job _ j) as [jb|]; [|inversion H; subst; apply csub_tasks; auto].
      destruct (non_finished_task_ids jb) eqn:En; [inversion H; subst; apply csub_tasks; auto|]. rewrite <- En in H.
      apply bind_ok in H. destruct H as (s1 & H1 & H). apply bind_ok in H. destruct H as (al & _ & H).
      apply bind_ok in H. destruct H as (s2 & H2 & H). inversion H; subst.
      destruct (set_cancel_state_active _ _ _ _ H2) as [C2 _]. unfold core_same in C2.
      change (csub (core_of (s, [])) (core_of s2)). rewrite C2. eapply on_cancel_tasks_csub; [exact Hs | exact H1].
    - right. left. apply cext_tasks. unfold handle_forget in H. destruct (find_job _ j) as [jb|]; [|inversion H; subst; reflexivity].
      apply bind_ok in H. destruct H as (na & _ & H). destruct (negb (j_open jb) && na); inversion H; subst; reflexivity.
    - right. left. apply cext_tasks. destruct (find_proc _ w) as [p|]; [|discriminate]. destruct (p_down p); [discriminate|].
      inv_binds H. inversion H; subst. reflexivity.
    - destruct (find_proc _ w) as [p|]; [|discriminate]. destruct (p_up p) as [|m rest]; [discriminate|]. destruct m.
      + left. unfold on_task_update in H. apply bind_ok in H. destruct H as ([s1 need] & Hu & H).
        match type of Hu with apply_updates ?s0 _ _ _ = _ => pose proof (apply_updates_csub _ s0 _ _ _ _ Hs Hu) as S1 end.
        destruct (need && _); inversion H; subst; exact S1.
      + left. match type of H with on_retract_response ?s0 _ _ = _ =>
          pose proof (on_retract_response_PK _ ci ci_state s0 _ _ _ Hs H) as E end.
        apply csub_frame; [exact Hs | exact E].
    - destruct (c_flag (s_core s)); [|discriminate]. left.
      apply csub_frame; [exact Hs | exact (run_scheduling_PK _ ci ci_state _ _ _ Hs H)].
    - right. left. apply cext_tasks. destruct (find_proc _ w) as [p|]; [|discriminate]. inv_binds H. inversion H; subst. reflexivity.
    - right. left. apply cext_tasks. destruct (find_proc _ w) as [p|]; [|discriminate]. inversion H; subst. reflexivity.
    - right. left. apply cext_tasks. inversion H; subst. reflexivity.
    - right. left. apply cext_tasks. inv_binds H. inversion H; subst. reflexivity. }
  assert (Ha : cget (s_core s) id = Some (ci t)) by (unfold cget; rewrite Hf; reflexivity).
  assert (Ha' : cget (s_core s') id = Some (ci t')) by (unfold cget; rewrite Hf'; reflexivity).
  destruct Hcases as [[_ S]|[S|S]].
  - apply S in Ha'. rewrite Ha in Ha'. inversion Ha'. split; [congruence | left; congruence].
  - apply S in Ha. rewrite Ha' in Ha. inversion Ha. split; [congruence | left; congruence].
  - destruct (S _ _ Ha') as (a0 & A1 & A2 & A3). rewrite Ha in A1. inversion A1; subst a0. cbn in A2, A3.
    split; [exact A2|]. destruct A3 as [A3|(A3 & A4 & (t0 & B1 & B2))]; [left; exact A3|].
    right. split; [exact A3 | split; [exact A4|]]. rewrite Hf in B1. inversion B1; subst. exact B2.
Qed.

(** For every reachable state. *)
From HQ Require Import Cluster.ProofsFinal Cluster.BijFinal.

Theorem crash_counter_rule ops o reserve maxfill s outs s' outs' :
  Forall op_wf ops -> run (init_sys reserve maxfill) ops = Ok (s, outs) -> step s o = Ok (s', outs') ->
  forall id t t', find_task (c_tasks (s_core s)) id = Some t -> find_task (c_tasks (s_core s')) id = Some t' ->
    t_climit t' = t_climit t /\
    (t_crash t' = t_crash t \/ (t_crash t' = t_crash t + 1 /\ lost_failure o = true /\ is_run (t_state t))).
Proof.
  intros Hwf Hr Hst.
  assert (HC0 : CB (init_sys reserve maxfill, [])).
  { constructor; [constructor | intros id cs x [] | ]. intros x. split; [intros [] | intros (l & Hl & _); discriminate]. }
  assert (Hok0 : HOK (s_hq (init_sys reserve maxfill))) by (intros j []).
  assert (F0 : fresh (init_sys reserve maxfill, [])) by (intros j []).
  pose proof (run_CB _ _ _ _ Hok0 F0 Hwf HC0 Hr) as HC.
  eapply crash_rule_step; [|exact Hst]. apply TS_CS. exact (cb_s _ HC).
Qed.

(** Non-vacuity: a task running on a worker that is lost for a failure reason. *)
Definition crash_rq : rqdef := mkRq 0 [10000; 0; 0].
Definition crash_ops : list op :=
  [OpConnect [20000; 0; 0] 0;
   OpSubmit None [] None crash_rq 0%Z (CMax 3) false None;
   OpSched (mkSol [(0, 0, [(1, 1)])] [] [1] []);
   OpDDown 1 []; OpDDown 1 []; OpDUp 1].
Definition crash_last : op := OpLost 1 1 [(1, 0)] [] [(1, 0)].

Lemma crash_example : Forall op_wf crash_ops /\ exists s outs s' outs' t t',
  run (init_sys 0 2) crash_ops = Ok (s, outs) /\ step s crash_last = Ok (s', outs') /\
  find_task (c_tasks (s_core s)) (1, 0) = Some t /\ find_task (c_tasks (s_core s')) (1, 0) = Some t' /\
  t_state t = Running 1 0 /\ t_crash t = 0 /\ t_crash t' = 1.
Proof.
  split; [repeat constructor|].
  do 6 eexists. split; [vm_compute; reflexivity|]. split; [vm_compute; reflexivity|].
  split; [vm_compute; reflexivity|]. split; [vm_compute; reflexivity|]. repeat split; reflexivity.
Qed.
