(** C14 / C03, "tasks are aborted only with a cause", part 7: every operation, every history.

    [step_SF]: the facts about one operation from a state with the proved invariants ([INV]):
    the clean form [AC] of its outputs; a step that aborts a task answers no submit; how the jobs'
    failure counters move; the monitor's dependency entries keep covering the dependency lists of
    the core ([KD]); the driver's table of known ids keeps describing the jobs ([KNOK]).
    [run_ispec]: along every history the item list satisfies the clean form [ispec] w.r.t. the
    monitor's accumulators, hence ([aj_sound]) the monitor accepts it. *)
From HQ Require Import Base.Prelude Cluster.Types Cluster.Core Cluster.Reactor Cluster.Worker Cluster.Server Cluster.Sys Cluster.Monitors Cluster.ProofsJob Cluster.ProofsMore Cluster.ProofsTerminal Cluster.ProofsStep Cluster.ProofsFinal Cluster.BijBase Cluster.BijCore Cluster.BijHq Cluster.BijSt Cluster.BijReact Cluster.BijFinal Cluster.ProofsOnce Cluster.StartFinBase Cluster.RejHyp Cluster.InvQStep Cluster.InvDBase Cluster.InvDSpec Cluster.InvDRem Cluster.InvDNew Cluster.InvDStep Cluster.InvAll Cluster.InvBundle Cluster.DepOrderBase Cluster.DepOrderReact Cluster.DepOrderStep Cluster.DepOrderSubmit Cluster.DepOrderRun Cluster.DepOrderJournal Cluster.AbortCauseBase Cluster.AbortCauseJob Cluster.AbortCauseReact Cluster.AbortCauseStep Cluster.AbortCauseSubmit Cluster.AbortCauseItems.
From Coq Require Import ZArith Lia.
Local Open Scope N_scope.

Arguments N.add : simpl never.
Arguments N.sub : simpl never.

(** The driver's table describes the jobs of the state. *)
Definition KNOK (kn : list (N * list N)) (s : sys) : Prop :=
  (forall k j, find_job (h_jobs (s_hq s)) k = Some j -> forall i, n_mem i (kn_get kn k) = true <-> jt_find (j_tasks j) i <> None)
  /\ (forall k, h_counter (s_hq s) <= k -> kn_get kn k = []).

Record SF (kn : list (N * list N)) (s : sys) (o : op) (s' : sys) (outs : list out) : Prop := mkSF {
  sf_ac : AC (s, []) outs;
  sf_ns : terminal_ids outs = [] \/ NS outs;
  sf_jobs : forall k j', find_job (h_jobs (s_hq s')) k = Some j' ->
      (exists j, find_job (h_jobs (s_hq s)) k = Some j /\ j_maxfails j' = j_maxfails j /\ j_nfail j' = j_nfail j + onfailed k outs)
      \/ (h_counter (s_hq s) <= k /\ j_nfail j' = 0);
  sf_cnt : h_counter (s_hq s) <= h_counter (s_hq s');
  sf_fail : forall k, onfailed k outs <> 0 -> find_job (h_jobs (s_hq s)) k <> None;
  sf_kd : KNOK kn s -> forall D, KD s D -> KD s' (jdeps D (items_of_stepK (kn_get kn) o outs));
  sf_kn : KNOK kn s -> KNOK (kn_upd kn outs) s'
}.

Lemma kn_upd_NS outs : NS outs -> forall kn, kn_upd kn outs = kn.
Proof.
  unfold kn_upd. induction outs as [|x r IH]; intros Hn kn; [reflexivity|].
  unfold NS in Hn. cbn [forallb] in Hn. apply andb_true_iff in Hn. destruct Hn as [H1 H2]. cbn [fold_left].
  destruct x as [e|l|rs| | | |]; cbn [kn_upd1]; try (apply IH; exact H2).
  destruct rs; try (apply IH; exact H2). discriminate.
Qed.

Lemma AC_quiet s ext : terminal_ids ext = [] -> AC s ext.
Proof.
  intros Hq pre ts post x E Hx. exfalso.
  assert (Hin : In x (terminal_ids ext)).
  { rewrite E, terminal_ids_app, tids_cons. apply in_app_iff. right. apply in_app_iff. left. exact Hx. }
  rewrite Hq in Hin. destruct Hin.
Qed.

Lemma onfailed_quiet k ext : terminal_ids ext = [] -> onfailed k ext = 0.
Proof.
  induction ext as [|o r IH]; intros H; [reflexivity|]. destruct (terminal_ids_nil_cons _ _ H) as [H1 H2].
  cbn [onfailed]. rewrite (IH H2). destruct o as [e| | | | | |]; try reflexivity. destruct e; try reflexivity. discriminate.
Qed.

(** * From the three kinds of steps *)
Lemma SF_plain kn s o s' outs : PLAIN s s' outs -> SF kn s o s' outs.
Proof.
  intros [J C S]. constructor.
  - exact C.
  - right. exact (je_ns _ _ _ J).
  - intros k j' H. left. destruct (je_old _ _ _ J k j' H) as (j & A & B & _ & D). exists j. split; [exact A|]. split; [exact B | exact D].
  - pose proof (je_cnt _ _ _ J) as E. unfold cnt_of, hq_of in E. cbn [fst] in E. rewrite E. lia.
  - exact (je_fail _ _ _ J).
  - intros _ D HD. rewrite (items_NS _ _ _ (je_ns _ _ _ J)). eapply KD_dsub; eassumption.
  - intros [K1 K2]. rewrite (kn_upd_NS _ (je_ns _ _ _ J)). split.
    + intros k j' H i. destruct (je_old _ _ _ J k j' H) as (j & A & _ & Sm & _). rewrite (K1 _ _ A i).
      specialize (Sm i). split; intros X Y; apply X; apply Sm; exact Y.
    + intros k Hk. apply K2. pose proof (je_cnt _ _ _ J) as E. unfold cnt_of, hq_of in E. cbn [fst] in E. rewrite <- E. exact Hk.
Qed.

Lemma SF_reject kn s o s' outs : REJECT s s' outs -> SF kn s o s' outs.
Proof.
  intros [Eh Et (a & b & ->)]. constructor.
  - apply AC_NA. reflexivity.
  - right. reflexivity.
  - intros k j' H. rewrite Eh in H. left. exists j'. split; [exact H|]. split; [reflexivity|]. cbn [onfailed ofailed1]. lia.
  - rewrite Eh. lia.
  - intros k H. exfalso. apply H. reflexivity.
  - intros _ D HD. unfold items_of_stepK. cbn [flat_map item_of_outK app jdeps]. eapply KD_dsub; [apply dsub_tasks; exact Et | exact HD].
  - intros [K1 K2]. unfold kn_upd. cbn [fold_left kn_upd1].
    split; [intros k j H; rewrite Eh in H; exact (K1 _ _ H) | intros k Hk; rewrite Eh in Hk; exact (K2 _ Hk)].
Qed.

Lemma kn_get_cons j ids kn k : kn_get ((j, ids) :: kn) k = if N.eqb j k then ids else kn_get kn k.
Proof. unfold kn_get. cbn [find fst]. destruct (N.eqb j k); reflexivity. Qed.

Lemma SF_accept kn s o jid ids tasks s' outs :
  fresh (s, []) -> ACCEPT s jid ids tasks s' outs ->
  (KNOK kn s -> forall D, KD s D -> KD s' (jdeps D (items_of_stepK (kn_get kn) o outs))) ->
  SF kn s o s' outs.
Proof.
  intros F (j & j' & ev & n & A) Hkd.
  pose proof (ac_outs _ _ _ _ _ _ _ _ _ _ A) as Eo. pose proof (ac_evq _ _ _ _ _ _ _ _ _ _ A) as Hev.
  destruct ev; try destruct Hev.
  assert (Hq : terminal_ids outs = []) by (rewrite Eo; reflexivity).
  destruct (attach_ids_facts _ _ _ (ac_attach _ _ _ _ _ _ _ _ _ _ A)) as (_ & _ & Am & An & _).
  constructor.
  - apply AC_quiet. exact Hq.
  - left. exact Hq.
  - intros k jk H. rewrite (onfailed_quiet _ _ Hq). destruct (N.eq_dec k jid) as [->|Hne].
    + rewrite (ac_new _ _ _ _ _ _ _ _ _ _ A) in H. inversion H; subst jk.
      destruct (ac_src _ _ _ _ _ _ _ _ _ _ A) as [Hs|(Hc & _ & Hn & _)].
      * left. exists j. split; [exact Hs|]. split; [exact Am | lia].
      * right. split; [lia | congruence].
    + rewrite (ac_other _ _ _ _ _ _ _ _ _ _ A _ Hne) in H. left. exists jk. split; [exact H|]. split; [reflexivity | lia].
  - exact (ac_cnt _ _ _ _ _ _ _ _ _ _ A).
  - intros k H. exfalso. apply H. apply onfailed_quiet. exact Hq.
  - exact Hkd.
  - intros [K1 K2]. rewrite Eo. unfold kn_upd. cbn [fold_left kn_upd1].
    assert (Hlt : jid < h_counter (s_hq s')).
    { destruct (ac_src _ _ _ _ _ _ _ _ _ _ A) as [Hs|(Hc & _ & _ & Hlt)]; [|lia].
      pose proof (F _ (find_job_in _ _ _ Hs)) as Hl. rewrite (find_job_id _ _ _ Hs) in Hl. unfold cnt_of, hq_of in Hl. cbn [fst] in Hl.
      pose proof (ac_cnt _ _ _ _ _ _ _ _ _ _ A). lia. }
    split.
    + intros k jk H i. rewrite kn_get_cons. destruct (N.eqb jid k) eqn:E.
      * apply N.eqb_eq in E. subst k. rewrite (ac_new _ _ _ _ _ _ _ _ _ _ A) in H. inversion H; subst jk.
        rewrite n_mem_in, jt_find_dom. tauto.
      * apply N.eqb_neq in E. rewrite (ac_other _ _ _ _ _ _ _ _ _ _ A k) in H by congruence. apply K1. exact H.
    + intros k Hk. rewrite kn_get_cons. destruct (N.eqb jid k) eqn:E; [apply N.eqb_eq in E; lia|].
      apply K2. pose proof (ac_cnt _ _ _ _ _ _ _ _ _ _ A). lia.
Qed.

Lemma SF_open kn s mf s' outs : handle_open (s, []) mf = Ok (s', outs) -> SF kn s (OpOpen mf) s' outs.
Proof.
  intros H. destruct (handle_open_jobs _ _ _ _ H) as (Hj & Hc & Hco & Eo). cbv zeta in Hj, Hc, Eo. subst outs.
  constructor.
  - apply AC_NA. reflexivity.
  - left. reflexivity.
  - intros k j' Hk. rewrite Hj in Hk. destruct (N.eqb k (h_counter (s_hq s))) eqn:E.
    + apply N.eqb_eq in E. inversion Hk; subst. right. split; [lia | reflexivity].
    + left. exists j'. split; [exact Hk|]. split; [reflexivity|]. cbn [onfailed ofailed1]. lia.
  - rewrite Hc. lia.
  - intros k Hk. exfalso. apply Hk. reflexivity.
  - intros _ D HD. unfold items_of_stepK. cbn [flat_map item_of_outK app jdeps].
    eapply KD_dsub; [apply dsub_tasks; rewrite Hco; reflexivity | exact HD].
  - intros [K1 K2]. unfold kn_upd. cbn [fold_left kn_upd1]. split.
    + intros k j' Hk i. rewrite Hj in Hk. destruct (N.eqb k (h_counter (s_hq s))) eqn:E.
      * apply N.eqb_eq in E. inversion Hk; subst. rewrite (K2 (h_counter (s_hq s))) by lia. cbn [n_mem j_tasks jt_find].
        split; [discriminate | intros X; exfalso; apply X; reflexivity].
      * apply K1. exact Hk.
    + intros k Hk. apply K2. lia.
Qed.

(** * Every operation *)
Theorem step_SF kn s o s' outs : INV s -> op_wf o -> step s o = Ok (s', outs) -> SF kn s o s' outs.
Proof.
  intros HI Hwf H. destruct (is_creating o) eqn:Ec; [|apply SF_plain; eapply step_plain; eassumption].
  assert (P : PRE (s, [])) by (split; [exact (inv_d _ HI) | exact (inv_dj _ HI)]).
  pose proof (inv_fresh _ HI) as F. pose proof (inv_cb _ HI) as HC.
  destruct o; try discriminate Ec; cbn [step] in H.
  - (* array submit *)
    destruct (bad_submit_lengths _ _); [inversion H; subst; apply SF_reject; constructor; [reflexivity | reflexivity | eauto]|].
    assert (Hwf' : match entries with Some n => (length ids <= N.to_nat n)%nat | None => True end) by (destruct entries; exact Hwf).
    destruct (submit_array_AR s _ _ _ _ _ _ _ _ _ _ F P Hwf' H) as [R|(jid & ids' & tasks & A & Ht)]; [apply SF_reject; exact R|].
    eapply SF_accept; [exact F | exact A|]. intros [K1 K2] D HD.
    eapply (KD_accept_array (kn_get kn) s _ jid ids' tasks s' outs D); [exact I | exact F | exact HC | exact A | exact Ht | | exact HD].
    intros j0 j0' ev n A0 i. destruct (ac_src _ _ _ _ _ _ _ _ _ _ A0) as [Hs|(Hc & Hnil & _)].
    + apply K1. exact Hs.
    + rewrite (K2 jid) by lia. rewrite Hnil. cbn [n_mem jt_find]. split; [discriminate | intros X; exfalso; apply X; reflexivity].
  - (* task-graph submit *)
    destruct (bad_graph_rq _ _); [inversion H; subst; apply SF_reject; constructor; [reflexivity | reflexivity | eauto]|]. destruct (dead_dep _ _ _); [inversion H; subst; apply SF_reject; constructor; [reflexivity | reflexivity | eauto]|].
    destruct (submit_graph_AR s _ _ _ _ _ _ F P H) as [R|(jid & tasks & A & Ht)]; [apply SF_reject; exact R|].
    eapply SF_accept; [exact F | exact A|]. intros _ D HD.
    eapply KD_accept_graph; [exact F | exact HC | exact A | exact Ht | exact HD].
  - (* open *)
    apply SF_open. exact H.
Qed.

(** * Histories *)
Definition FC (s : sys) (F : list (N * N)) : Prop :=
  forall k j, find_job (h_jobs (s_hq s)) k = Some j -> fcount F k = j_nfail j.
Definition FK (s : sys) (F : list (N * N)) : Prop := forall k, h_counter (s_hq s) <= k -> fcount F k = 0.
(** [L] knows the failure limit of every job of the state. *)
Definition LIMOK (L : list (N * N)) (s : sys) : Prop :=
  forall k j m, find_job (h_jobs (s_hq s)) k = Some j -> j_maxfails j = Some m -> lget L k = Some m.

Lemma run_ispec L ops : forall kn s D F s' items,
  along INV s ops -> along (LIMOK L) s ops -> Forall op_wf ops ->
  KNOK kn s -> KD s D -> FC s F -> FK s F ->
  run_items' kn s ops = Ok (s', items) -> ispec L D F items.
Proof.
  induction ops as [|o r IH]; cbn [run_items']; intros kn s D F s' items Hal Hlim Hwf HK HD HFC HFK H.
  - inversion H; subst. intros pre ts post E. destruct pre; discriminate.
  - apply bind_ok in H. destruct H as ([s1 o1] & H1 & H). apply bind_ok in H. destruct H as ([s2 i2] & H2 & H). inversion H; subst s' items. clear H.
    inversion Hwf as [|? ? Hw1 Hw2]; subst. cbn [along] in Hal, Hlim. destruct Hal as [HI Hal]. destruct Hlim as [HL Hlim]. rewrite H1 in Hal, Hlim.
    pose proof (step_SF kn _ _ _ _ HI Hw1 H1) as SFx.
    set (i1 := items_of_stepK (kn_get kn) o o1) in *.
    pose proof (inv_fresh _ HI) as Fr.
    assert (Hnof : forall k, h_counter (s_hq s) <= k -> onfailed k o1 = 0).
    { intros k Hk. destruct (N.eq_dec (onfailed k o1) 0) as [Z|NZ]; [exact Z|]. exfalso.
      pose proof (sf_fail _ _ _ _ _ SFx k NZ) as Hex. destruct (find_job (h_jobs (s_hq s)) k) as [jk|] eqn:Ek; [|congruence].
      pose proof (Fr _ (find_job_in _ _ _ Ek)) as Hlt. rewrite (find_job_id _ _ _ Ek) in Hlt. unfold cnt_of, hq_of in Hlt. cbn [fst] in Hlt. lia. }
    intros ipre ts ipost E t Ht. destruct (app_decomp _ _ _ _ _ E) as [(m & Em & Ep)|(m & Em & Ep)].
    + (* the abort is an event of this step *)
      destruct (flat_map_decomp _ _ (item_single (kn_get kn) o) _ _ _ Em) as (pre & x & post & Eo & Ex & Epre & Epost).
      apply item_ev in Ex. subst x.
      assert (Hns : NS pre).
      { destruct (sf_ns _ _ _ _ _ SFx) as [Hq|Hn]; [|rewrite Eo in Hn; exact (NS_app_l _ _ Hn)].
        exfalso. assert (Hin : In t (terminal_ids o1)).
        { rewrite Eo, terminal_ids_app, tids_cons. apply in_app_iff. right. apply in_app_iff. left. exact Ht. }
        rewrite Hq in Hin. destruct Hin. }
      destruct (sf_ac _ _ _ _ _ SFx pre ts post t Eo Ht) as [(tx & d & A & B & C)|(j & mf & A & B & C)].
      * left. destruct (HD _ _ A) as (ds & Hf & Hi). exists ds, d. split; [|split; [apply Hi; exact B|]].
        -- rewrite <- Epre. fold (items_of_stepK (kn_get kn) o pre). rewrite (items_NS _ _ _ Hns). exact Hf.
        -- destruct C as [C|(k & post' & ->)]; [left; exact C|]. right.
           exists k, (items_of_stepK (kn_get kn) o post' ++ i2). rewrite Ep, <- Epost. reflexivity.
      * right. exists mf. split; [exact (HL _ _ _ A B)|].
        rewrite fcount_afails, <- Epre. fold (items_of_stepK (kn_get kn) o pre). rewrite infailed_items, (HFC _ _ A). exact C.
    + (* later *)
      subst ipre. rewrite jdeps_app, afails_app.
      refine (IH (kn_upd kn o1) s1 (jdeps D i1) (afails F i1) s2 i2 Hal Hlim Hw2 _ _ _ _ H2 m ts ipost Ep t Ht).
      * exact (sf_kn _ _ _ _ _ SFx HK).
      * exact (sf_kd _ _ _ _ _ SFx HK D HD).
      * intros k j' Hj'. rewrite fcount_afails. unfold i1. rewrite infailed_items.
        destruct (sf_jobs _ _ _ _ _ SFx k j' Hj') as [(j & A & _ & B)|[A B]].
        -- rewrite (HFC _ _ A). lia.
        -- rewrite (HFK _ A), (Hnof _ A). lia.
      * intros k Hk. rewrite fcount_afails. unfold i1. rewrite infailed_items.
        pose proof (sf_cnt _ _ _ _ _ SFx) as Hc. rewrite (HFK k) by lia. rewrite (Hnof k) by lia. reflexivity.
Qed.

Print Assumptions step_SF.
Print Assumptions run_ispec.
