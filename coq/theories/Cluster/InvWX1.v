(** Two further facts of every reachable state, part 1:
      MNE - no task is [RunningMN []];   RWA - the worker of a [Retracting w] task is connected.
    Technique: a relation [Rm c c' L] between the core before and after a function - every task of
    [c'] has the id and state of a task of [c], or a state that is fine in [c'] ("okst"), or its id
    is in [L] (multi-node placements of the running scheduling round); connected workers stay
    connected.  No invariant is needed for the relation; this file covers the reactor. *)
From HQ Require Import Base.Prelude Cluster.Types Cluster.Core Cluster.Reactor Cluster.Worker Cluster.Server Cluster.Sys Cluster.ProofsJob Cluster.ProofsMore Cluster.ProofsStep Cluster.BijBase Cluster.BijCore Cluster.BijHq Cluster.BijSt Cluster.InvWBase.
From Coq Require Import ZArith Lia Sorting.Sorted.
Local Open Scope N_scope.

Arguments N.add : simpl never.
Arguments N.sub : simpl never.

Definition MNE (c : core) : Prop := forall t, In t (c_tasks c) -> t_state t <> RunningMN [].
Definition RWA (c : core) : Prop :=
  forall t w, In t (c_tasks c) -> t_state t = Retracting w -> exists wk, find_worker (c_workers c) w = Some wk.

Definition okst (c : core) (s : tstate) : Prop :=
  match s with
  | RunningMN ws => ws <> [] /\ NoDup ws
  | Retracting w => find_worker (c_workers c) w <> None
  | _ => True
  end.
Definition MND (c : core) : Prop := forall t ws, In t (c_tasks c) -> t_state t = RunningMN ws -> NoDup ws.
Definition J (c : core) : Prop := forall t, In t (c_tasks c) -> okst c (t_state t).

Lemma J_MNE_RWA c : J c <-> MNE c /\ RWA c /\ MND c.
Proof.
  split.
  - intros H. split; [|split].
    + intros t Hin E. specialize (H t Hin). rewrite E in H. apply H. reflexivity.
    + intros t w Hin E. specialize (H t Hin). rewrite E in H. cbn in H.
      destruct (find_worker (c_workers c) w) as [wk|]; [eauto | congruence].
    + intros t ws Hin E. specialize (H t Hin). rewrite E in H. apply H.
  - intros (H1 & H2 & H3) t Hin. destruct (t_state t) as [n|w rv|w|w|w rv|ws|] eqn:E; cbn; try exact I.
    + destruct (H2 t w Hin E) as (wk & ->). discriminate.
    + split; [intros ->; exact (H1 t Hin E) | exact (H3 t ws Hin E)].
Qed.

Definition Dm (c c' : core) : Prop := forall w, find_worker (c_workers c) w <> None -> find_worker (c_workers c') w <> None.
Definition Tm (c c' : core) (L : list tid) : Prop :=
  forall t', In t' (c_tasks c') ->
    (exists t, In t (c_tasks c) /\ t_id t = t_id t' /\ t_state t = t_state t') \/ okst c' (t_state t') \/
    (In (t_id t') L /\ exists ws, t_state t' = RunningMN ws /\ NoDup ws).
Definition Rm (c c' : core) (L : list tid) : Prop := Tm c c' L /\ Dm c c'.
Notation R c c' := (Rm c c' []).

Lemma okst_Dm c c' s : Dm c c' -> okst c s -> okst c' s.
Proof. intros D. destruct s; cbn; auto. Qed.

Lemma Rm_refl c L : Rm c c L.
Proof. split; [|intros w H; exact H]. intros t Hin. left. exists t. auto. Qed.

Lemma Rm_trans c1 c2 c3 L L' : Rm c1 c2 L -> Rm c2 c3 L' -> Rm c1 c3 (L ++ L').
Proof.
  intros [T1 D1] [T2 D2]. split; [|intros w H; apply D2, D1, H].
  intros t3 H3. destruct (T2 t3 H3) as [(t2 & H2 & Ei & Es)|[Ho|Hl]].
  - destruct (T1 t2 H2) as [(t1 & H1 & Ei1 & Es1)|[Ho|Hl]].
    + left. exists t1. split; [exact H1|]. split; congruence.
    + right. left. rewrite <- Es. eapply okst_Dm; eassumption.
    + right. right. destruct Hl as [Hl Hws]. split; [apply in_app_iff; left; rewrite <- Ei; exact Hl | rewrite <- Es; exact Hws].
  - right. left. exact Ho.
  - right. right. destruct Hl as [Hl Hws]. split; [apply in_app_iff; right; exact Hl | exact Hws].
Qed.

Lemma R_trans c1 c2 c3 : R c1 c2 -> R c2 c3 -> R c1 c3.
Proof. intros A B. exact (Rm_trans _ _ _ [] [] A B). Qed.

Lemma Rm_weaken c c' L L' : incl L L' -> Rm c c' L -> Rm c c' L'.
Proof.
  intros I [T D]. split; [|exact D]. intros t H. destruct (T t H) as [X|[X|[X Y]]]; auto.
Qed.

Lemma J_Rm c c' L : J c -> Rm c c' L -> forall t, In t (c_tasks c') ->
  okst c' (t_state t) \/ (In (t_id t) L /\ exists ws, t_state t = RunningMN ws /\ NoDup ws).
Proof.
  intros HJ [T D] t Hin. destruct (T t Hin) as [(t0 & H0 & _ & Es)|[X|X]]; auto.
  left. rewrite <- Es. eapply okst_Dm; [exact D | apply HJ; exact H0].
Qed.

Lemma J_R c c' : J c -> R c c' -> J c'.
Proof. intros HJ HR t Hin. destruct (J_Rm _ _ _ HJ HR t Hin) as [X|[[] _]]. exact X. Qed.

(** * Building blocks *)
Lemma find_set_worker_keep ws k w : find_worker ws w <> None -> find_worker (set_worker ws k) w <> None.
Proof. rewrite find_set_worker. destruct (N.eqb w (w_id k)); [discriminate | auto]. Qed.

Lemma Dm_eq c c' : c_workers c' = c_workers c -> Dm c c'.
Proof. intros E w. rewrite E. auto. Qed.
Lemma Dm_set1 c c' k : c_workers c' = set_worker (c_workers c) k -> Dm c c'.
Proof. intros E w H. rewrite E. apply find_set_worker_keep. exact H. Qed.
Lemma Dm_set2 c c' k1 k2 : c_workers c' = set_worker (set_worker (c_workers c) k1) k2 -> Dm c c'.
Proof. intros E w H. rewrite E. apply find_set_worker_keep, find_set_worker_keep. exact H. Qed.
Ltac dm := first [apply Dm_eq; reflexivity | eapply Dm_set1; reflexivity | eapply Dm_set2; reflexivity].

Lemma set_task_in ts x t : In t (set_task ts x) -> t = x \/ In t ts.
Proof.
  induction ts as [|h r IH]; cbn [set_task In]; [intros [H|[]]; auto|].
  destruct (tid_eqb (t_id x) (t_id h)); cbn [In]; [intros [H|H]; auto|].
  destruct (tid_ltb (t_id x) (t_id h)); cbn [In]; [intros [H|[H|H]]; auto|].
  intros [H|H]; [auto|]. destruct (IH H); auto.
Qed.

Lemma del_task_in ts id t : In t (del_task ts id) -> In t ts.
Proof.
  induction ts as [|h r IH]; cbn [del_task In]; [auto|].
  destruct (tid_eqb id (t_id h)); [auto|]. cbn [In]. intros [H|H]; auto.
Qed.

(** Tasks unchanged. *)
Lemma R_tasks c c' : c_tasks c' = c_tasks c -> Dm c c' -> R c c'.
Proof. intros E D. split; [|exact D]. intros t H. left. exists t. rewrite <- E. auto. Qed.

(** One task set to a state that is fine. *)
Lemma R_set_ok c c' x : c_tasks c' = set_task (c_tasks c) x -> Dm c c' -> okst c (t_state x) -> R c c'.
Proof.
  intros E D Ho. split; [|exact D]. intros t H. rewrite E in H. destruct (set_task_in _ _ _ H) as [->|Hin].
  - right. left. eapply okst_Dm; eassumption.
  - left. exists t. auto.
Qed.

(** One task updated without changing id and state. *)
Lemma R_set_same c c' x t : c_tasks c' = set_task (c_tasks c) x -> Dm c c' -> In t (c_tasks c) ->
  t_id x = t_id t -> t_state x = t_state t -> R c c'.
Proof.
  intros E D Hin Ei Es. split; [|exact D]. intros t' H. rewrite E in H. destruct (set_task_in _ _ _ H) as [->|Hin'].
  - left. exists t. auto.
  - left. exists t'. auto.
Qed.

Lemma find_in ts id t : find_task ts id = Some t -> In t ts.
Proof. intros H. apply (find_task_some _ _ _ H). Qed.

Lemma get_worker_ne ws w wk : get_worker ws w = Ok wk -> find_worker ws w <> None.
Proof. unfold get_worker. destruct (find_worker ws w); [discriminate | intros H; inversion H]. Qed.

(** * Reactor *)
Lemma retract_states_R ids : forall c acc c' acc', retract_states c ids acc = Ok (c', acc') -> R c c'.
Proof.
  induction ids as [|id r IH]; cbn [retract_states]; intros c acc c' acc' H; [inversion H; subst; apply Rm_refl|].
  apply bind_ok in H. destruct H as (t & Ht & H).
  destruct (t_state t) eqn:Est; try discriminate.
  apply bind_ok in H. destruct H as (wk & Hw & H). apply bind_ok in H. destruct H as (wk' & _ & H).
  eapply R_trans; [|eapply IH; exact H].
  eapply (R_set_ok _ _ (with_state t (Retracting w))); [reflexivity | dm | cbn; eapply get_worker_ne; exact Hw].
Qed.

Lemma process_retracted_R s r s' : process_retracted s r = Ok s' -> R (core_of s) (core_of s').
Proof.
  unfold process_retracted. intros H. destruct r; [inversion H; subst; apply Rm_refl|].
  apply bind_ok in H. destruct H as ([c' groups] & H1 & H). rewrite (send_all_core _ _ _ H).
  eapply retract_states_R; exact H1.
Qed.

Lemma try_remove_redirection_R c t c' : try_remove_redirection c t = Ok c' -> R c c'.
Proof.
  unfold try_remove_redirection. destruct (find_redirect _ _) as [[w rv]|]; intros H; inv_binds H; inversion H; subst;
    (apply R_tasks; [reflexivity | dm]).
Qed.

Lemma reset_mn_workers_R ws : forall c id c', reset_mn_workers c ws id = Ok c' -> R c c'.
Proof.
  induction ws as [|w r IH]; cbn [reset_mn_workers]; intros c id c' H; [inversion H; subst; apply Rm_refl|].
  apply bind_ok in H. destruct H as (wk & _ & H). destruct (w_assign wk); [discriminate|].
  destruct (tid_eqb t id); [|discriminate]. eapply R_trans; [|eapply IH; exact H]. apply R_tasks; [reflexivity | dm].
Qed.

Lemma reset_mn_all_R ws : forall c c', reset_mn_all c ws = Ok c' -> R c c'.
Proof.
  induction ws as [|w r IH]; cbn [reset_mn_all]; intros c c' H; [inversion H; subst; apply Rm_refl|].
  apply bind_ok in H. destruct H as (wk & _ & H). eapply R_trans; [|eapply IH; exact H]. apply R_tasks; [reflexivity | dm].
Qed.

Lemma cancel_release_R ids : forall s tu ru s' tu' ru', cancel_release s ids tu ru = Ok (s', tu', ru') -> R (core_of s) (core_of s').
Proof.
  induction ids as [|id r IH]; cbn [cancel_release]; intros s tu ru s' tu' ru' H; [inversion H; subst; apply Rm_refl|].
  destruct (find_task (c_tasks (core_of s)) id) as [t|]; [|eapply IH; exact H].
  apply bind_ok in H. destruct H as (csm & _ & H). apply bind_ok in H. destruct H as (rq & _ & H).
  destruct (t_state t).
  - eapply R_trans; [|eapply IH; exact H]. apply R_tasks; [reflexivity | dm].
  - inv_binds H. eapply R_trans; [|eapply IH; exact H]. apply R_tasks; [reflexivity | dm].
  - inv_binds H. eapply R_trans; [|eapply IH; exact H]. apply R_tasks; [reflexivity | dm].
  - apply bind_ok in H. destruct H as (c' & Hc' & H). eapply R_trans; [|eapply IH; exact H].
    eapply R_trans; [eapply try_remove_redirection_R; exact Hc'|]. apply R_tasks; [reflexivity | dm].
  - inv_binds H. eapply R_trans; [|eapply IH; exact H]. apply R_tasks; [reflexivity | dm].
  - apply bind_ok in H. destruct H as (c' & Hc' & H). destruct ws; [discriminate|]. eapply R_trans; [|eapply IH; exact H].
    eapply R_trans; [eapply reset_mn_all_R; exact Hc'|]. apply R_tasks; [reflexivity | dm].
  - discriminate.
Qed.

Lemma remove_consumer_from_T deps : forall ts cid ts', remove_consumer_from ts deps cid = Ok ts' ->
  forall t', In t' ts' -> exists t, In t ts /\ t_id t = t_id t' /\ t_state t = t_state t'.
Proof.
  induction deps as [|d r IH]; cbn [remove_consumer_from]; intros ts cid ts' H t' Hin; [inversion H; subst; eauto|].
  destruct (find_task ts d) as [input|] eqn:Ef; [|eapply IH; eassumption].
  destruct (tid_mem cid (t_consumers input)); [|discriminate].
  destruct (IH _ _ _ H t' Hin) as (t1 & H1 & Ei & Es).
  destruct (set_task_in _ _ _ H1) as [->|Hin1]; [|eauto].
  exists input. split; [eapply find_in; exact Ef | auto].
Qed.

Lemma remove_task_R c id c' stt : remove_task c id = Ok (c', stt) -> R c c'.
Proof.
  intros H. unfold remove_task in H. destruct (find_task (c_tasks c) id) as [t|]; [|discriminate].
  assert (R0 : forall c1, c_tasks c1 = del_task (c_tasks c) id -> c_workers c1 = c_workers c -> R c c1).
  { intros c1 E Ew. split; [|apply Dm_eq; exact Ew]. intros t' Hin. rewrite E in Hin. left. exists t'. split; [eapply del_task_in; exact Hin | auto]. }
  destruct (t_state t); try (inversion H; subst; apply R0; reflexivity).
  apply bind_ok in H. destruct H as (c2 & H2 & H).
  assert (E2 : c_tasks c2 = del_task (c_tasks c) id /\ c_workers c2 = c_workers c).
  { destruct (N.eqb unfinished_deps 0); [inv_binds H2|]; inversion H2; subst; auto. }
  destruct E2 as [T2 W2].
  destruct (N.ltb 0 unfinished_deps); [|inversion H; subst; apply R0; assumption].
  apply bind_ok in H. destruct H as (ts & Hr & H). inversion H; subst.
  eapply R_trans; [apply (R0 c2); assumption|].
  split; [|apply Dm_eq; reflexivity]. intros t' Hin. left. eapply remove_consumer_from_T; [exact Hr | exact Hin].
Qed.

Lemma remove_tasks_batched_R ids : forall c c', remove_tasks_batched c ids = Ok c' -> R c c'.
Proof.
  induction ids as [|id r IH]; cbn [remove_tasks_batched]; intros c c' H; [inversion H; subst; apply Rm_refl|].
  apply bind_ok in H. destruct H as ([c1 stt] & H1 & H). eapply R_trans; [eapply remove_task_R; exact H1 | eapply IH; exact H].
Qed.

Lemma remove_waiting_consumers_R l : forall c c', remove_waiting_consumers c l = Ok c' -> R c c'.
Proof.
  induction l as [|id r IH]; cbn [remove_waiting_consumers]; intros c c' H; [inversion H; subst; apply Rm_refl|].
  apply bind_ok in H. destruct H as ([c1 stt] & H1 & H). destruct stt; try discriminate.
  eapply R_trans; [eapply remove_task_R; exact H1 | eapply IH; exact H].
Qed.

Lemma on_cancel_tasks_R s ids s' : on_cancel_tasks s ids = Ok s' -> R (core_of s) (core_of s').
Proof.
  intros H. unfold on_cancel_tasks in H.
  apply bind_ok in H. destruct H as ([[s1 tu] ru] & H1 & H). apply bind_ok in H. destruct H as (c' & H2 & H).
  rewrite (send_all_core _ _ _ H).
  eapply R_trans; [eapply cancel_release_R; exact H1 | eapply remove_tasks_batched_R; exact H2].
Qed.

Lemma process_task_failed_core' s t ab k s' ids : process_task_failed s t ab k = Ok (s', ids) -> core_of s' = core_of s.
Proof.
  unfold process_task_failed. intros H.
  apply bind_ok in H. destruct H as (s1 & H1 & H).
  assert (C1 : core_of s1 = core_of s).
  { unfold abort_tasks in H1. destruct ab; [inversion H1; reflexivity|]. inv_binds H1.
    match goal with X : check_termination _ _ = Ok s1 |- _ => destruct (check_termination_jt _ _ _ X) as [C _]; unfold core_same in C; rewrite C end. reflexivity. }
  apply bind_ok in H. destruct H as (j & _ & H). apply bind_ok in H. destruct H as (j1 & _ & H).
  apply bind_ok in H. destruct H as (s2 & H2 & H).
  assert (C2 : core_of s2 = core_of s1) by (destruct (check_termination_jt _ _ _ H2) as [C _]; exact C).
  apply bind_ok in H. destruct H as (j2 & _ & H).
  assert (Hd : forall s3, abort_tasks s2 (fst t) (non_finished_task_ids j2) = Ok s3 -> core_of s3 = core_of s2).
  { intros s3 H3. unfold abort_tasks in H3. destruct (non_finished_task_ids j2); [inversion H3; reflexivity|]. inv_binds H3.
    match goal with X : check_termination _ _ = Ok s3 |- _ => destruct (check_termination_jt _ _ _ X) as [C _]; unfold core_same in C; rewrite C end. reflexivity. }
  destruct (j_maxfails j2) as [mf|]; [|inversion H; subst; congruence].
  destruct (N.ltb mf (j_nfail j2)); [|inversion H; subst; congruence].
  apply bind_ok in H. destruct H as (s3 & H3 & H). inversion H; subst. rewrite (Hd _ H3). congruence.
Qed.

Lemma task_failed_R s w id k s' : task_failed s w id k = Ok s' -> R (core_of s) (core_of s').
Proof.
  intros H. unfold task_failed in H.
  destruct (find_task (c_tasks (core_of s)) id) as [t|]; [|inversion H; subst; apply Rm_refl].
  apply bind_ok in H. destruct H as (rq & _ & H). apply bind_ok in H. destruct H as (c1 & H1 & H).
  assert (R1 : R (core_of s) c1).
  { destruct w as [wkr|].
    - destruct (rq_is_mn rq).
      + destruct (t_state t); try discriminate. destruct ws as [|w0 ws]; [discriminate|].
        destruct (N.eqb w0 wkr); [|discriminate]. eapply reset_mn_workers_R; exact H1.
      + destruct (t_state t); try (inversion H1; subst; apply Rm_refl).
        * destruct (negb (N.eqb wkr w)); [discriminate|]. inv_binds H1. inversion H1; subst. apply R_tasks; [reflexivity | dm].
        * destruct (negb (N.eqb wkr w)); [discriminate|]. inv_binds H1. inversion H1; subst. apply R_tasks; [reflexivity | dm].
        * destruct (negb (N.eqb wkr w)); [discriminate|]. eapply try_remove_redirection_R; exact H1.
        * destruct (negb (N.eqb wkr w)); [discriminate|]. inv_binds H1. inversion H1; subst. apply R_tasks; [reflexivity | dm].
    - destruct (is_waiting t); inversion H1; subst. apply Rm_refl. }
  apply bind_ok in H. destruct H as (csm & _ & H).
  apply bind_ok in H. destruct H as (c2 & H2 & H).
  apply bind_ok in H. destruct H as ([c3 stt] & H3 & H).
  apply bind_ok in H. destruct H as (u & _ & H).
  apply bind_ok in H. destruct H as ([s1 cancel_ids] & H4 & H).
  pose proof (process_task_failed_core' _ _ _ _ _ _ H4) as C4. cbn in C4.
  assert (R3 : R (core_of s) (core_of s1)).
  { rewrite C4. eapply R_trans; [exact R1|]. eapply R_trans; [eapply remove_waiting_consumers_R; exact H2 | eapply remove_task_R; exact H3]. }
  destruct cancel_ids; [inversion H; subst; exact R3|].
  eapply R_trans; [exact R3 | eapply on_cancel_tasks_R; exact H].
Qed.

Lemma wake_consumers_R csm : forall c ret c' ret', wake_consumers c csm ret = Ok (c', ret') -> R c c'.
Proof.
  induction csm as [|x r IH]; cbn [wake_consumers]; intros c ret c' ret' H; [inversion H; subst; apply Rm_refl|].
  apply bind_ok in H. destruct H as (t & Ht & H).
  destruct (t_state t) as [n| | | | | |]; try discriminate. destruct (N.eqb n 0); [discriminate|].
  assert (R1 : forall qs, R c (with_queues (upd_task c (with_state t (Waiting (n - 1)))) qs)).
  { intros qs. eapply (R_set_ok _ _ (with_state t (Waiting (n - 1)))); [reflexivity | dm | exact I]. }
  destruct (N.eqb (n - 1) 0).
  - apply bind_ok in H. destruct H as ([qs rt] & _ & H). eapply R_trans; [apply (R1 qs) | eapply IH; exact H].
  - eapply R_trans; [apply (R1 (c_queues c)) | eapply IH; exact H].
Qed.

Lemma task_finished_R s w id s' b : task_finished s w id = Ok (s', b) -> R (core_of s) (core_of s').
Proof.
  intros H. unfold task_finished in H.
  destruct (find_task (c_tasks (core_of s)) id) as [t|]; [|inversion H; subst; apply Rm_refl].
  apply bind_ok in H. destruct H as (rq & _ & H). apply bind_ok in H. destruct H as (c1 & H1 & H).
  assert (R1 : R (core_of s) c1).
  { destruct (t_state t); try discriminate.
    - destruct (negb (N.eqb w0 w)); [discriminate|]. inv_binds H1. inversion H1; subst. apply R_tasks; [reflexivity | dm].
    - destruct (negb (N.eqb w0 w)); [discriminate|]. eapply try_remove_redirection_R; exact H1.
    - destruct (negb (N.eqb w0 w)); [discriminate|]. inv_binds H1. inversion H1; subst. apply R_tasks; [reflexivity | dm].
    - destruct ws; [discriminate|]. destruct (N.eqb w0 w); [|discriminate]. eapply reset_mn_workers_R; exact H1. }
  cbv zeta in H.
  apply bind_ok in H. destruct H as (s1 & Hf & H).
  destruct (process_task_finished_active _ _ _ Hf) as [C1 _]. unfold core_same in C1. cbn in C1.
  apply bind_ok in H. destruct H as ([c3 retracted] & Hw & H).
  apply bind_ok in H. destruct H as (s2 & Hr & H).
  apply bind_ok in H. destruct H as ([c4 stt] & Hrm & H).
  destruct stt; try discriminate. inversion H; subst.
  change (R (core_of s) c4).
  eapply R_trans; [exact R1|].
  eapply R_trans; [eapply (R_set_ok c1 (upd_task c1 (with_state t Finished)) (with_state t Finished)); [reflexivity | dm | exact I]|].
  rewrite <- C1. eapply R_trans; [eapply wake_consumers_R; exact Hw|].
  eapply R_trans; [exact (process_retracted_R (st_core s1 c3) _ _ Hr) | eapply remove_task_R; exact Hrm].
Qed.
